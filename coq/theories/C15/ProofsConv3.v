(* C15 — proofs, part 13: convergence of one restore transaction in nft mode (dirty chains are flushed and
   rewritten whole, unless their non-empty cached hashes already match). *)
From Coq Require Import String List NArith ZArith Arith Bool Lia.
From Verif.C15 Require Import Model Spec Proofs ProofsConv ProofsConv2.
Import ListNotations.

Lemma pass1n_names : forall t c cm, In cm (pass1n t c) -> fst cm = c.
Proof. unfold pass1n. intros t c cm H. destruct (nft_skip t c); simpl in H; intuition; subst; auto. Qed.
Lemma pass2n_names : forall t c cm, In cm (pass2n t c) -> fst cm = c.
Proof.
  unfold pass2n. intros t c cm H. destruct (nft_skip t c); [contradiction|]. destruct (desired t c); [|contradiction].
  apply in_map_iff in H. destruct H as [d [<- _]]. reflexivity.
Qed.
Lemma pass4n_names : forall t c cm, In cm (pass4n t c) -> fst cm = c.
Proof. unfold pass4n. intros t c cm H. destruct (desired t c); simpl in H; intuition; subst; auto. Qed.

Theorem update_converges_nft : forall cf dall t k cs k',
  uhyp cf t k -> apply_cmds_nft cf t = Some cs -> exec dall k cs = Some k' ->
  forall c, get c k' = tgt cf t k c.
Proof.
  intros cf dall t k cs k' U Ha He c.
  pose proof (exec_proj _ _ _ _ He c) as Hr.
  unfold apply_cmds_nft in Ha. destruct (pass3_all cf t (t_dirtyIA t)) as [p3|] eqn:E3; try discriminate.
  inversion Ha; subst cs; clear Ha.
  rewrite !proj_app in Hr.
  rewrite (proj_flat_map c (pass1n t)) in Hr by (try apply pass1n_names; apply U).
  rewrite (proj_flat_map c (pass2n t)) in Hr by (try apply pass2n_names; apply U).
  rewrite (proj_flat_map c (pass4n t)) in Hr by (try apply pass4n_names; apply U).
  rewrite (proj_pass3_all _ _ c _ _ E3 (u_ndia _ _ _ U)) in Hr.
  destruct (owned cf c) eqn:Eo.
  - (* Felix-owned chain *)
    assert (Hia : mem c (t_dirtyIA t) = false).
    { apply mem_false. intros H. apply (u_dirtyIA _ _ _ U) in H. congruence. }
    rewrite Hia in Hr. simpl app in Hr.
    destruct (mem c (t_dirty t)) eqn:Ed.
    2:{ simpl in Hr. injection Hr as Hk'. rewrite <- Hk'. apply (u_marked_owned _ _ _ U); auto. apply mem_false; auto. }
    unfold tgt. rewrite Eo. unfold pass1n, pass2n, pass4n in Hr.
    destruct (nft_skip t c) eqn:Esk.
    + unfold nft_skip in Esk. destruct (desired t c) as [ch|] eqn:Edes; try discriminate.
      simpl in Hr. injection Hr as Hk'. rewrite <- Hk'.
      destruct (get c (t_dp t)) as [[|p prev]|] eqn:Edp; try discriminate.
      apply olist_eqb_true in Esk. rewrite (u_dp _ _ _ U c) in Edp.
      destruct (get c k) as [L|] eqn:Ek; simpl in Edp; try discriminate. simpl. f_equal.
      apply map_lh_eq.
      * rewrite map_lh_lines. congruence.
      * intros l d Hl Hd Hh. eapply (u_nf_owned _ _ _ U); eauto.
    + destruct (desired t c) as [ch|] eqn:Edes.
      * simpl app in Hr. rewrite app_nil_r in Hr. cbn [map snd] in Hr. rewrite map_snd_append in Hr.
        rewrite run_fwd_appends in Hr. injection Hr as Hk'. rewrite <- Hk'. reflexivity.
      * simpl in Hr. injection Hr as Hk'. rewrite <- Hk'. reflexivity.
  - (* chain of other software, possibly hooked *)
    assert (Hd : mem c (t_dirty t) = false).
    { apply mem_false. intros H. apply (u_dirty _ _ _ U) in H. congruence. }
    rewrite Hd in Hr. simpl app in Hr. rewrite app_nil_r in Hr.
    destruct (mem c (t_dirtyIA t)) eqn:Eia.
    2:{ simpl in Hr. injection Hr as Hk'. rewrite <- Hk'. apply (u_marked_hooks _ _ _ U); auto. apply mem_false; auto. }
    apply mem_In in Eia.
    unfold tgt. rewrite Eo.
    set (il := lines_of (rules_of (t_ins t) c)) in *. set (al := lines_of (rules_of (t_app t) c)) in *.
    unfold pass3 in Hr.
    destruct (ia_in_sync cf t c) eqn:Es.
    + (* hashes already in the expected arrangement: nothing written *)
      simpl in Hr. injection Hr as Hk'. rewrite <- Hk'.
      unfold ia_in_sync in Es. apply olist_eqb_true in Es. rewrite (u_dp _ _ _ U c) in Es.
      destruct (get c k) as [L|] eqn:Ek; simpl in Es; try discriminate. simpl. f_equal.
      inversion Es as [Hm]. unfold expected_hashes in Hm. rewrite <- !map_lh_lines in Hm. fold il al in Hm.
      eapply hooks_in_sync with (n := count_zero (map lh L)).
      * intros; eapply (u_hookfelix _ _ _ U); eauto.
      * intros; eapply (u_nf_hooks _ _ _ U); eauto.
      * exact Hm.
    + rewrite (u_dp _ _ _ U c) in Hr.
      destruct (get c k) as [L|] eqn:Ek; simpl option_map in Hr; cbn [oget] in Hr.
      * assert (Hdl : del_lines c 0 (map lh L) (get c (t_full t)) = Some (map (fun l => (c, DV l)) (filter felix_line L))).
        { destruct (existsb felix_line L) eqn:Ef.
          - rewrite (u_full _ _ _ U c L Eo Ek Ef). apply (del_lines_accurate c L []).
          - rewrite filter_felix_nil by auto. apply del_lines_nofelix; auto. }
        rewrite Hdl in Hr. rewrite !map_app, !map_map in Hr. simpl snd in Hr.
        change (map (fun x : line => DV x) (filter felix_line L)) with (map DV (filter felix_line L)) in Hr.
        apply (run_dels dall L [] _ _ (fun x H => match H with end)) in Hr. simpl app in Hr.
        simpl. f_equal. unfold hooked.
        destruct (cf_append cf).
        -- rewrite map_map in Hr. simpl snd in Hr.
           change (map (fun x : line => BAppend x) il) with (map BAppend il) in Hr.
           change (map (fun x : line => BAppend x) al) with (map BAppend al) in Hr.
           rewrite run_appends_rest, run_appends in Hr. inversion Hr. rewrite <- app_assoc. reflexivity.
        -- rewrite map_map in Hr. simpl snd in Hr.
           change (map (fun x : line => BInsert x) (rev il)) with (map BInsert (rev il)) in Hr.
           change (map (fun x : line => BAppend x) al) with (map BAppend al) in Hr.
           rewrite run_inserts, rev_involutive, run_appends in Hr. inversion Hr. rewrite <- app_assoc. reflexivity.
      * (* the chain does not exist: a hook can only fail *)
        simpl del_lines in Hr. simpl app in Hr. simpl.
        destruct (cf_append cf).
        -- destruct (lines_of (rules_of (t_ins t) c)); [destruct (lines_of (rules_of (t_app t) c))|]; simpl in Hr; try discriminate.
           injection Hr as Hk'. rewrite <- Hk'. reflexivity.
        -- destruct (rev (lines_of (rules_of (t_ins t) c))); [destruct (lines_of (rules_of (t_app t) c))|]; simpl in Hr; try discriminate.
           injection Hr as Hk'. rewrite <- Hk'. reflexivity.
Qed.

(* both backends *)
Theorem update_converges_any : forall cf dall t k cs k',
  uhyp cf t k -> apply_cmds cf t = Some cs -> exec dall k cs = Some k' ->
  forall c, get c k' = tgt cf t k c.
Proof.
  intros cf dall t k cs k' U Ha. unfold apply_cmds in Ha. destruct (cf_nft cf).
  - eapply update_converges_nft; eauto.
  - eapply update_converges; eauto.
Qed.
