(* C15 — proofs, part 5: one successful restore transaction computed from an accurate read-back brings
   every chain to its target. *)
From Coq Require Import String List NArith ZArith Arith Bool Lia.
From Verif.C15 Require Import Model Spec Proofs ProofsConv.
Import ListNotations.

Definition tgt (cf : config) (t : table) (k : kernel) (c : string) : option (list line) :=
  if owned cf c then option_map (fun ch => lines_of (ch_rules ch)) (desired t c)
  else option_map (fun L => hooked cf (lines_of (rules_of (t_ins t) c)) (lines_of (rules_of (t_app t) c)) (foreign L))
                  (get c k).

Record uhyp (cf : config) (t : table) (k : kernel) : Prop := {
  u_nd : NoDup (t_dirty t);
  u_ndia : NoDup (t_dirtyIA t);
  u_dirty : forall c, In c (t_dirty t) -> owned cf c = true;
  u_dirtyIA : forall c, In c (t_dirtyIA t) -> owned cf c = false;
  (* the caches are what a read-back of k gives *)
  u_dp : forall c, get c (t_dp t) = option_map (map lh) (get c k);
  u_full : forall c L, owned cf c = false -> get c k = Some L -> existsb felix_line L = true ->
                       get c (t_full t) = Some (full_of L);
  (* rendered hook rules carry a hash *)
  u_hookfelix : forall c l, In l (lines_of (rules_of (t_ins t) c) ++ lines_of (rules_of (t_app t) c)) -> felix_line l = true;
  (* no forged hashes: a kernel line carrying the hash of a wanted rule of its chain is that rule *)
  u_nf_owned : forall c ch L l d, desired t c = Some ch -> get c k = Some L -> In l L ->
                                  In d (lines_of (ch_rules ch)) -> lh l = lh d -> l = d;
  u_nf_hooks : forall c L l d, owned cf c = false -> get c k = Some L -> In l L ->
                               In d (lines_of (rules_of (t_ins t) c) ++ lines_of (rules_of (t_app t) c)) -> lh l = lh d -> l = d;
  (* every chain that the read-back did not mark dirty is already at its target *)
  u_marked_owned : forall c, owned cf c = true -> ~ In c (t_dirty t) -> get c k = tgt cf t k c;
  u_marked_hooks : forall c, owned cf c = false -> ~ In c (t_dirtyIA t) -> get c k = tgt cf t k c
}.

Lemma olist_eqb_true : forall x y, olist_eqb (Some x) y = true -> y = Some x.
Proof. intros x [y|] H; simpl in H; try discriminate. destruct (list_eq_dec N.eq_dec x y); try discriminate. subst. auto. Qed.

Lemma mem_false : forall c l, mem c l = false <-> ~ In c l.
Proof. intros. rewrite <- mem_In. destruct (mem c l); split; intros; congruence. Qed.

Lemma filter_felix_nil : forall L, existsb felix_line L = false -> filter felix_line L = [].
Proof. induction L; simpl; intros; auto. apply orb_false_iff in H. destruct H as [H1 H2]. rewrite H1. auto. Qed.

Lemma map_lh_lines : forall rs, map lh (lines_of rs) = hashes_of rs.
Proof. intros. unfold lines_of, hashes_of. rewrite map_map. reflexivity. Qed.

Lemma run_fwd_appends : forall dall st ds, run_chain dall st (BFwd :: map BAppend ds) = Some (Some ds).
Proof. intros. simpl. rewrite run_appends. reflexivity. Qed.

Theorem update_converges : forall cf dall t k cs k',
  uhyp cf t k -> apply_cmds_legacy cf t = Some cs -> exec dall k cs = Some k' ->
  forall c, get c k' = tgt cf t k c.
Proof.
  intros cf dall t k cs k' U Ha He c.
  pose proof (exec_proj _ _ _ _ He c) as Hr.
  unfold apply_cmds_legacy in Ha. destruct (pass3_all cf t (t_dirtyIA t)) as [p3|] eqn:E3; try discriminate.
  inversion Ha; subst cs; clear Ha.
  rewrite !proj_app in Hr.
  rewrite (proj_flat_map c (pass1 t)) in Hr by (try apply pass1_names; apply U).
  rewrite (proj_flat_map c (pass2 t)) in Hr by (try apply pass2_names; apply U).
  rewrite (proj_flat_map c (pass4 t)) in Hr by (try apply pass4_names; apply U).
  rewrite (proj_pass3_all _ _ c _ _ E3 (u_ndia _ _ _ U)) in Hr.
  destruct (owned cf c) eqn:Eo.
  - (* Felix-owned chain *)
    assert (Hia : mem c (t_dirtyIA t) = false).
    { apply mem_false. intros H. apply (u_dirtyIA _ _ _ U) in H. congruence. }
    rewrite Hia in Hr. simpl app in Hr.
    destruct (mem c (t_dirty t)) eqn:Ed.
    2:{ simpl in Hr. injection Hr as Hk'. rewrite <- Hk'. apply (u_marked_owned _ _ _ U); auto. apply mem_false; auto. }
    unfold tgt. rewrite Eo. unfold pass1, pass2, pass4 in Hr.
    destruct (desired t c) as [ch|] eqn:Edes.
    + rewrite (u_dp _ _ _ U c) in Hr. destruct (get c k) as [L|] eqn:Ek; simpl option_map in Hr.
      * simpl app in Hr. rewrite app_nil_r in Hr. cbn [oget] in Hr.
        assert (HD : run_chain dall (Some ([] ++ L)) (map snd (delta c (length (@nil line)) (length (@nil line) + length (lines_of (ch_rules ch))) (map lh L) (lines_of (ch_rules ch)))) = Some (Some ([] ++ lines_of (ch_rules ch)))).
        { apply delta_run. intros l d Hl Hd Hh. eapply (u_nf_owned _ _ _ U); eauto. }
        simpl in HD. assert (Hlen : length (lines_of (ch_rules ch)) = length (ch_rules ch)) by (unfold lines_of; apply map_length).
        rewrite Hlen in HD. rewrite HD in Hr. inversion Hr. reflexivity.
      * simpl in Hr. rewrite app_nil_r in Hr. rewrite map_snd_append in Hr.
        change (map BAppend (lines_of (ch_rules ch))) with (map BAppend (lines_of (ch_rules ch))) in Hr.
        rewrite run_appends in Hr. inversion Hr. reflexivity.
    + simpl in Hr. inversion Hr. reflexivity.
  - (* chain of other software, possibly hooked *)
    assert (Hd : mem c (t_dirty t) = false).
    { apply mem_false. intros H. apply (u_dirty _ _ _ U) in H. congruence. }
    rewrite Hd in Hr. simpl app in Hr. rewrite app_nil_r in Hr.
    destruct (mem c (t_dirtyIA t)) eqn:Eia.
    2:{ simpl in Hr. injection Hr as Hk'. rewrite <- Hk'. apply (u_marked_hooks _ _ _ U); auto. apply mem_false; auto. }
    apply mem_In in Eia.
    unfold tgt. rewrite Eo.
    set (il := lines_of (rules_of (t_ins t) c)) in *. set (al := lines_of (rules_of (t_app t) c)) in *.
    unfold pass3 in Hr.
    destruct (ia_in_sync cf t c) eqn:Es.
    + (* hashes already in the expected arrangement: nothing written *)
      simpl in Hr. injection Hr as Hk'. rewrite <- Hk'.
      unfold ia_in_sync in Es. apply olist_eqb_true in Es. rewrite (u_dp _ _ _ U c) in Es.
      destruct (get c k) as [L|] eqn:Ek; simpl in Es; try discriminate. simpl. f_equal.
      inversion Es as [Hm]. unfold expected_hashes in Hm. rewrite <- !map_lh_lines in Hm. fold il al in Hm.
      eapply hooks_in_sync with (n := count_zero (map lh L)).
      * intros; eapply (u_hookfelix _ _ _ U); eauto.
      * intros; eapply (u_nf_hooks _ _ _ U); eauto.
      * exact Hm.
    + rewrite (u_dp _ _ _ U c) in Hr.
      destruct (get c k) as [L|] eqn:Ek; simpl option_map in Hr; cbn [oget] in Hr.
      * assert (Hdl : del_lines c 0 (map lh L) (get c (t_full t)) = Some (map (fun l => (c, DV l)) (filter felix_line L))).
        { destruct (existsb felix_line L) eqn:Ef.
          - rewrite (u_full _ _ _ U c L Eo Ek Ef). apply (del_lines_accurate c L []).
          - rewrite filter_felix_nil by auto. apply del_lines_nofelix; auto. }
        rewrite Hdl in Hr. rewrite !map_app, !map_map in Hr. simpl snd in Hr.
        change (map (fun x : line => DV x) (filter felix_line L)) with (map DV (filter felix_line L)) in Hr.
        apply (run_dels dall L [] _ _ (fun x H => match H with end)) in Hr. simpl app in Hr.
        simpl. f_equal. unfold hooked.
        destruct (cf_append cf).
        -- rewrite map_map in Hr. simpl snd in Hr.
           change (map (fun x : line => BAppend x) il) with (map BAppend il) in Hr.
           change (map (fun x : line => BAppend x) al) with (map BAppend al) in Hr.
           rewrite run_appends_rest, run_appends in Hr. inversion Hr. rewrite <- app_assoc. reflexivity.
        -- rewrite map_map in Hr. simpl snd in Hr.
           change (map (fun x : line => BInsert x) (rev il)) with (map BInsert (rev il)) in Hr.
           change (map (fun x : line => BAppend x) al) with (map BAppend al) in Hr.
           rewrite run_inserts, rev_involutive, run_appends in Hr. inversion Hr. rewrite <- app_assoc. reflexivity.
      * (* the chain does not exist: a hook can only fail *)
        simpl del_lines in Hr. simpl app in Hr. simpl.
        destruct (cf_append cf).
        -- destruct (lines_of (rules_of (t_ins t) c)); [destruct (lines_of (rules_of (t_app t) c))|]; simpl in Hr; try discriminate.
           injection Hr as Hk'. rewrite <- Hk'. reflexivity.
        -- destruct (rev (lines_of (rules_of (t_ins t) c))); [destruct (lines_of (rules_of (t_app t) c))|]; simpl in Hr; try discriminate.
           injection Hr as Hk'. rewrite <- Hk'. reflexivity.
Qed.

Theorem update_converges' : forall cf dall t k cs k',
  cf_nft cf = false ->
  uhyp cf t k -> apply_cmds cf t = Some cs -> exec dall k cs = Some k' ->
  forall c, get c k' = tgt cf t k c.
Proof.
  intros cf dall t k cs k' Hn U Ha. unfold apply_cmds in Ha. rewrite Hn in Ha. eapply update_converges; eauto.
Qed.
