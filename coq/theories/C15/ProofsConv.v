(* C15 — proofs, part 4: what one restore transaction computed by applyUpdates does to each chain. *)
From Coq Require Import String List NArith ZArith Arith Bool Lia.
From Verif.C15 Require Import Model Spec Proofs.
Import ListNotations.

(* ------------------------------------------------------------------ projection of a transaction on one chain *)
Fixpoint run_chain (dall : bool) (st : option (list line)) (bs : list body) : option (option (list line)) :=
  match bs with
  | [] => Some st
  | b :: bs' => match step_chain dall st b with None => None | Some st' => run_chain dall st' bs' end
  end.
Definition proj (c : string) (cs : list cmd) : list body :=
  map snd (filter (fun cm => String.eqb c (fst cm)) cs).

Lemma exec_proj : forall dall cs k k', exec dall k cs = Some k' ->
  forall c, run_chain dall (get c k) (proj c cs) = Some (get c k').
Proof.
  induction cs as [|[c0 b] cs IH]; simpl; intros k k' He c.
  - inversion He. reflexivity.
  - destruct (step_chain dall (get c0 k) b) as [st'|] eqn:Es; try discriminate.
    unfold proj. simpl. destruct (String.eqb c c0) eqn:E.
    + apply String.eqb_eq in E. subst c0. simpl. rewrite Es.
      rewrite <- (IH _ _ He c). rewrite get_set_chain_same. reflexivity.
    + apply String.eqb_neq in E. rewrite <- (IH _ _ He c). rewrite get_set_chain_other; auto.
Qed.

Lemma proj_app : forall c a b, proj c (a ++ b) = proj c a ++ proj c b.
Proof. intros. unfold proj. rewrite filter_app, map_app. reflexivity. Qed.

Lemma proj_same : forall c l, (forall cm, In cm l -> fst cm = c) -> proj c l = map snd l.
Proof.
  induction l as [|cm l IH]; simpl; intros; auto. unfold proj. simpl.
  rewrite (H cm (or_introl eq_refl)). rewrite String.eqb_refl. simpl. f_equal. apply IH. intros; apply H; auto.
Qed.

Lemma proj_other : forall c l, (forall cm, In cm l -> fst cm <> c) -> proj c l = [].
Proof.
  induction l as [|cm l IH]; simpl; intros; auto. unfold proj. simpl.
  destruct (String.eqb c (fst cm)) eqn:E.
  - apply String.eqb_eq in E. exfalso. eapply H; eauto.
  - apply IH. intros; apply H; auto.
Qed.

Lemma proj_flat_map : forall c f l,
  (forall c' cm, In cm (f c') -> fst cm = c') -> NoDup l ->
  proj c (flat_map f l) = if mem c l then map snd (f c) else [].
Proof.
  intros c f l Hf. induction l as [|a l IH]; simpl; intros Hnd; auto.
  inversion Hnd; subst. rewrite proj_app, (IH H2).
  destruct (String.eqb c a) eqn:E; simpl.
  - apply String.eqb_eq in E. subst a.
    destruct (mem c l) eqn:Em. { apply mem_In in Em. contradiction. }
    rewrite app_nil_r. apply proj_same. intros; eapply Hf; eauto.
  - apply String.eqb_neq in E. rewrite proj_other; auto.
    intros cm Hin Heq. apply Hf in Hin. congruence.
Qed.

Lemma proj_pass3_all : forall cf t c l p3,
  pass3_all cf t l = Some p3 -> NoDup l ->
  proj c p3 = if mem c l then match pass3 cf t c with Some r => map snd r | None => [] end else [].
Proof.
  intros cf t c. induction l as [|a l IH]; simpl; intros p3 Hp Hnd.
  - inversion Hp. reflexivity.
  - destruct (pass3 cf t a) as [ra|] eqn:Ea; try discriminate.
    destruct (pass3_all cf t l) as [rb|] eqn:Eb; try discriminate.
    inversion Hp; subst. inversion Hnd; subst. rewrite proj_app, (IH _ eq_refl H2).
    destruct (String.eqb c a) eqn:E; simpl.
    + apply String.eqb_eq in E. subst a. rewrite Ea.
      destruct (mem c l) eqn:Em. { apply mem_In in Em. contradiction. }
      rewrite app_nil_r. apply proj_same. intros cm Hin. eapply pass3_spec; eauto.
    + apply String.eqb_neq in E. rewrite proj_other; auto.
      intros cm Hin Heq. destruct (pass3_spec _ _ _ _ _ Ea Hin) as [Hn _]. congruence.
Qed.

(* ------------------------------------------------------------------ list surgery *)
Lemma replace_nth_app : forall pre x l L, replace_nth (length pre) x (pre ++ l :: L) = pre ++ x :: L.
Proof. induction pre; simpl; intros; auto. f_equal. apply IHpre. Qed.
Lemma remove_nth_app : forall pre l L, remove_nth (length pre) (pre ++ l :: L) = pre ++ L.
Proof. induction pre; simpl; intros; auto. f_equal. apply IHpre. Qed.

Lemma run_appends : forall dall ds L,
  run_chain dall (Some L) (map BAppend ds) = Some (Some (L ++ ds)).
Proof.
  induction ds as [|d ds IH]; simpl; intros. rewrite app_nil_r; auto.
  rewrite IH. rewrite <- app_assoc. reflexivity.
Qed.

Lemma map_snd_append : forall (c : string) ds, map (@snd string body) (map (fun d : line => (c, BAppend d)) ds) = map BAppend ds.
Proof. intros. rewrite map_map. reflexivity. Qed.

Lemma step_replace : forall dall pre l L d,
  step_chain dall (Some (pre ++ l :: L)) (BReplace (S (length pre)) d) = Some (Some (pre ++ d :: L)).
Proof.
  intros. unfold step_chain.
  assert (H : (1 <=? S (length pre)) && (S (length pre) <=? length (pre ++ l :: L)) = true).
  { apply andb_true_iff; split; apply Nat.leb_le; rewrite ?app_length; simpl; lia. }
  rewrite H. replace (S (length pre) - 1) with (length pre) by lia. rewrite replace_nth_app. reflexivity.
Qed.

Lemma step_delidx : forall dall pre l L,
  step_chain dall (Some (pre ++ l :: L)) (BDelIdx (S (length pre))) = Some (Some (pre ++ L)).
Proof.
  intros. unfold step_chain.
  assert (H : (1 <=? S (length pre)) && (S (length pre) <=? length (pre ++ l :: L)) = true).
  { apply andb_true_iff; split; apply Nat.leb_le; rewrite ?app_length; simpl; lia. }
  rewrite H. replace (S (length pre) - 1) with (length pre) by lia. rewrite remove_nth_app. reflexivity.
Qed.

(* surplus rules are deleted at position (number of wanted rules + 1) *)
Lemma delta_run_surplus : forall dall c L pre i,
  run_chain dall (Some (pre ++ L)) (map snd (delta c i (length pre) (map lh L) [])) = Some (Some pre).
Proof.
  induction L as [|l L IH]; intros. simpl. rewrite app_nil_r; auto.
  simpl map. cbn [run_chain]. rewrite step_delidx. apply IH.
Qed.

(* the positional delta turns any chain content into the wanted rules, provided equal hash means equal line *)
Lemma delta_run : forall dall c L pre ds,
  (forall l d, In l L -> In d ds -> lh l = lh d -> l = d) ->
  run_chain dall (Some (pre ++ L)) (map snd (delta c (length pre) (length pre + length ds) (map lh L) ds))
  = Some (Some (pre ++ ds)).
Proof.
  induction L as [|l L IH]; intros pre ds Hnf.
  - simpl. rewrite map_snd_append, app_nil_r. apply run_appends.
  - destruct ds as [|d ds].
    + simpl (length []). rewrite Nat.add_0_r, app_nil_r. apply delta_run_surplus.
    + assert (Hlen : length pre + length (d :: ds) = length (pre ++ [d]) + length ds).
      { rewrite app_length. simpl. lia. }
      assert (Hlen' : S (length pre) = length (pre ++ [d])).
      { rewrite app_length. simpl. lia. }
      rewrite Hlen. remember (length (pre ++ [d]) + length ds) as nd eqn:End.
      change (map lh (l :: L)) with (lh l :: map lh L). cbn [delta]. rewrite map_app.
      destruct (N.eqb (lh l) (lh d)) eqn:E.
      * apply N.eqb_eq in E. assert (l = d) by (apply Hnf; simpl; auto). subst l. simpl app.
        rewrite Hlen'. subst nd. replace (pre ++ d :: L) with ((pre ++ [d]) ++ L) by (rewrite <- app_assoc; reflexivity).
        rewrite IH. rewrite <- app_assoc. reflexivity.
        intros; apply Hnf; simpl; auto.
      * simpl map at 1. cbn [app run_chain]. rewrite step_replace.
        rewrite Hlen'. subst nd. replace (pre ++ d :: L) with ((pre ++ [d]) ++ L) by (rewrite <- app_assoc; reflexivity).
        rewrite IH. rewrite <- app_assoc. reflexivity.
        intros; apply Hnf; simpl; auto.
Qed.

(* ------------------------------------------------------------------ kernel (hooked) chains *)
Definition DV (l : line) : body := BDelVal (Some l).

Lemma run_chain_app : forall dall a b st,
  run_chain dall st (a ++ b) = match run_chain dall st a with Some st' => run_chain dall st' b | None => None end.
Proof.
  induction a as [|x a IH]; simpl; intros; auto.
  destruct (step_chain dall st x); auto.
Qed.

Lemma existsb_line_in : forall x L, existsb (line_eqb x) L = true <-> In x L.
Proof.
  intros. rewrite existsb_exists. split.
  - intros [y [H1 H2]]. apply line_eqb_eq in H2. subst. auto.
  - intros. exists x. split; auto. apply line_eqb_refl.
Qed.

Lemma remove_first_pre : forall x pre L, ~ In x pre -> remove_first x (pre ++ x :: L) = pre ++ L.
Proof.
  induction pre as [|y pre IH]; simpl; intros.
  - rewrite line_eqb_refl. reflexivity.
  - destruct (line_eqb x y) eqn:E. apply line_eqb_eq in E. subst. exfalso. apply H. auto.
    f_equal. apply IH. intuition.
Qed.

Lemma remove_all_pre : forall x pre L, ~ In x pre -> remove_all x (pre ++ x :: L) = pre ++ remove_all x L.
Proof.
  intros. unfold remove_all. rewrite filter_app. simpl. rewrite line_eqb_refl. simpl. f_equal.
  induction pre as [|y pre IH]; simpl; auto.
  destruct (line_eqb x y) eqn:E. apply line_eqb_eq in E. subst. exfalso. apply H. simpl; auto.
  simpl. f_equal. apply IH. simpl in H. intuition.
Qed.

Lemma remove_all_notin : forall x L, ~ In x L -> remove_all x L = L.
Proof.
  induction L as [|y L IH]; simpl; intros; auto.
  destruct (line_eqb x y) eqn:E. apply line_eqb_eq in E. subst. exfalso. apply H. auto.
  simpl. f_equal. apply IH. intuition.
Qed.

(* with delete-all semantics a second delete of the same text fails *)
Lemma run_dels_absent : forall x F rest S,
  ~ In x S -> In x F -> run_chain true (Some S) (map DV F ++ rest) = None.
Proof.
  induction F as [|y F IH]; simpl; intros rest S Hn Hin. contradiction.
  destruct (existsb (line_eqb y) S) eqn:E; auto.
  destruct Hin as [->|Hin].
  - apply existsb_line_in in E. contradiction.
  - apply IH; auto. intros Hx. apply Hn. unfold remove_all in Hx. apply filter_In in Hx. tauto.
Qed.

(* deleting (by value) every Felix line of the chain, in order, leaves exactly the foreign lines *)
Lemma run_dels : forall dall L2 pre rest st',
  (forall x, In x pre -> felix_line x = false) ->
  run_chain dall (Some (pre ++ L2)) (map DV (filter felix_line L2) ++ rest) = Some st' ->
  run_chain dall (Some (pre ++ foreign L2)) rest = Some st'.
Proof.
  induction L2 as [|x L2 IH]; intros pre rest st' Hpre Hr.
  - simpl in *. auto.
  - simpl filter in Hr. unfold foreign. simpl filter. fold (foreign L2).
    destruct (felix_line x) eqn:Ex; simpl negb; cbv iota.
    + simpl map in Hr. cbn [app run_chain] in Hr. unfold DV at 1 in Hr. unfold step_chain in Hr.
      assert (Hin : existsb (line_eqb x) (pre ++ x :: L2) = true).
      { apply existsb_line_in. apply in_app_iff. simpl. auto. }
      rewrite Hin in Hr.
      assert (Hnp : ~ In x pre). { intros H. apply Hpre in H. congruence. }
      destruct dall.
      * rewrite remove_all_pre in Hr; auto.
        destruct (existsb (line_eqb x) L2) eqn:Ein.
        -- apply existsb_line_in in Ein. exfalso.
           rewrite run_dels_absent with (x := x) in Hr; try discriminate.
           ++ intros H. apply in_app_iff in H. destruct H as [H|H]; auto.
              unfold remove_all in H. apply filter_In in H. destruct H as [_ H]. rewrite line_eqb_refl in H. discriminate.
           ++ apply filter_In. auto.
        -- assert (Hx : ~ In x L2). { intros H. apply existsb_line_in in H. congruence. }
           rewrite remove_all_notin in Hr; auto.
      * rewrite remove_first_pre in Hr; auto.
    + replace (pre ++ x :: foreign L2) with ((pre ++ [x]) ++ foreign L2) by (rewrite <- app_assoc; reflexivity).
      apply IH.
      * intros y Hy. apply in_app_iff in Hy. destruct Hy as [Hy|[<-|[]]]; auto.
      * rewrite <- app_assoc. exact Hr.
Qed.

Definition full_of (L : list line) : list (option line) := map (fun l => if felix_line l then Some l else None) L.

Lemma del_lines_nofelix : forall c L i full, existsb felix_line L = false -> del_lines c i (map lh L) full = Some [].
Proof.
  induction L as [|l L IH]; simpl; intros; auto.
  apply orb_false_iff in H. destruct H as [H1 H2]. unfold felix_line in H1. apply negb_false_iff in H1.
  rewrite H1. apply IH; auto.
Qed.

Lemma del_lines_accurate : forall c L P,
  del_lines c (length P) (map lh L) (Some (full_of (P ++ L)))
  = Some (map (fun l => (c, DV l)) (filter felix_line L)).
Proof.
  induction L as [|l L IH]; simpl; intros; auto.
  unfold felix_line at 1. destruct (N.eqb (lh l) 0) eqn:E; simpl.
  - replace (P ++ l :: L) with ((P ++ [l]) ++ L) by (rewrite <- app_assoc; reflexivity).
    replace (S (length P)) with (length (P ++ [l])) by (rewrite app_length; simpl; lia). apply IH.
  - assert (Hn : nth_error (full_of (P ++ l :: L)) (length P) = Some (Some l)).
    { unfold full_of. rewrite map_app. rewrite nth_error_app2; rewrite map_length; auto.
      rewrite Nat.sub_diag. simpl. unfold felix_line. rewrite E. reflexivity. }
    rewrite Hn.
    replace (P ++ l :: L) with ((P ++ [l]) ++ L) by (rewrite <- app_assoc; reflexivity).
    replace (S (length P)) with (length (P ++ [l])) by (rewrite app_length; simpl; lia).
    rewrite IH. reflexivity.
Qed.

Lemma run_inserts : forall dall xs S rest,
  run_chain dall (Some S) (map BInsert xs ++ rest) = run_chain dall (Some (rev xs ++ S)) rest.
Proof.
  induction xs as [|x xs IH]; simpl; intros; auto.
  rewrite IH. rewrite <- app_assoc. reflexivity.
Qed.

Lemma run_appends_rest : forall dall ds L rest,
  run_chain dall (Some L) (map BAppend ds ++ rest) = run_chain dall (Some (L ++ ds)) rest.
Proof. intros. rewrite run_chain_app, run_appends. reflexivity. Qed.

(* hashes in the expected arrangement + no forged hashes => the chain is hooked correctly *)
Lemma map_lh_eq : forall L D, map lh L = map lh D -> (forall l d, In l L -> In d D -> lh l = lh d -> l = d) -> L = D.
Proof.
  induction L as [|l L IH]; destruct D as [|d D]; simpl; intros; try discriminate; auto.
  inversion H. f_equal. apply H0; auto. apply IH; auto.
Qed.

Lemma map_lh_zero_foreign : forall L n, map lh L = repeat 0%N n -> foreign L = L.
Proof.
  induction L as [|l L IH]; intros n H. reflexivity.
  destruct n; simpl in H; try discriminate. inversion H.
  assert (E : felix_line l = false). { unfold felix_line. rewrite H1. reflexivity. }
  unfold foreign. simpl. rewrite E. simpl. f_equal. apply (IH n). rewrite H2, H1. reflexivity.
Qed.

Lemma foreign_felix_nil : forall L, (forall l, In l L -> felix_line l = true) -> foreign L = [].
Proof.
  induction L as [|l L IH]; intros H. reflexivity.
  unfold foreign. simpl. rewrite (H l (or_introl eq_refl)). simpl. apply IH. intros; apply H; simpl; auto.
Qed.

Lemma hooks_in_sync : forall cf il al L n,
  (forall l, In l (il ++ al) -> felix_line l = true) ->
  (forall l d, In l L -> In d (il ++ al) -> lh l = lh d -> l = d) ->
  map lh L = (if cf_append cf then repeat 0%N n ++ map lh il ++ map lh al else map lh il ++ repeat 0%N n ++ map lh al) ->
  L = hooked cf il al (foreign L).
Proof.
  intros cf il al L n Hf Hnf Hm. unfold hooked. destruct (cf_append cf).
  - apply map_eq_app in Hm. destruct Hm as [L1 [L23 [-> [H1 H23]]]].
    apply map_eq_app in H23. destruct H23 as [L2 [L3 [-> [H2 H3]]]].
    assert (L2 = il). { apply map_lh_eq; auto. intros; apply Hnf; auto; rewrite !in_app_iff; auto. }
    assert (L3 = al). { apply map_lh_eq; auto. intros; apply Hnf; auto; rewrite !in_app_iff; auto. }
    subst. rewrite !foreign_app. rewrite (map_lh_zero_foreign _ _ H1).
    rewrite (foreign_felix_nil il), (foreign_felix_nil al); try (intros; apply Hf; rewrite in_app_iff; auto).
    rewrite app_nil_r. reflexivity.
  - apply map_eq_app in Hm. destruct Hm as [L1 [L23 [-> [H1 H23]]]].
    apply map_eq_app in H23. destruct H23 as [L2 [L3 [-> [H2 H3]]]].
    assert (L1 = il). { apply map_lh_eq; auto. intros; apply Hnf; auto; rewrite !in_app_iff; auto. }
    assert (L3 = al). { apply map_lh_eq; auto. intros; apply Hnf; auto; rewrite !in_app_iff; auto. }
    subst. rewrite !foreign_app. rewrite (map_lh_zero_foreign _ _ H2).
    rewrite (foreign_felix_nil il), (foreign_felix_nil al); try (intros; apply Hf; rewrite in_app_iff; auto).
    rewrite app_nil_r. reflexivity.
Qed.
