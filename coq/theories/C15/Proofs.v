(* C15 — proofs (part 1): map lemmas. *)
From Coq Require Import String List NArith ZArith Arith Bool Lia.
From Verif.C15 Require Import Model Spec.
Import ListNotations.

Lemma get_put_same : forall {V} (k : string) (v : V) m, get k (put k v m) = Some v.
Proof. intros. unfold put. simpl. rewrite String.eqb_refl. reflexivity. Qed.
