(* C15 — proofs, part 1: maps, the kernel side (exec), "benign" commands never touch foreign rules,
   the restore input of applyUpdates is benign on every chain Felix does not own. *)
From Coq Require Import String List NArith ZArith Arith Bool Lia.
From Verif.C15 Require Import Model Spec.
Import ListNotations.

(* ------------------------------------------------------------------ maps *)
Lemma get_put_same : forall {V} (k : string) (v : V) m, get k (put k v m) = Some v.
Proof. intros. unfold put. simpl. rewrite String.eqb_refl. reflexivity. Qed.

Lemma get_put_other : forall {V} (k k' : string) (v : V) m, k <> k' -> get k (put k' v m) = get k m.
Proof. intros. unfold put. simpl. destruct (String.eqb k k') eqn:E; auto. apply String.eqb_eq in E. contradiction. Qed.

Lemma get_del_same : forall {V} (k : string) (m : smap V), get k (del k m) = None.
Proof.
  induction m as [|[k' v] m IH]; simpl; auto.
  destruct (String.eqb k k') eqn:E; simpl; auto. rewrite E. auto.
Qed.

Lemma get_del_other : forall {V} (k k' : string) (m : smap V), k <> k' -> get k (del k' m) = get k m.
Proof.
  induction m as [|[k2 v] m IH]; simpl; intros; auto.
  destruct (String.eqb k' k2) eqn:E; simpl.
  - apply String.eqb_eq in E. subst. destruct (String.eqb k k2) eqn:E2; auto.
    apply String.eqb_eq in E2. contradiction.
  - destruct (String.eqb k k2); auto.
Qed.

Lemma get_set_chain_same : forall c st (k : kernel), get c (set_chain c st k) = st.
Proof. intros. destruct st; simpl. apply get_put_same. apply get_del_same. Qed.

Lemma get_set_chain_other : forall c c' st (k : kernel), c <> c' -> get c (set_chain c' st k) = get c k.
Proof. intros. destruct st; simpl. apply get_put_other; auto. apply get_del_other; auto. Qed.

Lemma mem_In : forall c l, mem c l = true <-> In c l.
Proof.
  unfold mem. intros. rewrite existsb_exists. split.
  - intros [x [H1 H2]]. apply String.eqb_eq in H2. subst. auto.
  - intros. exists c. split; auto. apply String.eqb_refl.
Qed.

Lemma In_add_set : forall c x l, In x (add_set c l) <-> x = c \/ In x l.
Proof.
  unfold add_set. intros. destruct (mem c l) eqn:E.
  - apply mem_In in E. split; auto. intros [->|]; auto.
  - rewrite in_app_iff. simpl. split; intros; intuition.
Qed.

(* ------------------------------------------------------------------ lines *)
Lemma line_eqb_eq : forall a b, line_eqb a b = true <-> a = b.
Proof.
  unfold line_eqb. intros [h1 i1] [h2 i2]. simpl. rewrite andb_true_iff, !N.eqb_eq. split.
  - intros [-> ->]. reflexivity.
  - intros H. inversion H. auto.
Qed.

Lemma line_eqb_refl : forall a, line_eqb a a = true.
Proof. intros. apply line_eqb_eq. reflexivity. Qed.

Lemma lines_eqb_eq : forall a b, lines_eqb a b = true <-> a = b.
Proof.
  induction a as [|x a IH]; destruct b as [|y b]; simpl; split; intros; try congruence; auto.
  - apply andb_true_iff in H. destruct H as [H1 H2]. apply line_eqb_eq in H1. apply IH in H2. subst. auto.
  - inversion H. subst. rewrite line_eqb_refl. simpl. apply IH. auto.
Qed.

Lemma foreign_app : forall a b, foreign (a ++ b) = foreign a ++ foreign b.
Proof. intros. unfold foreign. apply filter_app. Qed.

Lemma foreign_remove_all : forall l L, felix_line l = true -> foreign (remove_all l L) = foreign L.
Proof.
  intros l L Hl. induction L as [|y L IH]; simpl; auto.
  destruct (line_eqb l y) eqn:E; simpl.
  - apply line_eqb_eq in E. subst. rewrite Hl. simpl. auto.
  - rewrite IH. reflexivity.
Qed.

Lemma foreign_remove_first : forall l L, felix_line l = true -> foreign (remove_first l L) = foreign L.
Proof.
  intros l L Hl. induction L as [|y L IH]; simpl; auto.
  destruct (line_eqb l y) eqn:E; simpl.
  - apply line_eqb_eq in E. subst. rewrite Hl. simpl. auto.
  - rewrite IH. reflexivity.
Qed.

(* ------------------------------------------------------------------ benign commands *)
(* what Felix may do to a chain it does not own: delete (by value) / insert / append lines that carry
   one of its hashes *)
Definition benign (b : body) : Prop :=
  match b with
  | BDelVal (Some l) => felix_line l = true
  | BDelVal None => True
  | BInsert l => felix_line l = true
  | BAppend l => felix_line l = true
  | _ => False
  end.

Definition omf (st : option (list line)) : option (list line) := option_map foreign st.

Lemma step_benign : forall dall st b st', benign b -> step_chain dall st b = Some st' -> omf st' = omf st.
Proof.
  intros dall st b st' Hb Hs. destruct b; simpl in Hb; try contradiction.
  - destruct st as [L|]; simpl in Hs; inversion Hs; subst. simpl. rewrite foreign_app. simpl. rewrite Hb. simpl.
    rewrite app_nil_r. reflexivity.
  - destruct st as [L|]; simpl in Hs; inversion Hs; subst. simpl. rewrite Hb. reflexivity.
  - destruct l as [l|]; destruct st as [L|]; simpl in Hs; try discriminate.
    destruct (existsb (line_eqb l) L); try discriminate. inversion Hs; subst. simpl.
    destruct dall; [rewrite foreign_remove_all|rewrite foreign_remove_first]; auto.
Qed.

Definition benign_for (cf : config) (cm : cmd) : Prop := owned cf (fst cm) = true \/ benign (snd cm).

Lemma exec_benign : forall cf dall cs k k',
  Forall (benign_for cf) cs -> exec dall k cs = Some k' ->
  forall c, owned cf c = false -> omf (get c k') = omf (get c k).
Proof.
  induction cs as [|[c0 b] cs IH]; simpl; intros k k' HF He c Hc.
  - inversion He. reflexivity.
  - inversion HF as [|x l Hx HF']; subst.
    destruct (step_chain dall (get c0 k) b) as [st'|] eqn:Es; try discriminate.
    rewrite (IH _ _ HF' He c Hc).
    destruct (String.eqb c c0) eqn:E.
    + apply String.eqb_eq in E. subst c0. rewrite get_set_chain_same.
      destruct Hx as [Hx|Hx]; simpl in Hx. congruence.
      eapply step_benign; eauto.
    + apply String.eqb_neq in E. rewrite get_set_chain_other; auto.
Qed.

(* ------------------------------------------------------------------ names of generated commands *)
Lemma delta_names : forall c prev i nd ds cm, In cm (delta c i nd prev ds) -> fst cm = c.
Proof.
  induction prev as [|p prev IH]; simpl; intros.
  - apply in_map_iff in H. destruct H as [d [<- _]]. reflexivity.
  - destruct ds as [|d ds].
    + destruct H as [<-|H]; auto. eapply IH; eauto.
    + apply in_app_iff in H. destruct H as [H|H]; [|eapply IH; eauto].
      destruct (N.eqb p (lh d)); simpl in H; intuition. subst. reflexivity.
Qed.

Lemma pass1_names : forall t c cm, In cm (pass1 t c) -> fst cm = c.
Proof.
  unfold pass1. intros. destruct (desired t c); [destruct (get c (t_dp t))|]; simpl in H; intuition; subst; auto.
Qed.
Lemma pass2_names : forall t c cm, In cm (pass2 t c) -> fst cm = c.
Proof. unfold pass2. intros. destruct (desired t c); simpl in H; [eapply delta_names; eauto|contradiction]. Qed.
Lemma pass4_names : forall t c cm, In cm (pass4 t c) -> fst cm = c.
Proof. unfold pass4. intros. destruct (desired t c); simpl in H; intuition; subst; auto. Qed.

Lemma del_lines_spec : forall c prev i full r cm,
  del_lines c i prev full = Some r -> In cm r ->
  fst cm = c /\ exists fr j ol, full = Some fr /\ nth_error fr j = Some ol /\ snd cm = BDelVal ol.
Proof.
  induction prev as [|h prev IH]; simpl; intros i full r cm Hd Hin.
  - inversion Hd; subst. contradiction.
  - destruct (N.eqb h 0). eapply IH; eauto.
    destruct full as [fr|]; try discriminate.
    destruct (nth_error fr i) as [ol|] eqn:En; try discriminate.
    destruct (del_lines c (S i) prev (Some fr)) as [r'|] eqn:Er; try discriminate.
    inversion Hd; subst. destruct Hin as [<-|Hin].
    + simpl. split; auto. exists fr, i, ol. auto.
    + eapply IH; eauto.
Qed.

Lemma pass3_spec : forall cf t c r cm,
  pass3 cf t c = Some r -> In cm r ->
  fst cm = c /\
  ((exists fr j ol, get c (t_full t) = Some fr /\ nth_error fr j = Some ol /\ snd cm = BDelVal ol)
   \/ (exists ru, In ru (rules_of (t_ins t) c) /\ (snd cm = BInsert (r_line ru) \/ snd cm = BAppend (r_line ru)))
   \/ (exists ru, In ru (rules_of (t_app t) c) /\ snd cm = BAppend (r_line ru))).
Proof.
  unfold pass3. intros cf t c r cm Hp Hin.
  destruct (ia_in_sync cf t c). { inversion Hp; subst. contradiction. }
  destruct (del_lines c 0 (oget (get c (t_dp t))) (get c (t_full t))) as [dels|] eqn:Ed; try discriminate.
  inversion Hp; subst. clear Hp.
  apply in_app_iff in Hin. destruct Hin as [Hin|Hin].
  - destruct (del_lines_spec _ _ _ _ _ _ Ed Hin) as [H1 H2]. split; auto.
  - apply in_app_iff in Hin. destruct Hin as [Hin|Hin].
    + destruct (cf_append cf).
      * apply in_map_iff in Hin. destruct Hin as [l [<- Hl]]. unfold lines_of in Hl. apply in_map_iff in Hl.
        destruct Hl as [ru [<- Hru]]. split; auto. right. left. exists ru. auto.
      * apply in_map_iff in Hin. destruct Hin as [l [<- Hl]]. apply in_rev in Hl. unfold lines_of in Hl.
        apply in_map_iff in Hl. destruct Hl as [ru [<- Hru]]. split; auto. right. left. exists ru. auto.
    + apply in_map_iff in Hin. destruct Hin as [l [<- Hl]]. unfold lines_of in Hl. apply in_map_iff in Hl.
      destruct Hl as [ru [<- Hru]]. split; auto. right. right. exists ru. auto.
Qed.

Lemma pass3_all_spec : forall cf t cs r cm,
  pass3_all cf t cs = Some r -> In cm r -> exists c r', In c cs /\ pass3 cf t c = Some r' /\ In cm r'.
Proof.
  induction cs as [|c cs IH]; simpl; intros r cm Hp Hin.
  - inversion Hp; subst. contradiction.
  - destruct (pass3 cf t c) as [a|] eqn:Ea; try discriminate.
    destruct (pass3_all cf t cs) as [b|] eqn:Eb; try discriminate.
    inversion Hp; subst. apply in_app_iff in Hin. destruct Hin as [Hin|Hin].
    + exists c, a. auto.
    + destruct (IH _ _ eq_refl Hin) as [c' [r' [H1 [H2 H3]]]]. exists c', r'. auto.
Qed.

(* ------------------------------------------------------------------ the "foreign" invariant of a Table *)
(* Needed so that Felix never emits a command against foreign rules:
   dirty chains are Felix-owned names; cached full rules and wanted hook rules carry a Felix hash. *)
Record finv (cf : config) (t : table) : Prop := {
  fi_dirty : forall c, In c (t_dirty t) -> owned cf c = true;
  fi_full : forall c fr l, owned cf c = false -> get c (t_full t) = Some fr -> In (Some l) fr -> felix_line l = true;
  fi_ins : forall c ru, In ru (rules_of (t_ins t) c) -> felix_line (r_line ru) = true;
  fi_app : forall c ru, In ru (rules_of (t_app t) c) -> felix_line (r_line ru) = true
}.

Lemma apply_cmds_legacy_benign : forall cf t cs, finv cf t -> apply_cmds_legacy cf t = Some cs -> Forall (benign_for cf) cs.
Proof.
  intros cf t cs HI Ha. unfold apply_cmds_legacy in Ha.
  destruct (pass3_all cf t (t_dirtyIA t)) as [p3|] eqn:E3; try discriminate. inversion Ha; subst. clear Ha.
  apply Forall_forall. intros cm Hin. unfold benign_for.
  rewrite !in_app_iff in Hin. destruct Hin as [Hin|[Hin|[Hin|Hin]]].
  - apply in_flat_map in Hin. destruct Hin as [c [Hc Hin]]. apply pass1_names in Hin. left. rewrite Hin. apply HI; auto.
  - apply in_flat_map in Hin. destruct Hin as [c [Hc Hin]]. apply pass2_names in Hin. left. rewrite Hin. apply HI; auto.
  - destruct (pass3_all_spec _ _ _ _ _ E3 Hin) as [c [r' [Hc [Hp Hin']]]].
    destruct (pass3_spec _ _ _ _ _ Hp Hin') as [Hn Hk].
    destruct (owned cf (fst cm)) eqn:Eo; auto. right. rewrite Hn in Eo.
    destruct Hk as [[fr [j [ol [Hf [Hnth Hb]]]]]|[[ru [Hru Hb]]|[ru [Hru Hb]]]].
    + rewrite Hb. destruct ol as [l|]; simpl; auto. eapply fi_full; eauto. eapply nth_error_In; eauto.
    + destruct Hb as [Hb|Hb]; rewrite Hb; simpl; eapply fi_ins; eauto.
    + rewrite Hb; simpl; eapply fi_app; eauto.
  - apply in_flat_map in Hin. destruct Hin as [c [Hc Hin]]. apply pass4_names in Hin. left. rewrite Hin. apply HI; auto.
Qed.

Lemma apply_cmds_nft_benign : forall cf t cs, finv cf t -> apply_cmds_nft cf t = Some cs -> Forall (benign_for cf) cs.
Proof.
  intros cf t cs HI Ha. unfold apply_cmds_nft in Ha.
  destruct (pass3_all cf t (t_dirtyIA t)) as [p3|] eqn:E3; try discriminate. inversion Ha; subst. clear Ha.
  assert (N1 : forall c cm, In cm (pass1n t c) -> fst cm = c).
  { unfold pass1n. intros c cm H. destruct (nft_skip t c); simpl in H; intuition; subst; auto. }
  assert (N2 : forall c cm, In cm (pass2n t c) -> fst cm = c).
  { unfold pass2n. intros c cm H. destruct (nft_skip t c); [contradiction|]. destruct (desired t c); [|contradiction].
    apply in_map_iff in H. destruct H as [d [<- _]]. reflexivity. }
  assert (N4 : forall c cm, In cm (pass4n t c) -> fst cm = c).
  { unfold pass4n. intros c cm H. destruct (desired t c); simpl in H; intuition; subst; auto. }
  apply Forall_forall. intros cm Hin. unfold benign_for.
  rewrite !in_app_iff in Hin. destruct Hin as [Hin|[Hin|[Hin|Hin]]].
  - apply in_flat_map in Hin. destruct Hin as [c [Hc Hin]]. apply N1 in Hin. left. rewrite Hin. apply HI; auto.
  - apply in_flat_map in Hin. destruct Hin as [c [Hc Hin]]. apply N2 in Hin. left. rewrite Hin. apply HI; auto.
  - destruct (pass3_all_spec _ _ _ _ _ E3 Hin) as [c [r' [Hc [Hp Hin']]]].
    destruct (pass3_spec _ _ _ _ _ Hp Hin') as [Hn Hk].
    destruct (owned cf (fst cm)) eqn:Eo; auto. right. rewrite Hn in Eo.
    destruct Hk as [[fr [j [ol [Hf [Hnth Hb]]]]]|[[ru [Hru Hb]]|[ru [Hru Hb]]]].
    + rewrite Hb. destruct ol as [l|]; simpl; auto. eapply fi_full; eauto. eapply nth_error_In; eauto.
    + destruct Hb as [Hb|Hb]; rewrite Hb; simpl; eapply fi_ins; eauto.
    + rewrite Hb; simpl; eapply fi_app; eauto.
  - apply in_flat_map in Hin. destruct Hin as [c [Hc Hin]]. apply N4 in Hin. left. rewrite Hin. apply HI; auto.
Qed.

Lemma apply_cmds_benign : forall cf t cs, finv cf t -> apply_cmds cf t = Some cs -> Forall (benign_for cf) cs.
Proof.
  intros cf t cs HI Ha. unfold apply_cmds in Ha. destruct (cf_nft cf).
  - eapply apply_cmds_nft_benign; eauto.
  - eapply apply_cmds_legacy_benign; eauto.
Qed.
