(* C15 — proofs, part 6: histories.  The foreign invariant is carried through every history of applies
   (with any failures), invalidations, out-of-band edits and restarts; for the four API calls its
   preservation (which needs the reference-count recursion) is a hypothesis here. *)
From Coq Require Import String List NArith ZArith Arith Bool Lia.
From Verif.C15 Require Import Model Spec Proofs ProofsForeign.
Import ListNotations.

Definition final (cf : config) (dall : bool) (s : mstate) (ops : list op) : mstate :=
  fold_left (fun s o => fst (step cf dall s o)) ops s.

Definition api_keeps (cf : config) (o : op) : Prop :=
  forall t, finv cf t ->
    match o with
    | OpUpdate c ch => finv cf (update_chain (cf_fix cf) t c ch)
    | OpRemove c => finv cf (remove_chain t c)
    | OpInsert c rs => finv cf (insert_or_append_rules t c rs)
    | OpAppend c rs => finv cf (append_rules t c rs)
    | _ => True
    end.

Lemma step_finv : forall cf dall s o, api_keeps cf o -> finv cf (m_table s) -> finv cf (m_table (fst (step cf dall s o))).
Proof.
  intros cf dall s o Hapi HI. unfold step.
  destruct o as [c ch|c|c rs|c rs| |es| |fs].
  - destruct (m_dead s); simpl; auto; try apply (Hapi _ HI).
  - destruct (m_dead s); simpl; auto; try apply (Hapi _ HI).
  - destruct (m_dead s); simpl; auto; try apply (Hapi _ HI).
  - destruct (m_dead s); simpl; auto; try apply (Hapi _ HI).
  - destruct (m_dead s); simpl; auto; try (apply invalidate_finv; auto).
  - simpl. auto.
  - simpl. apply new_table_finv.
  - destruct (m_dead s); simpl; auto; try (apply apply_foreign_untouched; auto).
Qed.

Theorem history_finv : forall cf dall ops s,
  Forall (api_keeps cf) ops -> finv cf (m_table s) -> finv cf (m_table (final cf dall s ops)).
Proof.
  induction ops as [|o ops IH]; simpl; intros s HF HI; auto.
  inversion HF; subst. apply IH; auto. apply step_finv; auto.
Qed.
