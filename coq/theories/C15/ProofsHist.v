(* C15 — proofs, part 11: histories.  The Table invariant holds after every history of API calls (under the
   API discipline [op_ok]), applies with arbitrary injected failures and racing edits, timer invalidations,
   out-of-band edits, panics and restarts; hence a forced re-read followed by a successful Apply converges. *)
From Coq Require Import String List NArith ZArith Arith Bool Lia.
From Verif.C15 Require Import Model Spec Proofs ProofsForeign ProofsConv ProofsConv2 ProofsLoad ProofsApply ProofsRc ProofsApi.
Import ListNotations.

Definition final (cf : config) (dall : bool) (s : mstate) (ops : list op) : mstate :=
  fold_left (fun s o => fst (step cf dall s o)) ops s.

(* the kernel's own chains are not Felix-owned names *)
Definition cfg_ok (cf : config) : Prop := forall c, In c (cf_kchains cf) -> owned cf c = false.

Lemma hinv_same_wanted : forall cf t t',
  hinv cf t -> winv cf t' -> t_chains t' = t_chains t -> t_ins t' = t_ins t -> t_app t' = t_app t -> hinv cf t'.
Proof. intros cf t t' [W C I A] W' E1 E2 E3. constructor; auto; rewrite ?E1, ?E2, ?E3; auto. Qed.

Lemma load_hinv : forall cf t k, hinv cf t -> hinv cf (load cf t k).
Proof.
  intros cf t k H. pose proof (load_loaded cf t k) as Ld.
  eapply hinv_same_wanted; eauto; try apply Ld. apply load_winv. apply H.
Qed.

Lemma commit_hinv : forall cf t, hinv cf t -> hinv cf (commit cf t).
Proof. intros cf t H. eapply hinv_same_wanted; eauto. apply commit_winv. apply H. Qed.

Lemma apply_loop_hinv : forall cf dall attempts fs t k inputs,
  hinv cf t -> hinv cf (ao_table (apply_loop cf dall attempts fs t k inputs)).
Proof.
  induction attempts as [|a IH]; intros fs t k inputs H. simpl; auto.
  cbn [apply_loop].
  set (sv := if t_insync t then (true, f_saves fs) else try_saves 4 (f_saves fs)).
  destruct (fst sv); cbn [negb]; [|simpl; auto].
  set (t1 := if t_insync t then t else load cf t k).
  assert (H1 : hinv cf t1). { unfold t1. destruct (t_insync t); auto. apply load_hinv; auto. }
  destruct (apply_cmds cf t1) as [cs|]; [|apply IH; auto].
  destruct cs as [|cm cs]. simpl. apply commit_hinv; auto.
  destruct (if rf_fail _ then None else exec dall _ (cm :: cs)).
  - simpl. apply commit_hinv; auto.
  - apply IH. apply invalidate_hinv; auto.
Qed.

Lemma rules_of_const_nil : forall (l : list string) c, rules_of (map (fun c0 : string => (c0, @nil rule)) l) c = [].
Proof. intros. unfold rules_of. induction l; simpl; auto. destruct (String.eqb c a); auto. Qed.

Lemma new_table_hinv : forall cf, cfg_ok cf -> hinv cf (new_table cf).
Proof.
  intros cf Hk. constructor.
  - constructor.
    + apply new_table_finv.
    + simpl. constructor.
    + simpl. apply NoDup_nodup_s.
    + simpl. intros c Hc. apply Hk. apply (proj1 (In_nodup_s c (cf_kchains cf))). exact Hc.
    + intros c Ho _. unfold desired. simpl. destruct (referenced (new_table cf) c); reflexivity.
    + intros c Ho _ _. simpl. rewrite rules_of_const_nil. auto.
  - intros c ch r d Hg. simpl in Hg. discriminate.
  - intros c r d Hr. simpl in Hr. rewrite rules_of_const_nil in Hr. contradiction.
  - intros c r d Hr. simpl in Hr. rewrite rules_of_const_nil in Hr. contradiction.
Qed.

Lemma step_hinv : forall cf dall s o,
  cfg_ok cf -> op_ok cf o -> hinv cf (m_table s) -> hinv cf (m_table (fst (step cf dall s o))).
Proof.
  intros cf dall s o Hk Hok HI. unfold step.
  destruct o as [c ch|c|c rs|c rs| |es| |fs]; simpl in Hok.
  - destruct (m_dead s); simpl; auto. destruct Hok. apply update_chain_hinv; auto.
  - destruct (m_dead s); simpl; auto. apply remove_chain_hinv; auto.
  - destruct (m_dead s); simpl; auto. destruct Hok as [H1 [H2 H3]]. apply insert_hinv; auto.
  - destruct (m_dead s); simpl; auto. destruct Hok as [H1 [H2 H3]]. apply append_hinv; auto.
  - destruct (m_dead s); simpl; auto. apply invalidate_hinv; auto.
  - simpl. auto.
  - simpl. apply new_table_hinv; auto.
  - destruct (m_dead s); simpl; auto. apply apply_loop_hinv; auto.
Qed.

Theorem history_hinv : forall cf dall ops s,
  cfg_ok cf -> Forall (op_ok cf) ops -> hinv cf (m_table s) -> hinv cf (m_table (final cf dall s ops)).
Proof.
  induction ops as [|o ops IH]; simpl; intros s Hk HF HI; auto.
  inversion HF; subst. apply IH; auto. apply step_hinv; auto.
Qed.

Lemma apply_eq : forall cf dall fs t k, apply cf dall fs t k = apply_loop cf dall 11 fs t k [].
Proof. reflexivity. Qed.

(* Any history, then the refresh timer fires and Apply() succeeds: every chain is at its target. *)
Theorem history_converges : forall cf dall k0 ops fs,
  cfg_ok cf -> Forall (op_ok cf) ops ->
  let s := final cf dall (init cf k0) ops in
  let t := invalidate (m_table s) in
  no_racing fs -> noforge cf t (m_kernel s) ->
  let r := apply cf dall fs t (m_kernel s) in
  ao_result r = Success -> forall c, get c (ao_kernel r) = tgt cf t (m_kernel s) c.
Proof.
  intros cf dall k0 ops fs Hk HF s t Hr NF r Hres c.
  assert (H : hinv cf (m_table s)). { apply history_hinv; auto. simpl. apply new_table_hinv; auto. }
  assert (W : winv cf t). { apply invalidate_winv. apply H. }
  subst r. rewrite apply_eq in *.
  pose proof (apply_loop_converges cf dall 11 fs t (m_kernel s) [] W eq_refl Hr NF) as P.
  cbv zeta in P. destruct P as [_ C]. exact (C Hres c).
Qed.

(* ... and on the way, whatever happens, nothing foreign is touched (c15_foreign_untouched applies to every
   Apply of the history, because the history invariant contains finv). *)
Theorem history_finv : forall cf dall k0 ops,
  cfg_ok cf -> Forall (op_ok cf) ops -> finv cf (m_table (final cf dall (init cf k0) ops)).
Proof.
  intros. assert (H' : hinv cf (m_table (final cf dall (init cf k0) ops))).
  { apply history_hinv; auto. simpl. apply new_table_hinv; auto. }
  apply H'.
Qed.

Theorem apply_converges : forall cf dall fs t k,
  winv cf t -> t_insync t = false -> no_racing fs -> noforge cf t k ->
  ao_result (apply cf dall fs t k) = Success ->
  forall c, get c (ao_kernel (apply cf dall fs t k)) = tgt cf t k c.
Proof.
  intros cf dall fs t k W Hs Hr NF Hres c. rewrite apply_eq in *.
  pose proof (apply_loop_converges cf dall 11 fs t k [] W Hs Hr NF) as P.
  cbv zeta in P. destruct P as [_ C]. exact (C Hres c).
Qed.
