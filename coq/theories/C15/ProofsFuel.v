(* C15 — proofs, part 12: the fuel of the incref/decref recursion is sufficient.
   Hypothesis: the chain reference graph is ranked (= acyclic): there is a rank function that strictly
   decreases along every jump/goto of a chain present in the map.  Then any two amounts of fuel above the
   rank of the start chain give the same result, i.e. the fuelled function is the real (terminating)
   recursion.  For an acyclic graph the longest-path rank (0 for a chain that is absent from the map,
   1 + max over its targets otherwise) is such a function and is at most the number of chains in the map
   (a path visits distinct present chains), so the model's fuel_of t = 2 + |map| is above it. *)
From Coq Require Import String List NArith ZArith Arith Bool Lia.
From Verif.C15 Require Import Model.
Import ListNotations.

Definition ranked (chains : smap chain) (rank : string -> nat) : Prop :=
  forall c ch r d, get c chains = Some ch -> In r (ch_rules ch) -> r_ref r = Some d -> rank d < rank c.

Lemma fold_chains : forall (g : table -> rule -> table) ch0 rs t,
  (forall t' r, t_chains t' = ch0 -> t_chains (g t' r) = ch0) -> t_chains t = ch0 -> t_chains (fold_left g rs t) = ch0.
Proof. induction rs as [|r rs IH]; simpl; intros; auto. Qed.

Lemma incref_chains : forall f t c, t_chains (incref f t c) = t_chains t.
Proof.
  induction f as [|f IH]; intros t c; auto. cbn [incref].
  destruct (rcget t c + 1 =? 1)%Z; auto.
  set (t2 := mark_dirty (with_rc t (put c (rcget t c + 1)%Z (t_rc t))) c).
  destruct (get c (t_chains t2)); auto.
  apply (fold_chains _ (t_chains t)); auto.
  intros t' r Ht'. destruct (r_ref r); auto. rewrite IH. auto.
Qed.

Lemma decref_chains : forall f t c, t_chains (decref f t c) = t_chains t.
Proof.
  induction f as [|f IH]; intros t c; auto. cbn [decref].
  destruct (rcget t c =? 1)%Z; auto. simpl.
  destruct (get c (t_chains t)); auto.
  apply (fold_chains _ (t_chains t)); auto.
  intros t' r Ht'. destruct (r_ref r); auto. rewrite IH. auto.
Qed.

Lemma fold_congr : forall (g g' : table -> rule -> table) ch0 rs t,
  (forall t' r, In r rs -> t_chains t' = ch0 -> g t' r = g' t' r) ->
  (forall t' r, t_chains t' = ch0 -> t_chains (g t' r) = ch0) ->
  t_chains t = ch0 -> fold_left g rs t = fold_left g' rs t.
Proof.
  induction rs as [|r rs IH]; simpl; intros t Hg Hc Ht; auto.
  rewrite <- (Hg t r) by auto. apply IH; auto.
Qed.

Theorem incref_fuel : forall rank f f' t c,
  ranked (t_chains t) rank -> rank c < f -> rank c < f' -> incref f t c = incref f' t c.
Proof.
  intros rank. induction f as [|f IH]; intros f' t c Hr H1 H2. lia.
  destruct f' as [|f']. lia. cbn [incref].
  destruct (rcget t c + 1 =? 1)%Z; auto.
  set (t2 := mark_dirty (with_rc t (put c (rcget t c + 1)%Z (t_rc t))) c).
  change (t_chains t2) with (t_chains t).
  destruct (get c (t_chains t)) as [ch|] eqn:Eg; auto.
  apply (fold_congr _ _ (t_chains t)); auto.
  - intros t' r Hin Ht'. destruct (r_ref r) as [d|] eqn:Er; auto.
    assert (rank d < rank c) by (eapply Hr; eauto).
    apply IH; try lia. rewrite Ht'. auto.
  - intros t' r Ht'. destruct (r_ref r); auto. rewrite incref_chains. auto.
Qed.

Theorem decref_fuel : forall rank f f' t c,
  ranked (t_chains t) rank -> rank c < f -> rank c < f' -> decref f t c = decref f' t c.
Proof.
  intros rank. induction f as [|f IH]; intros f' t c Hr H1 H2. lia.
  destruct f' as [|f']. lia. cbn [decref].
  destruct (rcget t c =? 1)%Z; auto.
  destruct (get c (t_chains t)) as [ch|] eqn:Eg; auto.
  assert (E : fold_left (fun t0 r => match r_ref r with Some d => decref f t0 d | None => t0 end) (ch_rules ch) t
            = fold_left (fun t0 r => match r_ref r with Some d => decref f' t0 d | None => t0 end) (ch_rules ch) t).
  { apply (fold_congr _ _ (t_chains t)); auto.
    - intros t' r Hin Ht'. destruct (r_ref r) as [d|] eqn:Er; auto.
      assert (rank d < rank c) by (eapply Hr; eauto).
      apply IH; try lia. rewrite Ht'. auto.
    - intros t' r Ht'. destruct (r_ref r); auto. rewrite decref_chains. auto. }
  rewrite E. reflexivity.
Qed.

(* the model's fuel: more fuel changes nothing *)
Corollary model_fuel_sufficient : forall rank t c f,
  ranked (t_chains t) rank -> rank c <= S (length (t_chains t)) -> fuel_of t <= f ->
  incref f t c = incref (fuel_of t) t c /\ decref f t c = decref (fuel_of t) t c.
Proof.
  intros rank t c f Hr Hb Hf. unfold fuel_of in *. split.
  - apply (incref_fuel rank); auto; lia.
  - apply (decref_fuel rank); auto; lia.
Qed.
