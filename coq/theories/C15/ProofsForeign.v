(* C15 — proofs, part 2: the foreign invariant is kept by load / commit, and a whole Apply() (any
   number of failed attempts, injected failures, racing edits, stale caches) changes nothing that
   Felix does not own. *)
From Coq Require Import String List NArith ZArith Arith Bool Lia.
From Verif.C15 Require Import Model Spec Proofs.
Import ListNotations.

Ltac dm :=
  match goal with
  | |- context [if ?x then _ else _] => destruct x eqn:?
  | |- context [match ?x with _ => _ end] => destruct x eqn:?
  end.

Lemma fold_left_inv : forall {A B} (P : A -> Prop) (f : A -> B -> A) l a,
  (forall a b, P a -> P (f a b)) -> P a -> P (fold_left f l a).
Proof. induction l; simpl; intros; auto. Qed.

(* load keeps ins/app and only adds owned names to the dirty set *)
Definition linv (cf : config) (t0 t : table) : Prop :=
  t_ins t = t_ins t0 /\ t_app t = t_app t0 /\ (forall c, In c (t_dirty t) -> owned cf c = true).

Lemma load_check1_linv : forall cf rh t0 t c, linv cf t0 t -> linv cf t0 (load_check1 cf rh t c).
Proof.
  unfold linv, load_check1, mark_dirty. intros cf rh t0 t c [H1 [H2 H3]].
  repeat dm; simpl; repeat split; auto.
  intros x Hx. apply In_add_set in Hx. destruct Hx as [->|Hx]; auto.
  destruct (owned cf c); simpl in *; congruence.
Qed.

Lemma load_check2_linv : forall cf rh t0 t c, linv cf t0 t -> linv cf t0 (load_check2 cf rh t c).
Proof.
  unfold linv, load_check2, mark_dirty. intros cf rh t0 t c [H1 [H2 H3]].
  repeat dm; simpl; repeat split; auto.
  intros x Hx. apply In_add_set in Hx. destruct Hx as [->|Hx]; auto.
  destruct (owned cf c); simpl in *; congruence.
Qed.

Lemma get_read_full : forall cf k ks c fr,
  get c (flat_map (fun c =>
    match get c k with
    | Some L => if negb (owned cf c) && existsb felix_line L
                then [(c, map (fun l => if felix_line l then Some l else None) L)] else []
    | None => []
    end) ks) = Some fr ->
  exists L, fr = map (fun l => if felix_line l then Some l else None) L.
Proof.
  induction ks as [|c0 ks IH]; simpl; intros c fr H; try discriminate.
  destruct (get c0 k) as [L|]; simpl in H; [|eapply IH; eauto].
  destruct (negb (owned cf c0) && existsb felix_line L); simpl in H; [|eapply IH; eauto].
  destruct (String.eqb c c0); [|eapply IH; eauto]. inversion H. eauto.
Qed.

Lemma read_full_felix : forall cf k c fr l, get c (read_full cf k) = Some fr -> In (Some l) fr -> felix_line l = true.
Proof.
  intros cf k c fr l H Hin. apply get_read_full in H. destruct H as [L ->].
  apply in_map_iff in Hin. destruct Hin as [x [Hx _]]. destruct (felix_line x) eqn:E; inversion Hx; subst; auto.
Qed.

Lemma load_finv : forall cf t k, finv cf t -> finv cf (load cf t k).
Proof.
  intros cf t k HI. unfold load.
  set (rh := read_hashes k).
  assert (L : linv cf t (fold_left (load_check2 cf rh) (keys rh) (fold_left (load_check1 cf rh) (keys (t_dp t)) t))).
  { apply fold_left_inv. intros; apply load_check2_linv; auto.
    apply fold_left_inv. intros; apply load_check1_linv; auto.
    repeat split; auto. apply HI. }
  destruct L as [L1 [L2 L3]].
  constructor; simpl; auto.
  - intros. eapply read_full_felix; eauto.
  - rewrite L1. apply HI.
  - rewrite L2. apply HI.
Qed.

Lemma invalidate_finv : forall cf t, finv cf t -> finv cf (invalidate t).
Proof. intros cf t [H1 H2 H3 H4]. constructor; simpl; auto. Qed.

Lemma commit_finv : forall cf t, finv cf t -> finv cf (commit cf t).
Proof.
  intros cf t HI. unfold commit. constructor; simpl; try apply HI; try contradiction.
  set (dp1 := fold_left (commit_dp t) (t_dirty t) (t_dp t)).
  assert (P : forall c fr l, owned cf c = false ->
              get c (snd (fold_left (commit_ia cf t) (t_dirtyIA t) (dp1, t_full t))) = Some fr -> In (Some l) fr -> felix_line l = true).
  { apply (fold_left_inv (fun acc => forall c fr l, owned cf c = false -> get c (snd acc) = Some fr -> In (Some l) fr -> felix_line l = true)).
    - intros acc c0 Hacc c fr l Ho Hg Hin. unfold commit_ia in Hg. destruct (ia_in_sync cf t c0). eapply Hacc; eauto.
      cbn [snd] in Hg. destruct (String.eqb c c0) eqn:E.
      + apply String.eqb_eq in E. subst c0. rewrite get_put_same in Hg. inversion Hg; subst. clear Hg.
        assert (Hold : forall x, In (Some x) (match get c (t_full t) with Some fr => fr | None => [] end) -> felix_line x = true).
        { intros x Hx. destruct (get c (t_full t)) eqn:Eg; [|contradiction]. eapply fi_full; eauto. }
        assert (Hil : forall x, In (Some x) (map Some (lines_of (rules_of (t_ins t) c))) -> felix_line x = true).
        { intros x Hx. apply in_map_iff in Hx. destruct Hx as [y [Hy Hy2]]. inversion Hy; subst.
          unfold lines_of in Hy2. apply in_map_iff in Hy2. destruct Hy2 as [ru [<- Hru]]. eapply fi_ins; eauto. }
        assert (Hal : forall x, In (Some x) (map Some (lines_of (rules_of (t_app t) c))) -> felix_line x = true).
        { intros x Hx. apply in_map_iff in Hx. destruct Hx as [y [Hy Hy2]]. inversion Hy; subst.
          unfold lines_of in Hy2. apply in_map_iff in Hy2. destruct Hy2 as [ru [<- Hru]]. eapply fi_app; eauto. }
        destruct (cf_append cf); rewrite !in_app_iff in Hin; intuition.
      + apply String.eqb_neq in E. rewrite get_put_other in Hg; auto. eapply Hacc; eauto.
    - simpl. intros. eapply fi_full; eauto. }
  exact P.
Qed.

(* racing edits of the first n restore calls *)
Definition racing (n : nat) (fs : faults) : list edit := concat (map rf_edits (firstn n (f_restores fs))).

Lemma apply_edits_app : forall k a b, apply_edits (apply_edits k a) b = apply_edits k (a ++ b).
Proof. intros. unfold apply_edits. rewrite fold_left_app. reflexivity. Qed.

Lemma apply_loop_foreign : forall cf dall attempts fs t k inputs,
  finv cf t ->
  let r := apply_loop cf dall attempts fs t k inputs in
  finv cf (ao_table r) /\
  exists n, forall c, owned cf c = false ->
    omf (get c (ao_kernel r)) = omf (get c (apply_edits k (racing n fs))).
Proof.
  induction attempts as [|a IH]; intros fs t k inputs HI r; subst r.
  - simpl. split; auto. exists 0. reflexivity.
  - cbn [apply_loop].
    set (sv := if t_insync t then (true, f_saves fs) else try_saves 4 (f_saves fs)).
    set (saves' := snd sv).
    destruct (fst sv); simpl.
    2:{ split; auto. exists 0. reflexivity. }
    set (t1 := if t_insync t then t else load cf t k).
    assert (HI1 : finv cf t1). { unfold t1. destruct (t_insync t); auto. apply load_finv; auto. }
    destruct (apply_cmds cf t1) as [cs|] eqn:Ec.
    2:{ specialize (IH {| f_saves := saves'; f_restores := f_restores fs |} t1 k inputs HI1). simpl in IH.
        destruct IH as [IH1 [n IH2]]. split; auto. exists n. exact IH2. }
    destruct cs as [|cm cs].
    { simpl. split. apply commit_finv; auto. exists 0. reflexivity. }
    set (rf := match f_restores fs with r :: _ => r | [] => {| rf_edits := []; rf_fail := false |} end).
    set (k1 := apply_edits k (rf_edits rf)).
    assert (Hk1 : forall es, apply_edits k1 es = apply_edits k (rf_edits rf ++ es)).
    { intros. unfold k1. apply apply_edits_app. }
    destruct (if rf_fail rf then None else exec dall k1 (cm :: cs)) as [k2|] eqn:Ex.
    + simpl. split. apply commit_finv; auto.
      destruct (rf_fail rf); try discriminate.
      exists 1. intros c Hc.
      rewrite (exec_benign cf dall _ _ _ (apply_cmds_benign _ _ _ HI1 Ec) Ex c Hc).
      unfold k1, racing, rf. destruct (f_restores fs) as [|r0 rs]; simpl; rewrite ?app_nil_r; reflexivity.
    + specialize (IH {| f_saves := saves'; f_restores := tl (f_restores fs) |} (invalidate t1) k1 (inputs ++ [cm :: cs])
                     (invalidate_finv _ _ HI1)). simpl in IH.
      destruct IH as [IH1 [n IH2]]. split; auto.
      destruct (f_restores fs) as [|r0 rs] eqn:Er.
      * exists 0. intros c Hc. rewrite (IH2 c Hc). unfold racing. simpl. rewrite firstn_nil. simpl.
        unfold k1, rf. simpl. reflexivity.
      * exists (S n). intros c Hc. rewrite (IH2 c Hc). unfold racing. simpl. rewrite Er. simpl.
        unfold k1, rf. rewrite apply_edits_app. reflexivity.
Qed.

Theorem apply_foreign_untouched : forall cf dall fs t k,
  finv cf t ->
  finv cf (ao_table (apply cf dall fs t k)) /\
  exists n, forall c, owned cf c = false ->
    omf (get c (ao_kernel (apply cf dall fs t k))) = omf (get c (apply_edits k (racing n fs))).
Proof. intros. apply apply_loop_foreign. auto. Qed.

Lemma new_table_finv : forall cf, finv cf (new_table cf).
Proof.
  intros cf. constructor; simpl; try contradiction; try discriminate.
  - intros c ru H. unfold rules_of in H.
    assert (G : forall l, match get c (map (fun c0 : string => (c0, @nil rule)) l) with Some r => r | None => [] end = []).
    { induction l; simpl; auto. destruct (String.eqb c a); auto. }
    rewrite G in H. contradiction.
  - intros c ru H. unfold rules_of in H.
    assert (G : forall l, match get c (map (fun c0 : string => (c0, @nil rule)) l) with Some r => r | None => [] end = []).
    { induction l; simpl; auto. destruct (String.eqb c a); auto. }
    rewrite G in H. contradiction.
Qed.
