(* C15 — proofs, part 9: the reference-count recursion (increfChain / decrefChain) only marks Felix-owned
   chains dirty, marks every chain whose referenced-ness flips, and touches nothing else. *)
From Coq Require Import String List NArith ZArith Arith Bool Lia.
From Verif.C15 Require Import Model Spec Proofs ProofsForeign ProofsConv ProofsConv2 ProofsLoad ProofsApply.
Import ListNotations.

Definition refs_owned (cf : config) (chains : smap chain) : Prop :=
  forall c ch r d, get c chains = Some ch -> In r (ch_rules ch) -> r_ref r = Some d -> owned cf d = true.
Definition rules_refs_owned (cf : config) (rs : list rule) : Prop :=
  forall r d, In r rs -> r_ref r = Some d -> owned cf d = true.

Record rcrel (cf : config) (t t' : table) : Prop := {
  rr_ins : t_ins t' = t_ins t;
  rr_app : t_app t' = t_app t;
  rr_IA : t_dirtyIA t' = t_dirtyIA t;
  rr_chains : t_chains t' = t_chains t;
  rr_dp : t_dp t' = t_dp t;
  rr_full : t_full t' = t_full t;
  rr_insync : t_insync t' = t_insync t;
  rr_mono : forall x, In x (t_dirty t) -> In x (t_dirty t');
  rr_nd : NoDup (t_dirty t) -> NoDup (t_dirty t');
  rr_new : forall x, In x (t_dirty t') -> In x (t_dirty t) \/ owned cf x = true;
  rr_ref : forall x, ~ In x (t_dirty t') -> referenced t' x = referenced t x
}.

Lemma rcrel_refl : forall cf t, rcrel cf t t.
Proof. intros. constructor; auto. Qed.

Lemma rcrel_trans : forall cf a b c, rcrel cf a b -> rcrel cf b c -> rcrel cf a c.
Proof.
  intros cf a b c [A1 A2 A3 A4 A5 A6 A7 A8 A9 A10 A11] [B1 B2 B3 B4 B5 B6 B7 B8 B9 B10 B11].
  constructor; try congruence; auto.
  - intros x Hx. apply B10 in Hx. destruct Hx as [Hx|Hx]; auto.
  - intros x Hx. rewrite B11 by auto. apply A11. intros H. apply Hx. auto.
Qed.

Lemma rcget_put : forall t c n x, rcget (with_rc t (put c n (t_rc t))) x = if String.eqb x c then n else rcget t x.
Proof.
  intros. unfold rcget. simpl. destruct (String.eqb x c); reflexivity.
Qed.

Lemma rcget_del : forall t c x, rcget (with_rc t (del c (t_rc t))) x = if String.eqb x c then 0%Z else rcget t x.
Proof.
  intros. unfold rcget. simpl. destruct (String.eqb x c) eqn:E.
  - apply String.eqb_eq in E. subst. rewrite get_del_same. reflexivity.
  - apply String.eqb_neq in E. rewrite get_del_other; auto.
Qed.

Lemma fold_rcrel : forall cf (g : table -> rule -> table) rs,
  (forall t r, In r rs -> refs_owned cf (t_chains t) -> rcrel cf t (g t r)) ->
  forall t, refs_owned cf (t_chains t) -> rcrel cf t (fold_left g rs t).
Proof.
  induction rs as [|r rs IH]; simpl; intros Hg t Ht. apply rcrel_refl.
  assert (R : rcrel cf t (g t r)) by (apply Hg; auto).
  eapply rcrel_trans; eauto. apply IH.
  - intros; apply Hg; auto.
  - rewrite (rr_chains _ _ _ R). auto.
Qed.

Lemma incref_rel : forall cf f t c,
  refs_owned cf (t_chains t) -> owned cf c = true -> rcrel cf t (incref f t c).
Proof.
  induction f as [|f IH]; intros t c Hro Hc. apply rcrel_refl.
  cbn [incref].
  set (n := (rcget t c + 1)%Z). set (t1 := with_rc t (put c n (t_rc t))).
  destruct (n =? 1)%Z eqn:En.
  - set (t2 := mark_dirty t1 c).
    assert (R2 : rcrel cf t t2).
    { constructor; simpl; auto.
      - intros x Hx. apply In_add_set. auto.
      - apply NoDup_add_set.
      - intros x Hx. apply In_add_set in Hx. destruct Hx as [->|Hx]; auto.
      - intros x Hx. unfold referenced. unfold t2, mark_dirty.
        replace (rcget (with_dirty t1 (add_set c (t_dirty t1))) x) with (rcget t1 x) by reflexivity.
        unfold t1. rewrite rcget_put. destruct (String.eqb x c) eqn:E; auto.
        apply String.eqb_eq in E. subst x. exfalso. apply Hx. apply In_add_set. auto. }
    destruct (get c (t_chains t2)) as [ch|] eqn:Eg; auto.
    eapply rcrel_trans; eauto. apply fold_rcrel.
    + intros t' r Hr Hro'. destruct (r_ref r) as [d|] eqn:Er; [|apply rcrel_refl]. apply IH; auto.
      eapply Hro; eauto.
    + exact Hro.
  - constructor; simpl; auto.
    intros x Hx. unfold referenced. unfold t1. rewrite rcget_put. destruct (String.eqb x c) eqn:E; auto.
    apply String.eqb_eq in E. subst x. unfold n in *. apply Z.eqb_neq in En.
    destruct (0 <? rcget t c + 1)%Z eqn:A; destruct (0 <? rcget t c)%Z eqn:B; auto;
      try (apply Z.ltb_lt in A); try (apply Z.ltb_lt in B); try (apply Z.ltb_ge in A); try (apply Z.ltb_ge in B); lia.
Qed.

Lemma decref_rel : forall cf f t c,
  refs_owned cf (t_chains t) -> owned cf c = true -> rcrel cf t (decref f t c).
Proof.
  induction f as [|f IH]; intros t c Hro Hc. apply rcrel_refl.
  cbn [decref].
  destruct (rcget t c =? 1)%Z eqn:En.
  - set (t1 := match get c (t_chains t) with
               | Some ch => fold_left (fun t r => match r_ref r with Some d => decref f t d | None => t end) (ch_rules ch) t
               | None => t end).
    assert (R1 : rcrel cf t t1).
    { unfold t1. destruct (get c (t_chains t)) as [ch|] eqn:Eg; [|apply rcrel_refl].
      apply fold_rcrel; auto. intros t' r Hr Hro'. destruct (r_ref r) as [d|] eqn:Er; [|apply rcrel_refl].
      apply IH; auto. eapply Hro; eauto. }
    eapply rcrel_trans; eauto.
    constructor; simpl; auto.
    + intros x Hx. apply In_add_set. auto.
    + apply NoDup_add_set.
    + intros x Hx. apply In_add_set in Hx. destruct Hx as [->|Hx]; auto.
    + intros x Hx. unfold referenced, mark_dirty.
      replace (rcget (with_dirty (with_rc t1 (del c (t_rc t1))) (add_set c (t_dirty (with_rc t1 (del c (t_rc t1)))))) x)
        with (rcget (with_rc t1 (del c (t_rc t1))) x) by reflexivity.
      rewrite rcget_del. destruct (String.eqb x c) eqn:E; auto.
      apply String.eqb_eq in E. subst x. exfalso. apply Hx. apply In_add_set. auto.
  - constructor; simpl; auto.
    intros x Hx. unfold referenced. rewrite rcget_put. destruct (String.eqb x c) eqn:E; auto.
    apply String.eqb_eq in E. subst x. apply Z.eqb_neq in En.
    destruct (0 <? rcget t c - 1)%Z eqn:A; destruct (0 <? rcget t c)%Z eqn:B; auto;
      try (apply Z.ltb_lt in A); try (apply Z.ltb_lt in B); try (apply Z.ltb_ge in A); try (apply Z.ltb_ge in B); lia.
Qed.

Lemma incref_rules_rel : forall cf t rs,
  refs_owned cf (t_chains t) -> rules_refs_owned cf rs -> rcrel cf t (incref_rules t rs).
Proof.
  intros cf t rs Hro Hrs. unfold incref_rules. apply fold_rcrel; auto.
  intros t' r Hr Hro'. destruct (r_ref r) as [d|] eqn:Er; [|apply rcrel_refl]. apply incref_rel; auto. eapply Hrs; eauto.
Qed.

Lemma decref_rules_rel : forall cf t rs,
  refs_owned cf (t_chains t) -> rules_refs_owned cf rs -> rcrel cf t (decref_rules t rs).
Proof.
  intros cf t rs Hro Hrs. unfold decref_rules. apply fold_rcrel; auto.
  intros t' r Hr Hro'. destruct (r_ref r) as [d|] eqn:Er; [|apply rcrel_refl]. apply decref_rel; auto. eapply Hrs; eauto.
Qed.

Lemma maybe_incref_rel : forall cf t p rs,
  refs_owned cf (t_chains t) -> rules_refs_owned cf rs -> rcrel cf t (maybe_incref t p rs).
Proof. intros. unfold maybe_incref. destruct (referenced t p). apply incref_rules_rel; auto. apply rcrel_refl. Qed.

Lemma maybe_decref_rel : forall cf t p rs,
  refs_owned cf (t_chains t) -> rules_refs_owned cf rs -> rcrel cf t (maybe_decref t p rs).
Proof. intros. unfold maybe_decref. destruct (referenced t p). apply decref_rules_rel; auto. apply rcrel_refl. Qed.

(* the Table invariant is transported along rcrel *)
Lemma rcrel_winv : forall cf t t', winv cf t -> rcrel cf t t' -> winv cf t'.
Proof.
  intros cf t t' W R. destruct R as [R1 R2 R3 R4 R5 R6 R7 R8 R9 R10 R11].
  constructor.
  - constructor.
    + intros c Hc. apply R10 in Hc. destruct Hc; auto. apply (fi_dirty _ _ (w_finv _ _ W)); auto.
    + rewrite R6. apply (fi_full _ _ (w_finv _ _ W)).
    + rewrite R1. apply (fi_ins _ _ (w_finv _ _ W)).
    + rewrite R2. apply (fi_app _ _ (w_finv _ _ W)).
  - apply R9. apply W.
  - rewrite R3. apply W.
  - rewrite R3. apply W.
  - intros c Ho Hnd. unfold desired. rewrite R11 by auto. rewrite R4, R5.
    apply (w_owned _ _ W c Ho). intros H. apply Hnd. auto.
  - intros c Ho. rewrite R3, R5, R1, R2. apply (w_hooks _ _ W c Ho).
Qed.
