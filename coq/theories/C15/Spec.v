(* C15 — specification level.  What the property text says about one Apply(), independent of the
   caches / dirty sets / delta computation of the code:
     - target state: every Felix-owned chain that is wanted (present and reachable from the hooks /
       force-programmed) holds exactly its rules, every other Felix-owned chain is gone, every other
       chain keeps exactly its foreign rules in order with Felix's hook rules in the configured position;
     - foreign rules and chains are never touched (even by an Apply that fails or works from a stale read);
     - chains whose content is already the target are not mentioned in the restore input.
   The oracle [ok_run] is evaluated on the IMPLEMENTATION's observations. *)
From Coq Require Import String List NArith ZArith Arith Bool.
From Verif.C15 Require Import Model.
Import ListNotations.
Open Scope list_scope.

Fixpoint lines_eqb (a b : list line) : bool :=
  match a, b with
  | [], [] => true
  | x :: a', y :: b' => line_eqb x y && lines_eqb a' b'
  | _, _ => false
  end.
Definition olines_eqb (a b : option (list line)) : bool :=
  match a, b with
  | None, None => true
  | Some x, Some y => lines_eqb x y
  | _, _ => false
  end.

Definition foreign (L : list line) : list line := filter (fun l => negb (felix_line l)) L.

(* ---- the wanted state, from the API history (last write wins) ---- *)
Record spec_state := { s_chains : smap chain; s_ins : smap (list rule); s_app : smap (list rule) }.

Definition refs (rs : list rule) : list string :=
  flat_map (fun r => match r_ref r with Some d => [d] | None => [] end) rs.

Definition roots (cf : config) (s : spec_state) : list string :=
  flat_map (fun kc => refs (rules_of (s_ins s) kc) ++ refs (rules_of (s_app s) kc)) (cf_kchains cf)
  ++ filter (fun c => match get c (s_chains s) with Some ch => ch_force ch | None => false end) (keys (s_chains s)).
Definition expand (s : spec_state) (reach : list string) : list string :=
  nodup_s (reach ++ flat_map (fun c => match get c (s_chains s) with Some ch => refs (ch_rules ch) | None => [] end) reach).
Fixpoint iter {A} (n : nat) (f : A -> A) (x : A) : A := match n with 0 => x | S n' => iter n' f (f x) end.
Definition reachable (cf : config) (s : spec_state) : list string :=
  iter (S (length (keys (s_chains s)))) (expand s) (nodup_s (roots cf s)).

Definition hooked (cf : config) (ins app : list line) (F : list line) : list line :=
  if cf_append cf then F ++ ins ++ app else ins ++ F ++ app.

(* target content of chain [c] given the kernel [ke] the Apply worked on *)
Definition target (cf : config) (s : spec_state) (reach : list string) (ke : kernel) (c : string) : option (list line) :=
  if owned cf c then
    if mem c reach then option_map (fun ch => lines_of (ch_rules ch)) (get c (s_chains s)) else None
  else
    option_map (fun L => hooked cf (lines_of (rules_of (s_ins s) c)) (lines_of (rules_of (s_app s) c)) (foreign L))
               (get c ke).

Definition spec_step (s : spec_state) (o : op) : spec_state :=
  match o with
  | OpUpdate c ch => {| s_chains := put c ch (s_chains s); s_ins := s_ins s; s_app := s_app s |}
  | OpRemove c => {| s_chains := del c (s_chains s); s_ins := s_ins s; s_app := s_app s |}
  | OpInsert c rs => {| s_chains := s_chains s; s_ins := put c rs (s_ins s); s_app := s_app s |}
  | OpAppend c rs => {| s_chains := s_chains s; s_ins := s_ins s; s_app := put c rs (s_app s) |}
  | _ => s
  end.
Definition spec_init : spec_state := {| s_chains := []; s_ins := []; s_app := [] |}.

(* ---- per-Apply checks ---- *)
Definition foreign_untouched (cf : config) (ke ka : kernel) : bool :=
  forallb (fun c =>
    owned cf c ||
    match get c ke, get c ka with
    | None, None => true
    | Some L, Some L' => lines_eqb (foreign L) (foreign L')
    | _, _ => false
    end) (keys ke ++ keys ka).

Definition converged (cf : config) (s : spec_state) (ke ka : kernel) : bool :=
  let reach := reachable cf s in
  forallb (fun c => olines_eqb (get c ka) (target cf s reach ke c))
          (keys ke ++ keys ka ++ keys (s_chains s)).

Definition no_rewrite (cf : config) (s : spec_state) (ke : kernel) (ments : list (list string)) : bool :=
  let reach := reachable cf s in
  forallb (forallb (fun c =>
    match get c ke with
    | Some L => (cf_nft cf && match L with [] => true | _ => false end)   (* nft mode re-flushes an empty chain: no rule is rewritten *)
                || negb (olines_eqb (Some L) (target cf s reach ke c))
    | None => true     (* create-and-delete of a chain that does not exist rewrites nothing *)
    end)) ments.

Fixpoint take_edits (n : nat) (rfs : list rfault) : list edit :=
  match n, rfs with
  | S n', r :: rfs' => rf_edits r ++ take_edits n' rfs'
  | _, _ => []
  end.

(* oracle state: wanted state, kernel as last observed, [stale] = the kernel was changed behind
   Felix's back and nothing has told the Table to re-read since, [dead] = last Apply panicked *)
Record ostate := { os_spec : spec_state; os_kernel : kernel; os_stale : bool; os_dead : bool }.

Fixpoint ok_run (cf : config) (s : ostate) (ops : list op) (obs : list apply_obs) : bool :=
  match ops with
  | [] => match obs with [] => true | _ => false end
  | o :: ops' =>
      match o with
      | OpEdit es =>
          ok_run cf {| os_spec := os_spec s; os_kernel := apply_edits (os_kernel s) es; os_stale := true; os_dead := os_dead s |} ops' obs
      | OpRestart =>
          ok_run cf {| os_spec := spec_init; os_kernel := os_kernel s; os_stale := false; os_dead := false |} ops' obs
      | _ =>
        if os_dead s then ok_run cf s ops' obs else
        match o with
        | OpInvalidate =>
            ok_run cf {| os_spec := os_spec s; os_kernel := os_kernel s; os_stale := false; os_dead := false |} ops' obs
        | OpApply fs =>
            match obs with
            | [] => false
            | ob :: obs' =>
                let mid := take_edits (length (o_mentions ob)) (f_restores fs) in
                let ke := apply_edits (os_kernel s) mid in
                let ka := o_kernel ob in
                let clean := negb (os_stale s) && match mid with [] => true | _ => false end in
                foreign_untouched cf ke ka
                && (if clean then
                      no_rewrite cf (os_spec s) ke (o_mentions ob)
                      && match o_result ob with Success => converged cf (os_spec s) ke ka | Panic => true end
                    else true)
                && ok_run cf {| os_spec := os_spec s; os_kernel := ka;
                                os_stale := os_stale s || match mid with [] => false | _ => true end;
                                os_dead := match o_result ob with Panic => true | Success => false end |} ops' obs'
            end
        | _ =>
            ok_run cf {| os_spec := spec_step (os_spec s) o; os_kernel := os_kernel s; os_stale := os_stale s; os_dead := false |} ops' obs
        end
      end
  end.

(* ---- model == implementation on the observables ---- *)
Definition result_eqb (a b : result) : bool :=
  match a, b with Success, Success => true | Panic, Panic => true | _, _ => false end.
Definition kernel_eqb (a b : kernel) : bool :=
  forallb (fun c => olines_eqb (get c a) (get c b)) (keys a ++ keys b).
Definition set_eqb (a b : list string) : bool := forallb (fun c => mem c b) a && forallb (fun c => mem c a) b.
Fixpoint ments_eqb (a b : list (list string)) : bool :=
  match a, b with
  | [], [] => true
  | x :: a', y :: b' => set_eqb x y && ments_eqb a' b'
  | _, _ => false
  end.
Fixpoint obs_eqb (a b : list apply_obs) : bool :=
  match a, b with
  | [], [] => true
  | x :: a', y :: b' =>
      result_eqb (o_result x) (o_result y) && kernel_eqb (o_kernel x) (o_kernel y)
      && ments_eqb (o_mentions x) (o_mentions y) && obs_eqb a' b'
  | _, _ => false
  end.

(* one correspondence case, as written by the Go driver *)
Record case := { c_cfg : config; c_dall : bool; c_k0 : kernel; c_ops : list op; c_obs : list apply_obs }.

Definition check_case (c : case) : bool * bool :=
  (obs_eqb (run (c_cfg c) (c_dall c) (init (c_cfg c) (c_k0 c)) (c_ops c)) (c_obs c),
   ok_run (c_cfg c) {| os_spec := spec_init; os_kernel := c_k0 c; os_stale := false; os_dead := false |} (c_ops c) (c_obs c)).

(* short constructors used by the Go driver when printing cases *)
Definition L (h i : N) : line := {| lh := h; lid := i |}.
Definition R (h i : N) (ref : option string) : rule := {| r_line := L h i; r_ref := ref |}.
Definition CH (rs : list rule) (f : bool) : chain := {| ch_rules := rs; ch_force := f |}.
Definition RF (es : list edit) (f : bool) : rfault := {| rf_edits := es; rf_fail := f |}.
Definition FS (s : list bool) (r : list rfault) : faults := {| f_saves := s; f_restores := r |}.
Definition OB (r : result) (k : kernel) (m : list (list string)) : apply_obs := {| o_result := r; o_kernel := k; o_mentions := m |}.
