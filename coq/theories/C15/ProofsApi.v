(* C15 — proofs, part 10: the four API calls keep the Table invariant; histories. *)
From Coq Require Import String List NArith ZArith Arith Bool Lia.
From Verif.C15 Require Import Model Spec Proofs ProofsForeign ProofsConv ProofsConv2 ProofsLoad ProofsApply ProofsRc.
Import ListNotations.

(* history-level invariant: the Table invariant + jump/goto targets are Felix-owned chains *)
Record hinv (cf : config) (t : table) : Prop := {
  h_w : winv cf t;
  h_chains : refs_owned cf (t_chains t);
  h_ins : forall c, rules_refs_owned cf (rules_of (t_ins t) c);
  h_app : forall c, rules_refs_owned cf (rules_of (t_app t) c)
}.

Definition rules_felix (rs : list rule) : Prop := forall r, In r rs -> felix_line (r_line r) = true.

(* API discipline *)
Definition op_ok (cf : config) (o : op) : Prop :=
  match o with
  | OpUpdate c ch => owned cf c = true /\ rules_refs_owned cf (ch_rules ch)
  | OpRemove c => owned cf c = true
  | OpInsert c rs => owned cf c = false /\ rules_refs_owned cf rs /\ rules_felix rs
  | OpAppend c rs => owned cf c = false /\ rules_refs_owned cf rs /\ rules_felix rs
  | _ => True
  end.

Lemma rules_of_put : forall (m : smap (list rule)) c rs x,
  rules_of (put c rs m) x = if String.eqb x c then rs else rules_of m x.
Proof. intros. unfold rules_of, put. simpl. destruct (String.eqb x c); reflexivity. Qed.

Lemma hinv_rcrel : forall cf t t', hinv cf t -> rcrel cf t t' -> hinv cf t'.
Proof.
  intros cf t t' [W C I A] R. constructor.
  - eapply rcrel_winv; eauto.
  - rewrite (rr_chains _ _ _ R). auto.
  - rewrite (rr_ins _ _ _ R). auto.
  - rewrite (rr_app _ _ _ R). auto.
Qed.

(* the tail of UpdateChain / RemoveChainByName: change the chain map at c, mark c dirty if referenced *)
Lemma chain_tail_hinv : forall cf t c chains',
  hinv cf t -> owned cf c = true ->
  (forall x, x <> c -> get x chains' = get x (t_chains t)) ->
  refs_owned cf chains' ->
  let t4 := with_chains t chains' in
  hinv cf (if referenced t4 c then invalidate (mark_dirty t4 c) else t4).
Proof.
  intros cf t c chains' [W C I A] Hc Hother Hro t4.
  assert (Href : forall x, referenced t4 x = referenced t x) by reflexivity.
  destruct (referenced t4 c) eqn:Er.
  - constructor; auto. constructor.
    + constructor; simpl.
      * intros x Hx. apply In_add_set in Hx. destruct Hx as [->|Hx]; auto. apply (fi_dirty _ _ (w_finv _ _ W)); auto.
      * apply (fi_full _ _ (w_finv _ _ W)).
      * apply (fi_ins _ _ (w_finv _ _ W)).
      * apply (fi_app _ _ (w_finv _ _ W)).
    + simpl. apply NoDup_add_set. apply W.
    + simpl. apply W.
    + simpl. apply W.
    + intros x Ho Hnd. simpl in Hnd.
      assert (x <> c). { intros ->. apply Hnd. apply In_add_set. auto. }
      assert (Hnd0 : ~ In x (t_dirty t)). { intros Hx. apply Hnd. apply In_add_set. auto. }
      pose proof (w_owned _ _ W x Ho Hnd0) as Wo. unfold desired in *. simpl.
      change (referenced (invalidate (mark_dirty t4 c)) x) with (referenced t x). rewrite Hother by auto. exact Wo.
    + simpl. apply (w_hooks _ _ W).
  - constructor; auto. constructor.
    + destruct (w_finv _ _ W). constructor; simpl; auto.
    + simpl. apply W.
    + simpl. apply W.
    + simpl. apply W.
    + intros x Ho Hnd. simpl in Hnd. pose proof (w_owned _ _ W x Ho Hnd) as Wo. unfold desired in *. simpl.
      change (referenced t4 x) with (referenced t x).
      destruct (String.eqb x c) eqn:E.
      * apply String.eqb_eq in E. subst x. rewrite Href in Er. rewrite Er in *. exact Wo.
      * apply String.eqb_neq in E. rewrite Hother by auto. exact Wo.
    + simpl. apply (w_hooks _ _ W).
Qed.

Lemma refs_owned_put : forall cf chains c ch,
  refs_owned cf chains -> rules_refs_owned cf (ch_rules ch) -> refs_owned cf (put c ch chains).
Proof.
  intros cf chains c ch H1 H2 x chx r d Hg Hr Hd. unfold put in Hg. simpl in Hg.
  destruct (String.eqb x c). inversion Hg; subst. eapply H2; eauto. eapply H1; eauto.
Qed.

Lemma refs_owned_del : forall cf chains c, refs_owned cf chains -> refs_owned cf (del c chains).
Proof.
  intros cf chains c H1 x chx r d Hg Hr Hd.
  destruct (String.eqb x c) eqn:E.
  - apply String.eqb_eq in E. subst. rewrite get_del_same in Hg. discriminate.
  - apply String.eqb_neq in E. rewrite get_del_other in Hg by auto. eapply H1; eauto.
Qed.

Lemma update_chain_hinv : forall cf fx t c ch,
  hinv cf t -> owned cf c = true -> rules_refs_owned cf (ch_rules ch) -> hinv cf (update_chain fx t c ch).
Proof.
  intros cf fx t c ch H Hc Hrs. unfold update_chain.
  set (t1 := if ch_force ch then incref (fuel_of t) t c else t).
  assert (R1 : rcrel cf t t1).
  { unfold t1. destruct (ch_force ch); [apply incref_rel; auto; apply H|apply rcrel_refl]. }
  assert (H1 : hinv cf t1) by (eapply hinv_rcrel; eauto).
  set (t2 := maybe_incref t1 c (ch_rules ch)).
  assert (R2 : rcrel cf t1 t2) by (apply maybe_incref_rel; auto; apply H1).
  assert (H2 : hinv cf t2) by (eapply hinv_rcrel; eauto).
  set (t3 := match get c (t_chains t2) with
             | Some old =>
                 let t' := if ch_force old then
                             let td := decref (fuel_of t2) t2 c in
                             if fx && negb (referenced td c) then decref_rules td (ch_rules ch) else td
                           else t2 in
                 maybe_decref t' c (ch_rules old)
             | None => t2 end).
  assert (R3 : rcrel cf t2 t3).
  { unfold t3. destruct (get c (t_chains t2)) as [old|] eqn:Eg; [|apply rcrel_refl].
    assert (Hold : rules_refs_owned cf (ch_rules old)).
    { intros r d Hr Hd. eapply (h_chains _ _ H2); eauto. }
    set (t' := if ch_force old then
                 let td := decref (fuel_of t2) t2 c in
                 if fx && negb (referenced td c) then decref_rules td (ch_rules ch) else td
               else t2).
    assert (R' : rcrel cf t2 t').
    { unfold t'. destruct (ch_force old); [|apply rcrel_refl]. cbv zeta.
      assert (Rd : rcrel cf t2 (decref (fuel_of t2) t2 c)) by (apply decref_rel; auto; apply H2).
      destruct (fx && negb (referenced (decref (fuel_of t2) t2 c) c)); auto.
      eapply rcrel_trans; eauto. apply decref_rules_rel; auto. rewrite (rr_chains _ _ _ Rd). apply H2. }
    eapply rcrel_trans; eauto. apply maybe_decref_rel; auto. rewrite (rr_chains _ _ _ R'). apply H2. }
  assert (H3 : hinv cf t3) by (eapply hinv_rcrel; eauto).
  apply (chain_tail_hinv cf t3 c (put c ch (t_chains t3))); auto.
  - intros x Hx. apply get_put_other; auto.
  - apply refs_owned_put; auto. apply H3.
Qed.

Lemma remove_chain_hinv : forall cf t c, hinv cf t -> owned cf c = true -> hinv cf (remove_chain t c).
Proof.
  intros cf t c H Hc. unfold remove_chain. destruct (get c (t_chains t)) as [old|] eqn:Eg; auto.
  assert (Hold : rules_refs_owned cf (ch_rules old)).
  { intros r d Hr Hd. eapply (h_chains _ _ H); eauto. }
  set (t1 := if ch_force old then decref (fuel_of t) t c else t).
  assert (R1 : rcrel cf t t1).
  { unfold t1. destruct (ch_force old); [apply decref_rel; auto; apply H|apply rcrel_refl]. }
  assert (H1 : hinv cf t1) by (eapply hinv_rcrel; eauto).
  set (t2 := maybe_decref t1 c (ch_rules old)).
  assert (R2 : rcrel cf t1 t2) by (apply maybe_decref_rel; auto; apply H1).
  assert (H2 : hinv cf t2) by (eapply hinv_rcrel; eauto).
  apply (chain_tail_hinv cf t2 c (del c (t_chains t2))); auto.
  - intros x Hx. apply get_del_other; auto.
  - apply refs_owned_del. apply H2.
Qed.

Lemma invalidate_hinv : forall cf t, hinv cf t -> hinv cf (invalidate t).
Proof. intros cf t [W C I A]. constructor; auto. apply invalidate_winv; auto. Qed.

Lemma insert_hinv : forall cf t c rs,
  hinv cf t -> owned cf c = false -> rules_refs_owned cf rs -> rules_felix rs ->
  hinv cf (insert_or_append_rules t c rs).
Proof.
  intros cf t c rs H Hc Hrs Hf. unfold insert_or_append_rules.
  set (t1 := with_ins t (put c rs (t_ins t))). set (t2 := with_dirtyIA t1 (add_set c (t_dirtyIA t1))).
  assert (H2 : hinv cf t2).
  { destruct H as [W C I A]. constructor; auto.
    - constructor.
      + destruct (w_finv _ _ W) as [F1 F2 F3 F4]. constructor; simpl; auto.
        intros x ru. rewrite rules_of_put. destruct (String.eqb x c); auto. apply F3.
      + simpl. apply W.
      + simpl. apply NoDup_add_set. apply W.
      + simpl. intros x Hx. apply In_add_set in Hx. destruct Hx as [->|Hx]; auto. apply W; auto.
      + intros x Ho Hnd. apply (w_owned _ _ W x Ho Hnd).
      + simpl. intros x Ho Hn Hg. rewrite rules_of_put.
        destruct (String.eqb x c) eqn:E.
        * apply String.eqb_eq in E. subst. exfalso. apply Hn. apply In_add_set. auto.
        * apply (w_hooks _ _ W); auto. intros Hx. apply Hn. apply In_add_set. auto.
    - simpl. intros x. rewrite rules_of_put. destruct (String.eqb x c); auto. }
  set (t3 := maybe_incref t2 c rs).
  assert (R3 : rcrel cf t2 t3) by (apply maybe_incref_rel; auto; apply H2).
  assert (H3 : hinv cf t3) by (eapply hinv_rcrel; eauto).
  apply invalidate_hinv. eapply hinv_rcrel; eauto. apply maybe_decref_rel. apply H3. apply H.
Qed.

Lemma append_hinv : forall cf t c rs,
  hinv cf t -> owned cf c = false -> rules_refs_owned cf rs -> rules_felix rs ->
  hinv cf (append_rules t c rs).
Proof.
  intros cf t c rs H Hc Hrs Hf. unfold append_rules.
  set (t1 := with_app t (put c rs (t_app t))). set (t2 := with_dirtyIA t1 (add_set c (t_dirtyIA t1))).
  assert (H2 : hinv cf t2).
  { destruct H as [W C I A]. constructor; auto.
    - constructor.
      + destruct (w_finv _ _ W) as [F1 F2 F3 F4]. constructor; simpl; auto.
        intros x ru. rewrite rules_of_put. destruct (String.eqb x c); auto. apply F4.
      + simpl. apply W.
      + simpl. apply NoDup_add_set. apply W.
      + simpl. intros x Hx. apply In_add_set in Hx. destruct Hx as [->|Hx]; auto. apply W; auto.
      + intros x Ho Hnd. apply (w_owned _ _ W x Ho Hnd).
      + simpl. intros x Ho Hn Hg. rewrite rules_of_put.
        destruct (String.eqb x c) eqn:E.
        * apply String.eqb_eq in E. subst. exfalso. apply Hn. apply In_add_set. auto.
        * apply (w_hooks _ _ W); auto. intros Hx. apply Hn. apply In_add_set. auto.
    - simpl. intros x. rewrite rules_of_put. destruct (String.eqb x c); auto. }
  set (t3 := maybe_incref t2 c rs).
  assert (R3 : rcrel cf t2 t3) by (apply maybe_incref_rel; auto; apply H2).
  assert (H3 : hinv cf t3) by (eapply hinv_rcrel; eauto).
  apply invalidate_hinv. eapply hinv_rcrel; eauto. apply maybe_decref_rel. apply H3. apply H.
Qed.
