(* C15 — executable model of felix/iptables/table.go (legacy iptables backend):
   desired-state bookkeeping (chains, reference counts, dirty sets), read-back of the
   kernel table into the hash caches (loadDataplaneState), the delta computation of
   applyUpdates, the retry loop of Apply, and the kernel side (iptables-save /
   iptables-restore semantics, as implemented by iptables/testutils.MockDataplane).
   Definitions only; proofs live in Proofs*.v. *)
From Coq Require Import String List NArith ZArith Arith Bool.
Import ListNotations.
Open Scope list_scope.

(* ------------------------------------------------------------------ *)
(* Rule lines.  A kernel rule line is identified by its full text (interned by the driver as
   [lid]) and carries the rule hash Felix would read back from it ([lh]): 0 = no hash comment
   and no match of the old-insert regex (a foreign rule); 1 = "OLD INSERT RULE" (matches the
   historic regex); >= 2 = an interned hash string taken from the "cali:" comment. *)
Record line := { lh : N; lid : N }.
Definition line_eqb (a b : line) : bool := N.eqb (lh a) (lh b) && N.eqb (lid a) (lid b).
Definition felix_line (l : line) : bool := negb (N.eqb (lh l) 0).

(* ------------------------------------------------------------------ *)
(* String-keyed maps as shadowing association lists. *)
Section Maps.
  Context {V : Type}.
  Definition smap := list (string * V).
  Fixpoint get (k : string) (m : smap) : option V :=
    match m with
    | [] => None
    | (k', v) :: m' => if String.eqb k k' then Some v else get k m'
    end.
  Definition put (k : string) (v : V) (m : smap) : smap := (k, v) :: m.
  Definition del (k : string) (m : smap) : smap :=
    filter (fun p => negb (String.eqb k (fst p))) m.
End Maps.
Arguments smap : clear implicits.

Definition mem (c : string) (l : list string) : bool := existsb (String.eqb c) l.
Definition add_set (c : string) (l : list string) : list string := if mem c l then l else l ++ [c].
Fixpoint nodup_s (l : list string) : list string :=
  match l with
  | [] => []
  | x :: l' => if mem x l' then nodup_s l' else x :: nodup_s l'
  end.
Definition keys {V} (m : smap V) : list string := nodup_s (map fst m).

(* ------------------------------------------------------------------ *)
(* Kernel table and iptables-restore commands. *)
Definition kernel := smap (list line).

Inductive body :=
| BFwd                                  (* ":chain - -"  create-or-flush *)
| BAppend (l : line)                    (* -A chain rule *)
| BInsert (l : line)                    (* -I chain rule   (top) *)
| BReplace (n : nat) (l : line)         (* -R chain n rule (1-indexed) *)
| BDelIdx (n : nat)                     (* -D chain n *)
| BDelVal (l : option line)             (* -D chain rule ; None = the "-" placeholder, never a rule *)
| BDelChain.                            (* --delete-chain chain *)
Definition cmd := (string * body)%type.

Fixpoint replace_nth (i : nat) (x : line) (L : list line) : list line :=
  match L, i with
  | [], _ => []
  | _ :: L', 0 => x :: L'
  | y :: L', S i' => y :: replace_nth i' x L'
  end.
Fixpoint remove_nth (i : nat) (L : list line) : list line :=
  match L, i with
  | [], _ => []
  | _ :: L', 0 => L'
  | y :: L', S i' => y :: remove_nth i' L'
  end.
Fixpoint remove_first (x : line) (L : list line) : list line :=
  match L with
  | [] => []
  | y :: L' => if line_eqb x y then L' else y :: remove_first x L'
  end.
Definition remove_all (x : line) (L : list line) : list line :=
  filter (fun y => negb (line_eqb x y)) L.

(* One command on one chain.  [st] = None: chain does not exist.  Result None = the command
   fails (and with it the whole transaction).  [dall] selects the semantics of delete-by-value:
   false = iptables (first matching rule), true = MockDataplane (every matching rule). *)
Definition step_chain (dall : bool) (st : option (list line)) (b : body) : option (option (list line)) :=
  match b, st with
  | BFwd, _ => Some (Some [])
  | BAppend l, Some L => Some (Some (L ++ [l]))
  | BInsert l, Some L => Some (Some (l :: L))
  | BReplace n l, Some L =>
      if (1 <=? n) && (n <=? length L) then Some (Some (replace_nth (n - 1) l L)) else None
  | BDelIdx n, Some L =>
      if (1 <=? n) && (n <=? length L) then Some (Some (remove_nth (n - 1) L)) else None
  | BDelVal (Some l), Some L =>
      if existsb (line_eqb l) L then Some (Some (if dall then remove_all l L else remove_first l L)) else None
  | BDelChain, Some [] => Some None
  | _, _ => None
  end.

Definition set_chain (c : string) (st : option (list line)) (k : kernel) : kernel :=
  match st with Some L => put c L k | None => del c k end.

(* iptables-restore --noflush: all-or-nothing. *)
Fixpoint exec (dall : bool) (k : kernel) (cs : list cmd) : option kernel :=
  match cs with
  | [] => Some k
  | (c, b) :: cs' =>
      match step_chain dall (get c k) b with
      | None => None
      | Some st' => exec dall (set_chain c st' k) cs'
      end
  end.

(* out-of-band edits by other software: set a chain's whole content / delete the chain *)
Definition edit := (string * option (list line))%type.
Definition apply_edits (k : kernel) (es : list edit) : kernel :=
  fold_left (fun k e => set_chain (fst e) (snd e) k) es k.

(* ------------------------------------------------------------------ *)
(* Felix side. *)
Record rule := { r_line : line; r_ref : option string }.   (* rendered rule (with its hash) + jump/goto target *)
Record chain := { ch_rules : list rule; ch_force : bool }.
(* [cf_fix]: the tree carries fixes/C15-force-downgrade-refcount-leak.patch (the driver probes the tree) *)
(* [cf_nft]: BackendMode nft (iptables-nft workarounds: dirty chains are flushed and rewritten whole) *)
Record config := { cf_prefixes : list string; cf_append : bool; cf_kchains : list string; cf_fix : bool; cf_nft : bool }.

Definition owned (cf : config) (c : string) : bool := existsb (fun p => String.prefix p c) (cf_prefixes cf).

Record table := {
  t_ins : smap (list rule);            (* chainToInsertedRules *)
  t_app : smap (list rule);            (* chainToAppendedRules *)
  t_dirtyIA : list string;             (* dirtyInsertAppend *)
  t_chains : smap chain;               (* chainNameToChain *)
  t_rc : smap Z;                       (* chainRefCounts *)
  t_dirty : list string;               (* dirtyChains *)
  t_insync : bool;                     (* inSyncWithDataPlane *)
  t_dp : smap (list N);                (* chainToDataplaneHashes *)
  t_full : smap (list (option line))   (* chainToFullRules ("-" placeholder = None) *)
}.

Definition with_rc (t : table) rc := {| t_ins := t_ins t; t_app := t_app t; t_dirtyIA := t_dirtyIA t; t_chains := t_chains t;
  t_rc := rc; t_dirty := t_dirty t; t_insync := t_insync t; t_dp := t_dp t; t_full := t_full t |}.
Definition with_dirty (t : table) d := {| t_ins := t_ins t; t_app := t_app t; t_dirtyIA := t_dirtyIA t; t_chains := t_chains t;
  t_rc := t_rc t; t_dirty := d; t_insync := t_insync t; t_dp := t_dp t; t_full := t_full t |}.
Definition with_dirtyIA (t : table) d := {| t_ins := t_ins t; t_app := t_app t; t_dirtyIA := d; t_chains := t_chains t;
  t_rc := t_rc t; t_dirty := t_dirty t; t_insync := t_insync t; t_dp := t_dp t; t_full := t_full t |}.
Definition with_chains (t : table) c := {| t_ins := t_ins t; t_app := t_app t; t_dirtyIA := t_dirtyIA t; t_chains := c;
  t_rc := t_rc t; t_dirty := t_dirty t; t_insync := t_insync t; t_dp := t_dp t; t_full := t_full t |}.
Definition with_ins (t : table) i := {| t_ins := i; t_app := t_app t; t_dirtyIA := t_dirtyIA t; t_chains := t_chains t;
  t_rc := t_rc t; t_dirty := t_dirty t; t_insync := t_insync t; t_dp := t_dp t; t_full := t_full t |}.
Definition with_app (t : table) a := {| t_ins := t_ins t; t_app := a; t_dirtyIA := t_dirtyIA t; t_chains := t_chains t;
  t_rc := t_rc t; t_dirty := t_dirty t; t_insync := t_insync t; t_dp := t_dp t; t_full := t_full t |}.
Definition with_insync (t : table) b := {| t_ins := t_ins t; t_app := t_app t; t_dirtyIA := t_dirtyIA t; t_chains := t_chains t;
  t_rc := t_rc t; t_dirty := t_dirty t; t_insync := b; t_dp := t_dp t; t_full := t_full t |}.

Definition rcget (t : table) (c : string) : Z := match get c (t_rc t) with Some z => z | None => 0%Z end.
Definition referenced (t : table) (c : string) : bool := (0 <? rcget t c)%Z.
Definition invalidate (t : table) : table := with_insync t false.
Definition mark_dirty (t : table) (c : string) : table := with_dirty t (add_set c (t_dirty t)).

(* NewTable *)
Definition new_table (cf : config) : table :=
  {| t_ins := map (fun c => (c, [])) (cf_kchains cf);
     t_app := map (fun c => (c, [])) (cf_kchains cf);
     t_dirtyIA := nodup_s (cf_kchains cf);
     t_chains := []; t_rc := map (fun c => (c, 1%Z)) (nodup_s (cf_kchains cf));
     t_dirty := []; t_insync := false; t_dp := []; t_full := [] |}.

(* increfChain / decrefChain with their recursion through maybeIncref/DecrefReferredChains.
   The recursion is on 0->1 (1->0) transitions only; [fuel] bounds its depth. *)
Fixpoint incref (fuel : nat) (t : table) (c : string) : table :=
  match fuel with
  | 0 => t
  | S f =>
      let n := (rcget t c + 1)%Z in
      let t1 := with_rc t (put c n (t_rc t)) in
      if (n =? 1)%Z then
        let t2 := mark_dirty t1 c in
        match get c (t_chains t2) with
        | Some ch => fold_left (fun t r => match r_ref r with Some d => incref f t d | None => t end) (ch_rules ch) t2
        | None => t2
        end
      else t1
  end.

Fixpoint decref (fuel : nat) (t : table) (c : string) : table :=
  match fuel with
  | 0 => t
  | S f =>
      if (rcget t c =? 1)%Z then
        let t1 := match get c (t_chains t) with
                  | Some ch => fold_left (fun t r => match r_ref r with Some d => decref f t d | None => t end) (ch_rules ch) t
                  | None => t
                  end in
        mark_dirty (with_rc t1 (del c (t_rc t1))) c
      else with_rc t (put c (rcget t c - 1)%Z (t_rc t))
  end.

Definition fuel_of (t : table) : nat := S (S (length (t_chains t))).
Definition incref_rules (t : table) (rs : list rule) : table :=
  fold_left (fun t r => match r_ref r with Some d => incref (fuel_of t) t d | None => t end) rs t.
Definition decref_rules (t : table) (rs : list rule) : table :=
  fold_left (fun t r => match r_ref r with Some d => decref (fuel_of t) t d | None => t end) rs t.
Definition maybe_incref (t : table) (parent : string) (rs : list rule) : table :=
  if referenced t parent then incref_rules t rs else t.
Definition maybe_decref (t : table) (parent : string) (rs : list rule) : table :=
  if referenced t parent then decref_rules t rs else t.

Definition rules_of (m : smap (list rule)) (c : string) : list rule := match get c m with Some r => r | None => [] end.

Definition insert_or_append_rules (t : table) (c : string) (rs : list rule) : table :=
  let old := rules_of (t_ins t) c in
  let t1 := with_ins t (put c rs (t_ins t)) in
  let t2 := with_dirtyIA t1 (add_set c (t_dirtyIA t1)) in
  invalidate (maybe_decref (maybe_incref t2 c rs) c old).

Definition append_rules (t : table) (c : string) (rs : list rule) : table :=
  let old := rules_of (t_app t) c in
  let t1 := with_app t (put c rs (t_app t)) in
  let t2 := with_dirtyIA t1 (add_set c (t_dirtyIA t1)) in
  invalidate (maybe_decref (maybe_incref t2 c rs) c old).

Definition update_chain (fx : bool) (t : table) (c : string) (ch : chain) : table :=
  let t1 := if ch_force ch then incref (fuel_of t) t c else t in
  let t2 := maybe_incref t1 c (ch_rules ch) in
  let t3 := match get c (t_chains t2) with
            | Some old =>
                let t' := if ch_force old then
                            let td := decref (fuel_of t2) t2 c in
                            if fx && negb (referenced td c) then decref_rules td (ch_rules ch) else td
                          else t2 in
                maybe_decref t' c (ch_rules old)
            | None => t2
            end in
  let t4 := with_chains t3 (put c ch (t_chains t3)) in
  if referenced t4 c then invalidate (mark_dirty t4 c) else t4.

Definition remove_chain (t : table) (c : string) : table :=
  match get c (t_chains t) with
  | Some old =>
      let t1 := if ch_force old then decref (fuel_of t) t c else t in
      let t2 := maybe_decref t1 c (ch_rules old) in
      let t3 := with_chains t2 (del c (t_chains t2)) in
      if referenced t3 c then invalidate (mark_dirty t3 c) else t3
  | None => t
  end.

(* desiredStateOfChain *)
Definition desired (t : table) (c : string) : option chain :=
  if referenced t c then get c (t_chains t) else None.

Definition hashes_of (rs : list rule) : list N := map (fun r => lh (r_line r)) rs.
Definition lines_of (rs : list rule) : list line := map r_line rs.

(* ------------------------------------------------------------------ *)
(* Read-back: readHashesAndRulesFrom applied to iptables-save output of kernel [k]. *)
Definition read_hashes (k : kernel) : smap (list N) :=
  map (fun c => (c, match get c k with Some L => map lh L | None => [] end)) (keys k).
Definition read_full (cf : config) (k : kernel) : smap (list (option line)) :=
  flat_map (fun c =>
    match get c k with
    | Some L => if negb (owned cf c) && existsb felix_line L
                then [(c, map (fun l => if felix_line l then Some l else None) L)] else []
    | None => []
    end) (keys k).

Definition count_zero (h : list N) : nat := length (filter (N.eqb 0) h).
Definition has_hash (h : list N) : bool := existsb (fun x => negb (N.eqb x 0)) h.
Definition olist_eqb (a b : option (list N)) : bool :=
  match a, b with
  | Some x, Some y => if list_eq_dec N.eq_dec x y then true else false
  | None, None => true
  | _, _ => false
  end.
Definition oget (o : option (list N)) : list N := match o with Some x => x | None => [] end.

(* expectedHashesForInsertAppendChain *)
Definition expected_hashes (cf : config) (t : table) (c : string) (nforeign : nat) : list N :=
  let ih := hashes_of (rules_of (t_ins t) c) in
  let ah := hashes_of (rules_of (t_app t) c) in
  if cf_append cf then repeat 0%N nforeign ++ ih ++ ah else ih ++ repeat 0%N nforeign ++ ah.

(* loadDataplaneState, given a successful read. *)
Definition load_check1 (cf : config) (rh : smap (list N)) (t : table) (c : string) : table :=
  if mem c (t_dirty t) || mem c (t_dirtyIA t) then t else
  let dph := get c rh in
  if negb (owned cf c) then
    if (length (rules_of (t_ins t) c) =? 0) && (length (rules_of (t_app t) c) =? 0) then
      if has_hash (oget dph) then with_dirtyIA t (add_set c (t_dirtyIA t)) else t
    else
      if olist_eqb dph (Some (expected_hashes cf t c (count_zero (oget dph)))) then t
      else with_dirtyIA t (add_set c (t_dirtyIA t))
  else
    if olist_eqb dph (get c (t_dp t)) then t else mark_dirty t c.

Definition load_check2 (cf : config) (rh : smap (list N)) (t : table) (c : string) : table :=
  if mem c (t_dirty t) || mem c (t_dirtyIA t) then t else
  match get c (t_dp t) with
  | Some _ => t
  | None =>
      if negb (owned cf c) then
        if has_hash (oget (get c rh)) then with_dirtyIA t (add_set c (t_dirtyIA t)) else t
      else mark_dirty t c
  end.

Definition load (cf : config) (t : table) (k : kernel) : table :=
  let rh := read_hashes k in
  let t1 := fold_left (load_check1 cf rh) (keys (t_dp t)) t in
  let t2 := fold_left (load_check2 cf rh) (keys rh) t1 in
  {| t_ins := t_ins t2; t_app := t_app t2; t_dirtyIA := t_dirtyIA t2; t_chains := t_chains t2; t_rc := t_rc t2;
     t_dirty := t_dirty t2; t_insync := true; t_dp := rh; t_full := read_full cf k |}.

(* ------------------------------------------------------------------ *)
(* applyUpdates: the restore input. *)

(* positional delta of an owned chain: previous hashes vs desired rules *)
Fixpoint delta (c : string) (i : nat) (nd : nat) (prev : list N) (ds : list line) {struct prev} : list cmd :=
  match prev with
  | [] => map (fun d => (c, BAppend d)) ds
  | p :: prev' =>
      match ds with
      | d :: ds' => (if N.eqb p (lh d) then [] else [(c, BReplace (S i) d)]) ++ delta c (S i) nd prev' ds'
      | [] => (c, BDelIdx (S nd)) :: delta c (S i) nd prev' []
      end
  end.

Definition pass1 (t : table) (c : string) : list cmd :=
  match desired t c with
  | None => [(c, BFwd)]
  | Some _ => match get c (t_dp t) with None => [(c, BFwd)] | Some _ => [] end
  end.
Definition pass2 (t : table) (c : string) : list cmd :=
  match desired t c with
  | Some ch => delta c 0 (length (ch_rules ch)) (oget (get c (t_dp t))) (lines_of (ch_rules ch))
  | None => []
  end.
Definition pass4 (t : table) (c : string) : list cmd :=
  match desired t c with None => [(c, BDelChain)] | Some _ => [] end.

(* renderDeleteByValueLine for every previously hashed rule; None = rendering error *)
Fixpoint del_lines (c : string) (i : nat) (prev : list N) (full : option (list (option line))) : option (list cmd) :=
  match prev with
  | [] => Some []
  | h :: prev' =>
      if N.eqb h 0 then del_lines c (S i) prev' full
      else match full with
           | None => None
           | Some fr => match nth_error fr i with
                        | None => None
                        | Some ol => match del_lines c (S i) prev' full with
                                     | Some r => Some ((c, BDelVal ol) :: r)
                                     | None => None
                                     end
                        end
           end
  end.

Definition ia_in_sync (cf : config) (t : table) (c : string) : bool :=
  let prev := get c (t_dp t) in
  olist_eqb (Some (expected_hashes cf t c (count_zero (oget prev)))) prev.

Definition pass3 (cf : config) (t : table) (c : string) : option (list cmd) :=
  if ia_in_sync cf t c then Some [] else
  match del_lines c 0 (oget (get c (t_dp t))) (get c (t_full t)) with
  | None => None
  | Some dels =>
      let il := lines_of (rules_of (t_ins t) c) in
      let al := lines_of (rules_of (t_app t) c) in
      Some (dels
            ++ (if cf_append cf then map (fun l => (c, BAppend l)) il else map (fun l => (c, BInsert l)) (rev il))
            ++ map (fun l => (c, BAppend l)) al)
  end.

Fixpoint pass3_all (cf : config) (t : table) (cs : list string) : option (list cmd) :=
  match cs with
  | [] => Some []
  | c :: cs' =>
      (* a rendering error only breaks the inner loop; the error is reported after all chains *)
      match pass3 cf t c, pass3_all cf t cs' with
      | Some a, Some b => Some (a ++ b)
      | _, _ => None
      end
  end.

Definition apply_cmds_legacy (cf : config) (t : table) : option (list cmd) :=
  match pass3_all cf t (t_dirtyIA t) with
  | None => None
  | Some p3 => Some (flat_map (pass1 t) (t_dirty t) ++ flat_map (pass2 t) (t_dirty t) ++ p3 ++ flat_map (pass4 t) (t_dirty t))
  end.

(* nft mode: a dirty chain whose (non-empty) cached hashes equal the wanted hashes is dropped from the
   dirty set; every other dirty chain is flushed and written whole; deletions get a flush in the second
   transaction (both transactions are one all-or-nothing unit here). *)
Definition nft_skip (t : table) (c : string) : bool :=
  match desired t c, get c (t_dp t) with
  | Some ch, Some (p :: prev) => olist_eqb (Some (hashes_of (ch_rules ch))) (Some (p :: prev))
  | _, _ => false
  end.
Definition pass1n (t : table) (c : string) : list cmd := if nft_skip t c then [] else [(c, BFwd)].
Definition pass2n (t : table) (c : string) : list cmd :=
  if nft_skip t c then [] else
  match desired t c with
  | Some ch => map (fun d => (c, BAppend d)) (lines_of (ch_rules ch))
  | None => []
  end.
Definition pass4n (t : table) (c : string) : list cmd :=
  match desired t c with None => [(c, BFwd); (c, BDelChain)] | Some _ => [] end.
Definition apply_cmds_nft (cf : config) (t : table) : option (list cmd) :=
  match pass3_all cf t (t_dirtyIA t) with
  | None => None
  | Some p3 => Some (flat_map (pass1n t) (t_dirty t) ++ flat_map (pass2n t) (t_dirty t) ++ p3 ++ flat_map (pass4n t) (t_dirty t))
  end.

Definition apply_cmds (cf : config) (t : table) : option (list cmd) :=
  if cf_nft cf then apply_cmds_nft cf t else apply_cmds_legacy cf t.

(* state after a successful applyUpdates *)
Definition commit_dp (t : table) (dp : smap (list N)) (c : string) : smap (list N) :=
  match desired t c with
  | Some ch => put c (hashes_of (ch_rules ch)) dp
  | None => del c dp
  end.
Definition commit_ia (cf : config) (t : table) (acc : smap (list N) * smap (list (option line))) (c : string) :=
  if ia_in_sync cf t c then acc else
  let il := map Some (lines_of (rules_of (t_ins t) c)) in
  let al := map Some (lines_of (rules_of (t_app t) c)) in
  let old := match get c (t_full t) with Some fr => fr | None => [] end in
  (put c (expected_hashes cf t c (count_zero (oget (get c (t_dp t))))) (fst acc),
   put c ((if cf_append cf then old ++ il else il ++ old) ++ al) (snd acc)).
Definition commit (cf : config) (t : table) : table :=
  let dp1 := fold_left (commit_dp t) (t_dirty t) (t_dp t) in
  let r := fold_left (commit_ia cf t) (t_dirtyIA t) (dp1, t_full t) in
  {| t_ins := t_ins t; t_app := t_app t; t_dirtyIA := []; t_chains := t_chains t; t_rc := t_rc t;
     t_dirty := []; t_insync := t_insync t; t_dp := fst r; t_full := snd r |}.

(* ------------------------------------------------------------------ *)
(* Apply: load if needed, compute, restore, retry. *)
Record rfault := { rf_edits : list edit; rf_fail : bool }.   (* per restore call: racing edit before it, injected failure *)
Record faults := { f_saves : list bool; f_restores : list rfault }.
Inductive result := Success | Panic.

(* getHashesAndRulesFromDataplane: up to 4 attempts; returns remaining save faults and whether a read succeeded *)
Fixpoint try_saves (n : nat) (fs : list bool) : bool * list bool :=
  match n with
  | 0 => (false, fs)
  | S n' => match fs with
            | true :: fs' => try_saves n' fs'
            | false :: fs' => (true, fs')
            | [] => (true, [])
            end
  end.

Record apply_out := { ao_table : table; ao_kernel : kernel; ao_result : result; ao_inputs : list (list cmd) }.

Fixpoint apply_loop (cf : config) (dall : bool) (attempts : nat) (fs : faults) (t : table) (k : kernel)
         (inputs : list (list cmd)) : apply_out :=
  match attempts with
  | 0 => {| ao_table := t; ao_kernel := k; ao_result := Panic; ao_inputs := inputs |}
  | S a =>
      let sv := if t_insync t then (true, f_saves fs) else try_saves 4 (f_saves fs) in
      let saves' := snd sv in
      if negb (fst sv) then {| ao_table := t; ao_kernel := k; ao_result := Panic; ao_inputs := inputs |} else
      let t1 := if t_insync t then t else load cf t k in
      match apply_cmds cf t1 with
      | None => apply_loop cf dall a {| f_saves := saves'; f_restores := f_restores fs |} t1 k inputs
      | Some [] => {| ao_table := commit cf t1; ao_kernel := k; ao_result := Success; ao_inputs := inputs |}
      | Some cs =>
          let rf := match f_restores fs with r :: _ => r | [] => {| rf_edits := []; rf_fail := false |} end in
          let k1 := apply_edits k (rf_edits rf) in
          let fs' := {| f_saves := saves'; f_restores := tl (f_restores fs) |} in
          match (if rf_fail rf then None else exec dall k1 cs) with
          | Some k2 => {| ao_table := commit cf t1; ao_kernel := k2; ao_result := Success; ao_inputs := inputs ++ [cs] |}
          | None => apply_loop cf dall a fs' (invalidate t1) k1 (inputs ++ [cs])
          end
      end
  end.

Definition apply (cf : config) (dall : bool) (fs : faults) (t : table) (k : kernel) : apply_out :=
  apply_loop cf dall 11 fs t k [].

(* ------------------------------------------------------------------ *)
(* Histories. *)
Inductive op :=
| OpUpdate (c : string) (ch : chain)
| OpRemove (c : string)
| OpInsert (c : string) (rs : list rule)
| OpAppend (c : string) (rs : list rule)
| OpInvalidate                       (* refresh timer fired *)
| OpEdit (es : list edit)            (* other software edits the kernel table *)
| OpRestart                          (* new Felix process: fresh Table over the same kernel *)
| OpApply (fs : faults).

Record apply_obs := { o_result : result; o_kernel : kernel; o_mentions : list (list string) }.

Definition mentions (cs : list cmd) : list string := nodup_s (map fst cs).

(* A dead table (after a panic) ignores everything until OpRestart. *)
Record mstate := { m_table : table; m_kernel : kernel; m_dead : bool }.

Definition step (cf : config) (dall : bool) (s : mstate) (o : op) : mstate * list apply_obs :=
  match o with
  | OpEdit es => ({| m_table := m_table s; m_kernel := apply_edits (m_kernel s) es; m_dead := m_dead s |}, [])
  | OpRestart => ({| m_table := new_table cf; m_kernel := m_kernel s; m_dead := false |}, [])
  | _ =>
      if m_dead s then (s, []) else
      let t := m_table s in
      match o with
      | OpUpdate c ch => ({| m_table := update_chain (cf_fix cf) t c ch; m_kernel := m_kernel s; m_dead := false |}, [])
      | OpRemove c => ({| m_table := remove_chain t c; m_kernel := m_kernel s; m_dead := false |}, [])
      | OpInsert c rs => ({| m_table := insert_or_append_rules t c rs; m_kernel := m_kernel s; m_dead := false |}, [])
      | OpAppend c rs => ({| m_table := append_rules t c rs; m_kernel := m_kernel s; m_dead := false |}, [])
      | OpInvalidate => ({| m_table := invalidate t; m_kernel := m_kernel s; m_dead := false |}, [])
      | OpApply fs =>
          let r := apply cf dall fs t (m_kernel s) in
          ({| m_table := ao_table r; m_kernel := ao_kernel r;
              m_dead := match ao_result r with Panic => true | Success => false end |},
           [{| o_result := ao_result r; o_kernel := ao_kernel r; o_mentions := map mentions (ao_inputs r) |}])
      | _ => (s, [])
      end
  end.

Fixpoint run (cf : config) (dall : bool) (s : mstate) (ops : list op) : list apply_obs :=
  match ops with
  | [] => []
  | o :: ops' => let '(s', obs) := step cf dall s o in obs ++ run cf dall s' ops'
  end.

Definition init (cf : config) (k0 : kernel) : mstate := {| m_table := new_table cf; m_kernel := k0; m_dead := false |}.
