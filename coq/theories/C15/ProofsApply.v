(* C15 — proofs, part 8: the Table invariant through commit / invalidate, and convergence of a whole Apply(). *)
From Coq Require Import String List NArith ZArith Arith Bool Lia.
From Verif.C15 Require Import Model Spec Proofs ProofsForeign ProofsNoRewrite ProofsConv ProofsConv2 ProofsConv3 ProofsLoad.
Import ListNotations.

Lemma invalidate_winv : forall cf t, winv cf t -> winv cf (invalidate t).
Proof.
  intros cf t W. destruct W as [F A B C D E]. constructor; auto. apply invalidate_finv; auto.
Qed.

Definition want_dp (t : table) (c : string) : option (list N) :=
  match desired t c with Some ch => Some (hashes_of (ch_rules ch)) | None => None end.

Lemma fold_commit_dp : forall t c l dp,
  get c (fold_left (commit_dp t) l dp) = if mem c l then want_dp t c else get c dp.
Proof.
  induction l as [|a l IH]; simpl; intros dp; auto.
  rewrite IH. destruct (mem c l) eqn:E. rewrite orb_true_r; auto. rewrite orb_false_r.
  unfold commit_dp, want_dp. destruct (String.eqb c a) eqn:Ea.
  - apply String.eqb_eq in Ea. subst a. destruct (desired t c). apply get_put_same. apply get_del_same.
  - apply String.eqb_neq in Ea. destruct (desired t a). apply get_put_other; auto. apply get_del_other; auto.
Qed.

Lemma fold_commit_ia_other : forall cf t c l acc,
  ~ In c l -> get c (fst (fold_left (commit_ia cf t) l acc)) = get c (fst acc).
Proof.
  induction l as [|a l IH]; simpl; intros acc Hn; auto.
  rewrite IH by tauto. unfold commit_ia. destruct (ia_in_sync cf t a); auto. cbn [fst].
  apply get_put_other. intros ->. apply Hn; auto.
Qed.

Lemma fold_commit_ia_keeps : forall cf t c l acc,
  get c (fst acc) <> None -> get c (fst (fold_left (commit_ia cf t) l acc)) <> None.
Proof.
  induction l as [|a l IH]; simpl; intros acc H; auto.
  apply IH. unfold commit_ia. destruct (ia_in_sync cf t a); auto. cbn [fst].
  destruct (String.eqb c a) eqn:E.
  - apply String.eqb_eq in E. subst. rewrite get_put_same. congruence.
  - apply String.eqb_neq in E. rewrite get_put_other; auto.
Qed.

Lemma fold_commit_ia_in : forall cf t c l acc,
  In c l -> (ia_in_sync cf t c = true -> get c (fst acc) <> None) ->
  get c (fst (fold_left (commit_ia cf t) l acc)) <> None.
Proof.
  induction l as [|a l IH]; simpl; intros acc Hin Hs. contradiction.
  destruct (String.eqb c a) eqn:E.
  - apply String.eqb_eq in E. subst a. apply fold_commit_ia_keeps.
    unfold commit_ia. destruct (ia_in_sync cf t c) eqn:Es; auto. cbn [fst]. rewrite get_put_same. congruence.
  - apply String.eqb_neq in E. destruct Hin as [->|Hin]; [congruence|]. apply IH; auto.
    intros Hc. specialize (Hs Hc). unfold commit_ia. destruct (ia_in_sync cf t a); auto. cbn [fst].
    rewrite get_put_other; auto.
Qed.

Lemma commit_winv : forall cf t, winv cf t -> winv cf (commit cf t).
Proof.
  intros cf t W. constructor.
  - apply commit_finv. apply W.
  - simpl. constructor.
  - simpl. constructor.
  - simpl. contradiction.
  - intros c Ho _. replace (desired (commit cf t) c) with (desired t c) by reflexivity.
    unfold commit. cbn [t_dp].
    rewrite fold_commit_ia_other.
    2:{ intros H. apply (w_IA _ _ W) in H. congruence. }
    cbn [fst]. rewrite fold_commit_dp. destruct (mem c (t_dirty t)) eqn:E.
    + unfold want_dp. destruct (desired t c); reflexivity.
    + apply (w_owned _ _ W c Ho). apply mem_false; auto.
  - intros c Ho _ Hg. replace (t_ins (commit cf t)) with (t_ins t) by reflexivity.
    replace (t_app (commit cf t)) with (t_app t) by reflexivity.
    unfold commit in Hg. cbn [t_dp] in Hg.
    assert (Hnd : mem c (t_dirty t) = false).
    { apply mem_false. intros H. apply (fi_dirty _ _ (w_finv _ _ W)) in H. congruence. }
    destruct (in_dec string_dec c (t_dirtyIA t)) as [Hin|Hnin].
    + exfalso. revert Hg. apply fold_commit_ia_in; auto. cbn [fst]. rewrite fold_commit_dp, Hnd.
      intros Hs. unfold ia_in_sync in Hs. apply olist_eqb_true in Hs. congruence.
    + rewrite fold_commit_ia_other in Hg by auto. cbn [fst] in Hg. rewrite fold_commit_dp, Hnd in Hg.
      apply (w_hooks _ _ W); auto.
Qed.

(* ------------------------------------------------------------------ target is a function of the wanted state only *)
Lemma tgt_ext : forall cf t t1 k c,
  t_chains t1 = t_chains t -> t_rc t1 = t_rc t -> t_ins t1 = t_ins t -> t_app t1 = t_app t ->
  tgt cf t1 k c = tgt cf t k c.
Proof. intros. unfold tgt. rewrite (desired_ext t t1 c H H0), H1, H2. reflexivity. Qed.

Lemma noforge_ext : forall cf t t1 k,
  t_chains t1 = t_chains t -> t_rc t1 = t_rc t -> t_ins t1 = t_ins t -> t_app t1 = t_app t ->
  noforge cf t k -> noforge cf t1 k.
Proof.
  intros cf t t1 k H1 H2 H3 H4 [N1 N2]. split.
  - intros c ch L l d Hd. rewrite (desired_ext t t1 c H1 H2) in Hd. eapply N1; eauto.
  - intros c L l d. rewrite H3, H4. eapply N2; eauto.
Qed.

(* a rendering error with a valid cache repeats until the retries are exhausted *)
Lemma apply_loop_stuck : forall cf dall a fs t k inputs,
  t_insync t = true -> apply_cmds cf t = None ->
  apply_loop cf dall a fs t k inputs = {| ao_table := t; ao_kernel := k; ao_result := Panic; ao_inputs := inputs |}.
Proof.
  induction a as [|a IH]; intros fs t k inputs Hs Hc. reflexivity.
  cbn [apply_loop]. rewrite Hs. cbn [fst snd negb]. rewrite Hc. apply IH; auto.
Qed.

Definition no_racing (fs : faults) : Prop := forall rf, In rf (f_restores fs) -> rf_edits rf = [].

Lemma apply_loop_converges : forall cf dall attempts fs t k inputs,
  winv cf t -> t_insync t = false -> no_racing fs -> noforge cf t k ->
  let r := apply_loop cf dall attempts fs t k inputs in
  winv cf (ao_table r) /\
  (ao_result r = Success -> forall c, get c (ao_kernel r) = tgt cf t k c).
Proof.
  induction attempts as [|a IH]; intros fs t k inputs W Hs Hr NF r; subst r.
  - simpl. split; auto. discriminate.
  - cbn [apply_loop]. rewrite Hs.
    set (sv := try_saves 4 (f_saves fs)).
    destruct (fst sv); cbn [negb].
    2:{ simpl. split; auto. discriminate. }
    set (t1 := load cf t k).
    pose proof (load_winv cf t k W) as W1. pose proof (load_uhyp cf t k W NF) as U1.
    pose proof (load_loaded cf t k) as Ld. fold t1 in W1, U1, Ld.
    assert (Ht : forall c, tgt cf t1 k c = tgt cf t k c).
    { intros. apply tgt_ext; apply Ld. }
    destruct (apply_cmds cf t1) as [cs|] eqn:Ec.
    2:{ rewrite apply_loop_stuck; auto; try apply Ld. simpl. split; auto. discriminate. }
    destruct cs as [|cm cs].
    { simpl. split. apply commit_winv; auto. intros _ c. rewrite <- Ht.
      eapply (update_converges_any cf dall t1 k [] k); eauto. }
    set (rf := match f_restores fs with r :: _ => r | [] => {| rf_edits := []; rf_fail := false |} end).
    assert (Hrf : rf_edits rf = []).
    { unfold rf. destruct (f_restores fs) as [|r0 rs] eqn:E; auto. apply Hr. rewrite E. simpl; auto. }
    rewrite Hrf. change (apply_edits k []) with k.
    destruct (if rf_fail rf then None else exec dall k (cm :: cs)) as [k2|] eqn:Ex.
    + simpl. split. apply commit_winv; auto. intros _ c. rewrite <- Ht.
      destruct (rf_fail rf); try discriminate.
      eapply (update_converges_any cf dall t1 k (cm :: cs) k2); eauto.
    + assert (Hr' : no_racing {| f_saves := snd sv; f_restores := tl (f_restores fs) |}).
      { intros x Hx. simpl in Hx. apply Hr. destruct (f_restores fs); simpl in *; auto. }
      specialize (IH {| f_saves := snd sv; f_restores := tl (f_restores fs) |} (invalidate t1) k (inputs ++ [cm :: cs])
                     (invalidate_winv _ _ W1) eq_refl Hr'
                     (noforge_ext cf t (invalidate t1) k (ld_chains _ _ _ _ Ld) (ld_rc _ _ _ _ Ld) (ld_ins _ _ _ _ Ld) (ld_app _ _ _ _ Ld) NF)).
      simpl in IH. destruct IH as [IH1 IH2]. split; auto.
      intros Hres c. rewrite (IH2 Hres c). apply (tgt_ext cf t (invalidate t1) k c); apply Ld.
Qed.
