(* C15 — proofs, part 7: loadDataplaneState.  The two marking loops as generic "verdict" folds; what a chain
   that was NOT marked dirty satisfies; read-back lemmas. *)
From Coq Require Import String List NArith ZArith Arith Bool Lia.
From Verif.C15 Require Import Model Spec Proofs ProofsForeign ProofsConv ProofsConv2.
Import ListNotations.

(* ------------------------------------------------------------------ keys / read-back *)
Lemma In_nodup_s : forall x l, In x (nodup_s l) <-> In x l.
Proof.
  induction l as [|a l IH]; simpl; [tauto|].
  destruct (mem a l) eqn:E.
  - apply mem_In in E. rewrite IH. split; auto. intros [->|]; auto.
  - simpl. rewrite IH. tauto.
Qed.

Lemma NoDup_nodup_s : forall l, NoDup (nodup_s l).
Proof.
  induction l as [|a l IH]; simpl. constructor.
  destruct (mem a l) eqn:E; auto. constructor; auto.
  rewrite In_nodup_s. intros H. apply mem_In in H. congruence.
Qed.

Lemma get_In_keys : forall {V} c (m : smap V), In c (keys m) <-> get c m <> None.
Proof.
  intros V c m. unfold keys. rewrite In_nodup_s.
  induction m as [|[k v] m IH]; simpl.
  - split; [tauto|congruence].
  - destruct (String.eqb c k) eqn:E.
    + apply String.eqb_eq in E. subst. split; auto. congruence.
    + apply String.eqb_neq in E. rewrite <- IH. split; [intros [H|H]; [congruence|auto]|auto].
Qed.

Lemma NoDup_keys : forall {V} (m : smap V), NoDup (keys m).
Proof. intros. apply NoDup_nodup_s. Qed.

Lemma get_map_keys : forall {V} (f : string -> V) c l,
  get c (map (fun c => (c, f c)) l) = if mem c l then Some (f c) else None.
Proof.
  induction l as [|a l IH]; simpl; auto.
  destruct (String.eqb c a) eqn:E; simpl; auto. apply String.eqb_eq in E. subst. reflexivity.
Qed.

Lemma get_read_hashes : forall k c, get c (read_hashes k) = option_map (map lh) (get c k).
Proof.
  intros. unfold read_hashes. rewrite get_map_keys.
  destruct (mem c (keys k)) eqn:E.
  - apply mem_In in E. apply get_In_keys in E. destruct (get c k); [reflexivity|congruence].
  - destruct (get c k) eqn:G; auto. exfalso.
    assert (In c (keys k)) by (apply get_In_keys; congruence). apply mem_In in H. congruence.
Qed.

Lemma get_read_full_some : forall cf k c L,
  owned cf c = false -> get c k = Some L -> existsb felix_line L = true ->
  get c (read_full cf k) = Some (full_of L).
Proof.
  intros cf k c L Ho Hg Hf. unfold read_full.
  assert (Hin : In c (keys k)) by (apply get_In_keys; congruence).
  induction (keys k) as [|a l IH]; simpl in *. contradiction.
  destruct (String.eqb c a) eqn:E.
  - apply String.eqb_eq in E. subst a. rewrite Hg, Ho, Hf. simpl. rewrite String.eqb_refl. reflexivity.
  - apply String.eqb_neq in E. destruct Hin as [->|Hin]; [congruence|].
    destruct (get a k) as [La|]; auto.
    destruct (negb (owned cf a) && existsb felix_line La); simpl; auto.
    destruct (String.eqb c a) eqn:E2; auto. apply String.eqb_eq in E2. congruence.
Qed.

(* ------------------------------------------------------------------ generic marking fold *)
Inductive verdict := VOk | VD | VIA.

Definition gen_check (v : string -> verdict) (s : table) (c : string) : table :=
  if mem c (t_dirty s) || mem c (t_dirtyIA s) then s else
  match v c with
  | VOk => s
  | VD => mark_dirty s c
  | VIA => with_dirtyIA s (add_set c (t_dirtyIA s))
  end.

Definition sameS (t s : table) : Prop :=
  t_ins s = t_ins t /\ t_app s = t_app t /\ t_chains s = t_chains t /\ t_rc s = t_rc t /\
  t_dp s = t_dp t /\ t_full s = t_full t /\ t_insync s = t_insync t.

Lemma sameS_refl : forall t, sameS t t.
Proof. unfold sameS. intuition. Qed.

Lemma NoDup_snoc : forall (c : string) l, NoDup l -> ~ In c l -> NoDup (l ++ [c]).
Proof.
  induction l as [|a l IH]; simpl; intros Hn Hc.
  - constructor. intros []. constructor.
  - inversion Hn; subst. constructor.
    + intros H. apply in_app_or in H. destruct H as [H|H]; auto. simpl in H. destruct H as [H|H]; auto.
    + apply IH; auto.
Qed.

Lemma NoDup_add_set : forall c l, NoDup l -> NoDup (add_set c l).
Proof.
  unfold add_set. intros. destruct (mem c l) eqn:E; auto.
  apply NoDup_snoc; auto. intros Hx. apply mem_In in Hx. congruence.
Qed.

Record marked (v : string -> verdict) (l : list string) (s s' : table) : Prop := {
  mk_same : sameS s s';
  mk_mono : forall x, In x (t_dirty s) -> In x (t_dirty s');
  mk_monoIA : forall x, In x (t_dirtyIA s) -> In x (t_dirtyIA s');
  mk_new : forall x, In x (t_dirty s') -> In x (t_dirty s) \/ (In x l /\ v x = VD);
  mk_newIA : forall x, In x (t_dirtyIA s') -> In x (t_dirtyIA s) \/ (In x l /\ v x = VIA);
  mk_all : forall x, In x l -> In x (t_dirty s') \/ In x (t_dirtyIA s') \/ v x = VOk;
  mk_nd : NoDup (t_dirty s) -> NoDup (t_dirty s');
  mk_ndIA : NoDup (t_dirtyIA s) -> NoDup (t_dirtyIA s')
}.

Lemma gen_fold : forall v l s, marked v l s (fold_left (gen_check v) l s).
Proof.
  induction l as [|c l IH]; intros s; simpl.
  - constructor; auto; try apply sameS_refl; try contradiction.
  - specialize (IH (gen_check v s c)). destruct IH as [I1 I2 I3 I4 I5 I6 I7 I8].
    assert (G : marked v [c] s (gen_check v s c)).
    { unfold gen_check. destruct (mem c (t_dirty s) || mem c (t_dirtyIA s)) eqn:E.
      - constructor; auto; try apply sameS_refl. intros x [<-|[]].
        apply orb_true_iff in E. destruct E as [E|E]; apply mem_In in E; auto.
      - destruct (v c) eqn:Ev.
        + constructor; auto; try apply sameS_refl. intros x [<-|[]]. auto.
        + unfold mark_dirty. constructor; simpl; auto; try (unfold sameS; simpl; intuition; fail);
            try (intros x Hx; apply In_add_set; auto; fail);
            try (intros x Hx; apply In_add_set in Hx; destruct Hx as [->|Hx]; auto; right; simpl; auto; fail);
            try (intros x [<-|[]]; first [left; apply In_add_set; auto; fail | right; left; apply In_add_set; auto; fail]);
            try apply NoDup_add_set.
        + constructor; simpl; auto; try (unfold sameS; simpl; intuition; fail);
            try (intros x Hx; apply In_add_set; auto; fail);
            try (intros x Hx; apply In_add_set in Hx; destruct Hx as [->|Hx]; auto; right; simpl; auto; fail);
            try (intros x [<-|[]]; first [left; apply In_add_set; auto; fail | right; left; apply In_add_set; auto; fail]);
            try apply NoDup_add_set. }
    destruct G as [G1 G2 G3 G4 G5 G6 G7 G8].
    constructor; auto.
    + unfold sameS in *. intuition; congruence.
    + intros x Hx. apply I4 in Hx. destruct Hx as [Hx|[Hx Hv]].
      * apply G4 in Hx. destruct Hx as [Hx|[Hx Hv]]; auto. right. split; auto. destruct Hx as [<-|[]]. simpl; auto.
      * right. simpl; auto.
    + intros x Hx. apply I5 in Hx. destruct Hx as [Hx|[Hx Hv]].
      * apply G5 in Hx. destruct Hx as [Hx|[Hx Hv]]; auto. right. split; auto. destruct Hx as [<-|[]]. simpl; auto.
      * right. simpl; auto.
    + intros x [<-|Hx]; auto.
      destruct (G6 c (or_introl eq_refl)) as [H|[H|H]]; auto.
Qed.

(* ------------------------------------------------------------------ the two loops of loadDataplaneState as verdict folds *)
Definition v1 (cf : config) (rh : smap (list N)) (t : table) (c : string) : verdict :=
  if negb (owned cf c) then
    if (length (rules_of (t_ins t) c) =? 0) && (length (rules_of (t_app t) c) =? 0) then
      if has_hash (oget (get c rh)) then VIA else VOk
    else
      if olist_eqb (get c rh) (Some (expected_hashes cf t c (count_zero (oget (get c rh))))) then VOk else VIA
  else
    if olist_eqb (get c rh) (get c (t_dp t)) then VOk else VD.

Definition v2 (cf : config) (rh : smap (list N)) (t : table) (c : string) : verdict :=
  match get c (t_dp t) with
  | Some _ => VOk
  | None => if negb (owned cf c) then (if has_hash (oget (get c rh)) then VIA else VOk) else VD
  end.

Lemma load_check1_gen : forall cf rh s c, load_check1 cf rh s c = gen_check (v1 cf rh s) s c.
Proof. intros. unfold load_check1, gen_check, v1. repeat dm; try reflexivity; try congruence. Qed.

Lemma load_check2_gen : forall cf rh s c, load_check2 cf rh s c = gen_check (v2 cf rh s) s c.
Proof. intros. unfold load_check2, gen_check, v2. repeat dm; try reflexivity; try congruence. Qed.

Lemma v1_same : forall cf rh t s c, sameS t s -> v1 cf rh s c = v1 cf rh t c.
Proof.
  intros cf rh t s c [H1 [H2 [H3 [H4 [H5 [H6 H7]]]]]]. unfold v1, expected_hashes. rewrite H1, H2, H5. reflexivity.
Qed.
Lemma v2_same : forall cf rh t s c, sameS t s -> v2 cf rh s c = v2 cf rh t c.
Proof. intros cf rh t s c [H1 [H2 [H3 [H4 [H5 [H6 H7]]]]]]. unfold v2. rewrite H5. reflexivity. Qed.

Lemma sameS_trans : forall a b c, sameS a b -> sameS b c -> sameS a c.
Proof. unfold sameS. intuition; congruence. Qed.

Lemma gen_check_same : forall v s c, sameS s (gen_check v s c).
Proof. intros. unfold gen_check. repeat dm; try apply sameS_refl; unfold sameS; simpl; intuition. Qed.

Lemma fold_check1_gen : forall cf rh t l s, sameS t s ->
  fold_left (load_check1 cf rh) l s = fold_left (gen_check (v1 cf rh t)) l s.
Proof.
  induction l as [|c l IH]; simpl; intros s Hs; auto.
  rewrite load_check1_gen.
  assert (E : gen_check (v1 cf rh s) s c = gen_check (v1 cf rh t) s c).
  { unfold gen_check. rewrite (v1_same _ _ _ _ _ Hs). reflexivity. }
  rewrite E. apply IH. eapply sameS_trans; eauto. apply gen_check_same.
Qed.

Lemma fold_check2_gen : forall cf rh t l s, sameS t s ->
  fold_left (load_check2 cf rh) l s = fold_left (gen_check (v2 cf rh t)) l s.
Proof.
  induction l as [|c l IH]; simpl; intros s Hs; auto.
  rewrite load_check2_gen.
  assert (E : gen_check (v2 cf rh s) s c = gen_check (v2 cf rh t) s c).
  { unfold gen_check. rewrite (v2_same _ _ _ _ _ Hs). reflexivity. }
  rewrite E. apply IH. eapply sameS_trans; eauto. apply gen_check_same.
Qed.

(* ------------------------------------------------------------------ the Table invariant *)
Definition noforge (cf : config) (t : table) (k : kernel) : Prop :=
  (forall c ch L l d, desired t c = Some ch -> get c k = Some L -> In l L ->
                      In d (lines_of (ch_rules ch)) -> lh l = lh d -> l = d) /\
  (forall c L l d, owned cf c = false -> get c k = Some L -> In l L ->
                   In d (lines_of (rules_of (t_ins t) c) ++ lines_of (rules_of (t_app t) c)) -> lh l = lh d -> l = d).

Record winv (cf : config) (t : table) : Prop := {
  w_finv : finv cf t;
  w_nd : NoDup (t_dirty t);
  w_ndIA : NoDup (t_dirtyIA t);
  w_IA : forall c, In c (t_dirtyIA t) -> owned cf c = false;
  (* a Felix-owned chain that is not marked dirty: the cache holds exactly the hashes of its wanted rules,
     or nothing if the chain is not wanted *)
  w_owned : forall c, owned cf c = true -> ~ In c (t_dirty t) ->
      match desired t c with
      | Some ch => get c (t_dp t) = Some (hashes_of (ch_rules ch))
      | None => get c (t_dp t) = None
      end;
  (* a chain of other software that is neither marked nor cached has no hook rules wanted *)
  w_hooks : forall c, owned cf c = false -> ~ In c (t_dirtyIA t) -> get c (t_dp t) = None ->
      rules_of (t_ins t) c = [] /\ rules_of (t_app t) c = []
}.

Lemma olist_eqb_eq : forall a b, olist_eqb a b = true -> a = b.
Proof.
  intros [x|] [y|] H; simpl in H; try discriminate; auto.
  destruct (list_eq_dec N.eq_dec x y); try discriminate. subst. auto.
Qed.

Lemma v1_VD_owned : forall cf rh t c, v1 cf rh t c = VD -> owned cf c = true.
Proof. intros cf rh t c. unfold v1. destruct (owned cf c); simpl; auto. repeat dm; discriminate. Qed.
Lemma v1_VIA_nonowned : forall cf rh t c, v1 cf rh t c = VIA -> owned cf c = false.
Proof. intros cf rh t c. unfold v1. destruct (owned cf c); simpl; auto. repeat dm; discriminate. Qed.
Lemma v2_VD_owned : forall cf rh t c, v2 cf rh t c = VD -> owned cf c = true.
Proof. intros cf rh t c. unfold v2. destruct (owned cf c); simpl; auto. repeat dm; discriminate. Qed.
Lemma v2_VIA_nonowned : forall cf rh t c, v2 cf rh t c = VIA -> owned cf c = false.
Proof. intros cf rh t c. unfold v2. destruct (owned cf c); simpl; auto. repeat dm; discriminate. Qed.

(* everything the two loops do, in one record *)
Record loaded (cf : config) (t : table) (k : kernel) (t1 : table) : Prop := {
  ld_ins : t_ins t1 = t_ins t;
  ld_app : t_app t1 = t_app t;
  ld_chains : t_chains t1 = t_chains t;
  ld_rc : t_rc t1 = t_rc t;
  ld_dp : t_dp t1 = read_hashes k;
  ld_full : t_full t1 = read_full cf k;
  ld_insync : t_insync t1 = true;
  ld_mono : forall x, In x (t_dirty t) -> In x (t_dirty t1);
  ld_monoIA : forall x, In x (t_dirtyIA t) -> In x (t_dirtyIA t1);
  ld_new : forall x, In x (t_dirty t1) -> In x (t_dirty t) \/ owned cf x = true;
  ld_newIA : forall x, In x (t_dirtyIA t1) -> In x (t_dirtyIA t) \/ owned cf x = false;
  ld_ok1 : forall x, ~ In x (t_dirty t1) -> ~ In x (t_dirtyIA t1) -> get x (t_dp t) <> None -> v1 cf (read_hashes k) t x = VOk;
  ld_ok2 : forall x, ~ In x (t_dirty t1) -> ~ In x (t_dirtyIA t1) -> get x (read_hashes k) <> None -> v2 cf (read_hashes k) t x = VOk;
  ld_nd : NoDup (t_dirty t) -> NoDup (t_dirty t1);
  ld_ndIA : NoDup (t_dirtyIA t) -> NoDup (t_dirtyIA t1)
}.

Lemma load_loaded : forall cf t k, loaded cf t k (load cf t k).
Proof.
  intros cf t k. unfold load. set (rh := read_hashes k).
  rewrite (fold_check1_gen cf rh t _ t (sameS_refl t)).
  pose proof (gen_fold (v1 cf rh t) (keys (t_dp t)) t) as M1.
  set (s1 := fold_left (gen_check (v1 cf rh t)) (keys (t_dp t)) t) in *.
  rewrite (fold_check2_gen cf rh t _ s1 (mk_same _ _ _ _ M1)).
  pose proof (gen_fold (v2 cf rh t) (keys rh) s1) as M2.
  set (s2 := fold_left (gen_check (v2 cf rh t)) (keys rh) s1) in *.
  destruct M1 as [A1 A2 A3 A4 A5 A6 A7 A8]. destruct M2 as [B1 B2 B3 B4 B5 B6 B7 B8].
  destruct A1 as [a1 [a2 [a3 [a4 [a5 [a6 a7]]]]]]. destruct B1 as [b1 [b2 [b3 [b4 [b5 [b6 b7]]]]]].
  constructor; simpl; auto; try congruence.
  - intros x Hx. apply B4 in Hx. destruct Hx as [Hx|[_ Hv]]; [|right; eapply v2_VD_owned; eauto].
    apply A4 in Hx. destruct Hx as [Hx|[_ Hv]]; auto. right; eapply v1_VD_owned; eauto.
  - intros x Hx. apply B5 in Hx. destruct Hx as [Hx|[_ Hv]]; [|right; eapply v2_VIA_nonowned; eauto].
    apply A5 in Hx. destruct Hx as [Hx|[_ Hv]]; auto. right; eapply v1_VIA_nonowned; eauto.
  - intros x H1 H2 Hg. apply get_In_keys in Hg. destruct (A6 x Hg) as [H|[H|H]]; auto.
    + exfalso. apply H1. auto.
    + exfalso. apply H2. auto.
  - intros x H1 H2 Hg. apply get_In_keys in Hg. destruct (B6 x Hg) as [H|[H|H]]; auto; contradiction.
Qed.

Lemma desired_ext : forall t t1 c, t_chains t1 = t_chains t -> t_rc t1 = t_rc t -> desired t1 c = desired t c.
Proof. intros. unfold desired, referenced, rcget. rewrite H, H0. reflexivity. Qed.

Lemma load_winv : forall cf t k, winv cf t -> winv cf (load cf t k).
Proof.
  intros cf t k W. pose proof (load_loaded cf t k) as Ld. set (t1 := load cf t k) in *.
  assert (F1 : finv cf t1) by (apply load_finv; apply W).
  assert (IA1 : forall c, In c (t_dirtyIA t1) -> owned cf c = false).
  { intros c Hc. apply (ld_newIA _ _ _ _ Ld) in Hc. destruct Hc; auto. apply W; auto. }
  constructor; auto.
  - apply (ld_nd _ _ _ _ Ld). apply W.
  - apply (ld_ndIA _ _ _ _ Ld). apply W.
  - intros c Ho Hnd.
    rewrite (desired_ext t t1 c (ld_chains _ _ _ _ Ld) (ld_rc _ _ _ _ Ld)). rewrite (ld_dp _ _ _ _ Ld).
    assert (HnIA : ~ In c (t_dirtyIA t1)). { intros H. apply IA1 in H. congruence. }
    assert (Hnd0 : ~ In c (t_dirty t)). { intros H. apply Hnd. apply (ld_mono _ _ _ _ Ld); auto. }
    pose proof (w_owned _ _ W c Ho Hnd0) as Wo.
    destruct (desired t c) as [ch|].
    + assert (V : v1 cf (read_hashes k) t c = VOk). { apply (ld_ok1 _ _ _ _ Ld); auto. congruence. }
      unfold v1 in V. rewrite Ho in V. simpl in V. rewrite Wo in V.
      destruct (olist_eqb (get c (read_hashes k)) (Some (hashes_of (ch_rules ch)))) eqn:E; try discriminate.
      apply olist_eqb_eq in E. auto.
    + destruct (get c (read_hashes k)) eqn:G; auto. exfalso.
      assert (V : v2 cf (read_hashes k) t c = VOk). { apply (ld_ok2 _ _ _ _ Ld); auto. congruence. }
      unfold v2 in V. rewrite Wo, Ho in V. discriminate.
  - intros c Ho HnIA Hg. rewrite (ld_ins _ _ _ _ Ld), (ld_app _ _ _ _ Ld). rewrite (ld_dp _ _ _ _ Ld) in Hg.
    assert (Hnd : ~ In c (t_dirty t1)). { intros H. apply (fi_dirty _ _ F1) in H. congruence. }
    assert (HnIA0 : ~ In c (t_dirtyIA t)). { intros H. apply HnIA. apply (ld_monoIA _ _ _ _ Ld); auto. }
    destruct (get c (t_dp t)) eqn:G0.
    + assert (V : v1 cf (read_hashes k) t c = VOk). { apply (ld_ok1 _ _ _ _ Ld); auto. congruence. }
      unfold v1 in V. rewrite Ho, Hg in V. simpl in V.
      destruct (length (rules_of (t_ins t) c) =? 0) eqn:E1; destruct (length (rules_of (t_app t) c) =? 0) eqn:E2;
        simpl in V; try discriminate.
      apply Nat.eqb_eq in E1. apply Nat.eqb_eq in E2. split; apply length_zero_iff_nil; auto.
    + apply (w_hooks _ _ W); auto.
Qed.

Lemma has_hash_false_foreign : forall L, has_hash (map lh L) = false -> foreign L = L.
Proof.
  induction L as [|l L IH]; simpl; intros; auto. apply orb_false_iff in H. destruct H as [H1 H2].
  unfold foreign. simpl. unfold felix_line. rewrite H1. simpl. f_equal. apply IH; auto.
Qed.

(* after the read-back the hypotheses of update_converges hold *)
Lemma load_uhyp : forall cf t k, winv cf t -> noforge cf t k -> uhyp cf (load cf t k) k.
Proof.
  intros cf t k W [NF1 NF2]. pose proof (load_loaded cf t k) as Ld. pose proof (load_winv cf t k W) as W1.
  set (t1 := load cf t k) in *.
  assert (Hd : forall c, desired t1 c = desired t c).
  { intros. apply desired_ext; apply Ld. }
  assert (Hdp : forall c, get c (t_dp t1) = option_map (map lh) (get c k)).
  { intros. rewrite (ld_dp _ _ _ _ Ld). apply get_read_hashes. }
  constructor.
  - apply W1.
  - apply W1.
  - apply (fi_dirty _ _ (w_finv _ _ W1)).
  - apply W1.
  - exact Hdp.
  - intros. rewrite (ld_full _ _ _ _ Ld). apply get_read_full_some; auto.
  - intros c l Hl. apply in_app_iff in Hl. unfold lines_of in Hl.
    destruct Hl as [Hl|Hl]; apply in_map_iff in Hl; destruct Hl as [ru [<- Hru]].
    + eapply (fi_ins _ _ (w_finv _ _ W1)); eauto.
    + eapply (fi_app _ _ (w_finv _ _ W1)); eauto.
  - intros c ch L l d Hdes. rewrite Hd in Hdes. eapply NF1; eauto.
  - intros c L l d. rewrite (ld_ins _ _ _ _ Ld), (ld_app _ _ _ _ Ld). eapply NF2; eauto.
  - (* owned, not marked: already at target *)
    intros c Ho Hnd. unfold tgt. rewrite Ho. pose proof (w_owned _ _ W1 c Ho Hnd) as Wo.
    rewrite Hdp in Wo. rewrite Hd in *.
    destruct (desired t c) as [ch|] eqn:Edes; simpl.
    + destruct (get c k) as [L|] eqn:Ek; simpl in Wo; try discriminate. f_equal.
      inversion Wo as [Hm]. apply map_lh_eq. rewrite Hm. symmetry. apply map_lh_lines.
      intros l d Hl Hdd Hh. eapply NF1; eauto.
    + destruct (get c k); simpl in Wo; try discriminate. reflexivity.
  - (* not owned, not marked: hooks already in place *)
    intros c Ho HnIA. unfold tgt. rewrite Ho. rewrite (ld_ins _ _ _ _ Ld), (ld_app _ _ _ _ Ld).
    destruct (get c k) as [L|] eqn:Ek; simpl; auto. f_equal.
    assert (Hnd : ~ In c (t_dirty t1)). { intros H. apply (fi_dirty _ _ (w_finv _ _ W1)) in H. congruence. }
    assert (Hrh : get c (read_hashes k) = Some (map lh L)). { rewrite get_read_hashes, Ek. reflexivity. }
    assert (HnIA0 : ~ In c (t_dirtyIA t)). { intros H. apply HnIA. apply (ld_monoIA _ _ _ _ Ld); auto. }
    assert (Hempty : rules_of (t_ins t) c = [] -> rules_of (t_app t) c = [] -> has_hash (map lh L) = false -> 
                     L = hooked cf (lines_of (rules_of (t_ins t) c)) (lines_of (rules_of (t_app t) c)) (foreign L)).
    { intros E1 E2 Hh. rewrite E1, E2. simpl. unfold hooked. rewrite (has_hash_false_foreign _ Hh).
      destruct (cf_append cf); simpl; rewrite ?app_nil_r; reflexivity. }
    destruct (get c (t_dp t)) as [E0|] eqn:G0.
    + assert (V : v1 cf (read_hashes k) t c = VOk). { apply (ld_ok1 _ _ _ _ Ld); auto. congruence. }
      unfold v1 in V. rewrite Ho, Hrh in V. simpl in V.
      destruct ((length (rules_of (t_ins t) c) =? 0) && (length (rules_of (t_app t) c) =? 0)) eqn:E.
      * apply andb_true_iff in E. destruct E as [E1 E2]. apply Nat.eqb_eq in E1. apply Nat.eqb_eq in E2.
        apply length_zero_iff_nil in E1. apply length_zero_iff_nil in E2.
        destruct (has_hash (map lh L)) eqn:Hh; try discriminate. apply Hempty; auto.
      * destruct (olist_eqb (Some (map lh L)) (Some (expected_hashes cf t c (count_zero (map lh L))))) eqn:E3;
          [|simpl in E3; rewrite E3 in V; discriminate].
        apply olist_eqb_eq in E3. inversion E3 as [Hm]. unfold expected_hashes in Hm. rewrite <- !map_lh_lines in Hm.
        eapply hooks_in_sync with (n := count_zero (map lh L)).
        -- intros x Hl. apply in_app_iff in Hl. unfold lines_of in Hl.
           destruct Hl as [Hl|Hl]; apply in_map_iff in Hl; destruct Hl as [ru [<- Hru]].
           ++ eapply (fi_ins _ _ (w_finv _ _ W)); eauto.
           ++ eapply (fi_app _ _ (w_finv _ _ W)); eauto.
        -- intros x d Hl Hdd Hh. eapply NF2; eauto.
        -- exact Hm.
    + destruct (w_hooks _ _ W c Ho HnIA0 G0) as [E1 E2].
      assert (V : v2 cf (read_hashes k) t c = VOk). { apply (ld_ok2 _ _ _ _ Ld); auto. congruence. }
      unfold v2 in V. rewrite G0, Ho, Hrh in V. simpl in V.
      destruct (has_hash (map lh L)) eqn:Hh; try discriminate. apply Hempty; auto.
Qed.
