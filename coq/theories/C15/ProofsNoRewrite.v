(* C15 — proofs, part 3: a chain whose cached hashes already equal the wanted hashes gets no line in
   the restore input. *)
From Coq Require Import String List NArith ZArith Arith Bool Lia.
From Verif.C15 Require Import Model Spec Proofs.
Import ListNotations.

Lemma delta_same : forall c rs i nd, delta c i nd (hashes_of rs) (lines_of rs) = [].
Proof.
  induction rs as [|r rs IH]; simpl; intros; auto.
  rewrite N.eqb_refl. simpl. apply IH.
Qed.

Lemma in_cmds_cases : forall cf t cs cm,
  apply_cmds_legacy cf t = Some cs -> In cm cs ->
  (exists c, In c (t_dirty t) /\ (In cm (pass1 t c) \/ In cm (pass2 t c) \/ In cm (pass4 t c)))
  \/ (exists c r, In c (t_dirtyIA t) /\ pass3 cf t c = Some r /\ In cm r).
Proof.
  intros cf t cs cm Ha Hin. unfold apply_cmds_legacy in Ha.
  destruct (pass3_all cf t (t_dirtyIA t)) as [p3|] eqn:E3; try discriminate. inversion Ha; subst. clear Ha.
  rewrite !in_app_iff in Hin. destruct Hin as [Hin|[Hin|[Hin|Hin]]].
  - apply in_flat_map in Hin. destruct Hin as [c [Hc Hin]]. left. exists c. auto.
  - apply in_flat_map in Hin. destruct Hin as [c [Hc Hin]]. left. exists c. auto.
  - destruct (pass3_all_spec _ _ _ _ _ E3 Hin) as [c [r' [Hc [Hp Hin']]]]. right. exists c, r'. auto.
  - apply in_flat_map in Hin. destruct Hin as [c [Hc Hin]]. left. exists c. auto.
Qed.

Theorem no_rewrite_owned : forall cf t cs c ch,
  apply_cmds_legacy cf t = Some cs ->
  owned cf c = true ->
  (forall c', In c' (t_dirtyIA t) -> owned cf c' = false) ->
  desired t c = Some ch ->
  get c (t_dp t) = Some (hashes_of (ch_rules ch)) ->
  ~ In c (map fst cs).
Proof.
  intros cf t cs c ch Ha Ho HIA Hd Hdp Hin.
  apply in_map_iff in Hin. destruct Hin as [cm [Hf Hin]].
  destruct (in_cmds_cases _ _ _ _ Ha Hin) as [[c' [Hc' H]]|[c' [r [Hc' [Hp Hr]]]]].
  - destruct H as [H|[H|H]].
    + pose proof (pass1_names _ _ _ H) as E. rewrite Hf in E. subst c'.
      unfold pass1 in H. rewrite Hd, Hdp in H. contradiction.
    + pose proof (pass2_names _ _ _ H) as E. rewrite Hf in E. subst c'.
      unfold pass2 in H. rewrite Hd, Hdp in H. simpl in H. rewrite delta_same in H. contradiction.
    + pose proof (pass4_names _ _ _ H) as E. rewrite Hf in E. subst c'.
      unfold pass4 in H. rewrite Hd in H. contradiction.
  - destruct (pass3_spec _ _ _ _ _ Hp Hr) as [E _]. rewrite Hf in E. subst c'.
    rewrite (HIA _ Hc') in Ho. discriminate.
Qed.

Theorem no_rewrite_hooks : forall cf t cs c,
  apply_cmds_legacy cf t = Some cs ->
  owned cf c = false ->
  (forall c', In c' (t_dirty t) -> owned cf c' = true) ->
  ia_in_sync cf t c = true ->
  ~ In c (map fst cs).
Proof.
  intros cf t cs c Ha Ho HD Hs Hin.
  apply in_map_iff in Hin. destruct Hin as [cm [Hf Hin]].
  destruct (in_cmds_cases _ _ _ _ Ha Hin) as [[c' [Hc' H]]|[c' [r [Hc' [Hp Hr]]]]].
  - assert (E : fst cm = c').
    { destruct H as [H|[H|H]]; [eapply pass1_names|eapply pass2_names|eapply pass4_names]; eauto. }
    rewrite Hf in E. subst c'. rewrite (HD _ Hc') in Ho. discriminate.
  - destruct (pass3_spec _ _ _ _ _ Hp Hr) as [E _]. rewrite Hf in E. subst c'.
    unfold pass3 in Hp. rewrite Hs in Hp. inversion Hp; subst. contradiction.
Qed.

(* the same, stated on the mode-dispatching apply_cmds for the legacy backend *)
Lemma apply_cmds_legacy_eq : forall cf t, cf_nft cf = false -> apply_cmds cf t = apply_cmds_legacy cf t.
Proof. intros. unfold apply_cmds. rewrite H. reflexivity. Qed.

Theorem no_rewrite_owned' : forall cf t cs c ch,
  cf_nft cf = false -> apply_cmds cf t = Some cs ->
  owned cf c = true ->
  (forall c', In c' (t_dirtyIA t) -> owned cf c' = false) ->
  desired t c = Some ch ->
  get c (t_dp t) = Some (hashes_of (ch_rules ch)) ->
  ~ In c (map fst cs).
Proof. intros cf t cs c ch Hn Ha. rewrite apply_cmds_legacy_eq in Ha by auto. eapply no_rewrite_owned; eauto. Qed.

Theorem no_rewrite_hooks' : forall cf t cs c,
  cf_nft cf = false -> apply_cmds cf t = Some cs ->
  owned cf c = false ->
  (forall c', In c' (t_dirty t) -> owned cf c' = true) ->
  ia_in_sync cf t c = true ->
  ~ In c (map fst cs).
Proof. intros cf t cs c Hn Ha. rewrite apply_cmds_legacy_eq in Ha by auto. eapply no_rewrite_hooks; eauto. Qed.
