(* C39 — the overlap pass and the finalizer pass: lemmas behind the per-reconcile theorems. *)
From Coq Require Import List NArith Arith Bool Lia Sorting.Permutation Sorting.Sorted.
From Verif.Common Require Import Prefix.
From Verif.C39 Require Import Model Spec Order.
Import ListNotations.

(* ---- the pass, with its decisions kept *)
Fixpoint dec_list (tf : bool) (t : trie) (ps : list pool) : list (pool * decision) :=
  match ps with
  | [] => []
  | p :: ps' => (p, fst (decide tf t p)) :: dec_list tf (snd (decide tf t p)) ps'
  end.

Definition final (blocks : list rawcidr) (x : pool * decision) : pool :=
  fo_pool (fin_step blocks (apply_decision (fst x) (snd x))).

Definition outcome (tf : bool) (pools : list pool) : list (pool * decision) :=
  dec_list tf [] (sort_pools pools).

Lemma pass_dec_list : forall tf ps t,
  pass tf t ps = map (fun x => apply_decision (fst x) (snd x)) (dec_list tf t ps).
Proof.
  induction ps as [|p ps IH]; intros t; simpl; auto.
  destruct (decide tf t p) as [d t'] eqn:E. simpl. rewrite IH. reflexivity.
Qed.

Lemma reconcile_pools : forall tf pools blocks,
  ro_pools (reconcile tf pools blocks) = map (final blocks) (outcome tf pools).
Proof.
  intros. unfold reconcile, reconcile_conditions, outcome, final. simpl.
  rewrite pass_dec_list. rewrite !map_map. reflexivity.
Qed.

Lemma dec_list_fst : forall tf ps t, map fst (dec_list tf t ps) = ps.
Proof. induction ps as [|p ps IH]; intros t; simpl; auto. rewrite IH. reflexivity. Qed.

Lemma outcome_In : forall tf pools p, In p pools -> exists d, In (p, d) (outcome tf pools).
Proof.
  intros tf pools p H. apply sort_In in H. unfold outcome.
  rewrite <- (dec_list_fst tf (sort_pools pools) []) in H.
  apply in_map_iff in H. destruct H as ([q d] & E & H). simpl in E. subst q. eauto.
Qed.

Lemma outcome_In_inv : forall tf pools p d, In (p, d) (outcome tf pools) -> In p pools.
Proof.
  intros tf pools p d H. apply sort_In. unfold outcome in H.
  rewrite <- (dec_list_fst tf (sort_pools pools) []). apply in_map_iff. exists (p, d). auto.
Qed.

(* ---- what each pass leaves untouched *)
Lemma apply_decision_name : forall p d, p_name (apply_decision p d) = p_name p.
Proof. intros p []; reflexivity. Qed.
Lemma apply_decision_cidr : forall p d, p_cidr (apply_decision p d) = p_cidr p.
Proof. intros p []; reflexivity. Qed.
Lemma apply_decision_deleting : forall p d, p_deleting (apply_decision p d) = p_deleting p.
Proof. intros p []; reflexivity. Qed.
Lemma apply_decision_fin : forall p d, p_fin (apply_decision p d) = p_fin p.
Proof. intros p []; reflexivity. Qed.
Lemma apply_decision_ofin : forall p d, p_ofin (apply_decision p d) = p_ofin p.
Proof. intros p []; reflexivity. Qed.

Lemma fin_step_name : forall b p, p_name (fo_pool (fin_step b p)) = p_name p.
Proof.
  intros b p. unfold fin_step.
  destruct (negb (p_deleting p)); [destruct (has_status p SFalse); reflexivity|].
  destruct (negb (p_fin p)); [reflexivity|].
  destruct (pcidr p); [destruct (blocks_in k b)|]; reflexivity.
Qed.
Lemma fin_step_cidr : forall b p, p_cidr (fo_pool (fin_step b p)) = p_cidr p.
Proof.
  intros b p. unfold fin_step.
  destruct (negb (p_deleting p)); [destruct (has_status p SFalse); reflexivity|].
  destruct (negb (p_fin p)); [reflexivity|].
  destruct (pcidr p); [destruct (blocks_in k b)|]; reflexivity.
Qed.
Lemma fin_step_cond : forall b p, p_cond (fo_pool (fin_step b p)) = p_cond p.
Proof.
  intros b p. unfold fin_step.
  destruct (negb (p_deleting p)); [destruct (has_status p SFalse); reflexivity|].
  destruct (negb (p_fin p)); [reflexivity|].
  destruct (pcidr p); [destruct (blocks_in k b)|]; reflexivity.
Qed.
Lemma fin_step_deleting : forall b p, p_deleting (fo_pool (fin_step b p)) = p_deleting p.
Proof.
  intros b p. unfold fin_step.
  destruct (negb (p_deleting p)); [destruct (has_status p SFalse); reflexivity|].
  destruct (negb (p_fin p)); [reflexivity|].
  destruct (pcidr p); [destruct (blocks_in k b)|]; reflexivity.
Qed.
Lemma fin_step_ofin : forall b p, p_ofin (fo_pool (fin_step b p)) = p_ofin p.
Proof.
  intros b p. unfold fin_step.
  destruct (negb (p_deleting p)); [destruct (has_status p SFalse); reflexivity|].
  destruct (negb (p_fin p)); [reflexivity|].
  destruct (pcidr p); [destruct (blocks_in k b)|]; reflexivity.
Qed.

Lemma final_name : forall b x, p_name (final b x) = p_name (fst x).
Proof. intros b [p d]. unfold final. simpl. rewrite fin_step_name, apply_decision_name. reflexivity. Qed.
Lemma final_pcidr : forall b x, pcidr (final b x) = pcidr (fst x).
Proof.
  intros b [p d]. unfold final, pcidr. simpl. rewrite fin_step_cidr, apply_decision_cidr. reflexivity.
Qed.
Lemma final_deleting : forall b x, p_deleting (final b x) = p_deleting (fst x).
Proof. intros b [p d]. unfold final. simpl. rewrite fin_step_deleting, apply_decision_deleting. reflexivity. Qed.
Lemma final_ofin : forall b x, p_ofin (final b x) = p_ofin (fst x).
Proof. intros b [p d]. unfold final. simpl. rewrite fin_step_ofin, apply_decision_ofin. reflexivity. Qed.
Lemma final_cond : forall b x, p_cond (final b x) = p_cond (apply_decision (fst x) (snd x)).
Proof. intros b [p d]. unfold final. simpl. rewrite fin_step_cond. reflexivity. Qed.

Lemma final_names : forall b dl, map p_name (map (final b) dl) = map p_name (map fst dl).
Proof. intros b dl. rewrite !map_map. apply map_ext. intros x. apply final_name. Qed.

Lemma outcome_names_NoDup : forall tf pools, NoDup (map p_name pools) ->
  NoDup (map p_name (map fst (outcome tf pools))).
Proof. intros. unfold outcome. rewrite dec_list_fst. apply sort_names_NoDup. auto. Qed.

(* ---- the decision taken for one pool *)
Definition inserted (d : decision) : bool :=
  match d with DActive | DTerminating => true | _ => false end.

Lemma decide_trie : forall tf t p,
  snd (decide tf t p) = match pcidr p with
                        | Some k => if inserted (fst (decide tf t p)) then k :: t else t
                        | None => t
                        end.
Proof.
  intros tf t p. unfold decide. destruct (pcidr p) as [k|]; auto.
  destruct tf, (p_deleting p), (p_disabled p), (trie_overlaps t k); reflexivity.
Qed.

Lemma decide_mono : forall tf t p k, In k t -> In k (snd (decide tf t p)).
Proof.
  intros tf t p k H. rewrite decide_trie. destruct (pcidr p); auto.
  destruct (inserted _); simpl; auto.
Qed.

(* every decision in the list was taken by [decide] against some trie *)
Lemma dec_list_decided : forall tf ps t p d, In (p, d) (dec_list tf t ps) ->
  exists t1, d = fst (decide tf t1 p).
Proof.
  induction ps as [|q ps IH]; intros t p d H; simpl in H. { contradiction. }
  destruct H as [H|H].
  - inversion H; subst. eauto.
  - eapply IH; eauto.
Qed.

Lemma decide_active : forall tf t p, fst (decide tf t p) = DActive ->
  exists k, pcidr p = Some k /\ p_disabled p = false /\ p_deleting p = false /\ trie_overlaps t k = false.
Proof.
  intros tf t p. unfold decide. destruct (pcidr p) as [k|]; [|simpl; discriminate].
  destruct tf, (p_deleting p), (p_disabled p), (trie_overlaps t k) eqn:E; simpl; try discriminate;
    intros _; exists k; repeat split; auto.
Qed.

Lemma decide_terminating : forall tf t p, fst (decide tf t p) = DTerminating -> p_deleting p = true.
Proof.
  intros tf t p. unfold decide. destruct (pcidr p) as [k|]; simpl; [|discriminate].
  destruct tf, (p_deleting p), (p_disabled p), (trie_overlaps t k); simpl; try discriminate; eauto.
Qed.

Lemma decide_skip : forall tf t p k, pcidr p = Some k -> fst (decide tf t p) <> DSkip.
Proof.
  intros tf t p k H. unfold decide. rewrite H.
  destruct tf, (p_deleting p), (p_disabled p), (trie_overlaps t k); simpl; discriminate.
Qed.

(* a terminating pool that the pass does not skip as "disabled" is put into the trie *)
Definition masks (tf : bool) (p : pool) : Prop :=
  p_deleting p = true /\ (tf = true \/ p_disabled p = false).
Lemma decide_masks : forall tf t p k, pcidr p = Some k -> masks tf p ->
  fst (decide tf t p) = DTerminating.
Proof.
  intros tf t p k H [D [T|T]]; unfold decide; rewrite H, D; subst.
  - reflexivity.
  - rewrite T. destruct tf; reflexivity.
Qed.

(* an in-service pool (parseable, not disabled, not terminating) is either accepted or found overlapping *)
Lemma decide_in_service : forall tf t p k, pcidr p = Some k -> p_disabled p = false -> p_deleting p = false ->
  fst (decide tf t p) = if trie_overlaps t k then DOverlap else DActive.
Proof.
  intros tf t p k H1 H2 H3. unfold decide. rewrite H1, H2, H3.
  destruct tf, (trie_overlaps t k); reflexivity.
Qed.

(* after the whole reconcile a readable pool is allocatable exactly when the pass accepted it *)
Lemma final_allocatable : forall b tf t1 p k, pcidr p = Some k ->
  allocatable (final b (p, fst (decide tf t1 p))) = true <-> fst (decide tf t1 p) = DActive.
Proof.
  intros b tf t1 p k H. unfold allocatable, has_status. rewrite final_cond. simpl.
  pose proof (decide_skip tf t1 p k H) as NS.
  destruct (fst (decide tf t1 p)); simpl; split; intros; try discriminate; try congruence.
Qed.

Lemma final_allocatable_unreadable : forall b tf t1 p, pcidr p = None ->
  allocatable (final b (p, fst (decide tf t1 p))) = allocatable p.
Proof.
  intros b tf t1 p H. unfold allocatable, has_status. rewrite final_cond. simpl.
  unfold decide. rewrite H. reflexivity.
Qed.

(* ---- overlap is symmetric *)
Lemma cidr_overlap_sym : forall a b, cidr_overlap a b = cidr_overlap b a.
Proof.
  intros [va pa] [vb pb]. unfold cidr_overlap, overlaps. simpl.
  destruct va, vb; simpl; auto; apply orb_comm.
Qed.

Lemma trie_overlaps_In : forall t k k', In k' t -> cidr_overlap k k' = true -> trie_overlaps t k = true.
Proof. intros t k k' H1 H2. unfold trie_overlaps. apply existsb_exists. eauto. Qed.

(* ---- (1) accepted pools are pairwise disjoint, whatever the processing order *)
Lemma dec_list_active_disjoint : forall tf ps t,
  Forall (fun x => snd x = DActive -> forall k, pcidr (fst x) = Some k -> trie_overlaps t k = false)
         (dec_list tf t ps)
  /\ ForallOrdPairs (fun x y => snd x = DActive -> snd y = DActive ->
        forall ka kb, pcidr (fst x) = Some ka -> pcidr (fst y) = Some kb -> cidr_overlap kb ka = false)
        (dec_list tf t ps).
Proof.
  induction ps as [|p ps IH]; intros t; simpl. { split; constructor. }
  destruct (IH (snd (decide tf t p))) as [F P]. split.
  - constructor.
    + simpl. intros HA k Hk. apply decide_active in HA. destruct HA as (k' & E & _ & _ & O). congruence.
    + eapply Forall_impl; [|exact F]. intros x Hx HA k Hk.
      specialize (Hx HA k Hk). destruct (trie_overlaps t k) eqn:E; auto.
      unfold trie_overlaps in E. apply existsb_exists in E. destruct E as (k' & I & O).
      rewrite <- Hx. symmetry. eapply trie_overlaps_In; [apply decide_mono; exact I|exact O].
  - constructor; auto.
    rewrite Forall_forall in F |- *. intros y Hy. simpl. intros HA HB ka kb Ha Hb.
    specialize (F y Hy HB kb Hb). rewrite decide_trie, Ha, HA in F. simpl in F.
    apply orb_false_iff in F. tauto.
Qed.

(* ---- (2) the incumbents: category-0 pools come first; the only thing that can block one is an
   earlier incumbent that the pass accepted *)
Lemma category_0 : forall p, category p = 0 <-> allocatable p = true /\ p_deleting p = false.
Proof.
  intros p. unfold category, allocatable.
  destruct (has_status p STrue), (p_deleting p), (has_status p SFalse); simpl; split; intros H;
    try discriminate; try tauto; destruct H; discriminate.
Qed.

Lemma category_deleting : forall p, p_deleting p = true -> category p = 1.
Proof. intros p H. unfold category. rewrite H. rewrite andb_false_r. reflexivity. Qed.

Lemma incumbent_spec : forall p, incumbent p = true <->
  category p = 0 /\ p_disabled p = false /\ exists k, pcidr p = Some k.
Proof.
  intros p. unfold incumbent. rewrite !andb_true_iff, !negb_true_iff, category_0.
  unfold pcidr. destruct (p_cidr p); simpl; split.
  - intros (((A & B) & C) & _). repeat split; eauto.
  - intros ((A & B) & C & _). auto.
  - intros (_ & H); discriminate.
  - intros (_ & _ & k & H); discriminate.
Qed.

Lemma pools_overlap_cidr : forall a b ka kb, pcidr a = Some ka -> pcidr b = Some kb ->
  pools_overlap a b = cidr_overlap ka kb.
Proof. intros a b ka kb H1 H2. unfold pools_overlap. rewrite H1, H2. reflexivity. Qed.

Lemma dec_list_incumbent : forall tf ps t,
  StronglySorted cat_le ps -> NoDup (map p_name ps) ->
  forall a d, In (a, d) (dec_list tf t ps) -> incumbent a = true ->
    d = DActive
    \/ (exists k ka, In k t /\ pcidr a = Some ka /\ cidr_overlap ka k = true)
    \/ (exists q, In (q, DActive) (dec_list tf t ps) /\ p_name q <> p_name a
                  /\ incumbent q = true /\ pools_overlap a q = true).
Proof.
  induction ps as [|h ps IH]; intros t S ND a d H Inc; simpl in H. { contradiction. }
  inversion S as [|? ? S' F]; subst. simpl in ND. inversion ND as [|? ? Hnotin ND']; subst.
  destruct H as [H|H].
  - inversion H; subst. clear H.
    apply incumbent_spec in Inc. destruct Inc as (C0 & Dis & ka & Hk).
    apply category_0 in C0. destruct C0 as [_ Del].
    rewrite (decide_in_service tf t a ka Hk Dis Del).
    destruct (trie_overlaps t ka) eqn:E; auto.
    right; left. unfold trie_overlaps in E. apply existsb_exists in E. destruct E as (k & I & O). eauto.
  - assert (Ia : In a ps).
    { rewrite <- (dec_list_fst tf ps (snd (decide tf t h))). apply in_map_iff. exists (a, d). auto. }
    destruct (IH _ S' ND' a d H Inc) as [A|[(k & ka & I & Hk & O)|(q & Iq & Nq & Incq & Oq)]].
    + left; exact A.
    + rewrite decide_trie in I. destruct (pcidr h) as [kh|] eqn:Hh; [|right; left; eauto].
      destruct (inserted (fst (decide tf t h))) eqn:Ins; [|right; left; eauto].
      destruct I as [I|I]; [|right; left; eauto]. subst k.
      (* h was put into the trie just before; it sorts before an incumbent, so it is one itself *)
      right; right. exists h.
      assert (Ch : category h = 0).
      { rewrite Forall_forall in F. specialize (F a Ia). unfold cat_le in F.
        apply incumbent_spec in Inc. destruct Inc as (C0 & _). lia. }
      pose proof Ch as Ch'. apply category_0 in Ch'. destruct Ch' as [_ Dh].
      assert (Act : fst (decide tf t h) = DActive).
      { destruct (fst (decide tf t h)) eqn:E; try discriminate; auto.
        apply decide_terminating in E. congruence. }
      repeat split.
      * left. rewrite Act. reflexivity.
      * intros E. apply Hnotin. rewrite E. apply in_map. exact Ia.
      * apply incumbent_spec. apply decide_active in Act. destruct Act as (k' & E1 & E2 & _).
        repeat split; eauto.
      * rewrite (pools_overlap_cidr a h ka kh Hk Hh). exact O.
    + right; right. exists q. repeat split; auto. simpl. right. exact Iq.
Qed.

(* ---- (3) a terminating pool that is put into the trie masks every overlapping pool that
   does not sort before it, and only pools that were already allocatable sort before it *)
Lemma dec_list_masked : forall tf ps t T kT,
  StronglySorted cat_le ps -> NoDup (map p_name ps) ->
  pcidr T = Some kT -> masks tf T -> (In T ps \/ In kT t) ->
  forall a ka, In (a, DActive) (dec_list tf t ps) -> p_name a <> p_name T ->
    pcidr a = Some ka -> cidr_overlap ka kT = true -> category a = 0.
Proof.
  induction ps as [|h ps IH]; intros t T kT S ND HkT M Where a ka H Na Hka O; simpl in H. { contradiction. }
  inversion S as [|? ? S' F]; subst. simpl in ND. inversion ND as [|? ? Hnotin ND']; subst.
  destruct H as [H|H].
  - inversion H as [[E1 E2]]; subst h. clear H.
    pose proof E2 as Act. apply decide_active in Act. destruct Act as (k' & E & _ & Del & NoO).
    assert (k' = ka) by congruence. subst k'.
    destruct Where as [[W|W]|W].
    + subst a. congruence.
    + (* T comes later: a sorts before a terminating pool and is not terminating itself *)
      rewrite Forall_forall in F. specialize (F T W). unfold cat_le in F.
      rewrite (category_deleting T (proj1 M)) in F.
      unfold category in *. rewrite Del in *. destruct (has_status a STrue); simpl in *; auto.
      destruct (has_status a SFalse); lia.
    + (* T's CIDR is already in the trie: a cannot have been accepted *)
      rewrite (trie_overlaps_In t ka kT W O) in NoO. discriminate.
  - eapply (IH (snd (decide tf t h)) T kT); eauto.
    destruct Where as [[W|W]|W]; auto.
    + subst h. right. rewrite decide_trie, HkT, (decide_masks tf t T kT HkT M). simpl. auto.
    + right. apply decide_mono. exact W.
Qed.

(* ---- name lookup in lists with distinct names *)
Lemma find_pool_unique : forall l x, NoDup (map p_name l) -> In x l -> find_pool (p_name x) l = Some x.
Proof.
  induction l as [|y l IH]; intros x ND H; simpl in *. { contradiction. }
  inversion ND as [|? ? Hnotin ND']; subst.
  destruct H as [H|H].
  - subst y. rewrite name_eqb_refl. reflexivity.
  - destruct (name_eqb (p_name y) (p_name x)) eqn:E.
    + apply name_eqb_eq in E. exfalso. apply Hnotin. rewrite E. apply in_map. exact H.
    + apply IH; auto.
Qed.

Lemma find_pool_In : forall n l q, find_pool n l = Some q -> In q l /\ p_name q = n.
Proof.
  intros n l q H. unfold find_pool in H. apply find_some in H. destruct H as [H1 H2].
  apply name_eqb_eq in H2. auto.
Qed.

(* the record of pool [p] after the reconcile *)
Lemma after_outcome : forall tf pools blocks p d f,
  NoDup (map p_name pools) -> In (p, d) (outcome tf pools) ->
  after (ro_pools (reconcile tf pools blocks)) f p = f (final blocks (p, d)).
Proof.
  intros tf pools blocks p d f ND H. unfold after. rewrite reconcile_pools.
  assert (E : p_name p = p_name (final blocks (p, d))) by (rewrite final_name; reflexivity).
  rewrite E. rewrite find_pool_unique; auto.
  - rewrite final_names. apply outcome_names_NoDup. exact ND.
  - apply in_map. exact H.
Qed.

(* distinct entries of the outcome have distinct names *)
Lemma outcome_same_name : forall tf pools x y, NoDup (map p_name pools) ->
  In x (outcome tf pools) -> In y (outcome tf pools) -> p_name (fst x) = p_name (fst y) -> x = y.
Proof.
  intros tf pools x y ND Hx Hy E.
  pose proof (outcome_names_NoDup tf pools ND) as N. rewrite map_map in N.
  revert N Hx Hy E. generalize (outcome tf pools). induction l as [|z l IH]; simpl; intros N Hx Hy E.
  { contradiction. }
  inversion N as [|? ? Hnotin N']; subst.
  destruct Hx as [Hx|Hx], Hy as [Hy|Hy]; subst; auto.
  - exfalso. apply Hnotin. rewrite E. apply (in_map (fun x => p_name (fst x))). exact Hy.
  - exfalso. apply Hnotin. rewrite <- E. apply (in_map (fun x => p_name (fst x))). exact Hx.
Qed.

(* ---- (4) the finalizer pass *)
Lemma covers_blocks_in : forall p k blocks, pcidr p = Some k -> has_block p blocks = true -> blocks_in k blocks = true.
Proof.
  intros p k blocks Hk H. unfold has_block in H. rewrite Hk in H. unfold blocks_in.
  apply existsb_exists in H. destruct H as (b & I & H). apply existsb_exists. exists b. split; auto.
  destruct b as [c|]; auto. unfold kcovers in H. unfold kcontains.
  apply andb_true_iff in H. destruct H as [H1 H2]. rewrite H1. simpl.
  unfold covers in H2. apply andb_true_iff in H2. tauto.
Qed.

Lemma final_fin_held : forall blocks p d k,
  p_deleting p = true -> p_fin p = true -> pcidr p = Some k -> blocks_in k blocks = true ->
  p_fin (final blocks (p, d)) = true.
Proof.
  intros blocks p d k D Fi Hk B. unfold final, fin_step. simpl.
  rewrite apply_decision_deleting, apply_decision_fin, D, Fi. simpl.
  unfold pcidr in *. rewrite apply_decision_cidr, Hk, B. simpl.
  rewrite apply_decision_fin. exact Fi.
Qed.

Lemma final_fin_unreadable : forall blocks p d,
  p_deleting p = true -> p_fin p = true -> pcidr p = None -> p_fin (final blocks (p, d)) = true.
Proof.
  intros blocks p d D Fi Hk. unfold final, fin_step. simpl.
  rewrite apply_decision_deleting, apply_decision_fin, D, Fi. simpl.
  unfold pcidr in *. rewrite apply_decision_cidr, Hk. simpl. rewrite apply_decision_fin. exact Fi.
Qed.

Lemma final_fin_in_service : forall blocks x,
  p_deleting (fst x) = false -> p_fin (final blocks x) = negb (has_status (final blocks x) SFalse).
Proof.
  intros blocks [p d] D. simpl in D. unfold has_status at 1. rewrite final_cond. simpl.
  unfold final, fin_step. simpl. rewrite apply_decision_deleting, D. simpl.
  unfold has_status. destruct (p_cond (apply_decision p d)) as [[s r]|]; simpl; auto.
  destruct s; reflexivity.
Qed.

Lemma allocatable_not_false : forall p, allocatable p = true -> has_status p SFalse = false.
Proof.
  intros p. unfold allocatable, has_status. destruct (p_cond p) as [[[] r]|]; simpl; auto; discriminate.
Qed.
