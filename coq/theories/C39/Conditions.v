(* C39 — status.conditions as the LIST the code manipulates: setConditionOnPool, hasCondition
   (pool_controller.go) modelled on lists, tied to the real functions by the "conditions" stream
   of the driver, and shown to refine the single optional Allocatable condition of Model.v. *)
From Coq Require Import List NArith Arith Bool Lia.
From Verif.C39 Require Import Model.
Import ListNotations.

(* one metav1.Condition: type (0 = Allocatable, other numbers = other types), status, reason,
   message (an identifier); lastTransitionTime is not observed *)
Record lcond := mkLC { lc_type : N; lc_status : status; lc_reason : reason; lc_msg : N }.

Definition lcond_same (a b : lcond) : bool :=
  status_eqb (lc_status a) (lc_status b) && reason_eqb (lc_reason a) (lc_reason b) && N.eqb (lc_msg a) (lc_msg b).
Definition lcond_eqb (a b : lcond) : bool := N.eqb (lc_type a) (lc_type b) && lcond_same a b.

(* hasCondition: SOME condition of that type has that status *)
Definition has_condition (cs : list lcond) (ty : N) (st : status) : bool :=
  existsb (fun c => N.eqb (lc_type c) ty && status_eqb (lc_status c) st) cs.

(* setConditionOnPool: the FIRST condition of the type is compared / replaced, otherwise append;
   the flag says whether the status must be written (p.Status == nil behaves like the empty list) *)
Fixpoint set_condition (cs : list lcond) (c : lcond) : list lcond * bool :=
  match cs with
  | [] => ([c], true)
  | x :: cs' =>
      if N.eqb (lc_type x) (lc_type c) then
        if lcond_same x c then (cs, false) else (c :: cs', true)
      else let '(r, ch) := set_condition cs' c in (x :: r, ch)
  end.

(* ---- specification level *)
Definition of_type (ty : N) (c : lcond) : bool := N.eqb (lc_type c) ty.
Definition others (ty : N) (cs : list lcond) : list lcond := filter (fun c => negb (of_type ty c)) cs.
Definition count_type (ty : N) (cs : list lcond) : nat := length (filter (of_type ty) cs).
Definition lconds_eqb (a b : list lcond) : bool :=
  Nat.eqb (length a) (length b) && forallb (fun xy => lcond_eqb (fst xy) (snd xy)) (combine a b).

(* oracle on the implementation's result: the first condition of the type is now c; nothing else of
   the list changed (other types kept, in order; number of conditions of the type unchanged or 0 -> 1);
   a write is requested exactly when the first condition of the type was not already c *)
Definition first_of (ty : N) (cs : list lcond) : option lcond := find (of_type ty) cs.
Definition ok_set (cs : list lcond) (c : lcond) (res : list lcond) (changed : bool) : bool :=
  match first_of (lc_type c) res with Some x => lcond_same x c | None => false end
  && lconds_eqb (others (lc_type c) res) (others (lc_type c) cs)
  && Nat.eqb (count_type (lc_type c) res) (Nat.max 1 (count_type (lc_type c) cs))
  && Bool.eqb changed (negb (match first_of (lc_type c) cs with Some x => lcond_same x c | None => false end)).

Record ccase := mkCCase {
  cc_before : list lcond; cc_new : lcond;
  cc_after : list lcond; cc_changed : bool;           (* observed from setConditionOnPool *)
  cc_has_true : bool; cc_has_false : bool             (* observed hasCondition(Allocatable, True / False) BEFORE the set *)
}.
Definition check_ccase (c : ccase) : bool * bool :=
  let '(r, ch) := set_condition (cc_before c) (cc_new c) in
  (lconds_eqb r (cc_after c) && Bool.eqb ch (cc_changed c)
   && Bool.eqb (has_condition (cc_before c) 0 STrue) (cc_has_true c)
   && Bool.eqb (has_condition (cc_before c) 0 SFalse) (cc_has_false c),
   ok_set (cc_before c) (cc_new c) (cc_after c) (cc_changed c)).

(* ---- the abstraction used by Model.v: the Allocatable condition, if any *)
Definition abs (cs : list lcond) : cond :=
  match first_of 0 cs with Some c => Some (lc_status c, lc_reason c) | None => None end.
(* the API server keeps conditions as a map keyed by type *)
Definition one_per_type (cs : list lcond) : Prop := forall ty, count_type ty cs <= 1.
