(* C39 — the correspondence cases: reconcile histories (Spec.case) and direct calls of
   setConditionOnPool / hasCondition on condition lists (Conditions.ccase). *)
From Coq Require Import List NArith Bool.
From Verif.C39 Require Import Model Spec Conditions.

Inductive xcase := XRounds (c : case) | XCond (c : ccase).
Definition check_xcase (x : xcase) : bool * bool :=
  match x with XRounds c => check_case c | XCond c => check_ccase c end.
