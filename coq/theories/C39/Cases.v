(* C39 — the correspondence cases: reconcile histories (Spec.case) and direct calls of
   setConditionOnPool / hasCondition on condition lists (Conditions.ccase). *)
From Coq Require Import List NArith Arith Bool.
From Verif.C39 Require Import Model Spec Conditions.

(* handleErr: what happens to the single work item after a pass (maxRetries = 5) *)
Inductive qaction := QForget | QRequeue | QDrop.
Definition max_retries : nat := 5.
Definition handle_err (failed : bool) (requeues : nat) : qaction :=
  if negb failed then QForget else if Nat.ltb requeues max_retries then QRequeue else QDrop.
(* observable: (rate limited re-adds, forgets) *)
Definition qobs (a : qaction) : nat * nat :=
  match a with QForget => (0, 1) | QRequeue => (1, 0) | QDrop => (0, 1) end%nat.
(* spec: a failed pass is retried unless the retry budget is used up; a clean pass clears the retry counter *)
Definition ok_handle (failed : bool) (requeues adds forgets : nat) : bool :=
  if failed then (if Nat.ltb requeues 5 then Nat.eqb adds 1 && Nat.eqb forgets 0 else Nat.eqb adds 0 && Nat.eqb forgets 1)
  else Nat.eqb adds 0 && Nat.eqb forgets 1.

Inductive xcase := XRounds (c : case) | XCond (c : ccase) | XErr (failed : bool) (requeues adds forgets : nat).
Definition check_xcase (x : xcase) : bool * bool :=
  match x with
  | XRounds c => check_case c
  | XCond c => check_ccase c
  | XErr failed requeues adds forgets =>
      (let '(a, f) := qobs (handle_err failed requeues) in Nat.eqb a adds && Nat.eqb f forgets,
       ok_handle failed requeues adds forgets)
  end.

Lemma handle_err_meets_spec : forall failed requeues,
  let '(a, f) := qobs (handle_err failed requeues) in ok_handle failed requeues a f = true.
Proof.
  intros failed requeues. unfold handle_err, ok_handle, max_retries.
  destruct failed; simpl; auto. destruct (Nat.ltb requeues 5); reflexivity.
Qed.

(* a failed pass is re-queued (so the clean pass of c39_faults_then_clean_pass is attempted) for the first
   five consecutive failures; after that the informer resync of run.go triggers the next pass *)
Lemma failed_pass_requeued : forall requeues, requeues < 5 -> handle_err true requeues = QRequeue.
Proof.
  intros r H. unfold handle_err, max_retries. simpl. apply Nat.ltb_lt in H. rewrite H. reflexivity.
Qed.
