(* C39 — the oracle accepts every pass of every model history (the whole-case form of
   model_meets_spec: what check_rounds evaluates on the implementation's observations). *)
From Coq Require Import List NArith Arith Bool.
From Verif.Common Require Import Prefix.
From Verif.C39 Require Import Model Spec Order Proofs Reconcile History Faults.
Import ListNotations.

Fixpoint passes_ok (tf : bool) (s : state) (hs : list hopf) : bool :=
  match hs with
  | [] => true
  | h :: hs' =>
      match h with
      | FApi _ => true
      | FReconcile sf uf =>
          ok_round_f sf uf (st_pools s) (st_blocks s) (ro_pools (reconcile_f tf sf uf (st_pools s) (st_blocks s)))
      end && passes_ok tf (hstepf tf s h) hs'
  end.

Lemma passes_ok_from : forall hs s, Base s -> Forall hopf_wf hs -> passes_ok true s hs = true.
Proof.
  induction hs as [|h hs IH]; intros s B W; simpl; auto.
  inversion W; subst. apply andb_true_iff. split.
  - destruct h as [o|sf uf]; auto. apply model_meets_spec_f; auto. apply (proj1 B).
  - apply IH; auto. destruct h as [o|sf uf]; simpl; [apply Base_api_step|apply Base_reconcile_step_f]; auto.
Qed.

Lemma history_model_meets_spec : forall hs blocks0, Forall hopf_wf hs ->
  passes_ok true (mkState [] blocks0) hs = true.
Proof. intros. apply passes_ok_from; auto. split; simpl; [constructor|intros a []]. Qed.

Lemma model_meets_spec_fixed : forall pools blocks, NoDup (map p_name pools) ->
  ok_round pools blocks (ro_pools (reconcile true pools blocks)) = true.
Proof. intros. apply model_meets_spec; auto. Qed.
