(* C39 — passes in which API writes fail.  The decisions of the overlap pass do not depend on
   write results, so everything is again read off [outcome]; what changes is what reaches the
   datastore ([finalf]).  Statements hold for EVERY choice of failing writes [sf], [uf]. *)
From Coq Require Import List NArith Arith Bool Lia Sorting.Permutation Sorting.Sorted.
From Verif.Common Require Import Prefix.
From Verif.C39 Require Import Model Spec Order Proofs Reconcile History.
Import ListNotations.

Definition finalf (sf uf : list (list N)) (blocks : list rawcidr) (x : pool * decision) : pool :=
  ff_pool (final_f sf uf blocks (fst x) (snd x)).

Definition post_f (tf : bool) (sf uf : list (list N)) (pools : list pool) (blocks : list rawcidr) : list pool :=
  ro_pools (reconcile_f tf sf uf pools blocks).

Lemma pass_f_dec_list : forall tf sf uf blocks ps t,
  map ff_pool (pass_f tf sf uf blocks t ps) = map (finalf sf uf blocks) (dec_list tf t ps).
Proof.
  induction ps as [|p ps IH]; intros t; simpl; auto.
  destruct (decide tf t p) as [d t'] eqn:E. simpl. rewrite IH. reflexivity.
Qed.

Lemma post_f_outcome : forall tf sf uf pools blocks,
  post_f tf sf uf pools blocks = map (finalf sf uf blocks) (outcome tf pools).
Proof. intros. unfold post_f, reconcile_f, outcome. cbn [ro_pools]. apply pass_f_dec_list. Qed.

Lemma finalf_name : forall sf uf b x, p_name (finalf sf uf b x) = p_name (fst x).
Proof. reflexivity. Qed.
Lemma finalf_cidr : forall sf uf b x, p_cidr (finalf sf uf b x) = p_cidr (fst x).
Proof. reflexivity. Qed.
Lemma finalf_pcidr : forall sf uf b x, pcidr (finalf sf uf b x) = pcidr (fst x).
Proof. reflexivity. Qed.
Lemma finalf_deleting : forall sf uf b x, p_deleting (finalf sf uf b x) = p_deleting (fst x).
Proof. reflexivity. Qed.
Lemma finalf_disabled : forall sf uf b x, p_disabled (finalf sf uf b x) = p_disabled (fst x).
Proof. reflexivity. Qed.

Lemma finalf_names : forall sf uf b dl, map p_name (map (finalf sf uf b) dl) = map p_name (map fst dl).
Proof. intros. rewrite !map_map. reflexivity. Qed.

Lemma post_f_names_NoDup : forall tf sf uf pools blocks, NoDup (map p_name pools) ->
  NoDup (map p_name (post_f tf sf uf pools blocks)).
Proof. intros. rewrite post_f_outcome, finalf_names. apply outcome_names_NoDup. auto. Qed.

Lemma post_f_In : forall tf sf uf pools blocks p', In p' (post_f tf sf uf pools blocks) ->
  exists x, In x (outcome tf pools) /\ p' = finalf sf uf blocks x.
Proof.
  intros until p'. rewrite post_f_outcome. intros H. apply in_map_iff in H. destruct H as (x & E & I). eauto.
Qed.

Lemma after_outcome_f : forall tf sf uf pools blocks p d f,
  NoDup (map p_name pools) -> In (p, d) (outcome tf pools) ->
  after (post_f tf sf uf pools blocks) f p = f (finalf sf uf blocks (p, d)).
Proof.
  intros tf sf uf pools blocks p d f ND H. unfold after. rewrite post_f_outcome.
  change (p_name p) with (p_name (finalf sf uf blocks (p, d))).
  rewrite find_pool_unique; auto.
  - rewrite finalf_names. apply outcome_names_NoDup. exact ND.
  - apply in_map. exact H.
Qed.

(* without failures this is the reconcile of Model.reconcile *)
Lemma mem_name_nil : forall n, mem_name n [] = false.
Proof. reflexivity. Qed.

Lemma finalf_clean : forall blocks x, finalf [] [] blocks x = final blocks x.
Proof.
  intros blocks [p d]. unfold finalf, final_f, final. cbn [fst snd ff_pool]. rewrite !mem_name_nil, !andb_false_r.
  set (q := fo_pool (fin_step blocks (apply_decision p d))).
  assert (E1 : p_name q = p_name p) by (unfold q; rewrite fin_step_name, apply_decision_name; reflexivity).
  assert (E3 : p_cidr q = p_cidr p) by (unfold q; rewrite fin_step_cidr, apply_decision_cidr; reflexivity).
  assert (E5 : p_deleting q = p_deleting p) by (unfold q; rewrite fin_step_deleting, apply_decision_deleting; reflexivity).
  assert (E6 : p_cond q = p_cond (apply_decision p d)) by (unfold q; rewrite fin_step_cond; reflexivity).
  assert (E7 : p_ofin q = p_ofin p) by (unfold q; rewrite fin_step_ofin, apply_decision_ofin; reflexivity).
  assert (E2 : p_created q = p_created p).
  { unfold q, fin_step. destruct d; simpl;
      repeat match goal with |- context [if ?c then _ else _] => destruct c end;
      try reflexivity; destruct (pcidr _); try destruct (blocks_in _ _); reflexivity. }
  assert (E4 : p_disabled q = p_disabled p).
  { unfold q, fin_step. destruct d; simpl;
      repeat match goal with |- context [if ?c then _ else _] => destruct c end;
      try reflexivity; destruct (pcidr _); try destruct (blocks_in _ _); reflexivity. }
  destruct q. simpl in *. subst. reflexivity.
Qed.

Lemma post_f_clean : forall tf pools blocks, post_f tf [] [] pools blocks = post_of tf pools blocks.
Proof.
  intros. rewrite post_f_outcome. unfold post_of. rewrite reconcile_pools.
  apply map_ext. intros x. apply finalf_clean.
Qed.

(* ---- what the datastore shows after a pass with failures *)
Definition sfailed (sf : list (list N)) (p : pool) (d : decision) : bool :=
  status_written p d && mem_name (p_name p) sf.

Lemma finalf_cond : forall sf uf b p d,
  p_cond (finalf sf uf b (p, d)) = if sfailed sf p d then p_cond p else p_cond (apply_decision p d).
Proof. reflexivity. Qed.

Lemma allocatable_cond : forall p q, p_cond p = p_cond q -> allocatable p = allocatable q.
Proof. intros p q H. unfold allocatable, has_status. rewrite H. reflexivity. Qed.

(* a readable pool is allocatable in the datastore after the pass only if the pass accepted it,
   or it was allocatable before and its own status write failed *)
Lemma finalf_allocatable : forall sf uf b tf t1 p k, pcidr p = Some k ->
  allocatable (finalf sf uf b (p, fst (decide tf t1 p))) = true ->
  fst (decide tf t1 p) = DActive \/ (allocatable p = true /\ mem_name (p_name p) sf = true).
Proof.
  intros sf uf b tf t1 p k Hk A. unfold allocatable, has_status in A. rewrite finalf_cond in A.
  destruct (sfailed sf p (fst (decide tf t1 p))) eqn:S.
  - right. unfold sfailed in S. apply andb_true_iff in S. split; [exact A|tauto].
  - left. pose proof (decide_skip tf t1 p k Hk) as NS.
    destruct (fst (decide tf t1 p)); simpl in A; try discriminate; try congruence.
Qed.

(* a pool the pass accepted that was allocatable before is allocatable in the datastore whatever fails *)
Lemma finalf_active_allocatable : forall sf uf b p, allocatable p = true ->
  allocatable (finalf sf uf b (p, DActive)) = true.
Proof.
  intros sf uf b p A. unfold allocatable, has_status. rewrite finalf_cond.
  destruct (sfailed sf p DActive); auto.
Qed.

(* (1) for the pools whose status write did not fail *)
Lemma no_two_allocatable_overlap_f : forall tf sf uf pools blocks p q,
  In p (post_f tf sf uf pools blocks) -> In q (post_f tf sf uf pools blocks) ->
  p_name p <> p_name q -> allocatable p = true -> allocatable q = true ->
  mem_name (p_name p) sf = false -> mem_name (p_name q) sf = false ->
  pools_overlap p q = false.
Proof.
  intros tf sf uf pools blocks p q Hp Hq Nn Ap Aq Sp Sq.
  apply post_f_In in Hp. destruct Hp as (x & Ix & Ep). apply post_f_In in Hq. destruct Hq as (y & Iy & Eq).
  subst p q. destruct (pools_overlap (finalf sf uf blocks x) (finalf sf uf blocks y)) eqn:O; auto. exfalso.
  apply pools_overlap_parse in O. destruct O as (ka & kb & Ha & Hb & O).
  rewrite finalf_pcidr in Ha, Hb.
  assert (Nxy : x <> y) by (intros E; subst; apply Nn; reflexivity).
  destruct x as [a da], y as [b db]. simpl in Ha, Hb. rewrite finalf_name in Sp, Sq. simpl in Sp, Sq.
  destruct (dec_list_decided _ _ _ _ _ Ix) as (t1 & E1). destruct (dec_list_decided _ _ _ _ _ Iy) as (t2 & E2).
  assert (Da : da = DActive).
  { subst da. destruct (finalf_allocatable sf uf blocks tf t1 a ka Ha Ap) as [H|[_ H]]; auto. congruence. }
  assert (Db : db = DActive).
  { subst db. destruct (finalf_allocatable sf uf blocks tf t2 b kb Hb Aq) as [H|[_ H]]; auto. congruence. }
  destruct (dec_list_active_disjoint tf (sort_pools pools) []) as [_ P].
  destruct (ForallOrdPairs_In P _ _ Ix Iy) as [E|[R|R]]; [congruence| |].
  - specialize (R Da Db ka kb Ha Hb). rewrite cidr_overlap_sym in R. congruence.
  - specialize (R Db Da kb ka Hb Ha). congruence.
Qed.

(* (2), after every pass whatever fails *)
Lemma incumbent_only_loses_to_incumbent_f : forall tf sf uf pools blocks p,
  NoDup (map p_name pools) -> In p pools -> incumbent p = true ->
  after (post_f tf sf uf pools blocks) allocatable p = true
  \/ exists q, In q pools /\ p_name q <> p_name p /\ incumbent q = true /\ pools_overlap p q = true
               /\ after (post_f tf sf uf pools blocks) allocatable q = true.
Proof.
  intros tf sf uf pools blocks p ND Ip Inc.
  destruct (outcome_In tf pools p Ip) as (d & Id).
  rewrite (after_outcome_f tf sf uf pools blocks p d allocatable ND Id).
  destruct (dec_list_incumbent tf (sort_pools pools) [] (sort_cat_sorted pools) (sort_names_NoDup pools ND) p d Id Inc)
    as [A|[(k0 & ka & I & _)|(q & Iq & Nq & Incq & Oq)]].
  - left. subst d. apply finalf_active_allocatable. apply incumbent_allocatable. exact Inc.
  - contradiction.
  - right. exists q. repeat split; auto.
    + eapply outcome_In_inv. exact Iq.
    + rewrite (after_outcome_f tf sf uf pools blocks q DActive allocatable ND Iq).
      apply finalf_active_allocatable. apply incumbent_allocatable. exact Incq.
Qed.

Lemma incumbent_kept_f : forall tf sf uf pools blocks,
  NoDup (map p_name pools) ->
  (forall a b, In a pools -> In b pools -> p_name a <> p_name b ->
               incumbent a = true -> incumbent b = true -> pools_overlap a b = false) ->
  forall p, In p pools -> incumbent p = true ->
    after (post_f tf sf uf pools blocks) allocatable p = true.
Proof.
  intros tf sf uf pools blocks ND Pair p Ip Inc.
  destruct (incumbent_only_loses_to_incumbent_f tf sf uf pools blocks p ND Ip Inc) as [A|(q & Iq & Nq & Incq & Oq & _)]; auto.
  rewrite (Pair p q Ip Iq) in Oq; auto; discriminate.
Qed.

(* (3), after every pass whatever fails: nothing that overlaps a (masking) terminating pool BECOMES allocatable *)
Lemma terminating_masks_f : forall tf sf uf pools blocks T p,
  NoDup (map p_name pools) -> In T pools -> In p pools -> p_name p <> p_name T ->
  p_deleting T = true -> (tf = true \/ p_disabled T = false) ->
  pools_overlap T p = true ->
  after (post_f tf sf uf pools blocks) allocatable p = true ->
  allocatable p = true.
Proof.
  intros tf sf uf pools blocks T p ND IT Ip Nn Del M O A.
  destruct (outcome_In tf pools p Ip) as (d & Id).
  rewrite (after_outcome_f tf sf uf pools blocks p d allocatable ND Id) in A.
  apply pools_overlap_parse in O. destruct O as (kT & kp & HT & Hp & O).
  destruct (dec_list_decided _ _ _ _ _ Id) as (t1 & E1). subst d.
  destruct (finalf_allocatable sf uf blocks tf t1 p kp Hp A) as [Dp|[Ap _]]; auto.
  rewrite Dp in Id.
  assert (C : category p = 0%nat).
  { eapply (dec_list_masked tf (sort_pools pools) [] T kT); eauto.
    - apply sort_cat_sorted.
    - apply sort_names_NoDup; auto.
    - split; auto.
    - left. apply sort_In. exact IT.
    - rewrite cidr_overlap_sym. exact O. }
  apply category_0 in C. tauto.
Qed.

(* (4), first half, after every pass whatever fails *)
Lemma no_delete_with_blocks_f : forall tf sf uf pools blocks p,
  NoDup (map p_name pools) -> In p pools ->
  p_deleting p = true -> p_fin p = true -> has_block p blocks = true ->
  after (post_f tf sf uf pools blocks) p_fin p = true /\ after (post_f tf sf uf pools blocks) still_there p = true.
Proof.
  intros tf sf uf pools blocks p ND Ip D Fi HB.
  destruct (outcome_In tf pools p Ip) as (d & Id).
  rewrite !(after_outcome_f tf sf uf pools blocks p d _ ND Id).
  assert (exists k, pcidr p = Some k) as (k & Hk).
  { unfold has_block in HB. destruct (pcidr p); eauto; discriminate. }
  assert (W : p_fin (final blocks (p, d)) = true).
  { eapply final_fin_held; eauto. eapply covers_blocks_in; eauto. }
  assert (F : p_fin (finalf sf uf blocks (p, d)) = true).
  { unfold finalf, final_f. cbn [fst snd ff_pool p_fin]. unfold final in W. cbn [fst snd] in W. rewrite W, Fi.
    destruct (negb (Bool.eqb true true) && mem_name (p_name p) uf); reflexivity. }
  split; auto. unfold still_there, gone. rewrite F. rewrite andb_false_r. reflexivity.
Qed.

(* a protected terminating pool never loses the finalizer through a failure either way *)
Lemma held_fin_f : forall sf uf blocks p d, p_deleting p = true -> p_fin p = true ->
  p_fin (final blocks (p, d)) = true -> p_fin (finalf sf uf blocks (p, d)) = true.
Proof.
  intros sf uf blocks p d D Fi W. unfold finalf, final_f. cbn [fst snd ff_pool p_fin].
  unfold final in W. cbn [fst snd] in W. rewrite W, Fi.
  destruct (negb (Bool.eqb true true) && mem_name (p_name p) uf); reflexivity.
Qed.

(* (4), second half, for the pools none of whose writes failed *)
Lemma allocatable_has_finalizer_f : forall tf sf uf pools blocks p,
  NoDup (map p_name pools) -> In p pools ->
  mem_name (p_name p) sf = false -> mem_name (p_name p) uf = false ->
  after (post_f tf sf uf pools blocks) (fun q => allocatable q && negb (p_deleting q)) p = true ->
  after (post_f tf sf uf pools blocks) p_fin p = true.
Proof.
  intros tf sf uf pools blocks p ND Ip S U H.
  destruct (outcome_In tf pools p Ip) as (d & Id).
  rewrite (after_outcome_f tf sf uf pools blocks p d _ ND Id) in H.
  rewrite (after_outcome_f tf sf uf pools blocks p d p_fin ND Id).
  apply andb_true_iff in H. destruct H as [A D]. apply negb_true_iff in D. rewrite finalf_deleting in D. simpl in D.
  assert (Ec : p_cond (finalf sf uf blocks (p, d)) = p_cond (final blocks (p, d))).
  { rewrite finalf_cond, final_cond. unfold sfailed. rewrite S, andb_false_r. reflexivity. }
  assert (Ef : p_fin (finalf sf uf blocks (p, d)) = p_fin (final blocks (p, d))).
  { unfold finalf, final_f, final. cbn [fst snd ff_pool p_fin]. rewrite U, andb_false_r. reflexivity. }
  rewrite Ef. rewrite (final_fin_in_service blocks (p, d) D).
  rewrite allocatable_not_false; auto. rewrite <- (allocatable_cond _ _ Ec). exact A.
Qed.

(* ---- the oracle accepts every pass of the model, for every choice of failing writes *)
Lemma post_f_length : forall tf sf uf pools blocks, length (post_f tf sf uf pools blocks) = length pools.
Proof.
  intros. rewrite post_f_outcome, map_length.
  unfold outcome. rewrite <- (map_length fst), dec_list_fst.
  symmetry. apply Permutation_length. apply sort_perm.
Qed.

Lemma model_meets_spec_f : forall tf sf uf pools blocks, NoDup (map p_name pools) ->
  (tf = true \/ forall p, In p pools -> p_deleting p = true -> p_disabled p = false) ->
  ok_round_f sf uf pools blocks (ro_pools (reconcile_f tf sf uf pools blocks)) = true.
Proof.
  intros tf sf uf pools blocks ND M. fold (post_f tf sf uf pools blocks).
  assert (H1 : ok_same_pools pools (post_f tf sf uf pools blocks) = true);
  [|assert (H2 : ok_no_overlap_f sf (post_f tf sf uf pools blocks) = true);
    [|assert (H3 : ok_incumbent pools (post_f tf sf uf pools blocks) = true);
      [|assert (H4 : ok_term_masks pools (post_f tf sf uf pools blocks) = true);
        [|assert (H5 : ok_finalizers_f sf uf pools blocks (post_f tf sf uf pools blocks) = true);
          [|unfold ok_round_f; rewrite H1, H2, H3, H4, H5; reflexivity]]]]].
  - unfold ok_same_pools. rewrite post_f_length, Nat.eqb_refl. simpl.
    apply forallb_forall. intros p Ip. destruct (outcome_In tf pools p Ip) as (d & Id).
    rewrite (after_outcome_f tf sf uf pools blocks p d _ ND Id). reflexivity.
  - unfold ok_no_overlap_f. apply forallb_forall. intros p Ip. apply forallb_forall. intros q Iq.
    destruct (same_name p q) eqn:N; simpl; auto.
    destruct (allocatable p) eqn:Ap; simpl; auto. destruct (allocatable q) eqn:Aq; simpl; auto.
    destruct (mem_name (p_name p) sf) eqn:Sp; simpl; auto. destruct (mem_name (p_name q) sf) eqn:Sq; simpl; auto.
    apply same_name_false in N. rewrite (no_two_allocatable_overlap_f tf sf uf pools blocks p q); auto.
  - unfold ok_incumbent. apply forallb_forall. intros p Ip.
    destruct (incumbent p) eqn:Inc; simpl; auto.
    destruct (incumbent_only_loses_to_incumbent_f tf sf uf pools blocks p ND Ip Inc) as [A|(q & Iq & Nq & Incq & Oq & Aq)].
    + rewrite A. reflexivity.
    + apply orb_true_iff. right. apply existsb_exists. exists q. split; auto.
      rewrite Incq, Oq, Aq. assert (same_name p q = false) as ->; auto.
      apply same_name_false. congruence.
  - unfold ok_term_masks. apply forallb_forall. intros T IT.
    destruct (p_deleting T) eqn:D; simpl; auto.
    destruct (after (post_f tf sf uf pools blocks) still_there T); simpl; auto.
    apply forallb_forall. intros p Ip.
    destruct (same_name T p) eqn:N; simpl; auto.
    destruct (pools_overlap T p) eqn:O; simpl; auto.
    destruct (after (post_f tf sf uf pools blocks) allocatable p) eqn:A; simpl; auto.
    apply same_name_false in N.
    apply (terminating_masks_f tf sf uf pools blocks T p ND IT Ip); auto.
    destruct M as [M|M]; auto.
  - unfold ok_finalizers_f. apply forallb_forall. intros p Ip. apply andb_true_iff. split.
    + destruct (p_deleting p) eqn:D; simpl; auto. destruct (p_fin p) eqn:Fi; simpl; auto.
      destruct (has_block p blocks) eqn:HB; simpl; auto.
      apply (no_delete_with_blocks_f tf sf uf pools blocks p ND Ip D Fi HB).
    + destruct (after (post_f tf sf uf pools blocks) (fun q => allocatable q && negb (p_deleting q)) p) eqn:A; simpl; auto.
      destruct (mem_name (p_name p) sf) eqn:S; simpl; auto. destruct (mem_name (p_name p) uf) eqn:U; simpl; auto.
      apply allocatable_has_finalizer_f; auto.
Qed.

(* ---- histories in which any pass may have any failing writes *)
Definition readable (p : pool) : Prop := pcidr p <> None.
Definition opf_wf (o : op) : Prop := match o with OpCreate p => readable p | _ => True end.
Definition hopf_wf (h : hopf) : Prop := match h with FApi o => opf_wf o | FReconcile _ _ => True end.

(* distinct names and readable CIDRs survive everything *)
Definition Base (s : state) : Prop :=
  NoDup (map p_name (st_pools s)) /\ forall a, In a (st_pools s) -> readable a.

Lemma Base_update : forall s n f,
  (forall p, p_name (f p) = p_name p /\ p_cidr (f p) = p_cidr p) -> Base s ->
  Base (mkState (update_pool n f (st_pools s)) (st_blocks s)).
Proof.
  intros s n f Hf [N R]. split; simpl.
  - rewrite update_pool_names; auto. intros p. apply Hf.
  - intros a Ha. apply update_pool_In in Ha. destruct Ha as [Ha|(p & Ip & E)]; auto.
    subst a. unfold readable, pcidr. rewrite (proj2 (Hf p)). apply (R p Ip).
Qed.

Lemma Base_gc : forall ps b, Base (mkState ps b) -> Base (mkState (gc ps) b).
Proof.
  intros ps b [N R]. simpl in *. split; simpl.
  - apply NoDup_map_filter. exact N.
  - intros a Ha. apply gc_In in Ha. apply R. tauto.
Qed.

Lemma Base_api_step : forall s o, Base s -> opf_wf o -> Base (api_step s o).
Proof.
  intros s o B W. destruct o as [p|n b|n|n|b|b]; simpl.
  - destruct (existsb (fun q => name_eqb (p_name q) (p_name p)) (st_pools s)) eqn:E; auto.
    destruct B as [N R]. split; simpl.
    + rewrite map_app. simpl. apply NoDup_app_singleton; auto.
      intros H. apply in_map_iff in H. destruct H as (q & Eq & Iq).
      assert (existsb (fun q => name_eqb (p_name q) (p_name p)) (st_pools s) = true); [|congruence].
      apply existsb_exists. exists q. split; auto. apply name_eqb_eq. exact Eq.
    + intros a Ha. apply in_app_iff in Ha. simpl in Ha. destruct Ha as [Ha|[Ha|[]]]; auto. subst. exact W.
  - apply Base_update; auto.
  - apply Base_gc. apply (Base_update s n (fun p => set_deleting p true)); auto.
  - apply Base_gc. apply (Base_update s n (fun p => set_ofin p false)); auto.
  - destruct s. exact B.
  - destruct s. exact B.
Qed.

Lemma Base_reconcile_step_f : forall tf sf uf s, Base s -> Base (reconcile_step_f tf sf uf s).
Proof.
  intros tf sf uf s [N R]. unfold reconcile_step_f. apply Base_gc.
  fold (post_f tf sf uf (st_pools s) (st_blocks s)). split; simpl.
  - apply post_f_names_NoDup. exact N.
  - intros a Ha. apply post_f_In in Ha. destruct Ha as ([p d] & Ix & E). subst a.
    unfold readable. rewrite finalf_pcidr. simpl. apply R. eapply outcome_In_inv; eauto.
Qed.

Lemma Base_history_f : forall tf hs s, Base s -> Forall hopf_wf hs -> Base (run_history_f tf s hs).
Proof.
  intros tf hs. induction hs as [|h hs IH]; intros s B W; simpl; auto.
  inversion W; subst. apply IH; auto. destruct h as [o|sf uf]; simpl.
  - apply Base_api_step; auto.
  - apply Base_reconcile_step_f; auto.
Qed.

(* one clean pass after ANY history with failed writes re-establishes the full invariant:
   distinct names, allocatable pools pairwise disjoint, allocatable pools carry the finalizer *)
Lemma Inv_reconcile_step_readable : forall tf s, Base s -> Inv (reconcile_step tf s).
Proof.
  intros tf s [N R]. unfold reconcile_step. apply Inv_gc. fold (post_of tf (st_pools s) (st_blocks s)).
  constructor; simpl.
  - apply post_names_NoDup. exact N.
  - intros a b Ha Hb Nn Aa Ab. eapply no_two_allocatable_overlap; eauto.
  - intros a' Ha Aa. apply post_In in Ha. destruct Ha as ([p d] & Ix & E). subst a'.
    destruct (p_deleting p) eqn:D.
    + destruct (dec_list_decided _ _ _ _ _ Ix) as (t1 & E1). subst d.
      destruct (pcidr p) as [k|] eqn:Hk.
      * exfalso. apply (decide_deleting_not_active tf t1 p k Hk D). eapply final_allocatable; eauto.
      * exfalso. apply (R p); auto. eapply outcome_In_inv; eauto.
    + rewrite (final_fin_in_service (st_blocks s) (p, d) D). rewrite allocatable_not_false; auto.
Qed.

Lemma history_f_then_clean_pass : forall tf hs blocks0,
  Forall hopf_wf hs -> Inv (reconcile_step tf (run_history_f tf (mkState [] blocks0) hs)).
Proof.
  intros tf hs blocks0 W. apply Inv_reconcile_step_readable. apply Base_history_f; auto.
  split; simpl; [constructor|intros a []].
Qed.

(* (3) at every point of every history with failures, for the next pass whatever fails in it *)
Lemma history_f_terminating_masks : forall tf hs blocks0 sf uf T p p',
  Forall hopf_wf hs ->
  let s := run_history_f tf (mkState [] blocks0) hs in
  In T (st_pools s) -> In p (st_pools s) -> p_name p <> p_name T ->
  p_deleting T = true -> (tf = true \/ p_disabled T = false) -> pools_overlap T p = true ->
  allocatable p = false ->
  In p' (st_pools (reconcile_step_f tf sf uf s)) -> p_name p' = p_name p -> allocatable p' = false.
Proof.
  intros tf hs blocks0 sf uf T p p' W s IT Ip Nn Del M O NA Ip' En.
  assert (B : Base s) by (apply Base_history_f; auto; split; simpl; [constructor|intros a []]).
  destruct B as [N _].
  unfold reconcile_step_f in Ip'. cbn [st_pools] in Ip'. apply gc_In in Ip'. destruct Ip' as [Ip' _].
  fold (post_f tf sf uf (st_pools s) (st_blocks s)) in Ip'.
  destruct (allocatable p') eqn:A; auto. exfalso.
  rewrite (terminating_masks_f tf sf uf (st_pools s) (st_blocks s) T p N IT Ip Nn Del M O) in NA; [discriminate|].
  rewrite (after_In _ allocatable p p'); auto. apply post_f_names_NoDup. exact N.
Qed.

(* (4) along histories with failures: a pool carrying the finalizer whose deletion is requested
   stays, through every further operation and every pass with any failing writes, as long as a
   block lies inside its CIDR at every pass *)
Fixpoint blocks_held_f (tf : bool) (p : pool) (s : state) (hs : list hopf) : Prop :=
  match hs with
  | [] => True
  | h :: hs' => (match h with FReconcile _ _ => has_block p (st_blocks s) = true | _ => True end)
                /\ blocks_held_f tf p (hstepf tf s h) hs'
  end.

Lemma held_hstepf : forall tf s h n c,
  NoDup (map p_name (st_pools s)) -> (exists q, In q (st_pools s) /\ held_pool n c q) ->
  (match h with FReconcile _ _ => forall q, p_cidr q = c -> has_block q (st_blocks s) = true | _ => True end) ->
  exists q, In q (st_pools (hstepf tf s h)) /\ held_pool n c q.
Proof.
  intros tf s h n c N (q & Iq & Hq) HB. destruct h as [o|sf uf]; [simpl|unfold hstepf, reconcile_step_f; cbn [st_pools]].
  - destruct o as [p|m b|m|m|b|b]; simpl; eauto.
    + destruct (existsb _ (st_pools s)); simpl; eauto. exists q. split; auto. apply in_app_iff. auto.
    + apply (update_pool_keeps m (fun p => set_disabled p b) (st_pools s) (held_pool n c)) with (x := q); auto.
    + destruct (update_pool_keeps m (fun p => set_deleting p true) (st_pools s) (held_pool n c)) with (x := q) as (x' & I' & H'); auto.
      { intros y. destruct y; unfold held_pool; simpl; tauto. }
      exists x'. split; auto. apply gc_In. split; auto. eapply held_not_gone; eauto.
    + destruct (update_pool_keeps m (fun p => set_ofin p false) (st_pools s) (held_pool n c)) with (x := q) as (x' & I' & H'); auto.
      exists x'. split; auto. apply gc_In. split; auto. eapply held_not_gone; eauto.
  - destruct Hq as (Hn & Hc & Hd & Hf).
    destruct (outcome_In tf (st_pools s) q Iq) as (d & Id).
    specialize (HB q Hc).
    destruct (no_delete_with_blocks_f tf sf uf (st_pools s) (st_blocks s) q N Iq Hd Hf HB) as [Fi _].
    rewrite (after_outcome_f tf sf uf _ _ q d p_fin N Id) in Fi.
    exists (finalf sf uf (st_blocks s) (q, d)). split.
    + apply gc_In. split.
      { fold (post_f tf sf uf (st_pools s) (st_blocks s)). rewrite post_f_outcome. apply in_map. exact Id. }
      unfold gone. rewrite Fi. rewrite andb_false_r. reflexivity.
    + unfold held_pool. rewrite finalf_name, finalf_deleting, finalf_cidr. simpl. auto.
Qed.

Lemma history_f_no_delete_with_blocks : forall tf s p hs,
  Base s -> In p (st_pools s) -> p_fin p = true ->
  Forall hopf_wf hs ->
  let s1 := api_step s (OpDelete (p_name p)) in
  blocks_held_f tf p s1 hs ->
  exists q, In q (st_pools (run_history_f tf s1 hs))
            /\ p_name q = p_name p /\ p_cidr q = p_cidr p /\ p_deleting q = true /\ p_fin q = true.
Proof.
  intros tf s p hs B Ip Fi W s1 HB.
  assert (B1 : Base s1) by (apply Base_api_step; simpl; auto).
  assert (H1 : exists q, In q (st_pools s1) /\ held_pool (p_name p) (p_cidr p) q).
  { exists (set_deleting p true). split.
    - unfold s1. simpl. apply gc_In. split.
      + apply (update_pool_hit (p_name p) (fun p => set_deleting p true) (st_pools s) p); auto. apply (proj1 B).
      + unfold gone. simpl. rewrite Fi. reflexivity.
    - unfold held_pool. simpl. auto. }
  clearbody s1. clear B Ip. revert s1 B1 H1 HB.
  induction hs as [|h hs IH]; intros s1 B1 H1 HB; simpl; auto.
  inversion W; subst. destruct HB as [HB1 HB2]. apply IH; auto.
  - destruct h as [o|sf uf]; simpl; [apply Base_api_step|apply Base_reconcile_step_f]; auto.
  - apply held_hstepf; auto. { apply (proj1 B1). }
    destruct h; auto. intros q Eq. rewrite (has_block_cidr p q); auto.
Qed.
