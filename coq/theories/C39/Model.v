(* C39 — executable model of kube-controllers/pkg/controllers/ippool/pool_controller.go
   (reconcile = reconcileConditions + reconcileFinalizer over ALL pools) and of the part of
   the API server the controller relies on (delete requests honour finalizers).

   Definitions only.  The overlap trie of the controller (felix/ip CIDRTrie, one per address
   family) is modelled by the list of prefixes stored so far: by theorem c36_overlap of
   Verif.C36 the controller's test  Get || Intersects || Covers  on a well-formed trie equals
   "some stored prefix overlaps the query" computed directly over the stored prefixes
   (TrieLink.v ties the two formally).

   [tf] ("terminating first") selects between the two orders of the Spec.Disabled /
   DeletionTimestamp tests in reconcileConditions: false = the pinned tree (Disabled is tested
   first), true = the tree with fixes/C39-terminating-before-disabled.patch applied.  The
   driver probes which one the tree under test implements. *)
From Coq Require Import List NArith Arith Bool.
From Verif.Common Require Import Prefix.
Import ListNotations.

(* ---- the Allocatable condition of a pool (type-keyed; message and transition time are not observed) *)
Inductive status := STrue | SFalse | SUnknown.
Inductive reason := ROK | RDisabled | RTerminating | ROverlap | ROther.
Definition cond := option (status * reason).

Definition status_eqb (a b : status) : bool :=
  match a, b with STrue, STrue | SFalse, SFalse | SUnknown, SUnknown => true | _, _ => false end.
Definition reason_eqb (a b : reason) : bool :=
  match a, b with
  | ROK, ROK | RDisabled, RDisabled | RTerminating, RTerminating | ROverlap, ROverlap | ROther, ROther => true
  | _, _ => false
  end.

(* a CIDR as written in the resource: (is IPv6, address bits as written, prefix length);
   None = the text does not parse (net.ParseCIDR fails) *)
Definition rawcidr := option (bool * N * nat).

Record pool := mkPool {
  p_name : list N;          (* metadata.name, bytes *)
  p_created : N;            (* metadata.creationTimestamp, seconds *)
  p_cidr : rawcidr;         (* spec.cidr *)
  p_disabled : bool;        (* spec.disabled *)
  p_deleting : bool;        (* metadata.deletionTimestamp != nil *)
  p_cond : cond;            (* status.conditions[type=Allocatable] *)
  p_fin : bool;             (* finalizers contains projectcalico.org/ippool-finalizer *)
  p_ofin : bool             (* finalizers contains something else *)
}.

Definition set_cond (p : pool) (c : cond) : pool :=
  mkPool (p_name p) (p_created p) (p_cidr p) (p_disabled p) (p_deleting p) c (p_fin p) (p_ofin p).
Definition set_fin (p : pool) (b : bool) : pool :=
  mkPool (p_name p) (p_created p) (p_cidr p) (p_disabled p) (p_deleting p) (p_cond p) b (p_ofin p).
Definition set_ofin (p : pool) (b : bool) : pool :=
  mkPool (p_name p) (p_created p) (p_cidr p) (p_disabled p) (p_deleting p) (p_cond p) (p_fin p) b.
Definition set_disabled (p : pool) (b : bool) : pool :=
  mkPool (p_name p) (p_created p) (p_cidr p) b (p_deleting p) (p_cond p) (p_fin p) (p_ofin p).
Definition set_deleting (p : pool) (b : bool) : pool :=
  mkPool (p_name p) (p_created p) (p_cidr p) (p_disabled p) b (p_cond p) (p_fin p) (p_ofin p).

(* ---- CIDRs *)
Definition width (v6 : bool) : nat := if v6 then 128 else 32.
Definition kcidr := (bool * prefix)%type.     (* family + normalised prefix *)
(* net.ParseCIDR returns the masked network *)
Definition norm (c : bool * N * nat) : kcidr :=
  let '(v6, a, l) := c in (v6, mkP (mask (width v6) l a) l).
Definition pcidr (p : pool) : option kcidr := option_map norm (p_cidr p).

Definition cidr_overlap (a b : kcidr) : bool :=
  Bool.eqb (fst a) (fst b) && overlaps (width (fst a)) (snd a) (snd b).

(* ---- poolSortFunc *)
Definition has_status (p : pool) (s : status) : bool :=
  match p_cond p with Some (s', _) => status_eqb s s' | None => false end.

Definition category (p : pool) : nat :=
  if has_status p STrue && negb (p_deleting p) then 0
  else if p_deleting p then 1
  else if has_status p SFalse then 2
  else 3.

(* strings.Compare *)
Fixpoint lex_compare (a b : list N) : comparison :=
  match a, b with
  | [], [] => Eq
  | [], _ :: _ => Lt
  | _ :: _, [] => Gt
  | x :: a', y :: b' => match N.compare x y with Eq => lex_compare a' b' | c => c end
  end.

Definition pool_compare (a b : pool) : comparison :=
  match Nat.compare (category a) (category b) with
  | Eq => match N.compare (p_created a) (p_created b) with
          | Eq => lex_compare (p_name a) (p_name b)
          | c => c
          end
  | c => c
  end.
Definition pool_leb (a b : pool) : bool :=
  match pool_compare a b with Gt => false | _ => true end.

(* slices.SortFunc with a total order on distinct names has one possible result; insertion sort computes it *)
Fixpoint insert_pool (p : pool) (l : list pool) : list pool :=
  match l with
  | [] => [p]
  | q :: l' => if pool_leb p q then p :: l else q :: insert_pool p l'
  end.
Definition sort_pools (l : list pool) : list pool := fold_right insert_pool [] l.

(* ---- reconcileConditions: the trie pass *)
Inductive decision := DSkip | DDisabled | DTerminating | DOverlap | DActive.
Definition trie := list kcidr.
Definition trie_overlaps (t : trie) (k : kcidr) : bool := existsb (cidr_overlap k) t.

Definition decide (tf : bool) (t : trie) (p : pool) : decision * trie :=
  match pcidr p with
  | None => (DSkip, t)                                   (* CIDRFromString failed: continue *)
  | Some k =>
      if (if tf then p_deleting p else false) then (DTerminating, k :: t)
      else if p_disabled p then (DDisabled, t)
      else if p_deleting p then (DTerminating, k :: t)  (* t.Update(cidr, pool) *)
      else if trie_overlaps t k then (DOverlap, t)
      else (DActive, k :: t)
  end.

Definition apply_decision (p : pool) (d : decision) : pool :=
  match d with
  | DSkip => p
  | DDisabled => set_cond p (Some (SFalse, RDisabled))
  | DTerminating => set_cond p (Some (SFalse, RTerminating))
  | DOverlap => set_cond p (Some (SFalse, ROverlap))
  | DActive => set_cond p (Some (STrue, ROK))
  end.

Fixpoint pass (tf : bool) (t : trie) (ps : list pool) : list pool :=
  match ps with
  | [] => []
  | p :: ps' => let '(d, t') := decide tf t p in apply_decision p d :: pass tf t' ps'
  end.

Definition reconcile_conditions (tf : bool) (pools : list pool) : list pool :=
  pass tf [] (sort_pools pools).

(* ---- reconcileFinalizer *)
Definition kcontains (k : kcidr) (b : kcidr) : bool :=
  Bool.eqb (fst k) (fst b) && contains (width (fst k)) (snd k) (paddr (snd b)).
(* blocksInPool: some parseable block whose (masked) address lies in the pool's CIDR *)
Definition blocks_in (k : kcidr) (blocks : list rawcidr) : bool :=
  existsb (fun b => match b with Some c => kcontains k (norm c) | None => false end) blocks.

Record fin_out := mkFinOut { fo_pool : pool; fo_released : option kcidr; fo_err : bool }.

Definition fin_step (blocks : list rawcidr) (p : pool) : fin_out :=
  if negb (p_deleting p) then
    if has_status p SFalse then mkFinOut (set_fin p false) None false
    else mkFinOut (set_fin p true) None false
  else if negb (p_fin p) then mkFinOut p None false
  else match pcidr p with
       | None => mkFinOut p None true                        (* cnet.ParseCIDR error *)
       | Some k => if blocks_in k blocks then mkFinOut p (Some k) false   (* ReleasePoolAffinities(k) first *)
                   else mkFinOut (set_fin p false) (Some k) false
       end.

Record rec_out := mkRecOut {
  ro_pools : list pool;          (* every pool as left in the datastore, in processing order *)
  ro_released : list kcidr;      (* ReleasePoolAffinities calls, in order *)
  ro_err : bool                  (* reconcile returned an error *)
}.

Definition reconcile (tf : bool) (pools : list pool) (blocks : list rawcidr) : rec_out :=
  let outs := map (fin_step blocks) (reconcile_conditions tf pools) in
  mkRecOut (map fo_pool outs)
           (flat_map (fun o => match fo_released o with Some k => [k] | None => [] end) outs)
           (existsb fo_err outs).

(* ---- the API server: objects with a deletion timestamp and no finalizers are gone *)
Definition gone (p : pool) : bool := p_deleting p && negb (p_fin p) && negb (p_ofin p).
Definition gc (pools : list pool) : list pool := filter (fun p => negb (gone p)) pools.

Definition name_eqb (a b : list N) : bool :=
  match lex_compare a b with Eq => true | _ => false end.

Fixpoint update_pool (n : list N) (f : pool -> pool) (ps : list pool) : list pool :=
  match ps with
  | [] => []
  | p :: ps' => if name_eqb (p_name p) n then f p :: ps' else p :: update_pool n f ps'
  end.

Definition rawcidr_eqb (a b : rawcidr) : bool :=
  match a, b with
  | None, None => true
  | Some (v, x, l), Some (v', x', l') => Bool.eqb v v' && N.eqb x x' && Nat.eqb l l'
  | _, _ => false
  end.

Record state := mkState { st_pools : list pool; st_blocks : list rawcidr }.

Inductive op :=
| OpCreate (p : pool)                 (* a user creates a pool (fresh name) *)
| OpSetDisabled (n : list N) (b : bool)
| OpDelete (n : list N)               (* delete request: removed at once without finalizers, else marked *)
| OpDropOther (n : list N)            (* another controller removes its finalizer *)
| OpBlockAdd (b : rawcidr)
| OpBlockDel (b : rawcidr).

Definition api_step (s : state) (o : op) : state :=
  match o with
  | OpCreate p =>
      if existsb (fun q => name_eqb (p_name q) (p_name p)) (st_pools s) then s
      else mkState (st_pools s ++ [p]) (st_blocks s)
  | OpSetDisabled n b => mkState (update_pool n (fun p => set_disabled p b) (st_pools s)) (st_blocks s)
  | OpDelete n => mkState (gc (update_pool n (fun p => set_deleting p true) (st_pools s))) (st_blocks s)
  | OpDropOther n => mkState (gc (update_pool n (fun p => set_ofin p false) (st_pools s))) (st_blocks s)
  | OpBlockAdd b => mkState (st_pools s) (b :: st_blocks s)
  | OpBlockDel b => mkState (st_pools s) (filter (fun x => negb (rawcidr_eqb x b)) (st_blocks s))
  end.

(* one reconcile on a synced cache, followed by the API server collecting finalizer-free terminating pools *)
Definition reconcile_step (tf : bool) (s : state) : state :=
  mkState (gc (ro_pools (reconcile tf (st_pools s) (st_blocks s)))) (st_blocks s).

Inductive hop := HApi (o : op) | HReconcile.
Definition hstep (tf : bool) (s : state) (h : hop) : state :=
  match h with HApi o => api_step s o | HReconcile => reconcile_step tf s end.
Definition run_history (tf : bool) (s : state) (hs : list hop) : state := fold_left (hstep tf) hs s.

(* ---- equality of observations *)
Definition cond_eqb (a b : cond) : bool :=
  match a, b with
  | None, None => true
  | Some (s, r), Some (s', r') => status_eqb s s' && reason_eqb r r'
  | _, _ => false
  end.
Definition pool_eqb (a b : pool) : bool :=
  name_eqb (p_name a) (p_name b) && N.eqb (p_created a) (p_created b) && rawcidr_eqb (p_cidr a) (p_cidr b)
  && Bool.eqb (p_disabled a) (p_disabled b) && Bool.eqb (p_deleting a) (p_deleting b)
  && cond_eqb (p_cond a) (p_cond b) && Bool.eqb (p_fin a) (p_fin b) && Bool.eqb (p_ofin a) (p_ofin b).
(* same pools up to order *)
Definition pools_eqb (a b : list pool) : bool :=
  Nat.eqb (length a) (length b) && forallb (fun p => existsb (pool_eqb p) b) a
  && forallb (fun p => existsb (pool_eqb p) a) b.
Definition kcidr_eqb (a b : kcidr) : bool := Bool.eqb (fst a) (fst b) && prefix_eqb (snd a) (snd b).
(* same set of released CIDRs *)
Definition released_eqb (a b : list kcidr) : bool :=
  forallb (fun n => existsb (kcidr_eqb n) b) a && forallb (fun n => existsb (kcidr_eqb n) a) b.
Definition blocks_eqb (a b : list rawcidr) : bool :=
  Nat.eqb (length a) (length b) && forallb (fun x => existsb (rawcidr_eqb x) b) a
  && forallb (fun x => existsb (rawcidr_eqb x) a) b.

(* ---- reconcile with failing API writes.
   [sf] : names of pools whose UpdateStatus call fails in this pass, [uf] : names whose Update
   (finalizer write) fails.  What pool_controller.go does on these paths:
   - updateCondition mutates the controller's local copy BEFORE the write; on failure the local
     copy keeps the new condition, the datastore keeps the old one, the error is collected and
     the pass goes on exactly as without the failure (in particular a terminating pool is still
     put into the overlap trie; decisions never depend on write results);
   - no write is attempted when the condition is already as wanted;
   - reconcile() still runs reconcileFinalizer for every pool, on the LOCAL copies;
   - updateFinalizers sends Update(local copy with the new finalizers); status is a subresource,
     so the stored status is not touched by it; on failure nothing changes and the error is
     collected;
   - reconcile returns the aggregate of all errors (the work item is then requeued). *)
Definition mem_name (n : list N) (l : list (list N)) : bool := existsb (name_eqb n) l.

Definition status_written (p : pool) (d : decision) : bool :=
  negb (cond_eqb (p_cond p) (p_cond (apply_decision p d))).

Record fout := mkFout { ff_pool : pool; ff_released : option kcidr; ff_err : bool }.

Definition final_f (sf uf : list (list N)) (blocks : list rawcidr) (p : pool) (d : decision) : fout :=
  let loc := apply_decision p d in                       (* the controller's local copy *)
  let sfailed := status_written p d && mem_name (p_name p) sf in
  let fo := fin_step blocks loc in                       (* reconcileFinalizer acts on the local copy *)
  let want := p_fin (fo_pool fo) in
  let ufailed := negb (Bool.eqb want (p_fin p)) && mem_name (p_name p) uf in
  mkFout (mkPool (p_name p) (p_created p) (p_cidr p) (p_disabled p) (p_deleting p)
                 (if sfailed then p_cond p else p_cond loc)
                 (if ufailed then p_fin p else want) (p_ofin p))
         (fo_released fo) (sfailed || ufailed || fo_err fo).

Fixpoint pass_f (tf : bool) (sf uf : list (list N)) (blocks : list rawcidr) (t : trie) (ps : list pool) : list fout :=
  match ps with
  | [] => []
  | p :: ps' => let '(d, t') := decide tf t p in final_f sf uf blocks p d :: pass_f tf sf uf blocks t' ps'
  end.

Definition reconcile_f (tf : bool) (sf uf : list (list N)) (pools : list pool) (blocks : list rawcidr) : rec_out :=
  let outs := pass_f tf sf uf blocks [] (sort_pools pools) in
  mkRecOut (map ff_pool outs)
           (flat_map (fun o => match ff_released o with Some k => [k] | None => [] end) outs)
           (existsb ff_err outs).

Definition reconcile_step_f (tf : bool) (sf uf : list (list N)) (s : state) : state :=
  mkState (gc (ro_pools (reconcile_f tf sf uf (st_pools s) (st_blocks s)))) (st_blocks s).

Inductive hopf := FApi (o : op) | FReconcile (sf uf : list (list N)).
Definition hstepf (tf : bool) (s : state) (h : hopf) : state :=
  match h with FApi o => api_step s o | FReconcile sf uf => reconcile_step_f tf sf uf s end.
Definition run_history_f (tf : bool) (s : state) (hs : list hopf) : state := fold_left (hstepf tf) hs s.
