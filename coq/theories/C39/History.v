(* C39 — histories: any interleaving of API operations (create / disable / enable / delete
   request / foreign finalizer removed / block appears / block gone) and reconciles.
   [Inv] holds in every reachable state, which turns the per-reconcile statements into
   statements about every history. *)
From Coq Require Import List NArith Arith Bool Lia Sorting.Permutation Sorting.Sorted.
From Verif.Common Require Import Prefix.
From Verif.C39 Require Import Model Spec Order Proofs Reconcile.
Import ListNotations.

(* a pool as a user creates it: no status yet, not being deleted *)
Definition fresh (p : pool) : Prop := p_cond p = None /\ p_deleting p = false.
Definition op_wf (o : op) : Prop := match o with OpCreate p => fresh p | _ => True end.
Definition hop_wf (h : hop) : Prop := match h with HApi o => op_wf o | HReconcile => True end.

Record Inv (s : state) : Prop := mkInv {
  inv_names : NoDup (map p_name (st_pools s));
  inv_disjoint : forall a b, In a (st_pools s) -> In b (st_pools s) -> p_name a <> p_name b ->
                   allocatable a = true -> allocatable b = true -> pools_overlap a b = false;
  inv_fin : forall a, In a (st_pools s) -> allocatable a = true -> p_fin a = true
}.

Lemma Inv_empty : forall blocks, Inv (mkState [] blocks).
Proof. intros. constructor; simpl; try constructor; intros; contradiction. Qed.

(* ---- list helpers *)
Lemma NoDup_map_filter : forall (A B : Type) (f : A -> B) (g : A -> bool) l,
  NoDup (map f l) -> NoDup (map f (filter g l)).
Proof.
  intros A B f g l. induction l as [|x l IH]; simpl; intros H; auto.
  inversion H as [|? ? Hn H']; subst. destruct (g x); simpl; auto.
  constructor; auto. intros I. apply Hn. apply in_map_iff in I. destruct I as (y & E & I).
  apply filter_In in I. apply in_map_iff. exists y. tauto.
Qed.

Lemma NoDup_app_singleton : forall (A : Type) (l : list A) x, NoDup l -> ~ In x l -> NoDup (l ++ [x]).
Proof.
  intros A l x N H. eapply Permutation_NoDup; [apply Permutation_cons_append|]. constructor; auto.
Qed.

Lemma gc_In : forall ps p, In p (gc ps) <-> In p ps /\ gone p = false.
Proof. intros. unfold gc. rewrite filter_In, negb_true_iff. tauto. Qed.

Lemma update_pool_names : forall n f ps, (forall p, p_name (f p) = p_name p) ->
  map p_name (update_pool n f ps) = map p_name ps.
Proof.
  intros n f ps Hf. induction ps as [|p ps IH]; simpl; auto.
  destruct (name_eqb (p_name p) n); simpl; [rewrite Hf|rewrite IH]; reflexivity.
Qed.

Lemma update_pool_In : forall n f ps q, In q (update_pool n f ps) -> In q ps \/ exists p, In p ps /\ q = f p.
Proof.
  intros n f ps q. induction ps as [|p ps IH]; simpl; auto.
  destruct (name_eqb (p_name p) n); simpl; intros [H|H]; eauto.
  destruct (IH H) as [I|(p' & I & E)]; eauto.
Qed.

Lemma update_pool_keeps : forall n f ps (P : pool -> Prop), (forall y, P y -> P (f y)) ->
  forall x, In x ps -> P x -> exists x', In x' (update_pool n f ps) /\ P x'.
Proof.
  intros n f ps P Hf. induction ps as [|y ps IH]; simpl; intros x H Px. { contradiction. }
  destruct (name_eqb (p_name y) n); simpl.
  - destruct H as [H|H]; subst; eauto.
  - destruct H as [H|H]; subst; eauto. destruct (IH x H Px) as (x' & I & Px'). eauto.
Qed.

Lemma update_pool_hit : forall n f ps x, NoDup (map p_name ps) -> In x ps -> p_name x = n ->
  In (f x) (update_pool n f ps).
Proof.
  intros n f ps x. induction ps as [|y ps IH]; simpl; intros ND H E. { contradiction. }
  inversion ND as [|? ? Hn ND']; subst.
  destruct (name_eqb (p_name y) (p_name x)) eqn:Ey.
  - apply name_eqb_eq in Ey. destruct H as [H|H]; subst; simpl; auto.
    exfalso. apply Hn. rewrite Ey. apply in_map. exact H.
  - destruct H as [H|H]; subst. { rewrite name_eqb_refl in Ey. discriminate. }
    simpl. right. apply IH; auto.
Qed.

(* an update that leaves name, CIDR, condition and the controller's finalizer alone keeps Inv *)
Definition core_preserving (f : pool -> pool) : Prop :=
  forall p, p_name (f p) = p_name p /\ p_cidr (f p) = p_cidr p /\ p_cond (f p) = p_cond p /\ p_fin (f p) = p_fin p.

Lemma allocatable_core : forall p q, p_cond q = p_cond p -> allocatable q = allocatable p.
Proof. intros p q H. unfold allocatable, has_status. rewrite H. reflexivity. Qed.
Lemma pools_overlap_core : forall a a' b b', p_cidr a' = p_cidr a -> p_cidr b' = p_cidr b ->
  pools_overlap a' b' = pools_overlap a b.
Proof. intros. unfold pools_overlap, pcidr. rewrite H, H0. reflexivity. Qed.

Lemma Inv_update : forall s n f, core_preserving f -> Inv s ->
  Inv (mkState (update_pool n f (st_pools s)) (st_blocks s)).
Proof.
  intros s n f Hf [N D F].
  assert (Src : forall q, In q (update_pool n f (st_pools s)) ->
            exists p, In p (st_pools s) /\ p_name q = p_name p /\ p_cidr q = p_cidr p /\ p_cond q = p_cond p /\ p_fin q = p_fin p).
  { intros q H. apply update_pool_In in H. destruct H as [H|(p & I & E)].
    - exists q. auto.
    - exists p. subst q. destruct (Hf p) as (A & B & C & E). auto. }
  constructor; simpl.
  - rewrite update_pool_names; auto. intros p. apply Hf.
  - intros a b Ha Hb Nn Aa Ab.
    destruct (Src a Ha) as (a0 & Ia & E1 & E2 & E3 & E4). destruct (Src b Hb) as (b0 & Ib & G1 & G2 & G3 & G4).
    rewrite (pools_overlap_core a0 a b0 b E2 G2).
    apply D; auto; try congruence.
    + rewrite <- (allocatable_core a0 a E3). exact Aa.
    + rewrite <- (allocatable_core b0 b G3). exact Ab.
  - intros a Ha Aa. destruct (Src a Ha) as (a0 & Ia & E1 & E2 & E3 & E4).
    rewrite E4. apply F; auto. rewrite <- (allocatable_core a0 a E3). exact Aa.
Qed.

Lemma Inv_gc : forall ps blocks, Inv (mkState ps blocks) -> Inv (mkState (gc ps) blocks).
Proof.
  intros ps blocks [N D F]. simpl in *. constructor; simpl.
  - apply NoDup_map_filter. exact N.
  - intros a b Ha Hb. apply gc_In in Ha. apply gc_In in Hb. apply D; tauto.
  - intros a Ha. apply gc_In in Ha. apply F; tauto.
Qed.

Lemma Inv_blocks : forall ps b b', Inv (mkState ps b) -> Inv (mkState ps b').
Proof. intros ps b b' [N D F]. constructor; auto. Qed.

Lemma Inv_api_step : forall s o, Inv s -> op_wf o -> Inv (api_step s o).
Proof.
  intros s o I W. destruct o as [p|n b|n|n|b|b]; simpl.
  - destruct (existsb (fun q => name_eqb (p_name q) (p_name p)) (st_pools s)) eqn:E; auto.
    destruct I as [N D F]. destruct W as [Wc Wd].
    assert (Ap : allocatable p = false) by (unfold allocatable, has_status; rewrite Wc; reflexivity).
    constructor; simpl.
    + rewrite map_app. simpl. apply NoDup_app_singleton; auto.
      intros H. apply in_map_iff in H. destruct H as (q & Eq & Iq).
      assert (existsb (fun q => name_eqb (p_name q) (p_name p)) (st_pools s) = true); [|congruence].
      apply existsb_exists. exists q. split; auto. apply name_eqb_eq. exact Eq.
    + intros a b Ha Hb Nn Aa Ab. apply in_app_iff in Ha. apply in_app_iff in Hb. simpl in Ha, Hb.
      destruct Ha as [Ha|[Ha|[]]]; [|subst; congruence].
      destruct Hb as [Hb|[Hb|[]]]; [|subst; congruence]. apply D; auto.
    + intros a Ha Aa. apply in_app_iff in Ha. simpl in Ha. destruct Ha as [Ha|[Ha|[]]]; [|subst; congruence].
      apply F; auto.
  - apply Inv_update; auto. intros p. destruct p; simpl; auto.
  - apply Inv_gc. apply (Inv_update s n (fun p => set_deleting p true)); auto. intros p. destruct p; simpl; auto.
  - apply Inv_gc. apply (Inv_update s n (fun p => set_ofin p false)); auto. intros p. destruct p; simpl; auto.
  - destruct s. eapply Inv_blocks. exact I.
  - destruct s. eapply Inv_blocks. exact I.
Qed.

(* ---- one reconcile (re-)establishes Inv from distinct names alone *)
Lemma decide_deleting_not_active : forall tf t p k, pcidr p = Some k -> p_deleting p = true ->
  fst (decide tf t p) <> DActive.
Proof.
  intros tf t p k Hk D A. apply decide_active in A. destruct A as (_ & _ & _ & D' & _). congruence.
Qed.

Lemma post_names_NoDup : forall tf pools blocks, NoDup (map p_name pools) ->
  NoDup (map p_name (post_of tf pools blocks)).
Proof.
  intros. unfold post_of. rewrite reconcile_pools, final_names. apply outcome_names_NoDup. auto.
Qed.

Lemma Inv_reconcile_step : forall tf s,
  NoDup (map p_name (st_pools s)) ->
  (forall a, In a (st_pools s) -> allocatable a = true -> p_fin a = true) ->
  Inv (reconcile_step tf s).
Proof.
  intros tf s N F. unfold reconcile_step. apply Inv_gc. fold (post_of tf (st_pools s) (st_blocks s)).
  constructor; simpl.
  - apply post_names_NoDup. exact N.
  - intros a b Ha Hb Nn Aa Ab. eapply no_two_allocatable_overlap; eauto.
  - intros a' Ha Aa. apply post_In in Ha. destruct Ha as ([p d] & Ix & E). subst a'.
    destruct (p_deleting p) eqn:D.
    + (* a terminating pool is allocatable after the reconcile only if its CIDR is unreadable and it was before *)
      destruct (dec_list_decided _ _ _ _ _ Ix) as (t1 & E1). subst d.
      destruct (pcidr p) as [k|] eqn:Hk.
      * exfalso. apply (decide_deleting_not_active tf t1 p k Hk D). eapply final_allocatable; eauto.
      * rewrite (final_allocatable_unreadable (st_blocks s) tf t1 p Hk) in Aa.
        apply final_fin_unreadable; auto. apply F; auto. eapply outcome_In_inv; eauto.
    + rewrite (final_fin_in_service (st_blocks s) (p, d) D). rewrite allocatable_not_false; auto.
Qed.

Lemma Inv_hstep : forall tf s h, Inv s -> hop_wf h -> Inv (hstep tf s h).
Proof.
  intros tf s [o|] I W; simpl.
  - apply Inv_api_step; auto.
  - destruct I as [N D F]. apply Inv_reconcile_step; auto.
Qed.

Lemma history_invariant : forall tf hs s, Inv s -> Forall hop_wf hs -> Inv (run_history tf s hs).
Proof.
  intros tf hs. induction hs as [|h hs IH]; intros s I W; simpl; auto.
  inversion W; subst. apply IH; auto. apply Inv_hstep; auto.
Qed.

(* ---- (1) and (2) along histories *)
Lemma history_no_two_allocatable_overlap : forall tf hs blocks0 a b,
  Forall hop_wf hs ->
  let s := run_history tf (mkState [] blocks0) hs in
  In a (st_pools s) -> In b (st_pools s) -> p_name a <> p_name b ->
  allocatable a = true -> allocatable b = true -> pools_overlap a b = false.
Proof.
  intros tf hs blocks0 a b W s. apply (inv_disjoint s). apply history_invariant; auto. apply Inv_empty.
Qed.

Lemma incumbent_allocatable : forall p, incumbent p = true -> allocatable p = true.
Proof. intros p H. unfold incumbent in H. rewrite !andb_true_iff in H. tauto. Qed.

Lemma after_find : forall post f p, after post f p = true ->
  exists q, In q post /\ p_name q = p_name p /\ f q = true.
Proof.
  intros post f p H. unfold after in H. destruct (find_pool (p_name p) post) as [q|] eqn:E; [|discriminate].
  apply find_pool_In in E. exists q. tauto.
Qed.

(* in every reachable state, a reconcile keeps every in-service allocatable pool allocatable,
   with its finalizer, whatever other pools exist *)
Lemma reachable_incumbent_kept : forall tf s p,
  Inv s -> In p (st_pools s) -> incumbent p = true ->
  exists p', In p' (st_pools (reconcile_step tf s)) /\ p_name p' = p_name p
             /\ allocatable p' = true /\ p_fin p' = true /\ p_deleting p' = false.
Proof.
  intros tf s p [N D F] Ip Inc.
  destruct (outcome_In tf (st_pools s) p Ip) as (d & Id).
  destruct (incumbent_kept tf (st_pools s) (st_blocks s) N) with (p := p) as [A Fi]; auto.
  { intros a b Ia Ib Nn Ha Hb. apply D; auto using incumbent_allocatable. }
  unfold post_of in A, Fi.
  rewrite (after_outcome tf _ _ p d allocatable N Id) in A.
  rewrite (after_outcome tf _ _ p d p_fin N Id) in Fi.
  exists (final (st_blocks s) (p, d)). repeat split; auto.
  - unfold reconcile_step. cbn [st_pools]. apply gc_In. split.
    + rewrite reconcile_pools. apply in_map. exact Id.
    + unfold gone. rewrite Fi. rewrite andb_false_r. reflexivity.
  - apply final_name.
  - rewrite final_deleting. simpl. apply incumbent_spec in Inc. destruct Inc as (C & _).
    apply category_0 in C. tauto.
Qed.

Lemma history_incumbent_kept : forall tf hs blocks0 p,
  Forall hop_wf hs ->
  let s := run_history tf (mkState [] blocks0) hs in
  In p (st_pools s) -> incumbent p = true ->
  exists p', In p' (st_pools (reconcile_step tf s)) /\ p_name p' = p_name p
             /\ allocatable p' = true /\ p_fin p' = true /\ p_deleting p' = false.
Proof.
  intros tf hs blocks0 p W s. apply reachable_incumbent_kept.
  apply history_invariant; auto. apply Inv_empty.
Qed.

(* ---- (4) along histories: a delete request against an allocatable pool does not complete
   while, at every reconcile, a block of the pool is still there *)
Fixpoint blocks_held (tf : bool) (p : pool) (s : state) (hs : list hop) : Prop :=
  match hs with
  | [] => True
  | h :: hs' => (h = HReconcile -> has_block p (st_blocks s) = true) /\ blocks_held tf p (hstep tf s h) hs'
  end.

Definition held_pool (n : list N) (c : rawcidr) (q : pool) : Prop :=
  p_name q = n /\ p_cidr q = c /\ p_deleting q = true /\ p_fin q = true.

Lemma held_not_gone : forall n c q, held_pool n c q -> gone q = false.
Proof. intros n c q (_ & _ & _ & F). unfold gone. rewrite F. rewrite andb_false_r. reflexivity. Qed.

Lemma has_block_cidr : forall p q blocks, p_cidr q = p_cidr p -> has_block q blocks = has_block p blocks.
Proof. intros p q blocks H. unfold has_block, pcidr. rewrite H. reflexivity. Qed.

Lemma held_hstep : forall tf s h n c,
  Inv s -> (exists q, In q (st_pools s) /\ held_pool n c q) ->
  (h = HReconcile -> forall q, p_cidr q = c -> has_block q (st_blocks s) = true) ->
  exists q, In q (st_pools (hstep tf s h)) /\ held_pool n c q.
Proof.
  intros tf s h n c I (q & Iq & Hq) HB. destruct h as [o|]; [simpl|unfold hstep, reconcile_step; cbn [st_pools]].
  - destruct o as [p|m b|m|m|b|b]; simpl; eauto.
    + destruct (existsb _ (st_pools s)); simpl; eauto. exists q. split; auto. apply in_app_iff. auto.
    + apply (update_pool_keeps m (fun p => set_disabled p b) (st_pools s) (held_pool n c)) with (x := q); auto.
    + destruct (update_pool_keeps m (fun p => set_deleting p true) (st_pools s) (held_pool n c)) with (x := q) as (x' & I' & H'); auto.
      { intros y. destruct y; unfold held_pool; simpl; tauto. }
      exists x'. split; auto. apply gc_In. split; auto. eapply held_not_gone; eauto.
    + destruct (update_pool_keeps m (fun p => set_ofin p false) (st_pools s) (held_pool n c)) with (x := q) as (x' & I' & H'); auto.
      exists x'. split; auto. apply gc_In. split; auto. eapply held_not_gone; eauto.
  - destruct I as [N D F]. destruct Hq as (Hn & Hc & Hd & Hf).
    destruct (outcome_In tf (st_pools s) q Iq) as (d & Id).
    specialize (HB eq_refl q Hc).
    destruct (no_delete_with_blocks tf (st_pools s) (st_blocks s) q N Iq Hd Hf HB) as [Fi _].
    unfold post_of in Fi. rewrite (after_outcome tf _ _ q d p_fin N Id) in Fi.
    exists (final (st_blocks s) (q, d)). split.
    + apply gc_In. split. { rewrite reconcile_pools. apply in_map. exact Id. }
      unfold gone. rewrite Fi. rewrite andb_false_r. reflexivity.
    + unfold held_pool. rewrite final_name, final_deleting. simpl. repeat split; auto.
      unfold final. simpl. rewrite fin_step_cidr, apply_decision_cidr. exact Hc.
Qed.

Lemma held_history : forall tf hs s n c p,
  Inv s -> Forall hop_wf hs -> p_cidr p = c ->
  (exists q, In q (st_pools s) /\ held_pool n c q) ->
  blocks_held tf p s hs ->
  exists q, In q (st_pools (run_history tf s hs)) /\ held_pool n c q.
Proof.
  intros tf hs. induction hs as [|h hs IH]; intros s n c p I W Hc Hq HB; simpl; auto.
  inversion W; subst. destruct HB as [HB1 HB2].
  apply (IH (hstep tf s h) n (p_cidr p) p); auto.
  - apply Inv_hstep; auto.
  - apply held_hstep; auto. intros E q Eq. rewrite (has_block_cidr p q); auto.
Qed.

Lemma history_no_delete_with_blocks : forall tf s p hs,
  Inv s -> In p (st_pools s) -> allocatable p = true -> p_deleting p = false ->
  Forall hop_wf hs ->
  let s1 := api_step s (OpDelete (p_name p)) in
  blocks_held tf p s1 hs ->
  exists q, In q (st_pools (run_history tf s1 hs))
            /\ p_name q = p_name p /\ p_cidr q = p_cidr p /\ p_deleting q = true /\ p_fin q = true.
Proof.
  intros tf s p hs I Ip A D W s1 HB.
  apply (held_history tf hs s1 (p_name p) (p_cidr p) p); auto.
  - apply Inv_api_step; simpl; auto.
  - exists (set_deleting p true). split.
    + unfold s1. simpl. apply gc_In. split.
      * apply (update_pool_hit (p_name p) (fun p => set_deleting p true) (st_pools s) p); auto. apply (inv_names s I).
      * unfold gone. simpl. rewrite (inv_fin s I p Ip A). reflexivity.
    + unfold held_pool. simpl. repeat split; auto. apply (inv_fin s I p Ip A).
Qed.

(* ---- (3) along histories *)
Lemma after_In : forall post f p q, NoDup (map p_name post) -> In q post -> p_name q = p_name p ->
  after post f p = f q.
Proof.
  intros post f p q N I E. unfold after. rewrite <- E. rewrite find_pool_unique; auto.
Qed.

Lemma reachable_terminating_masks : forall tf s T p p',
  Inv s -> In T (st_pools s) -> In p (st_pools s) -> p_name p <> p_name T ->
  p_deleting T = true -> (tf = true \/ p_disabled T = false) -> pools_overlap T p = true ->
  allocatable p = false ->
  In p' (st_pools (reconcile_step tf s)) -> p_name p' = p_name p -> allocatable p' = false.
Proof.
  intros tf s T p p' [N D F] IT Ip Nn Del M O NA Ip' En.
  unfold reconcile_step in Ip'. cbn [st_pools] in Ip'. apply gc_In in Ip'. destruct Ip' as [Ip' _].
  destruct (allocatable p') eqn:A; auto. exfalso.
  destruct (terminating_masks tf (st_pools s) (st_blocks s) T p N IT Ip Nn Del M O) as [A1 _]; [|congruence].
  rewrite (after_In _ allocatable p p'); auto. apply post_names_NoDup. exact N.
Qed.
