(* C39 — "a pool is never released while a block exists in it", as a statement about single steps
   of ANY history (API operations incl. disable-after-delete, passes with any failing writes):
   a pool that carries the controller's finalizer can disappear from the cluster in exactly one
   way — a reconcile pass at which it is terminating and no block lies inside its CIDR. *)
From Coq Require Import List NArith Arith Bool Lia Sorting.Permutation Sorting.Sorted.
From Verif.Common Require Import Prefix.
From Verif.C39 Require Import Model Spec Order Proofs Reconcile History Faults.
Import ListNotations.

Definition present (n : list N) (s : state) : Prop := exists q, In q (st_pools s) /\ p_name q = n.

(* stronger: the pool stays, with its CIDR, and still protected unless the pass legitimately took
   the finalizer off a pool that is not being deleted *)
Definition kept (q : pool) (s : state) : Prop :=
  exists q', In q' (st_pools s) /\ p_name q' = p_name q /\ p_cidr q' = p_cidr q
             /\ (p_deleting q = true -> p_deleting q' = true /\ p_fin q' = true).

Lemma fin_not_gone : forall q, p_fin q = true -> gone q = false.
Proof. intros q H. unfold gone. rewrite H. simpl. rewrite andb_false_r. reflexivity. Qed.

Lemma update_pool_some : forall n f ps x, In x ps ->
  (exists x', In x' (update_pool n f ps) /\ (x' = x \/ x' = f x)).
Proof.
  intros n f ps x. induction ps as [|y ps IH]; simpl; intros H. { contradiction. }
  destruct (name_eqb (p_name y) n); simpl.
  - destruct H as [H|H]; subst; eauto.
  - destruct H as [H|H]; subst; eauto. destruct (IH H) as (x' & I & E). eauto.
Qed.

Lemma protected_step : forall tf s h q,
  Base s -> In q (st_pools s) -> p_fin q = true ->
  (match h with
   | FReconcile _ _ => p_deleting q = true -> has_block q (st_blocks s) = true
   | FApi _ => True
   end) ->
  kept q (hstepf tf s h).
Proof.
  intros tf s h q B Iq Fi HB. destruct h as [o|sf uf]; [simpl|unfold hstepf, reconcile_step_f; cbn [st_pools]].
  - destruct o as [p|m b|m|m|b|b]; simpl.
    + destruct (existsb _ (st_pools s)); simpl; exists q; repeat split; auto. apply in_app_iff. auto.
    + destruct (update_pool_some m (fun p => set_disabled p b) (st_pools s) q Iq) as (x' & I & [E|E]); subst x';
        [exists q|exists (set_disabled q b)]; repeat split; auto.
    + destruct (update_pool_some m (fun p => set_deleting p true) (st_pools s) q Iq) as (x' & I & [E|E]); subst x'.
      * exists q. repeat split; auto. apply gc_In. split; auto. apply fin_not_gone; exact Fi.
      * exists (set_deleting q true). repeat split; auto. apply gc_In. split; auto.
        apply fin_not_gone; exact Fi.
    + destruct (update_pool_some m (fun p => set_ofin p false) (st_pools s) q Iq) as (x' & I & [E|E]); subst x'.
      * exists q. repeat split; auto. apply gc_In. split; auto. apply fin_not_gone; exact Fi.
      * exists (set_ofin q false). repeat split; auto. apply gc_In. split; auto.
        apply fin_not_gone; exact Fi.
    + exists q. repeat split; auto.
    + exists q. repeat split; auto.
  - destruct B as [N _]. destruct (outcome_In tf (st_pools s) q Iq) as (d & Id).
    assert (Ipost : In (finalf sf uf (st_blocks s) (q, d)) (post_f tf sf uf (st_pools s) (st_blocks s))).
    { rewrite post_f_outcome. apply in_map. exact Id. }
    exists (finalf sf uf (st_blocks s) (q, d)). destruct (p_deleting q) eqn:D.
    + specialize (HB eq_refl).
      destruct (no_delete_with_blocks_f tf sf uf (st_pools s) (st_blocks s) q N Iq D Fi HB) as [F _].
      rewrite (after_outcome_f tf sf uf _ _ q d p_fin N Id) in F.
      repeat split; auto. apply gc_In. split; auto. apply fin_not_gone; exact F.
    + repeat split; try discriminate. apply gc_In. split; auto.
      unfold gone. rewrite finalf_deleting. simpl. rewrite D. reflexivity.
Qed.

Lemma kept_present : forall q s, kept q s -> present (p_name q) s.
Proof. intros q s (q' & I & E & _). exists q'. auto. Qed.

(* along every history with arbitrary failing writes: if a step makes a finalizer-protected pool
   disappear, the step is a reconcile pass, the pool was terminating and no block lay in its CIDR *)
Lemma never_released_with_blocks : forall tf hs h blocks0 q,
  Forall hopf_wf hs ->
  let s := run_history_f tf (mkState [] blocks0) hs in
  In q (st_pools s) -> p_fin q = true ->
  ~ present (p_name q) (hstepf tf s h) ->
  (exists sf uf, h = FReconcile sf uf) /\ p_deleting q = true /\ has_block q (st_blocks s) = false.
Proof.
  intros tf hs h blocks0 q W s Iq Fi Gone.
  assert (B : Base s) by (apply Base_history_f; auto; split; simpl; [constructor|intros a []]).
  destruct h as [o|sf uf].
  - exfalso. apply Gone. apply kept_present. apply protected_step; auto.
  - destruct (p_deleting q) eqn:D; [destruct (has_block q (st_blocks s)) eqn:HB|].
    + exfalso. apply Gone. apply kept_present. apply protected_step; auto.
    + repeat split; eauto.
    + exfalso. apply Gone. apply kept_present. apply protected_step; auto. intros; congruence.
Qed.

(* the allocatable pools of a state reached through a clean pass are protected (Inv), so the same
   holds for "a pool that was allocatable": it cannot be released while a block exists in it *)
Lemma allocatable_protected_after_clean_pass : forall tf hs blocks0 q,
  Forall hopf_wf hs ->
  In q (st_pools (reconcile_step tf (run_history_f tf (mkState [] blocks0) hs))) ->
  allocatable q = true -> p_fin q = true.
Proof.
  intros tf hs blocks0 q W Iq A.
  apply (inv_fin _ (history_f_then_clean_pass tf hs blocks0 W) q Iq A).
Qed.
