(* C39 — property theorems only. *)
From Coq Require Import List NArith Arith Bool.
From Verif.Common Require Import Prefix.
From Verif.C39 Require Import Model Spec.
Import ListNotations.

Theorem c39_gc_keeps_protected : forall ps p, In p ps -> gone p = false -> In p (gc ps).
Proof. intros ps p H G. unfold gc. apply filter_In. split; auto. rewrite G. reflexivity. Qed.
Print Assumptions c39_gc_keeps_protected.
