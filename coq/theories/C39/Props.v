(* C39 — property theorems only.

   reconcile tf pools blocks : the controller's reconcile over ALL pools (Model.v); tf = false is the
   pinned order of the Spec.Disabled / DeletionTimestamp tests, tf = true the repaired order.
   post_of tf pools blocks  : the pools as left in the datastore by that reconcile.
   after post f p           : f evaluated on the record that pool p has in post.
   Pools, blocks, conditions, finalizers, creation times and names are arbitrary throughout;
   the only standing hypothesis is that pool names are distinct (they are resource names). *)
From Coq Require Import List NArith Arith Bool Sorting.Permutation Sorting.Sorted.
From Verif.Common Require Import Prefix.
From Verif.C39 Require Import Model Spec Order Proofs Reconcile History TrieLink Faults Release Conditions ConditionsProofs Whole Cases.
Import ListNotations.

(* (1) After a reconcile no two allocatable pools overlap. *)
Theorem c39_no_two_allocatable_overlap : forall tf pools blocks p q,
  In p (post_of tf pools blocks) -> In q (post_of tf pools blocks) ->
  p_name p <> p_name q -> allocatable p = true -> allocatable q = true ->
  pools_overlap p q = false.
Proof. exact no_two_allocatable_overlap. Qed.
Print Assumptions c39_no_two_allocatable_overlap.

(* (2) A pool that was already allocatable and in service stays allocatable (and carries the
   finalizer) whatever newer / not yet allocatable pools overlap it, provided the allocatable
   pools did not overlap each other to begin with (which (1) and c39_history_invariant guarantee
   in every reachable state). *)
Theorem c39_incumbent_kept : forall tf pools blocks,
  NoDup (map p_name pools) ->
  (forall a b, In a pools -> In b pools -> p_name a <> p_name b ->
               incumbent a = true -> incumbent b = true -> pools_overlap a b = false) ->
  forall p, In p pools -> incumbent p = true ->
    after (post_of tf pools blocks) allocatable p = true /\ after (post_of tf pools blocks) p_fin p = true.
Proof. exact incumbent_kept. Qed.
Print Assumptions c39_incumbent_kept.

(* (2) without any hypothesis on the starting configuration: an incumbent can lose the status
   only to another incumbent that overlaps it and keeps the status. *)
Theorem c39_incumbent_only_loses_to_incumbent : forall tf pools blocks p,
  NoDup (map p_name pools) -> In p pools -> incumbent p = true ->
  after (post_of tf pools blocks) allocatable p = true
  \/ exists q, In q pools /\ p_name q <> p_name p /\ incumbent q = true /\ pools_overlap p q = true
               /\ after (post_of tf pools blocks) allocatable q = true.
Proof. exact incumbent_only_loses_to_incumbent. Qed.
Print Assumptions c39_incumbent_only_loses_to_incumbent.

(* (3) While a terminating pool T is listed, a pool overlapping it is allocatable after the
   reconcile only if it was allocatable (and in service) before.  For the pinned order
   (tf = false) this needs T not to be administratively disabled; see the refutation below. *)
Theorem c39_terminating_masks : forall tf pools blocks T p,
  NoDup (map p_name pools) -> In T pools -> In p pools -> p_name p <> p_name T ->
  p_deleting T = true -> (tf = true \/ p_disabled T = false) ->
  pools_overlap T p = true ->
  after (post_of tf pools blocks) allocatable p = true ->
  allocatable p = true /\ p_deleting p = false.
Proof. exact terminating_masks. Qed.
Print Assumptions c39_terminating_masks.

(* (3) is FALSE of the pinned order for a pool that is both disabled and terminating: pool a
   (10.0.0.0/24, terminating, finalizer held, block 10.0.0.64/26 present, spec.disabled set after
   the delete request) no longer masks pool b (10.0.0.0/25), which becomes allocatable while a
   is still there; the specification oracle rejects that reconcile.  Replayed on the real
   controller by driver scenario 0 (known finding disabled-terminating-does-not-mask). *)
Theorem c39_terminating_masks_refuted_pinned :
  exists pools blocks T p,
    NoDup (map p_name pools) /\ In T pools /\ In p pools /\ p_name p <> p_name T /\
    p_deleting T = true /\ p_fin T = true /\ has_block T blocks = true /\ pools_overlap T p = true /\
    allocatable p = false /\
    after (post_of false pools blocks) still_there T = true /\
    after (post_of false pools blocks) allocatable p = true /\
    ok_round pools blocks (post_of false pools blocks) = false.
Proof. exact terminating_masks_refuted_pinned. Qed.
Print Assumptions c39_terminating_masks_refuted_pinned.

(* (4) A terminating pool that carries the controller's finalizer and still has an address
   block inside its CIDR keeps the finalizer, so the API server cannot complete the deletion. *)
Theorem c39_no_delete_with_blocks : forall tf pools blocks p,
  NoDup (map p_name pools) -> In p pools ->
  p_deleting p = true -> p_fin p = true -> has_block p blocks = true ->
  after (post_of tf pools blocks) p_fin p = true /\ after (post_of tf pools blocks) still_there p = true.
Proof. exact no_delete_with_blocks. Qed.
Print Assumptions c39_no_delete_with_blocks.

(* ... and every pool that is allocatable and in service after a reconcile carries the finalizer,
   so a later delete request cannot complete at once. *)
Theorem c39_allocatable_has_finalizer : forall tf pools blocks p,
  NoDup (map p_name pools) -> In p pools ->
  after (post_of tf pools blocks) (fun q => allocatable q && negb (p_deleting q)) p = true ->
  after (post_of tf pools blocks) p_fin p = true.
Proof. exact allocatable_has_finalizer. Qed.
Print Assumptions c39_allocatable_has_finalizer.

(* The specification oracle of Spec.v (the one applied to the implementation's observations)
   accepts every reconcile of the model: always for the repaired order, and for the pinned order
   whenever no pool is both disabled and terminating. *)
Theorem c39_model_meets_spec : forall tf pools blocks, NoDup (map p_name pools) ->
  (tf = true \/ forall p, In p pools -> p_deleting p = true -> p_disabled p = false) ->
  ok_round pools blocks (ro_pools (reconcile tf pools blocks)) = true.
Proof. exact model_meets_spec. Qed.
Print Assumptions c39_model_meets_spec.

(* Parts (1), (2), (4) of the oracle hold of the pinned order unconditionally. *)
Theorem c39_model_meets_spec_but_masking : forall tf pools blocks, NoDup (map p_name pools) ->
  let post := ro_pools (reconcile tf pools blocks) in
  ok_same_pools pools post && ok_no_overlap post && ok_incumbent pools post && ok_finalizers pools blocks post = true.
Proof. exact model_meets_spec_but_masking. Qed.
Print Assumptions c39_model_meets_spec_but_masking.

(* ---- histories: any interleaving of create / disable / enable / delete request / foreign
   finalizer removed / block appears / block gone / reconcile, from the empty cluster or from
   any state satisfying Inv (distinct names, allocatable pools pairwise disjoint, allocatable
   pools carry the finalizer). *)
Theorem c39_history_invariant : forall tf hs s, Inv s -> Forall hop_wf hs -> Inv (run_history tf s hs).
Proof. exact history_invariant. Qed.
Print Assumptions c39_history_invariant.

Theorem c39_history_no_two_allocatable_overlap : forall tf hs blocks0 a b,
  Forall hop_wf hs ->
  let s := run_history tf (mkState [] blocks0) hs in
  In a (st_pools s) -> In b (st_pools s) -> p_name a <> p_name b ->
  allocatable a = true -> allocatable b = true -> pools_overlap a b = false.
Proof. exact history_no_two_allocatable_overlap. Qed.
Print Assumptions c39_history_no_two_allocatable_overlap.

(* at any point of any history, the next reconcile keeps every in-service allocatable pool *)
Theorem c39_history_incumbent_kept : forall tf hs blocks0 p,
  Forall hop_wf hs ->
  let s := run_history tf (mkState [] blocks0) hs in
  In p (st_pools s) -> incumbent p = true ->
  exists p', In p' (st_pools (reconcile_step tf s)) /\ p_name p' = p_name p
             /\ allocatable p' = true /\ p_fin p' = true /\ p_deleting p' = false.
Proof. exact history_incumbent_kept. Qed.
Print Assumptions c39_history_incumbent_kept.

(* at any point of any history, a terminating pool (not disabled, or repaired order) keeps an
   overlapping non-allocatable pool non-allocatable through the next reconcile *)
Theorem c39_history_terminating_masks : forall tf s T p p',
  Inv s -> In T (st_pools s) -> In p (st_pools s) -> p_name p <> p_name T ->
  p_deleting T = true -> (tf = true \/ p_disabled T = false) -> pools_overlap T p = true ->
  allocatable p = false ->
  In p' (st_pools (reconcile_step tf s)) -> p_name p' = p_name p -> allocatable p' = false.
Proof. exact reachable_terminating_masks. Qed.
Print Assumptions c39_history_terminating_masks.

(* a delete request against an allocatable pool never completes, through any further history
   (including disabling the pool, repeated delete requests, other pools coming and going), as
   long as at every reconcile some block still lies inside the pool's CIDR *)
Theorem c39_history_no_delete_with_blocks : forall tf s p hs,
  Inv s -> In p (st_pools s) -> allocatable p = true -> p_deleting p = false ->
  Forall hop_wf hs ->
  let s1 := api_step s (OpDelete (p_name p)) in
  blocks_held tf p s1 hs ->
  exists q, In q (st_pools (run_history tf s1 hs))
            /\ p_name q = p_name p /\ p_cidr q = p_cidr p /\ p_deleting q = true /\ p_fin q = true.
Proof. exact history_no_delete_with_blocks. Qed.
Print Assumptions c39_history_no_delete_with_blocks.

(* ---- passes in which API writes fail.  reconcile_f tf sf uf : the UpdateStatus calls for the pools named
   in sf and the Update (finalizer) calls for the pools named in uf fail in this pass (Model.v states what
   the code does on those paths).  Every statement is for EVERY sf and uf.
   Guaranteed after every pass, whatever fails: (2), (3), first half of (4).
   Guaranteed for the pools none of whose own writes failed in the pass: (1), second half of (4).
   A pool whose own write failed can show a stale condition / finalizer until the requeued pass;
   c39_faults_then_clean_pass: one clean pass after any such history restores everything. *)
Theorem c39_faults_no_two_allocatable_overlap : forall tf sf uf pools blocks p q,
  In p (post_f tf sf uf pools blocks) -> In q (post_f tf sf uf pools blocks) ->
  p_name p <> p_name q -> allocatable p = true -> allocatable q = true ->
  mem_name (p_name p) sf = false -> mem_name (p_name q) sf = false ->
  pools_overlap p q = false.
Proof. exact no_two_allocatable_overlap_f. Qed.
Print Assumptions c39_faults_no_two_allocatable_overlap.

Theorem c39_faults_incumbent_kept : forall tf sf uf pools blocks,
  NoDup (map p_name pools) ->
  (forall a b, In a pools -> In b pools -> p_name a <> p_name b ->
               incumbent a = true -> incumbent b = true -> pools_overlap a b = false) ->
  forall p, In p pools -> incumbent p = true ->
    after (post_f tf sf uf pools blocks) allocatable p = true.
Proof. exact incumbent_kept_f. Qed.
Print Assumptions c39_faults_incumbent_kept.

Theorem c39_faults_incumbent_only_loses_to_incumbent : forall tf sf uf pools blocks p,
  NoDup (map p_name pools) -> In p pools -> incumbent p = true ->
  after (post_f tf sf uf pools blocks) allocatable p = true
  \/ exists q, In q pools /\ p_name q <> p_name p /\ incumbent q = true /\ pools_overlap p q = true
               /\ after (post_f tf sf uf pools blocks) allocatable q = true.
Proof. exact incumbent_only_loses_to_incumbent_f. Qed.
Print Assumptions c39_faults_incumbent_only_loses_to_incumbent.

(* a terminating pool masks in the very pass in which its own status write (or any other write) fails *)
Theorem c39_faults_terminating_masks : forall tf sf uf pools blocks T p,
  NoDup (map p_name pools) -> In T pools -> In p pools -> p_name p <> p_name T ->
  p_deleting T = true -> (tf = true \/ p_disabled T = false) ->
  pools_overlap T p = true ->
  after (post_f tf sf uf pools blocks) allocatable p = true ->
  allocatable p = true.
Proof. exact terminating_masks_f. Qed.
Print Assumptions c39_faults_terminating_masks.

Theorem c39_faults_no_delete_with_blocks : forall tf sf uf pools blocks p,
  NoDup (map p_name pools) -> In p pools ->
  p_deleting p = true -> p_fin p = true -> has_block p blocks = true ->
  after (post_f tf sf uf pools blocks) p_fin p = true /\ after (post_f tf sf uf pools blocks) still_there p = true.
Proof. exact no_delete_with_blocks_f. Qed.
Print Assumptions c39_faults_no_delete_with_blocks.

Theorem c39_faults_allocatable_has_finalizer : forall tf sf uf pools blocks p,
  NoDup (map p_name pools) -> In p pools ->
  mem_name (p_name p) sf = false -> mem_name (p_name p) uf = false ->
  after (post_f tf sf uf pools blocks) (fun q => allocatable q && negb (p_deleting q)) p = true ->
  after (post_f tf sf uf pools blocks) p_fin p = true.
Proof. exact allocatable_has_finalizer_f. Qed.
Print Assumptions c39_faults_allocatable_has_finalizer.

(* the oracle applied to the implementation (ok_round_f) accepts every pass of the model for every sf, uf *)
Theorem c39_faults_model_meets_spec : forall tf sf uf pools blocks, NoDup (map p_name pools) ->
  (tf = true \/ forall p, In p pools -> p_deleting p = true -> p_disabled p = false) ->
  ok_round_f sf uf pools blocks (ro_pools (reconcile_f tf sf uf pools blocks)) = true.
Proof. exact model_meets_spec_f. Qed.
Print Assumptions c39_faults_model_meets_spec.

(* with no failing write, reconcile_f is reconcile *)
Theorem c39_faults_none_is_reconcile : forall tf pools blocks,
  post_f tf [] [] pools blocks = post_of tf pools blocks.
Proof. exact post_f_clean. Qed.
Print Assumptions c39_faults_none_is_reconcile.

(* histories (from the empty cluster, pools with readable CIDRs) in which every pass may have any
   failing writes: one clean pass afterwards re-establishes Inv (all of (1), finalizers, names) *)
Theorem c39_faults_then_clean_pass : forall tf hs blocks0,
  Forall hopf_wf hs -> Inv (reconcile_step tf (run_history_f tf (mkState [] blocks0) hs)).
Proof. exact history_f_then_clean_pass. Qed.
Print Assumptions c39_faults_then_clean_pass.

Theorem c39_faults_history_terminating_masks : forall tf hs blocks0 sf uf T p p',
  Forall hopf_wf hs ->
  let s := run_history_f tf (mkState [] blocks0) hs in
  In T (st_pools s) -> In p (st_pools s) -> p_name p <> p_name T ->
  p_deleting T = true -> (tf = true \/ p_disabled T = false) -> pools_overlap T p = true ->
  allocatable p = false ->
  In p' (st_pools (reconcile_step_f tf sf uf s)) -> p_name p' = p_name p -> allocatable p' = false.
Proof. exact history_f_terminating_masks. Qed.
Print Assumptions c39_faults_history_terminating_masks.

Theorem c39_faults_history_no_delete_with_blocks : forall tf s p hs,
  Base s -> In p (st_pools s) -> p_fin p = true ->
  Forall hopf_wf hs ->
  let s1 := api_step s (OpDelete (p_name p)) in
  blocks_held_f tf p s1 hs ->
  exists q, In q (st_pools (run_history_f tf s1 hs))
            /\ p_name q = p_name p /\ p_cidr q = p_cidr p /\ p_deleting q = true /\ p_fin q = true.
Proof. exact history_f_no_delete_with_blocks. Qed.
Print Assumptions c39_faults_history_no_delete_with_blocks.

(* ---- model meets spec, whole-case form: along EVERY history from the empty cluster (any API operations, every
   pass with any failing writes) the oracle that check_rounds applies to the implementation accepts every pass of the
   model (repaired order, i.e. the code as it is in the tree now) *)
Theorem c39_history_model_meets_spec : forall hs blocks0, Forall hopf_wf hs ->
  passes_ok true (mkState [] blocks0) hs = true.
Proof. exact history_model_meets_spec. Qed.
Print Assumptions c39_history_model_meets_spec.

(* for the repaired order c39_model_meets_spec needs nothing but distinct names *)
Theorem c39_model_meets_spec_fixed : forall pools blocks, NoDup (map p_name pools) ->
  ok_round pools blocks (ro_pools (reconcile true pools blocks)) = true.
Proof. exact model_meets_spec_fixed. Qed.
Print Assumptions c39_model_meets_spec_fixed.

(* ---- a pool is never released while a block exists in it.  One step of any history (any API operation —
   disable, enable, repeated delete requests, a foreign finalizer going away, other pools and blocks coming and
   going — or a pass with ANY failing writes) keeps a pool that carries the controller's finalizer, with its CIDR,
   and if it is terminating keeps it terminating and protected, unless the step is a pass at which the pool is
   terminating and no block lies inside its CIDR. *)
Theorem c39_protected_step : forall tf s h q,
  Base s -> In q (st_pools s) -> p_fin q = true ->
  (match h with
   | FReconcile _ _ => p_deleting q = true -> has_block q (st_blocks s) = true
   | FApi _ => True
   end) ->
  kept q (hstepf tf s h).
Proof. exact protected_step. Qed.
Print Assumptions c39_protected_step.

(* for EVERY history from the empty cluster (incl. disable-after-delete, any failing writes): if some step makes a
   protected pool disappear, that step is a reconcile pass, the pool was terminating, and no block lay in its CIDR *)
Theorem c39_never_released_with_blocks : forall tf hs h blocks0 q,
  Forall hopf_wf hs ->
  let s := run_history_f tf (mkState [] blocks0) hs in
  In q (st_pools s) -> p_fin q = true ->
  ~ present (p_name q) (hstepf tf s h) ->
  (exists sf uf, h = FReconcile sf uf) /\ p_deleting q = true /\ has_block q (st_blocks s) = false.
Proof. exact never_released_with_blocks. Qed.
Print Assumptions c39_never_released_with_blocks.

(* ... and after a clean pass every allocatable pool is protected, so "protected" covers "was allocatable" *)
Theorem c39_allocatable_protected_after_clean_pass : forall tf hs blocks0 q,
  Forall hopf_wf hs ->
  In q (st_pools (reconcile_step tf (run_history_f tf (mkState [] blocks0) hs))) ->
  allocatable q = true -> p_fin q = true.
Proof. exact allocatable_protected_after_clean_pass. Qed.
Print Assumptions c39_allocatable_protected_after_clean_pass.

(* ---- status.conditions as a list: setConditionOnPool / hasCondition (Conditions.v), tied to the real
   functions by the driver's "conditions" stream *)
(* the list model meets its specification for every list, duplicates included *)
Theorem c39_set_condition_meets_spec : forall c cs,
  ok_set cs c (fst (set_condition cs c)) (snd (set_condition cs c)) = true.
Proof. exact set_condition_meets_spec. Qed.
Print Assumptions c39_set_condition_meets_spec.

(* refinement of Model.v's single optional Allocatable condition: writing Allocatable=(st,rs) makes the abstraction
   Some (st,rs); hasCondition is has_status of the abstraction under the API server's one-condition-per-type rule,
   which setConditionOnPool preserves *)
Theorem c39_conditions_refine : forall cs c,
  lc_type c = 0%N ->
  abs (fst (set_condition cs c)) = Some (lc_status c, lc_reason c)
  /\ others 0 (fst (set_condition cs c)) = others 0 cs
  /\ (one_per_type cs -> one_per_type (fst (set_condition cs c)))
  /\ (forall st, (count_type 0 cs <= 1)%nat ->
        has_condition cs 0 st = match abs cs with Some (s, _) => status_eqb st s | None => false end).
Proof.
  intros cs c T. repeat split.
  - apply abs_set_condition; auto.
  - rewrite <- T. apply others_set_condition.
  - apply set_one_per_type.
  - intros st H. apply abs_has_condition; auto.
Qed.
Print Assumptions c39_conditions_refine.

(* ---- handleErr: a failed pass is re-queued while the retry budget (5) lasts *)
Theorem c39_handle_err_meets_spec : forall failed requeues,
  let '(a, f) := qobs (handle_err failed requeues) in ok_handle failed requeues a f = true.
Proof. exact handle_err_meets_spec. Qed.
Print Assumptions c39_handle_err_meets_spec.

Theorem c39_failed_pass_requeued : forall requeues, (requeues < 5)%nat -> handle_err true requeues = QRequeue.
Proof. exact failed_pass_requeued. Qed.
Print Assumptions c39_failed_pass_requeued.

(* ---- poolSortFunc: the sorted permutation is unique when names are distinct, so the model's
   insertion sort and Go's slices.SortFunc (any correct sort) return the same list *)
Theorem c39_sort_unique : forall l l', NoDup (map p_name l) ->
  Permutation l l' -> StronglySorted ple l' -> l' = sort_pools l.
Proof. exact sort_unique. Qed.
Print Assumptions c39_sort_unique.

(* ---- the overlap trie: the pass written with the two felix/ip CIDR tries of the C36 model (Update to
   insert, Get != nil || Intersects || Covers to test) computes exactly what the model's pass over a plain
   list of stored prefixes computes, for every pool set whose readable CIDRs are in range (which
   net.ParseCIDR guarantees) *)
Theorem c39_trie_pass_is_list_pass : forall tf pools, Forall valid_pool pools ->
  reconcile_conditions_t tf pools = reconcile_conditions tf pools.
Proof. exact trie_pass_is_list_pass. Qed.
Print Assumptions c39_trie_pass_is_list_pass.

(* ---- non-vacuity: a history in which every hypothesis above is met by a non-trivial state *)
Open Scope N_scope.
Definition ex_a := mkPool [97] 1 (Some (false, 167772160, 24%nat)) false false None false false.   (* 10.0.0.0/24 *)
Definition ex_b := mkPool [98] 2 (Some (false, 167772160, 25%nat)) false false None false false.   (* 10.0.0.0/25 *)
Definition ex_c := mkPool [99] 3 (Some (false, 167772416, 24%nat)) false false None false false.   (* 10.0.1.0/24 *)
Definition ex_blk : rawcidr := Some (false, 167772224, 26%nat).                                     (* 10.0.0.64/26 *)
Definition ex_hist : list hop :=
  [HApi (OpCreate ex_a); HReconcile; HApi (OpBlockAdd ex_blk); HApi (OpCreate ex_b); HApi (OpCreate ex_c); HReconcile;
   HApi (OpDelete [97]); HReconcile].

(* the status write for the freshly terminating pool a fails: a keeps masking b in that very pass, the datastore
   still shows a's old condition, and the next clean pass writes Terminating *)
Example c39_example_failed_write :
  let s := run_history false (mkState [] []) [HApi (OpCreate ex_a); HReconcile; HApi (OpBlockAdd ex_blk); HApi (OpCreate ex_b);
                                              HReconcile; HApi (OpDelete [97])] in
  map (fun p => (p_name p, p_cond p, p_fin p)) (st_pools (reconcile_step_f true [[97]] [] s))
  = [([97], Some (STrue, ROK), true); ([98], Some (SFalse, ROverlap), false)] /\
  map (fun p => (p_name p, p_cond p, p_fin p)) (st_pools (reconcile_step true (reconcile_step_f true [[97]] [] s)))
  = [([97], Some (SFalse, RTerminating), true); ([98], Some (SFalse, ROverlap), false)].
Proof. split; vm_compute; reflexivity. Qed.

Example c39_example_history :
  Forall hop_wf ex_hist /\
  (* a is terminating and held by its block, b is still masked, c is allocatable *)
  map (fun p => (p_name p, p_deleting p, p_cond p, p_fin p)) (st_pools (run_history false (mkState [] []) ex_hist))
  = [([99], false, Some (STrue, ROK), true);
     ([97], true, Some (SFalse, RTerminating), true);
     ([98], false, Some (SFalse, ROverlap), false)] /\
  (* once the block is gone a disappears and b takes over *)
  map (fun p => (p_name p, p_deleting p, p_cond p, p_fin p))
      (st_pools (run_history false (mkState [] []) (ex_hist ++ [HApi (OpBlockDel ex_blk); HReconcile; HReconcile])))
  = [([99], false, Some (STrue, ROK), true);
     ([98], false, Some (STrue, ROK), true)].
Proof.
  split; [|split; vm_compute; reflexivity].
  repeat constructor.
Qed.
