(* C39 — what the property says, independent of sorting, tries and passes.

   "After the pool controller reconciles any set of IP pools,
     (1) no two allocatable pools overlap,
     (2) a pool that was already allocatable is never displaced by a newer overlapping pool,
     (3) a terminating pool keeps masking overlapping pools until it is gone, and
     (4) an allocatable pool is not deleted while it still has address blocks."

   An observation of one reconcile is: the pools before (as the controller's cache showed
   them), the address blocks, and the pools after (as left in the datastore, before the API
   server collects terminating pools that have no finalizer left).  [ok_round] is the oracle
   applied to the implementation's own observations. *)
From Coq Require Import List NArith Arith Bool.
From Verif.Common Require Import Prefix.
From Verif.C39 Require Import Model.
Import ListNotations.

Definition allocatable (p : pool) : bool := has_status p STrue.

(* the CIDRs of two pools share an address *)
Definition pools_overlap (p q : pool) : bool :=
  match pcidr p, pcidr q with
  | Some a, Some b => cidr_overlap a b
  | _, _ => false
  end.

Definition same_name (p q : pool) : bool := name_eqb (p_name p) (p_name q).
Definition find_pool (n : list N) (ps : list pool) : option pool :=
  find (fun q => name_eqb (p_name q) n) ps.
(* a predicate of the pool's record after the reconcile (false if it disappeared from the listing) *)
Definition after (post : list pool) (f : pool -> bool) (p : pool) : bool :=
  match find_pool (p_name p) post with Some q => f q | None => false end.

(* "already allocatable": carried Allocatable=True and was in service (not being deleted, not
   administratively disabled, CIDR readable) when the reconcile started *)
Definition incumbent (p : pool) : bool :=
  allocatable p && negb (p_deleting p) && negb (p_disabled p)
  && match p_cidr p with Some _ => true | None => false end.

(* (1) *)
Definition ok_no_overlap (post : list pool) : bool :=
  forallb (fun p => forallb (fun q =>
    implb (negb (same_name p q) && allocatable p && allocatable q) (negb (pools_overlap p q))) post) post.

(* (2) an incumbent stays allocatable; the only thing that may cost it the status is another
   incumbent that overlaps it and stays allocatable (two overlapping pools that both claim to
   be allocatable cannot both be kept) — never a pool that was not allocatable before *)
Definition ok_incumbent (pre post : list pool) : bool :=
  forallb (fun p =>
    implb (incumbent p)
      (after post allocatable p
       || existsb (fun q => negb (same_name p q) && incumbent q && pools_overlap p q
                            && after post allocatable q) pre)) pre.

(* (3) while a terminating pool is still there after the reconcile, no overlapping pool has
   BECOME allocatable: whatever overlaps it and is allocatable was allocatable before *)
Definition still_there (p : pool) : bool := negb (gone p).
Definition ok_term_masks (pre post : list pool) : bool :=
  forallb (fun t =>
    implb (p_deleting t && after post still_there t)
      (forallb (fun p =>
         implb (negb (same_name t p) && pools_overlap t p && after post allocatable p)
               (allocatable p)) pre)) pre.

(* (4) the pool has an address block: some block lies inside its CIDR *)
Definition kcovers (k b : kcidr) : bool :=
  Bool.eqb (fst k) (fst b) && covers (width (fst k)) (snd k) (snd b).
Definition has_block (p : pool) (blocks : list rawcidr) : bool :=
  match pcidr p with
  | Some k => existsb (fun b => match b with Some c => kcovers k (norm c) | None => false end) blocks
  | None => false
  end.
(* a pool under deletion that is protected by the controller's finalizer and still has a block
   keeps the finalizer (so the API server cannot complete the deletion); and every pool that is
   allocatable and in service after the reconcile carries the finalizer, so that a later delete
   request cannot complete at once *)
Definition ok_finalizers (pre : list pool) (blocks : list rawcidr) (post : list pool) : bool :=
  forallb (fun p =>
    implb (p_deleting p && p_fin p && has_block p blocks) (after post p_fin p)
    && implb (after post (fun q => allocatable q && negb (p_deleting q)) p) (after post p_fin p)) pre.

(* the reconcile neither creates nor removes pools *)
Definition ok_same_pools (pre post : list pool) : bool :=
  Nat.eqb (length pre) (length post)
  && forallb (fun p => after post (fun _ => true) p) pre.

Definition ok_round (pre : list pool) (blocks : list rawcidr) (post : list pool) : bool :=
  ok_same_pools pre post && ok_no_overlap post && ok_incumbent pre post
  && ok_term_masks pre post && ok_finalizers pre blocks post.

(* ---- a pass in which some API writes fail ([sf]: pools whose status write fails, [uf]: pools
   whose finalizer write fails).  Guaranteed after EVERY pass, whatever fails: the same pools
   exist, (2), (3) and the first half of (4) (a protected terminating pool with a block keeps its
   finalizer).  Guaranteed for the pools none of whose writes failed in this pass: (1) (two
   allocatable pools whose status writes went through do not overlap) and the second half of (4)
   (an allocatable in-service pool carries the finalizer).  A pool whose own write failed may
   show a stale condition / finalizer until the requeued pass; with sf = uf = [] this is ok_round. *)
Definition ok_no_overlap_f (sf : list (list N)) (post : list pool) : bool :=
  forallb (fun p => forallb (fun q =>
    implb (negb (same_name p q) && allocatable p && allocatable q
           && negb (mem_name (p_name p) sf) && negb (mem_name (p_name q) sf))
          (negb (pools_overlap p q))) post) post.
Definition ok_finalizers_f (sf uf : list (list N)) (pre : list pool) (blocks : list rawcidr) (post : list pool) : bool :=
  forallb (fun p =>
    implb (p_deleting p && p_fin p && has_block p blocks) (after post p_fin p)
    && implb (after post (fun q => allocatable q && negb (p_deleting q)) p
              && negb (mem_name (p_name p) sf) && negb (mem_name (p_name p) uf)) (after post p_fin p)) pre.
Definition ok_round_f (sf uf : list (list N)) (pre : list pool) (blocks : list rawcidr) (post : list pool) : bool :=
  ok_same_pools pre post && ok_no_overlap_f sf post && ok_incumbent pre post
  && ok_term_masks pre post && ok_finalizers_f sf uf pre blocks post.

(* ---- one correspondence case: an initial configuration, then rounds of API operations
   followed by one reconcile, with what the driver observed around each reconcile *)
Record round := mkRound {
  r_ops : list op;                 (* applied through the (simulated) API server before the reconcile *)
  r_sfail : list (list N);         (* injected: UpdateStatus fails for these pools in this pass *)
  r_ufail : list (list N);         (* injected: Update (finalizers) fails for these pools in this pass *)
  r_pre : list pool;               (* pools in the controller's cache when reconcile starts *)
  r_blocks : list rawcidr;         (* blocks in the controller's cache *)
  r_post : list pool;              (* pools in the datastore when reconcile returns *)
  r_released : list kcidr;         (* ReleasePoolAffinities calls (family, network) *)
  r_err : bool                     (* reconcile returned an error *)
}.
Record case := mkCase {
  c_tf : bool;                     (* probed: does the tree test DeletionTimestamp before Spec.Disabled *)
  c_init : state;
  c_rounds : list round
}.

Fixpoint check_rounds (tf : bool) (s : state) (rs : list round) : bool * bool :=
  match rs with
  | [] => (true, true)
  | r :: rs' =>
      let s1 := fold_left api_step (r_ops r) s in
      let out := reconcile_f tf (r_sfail r) (r_ufail r) (st_pools s1) (st_blocks s1) in
      let agree := pools_eqb (st_pools s1) (r_pre r) && blocks_eqb (st_blocks s1) (r_blocks r)
                   && pools_eqb (ro_pools out) (r_post r) && released_eqb (ro_released out) (r_released r)
                   && Bool.eqb (ro_err out) (r_err r) in
      let ok := ok_round_f (r_sfail r) (r_ufail r) (r_pre r) (r_blocks r) (r_post r) in
      let '(a, k) := check_rounds tf (mkState (gc (ro_pools out)) (st_blocks s1)) rs' in
      (agree && a, ok && k)
  end.

Definition check_case (c : case) : bool * bool := check_rounds (c_tf c) (c_init c) (c_rounds c).
