From Coq Require Import List NArith Arith Bool Lia.
From Verif.C39 Require Import Model Conditions.
Import ListNotations.

Lemma status_eqb_refl : forall s, status_eqb s s = true. Proof. destruct s; reflexivity. Qed.
Lemma reason_eqb_refl : forall r, reason_eqb r r = true. Proof. destruct r; reflexivity. Qed.
Lemma lcond_same_refl : forall c, lcond_same c c = true.
Proof. intros. unfold lcond_same. rewrite status_eqb_refl, reason_eqb_refl, N.eqb_refl. reflexivity. Qed.
Lemma lcond_eqb_refl : forall c, lcond_eqb c c = true.
Proof. intros. unfold lcond_eqb. rewrite N.eqb_refl, lcond_same_refl. reflexivity. Qed.
Lemma lconds_eqb_refl : forall l, lconds_eqb l l = true.
Proof.
  intros l. unfold lconds_eqb. rewrite Nat.eqb_refl. simpl.
  induction l as [|x l IH]; simpl; auto. rewrite lcond_eqb_refl. exact IH.
Qed.

Section SetCondition.
  Variable c : lcond.
  Let ty := lc_type c.

  Lemma set_first : forall cs,
    match first_of ty (fst (set_condition cs c)) with Some x => lcond_same x c | None => false end = true.
  Proof.
    induction cs as [|x cs IH]; simpl.
    - unfold of_type, ty. rewrite N.eqb_refl. apply lcond_same_refl.
    - destruct (N.eqb (lc_type x) (lc_type c)) eqn:E.
      + destruct (lcond_same x c) eqn:S; simpl; unfold of_type, ty.
        * rewrite E. exact S.
        * rewrite N.eqb_refl. apply lcond_same_refl.
      + destruct (set_condition cs c) as [r ch]. simpl in *. unfold of_type, ty in *. rewrite E. exact IH.
  Qed.

  Lemma set_others : forall cs, others ty (fst (set_condition cs c)) = others ty cs.
  Proof.
    induction cs as [|x cs IH]; simpl.
    - unfold of_type, ty. rewrite N.eqb_refl. reflexivity.
    - destruct (N.eqb (lc_type x) (lc_type c)) eqn:E.
      + destruct (lcond_same x c); simpl; unfold of_type, ty; rewrite ?E, ?N.eqb_refl; reflexivity.
      + destruct (set_condition cs c) as [r ch]. simpl in *. unfold of_type, ty in *. rewrite E. simpl. rewrite IH. reflexivity.
  Qed.

  Lemma set_count : forall cs, count_type ty (fst (set_condition cs c)) = Nat.max 1 (count_type ty cs).
  Proof.
    induction cs as [|x cs IH]; simpl.
    - unfold count_type, of_type, ty. simpl. rewrite N.eqb_refl. reflexivity.
    - destruct (N.eqb (lc_type x) (lc_type c)) eqn:E.
      + destruct (lcond_same x c); unfold count_type, of_type, ty; simpl; rewrite ?E, ?N.eqb_refl; simpl; reflexivity.
      + destruct (set_condition cs c) as [r ch]. unfold count_type, of_type, ty in *. simpl in *. rewrite E. exact IH.
  Qed.

  Lemma set_changed : forall cs,
    snd (set_condition cs c) = negb (match first_of ty cs with Some x => lcond_same x c | None => false end).
  Proof.
    induction cs as [|x cs IH]; simpl; auto.
    unfold of_type, ty in *. destruct (N.eqb (lc_type x) (lc_type c)) eqn:E.
    - destruct (lcond_same x c); reflexivity.
    - destruct (set_condition cs c) as [r ch]. simpl in *. exact IH.
  Qed.

  (* the list model of setConditionOnPool meets its specification, for every list (duplicates included) *)
  Lemma set_condition_meets_spec : forall cs,
    ok_set cs c (fst (set_condition cs c)) (snd (set_condition cs c)) = true.
  Proof.
    intros cs. unfold ok_set. fold ty.
    rewrite set_first, set_others, lconds_eqb_refl, set_count, Nat.eqb_refl, set_changed. simpl.
    apply eqb_reflx.
  Qed.

  Lemma set_one_per_type : forall cs, one_per_type cs -> one_per_type (fst (set_condition cs c)).
  Proof.
    intros cs H t. destruct (N.eqb t ty) eqn:E.
    - apply N.eqb_eq in E. subst t. rewrite set_count. specialize (H ty). lia.
    - assert (Hc : forall l, count_type t l = count_type t (others ty l)).
      { intros l. unfold count_type, others. induction l as [|y l IH]; simpl; auto.
        destruct (of_type ty y) eqn:Ey; simpl.
        - assert (Et : of_type t y = false).
          { unfold of_type in *. apply N.eqb_eq in Ey. rewrite Ey. rewrite N.eqb_sym. exact E. }
          rewrite Et. exact IH.
        - destruct (of_type t y); simpl; rewrite IH; reflexivity. }
      rewrite Hc, set_others, <- Hc. apply H.
  Qed.
End SetCondition.

(* ---- refinement of Model.v's single optional Allocatable condition *)
(* updateCondition(pool, Allocatable=st/rs): the Allocatable condition becomes (st, rs) *)
Lemma abs_set_condition : forall cs c, lc_type c = 0%N ->
  abs (fst (set_condition cs c)) = Some (lc_status c, lc_reason c).
Proof.
  intros cs c T. unfold abs. pose proof (set_first c cs) as H. rewrite T in H.
  destruct (first_of 0 (fst (set_condition cs c))) as [x|]; [|discriminate].
  unfold lcond_same in H. apply andb_true_iff in H. destruct H as [H _]. apply andb_true_iff in H. destruct H as [H1 H2].
  destruct (lc_status x), (lc_status c); try discriminate;
  destruct (lc_reason x), (lc_reason c); try discriminate; reflexivity.
Qed.

(* conditions of other types are never touched *)
Lemma others_set_condition : forall cs c, others (lc_type c) (fst (set_condition cs c)) = others (lc_type c) cs.
Proof. intros. apply set_others. Qed.

(* hasCondition(Allocatable, st) is Model.has_status on the abstraction, when the API server's
   one-condition-per-type rule holds *)
Lemma abs_has_condition : forall cs st, count_type 0 cs <= 1 ->
  has_condition cs 0 st = match abs cs with Some (s, _) => status_eqb st s | None => false end.
Proof.
  intros cs st. unfold has_condition, abs, first_of, count_type.
  induction cs as [|x cs IH]; simpl; intros H; auto.
  unfold of_type at 1 in H. unfold of_type at 1. destruct (N.eqb (lc_type x) 0) eqn:E; simpl in *.
  - assert (Z : filter (of_type 0) cs = []) by (destruct (filter (of_type 0) cs); auto; simpl in H; lia).
    assert (R : existsb (fun c => N.eqb (lc_type c) 0 && status_eqb (lc_status c) st) cs = false).
    { clear -Z. induction cs as [|y cs IH]; simpl in *; auto.
      unfold of_type in Z at 1. destruct (N.eqb (lc_type y) 0) eqn:Ey; [discriminate|]. simpl. auto. }
    rewrite R, orb_false_r. destruct (lc_status x), st; reflexivity.
  - apply IH. exact H.
Qed.

(* no write is requested exactly when the first condition of the type already has the wanted
   status, reason and message *)
Lemma set_condition_changed : forall cs c,
  snd (set_condition cs c) = negb (match first_of (lc_type c) cs with Some x => lcond_same x c | None => false end).
Proof. intros. apply set_changed. Qed.
