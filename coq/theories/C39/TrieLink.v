(* C39 — the trie abstraction is a theorem, not an assumption.

   [reconcile_conditions_t] is the overlap pass written the way pool_controller.go writes it:
   two CIDR tries (IPv4, IPv6) of the C36 model of felix/ip/trie.go, the test
   Get(cidr) != nil || Intersects(cidr) || Covers(cidr), and Update(cidr, pool) to insert.
   Using the C36 theorems (Update is map insertion, Get/Covers/Intersects equal direct computation
   over the stored prefixes) it is shown equal to Model.reconcile_conditions, which keeps a plain
   list of the stored prefixes.  Hypothesis: every readable CIDR has length <= width and address
   < 2^width, which net.ParseCIDR guarantees. *)
From Coq Require Import List NArith Arith Bool Lia.
From Verif.Common Require Import Prefix.
From Verif.C36 Require Model Spec Proofs Queries.
From Verif.C39 Require Import Model.
Import ListNotations.

Module T := Verif.C36.Model.
Module TS := Verif.C36.Spec.
Module TP := Verif.C36.Proofs.
Module TQ := Verif.C36.Queries.

Record tries := mkTries { t4 : T.trie; t6 : T.trie }.
Definition tsel (ts : tries) (v6 : bool) : T.trie := if v6 then t6 ts else t4 ts.
(* t.Update(cidr, pool); the stored value is irrelevant to the controller's test *)
Definition tupd (ts : tries) (k : kcidr) : tries :=
  if fst k then mkTries (t4 ts) (T.update 128 (t6 ts) (snd k) 0%N)
  else mkTries (T.update 32 (t4 ts) (snd k) 0%N) (t6 ts).
(* e := t.Get(cidr); e != nil || t.Intersects(cidr) || t.Covers(cidr) *)
Definition ttest (ts : tries) (k : kcidr) : bool :=
  let t := tsel ts (fst k) in
  let w := width (fst k) in
  match T.get w t (snd k) with Some _ => true | None => false end
  || T.tintersects w t (snd k) || T.tcovers w t (snd k).

Definition decide_t (tf : bool) (ts : tries) (p : pool) : decision * tries :=
  match pcidr p with
  | None => (DSkip, ts)
  | Some k =>
      if (if tf then p_deleting p else false) then (DTerminating, tupd ts k)
      else if p_disabled p then (DDisabled, ts)
      else if p_deleting p then (DTerminating, tupd ts k)
      else if ttest ts k then (DOverlap, ts)
      else (DActive, tupd ts k)
  end.

Fixpoint pass_t (tf : bool) (ts : tries) (ps : list pool) : list pool :=
  match ps with
  | [] => []
  | p :: ps' => let '(d, ts') := decide_t tf ts p in apply_decision p d :: pass_t tf ts' ps'
  end.

Definition reconcile_conditions_t (tf : bool) (pools : list pool) : list pool :=
  pass_t tf (mkTries T.Leaf T.Leaf) (sort_pools pools).

(* ---- readable CIDRs are well-formed prefixes *)
Definition valid_raw (c : bool * N * nat) : Prop :=
  let '(v6, a, l) := c in l <= width v6 /\ (a < 2 ^ N.of_nat (width v6))%N.
Definition valid_pool (p : pool) : Prop :=
  match p_cidr p with Some c => valid_raw c | None => True end.
Definition wfk (k : kcidr) : Prop := wfp (width (fst k)) (snd k).

Lemma norm_wf : forall c, valid_raw c -> wfk (norm c).
Proof.
  intros [[v6 a] l] [H1 H2]. unfold wfk, norm, wfp. simpl. repeat split; auto.
  - apply mask_lt. exact H2.
  - apply mask_mask.
Qed.

(* ---- overlap over the stored map *)
Lemma overlaps_sym : forall w p q, overlaps w p q = overlaps w q p.
Proof. intros. unfold overlaps. apply orb_comm. Qed.

Lemma spec_overlaps_insert : forall w c v m q,
  TS.spec_overlaps w (TS.m_insert c v m) q = overlaps w c q || TS.spec_overlaps w m q.
Proof.
  intros w c v m q. unfold TS.spec_overlaps. induction m as [|[k x] m IH]; simpl.
  - reflexivity.
  - destruct (prefix_eqb k c) eqn:E.
    + apply prefix_eqb_eq in E. subst k. simpl.
      destruct (overlaps w c q); reflexivity.
    + destruct (prefix_ltb c k); simpl.
      * reflexivity.
      * rewrite IH. destruct (overlaps w k q), (overlaps w c q); reflexivity.
Qed.

(* the controller's three-way test is "some stored prefix overlaps the query" *)
Lemma test_is_overlap : forall w t q, TP.wf w t -> wfp w q ->
  match T.get w t q with Some _ => true | None => false end || T.tintersects w t q || T.tcovers w t q
  = TS.spec_overlaps w (T.to_slice t) q.
Proof.
  intros w t q W Hq.
  rewrite (TQ.get_spec w t q W Hq), (TQ.covers_spec_trie w q Hq t W), (TQ.intersects_spec_trie w q Hq t W).
  assert (E : TS.spec_intersects w (T.to_slice t) q || TS.spec_covers w (T.to_slice t) q
              = TS.spec_overlaps w (T.to_slice t) q).
  { unfold TS.spec_covers, TS.spec_intersects, TS.spec_overlaps, overlaps.
    induction (T.to_slice t) as [|e m IH]; simpl; auto. rewrite <- IH.
    destruct (covers w (fst e) q), (covers w q (fst e)),
             (existsb (fun e0 => covers w q (fst e0)) m), (existsb (fun e0 => covers w (fst e0) q) m); reflexivity. }
  unfold TS.m_get. destruct (find (fun e => prefix_eqb (fst e) q) (T.to_slice t)) as [e|] eqn:F.
  - (* stored exactly: it overlaps itself *)
    apply find_some in F. destruct F as [I Pe]. apply prefix_eqb_eq in Pe.
    simpl. symmetry. unfold TS.spec_overlaps. apply existsb_exists. exists e. split; auto.
    rewrite Pe. unfold overlaps. rewrite covers_refl; auto.
  - simpl. exact E.
Qed.

(* ---- the representation relation between the two tries and the list of stored CIDRs *)
Definition rep (ts : tries) (l : trie) : Prop :=
  TP.wf 32 (t4 ts) /\ TP.wf 128 (t6 ts) /\
  forall q, wfk q ->
    TS.spec_overlaps (width (fst q)) (T.to_slice (tsel ts (fst q))) (snd q) = trie_overlaps l q.

Lemma rep_empty : rep (mkTries T.Leaf T.Leaf) [].
Proof. repeat split; simpl; auto. intros [[|] q] _; reflexivity. Qed.

Lemma rep_test : forall ts l k, rep ts l -> wfk k -> ttest ts k = trie_overlaps l k.
Proof.
  intros ts l k (W4 & W6 & R) Hk. unfold ttest. rewrite <- (R k Hk).
  destruct k as [[|] q]; simpl in *; apply test_is_overlap; auto.
Qed.

Lemma rep_update : forall ts l k, rep ts l -> wfk k -> rep (tupd ts k) (k :: l).
Proof.
  intros ts l [v6 c] (W4 & W6 & R) Hk. unfold wfk in Hk. simpl in Hk.
  assert (Same : forall q, trie_overlaps ((v6, c) :: l) (v6, q)
                     = overlaps (width v6) c q || trie_overlaps l (v6, q)).
  { intros q. unfold trie_overlaps. cbn [existsb]. unfold cidr_overlap at 1. cbn [fst snd].
    rewrite Bool.eqb_reflx. cbn [andb]. rewrite overlaps_sym. reflexivity. }
  assert (Other : forall q, trie_overlaps ((v6, c) :: l) (negb v6, q) = trie_overlaps l (negb v6, q)).
  { intros q. unfold trie_overlaps. cbn [existsb]. unfold cidr_overlap at 1. cbn [fst snd].
    destruct v6; reflexivity. }
  destruct v6; unfold tupd; cbn [fst snd].
  - destruct (TP.update_spec 128 0%N c Hk (t6 ts) W6) as (Wn & Sl & _).
    repeat split; auto. intros [[|] q] Hq; cbn [fst snd width tsel t4 t6].
    + rewrite Sl, spec_overlaps_insert. pose proof (R (true, q) Hq) as Rq. cbn [fst snd width tsel] in Rq.
      rewrite Rq. symmetry. apply (Same q).
    + pose proof (R (false, q) Hq) as Rq. cbn [fst snd width tsel] in Rq. rewrite Rq. symmetry. apply (Other q).
  - destruct (TP.update_spec 32 0%N c Hk (t4 ts) W4) as (Wn & Sl & _).
    repeat split; auto. intros [[|] q] Hq; cbn [fst snd width tsel t4 t6].
    + pose proof (R (true, q) Hq) as Rq. cbn [fst snd width tsel] in Rq. rewrite Rq. symmetry. apply (Other q).
    + rewrite Sl, spec_overlaps_insert. pose proof (R (false, q) Hq) as Rq. cbn [fst snd width tsel] in Rq.
      rewrite Rq. symmetry. apply (Same q).
Qed.

Lemma decide_t_decide : forall tf ts l p, rep ts l -> valid_pool p ->
  fst (decide_t tf ts p) = fst (decide tf l p) /\ rep (snd (decide_t tf ts p)) (snd (decide tf l p)).
Proof.
  intros tf ts l p R V. unfold decide_t, decide, valid_pool, pcidr in *.
  destruct (p_cidr p) as [c|]; simpl; auto.
  pose proof (norm_wf c V) as Hk.
  rewrite (rep_test ts l (norm c) R Hk).
  destruct (if tf then p_deleting p else false); simpl; [split; auto using rep_update|].
  destruct (p_disabled p); simpl; auto.
  destruct (p_deleting p); simpl; [split; auto using rep_update|].
  destruct (trie_overlaps l (norm c)); simpl; auto using rep_update.
Qed.

Lemma pass_t_pass : forall tf ps ts l, rep ts l -> Forall valid_pool ps -> pass_t tf ts ps = pass tf l ps.
Proof.
  induction ps as [|p ps IH]; intros ts l R V; simpl; auto.
  inversion V; subst.
  destruct (decide_t_decide tf ts l p R) as [E1 E2]; auto.
  destruct (decide_t tf ts p) as [d ts'], (decide tf l p) as [d' l']. simpl in *. subst d'.
  f_equal. apply IH; auto.
Qed.

Lemma sort_Forall : forall (P : pool -> Prop) l, Forall P l -> Forall P (sort_pools l).
Proof.
  intros P l. induction l as [|p l IH]; simpl; intros H; auto.
  inversion H; subst. specialize (IH H3).
  generalize dependent (sort_pools l). intros s. induction s as [|q s IHs]; simpl; intros Hs.
  - constructor; auto.
  - inversion Hs; subst. destruct (pool_leb p q); constructor; auto.
Qed.

Theorem trie_pass_is_list_pass : forall tf pools, Forall valid_pool pools ->
  reconcile_conditions_t tf pools = reconcile_conditions tf pools.
Proof.
  intros tf pools V. unfold reconcile_conditions_t, reconcile_conditions.
  apply pass_t_pass. { apply rep_empty. } apply sort_Forall. exact V.
Qed.
