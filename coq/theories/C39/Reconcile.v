(* C39 — the four parts of the property for ONE reconcile over an arbitrary set of pools and
   blocks, and: the specification oracle accepts every run of the model. *)
From Coq Require Import List NArith Arith Bool Lia Sorting.Permutation Sorting.Sorted.
From Verif.Common Require Import Prefix.
From Verif.C39 Require Import Model Spec Order Proofs.
Import ListNotations.

Definition post_of (tf : bool) (pools : list pool) (blocks : list rawcidr) : list pool :=
  ro_pools (reconcile tf pools blocks).

Lemma post_In : forall tf pools blocks p', In p' (post_of tf pools blocks) ->
  exists x, In x (outcome tf pools) /\ p' = final blocks x.
Proof.
  intros tf pools blocks p' H. unfold post_of in H. rewrite reconcile_pools in H.
  apply in_map_iff in H. destruct H as (x & E & I). eauto.
Qed.

Lemma pools_overlap_sym : forall a b, pools_overlap a b = pools_overlap b a.
Proof.
  intros a b. unfold pools_overlap. destruct (pcidr a), (pcidr b); auto. apply cidr_overlap_sym.
Qed.

Lemma pools_overlap_parse : forall a b, pools_overlap a b = true ->
  exists ka kb, pcidr a = Some ka /\ pcidr b = Some kb /\ cidr_overlap ka kb = true.
Proof.
  intros a b H. unfold pools_overlap in H. destruct (pcidr a) as [ka|], (pcidr b) as [kb|]; try discriminate. eauto.
Qed.

(* (1) *)
Lemma no_two_allocatable_overlap : forall tf pools blocks p q,
  In p (post_of tf pools blocks) -> In q (post_of tf pools blocks) ->
  p_name p <> p_name q -> allocatable p = true -> allocatable q = true ->
  pools_overlap p q = false.
Proof.
  intros tf pools blocks p q Hp Hq Nn Ap Aq.
  apply post_In in Hp. destruct Hp as (x & Ix & Ep). apply post_In in Hq. destruct Hq as (y & Iy & Eq).
  subst p q. destruct (pools_overlap (final blocks x) (final blocks y)) eqn:O; auto. exfalso.
  apply pools_overlap_parse in O. destruct O as (ka & kb & Ha & Hb & O).
  rewrite final_pcidr in Ha, Hb.
  assert (Nxy : x <> y) by (intros E; subst; apply Nn; reflexivity).
  destruct x as [a da], y as [b db]. simpl in Ha, Hb.
  destruct (dec_list_decided _ _ _ _ _ Ix) as (t1 & E1). destruct (dec_list_decided _ _ _ _ _ Iy) as (t2 & E2).
  assert (Da : da = DActive) by (subst da; eapply final_allocatable; eauto).
  assert (Db : db = DActive) by (subst db; eapply final_allocatable; eauto).
  destruct (dec_list_active_disjoint tf (sort_pools pools) []) as [_ P].
  destruct (ForallOrdPairs_In P _ _ Ix Iy) as [E|[R|R]]; [congruence| |].
  - specialize (R Da Db ka kb Ha Hb). rewrite cidr_overlap_sym in R. congruence.
  - specialize (R Db Da kb ka Hb Ha). congruence.
Qed.

(* (2), general form *)
Lemma incumbent_only_loses_to_incumbent : forall tf pools blocks p,
  NoDup (map p_name pools) -> In p pools -> incumbent p = true ->
  after (post_of tf pools blocks) allocatable p = true
  \/ exists q, In q pools /\ p_name q <> p_name p /\ incumbent q = true /\ pools_overlap p q = true
               /\ after (post_of tf pools blocks) allocatable q = true.
Proof.
  intros tf pools blocks p ND Ip Inc. unfold post_of.
  destruct (outcome_In tf pools p Ip) as (d & Id).
  rewrite (after_outcome tf pools blocks p d allocatable ND Id).
  pose proof Inc as Inc'. apply incumbent_spec in Inc'. destruct Inc' as (_ & _ & k & Hk).
  destruct (dec_list_decided _ _ _ _ _ Id) as (t1 & E1).
  destruct (dec_list_incumbent tf (sort_pools pools) [] (sort_cat_sorted pools) (sort_names_NoDup pools ND) p d Id Inc)
    as [A|[(k0 & ka & I & _)|(q & Iq & Nq & Incq & Oq)]].
  - left. subst d. eapply final_allocatable; eauto.
  - contradiction.
  - right. exists q. repeat split; auto.
    + eapply outcome_In_inv. exact Iq.
    + rewrite (after_outcome tf pools blocks q DActive allocatable ND Iq).
      destruct (dec_list_decided _ _ _ _ _ Iq) as (t2 & E2).
      apply incumbent_spec in Incq. destruct Incq as (_ & _ & kq & Hq).
      rewrite E2. eapply final_allocatable; eauto.
Qed.

(* (2) as the property states it: with no two incumbents overlapping, every incumbent stays
   allocatable (and keeps / gets the finalizer) whatever newer pools overlap it *)
Lemma incumbent_kept : forall tf pools blocks,
  NoDup (map p_name pools) ->
  (forall a b, In a pools -> In b pools -> p_name a <> p_name b ->
               incumbent a = true -> incumbent b = true -> pools_overlap a b = false) ->
  forall p, In p pools -> incumbent p = true ->
    after (post_of tf pools blocks) allocatable p = true /\ after (post_of tf pools blocks) p_fin p = true.
Proof.
  intros tf pools blocks ND Pair p Ip Inc.
  assert (A : after (post_of tf pools blocks) allocatable p = true).
  { destruct (incumbent_only_loses_to_incumbent tf pools blocks p ND Ip Inc) as [A|(q & Iq & Nq & Incq & Oq & _)]; auto.
    rewrite (Pair p q Ip Iq) in Oq; auto; discriminate. }
  split; auto.
  unfold post_of in *. destruct (outcome_In tf pools p Ip) as (d & Id).
  rewrite (after_outcome tf pools blocks p d allocatable ND Id) in A.
  rewrite (after_outcome tf pools blocks p d p_fin ND Id).
  rewrite (final_fin_in_service blocks (p, d)).
  - rewrite allocatable_not_false; auto.
  - simpl. apply incumbent_spec in Inc. destruct Inc as (C & _). apply category_0 in C. tauto.
Qed.

(* (3) *)
Lemma terminating_masks : forall tf pools blocks T p,
  NoDup (map p_name pools) -> In T pools -> In p pools -> p_name p <> p_name T ->
  p_deleting T = true -> (tf = true \/ p_disabled T = false) ->
  pools_overlap T p = true ->
  after (post_of tf pools blocks) allocatable p = true ->
  allocatable p = true /\ p_deleting p = false.
Proof.
  intros tf pools blocks T p ND IT Ip Nn Del M O A. unfold post_of in A.
  destruct (outcome_In tf pools p Ip) as (d & Id).
  rewrite (after_outcome tf pools blocks p d allocatable ND Id) in A.
  apply pools_overlap_parse in O. destruct O as (kT & kp & HT & Hp & O).
  destruct (dec_list_decided _ _ _ _ _ Id) as (t1 & E1).
  assert (Dp : d = DActive) by (subst d; eapply final_allocatable; eauto). subst d. rewrite Dp in Id.
  apply category_0.
  eapply (dec_list_masked tf (sort_pools pools) [] T kT); eauto.
  - apply sort_cat_sorted.
  - apply sort_names_NoDup; auto.
  - split; auto.
  - left. apply sort_In. exact IT.
  - rewrite cidr_overlap_sym. exact O.
Qed.

(* (4) *)
Lemma no_delete_with_blocks : forall tf pools blocks p,
  NoDup (map p_name pools) -> In p pools ->
  p_deleting p = true -> p_fin p = true -> has_block p blocks = true ->
  after (post_of tf pools blocks) p_fin p = true /\ after (post_of tf pools blocks) still_there p = true.
Proof.
  intros tf pools blocks p ND Ip D Fi HB. unfold post_of.
  destruct (outcome_In tf pools p Ip) as (d & Id).
  rewrite !(after_outcome tf pools blocks p d _ ND Id).
  assert (exists k, pcidr p = Some k) as (k & Hk).
  { unfold has_block in HB. destruct (pcidr p); eauto; discriminate. }
  assert (F : p_fin (final blocks (p, d)) = true).
  { eapply final_fin_held; eauto. eapply covers_blocks_in; eauto. }
  split; auto. unfold still_there, gone. rewrite F. rewrite andb_false_r. reflexivity.
Qed.

Lemma allocatable_has_finalizer : forall tf pools blocks p,
  NoDup (map p_name pools) -> In p pools ->
  after (post_of tf pools blocks) (fun q => allocatable q && negb (p_deleting q)) p = true ->
  after (post_of tf pools blocks) p_fin p = true.
Proof.
  intros tf pools blocks p ND Ip H. unfold post_of in *.
  destruct (outcome_In tf pools p Ip) as (d & Id).
  rewrite (after_outcome tf pools blocks p d _ ND Id) in H.
  rewrite (after_outcome tf pools blocks p d p_fin ND Id).
  apply andb_true_iff in H. destruct H as [A D]. apply negb_true_iff in D.
  rewrite final_deleting in D. rewrite (final_fin_in_service blocks (p, d) D).
  rewrite allocatable_not_false; auto.
Qed.

(* a terminating pool protected by the finalizer whose CIDR cannot be read is kept as well *)
Lemma no_delete_unreadable : forall tf pools blocks p,
  NoDup (map p_name pools) -> In p pools ->
  p_deleting p = true -> p_fin p = true -> pcidr p = None ->
  after (post_of tf pools blocks) p_fin p = true.
Proof.
  intros tf pools blocks p ND Ip D Fi Hk. unfold post_of.
  destruct (outcome_In tf pools p Ip) as (d & Id).
  rewrite (after_outcome tf pools blocks p d _ ND Id). apply final_fin_unreadable; auto.
Qed.

(* ---- the oracle accepts the model *)
Lemma same_name_false : forall p q, same_name p q = false <-> p_name p <> p_name q.
Proof. intros. unfold same_name. apply name_eqb_neq. Qed.

Lemma after_exists : forall tf pools blocks p, NoDup (map p_name pools) -> In p pools ->
  after (post_of tf pools blocks) (fun _ => true) p = true.
Proof.
  intros tf pools blocks p ND Ip. unfold post_of. destruct (outcome_In tf pools p Ip) as (d & Id).
  rewrite (after_outcome tf pools blocks p d _ ND Id). reflexivity.
Qed.

Lemma post_length : forall tf pools blocks, length (post_of tf pools blocks) = length pools.
Proof.
  intros. unfold post_of. rewrite reconcile_pools, map_length.
  unfold outcome. rewrite <- (map_length fst), dec_list_fst.
  symmetry. apply Permutation_length. apply sort_perm.
Qed.

Lemma model_ok_same_pools : forall tf pools blocks, NoDup (map p_name pools) ->
  ok_same_pools pools (post_of tf pools blocks) = true.
Proof.
  intros tf pools blocks ND. unfold ok_same_pools. rewrite post_length, Nat.eqb_refl. simpl.
  apply forallb_forall. intros p Ip. apply after_exists; auto.
Qed.

Lemma model_ok_no_overlap : forall tf pools blocks, ok_no_overlap (post_of tf pools blocks) = true.
Proof.
  intros tf pools blocks. unfold ok_no_overlap.
  apply forallb_forall. intros p Ip. apply forallb_forall. intros q Iq.
  destruct (same_name p q) eqn:N; simpl; auto.
  destruct (allocatable p) eqn:Ap; simpl; auto. destruct (allocatable q) eqn:Aq; simpl; auto.
  apply same_name_false in N. rewrite (no_two_allocatable_overlap tf pools blocks p q); auto.
Qed.

Lemma model_ok_incumbent : forall tf pools blocks, NoDup (map p_name pools) ->
  ok_incumbent pools (post_of tf pools blocks) = true.
Proof.
  intros tf pools blocks ND. unfold ok_incumbent. apply forallb_forall. intros p Ip.
  destruct (incumbent p) eqn:Inc; simpl; auto.
  destruct (incumbent_only_loses_to_incumbent tf pools blocks p ND Ip Inc) as [A|(q & Iq & Nq & Incq & Oq & Aq)].
  - rewrite A. reflexivity.
  - apply orb_true_iff. right. apply existsb_exists. exists q. split; auto.
    rewrite Incq, Oq, Aq. assert (same_name p q = false) as ->; auto.
    apply same_name_false. congruence.
Qed.

Lemma model_ok_term_masks : forall tf pools blocks, NoDup (map p_name pools) ->
  (tf = true \/ forall p, In p pools -> p_deleting p = true -> p_disabled p = false) ->
  ok_term_masks pools (post_of tf pools blocks) = true.
Proof.
  intros tf pools blocks ND M. unfold ok_term_masks. apply forallb_forall. intros T IT.
  destruct (p_deleting T) eqn:D; simpl; auto.
  destruct (after (post_of tf pools blocks) still_there T); simpl; auto.
  apply forallb_forall. intros p Ip.
  destruct (same_name T p) eqn:N; simpl; auto.
  destruct (pools_overlap T p) eqn:O; simpl; auto.
  destruct (after (post_of tf pools blocks) allocatable p) eqn:A; simpl; auto.
  apply same_name_false in N.
  destruct (terminating_masks tf pools blocks T p ND IT Ip) as [A1 A2]; auto.
  - destruct M as [M|M]; auto.
Qed.

Lemma model_ok_finalizers : forall tf pools blocks, NoDup (map p_name pools) ->
  ok_finalizers pools blocks (post_of tf pools blocks) = true.
Proof.
  intros tf pools blocks ND. unfold ok_finalizers. apply forallb_forall. intros p Ip.
  apply andb_true_iff. split.
  - destruct (p_deleting p) eqn:D; simpl; auto. destruct (p_fin p) eqn:Fi; simpl; auto.
    destruct (has_block p blocks) eqn:HB; simpl; auto.
    apply (no_delete_with_blocks tf pools blocks p ND Ip D Fi HB).
  - destruct (after (post_of tf pools blocks) (fun q => allocatable q && negb (p_deleting q)) p) eqn:A; simpl; auto.
    apply allocatable_has_finalizer; auto.
Qed.

Lemma model_meets_spec : forall tf pools blocks, NoDup (map p_name pools) ->
  (tf = true \/ forall p, In p pools -> p_deleting p = true -> p_disabled p = false) ->
  ok_round pools blocks (ro_pools (reconcile tf pools blocks)) = true.
Proof.
  intros tf pools blocks ND M.
  pose proof (model_ok_same_pools tf pools blocks ND) as H1.
  pose proof (model_ok_no_overlap tf pools blocks) as H2.
  pose proof (model_ok_incumbent tf pools blocks ND) as H3.
  pose proof (model_ok_term_masks tf pools blocks ND M) as H4.
  pose proof (model_ok_finalizers tf pools blocks ND) as H5.
  unfold post_of in *. unfold ok_round. rewrite H1, H2, H3, H4, H5. reflexivity.
Qed.

(* everything except part (3) holds of the pinned tree's order as well *)
Lemma model_meets_spec_but_masking : forall tf pools blocks, NoDup (map p_name pools) ->
  let post := ro_pools (reconcile tf pools blocks) in
  ok_same_pools pools post && ok_no_overlap post && ok_incumbent pools post && ok_finalizers pools blocks post = true.
Proof.
  intros tf pools blocks ND.
  pose proof (model_ok_same_pools tf pools blocks ND) as H1.
  pose proof (model_ok_no_overlap tf pools blocks) as H2.
  pose proof (model_ok_incumbent tf pools blocks ND) as H3.
  pose proof (model_ok_finalizers tf pools blocks ND) as H5.
  unfold post_of in *. cbv zeta. rewrite H1, H2, H3, H5. reflexivity.
Qed.

(* ---- the pinned order does not satisfy (3) when a pool is both disabled and terminating *)
Open Scope N_scope.
Definition w_a : pool :=   (* 10.0.0.0/24, was allocatable, delete requested, then disabled; its block 10.0.0.64/26 remains *)
  mkPool [97] 1 (Some (false, 167772160, 24%nat)) true true (Some (SFalse, RTerminating)) true false.
Definition w_b : pool :=   (* 10.0.0.0/25, newer, so far masked *)
  mkPool [98] 2 (Some (false, 167772160, 25%nat)) false false (Some (SFalse, ROverlap)) false false.
Definition w_blocks : list rawcidr := [Some (false, 167772224, 26%nat)].

Lemma terminating_masks_refuted_pinned :
  exists pools blocks T p,
    NoDup (map p_name pools) /\ In T pools /\ In p pools /\ p_name p <> p_name T /\
    p_deleting T = true /\ p_fin T = true /\ has_block T blocks = true /\ pools_overlap T p = true /\
    allocatable p = false /\
    after (post_of false pools blocks) still_there T = true /\
    after (post_of false pools blocks) allocatable p = true /\
    ok_round pools blocks (post_of false pools blocks) = false.
Proof.
  exists [w_a; w_b], w_blocks, w_a, w_b.
  repeat split; try (vm_compute; reflexivity).
  - repeat constructor; simpl; intuition discriminate.
  - left; reflexivity.
  - right; left; reflexivity.
  - vm_compute. discriminate.
Qed.

(* with the repaired order the same configuration keeps b masked *)
Lemma terminating_masks_witness_fixed :
  after (post_of true [w_a; w_b] w_blocks) allocatable w_b = false
  /\ ok_round [w_a; w_b] w_blocks (post_of true [w_a; w_b] w_blocks) = true.
Proof. split; vm_compute; reflexivity. Qed.
