(* C39 — poolSortFunc is a total order on pools with distinct names; insertion sort returns the
   sorted permutation, which is the only sorted permutation (so any correct sort, such as the
   pdqsort behind slices.SortFunc, returns the same list). *)
From Coq Require Import List NArith Arith Bool Lia Sorting.Permutation Sorting.Sorted.
From Verif.C39 Require Import Model.
Import ListNotations.

(* ---- strings.Compare *)
Lemma lex_compare_eq : forall a b, lex_compare a b = Eq <-> a = b.
Proof.
  induction a as [|x a IH]; intros [|y b]; simpl; split; intros H; try reflexivity; try discriminate.
  - destruct (N.compare x y) eqn:E; try discriminate.
    apply N.compare_eq in E. apply IH in H. subst. reflexivity.
  - inversion H; subst. rewrite N.compare_refl. apply IH. reflexivity.
Qed.

Lemma lex_compare_refl : forall a, lex_compare a a = Eq.
Proof. intros; apply lex_compare_eq; reflexivity. Qed.

Lemma lex_compare_antisym : forall a b, lex_compare b a = CompOpp (lex_compare a b).
Proof.
  induction a as [|x a IH]; intros [|y b]; simpl; auto.
  rewrite (N.compare_antisym x y). destruct (N.compare x y); simpl; auto.
Qed.

Lemma lex_compare_lt_trans : forall a b c,
  lex_compare a b = Lt -> lex_compare b c = Lt -> lex_compare a c = Lt.
Proof.
  induction a as [|x a IH]; intros [|y b] [|z c]; simpl; intros H1 H2; try discriminate; auto.
  destruct (N.compare x y) eqn:E1; try discriminate.
  - apply N.compare_eq in E1; subst y.
    destruct (N.compare x z) eqn:E2; try discriminate; auto. eapply IH; eauto.
  - destruct (N.compare y z) eqn:E2; try discriminate.
    + apply N.compare_eq in E2; subst z. rewrite E1. reflexivity.
    + rewrite N.compare_lt_iff in *. assert (x < z)%N by lia.
      apply N.compare_lt_iff in H. rewrite H. reflexivity.
Qed.

Lemma name_eqb_eq : forall a b, name_eqb a b = true <-> a = b.
Proof.
  intros a b. unfold name_eqb. rewrite <- lex_compare_eq.
  destruct (lex_compare a b); split; intros; congruence.
Qed.

Lemma name_eqb_refl : forall a, name_eqb a a = true.
Proof. intros; apply name_eqb_eq; reflexivity. Qed.

Lemma name_eqb_neq : forall a b, name_eqb a b = false <-> a <> b.
Proof.
  intros a b. destruct (name_eqb a b) eqn:E.
  - apply name_eqb_eq in E. split; [discriminate | contradiction].
  - split; auto. intros _ H. apply name_eqb_eq in H. congruence.
Qed.

(* ---- a generic lexicographic key: (category, creation time, name) *)
Lemma pool_compare_eq : forall a b, pool_compare a b = Eq ->
  category a = category b /\ p_created a = p_created b /\ p_name a = p_name b.
Proof.
  intros a b. unfold pool_compare.
  destruct (Nat.compare (category a) (category b)) eqn:E1; try discriminate.
  destruct (N.compare (p_created a) (p_created b)) eqn:E2; try discriminate.
  intros H. apply Nat.compare_eq in E1. apply N.compare_eq in E2. apply lex_compare_eq in H. auto.
Qed.

Lemma pool_compare_antisym : forall a b, pool_compare b a = CompOpp (pool_compare a b).
Proof.
  intros a b. unfold pool_compare.
  rewrite (Nat.compare_antisym (category a) (category b)).
  destruct (Nat.compare (category a) (category b)); simpl; auto.
  rewrite (N.compare_antisym (p_created a) (p_created b)).
  destruct (N.compare (p_created a) (p_created b)); simpl; auto.
  apply lex_compare_antisym.
Qed.

Lemma pool_compare_lt_trans : forall a b c,
  pool_compare a b = Lt -> pool_compare b c = Lt -> pool_compare a c = Lt.
Proof.
  intros a b c. unfold pool_compare.
  destruct (Nat.compare (category a) (category b)) eqn:A1; try discriminate;
  destruct (Nat.compare (category b) (category c)) eqn:A2; try discriminate;
  try apply Nat.compare_eq in A1; try apply Nat.compare_eq in A2;
  try rewrite Nat.compare_lt_iff in *.
  - rewrite A1, A2. rewrite Nat.compare_refl.
    destruct (N.compare (p_created a) (p_created b)) eqn:B1; try discriminate;
    destruct (N.compare (p_created b) (p_created c)) eqn:B2; try discriminate;
    try apply N.compare_eq in B1; try apply N.compare_eq in B2;
    try rewrite N.compare_lt_iff in *.
    + rewrite B1, B2, N.compare_refl. apply lex_compare_lt_trans.
    + intros H _. rewrite B1. apply N.compare_lt_iff in B2. rewrite B2. reflexivity.
    + intros _ H. rewrite <- B2. apply N.compare_lt_iff in B1. rewrite B1. reflexivity.
    + intros _ _. assert (H : (p_created a < p_created c)%N) by lia.
      apply N.compare_lt_iff in H. rewrite H. reflexivity.
  - intros _ _. rewrite A1. apply Nat.compare_lt_iff in A2. rewrite A2. reflexivity.
  - intros _ _. rewrite <- A2. apply Nat.compare_lt_iff in A1. rewrite A1. reflexivity.
  - intros _ _. assert (H : category a < category c) by lia.
    apply Nat.compare_lt_iff in H. rewrite H. reflexivity.
Qed.

Definition ple (a b : pool) : Prop := pool_leb a b = true.

Lemma ple_total : forall a b, ple a b \/ ple b a.
Proof.
  intros a b. unfold ple, pool_leb. rewrite (pool_compare_antisym a b).
  destruct (pool_compare a b); simpl; auto.
Qed.

Lemma pool_leb_false : forall a b, pool_leb a b = false -> ple b a.
Proof. intros a b H. destruct (ple_total a b) as [H1|H1]; auto. unfold ple in H1. congruence. Qed.

Lemma ple_trans : forall a b c, ple a b -> ple b c -> ple a c.
Proof.
  intros a b c. unfold ple, pool_leb.
  destruct (pool_compare a b) eqn:E1; try discriminate;
  destruct (pool_compare b c) eqn:E2; try discriminate; intros _ _.
  - apply pool_compare_eq in E1. apply pool_compare_eq in E2.
    destruct E1 as (A1 & A2 & A3), E2 as (B1 & B2 & B3).
    unfold pool_compare. rewrite A1, B1, A2, B2, A3, B3.
    rewrite Nat.compare_refl, N.compare_refl, lex_compare_refl. reflexivity.
  - apply pool_compare_eq in E1. destruct E1 as (A1 & A2 & A3).
    unfold pool_compare in *. rewrite A1, A2, A3. rewrite E2. reflexivity.
  - apply pool_compare_eq in E2. destruct E2 as (A1 & A2 & A3).
    unfold pool_compare in *. rewrite <- A1, <- A2, <- A3. rewrite E1. reflexivity.
  - rewrite (pool_compare_lt_trans _ _ _ E1 E2). reflexivity.
Qed.

Lemma ple_antisym_name : forall a b, ple a b -> ple b a -> p_name a = p_name b.
Proof.
  intros a b. unfold ple, pool_leb. rewrite (pool_compare_antisym a b).
  destruct (pool_compare a b) eqn:E; simpl; try discriminate.
  intros _ _. apply pool_compare_eq in E. tauto.
Qed.

Lemma ple_category : forall a b, ple a b -> category a <= category b.
Proof.
  intros a b. unfold ple, pool_leb, pool_compare.
  destruct (Nat.compare (category a) (category b)) eqn:E.
  - apply Nat.compare_eq in E. lia.
  - apply Nat.compare_lt_iff in E. lia.
  - discriminate.
Qed.

(* ---- insertion sort *)
Lemma insert_perm : forall p l, Permutation (p :: l) (insert_pool p l).
Proof.
  intros p l. induction l as [|q l IH]; simpl; auto.
  destruct (pool_leb p q); auto.
  eapply perm_trans; [apply perm_swap|]. apply perm_skip. exact IH.
Qed.

Lemma sort_perm : forall l, Permutation l (sort_pools l).
Proof.
  induction l as [|p l IH]; simpl; auto.
  eapply perm_trans; [apply perm_skip; exact IH|]. apply insert_perm.
Qed.

Lemma insert_sorted : forall p l, StronglySorted ple l -> StronglySorted ple (insert_pool p l).
Proof.
  intros p l H. induction H as [|q l Hs IH Hq]; simpl.
  - constructor; constructor.
  - destruct (pool_leb p q) eqn:E.
    + constructor. { constructor; auto. }
      constructor; auto.
      eapply Forall_impl; [|exact Hq]. intros c Hc. eapply ple_trans; eauto.
    + constructor; auto.
      apply pool_leb_false in E.
      eapply Permutation_Forall; [apply insert_perm|]. constructor; auto.
Qed.

Lemma sort_sorted : forall l, StronglySorted ple (sort_pools l).
Proof.
  induction l as [|p l IH]; simpl. { constructor. }
  apply insert_sorted. exact IH.
Qed.

Lemma sort_In : forall l p, In p (sort_pools l) <-> In p l.
Proof.
  intros l p. split; intros H.
  - eapply Permutation_in; [apply Permutation_sym, sort_perm|]. exact H.
  - eapply Permutation_in; [apply sort_perm|]. exact H.
Qed.

Lemma sort_names_NoDup : forall l, NoDup (map p_name l) -> NoDup (map p_name (sort_pools l)).
Proof.
  intros l H. eapply Permutation_NoDup; [|exact H]. apply Permutation_map. apply sort_perm.
Qed.

(* the category is non-decreasing along the sorted list *)
Definition cat_le (a b : pool) : Prop := category a <= category b.
Lemma sort_cat_sorted : forall l, StronglySorted cat_le (sort_pools l).
Proof.
  intros l. generalize (sort_sorted l). generalize (sort_pools l). clear l.
  intros l H. induction H as [|q l Hs IH Hq]; constructor; auto.
  eapply Forall_impl; [|exact Hq]. intros c Hc. apply ple_category. exact Hc.
Qed.

(* uniqueness of the sorted permutation when names are distinct *)
Lemma sorted_perm_unique : forall l1 l2,
  NoDup (map p_name l1) -> Permutation l1 l2 ->
  StronglySorted ple l1 -> StronglySorted ple l2 -> l1 = l2.
Proof.
  induction l1 as [|a l1 IH]; intros l2 ND P S1 S2.
  - apply Permutation_nil in P. auto.
  - destruct l2 as [|b l2]. { apply Permutation_sym, Permutation_nil in P. discriminate. }
    inversion S1 as [|? ? S1' F1]; subst. inversion S2 as [|? ? S2' F2]; subst.
    assert (Hab : a = b).
    { assert (Ia : In a (b :: l2)) by (eapply Permutation_in; [exact P|left; reflexivity]).
      assert (Ib : In b (a :: l1)) by (eapply Permutation_in; [apply Permutation_sym; exact P|left; reflexivity]).
      destruct Ia as [Ia|Ia]; auto. destruct Ib as [Ib|Ib]; auto.
      rewrite Forall_forall in F1, F2.
      pose proof (ple_antisym_name _ _ (F1 _ Ib) (F2 _ Ia)) as Hn.
      (* b is in l1 and has a's name: contradicts NoDup *)
      simpl in ND. inversion ND as [|? ? Hnotin _]; subst.
      exfalso. apply Hnotin. rewrite Hn. apply in_map. exact Ib. }
    subst b. f_equal. apply IH; auto.
    + simpl in ND. inversion ND; auto.
    + eapply Permutation_cons_inv. exact P.
Qed.

Lemma sort_unique : forall l l', NoDup (map p_name l) ->
  Permutation l l' -> StronglySorted ple l' -> l' = sort_pools l.
Proof.
  intros l l' ND P S. symmetry. apply sorted_perm_unique.
  - apply sort_names_NoDup; auto.
  - eapply perm_trans; [apply Permutation_sym, sort_perm|]. exact P.
  - apply sort_sorted.
  - exact S.
Qed.
