(* C06 — every AST the parser returns is well-formed (labels are identifiers, values never contain
   both quotes, sets strictly sorted, and/or nodes have at least two operands). *)
From Coq Require Import List NArith Bool Arith Lia.
From Verif.Common Require Import Labels.
From Verif.C06 Require Import Model Spec TokProofs.
Import ListNotations.
Open Scope N_scope.
Local Arguments N.eqb : simpl never.

(* ------------------------------------------------------------------ tokenizer invariant *)

Lemma span_ident_all : forall s i r, span_ident s = (i, r) -> forallb ident_char i = true.
Proof.
  induction s; simpl; intros i r H.
  - inversion H; reflexivity.
  - destruct (ident_char a) eqn:E.
    + destruct (span_ident s) as [i' r'] eqn:E2. inversion H; subst. simpl. rewrite E. eauto.
    + inversion H; reflexivity.
Qed.

Lemma cut_identifier_valid : forall s i r, cut_identifier s = Some (i, r) -> valid_label i = true.
Proof.
  intros s i r H. unfold cut_identifier in H. destruct (span_ident s) as [i' r'] eqn:E.
  destruct (Nat.eqb (length i') 0) eqn:E1; [discriminate|]. simpl in H.
  destruct (Nat.ltb max_label_length (length i')) eqn:E2; [discriminate|]. inversion H; subst.
  unfold valid_label. rewrite E1. rewrite (span_ident_all _ _ _ E). simpl.
  apply Nat.leb_le. apply Nat.ltb_ge in E2. exact E2.
Qed.

Lemma split_at_value_ok : forall q s v r, q = 34 \/ q = 39 -> split_at q s = Some (v, r) -> value_ok v = true.
Proof.
  intros q s v r Hq H. apply split_at_spec in H. destruct H as [_ Hn].
  unfold value_ok. destruct Hq; subst.
  - destruct (existsb (N.eqb 34) v) eqn:E; [apply existsb_eqb_In in E; contradiction|reflexivity].
  - destruct (existsb (N.eqb 39) v) eqn:E; [apply existsb_eqb_In in E; contradiction|].
    rewrite andb_false_r. reflexivity.
Qed.

Lemma default_token_wf : forall b s t r, default_token b s = Ok (t, r) -> tok_wf t = true.
Proof.
  intros b s t r H. unfold default_token in H. destruct b.
  - repeat match type of H with
    | match ?x with _ => _ end = _ => destruct x
    end; inversion H; reflexivity.
  - destruct (cut_prefix kw_has s) as [r0|].
    + destruct (cut_identifier (trim r0)) as [[id r2]|] eqn:E; [|discriminate].
      destruct (cut_prefix [41] (trim r2)); [|discriminate]. inversion H; subst. simpl. eapply cut_identifier_valid; eauto.
    + destruct (cut_prefix kw_all s) as [r0|].
      * destruct (cut_prefix [41] (trim r0)); inversion H; reflexivity.
      * destruct (cut_prefix kw_global s) as [r0|].
        -- destruct (cut_prefix [41] (trim r0)); inversion H; reflexivity.
        -- destruct (cut_identifier s) as [[id r2]|] eqn:E; [|discriminate]. inversion H; subst. simpl. eapply cut_identifier_valid; eauto.
Qed.

Lemma next_token_wf : forall b s t r, next_token b s = Ok (t, r) -> tok_wf t = true.
Proof.
  intros b s t r H. unfold next_token in H. destruct s as [|c s]; [discriminate|].
  destruct (c =? 40); [inversion H; reflexivity|].
  destruct (c =? 41); [inversion H; reflexivity|].
  destruct (c =? 34).
  { destruct (split_at 34 s) as [[v r']|] eqn:E; [|discriminate]. inversion H; subst. simpl. apply (split_at_value_ok 34 s v r); auto. }
  destruct (c =? 39).
  { destruct (split_at 39 s) as [[v r']|] eqn:E; [|discriminate]. inversion H; subst. simpl. apply (split_at_value_ok 39 s v r); auto. }
  destruct (c =? 123); [inversion H; reflexivity|].
  destruct (c =? 125); [inversion H; reflexivity|].
  destruct (c =? 44); [inversion H; reflexivity|].
  destruct (c =? 61); [destruct (cut_prefix [61] s); inversion H; reflexivity|].
  destruct (c =? 33); [destruct (cut_prefix [61] s); inversion H; reflexivity|].
  destruct (c =? 38); [destruct (cut_prefix [38] s); inversion H; reflexivity|].
  destruct (c =? 124); [destruct (cut_prefix [124] s); inversion H; reflexivity|].
  eapply default_token_wf; eauto.
Qed.

Lemma tok_loop_wf : forall f b s ts, tok_loop f b s = Ok ts -> forallb tok_wf ts = true.
Proof.
  induction f; intros b s ts H; [discriminate|]. rewrite tok_loop_S in H.
  destruct (trim s) as [|c s']; [inversion H; reflexivity|].
  destruct (next_token b (c :: s')) as [[t r]| |] eqn:E; try discriminate.
  destruct (tok_loop f (is_label t) r) as [ts'| |] eqn:E2; try discriminate.
  inversion H; subst. simpl. rewrite (next_token_wf _ _ _ _ E). eauto.
Qed.

(* ------------------------------------------------------------------ string sets *)

Definition lt_hd (y : bytes) (l : list bytes) : bool := match l with [] => true | z :: _ => bytes_ltb y z end.

Lemma strict_sorted_cons : forall y l, strict_sorted (y :: l) = lt_hd y l && strict_sorted l.
Proof. intros. destruct l; reflexivity. Qed.

Lemma insert_set_sorted : forall x xs, strict_sorted xs = true ->
  strict_sorted (insert_set x xs) = true /\ (forall y, bytes_ltb y x = true -> lt_hd y xs = true -> lt_hd y (insert_set x xs) = true).
Proof.
  induction xs as [|z zs IH]; intros Hs.
  - split; [reflexivity|]. intros y Hy _. exact Hy.
  - rewrite strict_sorted_cons in Hs. apply andb_true_iff in Hs. destruct Hs as [Hz Hs].
    destruct (IH Hs) as [IH1 IH2]. cbn [insert_set].
    destruct (bytes_ltb x z) eqn:E1.
    + split.
      * rewrite strict_sorted_cons. cbn [lt_hd]. rewrite E1. rewrite strict_sorted_cons, Hz, Hs. reflexivity.
      * intros y Hy _. exact Hy.
    + destruct (bytes_eqb x z) eqn:E2.
      * split; [rewrite strict_sorted_cons, Hz, Hs; reflexivity|]. intros y _ Hy. exact Hy.
      * assert (Hzx : bytes_ltb z x = true).
        { destruct (bytes_ltb z x) eqn:E3; auto. pose proof (bytes_ltb_total x z E1 E3). subst.
          rewrite bytes_eqb_refl in E2. discriminate. }
        split.
        -- rewrite strict_sorted_cons. rewrite IH1. rewrite (IH2 z Hzx Hz). reflexivity.
        -- intros y _ Hy. exact Hy.
Qed.

Lemma to_set_strict_sorted : forall vs, strict_sorted (to_set vs) = true.
Proof. induction vs; [reflexivity|]. simpl. apply insert_set_sorted. exact IHvs. Qed.

Lemma insert_set_forall : forall (P : bytes -> bool) x xs, P x = true -> forallb P xs = true -> forallb P (insert_set x xs) = true.
Proof.
  induction xs as [|z zs IH]; simpl; intros Hx Hxs; [rewrite Hx; reflexivity|].
  apply andb_true_iff in Hxs. destruct Hxs as [Hz Hzs].
  destruct (bytes_ltb x z); [simpl; rewrite Hx, Hz, Hzs; reflexivity|].
  destruct (bytes_eqb x z); simpl; rewrite Hz; auto.
Qed.

Lemma to_set_forall : forall (P : bytes -> bool) vs, forallb P vs = true -> forallb P (to_set vs) = true.
Proof.
  induction vs; simpl; intros H; [reflexivity|]. apply andb_true_iff in H. destruct H. apply insert_set_forall; auto.
Qed.

Lemma parse_set_wf : forall toks vs r, forallb tok_wf toks = true -> parse_set toks = (vs, r) ->
  forallb value_ok vs = true /\ forallb tok_wf r = true.
Proof.
  fix IH 1. intros toks vs r W H. destruct toks as [|t toks]; [inversion H; subst; auto|].
  destruct t; try (inversion H; subst; auto; fail).
  (* TStr *)
  simpl in W. apply andb_true_iff in W. destruct W as [Wv W].
  destruct toks as [|t2 toks2]; [inversion H; subst; simpl; rewrite Wv; auto|].
  destruct t2; try (inversion H; subst; simpl; rewrite Wv; auto; fail).
  (* TComma *)
  cbn [parse_set] in H. destruct (parse_set toks2) as [vs' r'] eqn:E. inversion H; subst.
  simpl in W. destruct (IH toks2 vs' r W E) as [A B]. simpl. rewrite Wv, A. auto.
Qed.

(* ------------------------------------------------------------------ parser invariant *)

Definition PI (p : parser ast) : Prop :=
  forall toks a r, forallb tok_wf toks = true -> p toks = Ok (a, r) -> wfb true a = true /\ forallb tok_wf r = true.

Lemma tail_loop_PI : forall is_sep p, PI p -> forall n toks xs r,
  forallb tok_wf toks = true -> tail_loop is_sep p n toks = Ok (xs, r) ->
  forallb (wfb true) xs = true /\ forallb tok_wf r = true.
Proof.
  intros is_sep p Hp. induction n; intros toks xs r W H.
  - destruct toks as [|t rest]; simpl in H; [inversion H; subst; auto|].
    destruct (is_sep t); [discriminate|]. inversion H; subst. auto.
  - destruct toks as [|t rest]; simpl in H; [inversion H; subst; auto|].
    destruct (is_sep t); [|inversion H; subst; auto].
    simpl in W. apply andb_true_iff in W. destruct W as [_ W].
    destruct (p rest) as [[a r1]| |] eqn:E; try discriminate. simpl in H.
    destruct (tail_loop is_sep p n r1) as [[ys r2]| |] eqn:E2; try discriminate. simpl in H. inversion H; subst.
    destruct (Hp _ _ _ W E) as [A B]. destruct (IHn _ _ _ B E2) as [C D]. simpl. rewrite A, C. auto.
Qed.

Lemma chain_PI : forall mk is_sep p n,
  (forall ys, (2 <= length ys)%nat -> forallb (wfb true) ys = true -> wfb true (mk ys) = true) ->
  PI p -> PI (chain mk is_sep p n).
Proof.
  intros mk is_sep p n Hmk Hp toks a r W H. unfold chain in H.
  destruct (p toks) as [[a1 r1]| |] eqn:E; try discriminate. simpl in H.
  destruct (tail_loop is_sep p n r1) as [[ys r2]| |] eqn:E2; try discriminate. simpl in H. inversion H; subst.
  destruct (Hp _ _ _ W E) as [A B]. destruct (tail_loop_PI is_sep p Hp _ _ _ _ B E2) as [C D].
  split; auto. destruct ys as [|y ys]; auto. apply Hmk; [simpl; lia|]. simpl in *. rewrite A. exact C.
Qed.

Lemma mk_and_wf : forall ys, (2 <= length ys)%nat -> forallb (wfb true) ys = true -> wfb true (SAnd ys) = true.
Proof. intros ys H1 H2. cbn [wfb]. rewrite H2. apply Nat.leb_le in H1. rewrite H1. reflexivity. Qed.
Lemma mk_or_wf : forall ys, (2 <= length ys)%nat -> forallb (wfb true) ys = true -> wfb true (SOr ys) = true.
Proof. intros ys H1 H2. cbn [wfb]. rewrite H2. apply Nat.leb_le in H1. rewrite H1. reflexivity. Qed.

Lemma parse_or_with_PI : forall op n, PI op -> PI (parse_or_with op n).
Proof.
  intros op n H. unfold parse_or_with. apply chain_PI; [exact mk_or_wf|].
  unfold parse_and_with. apply chain_PI; [exact mk_and_wf|exact H].
Qed.

Lemma strip_nots_wf : forall toks neg t1, strip_nots toks = (neg, t1) -> forallb tok_wf toks = true -> forallb tok_wf t1 = true.
Proof.
  induction toks as [|t toks IH]; intros neg t1 H W; [inversion H; subst; auto|].
  destruct t; try (inversion H; subst; exact W; fail).
  simpl in H. destruct (strip_nots toks) as [n r] eqn:E. inversion H; subst. simpl in W. eapply IH; eauto.
Qed.

Lemma parse_base_PI : forall por, PI por -> PI (parse_base por).
Proof.
  intros por Hp toks a r W H.
  destruct toks as [|t1 toks]; [discriminate|].
  destruct t1; try discriminate; simpl in W.
  - (* TLabel *)
    apply andb_true_iff in W. destruct W as [Wl W].
    destruct toks as [|t2 toks]; [discriminate|].
    destruct t2; try discriminate; simpl in W;
      (destruct toks as [|t3 toks]; [discriminate|]); destruct t3; try discriminate; simpl in W.
    1,2,5,6,7: (apply andb_true_iff in W; destruct W as [Wv W]; inversion H; subst; cbn [wfb]; rewrite Wl, Wv; auto).
    + (* in *) simpl in H. destruct (parse_set toks) as [vs [|t r']] eqn:E; try discriminate. destruct t; try discriminate.
      inversion H; subst. destruct (parse_set_wf _ _ _ W E) as [A B]. simpl in B.
      cbn [wfb]. rewrite Wl, (to_set_forall _ _ A), to_set_strict_sorted. auto.
    + (* not in *) simpl in H. destruct (parse_set toks) as [vs [|t r']] eqn:E; try discriminate. destruct t; try discriminate.
      inversion H; subst. destruct (parse_set_wf _ _ _ W E) as [A B]. simpl in B.
      cbn [wfb]. rewrite Wl, (to_set_forall _ _ A), to_set_strict_sorted. auto.
  - (* TAll *) inversion H; subst. auto.
  - (* THas *) apply andb_true_iff in W. destruct W as [Wl W]. inversion H; subst. auto.
  - (* TLParen *) simpl in H. destruct (por toks) as [[a' [|t r']]| |] eqn:E; try discriminate. destruct t; try discriminate.
    inversion H; subst. destruct (Hp _ _ _ W E) as [A B]. simpl in B. auto.
  - (* TGlobal *) inversion H; subst. auto.
Qed.

Lemma parse_op_PI : forall f, PI (parse_op f).
Proof.
  induction f; intros toks a r W H; [discriminate|].
  cbn [parse_op] in H. destruct (strip_nots toks) as [neg t1] eqn:E.
  destruct (parse_base (parse_or_with (parse_op f) f) t1) as [[a' r']| |] eqn:E2; try discriminate.
  inversion H; subst.
  destruct (parse_base_PI _ (parse_or_with_PI _ f IHf) _ _ _ (strip_nots_wf _ _ _ E W) E2) as [A B].
  split; auto. destruct neg; auto.
Qed.

Lemma parse_root_wf : forall toks a, forallb tok_wf toks = true -> parse_root toks = Ok a -> wfb true a = true.
Proof.
  intros toks a W H. unfold parse_root in H.
  assert (G : forall x, match parse_or (S (length toks)) toks with
                        | Ok (a0, [_]) => Ok a0 | Ok (a0, []) => Reject | Ok (a0, _ :: _ :: _) => Reject
                        | Reject => Reject | OutOfFuel => OutOfFuel end = Ok x -> wfb true x = true).
  { intros x Hx. destruct (parse_or (S (length toks)) toks) as [[a0 [|t0 [|t1 r]]]| |] eqn:E; try discriminate.
    inversion Hx; subst. unfold parse_or in E. apply (parse_or_with_PI _ _ (parse_op_PI _) _ _ _ W E). }
  destruct toks as [|t toks]; [apply G; exact H|].
  destruct t; try (apply G; exact H). inversion H; reflexivity.
Qed.

(* Everything in the image of parse is well-formed. *)
Lemma parse_wf : forall s a, parse s = Ok a -> wfb true a = true.
Proof.
  intros s a H. unfold parse in H. destruct (tokenize s) as [toks| |] eqn:E; try discriminate. simpl in H.
  eapply parse_root_wf; eauto. unfold tokenize in E. eapply tok_loop_wf; eauto.
Qed.
