(* C06 — parser lemmas: the token list of a well-formed AST parses back to that AST. *)
From Coq Require Import List NArith Bool Arith Lia.
From Verif.Common Require Import Labels.
From Verif.C06 Require Import Model Spec TokProofs.
Import ListNotations.
Open Scope N_scope.

Ltac split_and H := repeat match type of H with _ && _ = true => let H2 := fresh "W" in apply andb_true_iff in H; destruct H as [H H2] end.

(* ------------------------------------------------------------------ sets *)

Lemma to_set_sorted : forall vs, strict_sorted vs = true -> to_set vs = vs.
Proof.
  induction vs as [|x vs IH]; intros H; [reflexivity|].
  destruct vs as [|y r]; [reflexivity|].
  cbn [strict_sorted] in H. apply andb_true_iff in H. destruct H as [Hxy Hs].
  change (to_set (x :: y :: r)) with (insert_set x (to_set (y :: r))). rewrite IH by auto.
  simpl. rewrite Hxy. reflexivity.
Qed.

Lemma parse_set_toks : forall vs rest, parse_set (set_toks vs ++ TRBrace :: rest) = (vs, TRBrace :: rest).
Proof.
  induction vs as [|v vs IH]; intros rest; [reflexivity|].
  destruct vs as [|w r]; [reflexivity|].
  change (set_toks (v :: w :: r)) with (TStr v :: TComma :: set_toks (w :: r)).
  cbn [app parse_set]. rewrite IH. reflexivity.
Qed.

(* ------------------------------------------------------------------ chains *)

Definition flat (sep : token) (tk : ast -> list token) (xs : list ast) : list token :=
  concat (map (fun y => sep :: tk y) xs).

Lemma join_toks_flat : forall sep tk x xs,
  join_toks sep (map tk (x :: xs)) = tk x ++ flat sep tk xs.
Proof.
  intros sep tk x xs. revert x. induction xs as [|y ys IH]; intros x.
  - simpl. rewrite app_nil_r. reflexivity.
  - change (join_toks sep (map tk (x :: y :: ys))) with (tk x ++ sep :: join_toks sep (map tk (y :: ys))).
    rewrite IH. reflexivity.
Qed.

Section Chain.
  Variables (is_sep : token -> bool) (sep : token) (p : parser ast) (tk : ast -> list token).
  Variable good : list token -> Prop.
  Hypothesis Hsep : is_sep sep = true.
  Hypothesis good_sep : forall r, good (sep :: r).

  Lemma tail_ok : forall xs n rest,
    good rest -> match rest with t :: _ => is_sep t = false | [] => True end ->
    (length xs <= n)%nat ->
    Forall (fun x => forall r, good r -> p (tk x ++ r) = Ok (x, r)) xs ->
    tail_loop is_sep p n (flat sep tk xs ++ rest) = Ok (xs, rest).
  Proof.
    induction xs as [|x xs IH]; intros n rest Hg Hr Hn HF.
    - simpl. destruct rest as [|t rest']; [destruct n; reflexivity|]. destruct n; simpl; rewrite Hr; reflexivity.
    - destruct n as [|n']; [simpl in Hn; lia|]. inversion HF as [|? ? Hx HF']; subst.
      unfold flat. cbn [map concat]. fold (flat sep tk xs). rewrite <- !app_assoc. cbn [app tail_loop]. rewrite Hsep.
      assert (G : good (flat sep tk xs ++ rest)).
      { destruct xs as [|y ys]; [exact Hg|]. unfold flat. cbn [map concat app]. apply good_sep. }
      rewrite (Hx _ G). cbn [bind snd fst]. rewrite IH; auto. simpl in Hn. lia.
  Qed.

  Lemma chain_ok : forall mk x xs n rest,
    good rest -> match rest with t :: _ => is_sep t = false | [] => True end ->
    (length xs <= n)%nat ->
    Forall (fun x => forall r, good r -> p (tk x ++ r) = Ok (x, r)) (x :: xs) ->
    chain mk is_sep p n (join_toks sep (map tk (x :: xs)) ++ rest)
    = Ok (match xs with [] => x | _ => mk (x :: xs) end, rest).
  Proof.
    intros mk x xs n rest Hg Hr Hn HF. inversion HF as [|? ? Hx HF']; subst.
    rewrite join_toks_flat. rewrite <- app_assoc. unfold chain.
    assert (G : good (flat sep tk xs ++ rest)).
    { destruct xs as [|y ys]; [exact Hg|]. unfold flat. cbn [map concat app]. apply good_sep. }
    rewrite (Hx _ G). cbn [bind snd fst]. rewrite tail_ok; auto.
  Qed.
End Chain.

Definition no_and_hd (r : list token) : Prop := match r with TAnd :: _ => False | _ => True end.

(* an operation followed by something other than "&&" is a complete and-expression *)
Lemma and_single : forall (op : parser ast) n x r toks,
  op toks = Ok (x, r) -> no_and_hd r -> parse_and_with op n toks = Ok (x, r).
Proof.
  intros op n x r toks H Hr. unfold parse_and_with, chain. rewrite H. cbn [bind snd fst].
  destruct r as [|t r']; [destruct n; reflexivity|].
  destruct t; try (destruct n; reflexivity). destruct Hr.
Qed.

Lemma or_single : forall (p : parser ast) n x r toks,
  p toks = Ok (x, r) -> match r with TOr :: _ => False | _ => True end -> chain SOr is_or p n toks = Ok (x, r).
Proof.
  intros p n x r toks H Hr. unfold chain. rewrite H. cbn [bind snd fst].
  destruct r as [|t r']; [destruct n; reflexivity|].
  destruct t; try (destruct n; reflexivity). destruct Hr.
Qed.

(* ------------------------------------------------------------------ sizes *)

Lemma ast_size_pos : forall a, (1 <= ast_size a)%nat.
Proof. destruct a; simpl; lia. Qed.

Definition sum_size (xs : list ast) : nat := fold_right (fun x n => (ast_size x + n)%nat) 0%nat xs.

Lemma sum_size_len : forall xs, (length xs <= sum_size xs)%nat.
Proof. induction xs; simpl; auto. pose proof (ast_size_pos a). unfold sum_size in *. lia. Qed.

Lemma sum_size_in : forall xs x, In x xs -> (ast_size x <= sum_size xs)%nat.
Proof.
  induction xs; simpl; intros x H; [tauto|]. destruct H as [->|H]; [lia|]. apply IHxs in H. unfold sum_size in *. lia.
Qed.

Lemma strip_nots_nonnot : forall pn x rest, is_not x = false ->
  strip_nots (toks_of pn x ++ rest) = (false, toks_of pn x ++ rest).
Proof. intros pn x rest H. destruct x; try reflexivity. discriminate. Qed.

(* ------------------------------------------------------------------ the parser inverts toks_of *)

Lemma parse_toks : forall pn a, wfb pn a = true -> forall f rest, (ast_size a <= f)%nat ->
  parse_op f (toks_of pn a ++ rest) = Ok (a, rest).
Proof.
  intros pn. induction a using ast_ind_nested; intros W f rest Hf; cbn [wfb] in W;
    (destruct f as [|f]; [pose proof (ast_size_pos (SAll)); simpl in Hf; lia|]).
  1-5: reflexivity.
  - (* in *) split_and W. cbn [toks_of app parse_op strip_nots parse_base]. rewrite <- app_assoc. cbn [app].
    rewrite parse_set_toks. rewrite to_set_sorted by auto. reflexivity.
  - (* not in *) split_and W. cbn [toks_of app parse_op strip_nots parse_base]. rewrite <- app_assoc. cbn [app].
    rewrite parse_set_toks. rewrite to_set_sorted by auto. reflexivity.
  - reflexivity.
  - reflexivity.
  - reflexivity.
  - (* not *) split_and W. cbn [ast_size] in Hf. cbn [toks_of]. destruct (pn && is_not a) eqn:P.
    + (* printed with parentheses *)
      cbn [app parse_op strip_nots parse_base]. rewrite <- app_assoc. cbn [app].
      assert (E : parse_or_with (parse_op f) f (toks_of pn a ++ TRParen :: rest) = Ok (a, TRParen :: rest)).
      { unfold parse_or_with. apply or_single; [|exact I]. apply and_single; [|exact I]. apply IHa; auto. lia. }
      rewrite E. reflexivity.
    + assert (N : is_not a = false).
      { destruct (is_not a); auto. destruct pn; simpl in *; discriminate. }
      pose proof (IHa W0 (S f) rest ltac:(lia)) as E.
      cbn [parse_op] in E. rewrite (strip_nots_nonnot pn a rest N) in E.
      cbn [app parse_op strip_nots]. rewrite (strip_nots_nonnot pn a rest N). cbn [negb].
      destruct (parse_base (parse_or_with (parse_op f) f) (toks_of pn a ++ rest)) as [[a' r']| |]; try discriminate.
      inversion E; subst. reflexivity.
  - (* and *) split_and W. cbn [ast_size] in Hf. fold (sum_size xs) in Hf.
    destruct xs as [|x xs']; [discriminate|].
    cbn [toks_of app parse_op strip_nots parse_base]. rewrite <- app_assoc. cbn [app].
    assert (HF : Forall (fun x => forall r, True -> parse_op f (toks_of pn x ++ r) = Ok (x, r)) (x :: xs')).
    { apply Forall_forall. intros y Hy r _. rewrite Forall_forall in H. apply H; auto.
      - rewrite forallb_forall in W0. auto.
      - pose proof (sum_size_in _ _ Hy). lia. }
    assert (E : parse_or_with (parse_op f) f (join_toks TAnd (map (toks_of pn) (x :: xs')) ++ TRParen :: rest)
                = Ok (SAnd (x :: xs'), TRParen :: rest)).
    { unfold parse_or_with. apply or_single; [|exact I]. unfold parse_and_with.
      rewrite (chain_ok is_and TAnd (parse_op f) (toks_of pn) (fun _ => True) eq_refl (fun _ => I) SAnd x xs' f (TRParen :: rest) I eq_refl); auto.
      - destruct xs'; [discriminate|reflexivity].
      - pose proof (sum_size_len (x :: xs')). simpl in *. lia. }
    rewrite E. reflexivity.
  - (* or *) split_and W. cbn [ast_size] in Hf. fold (sum_size xs) in Hf.
    destruct xs as [|x xs']; [discriminate|].
    cbn [toks_of app parse_op strip_nots parse_base]. rewrite <- app_assoc. cbn [app].
    assert (HF : Forall (fun x => forall r, no_and_hd r -> parse_and_with (parse_op f) f (toks_of pn x ++ r) = Ok (x, r)) (x :: xs')).
    { apply Forall_forall. intros y Hy r Hr. apply and_single; auto. rewrite Forall_forall in H. apply H; auto.
      - rewrite forallb_forall in W0. auto.
      - pose proof (sum_size_in _ _ Hy). lia. }
    assert (E : parse_or_with (parse_op f) f (join_toks TOr (map (toks_of pn) (x :: xs')) ++ TRParen :: rest)
                = Ok (SOr (x :: xs'), TRParen :: rest)).
    { unfold parse_or_with.
      rewrite (chain_ok is_or TOr (parse_and_with (parse_op f) f) (toks_of pn) no_and_hd eq_refl (fun _ => I) SOr x xs' f (TRParen :: rest) I eq_refl); auto.
      - destruct xs'; [discriminate|reflexivity].
      - pose proof (sum_size_len (x :: xs')). simpl in *. lia. }
    rewrite E. reflexivity.
Qed.

Lemma join_toks_size : forall sep (tk : ast -> list token) xs,
  Forall (fun x => (ast_size x <= length (tk x))%nat) xs ->
  (sum_size xs <= length (join_toks sep (map tk xs)))%nat.
Proof.
  intros sep tk xs HF. induction HF as [|x xs Hx HF IH]; [simpl; lia|].
  destruct xs as [|y ys].
  - simpl. lia.
  - change (join_toks sep (map tk (x :: y :: ys))) with (tk x ++ sep :: join_toks sep (map tk (y :: ys))).
    rewrite app_length. cbn [length]. unfold sum_size in *. cbn [fold_right] in *. lia.
Qed.

Lemma size_le_toks : forall pn a, (ast_size a <= length (toks_of pn a))%nat.
Proof.
  intros pn. induction a using ast_ind_nested; cbn [toks_of ast_size length]; try lia.
  - destruct (pn && is_not a); cbn [length]; rewrite ?app_length; cbn [length]; lia.
  - rewrite app_length. cbn [length]. pose proof (join_toks_size TAnd (toks_of pn) xs H). unfold sum_size in *. lia.
  - rewrite app_length. cbn [length]. pose proof (join_toks_size TOr (toks_of pn) xs H). unfold sum_size in *. lia.
Qed.

Lemma toks_nonempty_not_eof : forall pn a rest, match toks_of pn a ++ rest with TEOF :: _ => False | [] => False | _ => True end.
Proof. intros. destruct a; simpl; auto. Qed.

Lemma parse_root_toks : forall pn a, wfb pn a = true -> parse_root (toks_of pn a ++ [TEOF]) = Ok a.
Proof.
  intros pn a W.
  assert (E : parse_or (S (length (toks_of pn a ++ [TEOF]))) (toks_of pn a ++ [TEOF]) = Ok (a, [TEOF])).
  { unfold parse_or, parse_or_with. apply or_single; [|exact I]. apply and_single; [|exact I].
    apply parse_toks; auto. rewrite app_length. pose proof (size_le_toks pn a). lia. }
  unfold parse_root. pose proof (toks_nonempty_not_eof pn a [TEOF]) as NE.
  destruct (toks_of pn a ++ [TEOF]) as [|t ts] eqn:T; [destruct NE|].
  destruct t; try destruct NE; rewrite E; reflexivity.
Qed.

(* print, then parse: the identical AST comes back *)
Lemma parse_to_string : forall pn a, wfb pn a = true -> parse (to_string pn a) = Ok a.
Proof.
  intros pn a W. unfold parse. rewrite (tokenize_to_string pn a W). cbn [bind]. apply parse_root_toks. exact W.
Qed.
