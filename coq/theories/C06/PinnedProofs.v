(* C06 — the printer of the pinned tree: although canonical text and UID are not stable for selectors
   containing !(!x), the canonical text always parses and the MEANING is always preserved. *)
From Coq Require Import List NArith Bool Arith Lia.
From Verif.Common Require Import Labels.
From Verif.C06 Require Import Model Spec TokProofs ParseProofs ImageProofs.
Import ListNotations.
Open Scope N_scope.

Definition sem_eq (x y : ast) : Prop := forall L : labels, eval y L = eval x L.

Lemma sem_eq_refl : forall x, sem_eq x x.
Proof. intros x L. reflexivity. Qed.

Lemma forallb_sem : forall xs ys, Forall2 sem_eq xs ys -> forall L,
  forallb (fun x => eval x L) ys = forallb (fun x => eval x L) xs.
Proof. intros xs ys H L. induction H; simpl; auto. rewrite (H L), IHForall2. reflexivity. Qed.

Lemma existsb_sem : forall xs ys, Forall2 sem_eq xs ys -> forall L,
  existsb (fun x => eval x L) ys = existsb (fun x => eval x L) xs.
Proof. intros xs ys H L. induction H; simpl; auto. rewrite (H L), IHForall2. reflexivity. Qed.

Section ChainR.
  Variables (is_sep : token -> bool) (sep : token) (p : parser ast) (tk : ast -> list token).
  Variable good : list token -> Prop.
  Variable R : ast -> ast -> Prop.
  Hypothesis Hsep : is_sep sep = true.
  Hypothesis good_sep : forall r, good (sep :: r).

  Lemma tail_okR : forall xs n rest,
    good rest -> match rest with t :: _ => is_sep t = false | [] => True end ->
    (length xs <= n)%nat ->
    Forall (fun x => forall r, good r -> exists y, p (tk x ++ r) = Ok (y, r) /\ R x y) xs ->
    exists ys, tail_loop is_sep p n (flat sep tk xs ++ rest) = Ok (ys, rest) /\ Forall2 R xs ys.
  Proof.
    induction xs as [|x xs IH]; intros n rest Hg Hr Hn HF.
    - exists []. split; [|constructor]. simpl. destruct rest as [|t rest']; [destruct n; reflexivity|].
      destruct n; simpl; rewrite Hr; reflexivity.
    - destruct n as [|n']; [simpl in Hn; lia|]. inversion HF as [|? ? Hx HF']; subst.
      unfold flat. cbn [map concat]. fold (flat sep tk xs). rewrite <- !app_assoc. cbn [app tail_loop]. rewrite Hsep.
      assert (G : good (flat sep tk xs ++ rest)).
      { destruct xs as [|y ys]; [exact Hg|]. unfold flat. cbn [map concat app]. apply good_sep. }
      destruct (Hx _ G) as [y [Ey Ry]]. rewrite Ey. cbn [bind snd fst].
      destruct (IH n' rest Hg Hr ltac:(simpl in Hn; lia) HF') as [ys [Eys Rys]]. rewrite Eys.
      exists (y :: ys). split; [reflexivity|]. constructor; auto.
  Qed.

  Lemma chain_okR : forall mk x xs n rest,
    good rest -> match rest with t :: _ => is_sep t = false | [] => True end ->
    (length xs <= n)%nat ->
    Forall (fun x => forall r, good r -> exists y, p (tk x ++ r) = Ok (y, r) /\ R x y) (x :: xs) ->
    exists y ys, chain mk is_sep p n (join_toks sep (map tk (x :: xs)) ++ rest)
                 = Ok (match ys with [] => y | _ => mk (y :: ys) end, rest)
                 /\ R x y /\ Forall2 R xs ys.
  Proof.
    intros mk x xs n rest Hg Hr Hn HF. inversion HF as [|? ? Hx HF']; subst.
    rewrite join_toks_flat. rewrite <- app_assoc. unfold chain.
    assert (G : good (flat sep tk xs ++ rest)).
    { destruct xs as [|y ys]; [exact Hg|]. unfold flat. cbn [map concat app]. apply good_sep. }
    destruct (Hx _ G) as [y [Ey Ry]]. rewrite Ey. cbn [bind snd fst].
    destruct (tail_okR xs n rest Hg Hr Hn HF') as [ys [Eys Rys]]. rewrite Eys.
    exists y, ys. split; [reflexivity|]. split; auto.
  Qed.
End ChainR.

Lemma parse_toks_pinned : forall a, wfb true a = true -> forall f rest, (ast_size a <= f)%nat ->
  exists a', parse_op f (toks_of false a ++ rest) = Ok (a', rest) /\ sem_eq a a'.
Proof.
  induction a using ast_ind_nested; intros W f rest Hf; cbn [wfb] in W;
    (destruct f as [|f]; [pose proof (ast_size_pos (SAll)); simpl in Hf; lia|]).
  1-5: (eexists; split; [reflexivity|apply sem_eq_refl]).
  - split_and W. exists (SIn l vs). split; [|apply sem_eq_refl].
    cbn [toks_of app parse_op strip_nots parse_base]. rewrite <- app_assoc. cbn [app].
    rewrite parse_set_toks. rewrite to_set_sorted by auto. reflexivity.
  - split_and W. exists (SNotIn l vs). split; [|apply sem_eq_refl].
    cbn [toks_of app parse_op strip_nots parse_base]. rewrite <- app_assoc. cbn [app].
    rewrite parse_set_toks. rewrite to_set_sorted by auto. reflexivity.
  - eexists; split; [reflexivity|apply sem_eq_refl].
  - eexists; split; [reflexivity|apply sem_eq_refl].
  - eexists; split; [reflexivity|apply sem_eq_refl].
  - (* not: "!" in front of the operand's text; the parser may merge it with the operand's own "!"s *)
    split_and W. cbn [ast_size] in Hf. cbn [toks_of andb app].
    destruct (IHa W0 (S f) rest ltac:(lia)) as [ax [E R]].
    cbn [parse_op] in E. cbn [parse_op strip_nots].
    destruct (strip_nots (toks_of false a ++ rest)) as [n t1].
    destruct (parse_base (parse_or_with (parse_op f) f) t1) as [[y r']| |]; try discriminate.
    inversion E; subst. destruct n; cbn [negb].
    + exists y. split; [reflexivity|]. intros L. specialize (R L). simpl in *. rewrite <- R. rewrite negb_involutive. reflexivity.
    + exists (SNot y). split; [reflexivity|]. intros L. specialize (R L). simpl. rewrite R. reflexivity.
  - (* and *) split_and W. cbn [ast_size] in Hf. fold (sum_size xs) in Hf.
    destruct xs as [|x xs']; [discriminate|].
    cbn [toks_of app parse_op strip_nots parse_base]. rewrite <- app_assoc. cbn [app].
    assert (HF : Forall (fun x => forall r, True -> exists y, parse_op f (toks_of false x ++ r) = Ok (y, r) /\ sem_eq x y) (x :: xs')).
    { apply Forall_forall. intros y Hy r _. rewrite Forall_forall in H. apply H; auto.
      - rewrite forallb_forall in W0. auto.
      - pose proof (sum_size_in _ _ Hy). lia. }
    destruct (chain_okR is_and TAnd (parse_op f) (toks_of false) (fun _ => True) sem_eq eq_refl (fun _ => I) SAnd x xs' f (TRParen :: rest) I eq_refl
                ltac:(pose proof (sum_size_len (x :: xs')); simpl in *; lia) HF) as [y [ys [E [Ry Rys]]]].
    assert (NE : xs' <> []) by (destruct xs'; [discriminate|discriminate]).
    destruct ys as [|y2 ys']; [inversion Rys; subst; congruence|].
    assert (E2 : parse_or_with (parse_op f) f (join_toks TAnd (map (toks_of false) (x :: xs')) ++ TRParen :: rest)
                = Ok (SAnd (y :: y2 :: ys'), TRParen :: rest)).
    { unfold parse_or_with. apply or_single; [|exact I]. exact E. }
    rewrite E2. exists (SAnd (y :: y2 :: ys')). split; [reflexivity|].
    intros L. rewrite !eval_and. apply forallb_sem. constructor; auto.
  - (* or *) split_and W. cbn [ast_size] in Hf. fold (sum_size xs) in Hf.
    destruct xs as [|x xs']; [discriminate|].
    cbn [toks_of app parse_op strip_nots parse_base]. rewrite <- app_assoc. cbn [app].
    assert (HF : Forall (fun x => forall r, no_and_hd r -> exists y, parse_and_with (parse_op f) f (toks_of false x ++ r) = Ok (y, r) /\ sem_eq x y) (x :: xs')).
    { apply Forall_forall. intros y Hy r Hr. rewrite Forall_forall in H.
      destruct (H y Hy ltac:(rewrite forallb_forall in W0; auto) f r ltac:(pose proof (sum_size_in _ _ Hy); lia)) as [y' [E R]].
      exists y'. split; auto. apply and_single; auto. }
    destruct (chain_okR is_or TOr (parse_and_with (parse_op f) f) (toks_of false) no_and_hd sem_eq eq_refl (fun _ => I) SOr x xs' f (TRParen :: rest) I eq_refl
                ltac:(pose proof (sum_size_len (x :: xs')); simpl in *; lia) HF) as [y [ys [E [Ry Rys]]]].
    assert (NE : xs' <> []) by (destruct xs'; [discriminate|discriminate]).
    destruct ys as [|y2 ys']; [inversion Rys; subst; congruence|].
    unfold parse_or_with. rewrite E. exists (SOr (y :: y2 :: ys')). split; [reflexivity|].
    intros L. rewrite !eval_or. apply existsb_sem. constructor; auto.
Qed.

(* For every accepted input, the pinned canonical text is accepted and means the same. *)
Lemma pinned_meaning_preserved : forall s a, parse s = Ok a ->
  exists a', parse (to_string false a) = Ok a' /\ forall L : labels, eval a' L = eval a L.
Proof.
  intros s a H. pose proof (parse_wf s a H) as W.
  unfold parse at 1. rewrite (tokenize_to_string_gen false a W). cbn [bind].
  destruct (parse_toks_pinned a W (S (length (toks_of false a ++ [TEOF]))) [TEOF]
              ltac:(rewrite app_length; pose proof (size_le_toks false a); lia)) as [a' [E R]].
  exists a'. split; [|exact R].
  assert (E2 : parse_or (S (length (toks_of false a ++ [TEOF]))) (toks_of false a ++ [TEOF]) = Ok (a', [TEOF])).
  { unfold parse_or, parse_or_with. apply or_single; [|exact I]. apply and_single; [|exact I]. exact E. }
  unfold parse_root. pose proof (toks_nonempty_not_eof false a [TEOF]) as NE.
  destruct (toks_of false a ++ [TEOF]) as [|t ts] eqn:T; [destruct NE|].
  destruct t; try destruct NE; rewrite E2; reflexivity.
Qed.
