(* C06 — specification level.

   Property text: "For every selector expression the parser accepts, its canonical text parses back to a
   selector that matches exactly the same label sets, has the same canonical text and the same identity
   hash; the validation entry point accepts exactly the expressions the parser accepts."

   The statements below are over an arbitrary parser / printer / evaluator / validator so that they can be
   instantiated by the model (theorems in Props.v) and, as the boolean oracle `ok_case`, applied directly to
   what the REAL Parse / Validate / String / UniqueID / Evaluate returned for one input. *)
From Coq Require Import List NArith Bool.
From Verif.Common Require Import Labels.
From Verif.C06 Require Import Model.
Import ListNotations.
Open Scope N_scope.

(* ---- the property as a statement about a parser p, printer pr and validator vd ---- *)

Definition roundtrip_ok (p : bytes -> res ast) (pr : ast -> bytes) (s : bytes) : Prop :=
  forall a, p s = Ok a ->
    exists a', p (pr a) = Ok a'
            /\ pr a' = pr a                                    (* same canonical text *)
            /\ (forall L : labels, eval a' L = eval a L).      (* matches exactly the same label sets *)

Definition same_uid (p : bytes -> res ast) (pr : ast -> bytes) (u : ast -> bytes) (s : bytes) : Prop :=
  forall a a', p s = Ok a -> p (pr a) = Ok a' -> u a' = u a.

Definition validate_agrees (p : bytes -> res ast) (vd : bytes -> res unit) (s : bytes) : Prop :=
  vd s = Ok tt <-> exists a, p s = Ok a.

Definition canonical_idempotent (cn : bytes -> res bytes) (s : bytes) : Prop :=
  forall t, cn s = Ok t -> cn t = Ok t.

(* ---- one correspondence case: an input, eight label maps, and everything the real code returned ---- *)

Fixpoint bools_eqb (x y : list bool) : bool :=
  match x, y with
  | [], [] => true
  | a :: x', c :: y' => Bool.eqb a c && bools_eqb x' y'
  | _, _ => false
  end.

Record case := {
  c_pn : bool;              (* printer variant of the tree under test (see Model.to_string) *)
  c_input : bytes;
  c_maps : list labels;
  c_accept : bool;          (* parser.Parse(input) returned no error *)
  c_validate : bool;        (* parser.Validate(input) returned no error *)
  c_text : bytes;           (* sel.String() *)
  c_evals : list bool;      (* sel.Evaluate(m) for each map *)
  c_uid_ok : bool;          (* sel.UniqueID() == hash.MakeUniqueID("s", sel.String()) *)
  c_re_accept : bool;       (* parser.Parse(sel.String()) returned no error *)
  c_re_text : bytes;        (* its String() *)
  c_re_evals : list bool;   (* its Evaluate on the same maps *)
  c_re_uid_same : bool;     (* its UniqueID() == sel.UniqueID() *)
}.

(* The oracle: only relates outputs of the implementation to each other, exactly as the property says. *)
Definition ok_case (c : case) : bool :=
  Bool.eqb (c_validate c) (c_accept c)
  && (if c_accept c then
        c_re_accept c
        && bytes_eqb (c_re_text c) (c_text c)
        && bools_eqb (c_re_evals c) (c_evals c)
        && c_re_uid_same c
        && c_uid_ok c
      else true).

(* what the model predicts for the same input *)
Definition model_agrees (c : case) : bool :=
  match parse (c_input c) with
  | Ok a =>
      c_accept c
      && bytes_eqb (to_string (c_pn c) a) (c_text c)
      && bools_eqb (map (eval a) (c_maps c)) (c_evals c)
      && match parse (c_text c) with
         | Ok a' => c_re_accept c
                    && bytes_eqb (to_string (c_pn c) a') (c_re_text c)
                    && bools_eqb (map (eval a') (c_maps c)) (c_re_evals c)
         | _ => negb (c_re_accept c)
         end
  | _ => negb (c_accept c)
  end
  && Bool.eqb (is_ok (validate (c_input c))) (c_validate c).

Definition check_case (c : case) : bool * bool := (model_agrees c, ok_case c).
