(* C06 — theorems about AcceptVisitor(PrefixVisitor). *)
From Coq Require Import List NArith Bool Arith Lia.
From Verif.Common Require Import Labels.
From Verif.C06 Require Import Model Spec TokProofs ParseProofs ImageProofs Proofs Visitor.
Import ListNotations.
Open Scope N_scope.

Ltac split_and H := repeat match type of H with _ && _ = true => let H2 := fresh "W" in apply andb_true_iff in H; destruct H as [H H2] end.

(* ---- well-formedness is preserved when the prefix is identifier bytes and the names still fit ---- *)

Lemma valid_label_prefix : forall p l, forallb ident_char p = true -> valid_label l = true ->
  Nat.leb (length p + length l) max_label_length = true -> valid_label (p ++ l) = true.
Proof.
  intros p l Hp Hl Hfit. unfold valid_label in *. split_and Hl.
  rewrite app_length, forallb_app, Hp, W0, Hfit. simpl.
  destruct l; [discriminate|]. destruct p; simpl; reflexivity.
Qed.

Lemma forallb_map_F : forall (g h : ast -> bool) (f : ast -> ast) xs,
  Forall (fun x => g x = true -> h x = true -> g (f x) = true) xs ->
  forallb g xs = true -> forallb h xs = true -> forallb g (map f xs) = true.
Proof.
  intros g h f xs HF. induction HF as [|x xs Hx HF IH]; simpl; intros G Hh; auto.
  apply andb_true_iff in G. destruct G. apply andb_true_iff in Hh. destruct Hh. rewrite Hx, IH; auto.
Qed.

Lemma prefix_wf : forall p, forallb ident_char p = true ->
  forall a, wfb true a = true -> prefix_fits p a = true -> wfb true (prefix_labels p a) = true.
Proof.
  intros p Hp. unfold prefix_fits.
  induction a using ast_ind_nested; cbn [wfb prefix_labels all_labels]; intros W F; cbv beta in F; auto.
  1-5: (split_and W; rewrite (valid_label_prefix p l Hp W F); exact W0).
  1-2: (split_and W; rewrite (valid_label_prefix p l Hp W F), W1, W0; reflexivity).
  - exact (valid_label_prefix p l Hp W F).
  - split_and W. rewrite map_length, W. simpl.
    apply (forallb_map_F (wfb true) (all_labels (fun l => Nat.leb (length p + length l) max_label_length))); auto.
  - split_and W. rewrite map_length, W. simpl.
    apply (forallb_map_F (wfb true) (all_labels (fun l => Nat.leb (length p + length l) max_label_length))); auto.
Qed.

(* the visited selector's canonical text parses back to the identical (prefixed) AST *)
Lemma prefix_roundtrip : forall p s a, forallb ident_char p = true -> parse s = Ok a -> prefix_fits p a = true ->
  parse (to_string true (prefix_labels p a)) = Ok (prefix_labels p a).
Proof. intros p s a Hp H F. apply parse_to_string. apply prefix_wf; auto. eapply parse_wf; eauto. Qed.

(* ---- meaning: the prefixed selector on L is the original selector on the p-part of L ---- *)

Lemma bytes_eqb_app_head : forall p a c, bytes_eqb (p ++ a) (p ++ c) = bytes_eqb a c.
Proof. induction p; simpl; intros; auto. rewrite N.eqb_refl. simpl. auto. Qed.

Lemma lookup_unprefix : forall p l L, lookup l (unprefix p L) = lookup (p ++ l) L.
Proof.
  intros p l. induction L as [|[k v] L IH]; [reflexivity|]. cbn [unprefix lookup].
  destruct (cut_prefix p k) as [k'|] eqn:E.
  - apply cut_prefix_spec in E. subst k. cbn [lookup]. rewrite bytes_eqb_app_head. rewrite IH. reflexivity.
  - rewrite IH. destruct (bytes_eqb (p ++ l) k) eqn:E2; auto.
    apply bytes_eqb_eq in E2. subst k. rewrite cut_prefix_app in E. discriminate.
Qed.

Lemma prefix_eval : forall p a L, eval (prefix_labels p a) L = eval a (unprefix p L).
Proof.
  intros p. induction a using ast_ind_nested; intros L; cbn [prefix_labels eval]; rewrite ?lookup_unprefix; auto.
  - rewrite IHa. reflexivity.
  - induction H; simpl; auto. rewrite H, IHForall. reflexivity.
  - induction H; simpl; auto. rewrite H, IHForall. reflexivity.
Qed.

(* ---- when the prefixed name no longer fits: the visited selector's canonical text is REJECTED ---- *)

Definition long_label : bytes := repeat 107 510.
Definition pfx_pcns : bytes := [112; 99; 110; 115; 46].   (* "pcns." *)
Definition too_long_input : bytes := s_has ++ long_label ++ [41].

Lemma prefix_too_long_refuted :
  exists p s a, forallb ident_char p = true /\ parse s = Ok a /\ parse (to_string true (prefix_labels p a)) = Reject.
Proof.
  exists pfx_pcns, too_long_input, (SHas long_label).
  split; [reflexivity|]. split; vm_compute; reflexivity.
Qed.

(* ---- oracle accepts every model run of the visitor ---- *)
Section VisitorMeets.
  Variable H : bytes -> bytes.
  Definition model_pcase (s p : bytes) (maps : list labels) (a : ast) : pcase :=
    let a1 := prefix_labels p a in
    let t := to_string true a1 in
    match parse t with
    | Ok a' => {| p_pn := true; p_input := s; p_prefix := p; p_maps := maps; p_text := t; p_evals := map (eval a1) maps;
                  p_uid_ok := true; p_re_accept := true; p_re_text := to_string true a'; p_re_evals := map (eval a') maps;
                  p_re_uid_same := bytes_eqb (uid H true a') (uid H true a1) |}
    | _ => {| p_pn := true; p_input := s; p_prefix := p; p_maps := maps; p_text := t; p_evals := map (eval a1) maps;
              p_uid_ok := true; p_re_accept := false; p_re_text := []; p_re_evals := []; p_re_uid_same := false |}
    end.

  Lemma visitor_meets_spec : forall p s a maps, forallb ident_char p = true -> parse s = Ok a -> prefix_fits p a = true ->
    ok_pcase (model_pcase s p maps a) = true.
  Proof.
    intros p s a maps Hp E F. unfold model_pcase. rewrite (prefix_roundtrip p s a Hp E F).
    unfold ok_pcase. cbn. rewrite !bytes_eqb_refl, bools_eqb_refl. reflexivity.
  Qed.
End VisitorMeets.
