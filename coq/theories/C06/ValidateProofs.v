(* C06 — the validateOnly path accepts exactly what the building path accepts. *)
From Coq Require Import List NArith Bool Arith Lia.
From Verif.Common Require Import Labels.
From Verif.C06 Require Import Model Spec.
Import ListNotations.
Open Scope N_scope.

Definition forget {A} (r : res (A * list token)) : res (unit * list token) :=
  match r with Ok (_, t) => Ok (tt, t) | Reject => Reject | OutOfFuel => OutOfFuel end.

Lemma vtail_forget : forall is_sep (p : parser ast) (vp : parser unit),
  (forall t, vp t = forget (p t)) ->
  forall n toks, vtail_loop is_sep vp n toks = forget (tail_loop is_sep p n toks).
Proof.
  intros is_sep p vp Hp. induction n; intros toks; destruct toks as [|t rest]; simpl; try reflexivity.
  - destruct (is_sep t); reflexivity.
  - destruct (is_sep t); [|reflexivity].
    rewrite Hp. destruct (p rest) as [[a r]| |]; simpl; try reflexivity.
    rewrite IHn. destruct (tail_loop is_sep p n r) as [[xs r2]| |]; reflexivity.
Qed.

Lemma vchain_forget : forall mk is_sep (p : parser ast) (vp : parser unit),
  (forall t, vp t = forget (p t)) ->
  forall n toks, vchain is_sep vp n toks = forget (chain mk is_sep p n toks).
Proof.
  intros mk is_sep p vp Hp n toks. unfold vchain, chain. rewrite Hp.
  destruct (p toks) as [[a r]| |]; simpl; try reflexivity.
  rewrite (vtail_forget is_sep p vp Hp). destruct (tail_loop is_sep p n r) as [[xs r2]| |]; reflexivity.
Qed.

Lemma validate_or_with_forget : forall (op : parser ast) (vop : parser unit),
  (forall t, vop t = forget (op t)) ->
  forall n toks, validate_or_with vop n toks = forget (parse_or_with op n toks).
Proof.
  intros op vop Hop n toks. unfold validate_or_with, parse_or_with.
  apply vchain_forget. intros t. unfold validate_and_with, parse_and_with. apply vchain_forget. exact Hop.
Qed.

Lemma validate_base_forget : forall (por : parser ast) (vpor : parser unit),
  (forall t, vpor t = forget (por t)) ->
  forall toks, validate_base vpor toks = forget (parse_base por toks).
Proof.
  intros por vpor Hp toks.
  destruct toks as [|t1 toks]; [reflexivity|].
  destruct t1; try reflexivity.
  - (* TLabel *)
    destruct toks as [|t2 toks]; [reflexivity|].
    destruct t2; try reflexivity;
      (destruct toks as [|t3 toks]; [reflexivity|]); destruct t3; try reflexivity;
      simpl; destruct (parse_set toks) as [vs [|t r]]; try reflexivity; destruct t; reflexivity.
  - (* TLParen *)
    simpl. rewrite Hp. destruct (por toks) as [[a [|t r]]| |]; try reflexivity. destruct t; reflexivity.
Qed.

Lemma validate_op_forget : forall f toks, validate_op f toks = forget (parse_op f toks).
Proof.
  induction f; intros toks; [reflexivity|].
  simpl. destruct (strip_nots toks) as [neg t1].
  rewrite (validate_base_forget (parse_or_with (parse_op f) f)).
  - destruct (parse_base (parse_or_with (parse_op f) f) t1) as [[a r]| |]; reflexivity.
  - intros t. apply validate_or_with_forget. exact IHf.
Qed.

Lemma validate_root_forget : forall toks,
  validate_root toks = match parse_root toks with Ok _ => Ok tt | Reject => Reject | OutOfFuel => OutOfFuel end.
Proof.
  intros toks. unfold validate_root, parse_root, validate_or, parse_or.
  rewrite (validate_or_with_forget (parse_op (S (length toks))) (validate_op (S (length toks))) (validate_op_forget _)).
  destruct toks as [|t toks]; simpl.
  - destruct (parse_or_with (parse_op 1) 1 []) as [[a [|x [|y r]]]| |]; reflexivity.
  - destruct t; try reflexivity;
    match goal with |- context [parse_or_with ?o ?n ?t] => destruct (parse_or_with o n t) as [[a [|x [|y r]]]| |]; reflexivity end.
Qed.

(* validate and parse fail or succeed together, on every input (also the same kind of failure) *)
Lemma validate_parse : forall s,
  validate s = match parse s with Ok _ => Ok tt | Reject => Reject | OutOfFuel => OutOfFuel end.
Proof.
  intros s. unfold validate, parse. destruct (tokenize s) as [toks| |]; simpl; try reflexivity.
  apply validate_root_forget.
Qed.

Lemma validate_iff_parse : forall s, validate_agrees parse validate s.
Proof.
  intros s. unfold validate_agrees. rewrite validate_parse. destruct (parse s) as [a| |]; split; intros H.
  - eauto.
  - reflexivity.
  - discriminate.
  - destruct H as [a H]; discriminate.
  - discriminate.
  - destruct H as [a H]; discriminate.
Qed.
