(* C06 — executable model of the selector tokenizer, parser, canonical printer and UID.
   Definitions only (no proofs).

   Mirrors, in /repo:
     libcalico-go/lib/selector/tokenizer/tokenizer.go   AppendTokens, trimWhitespace, cutPrefixCheckBreak,
                                                        cutMultiWordPrefixCheckBreak, cutIdentifier, identifierChar
     libcalico-go/lib/selector/parser/parser.go         parseRoot, parseOrExpression, parseAndExpression,
                                                        parseOperation (both the building and the validateOnly path)
     libcalico-go/lib/selector/parser/stringset.go      ConvertToStringSetInPlace
     libcalico-go/lib/selector/parser/ast.go            collectFragments of every node, appendLabelOpAndQuotedString,
                                                        collectInOpFragments, Selector.updateFields (String, UniqueID)
   The AST and its evaluation are Verif.Common.Labels (ast.go Evaluate methods).

   Strings are byte lists.  Results are three-valued: Ok / Reject (the Go code returns an error) /
   OutOfFuel (artefact of the fuelled recursion; Proofs.v shows the entry points never return it). *)
From Coq Require Import List NArith Bool String Ascii.
From Verif.Common Require Import Labels.
Import ListNotations.
Open Scope N_scope.

Inductive res (A : Type) : Type := Ok (a : A) | Reject | OutOfFuel.
Arguments Ok {A} a.
Arguments Reject {A}.
Arguments OutOfFuel {A}.

Definition bind {A B} (r : res A) (k : A -> res B) : res B :=
  match r with Ok a => k a | Reject => Reject | OutOfFuel => OutOfFuel end.
Definition is_ok {A} (r : res A) : bool := match r with Ok _ => true | _ => false end.

(* byte-string constants *)
Definition b (s : string) : bytes := map N_of_ascii (list_ascii_of_string s).

Definition kw_contains : bytes := Eval compute in b "contains".
Definition kw_starts : bytes := Eval compute in b "starts".
Definition kw_ends : bytes := Eval compute in b "ends".
Definition kw_with : bytes := Eval compute in b "with".
Definition kw_not : bytes := Eval compute in b "not".
Definition kw_in : bytes := Eval compute in b "in".
Definition kw_has : bytes := Eval compute in b "has(".
Definition kw_all : bytes := Eval compute in b "all(".
Definition kw_global : bytes := Eval compute in b "global(".

(* ------------------------------------------------------------------ tokenizer *)

Inductive token : Type :=
| TLabel (s : bytes) | TStr (s : bytes)
| TLBrace | TRBrace | TComma | TEq | TNe | TIn | TNot | TNotIn
| TContains | TStartsWith | TEndsWith | TAll | THas (s : bytes)
| TLParen | TRParen | TAnd | TOr | TGlobal | TEOF.

Definition is_label (t : token) : bool := match t with TLabel _ => true | _ => false end.

(* trimWhitespace: spaces and tabs only *)
Definition is_ws (c : N) : bool := (c =? 32) || (c =? 9).
Fixpoint trim (s : bytes) : bytes :=
  match s with
  | c :: s' => if is_ws c then trim s' else s
  | [] => []
  end.

(* identifierChar *)
Definition ident_char (c : N) : bool :=
  ((97 <=? c) && (c <=? 122)) || ((65 <=? c) && (c <=? 90)) || ((48 <=? c) && (c <=? 57))
  || (c =? 95) || (c =? 46) || (c =? 47) || (c =? 45).

Fixpoint span_ident (s : bytes) : bytes * bytes :=
  match s with
  | c :: s' => if ident_char c then let (i, r) := span_ident s' in (c :: i, r) else ([], s)
  | [] => ([], [])
  end.

Definition max_label_length : nat := 512.

(* cutIdentifier: longest run of identifier characters; error when empty or longer than 512 *)
Definition cut_identifier (s : bytes) : option (bytes * bytes) :=
  let (i, r) := span_ident s in
  if Nat.eqb (List.length i) 0 || Nat.ltb max_label_length (List.length i) then None else Some (i, r).

(* strings.CutPrefix *)
Fixpoint cut_prefix (p s : bytes) : option bytes :=
  match p with
  | [] => Some s
  | x :: p' => match s with
               | y :: s' => if x =? y then cut_prefix p' s' else None
               | [] => None
               end
  end.

Definition word_boundary (s : bytes) : bool :=
  match s with [] => true | c :: _ => negb (ident_char c) end.

Definition cut_prefix_break (p s : bytes) : option bytes :=
  match cut_prefix p s with
  | Some r => if word_boundary r then Some r else None
  | None => None
  end.

(* cutMultiWordPrefixCheckBreak(input, w1, w2): whitespace is trimmed after EACH word (also the last) and
   the word-boundary test is applied to what is left after that *)
Definition cut_multi (w1 w2 s : bytes) : option bytes :=
  match cut_prefix w1 s with
  | Some r1 => match cut_prefix w2 (trim r1) with
               | Some r2 => let r := trim r2 in if word_boundary r then Some r else None
               | None => None
               end
  | None => None
  end.

(* strings.Index + slicing: text before / after the first occurrence of byte q *)
Fixpoint split_at (q : N) (s : bytes) : option (bytes * bytes) :=
  match s with
  | [] => None
  | c :: s' => if c =? q then Some ([], s')
               else match split_at q s' with Some (v, r) => Some (c :: v, r) | None => None end
  end.

(* the `default:` arm of the switch in AppendTokens *)
Definition default_token (last_label : bool) (s : bytes) : res (token * bytes) :=
  if last_label then
    match cut_prefix_break kw_contains s with Some r => Ok (TContains, r) | None =>
    match cut_multi kw_starts kw_with s with Some r => Ok (TStartsWith, r) | None =>
    match cut_multi kw_ends kw_with s with Some r => Ok (TEndsWith, r) | None =>
    match cut_multi kw_not kw_in s with Some r => Ok (TNotIn, r) | None =>
    match cut_prefix_break kw_in s with Some r => Ok (TIn, r) | None => Reject
    end end end end end
  else
    match cut_prefix kw_has s with
    | Some r =>
        match cut_identifier (trim r) with
        | Some (id, r2) => match cut_prefix [41] (trim r2) with
                           | Some r3 => Ok (THas id, r3)
                           | None => Reject
                           end
        | None => Reject
        end
    | None =>
    match cut_prefix kw_all s with
    | Some r => match cut_prefix [41] (trim r) with Some r' => Ok (TAll, r') | None => Reject end
    | None =>
    match cut_prefix kw_global s with
    | Some r => match cut_prefix [41] (trim r) with Some r' => Ok (TGlobal, r') | None => Reject end
    | None =>
    match cut_identifier s with
    | Some (id, r) => Ok (TLabel id, r)
    | None => Reject
    end end end end.

(* one iteration of the loop body, input already trimmed and non-empty *)
Definition next_token (last_label : bool) (s : bytes) : res (token * bytes) :=
  match s with
  | [] => Reject
  | c :: r =>
    if c =? 40 then Ok (TLParen, r)
    else if c =? 41 then Ok (TRParen, r)
    else if c =? 34 then match split_at 34 r with Some (v, r') => Ok (TStr v, r') | None => Reject end
    else if c =? 39 then match split_at 39 r with Some (v, r') => Ok (TStr v, r') | None => Reject end
    else if c =? 123 then Ok (TLBrace, r)
    else if c =? 125 then Ok (TRBrace, r)
    else if c =? 44 then Ok (TComma, r)
    else if c =? 61 then match cut_prefix [61] r with Some r' => Ok (TEq, r') | None => Reject end
    else if c =? 33 then match cut_prefix [61] r with Some r' => Ok (TNe, r') | None => Ok (TNot, r) end
    else if c =? 38 then match cut_prefix [38] r with Some r' => Ok (TAnd, r') | None => Reject end
    else if c =? 124 then match cut_prefix [124] r with Some r' => Ok (TOr, r') | None => Reject end
    else default_token last_label s
  end.

(* AppendTokens(nil, input).  `last_label` is lastTokKind == TokLabel.  (The Go loop's "infinite loop
   detected" guard is not modelled: every arm consumes at least one byte.) *)
Fixpoint tok_loop (fuel : nat) (last_label : bool) (s : bytes) : res (list token) :=
  match fuel with
  | O => OutOfFuel
  | S f =>
    match trim s with
    | [] => Ok [TEOF]
    | s' => match next_token last_label s' with
            | Ok (t, r) => match tok_loop f (is_label t) r with
                           | Ok ts => Ok (t :: ts)
                           | Reject => Reject
                           | OutOfFuel => OutOfFuel
                           end
            | Reject => Reject
            | OutOfFuel => OutOfFuel
            end
    end
  end.

Definition tokenize (s : bytes) : res (list token) := tok_loop (S (List.length s)) false s.

(* ------------------------------------------------------------------ string sets *)

(* ConvertToStringSetInPlace sorts by Go string order and drops adjacent duplicates.  The result is
   the unique strictly increasing list with the same elements; modelled as duplicate-dropping insertion. *)
Fixpoint insert_set (x : bytes) (xs : list bytes) : list bytes :=
  match xs with
  | [] => [x]
  | y :: ys => if bytes_ltb x y then x :: xs
               else if bytes_eqb x y then xs
               else y :: insert_set x ys
  end.
Definition to_set (vs : list bytes) : list bytes := fold_right insert_set [] vs.

(* ------------------------------------------------------------------ parser *)

Definition parser (A : Type) := list token -> res (A * list token).

Fixpoint strip_nots (toks : list token) : bool * list token :=
  match toks with
  | TNot :: rest => let (n, r) := strip_nots rest in (negb n, r)
  | _ => (false, toks)
  end.

(* the loop that collects string literals of a set literal: a literal, then a comma continues, anything
   else stops (so a trailing comma and the empty set are accepted) *)
Fixpoint parse_set (toks : list token) : list bytes * list token :=
  match toks with
  | TStr v :: TComma :: rest => let (vs, r) := parse_set rest in (v :: vs, r)
  | TStr v :: rest => ([v], rest)
  | _ => ([], toks)
  end.

(* "expr (sep expr)*" loops of parseOrExpression / parseAndExpression *)
Fixpoint tail_loop (is_sep : token -> bool) (p : parser ast) (n : nat) (toks : list token)
  : res (list ast * list token) :=
  match toks with
  | t :: rest =>
      if is_sep t then
        match n with
        | O => OutOfFuel
        | S n' => bind (p rest) (fun ar => bind (tail_loop is_sep p n' (snd ar))
                                   (fun xr => Ok (fst ar :: fst xr, snd xr)))
        end
      else Ok ([], toks)
  | [] => Ok ([], toks)   (* unreachable in Go: the EOF token is never consumed *)
  end.

Definition chain (mk : list ast -> ast) (is_sep : token -> bool) (p : parser ast) (n : nat) : parser ast :=
  fun toks =>
    bind (p toks) (fun ar =>
    bind (tail_loop is_sep p n (snd ar)) (fun xr =>
    Ok (match fst xr with [] => fst ar | _ => mk (fst ar :: fst xr) end, snd xr))).

Definition is_and (t : token) : bool := match t with TAnd => true | _ => false end.
Definition is_or (t : token) : bool := match t with TOr => true | _ => false end.

Definition parse_and_with (op : parser ast) (n : nat) : parser ast := chain SAnd is_and op n.
Definition parse_or_with (op : parser ast) (n : nat) : parser ast := chain SOr is_or (parse_and_with op n) n.

(* the switch on tokens[0].Kind in parseOperation, after the leading "!"s *)
Definition parse_base (por : parser ast) (toks : list token) : res (ast * list token) :=
  match toks with
  | THas l :: rest => Ok (SHas l, rest)
  | TAll :: rest => Ok (SAll, rest)
  | TGlobal :: rest => Ok (SGlobal, rest)
  | TLabel l :: TEq :: TStr v :: rest => Ok (SEq l v, rest)
  | TLabel l :: TNe :: TStr v :: rest => Ok (SNe l v, rest)
  | TLabel l :: TContains :: TStr v :: rest => Ok (SContains l v, rest)
  | TLabel l :: TStartsWith :: TStr v :: rest => Ok (SStartsWith l v, rest)
  | TLabel l :: TEndsWith :: TStr v :: rest => Ok (SEndsWith l v, rest)
  | TLabel l :: TIn :: TLBrace :: rest =>
      match parse_set rest with
      | (vs, TRBrace :: r) => Ok (SIn l (to_set vs), r)
      | _ => Reject
      end
  | TLabel l :: TNotIn :: TLBrace :: rest =>
      match parse_set rest with
      | (vs, TRBrace :: r) => Ok (SNotIn l (to_set vs), r)
      | _ => Reject
      end
  | TLParen :: rest =>
      match por rest with
      | Ok (a, TRParen :: r) => Ok (a, r)
      | Ok _ => Reject
      | Reject => Reject
      | OutOfFuel => OutOfFuel
      end
  | _ => Reject
  end.

Fixpoint parse_op (fuel : nat) (toks : list token) : res (ast * list token) :=
  match fuel with
  | O => OutOfFuel
  | S f =>
      let (neg, t1) := strip_nots toks in
      match parse_base (parse_or_with (parse_op f) f) t1 with
      | Ok (a, r) => Ok (if neg then SNot a else a, r)
      | Reject => Reject
      | OutOfFuel => OutOfFuel
      end
  end.

Definition parse_or (fuel : nat) : parser ast := parse_or_with (parse_op fuel) fuel.

(* parseRoot(selector, validateOnly=false) after tokenizing *)
Definition parse_root (toks : list token) : res ast :=
  match toks with
  | TEOF :: _ => Ok SAll
  | _ => match parse_or (S (List.length toks)) toks with   (* fuel: more than the number of tokens *)
         | Ok (a, [_]) => Ok a
         | Ok _ => Reject
         | Reject => Reject
         | OutOfFuel => OutOfFuel
         end
  end.

Definition parse (s : bytes) : res ast := bind (tokenize s) parse_root.

(* --- the validateOnly path: same control flow, no nodes built --- *)

Fixpoint vtail_loop (is_sep : token -> bool) (p : parser unit) (n : nat) (toks : list token)
  : res (unit * list token) :=
  match toks with
  | t :: rest =>
      if is_sep t then
        match n with
        | O => OutOfFuel
        | S n' => bind (p rest) (fun ar => vtail_loop is_sep p n' (snd ar))
        end
      else Ok (tt, toks)
  | [] => Ok (tt, toks)
  end.

Definition vchain (is_sep : token -> bool) (p : parser unit) (n : nat) : parser unit :=
  fun toks => bind (p toks) (fun ar => vtail_loop is_sep p n (snd ar)).

Definition validate_and_with (op : parser unit) (n : nat) : parser unit := vchain is_and op n.
Definition validate_or_with (op : parser unit) (n : nat) : parser unit := vchain is_or (validate_and_with op n) n.

Definition validate_base (por : parser unit) (toks : list token) : res (unit * list token) :=
  match toks with
  | THas _ :: rest => Ok (tt, rest)
  | TAll :: rest => Ok (tt, rest)
  | TGlobal :: rest => Ok (tt, rest)
  | TLabel _ :: TEq :: TStr _ :: rest => Ok (tt, rest)
  | TLabel _ :: TNe :: TStr _ :: rest => Ok (tt, rest)
  | TLabel _ :: TContains :: TStr _ :: rest => Ok (tt, rest)
  | TLabel _ :: TStartsWith :: TStr _ :: rest => Ok (tt, rest)
  | TLabel _ :: TEndsWith :: TStr _ :: rest => Ok (tt, rest)
  | TLabel _ :: TIn :: TLBrace :: rest =>
      match parse_set rest with
      | (_, TRBrace :: r) => Ok (tt, r)
      | _ => Reject
      end
  | TLabel _ :: TNotIn :: TLBrace :: rest =>
      match parse_set rest with
      | (_, TRBrace :: r) => Ok (tt, r)
      | _ => Reject
      end
  | TLParen :: rest =>
      match por rest with
      | Ok (_, TRParen :: r) => Ok (tt, r)
      | Ok _ => Reject
      | Reject => Reject
      | OutOfFuel => OutOfFuel
      end
  | _ => Reject
  end.

Fixpoint validate_op (fuel : nat) (toks : list token) : res (unit * list token) :=
  match fuel with
  | O => OutOfFuel
  | S f =>
      let (_, t1) := strip_nots toks in
      validate_base (validate_or_with (validate_op f) f) t1
  end.

Definition validate_or (fuel : nat) : parser unit := validate_or_with (validate_op fuel) fuel.

Definition validate_root (toks : list token) : res unit :=
  match toks with
  | TEOF :: _ => Ok tt
  | _ => match validate_or (S (List.length toks)) toks with
         | Ok (_, [_]) => Ok tt
         | Ok _ => Reject
         | Reject => Reject
         | OutOfFuel => OutOfFuel
         end
  end.

Definition validate (s : bytes) : res unit := bind (tokenize s) validate_root.

(* ------------------------------------------------------------------ canonical printer *)

Definition s_eq : bytes := Eval compute in b " == ".
Definition s_ne : bytes := Eval compute in b " != ".
Definition s_contains : bytes := Eval compute in b " contains ".
Definition s_starts : bytes := Eval compute in b " starts with ".
Definition s_ends : bytes := Eval compute in b " ends with ".
Definition s_in : bytes := Eval compute in b " in {".
Definition s_notin : bytes := Eval compute in b " not in {".
Definition s_has : bytes := Eval compute in b "has(".
Definition s_all : bytes := Eval compute in b "all()".
Definition s_global : bytes := Eval compute in b "global()".
Definition s_and : bytes := Eval compute in b " && ".
Definition s_or : bytes := Eval compute in b " || ".
Definition s_comma : bytes := Eval compute in b ", ".

(* appendLabelOpAndQuotedString / collectInOpFragments: single quotes iff the value contains a double quote *)
Definition quote_of (v : bytes) : N := if existsb (N.eqb 34) v then 39 else 34.
Definition quoted (v : bytes) : bytes := quote_of v :: v ++ [quote_of v].

Fixpoint join_with (sep : bytes) (xs : list bytes) : bytes :=
  match xs with
  | [] => []
  | [x] => x
  | x :: rest => x ++ sep ++ join_with sep rest
  end.

Definition is_not (a : ast) : bool := match a with SNot _ => true | _ => false end.

(* collectFragments joined.  `pn` selects the printer variant:
     pn = false : the pinned code — NotNode prints "!" followed by its operand;
     pn = true  : the repaired code (fixes/C06-not-not-parens.patch) — a NotNode whose operand is itself a
                  NotNode prints the operand in parentheses.
   The driver probes which variant the tree under test has (it prints `!(!has(a))`) and passes it in the case. *)
Fixpoint to_string (pn : bool) (a : ast) : bytes :=
  match a with
  | SEq l v => l ++ s_eq ++ quoted v
  | SNe l v => l ++ s_ne ++ quoted v
  | SContains l v => l ++ s_contains ++ quoted v
  | SStartsWith l v => l ++ s_starts ++ quoted v
  | SEndsWith l v => l ++ s_ends ++ quoted v
  | SIn l vs => l ++ s_in ++ join_with s_comma (map quoted vs) ++ [125]
  | SNotIn l vs => l ++ s_notin ++ join_with s_comma (map quoted vs) ++ [125]
  | SHas l => s_has ++ l ++ [41]
  | SAll => s_all
  | SGlobal => s_global
  | SNot x => 33 :: (if pn && is_not x then 40 :: to_string pn x ++ [41] else to_string pn x)
  | SAnd xs => 40 :: join_with s_and (map (to_string pn) xs) ++ [41]
  | SOr xs => 40 :: join_with s_or (map (to_string pn) xs) ++ [41]
  end.

(* Selector.UniqueID = hash.MakeUniqueID("s", String()) = "s:" ++ base64(sha224("s:" ++ String())).
   The hash is a parameter: nothing about SHA-224 is used. *)
Section UID.
  Variable H : bytes -> bytes.
  Definition uid_prefix : bytes := Eval compute in b "s:".
  Definition uid_of_text (t : bytes) : bytes := uid_prefix ++ H (uid_prefix ++ t).
  Definition uid (pn : bool) (a : ast) : bytes := uid_of_text (to_string pn a).
End UID.

(* canonical form of an input *)
Definition canon (pn : bool) (s : bytes) : res bytes :=
  match parse s with Ok a => Ok (to_string pn a) | Reject => Reject | OutOfFuel => OutOfFuel end.
