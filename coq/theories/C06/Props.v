(* C06 — property theorems only. *)
From Coq Require Import List NArith Bool.
From Verif.Common Require Import Labels.
From Verif.C06 Require Import Model Spec Proofs.
Import ListNotations.
Open Scope N_scope.

(* FINDING: with the printer of the pinned tree the round trip fails (double negation through parentheses). *)
Theorem c06_print_parse_refuted :
  exists s a a', parse s = Ok a /\ parse (to_string false a) = Ok a' /\ to_string false a' <> to_string false a.
Proof. exact print_parse_refuted_pinned. Qed.
Print Assumptions c06_print_parse_refuted.
