(* C06 — property theorems only.  `to_string true` is the repaired printer (fixes/C06-not-not-parens.patch),
   `to_string false` the printer of the pinned tree; the parser, validator and evaluator are the same for both.
   roundtrip_ok / same_uid / validate_agrees / canonical_idempotent are defined in Spec.v. *)
From Coq Require Import List NArith Bool.
From Verif.Common Require Import Labels.
From Verif.C06 Require Import Model Spec TokProofs ParseProofs ImageProofs ValidateProofs FuelProofs PinnedProofs Proofs NormProofs Visitor VisitorProofs.
Import ListNotations.
Open Scope N_scope.

(* For EVERY byte string the parser accepts, the canonical text parses back to a selector with the same
   canonical text that evaluates identically on ALL label maps (repaired printer). *)
Theorem c06_print_parse : forall s, roundtrip_ok parse (to_string true) s.
Proof. exact print_parse_fixed. Qed.
Print Assumptions c06_print_parse.

(* Stronger form used by the above: the re-parsed AST is the identical AST. *)
Theorem c06_print_parse_same_ast : forall s a, parse s = Ok a -> parse (to_string true a) = Ok a.
Proof. exact roundtrip_fixed. Qed.
Print Assumptions c06_print_parse_same_ast.

(* AST-level printer/parser composition, for ANY well-formed AST (not only parser outputs) and both printers;
   for the pinned printer (pn = false) well-formedness includes "no negation directly under a negation". *)
Theorem c06_print_parse_wf_ast : forall pn a, wfb pn a = true -> parse (to_string pn a) = Ok a.
Proof. exact parse_to_string. Qed.
Print Assumptions c06_print_parse_wf_ast.

(* FINDING: with the printer of the pinned tree the round trip fails (double negation through parentheses) ... *)
Theorem c06_print_parse_refuted :
  exists s a a', parse s = Ok a /\ parse (to_string false a) = Ok a' /\ to_string false a' <> to_string false a.
Proof. exact print_parse_refuted_pinned. Qed.
Print Assumptions c06_print_parse_refuted.

(* ... and the complete description of when it holds for the pinned printer, at the level the property speaks
   about (canonical text / identity hash of the re-parsed selector), for every accepted input: the text is
   the same if and only if the parsed AST has no negation directly under a negation; same for the UID under
   an injective hash.  (These replace the former *_pinned_partial theorems, which were the "if" halves.) *)
Theorem c06_pinned_text_iff : forall s a a', parse s = Ok a -> parse (to_string false a) = Ok a' ->
  (to_string false a' = to_string false a <-> nn_free a = true).
Proof. exact pinned_text_iff. Qed.
Print Assumptions c06_pinned_text_iff.

Theorem c06_pinned_uid_iff : forall (H : bytes -> bytes), (forall x y, H x = H y -> x = y) ->
  forall s a a', parse s = Ok a -> parse (to_string false a) = Ok a' ->
  (uid H false a' = uid H false a <-> nn_free a = true).
Proof. exact pinned_uid_iff. Qed.
Print Assumptions c06_pinned_uid_iff.

(* What DOES hold for the pinned printer on every accepted input, !(!x) included: the canonical text is
   accepted again and means the same on all label maps.  (So the finding is confined to text/UID stability.) *)
Theorem c06_pinned_meaning_preserved : forall s a, parse s = Ok a ->
  exists a', parse (to_string false a) = Ok a' /\ forall L : labels, eval a' L = eval a L.
Proof. exact pinned_meaning_preserved. Qed.
Print Assumptions c06_pinned_meaning_preserved.

(* Exact extent of the finding: re-parsing the pinned canonical text yields `norm a` (every chain of negations
   reduced modulo 2), so the pinned round trip returns the same AST if and only if no negation sits directly
   under a negation; and a second pinned round trip changes nothing more. *)
Theorem c06_pinned_reparse_norm : forall s a, parse s = Ok a -> parse (to_string false a) = Ok (norm a).
Proof. exact pinned_reparse_norm. Qed.
Print Assumptions c06_pinned_reparse_norm.

Theorem c06_pinned_roundtrip_iff : forall s a, parse s = Ok a ->
  (parse (to_string false a) = Ok a <-> nn_free a = true).
Proof. exact pinned_roundtrip_iff. Qed.
Print Assumptions c06_pinned_roundtrip_iff.

Theorem c06_pinned_second_roundtrip_stable : forall s a, parse s = Ok a ->
  parse (to_string false (norm a)) = Ok (norm a).
Proof. exact pinned_second_roundtrip_stable. Qed.
Print Assumptions c06_pinned_second_roundtrip_stable.

(* Same identity hash, whatever the hash function is. *)
Theorem c06_same_uid : forall (H : bytes -> bytes) s, same_uid parse (to_string true) (uid H true) s.
Proof. exact same_uid_fixed. Qed.
Print Assumptions c06_same_uid.


(* The validation entry point accepts exactly the expressions the parser accepts (all byte strings). *)
Theorem c06_validate_iff_parse : forall s, validate_agrees parse validate s.
Proof. exact validate_iff_parse. Qed.
Print Assumptions c06_validate_iff_parse.

(* Same, as one equation: Validate (parseRoot with validateOnly = true, modelled separately in Model.v: validate_root, validate_op ...)
   returns exactly the outcome of Parse with the AST forgotten - acceptance, rejection, and no other case. *)
Theorem c06_validate_same_outcome : forall s,
  validate s = match parse s with Ok _ => Ok tt | Reject => Reject | OutOfFuel => OutOfFuel end.
Proof. exact validate_parse. Qed.
Print Assumptions c06_validate_same_outcome.

(* Canonical form is a fixed point of canonicalisation (repaired printer); refuted for the pinned one. *)
Theorem c06_canonical_idempotent : forall s, canonical_idempotent (canon true) s.
Proof. exact canon_idempotent_fixed. Qed.
Print Assumptions c06_canonical_idempotent.

Theorem c06_canonical_idempotent_refuted : exists s t, canon false s = Ok t /\ canon false t <> Ok t.
Proof. exact idempotent_refuted_pinned. Qed.
Print Assumptions c06_canonical_idempotent_refuted.

(* Tokenizer/parser invariant behind all of the above: what parse returns is well-formed
   (labels are 1..512 identifier bytes, no value contains both quote characters, sets strictly sorted,
   and/or nodes have >= 2 operands). *)
Theorem c06_parse_image_wf : forall s a, parse s = Ok a -> wfb true a = true.
Proof. exact parse_wf. Qed.
Print Assumptions c06_parse_image_wf.

(* ---- Selector.AcceptVisitor(PrefixVisitor{p}) (ast.go), model in Visitor.v ----
   The visited selector's canonical text parses back to the identical prefixed AST whenever p consists of
   identifier bytes and every prefixed name still fits MaxLabelLength; it then means "the original selector on
   the p-part of the label map"; and WITHOUT the length condition the round trip is false (finding
   prefix-label-too-long: "pcns." + a 510-byte label). *)
Theorem c06_prefix_roundtrip : forall p s a, forallb ident_char p = true -> parse s = Ok a -> prefix_fits p a = true ->
  parse (to_string true (prefix_labels p a)) = Ok (prefix_labels p a).
Proof. exact prefix_roundtrip. Qed.
Print Assumptions c06_prefix_roundtrip.

Theorem c06_prefix_eval : forall p a (L : labels), eval (prefix_labels p a) L = eval a (unprefix p L).
Proof. exact prefix_eval. Qed.
Print Assumptions c06_prefix_eval.

Theorem c06_prefix_too_long_refuted :
  exists p s a, forallb ident_char p = true /\ parse s = Ok a /\ parse (to_string true (prefix_labels p a)) = Reject.
Proof. exact prefix_too_long_refuted. Qed.
Print Assumptions c06_prefix_too_long_refuted.

Theorem c06_visitor_meets_spec : forall (H : bytes -> bytes) p s a maps,
  forallb ident_char p = true -> parse s = Ok a -> prefix_fits p a = true ->
  ok_pcase (model_pcase H s p maps a) = true.
Proof. exact visitor_meets_spec. Qed.
Print Assumptions c06_visitor_meets_spec.

(* The fuel of the model's recursions never runs out: the three-valued results are really two-valued. *)
Theorem c06_no_out_of_fuel : forall s, tokenize s <> OutOfFuel /\ parse s <> OutOfFuel /\ validate s <> OutOfFuel.
Proof. exact no_out_of_fuel. Qed.
Print Assumptions c06_no_out_of_fuel.

(* The specification oracle accepts every run of the (repaired) model. *)
Theorem c06_model_meets_spec : forall (H : bytes -> bytes) s maps, ok_case (model_case H true s maps) = true.
Proof. exact model_meets_spec_fixed. Qed.
Print Assumptions c06_model_meets_spec.

(* Hypotheses are satisfiable by a non-trivial input: ex_input uses every operator, nested, with noise. *)
Example c06_example : parse ex_input = Ok ex_ast /\ nn_free ex_ast = true /\ (10 <= ast_size ex_ast)%nat
                      /\ to_string false ex_ast <> ex_input.
Proof. exact ex_parses. Qed.
