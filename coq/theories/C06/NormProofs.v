(* C06 — exact description of what the pinned printer + parser do: re-parsing the pinned canonical text
   yields `norm a`, the AST with every chain of negations reduced modulo 2. *)
From Coq Require Import List NArith Bool Arith Lia.
From Verif.Common Require Import Labels.
From Verif.C06 Require Import Model Spec TokProofs ParseProofs ImageProofs PinnedProofs Proofs.
Import ListNotations.
Open Scope N_scope.

Fixpoint norm (a : ast) : ast :=
  match a with
  | SNot x => match norm x with SNot y => y | z => SNot z end
  | SAnd xs => SAnd (map norm xs)
  | SOr xs => SOr (map norm xs)
  | _ => a
  end.

Definition is_norm (x y : ast) : Prop := y = norm x.

Lemma Forall2_is_norm : forall xs ys, Forall2 is_norm xs ys -> ys = map norm xs.
Proof. intros xs ys H. induction H; simpl; auto. rewrite H, IHForall2. reflexivity. Qed.

Lemma nn_free_not_inv : forall y, nn_free (SNot y) = true -> is_not y = false /\ nn_free y = true.
Proof. intros y H. simpl in H. apply andb_true_iff in H. destruct H as [H1 H2]. apply negb_true_iff in H1. auto. Qed.

Definition P3 (a : ast) : Prop := forall f rest, (ast_size a <= f)%nat ->
  parse_op f (toks_of false a ++ rest) = Ok (norm a, rest)
  /\ fst (strip_nots (toks_of false a ++ rest)) = is_not (norm a)
  /\ nn_free (norm a) = true.

Lemma parse_toks_norm : forall a, wfb true a = true -> P3 a.
Proof.
  induction a using ast_ind_nested; intros W f rest Hf; cbn [wfb] in W;
    (destruct f as [|f]; [pose proof (ast_size_pos (SAll)); simpl in Hf; lia|]).
  1-5: (split; [reflexivity|split; reflexivity]).
  - split_and W. split; [|split; reflexivity].
    cbn [toks_of app parse_op strip_nots parse_base norm]. rewrite <- app_assoc. cbn [app].
    rewrite parse_set_toks. rewrite to_set_sorted by auto. reflexivity.
  - split_and W. split; [|split; reflexivity].
    cbn [toks_of app parse_op strip_nots parse_base norm]. rewrite <- app_assoc. cbn [app].
    rewrite parse_set_toks. rewrite to_set_sorted by auto. reflexivity.
  - split; [reflexivity|split; reflexivity].
  - split; [reflexivity|split; reflexivity].
  - split; [reflexivity|split; reflexivity].
  - (* not *)
    split_and W. cbn [ast_size] in Hf. cbn [toks_of andb app].
    destruct (IHa W0 (S f) rest ltac:(lia)) as [E [S N]].
    cbn [parse_op] in E. cbn [parse_op strip_nots norm].
    destruct (strip_nots (toks_of false a ++ rest)) as [n t1]. cbn [fst] in *.
    destruct (parse_base (parse_or_with (parse_op f) f) t1) as [[y r']| |]; try discriminate.
    destruct n; cbn [negb].
    + (* odd so far: norm a = SNot y, the new "!" cancels it *)
      inversion E as [[E1 E2]]; subst r'. rewrite <- E1 in *.
      destruct (nn_free_not_inv y N) as [Ny Fy]. split; [reflexivity|]. split; [symmetry; exact Ny|exact Fy].
    + inversion E as [[E1 E2]]; subst r'. subst y.
      destruct (norm a) eqn:Na; try (split; [reflexivity|split; [reflexivity|simpl; simpl in N; rewrite ?N; reflexivity]]).
      simpl in S. discriminate.
  - (* and *) split_and W. cbn [ast_size] in Hf. fold (sum_size xs) in Hf.
    destruct xs as [|x xs']; [discriminate|].
    assert (NE : xs' <> []) by (destruct xs'; [discriminate|discriminate]).
    assert (HP : Forall (fun x => forall f rest, (ast_size x <= f)%nat ->
                   parse_op f (toks_of false x ++ rest) = Ok (norm x, rest) /\ nn_free (norm x) = true) (x :: xs')).
    { apply Forall_forall. intros y Hy f' r' Hf'. rewrite Forall_forall in H.
      destruct (H y Hy ltac:(rewrite forallb_forall in W0; auto) f' r' Hf') as [A [_ C]]. auto. }
    split; [|split; [reflexivity|]].
    + cbn [toks_of app parse_op strip_nots parse_base norm]. rewrite <- app_assoc. cbn [app].
      assert (HF : Forall (fun x => forall r, True -> exists y, parse_op f (toks_of false x ++ r) = Ok (y, r) /\ is_norm x y) (x :: xs')).
      { apply Forall_forall. intros y Hy r _. rewrite Forall_forall in HP. exists (norm y). split; [|reflexivity].
        apply HP; auto. pose proof (sum_size_in _ _ Hy). lia. }
      destruct (chain_okR is_and TAnd (parse_op f) (toks_of false) (fun _ => True) is_norm eq_refl (fun _ => I) SAnd x xs' f (TRParen :: rest) I eq_refl
                  ltac:(pose proof (sum_size_len (x :: xs')); simpl in *; lia) HF) as [y [ys [E [Ry Rys]]]].
      apply Forall2_is_norm in Rys. unfold is_norm in Ry. subst y ys.
      destruct xs' as [|x2 xs'']; [congruence|]. cbn [map] in E.
      assert (E2 : parse_or_with (parse_op f) f (join_toks TAnd (map (toks_of false) (x :: x2 :: xs'')) ++ TRParen :: rest)
                  = Ok (SAnd (norm x :: norm x2 :: map norm xs''), TRParen :: rest)).
      { unfold parse_or_with. apply or_single; [|exact I]. exact E. }
      rewrite E2. reflexivity.
    + cbn [norm nn_free]. rewrite forallb_forall. intros z Hz. apply in_map_iff in Hz. destruct Hz as [y [<- Hy]].
      rewrite Forall_forall in HP. apply (HP y Hy (ast_size y) [] (le_n _)).
  - (* or *) split_and W. cbn [ast_size] in Hf. fold (sum_size xs) in Hf.
    destruct xs as [|x xs']; [discriminate|].
    assert (NE : xs' <> []) by (destruct xs'; [discriminate|discriminate]).
    assert (HP : Forall (fun x => forall f rest, (ast_size x <= f)%nat ->
                   parse_op f (toks_of false x ++ rest) = Ok (norm x, rest) /\ nn_free (norm x) = true) (x :: xs')).
    { apply Forall_forall. intros y Hy f' r' Hf'. rewrite Forall_forall in H.
      destruct (H y Hy ltac:(rewrite forallb_forall in W0; auto) f' r' Hf') as [A [_ C]]. auto. }
    split; [|split; [reflexivity|]].
    + cbn [toks_of app parse_op strip_nots parse_base norm]. rewrite <- app_assoc. cbn [app].
      assert (HF : Forall (fun x => forall r, no_and_hd r -> exists y, parse_and_with (parse_op f) f (toks_of false x ++ r) = Ok (y, r) /\ is_norm x y) (x :: xs')).
      { apply Forall_forall. intros y Hy r Hr. rewrite Forall_forall in HP. exists (norm y). split; [|reflexivity].
        apply and_single; auto. apply HP; auto. pose proof (sum_size_in _ _ Hy). lia. }
      destruct (chain_okR is_or TOr (parse_and_with (parse_op f) f) (toks_of false) no_and_hd is_norm eq_refl (fun _ => I) SOr x xs' f (TRParen :: rest) I eq_refl
                  ltac:(pose proof (sum_size_len (x :: xs')); simpl in *; lia) HF) as [y [ys [E [Ry Rys]]]].
      apply Forall2_is_norm in Rys. unfold is_norm in Ry. subst y ys.
      destruct xs' as [|x2 xs'']; [congruence|]. cbn [map] in E.
      unfold parse_or_with. cbn [map]. rewrite E. reflexivity.
    + cbn [norm nn_free]. rewrite forallb_forall. intros z Hz. apply in_map_iff in Hz. destruct Hz as [y [<- Hy]].
      rewrite Forall_forall in HP. apply (HP y Hy (ast_size y) [] (le_n _)).
Qed.

(* Re-parsing the pinned canonical text of a parsed selector yields exactly norm a. *)
Lemma pinned_reparse_norm : forall s a, parse s = Ok a -> parse (to_string false a) = Ok (norm a).
Proof.
  intros s a H. pose proof (parse_wf s a H) as W.
  unfold parse at 1. rewrite (tokenize_to_string_gen false a W). cbn [bind].
  destruct (parse_toks_norm a W (S (length (toks_of false a ++ [TEOF]))) [TEOF]
              ltac:(rewrite app_length; pose proof (size_le_toks false a); lia)) as [E _].
  assert (E2 : parse_or (S (length (toks_of false a ++ [TEOF]))) (toks_of false a ++ [TEOF]) = Ok (norm a, [TEOF])).
  { unfold parse_or, parse_or_with. apply or_single; [|exact I]. apply and_single; [|exact I]. exact E. }
  unfold parse_root. pose proof (toks_nonempty_not_eof false a [TEOF]) as NE.
  destruct (toks_of false a ++ [TEOF]) as [|t ts] eqn:T; [destruct NE|].
  destruct t; try destruct NE; rewrite E2; reflexivity.
Qed.

Lemma norm_nn_free : forall s a, parse s = Ok a -> nn_free (norm a) = true.
Proof. intros s a H. apply (parse_toks_norm a (parse_wf s a H) (ast_size a) [] (le_n _)). Qed.

Lemma norm_id : forall a, nn_free a = true -> norm a = a.
Proof.
  induction a using ast_ind_nested; cbn [nn_free norm]; intros N; auto.
  - apply andb_true_iff in N. destruct N as [N1 N2]. rewrite IHa by auto.
    destruct a; auto. simpl in N1. discriminate N1.
  - f_equal. induction H; simpl in *; auto. apply andb_true_iff in N. destruct N. rewrite H, IHForall; auto.
  - f_equal. induction H; simpl in *; auto. apply andb_true_iff in N. destruct N. rewrite H, IHForall; auto.
Qed.

(* The pinned round trip returns the same AST exactly for the selectors without a negation directly under a
   negation: this is the whole extent of the finding. *)
Lemma pinned_roundtrip_iff : forall s a, parse s = Ok a ->
  (parse (to_string false a) = Ok a <-> nn_free a = true).
Proof.
  intros s a H. rewrite (pinned_reparse_norm s a H). split.
  - intros E. assert (E1 : norm a = a) by congruence. rewrite <- E1. eapply norm_nn_free; eauto.
  - intros N. rewrite norm_id; auto.
Qed.

(* ... and one more pinned round trip changes nothing: canonicalisation stabilises after the second step. *)
Lemma pinned_second_roundtrip_stable : forall s a, parse s = Ok a ->
  parse (to_string false (norm a)) = Ok (norm a).
Proof.
  intros s a H. apply (roundtrip_pinned (to_string false a)).
  - eapply pinned_reparse_norm; eauto.
  - eapply norm_nn_free; eauto.
Qed.

(* ---- norm never leaves a negation directly under a negation (any AST) ---- *)
Lemma nn_free_norm : forall a, nn_free (norm a) = true.
Proof.
  induction a using ast_ind_nested; cbn [norm nn_free]; auto.
  - destruct (norm a) eqn:E; cbn [nn_free is_not negb andb] in *; auto.
    apply andb_true_iff in IHa. tauto.
  - induction H; simpl; auto. rewrite H, IHForall. reflexivity.
  - induction H; simpl; auto. rewrite H, IHForall. reflexivity.
Qed.

(* ---- norm only ever shortens the pinned text; same length means nothing was removed ---- *)
Definition tlen (a : ast) : nat := length (to_string false a).

Lemma join_len_norm : forall sep xs,
  Forall (fun x => (tlen (norm x) <= tlen x)%nat /\ (tlen (norm x) = tlen x -> norm x = x)) xs ->
  (length (join_with sep (map (to_string false) (map norm xs))) <= length (join_with sep (map (to_string false) xs)))%nat
  /\ (length (join_with sep (map (to_string false) (map norm xs))) = length (join_with sep (map (to_string false) xs))
      -> map norm xs = xs).
Proof.
  intros sep xs HF. induction HF as [|x xs [Hx1 Hx2] HF [IH1 IH2]]; [simpl; auto|].
  unfold tlen in *. destruct xs as [|y ys].
  - simpl. split; auto. intros E. rewrite Hx2; auto.
  - change (join_with sep (map (to_string false) (map norm (x :: y :: ys))))
      with (to_string false (norm x) ++ sep ++ join_with sep (map (to_string false) (map norm (y :: ys)))).
    change (join_with sep (map (to_string false) (x :: y :: ys)))
      with (to_string false x ++ sep ++ join_with sep (map (to_string false) (y :: ys))).
    rewrite !app_length. split; [lia|]. intros E.
    change (map norm (x :: y :: ys)) with (norm x :: map norm (y :: ys)).
    rewrite Hx2 by lia. rewrite IH2 by lia. reflexivity.
Qed.

Lemma tlen_norm : forall a, (tlen (norm a) <= tlen a)%nat /\ (tlen (norm a) = tlen a -> norm a = a).
Proof.
  induction a using ast_ind_nested; try (split; [apply le_n|reflexivity]).
  - (* not *) destruct IHa as [I1 I2]. unfold tlen in *. cbn [norm].
    assert (T : forall y, length (to_string false (SNot y)) = S (length (to_string false y))) by reflexivity.
    rewrite T. destruct (norm a) eqn:E; try (rewrite T; split; [lia|]; intros Q; rewrite I2 by lia; reflexivity).
    (* norm a = SNot a0: two negations disappear *)
    rewrite T in I1, I2. split; [lia|]. intros Q. lia.
  - (* and *) destruct (join_len_norm s_and xs H) as [J1 J2]. unfold tlen. cbn [norm to_string length].
    rewrite !app_length. cbn [length]. split; [lia|]. intros Q. rewrite J2 by lia. reflexivity.
  - (* or *) destruct (join_len_norm s_or xs H) as [J1 J2]. unfold tlen. cbn [norm to_string length].
    rewrite !app_length. cbn [length]. split; [lia|]. intros Q. rewrite J2 by lia. reflexivity.
Qed.

(* the pinned text of norm a equals the pinned text of a exactly when a has no negation under a negation *)
Lemma pinned_text_norm_iff : forall a, to_string false (norm a) = to_string false a <-> nn_free a = true.
Proof.
  intros a. split.
  - intros E. destruct (tlen_norm a) as [_ H]. rewrite <- H; [apply nn_free_norm|]. unfold tlen. rewrite E. reflexivity.
  - intros N. rewrite norm_id; auto.
Qed.

(* Complete description of the pinned printer's round trip at the level the property speaks about: *)
Lemma pinned_text_iff : forall s a a', parse s = Ok a -> parse (to_string false a) = Ok a' ->
  (to_string false a' = to_string false a <-> nn_free a = true).
Proof.
  intros s a a' H1 H2. rewrite (pinned_reparse_norm s a H1) in H2. inversion H2; subst. apply pinned_text_norm_iff.
Qed.

Section UidIff.
  Variable H : bytes -> bytes.
  Hypothesis H_inj : forall x y, H x = H y -> x = y.

  Lemma pinned_uid_iff : forall s a a', parse s = Ok a -> parse (to_string false a) = Ok a' ->
    (uid H false a' = uid H false a <-> nn_free a = true).
  Proof.
    intros s a a' H1 H2. rewrite <- (pinned_text_iff s a a' H1 H2). unfold uid, uid_of_text. split.
    - intros E. apply app_inv_head in E. apply H_inj in E. apply app_inv_head in E. exact E.
    - intros E. rewrite E. reflexivity.
  Qed.
End UidIff.
