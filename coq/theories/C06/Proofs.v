(* C06 — proofs. *)
From Coq Require Import List NArith Bool Arith Lia.
From Verif.Common Require Import Labels.
From Verif.C06 Require Import Model Spec.
Import ListNotations.
Open Scope N_scope.

(* The pinned printer (pn = false) does NOT round-trip: "!(!has(a))" parses to Not(Not(Has a)), prints as
   "!!has(a)", which parses to Has a and prints as "has(a)". *)
Definition dneg_witness : bytes := [33; 40; 33; 104; 97; 115; 40; 97; 41; 41].

Lemma print_parse_refuted_pinned :
  exists s a a', parse s = Ok a /\ parse (to_string false a) = Ok a' /\ to_string false a' <> to_string false a.
Proof.
  exists dneg_witness, (SNot (SNot (SHas [97]))), (SHas [97]).
  split; [vm_compute; reflexivity|]. split; [vm_compute; reflexivity|]. vm_compute. discriminate.
Qed.
