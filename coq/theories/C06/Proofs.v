(* C06 — main results assembled from TokProofs / ParseProofs / ImageProofs / ValidateProofs. *)
From Coq Require Import List NArith Bool Arith Lia String.
From Verif.Common Require Import Labels.
From Verif.C06 Require Import Model Spec TokProofs ParseProofs ImageProofs ValidateProofs FuelProofs.
Import ListNotations.
Open Scope N_scope.

(* no negation directly under a negation *)
Fixpoint nn_free (a : ast) : bool :=
  match a with
  | SNot x => negb (is_not x) && nn_free x
  | SAnd xs | SOr xs => forallb nn_free xs
  | _ => true
  end.

Lemma forallb_mp2 : forall (g h k : ast -> bool) xs,
  Forall (fun x => g x = true -> h x = true -> k x = true) xs ->
  forallb g xs = true -> forallb h xs = true -> forallb k xs = true.
Proof.
  intros g h k xs HF. induction HF as [|x xs Hx HF IH]; simpl; intros G Hh; auto.
  apply andb_true_iff in G. destruct G. apply andb_true_iff in Hh. destruct Hh.
  rewrite Hx, IH; auto.
Qed.

Lemma wfb_pinned : forall a, wfb true a = true -> nn_free a = true -> wfb false a = true.
Proof.
  induction a using ast_ind_nested; cbn [wfb nn_free]; intros W N; auto.
  - apply andb_true_iff in N. destruct N as [N1 N2]. apply andb_true_iff in W. destruct W as [_ W].
    rewrite N1. rewrite IHa; auto.
  - apply andb_true_iff in W. destruct W as [W1 W2]. rewrite W1. simpl.
    apply (forallb_mp2 (wfb true) nn_free (wfb false) xs H W2 N).
  - apply andb_true_iff in W. destruct W as [W1 W2]. rewrite W1. simpl.
    apply (forallb_mp2 (wfb true) nn_free (wfb false) xs H W2 N).
Qed.

(* ---- print/parse round trip ---- *)

(* repaired printer: every parsed selector prints to a text that parses to the IDENTICAL AST *)
Lemma roundtrip_fixed : forall s a, parse s = Ok a -> parse (to_string true a) = Ok a.
Proof. intros s a H. apply parse_to_string. eapply parse_wf; eauto. Qed.

(* pinned printer: the same, provided the AST has no negation directly under a negation *)
Lemma roundtrip_pinned : forall s a, parse s = Ok a -> nn_free a = true -> parse (to_string false a) = Ok a.
Proof. intros s a H N. apply parse_to_string. apply wfb_pinned; auto. eapply parse_wf; eauto. Qed.

Lemma print_parse_fixed : forall s, roundtrip_ok parse (to_string true) s.
Proof. intros s a H. exists a. split; [eapply roundtrip_fixed; eauto|]. split; auto. Qed.

Lemma print_parse_pinned_partial : forall s a, parse s = Ok a -> nn_free a = true ->
  exists a', parse (to_string false a) = Ok a' /\ to_string false a' = to_string false a
             /\ (forall L : labels, eval a' L = eval a L).
Proof. intros s a H N. exists a. split; [eapply roundtrip_pinned; eauto|]. split; auto. Qed.

(* The pinned printer (pn = false) does NOT round-trip: "!(!has(a))" parses to Not(Not(Has a)), prints as
   "!!has(a)", which parses to Has a and prints as "has(a)". *)
Definition dneg_witness : bytes := [33; 40; 33; 104; 97; 115; 40; 97; 41; 41].

Lemma print_parse_refuted_pinned :
  exists s a a', parse s = Ok a /\ parse (to_string false a) = Ok a' /\ to_string false a' <> to_string false a.
Proof.
  exists dneg_witness, (SNot (SNot (SHas [97]))), (SHas [97]).
  split; [vm_compute; reflexivity|]. split; [vm_compute; reflexivity|]. vm_compute. discriminate.
Qed.

Lemma idempotent_refuted_pinned : exists s t, canon false s = Ok t /\ canon false t <> Ok t.
Proof. exists dneg_witness, [33; 33; 104; 97; 115; 40; 97; 41]. split; [vm_compute; reflexivity|]. vm_compute. discriminate. Qed.

(* ---- canonical form idempotent ---- *)

Lemma canon_idempotent_fixed : forall s, canonical_idempotent (canon true) s.
Proof.
  intros s t H. unfold canon in *. destruct (parse s) as [a| |] eqn:E; try discriminate. inversion H; subst.
  rewrite (roundtrip_fixed s a E). reflexivity.
Qed.

Lemma canon_idempotent_pinned_partial : forall s a, parse s = Ok a -> nn_free a = true ->
  canon false (to_string false a) = Ok (to_string false a).
Proof. intros s a E N. unfold canon. rewrite (roundtrip_pinned s a E N). reflexivity. Qed.

(* ---- UID ---- *)

Section UIDProofs.
  Variable H : bytes -> bytes.

  Lemma same_uid_fixed : forall s, same_uid parse (to_string true) (uid H true) s.
  Proof. intros s a a' E1 E2. rewrite (roundtrip_fixed s a E1) in E2. inversion E2; reflexivity. Qed.

  Lemma same_uid_pinned_partial : forall s a a', parse s = Ok a -> nn_free a = true ->
    parse (to_string false a) = Ok a' -> uid H false a' = uid H false a.
  Proof. intros s a a' E1 N E2. rewrite (roundtrip_pinned s a E1 N) in E2. inversion E2; reflexivity. Qed.

  (* ---- the oracle accepts every run of the (repaired) model ---- *)

  Definition model_case (pn : bool) (s : bytes) (maps : list labels) : case :=
    match parse s with
    | Ok a =>
        let t := to_string pn a in
        match parse t with
        | Ok a' => {| c_pn := pn; c_input := s; c_maps := maps; c_accept := true; c_validate := is_ok (validate s);
                      c_text := t; c_evals := map (eval a) maps; c_uid_ok := true;
                      c_re_accept := true; c_re_text := to_string pn a'; c_re_evals := map (eval a') maps;
                      c_re_uid_same := bytes_eqb (uid H pn a') (uid H pn a) |}
        | _ => {| c_pn := pn; c_input := s; c_maps := maps; c_accept := true; c_validate := is_ok (validate s);
                  c_text := t; c_evals := map (eval a) maps; c_uid_ok := true;
                  c_re_accept := false; c_re_text := []; c_re_evals := []; c_re_uid_same := false |}
        end
    | _ => {| c_pn := pn; c_input := s; c_maps := maps; c_accept := false; c_validate := is_ok (validate s);
              c_text := []; c_evals := []; c_uid_ok := false;
              c_re_accept := false; c_re_text := []; c_re_evals := []; c_re_uid_same := false |}
    end.

  Lemma bools_eqb_refl : forall x, bools_eqb x x = true.
  Proof. induction x as [|[] x IH]; simpl; auto. Qed.

  Lemma model_meets_spec_fixed : forall s maps, ok_case (model_case true s maps) = true.
  Proof.
    intros s maps. unfold model_case. rewrite validate_parse.
    destruct (parse s) as [a| |] eqn:E; try reflexivity.
    rewrite (roundtrip_fixed s a E). unfold ok_case. cbn.
    rewrite !bytes_eqb_refl, bools_eqb_refl. reflexivity.
  Qed.

  Lemma model_meets_spec_pinned_partial : forall s maps a, parse s = Ok a -> nn_free a = true ->
    ok_case (model_case false s maps) = true.
  Proof.
    intros s maps a E N. unfold model_case. rewrite validate_parse. rewrite E.
    rewrite (roundtrip_pinned s a E N). unfold ok_case. cbn.
    rewrite !bytes_eqb_refl, bools_eqb_refl. reflexivity.
  Qed.
End UIDProofs.

Lemma no_out_of_fuel : forall s, tokenize s <> OutOfFuel /\ parse s <> OutOfFuel /\ validate s <> OutOfFuel.
Proof. intros s. split; [apply tokenize_no_oof|]. split; [apply parse_no_oof|apply validate_no_oof]. Qed.

(* ---- non-vacuity: a parsed selector with every node type, nested ---- *)
Definition ex_input : bytes := Eval compute in
  b "!has( in ) && (a notin{'y', ""x"",'x',} || !(not starts  with ""it's"" && all())) || global( ) && b endswith""q"" && c contains '' && d != 'z' && e in {}"%string.
Definition ex_ast : ast := Eval vm_compute in match parse ex_input with Ok a => a | _ => SAll end.

Lemma ex_parses : parse ex_input = Ok ex_ast /\ nn_free ex_ast = true /\ (10 <= ast_size ex_ast)%nat
                  /\ to_string false ex_ast <> ex_input.
Proof. split; [vm_compute; reflexivity|]. split; [vm_compute; reflexivity|]. split; [vm_compute; lia|]. vm_compute. discriminate. Qed.
