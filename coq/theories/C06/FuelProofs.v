(* C06 — the fuel never runs out: tokenize / parse / validate never return OutOfFuel. *)
From Coq Require Import List NArith Bool Arith Lia.
From Verif.Common Require Import Labels.
From Verif.C06 Require Import Model Spec TokProofs ValidateProofs.
Import ListNotations.
Open Scope N_scope.
Local Arguments N.eqb : simpl never.

(* ------------------------------------------------------------------ tokenizer *)

Lemma trim_len : forall s, (length (trim s) <= length s)%nat.
Proof. induction s; simpl; auto. destruct (is_ws a); simpl; lia. Qed.

Lemma cut_prefix_len : forall p s r, cut_prefix p s = Some r -> (length s = length p + length r)%nat.
Proof. intros p s r H. apply cut_prefix_spec in H. subst. apply app_length. Qed.

Lemma split_at_len : forall q s v r, split_at q s = Some (v, r) -> (length r < length s)%nat.
Proof. intros q s v r H. apply split_at_spec in H. destruct H as [-> _]. rewrite app_length. simpl. lia. Qed.

Lemma span_ident_len : forall s i r, span_ident s = (i, r) -> (length s = length i + length r)%nat.
Proof.
  induction s; simpl; intros i r H.
  - inversion H; reflexivity.
  - destruct (ident_char a).
    + destruct (span_ident s) as [i' r'] eqn:E. inversion H; subst. simpl. rewrite (IHs i' r eq_refl). reflexivity.
    + inversion H; subst. reflexivity.
Qed.

Lemma cut_identifier_len : forall s i r, cut_identifier s = Some (i, r) -> (length r < length s)%nat.
Proof.
  intros s i r H. unfold cut_identifier in H. destruct (span_ident s) as [i' r'] eqn:E.
  destruct (Nat.eqb (length i') 0) eqn:E1; [discriminate|]. simpl in H.
  destruct (Nat.ltb max_label_length (length i')); [discriminate|]. inversion H; subst.
  apply span_ident_len in E. apply Nat.eqb_neq in E1. lia.
Qed.

Lemma cut_prefix_break_len : forall p s r, cut_prefix_break p s = Some r -> (length s = length p + length r)%nat.
Proof.
  intros p s r H. unfold cut_prefix_break in H. destruct (cut_prefix p s) as [r0|] eqn:E; [|discriminate].
  destruct (word_boundary r0); inversion H; subst. apply cut_prefix_len; auto.
Qed.

Lemma cut_multi_len : forall w1 w2 s r, cut_multi w1 w2 s = Some r -> (length r + length w1 <= length s)%nat.
Proof.
  intros w1 w2 s r H. unfold cut_multi in H. destruct (cut_prefix w1 s) as [r1|] eqn:E1; [|discriminate].
  destruct (cut_prefix w2 (trim r1)) as [r2|] eqn:E2; [|discriminate].
  destruct (word_boundary (trim r2)); inversion H; subst.
  apply cut_prefix_len in E1. apply cut_prefix_len in E2.
  pose proof (trim_len r1). pose proof (trim_len r2). lia.
Qed.

Lemma default_token_len : forall b s t r, default_token b s = Ok (t, r) -> (length r < length s)%nat.
Proof.
  intros b s t r H. unfold default_token in H. destruct b.
  - destruct (cut_prefix_break kw_contains s) as [r0|] eqn:E1.
    { inversion H; subst. apply cut_prefix_break_len in E1. simpl in E1. lia. }
    destruct (cut_multi kw_starts kw_with s) as [r0|] eqn:E2.
    { inversion H; subst. apply cut_multi_len in E2. simpl in E2. lia. }
    destruct (cut_multi kw_ends kw_with s) as [r0|] eqn:E3.
    { inversion H; subst. apply cut_multi_len in E3. simpl in E3. lia. }
    destruct (cut_multi kw_not kw_in s) as [r0|] eqn:E4.
    { inversion H; subst. apply cut_multi_len in E4. simpl in E4. lia. }
    destruct (cut_prefix_break kw_in s) as [r0|] eqn:E5; [|discriminate].
    inversion H; subst. apply cut_prefix_break_len in E5. simpl in E5. lia.
  - destruct (cut_prefix kw_has s) as [r0|] eqn:E1.
    { destruct (cut_identifier (trim r0)) as [[id r2]|] eqn:E; [|discriminate].
      destruct (cut_prefix [41] (trim r2)) as [r3|] eqn:E2; [|discriminate]. inversion H; subst.
      apply cut_prefix_len in E1. apply cut_prefix_len in E2. apply cut_identifier_len in E.
      pose proof (trim_len r0). pose proof (trim_len r2). simpl in *. lia. }
    destruct (cut_prefix kw_all s) as [r0|] eqn:E2.
    { destruct (cut_prefix [41] (trim r0)) as [r3|] eqn:E; [|discriminate]. inversion H; subst.
      apply cut_prefix_len in E2. apply cut_prefix_len in E. pose proof (trim_len r0). simpl in *. lia. }
    destruct (cut_prefix kw_global s) as [r0|] eqn:E3.
    { destruct (cut_prefix [41] (trim r0)) as [r3|] eqn:E; [|discriminate]. inversion H; subst.
      apply cut_prefix_len in E3. apply cut_prefix_len in E. pose proof (trim_len r0). simpl in *. lia. }
    destruct (cut_identifier s) as [[id r2]|] eqn:E; [|discriminate]. inversion H; subst.
    apply cut_identifier_len in E. exact E.
Qed.

(* every arm of the tokenizer's switch consumes at least one byte *)
Lemma next_token_len : forall b s t r, next_token b s = Ok (t, r) -> (length r < length s)%nat.
Proof.
  intros b s t r H. unfold next_token in H. destruct s as [|c s]; [discriminate|].
  destruct (c =? 40); [inversion H; subst; simpl; lia|].
  destruct (c =? 41); [inversion H; subst; simpl; lia|].
  destruct (c =? 34).
  { destruct (split_at 34 s) as [[v r']|] eqn:E; [|discriminate]. inversion H; subst. apply split_at_len in E. simpl. lia. }
  destruct (c =? 39).
  { destruct (split_at 39 s) as [[v r']|] eqn:E; [|discriminate]. inversion H; subst. apply split_at_len in E. simpl. lia. }
  destruct (c =? 123); [inversion H; subst; simpl; lia|].
  destruct (c =? 125); [inversion H; subst; simpl; lia|].
  destruct (c =? 44); [inversion H; subst; simpl; lia|].
  destruct (c =? 61).
  { destruct (cut_prefix [61] s) as [r'|] eqn:E; [|discriminate]. inversion H; subst. apply cut_prefix_len in E. simpl in *. lia. }
  destruct (c =? 33).
  { destruct (cut_prefix [61] s) as [r'|] eqn:E; inversion H; subst; [apply cut_prefix_len in E; simpl in *; lia | simpl; lia]. }
  destruct (c =? 38).
  { destruct (cut_prefix [38] s) as [r'|] eqn:E; [|discriminate]. inversion H; subst. apply cut_prefix_len in E. simpl in *. lia. }
  destruct (c =? 124).
  { destruct (cut_prefix [124] s) as [r'|] eqn:E; [|discriminate]. inversion H; subst. apply cut_prefix_len in E. simpl in *. lia. }
  apply default_token_len in H. exact H.
Qed.

Lemma next_token_no_oof : forall b s, next_token b s <> OutOfFuel.
Proof.
  intros b s H. unfold next_token in H. destruct s as [|c s]; [discriminate|].
  repeat match type of H with
  | (if ?x then _ else _) = _ => destruct x
  | match ?x with _ => _ end = _ => destruct x
  end; try discriminate.
  unfold default_token in H.
  repeat match type of H with
  | (if ?x then _ else _) = _ => destruct x
  | match ?x with _ => _ end = _ => destruct x
  end; discriminate.
Qed.

Lemma tok_loop_no_oof : forall f b s, (length s < f)%nat -> tok_loop f b s <> OutOfFuel.
Proof.
  induction f; intros b s Hl; [lia|]. rewrite tok_loop_S.
  pose proof (trim_len s) as Ht. destruct (trim s) as [|c s'] eqn:E; [discriminate|].
  destruct (next_token b (c :: s')) as [[t r]| |] eqn:E2; try discriminate.
  - apply next_token_len in E2. specialize (IHf (is_label t) r ltac:(lia)).
    destruct (tok_loop f (is_label t) r); try discriminate. congruence.
  - exfalso. eapply next_token_no_oof; eauto.
Qed.

Lemma tokenize_no_oof : forall s, tokenize s <> OutOfFuel.
Proof. intros s. unfold tokenize. apply tok_loop_no_oof. lia. Qed.

(* ------------------------------------------------------------------ parser: consumption *)

Definition SD {A} (p : parser A) : Prop := forall toks a r, p toks = Ok (a, r) -> (length r < length toks)%nat.

Lemma parse_set_len : forall toks vs r, parse_set toks = (vs, r) -> (length r <= length toks)%nat.
Proof.
  fix IH 1. intros toks vs r H. destruct toks as [|t toks]; [inversion H; subst; auto|].
  destruct t; try (inversion H; subst; auto; fail).
  destruct toks as [|t2 toks2]; [inversion H; subst; simpl; lia|].
  destruct t2; try (inversion H; subst; simpl; lia; fail).
  cbn [parse_set] in H. destruct (parse_set toks2) as [vs' r'] eqn:E. inversion H; subst.
  apply IH in E. simpl. lia.
Qed.

Lemma strip_nots_len : forall toks neg t1, strip_nots toks = (neg, t1) -> (length t1 <= length toks)%nat.
Proof.
  induction toks as [|t toks IH]; intros neg t1 H; [inversion H; subst; auto|].
  destruct t; try (inversion H; subst; auto; fail).
  simpl in H. destruct (strip_nots toks) as [n r] eqn:E. inversion H; subst. specialize (IH _ _ eq_refl). simpl. lia.
Qed.

Lemma tail_loop_len : forall is_sep (p : parser ast), SD p -> forall n toks xs r,
  tail_loop is_sep p n toks = Ok (xs, r) -> (length r <= length toks)%nat.
Proof.
  intros is_sep p Hp. induction n; intros toks xs r H.
  - destruct toks as [|t rest]; simpl in H; [inversion H; subst; auto|].
    destruct (is_sep t); [discriminate|]. inversion H; subst. auto.
  - destruct toks as [|t rest]; simpl in H; [inversion H; subst; auto|].
    destruct (is_sep t); [|inversion H; subst; auto].
    destruct (p rest) as [[a r1]| |] eqn:E; try discriminate. simpl in H.
    destruct (tail_loop is_sep p n r1) as [[ys r2]| |] eqn:E2; try discriminate. simpl in H. inversion H; subst.
    apply Hp in E. apply IHn in E2. simpl. lia.
Qed.

Lemma chain_SD : forall mk is_sep p n, SD p -> SD (chain mk is_sep p n).
Proof.
  intros mk is_sep p n Hp toks a r H. unfold chain in H.
  destruct (p toks) as [[a1 r1]| |] eqn:E; try discriminate. simpl in H.
  destruct (tail_loop is_sep p n r1) as [[ys r2]| |] eqn:E2; try discriminate. simpl in H. inversion H; subst.
  apply Hp in E. apply (tail_loop_len is_sep p Hp) in E2. simpl. lia.
Qed.

Lemma parse_or_with_SD : forall op n, SD op -> SD (parse_or_with op n).
Proof. intros. unfold parse_or_with, parse_and_with. apply chain_SD. apply chain_SD. assumption. Qed.

Lemma parse_base_SD : forall por, SD por -> SD (parse_base por).
Proof.
  intros por Hp toks a r H.
  destruct toks as [|t1 toks]; [discriminate|].
  destruct t1; try discriminate.
  - destruct toks as [|t2 toks]; [discriminate|].
    destruct t2; try discriminate;
      (destruct toks as [|t3 toks]; [discriminate|]); destruct t3; try discriminate.
    1,2,5,6,7: (inversion H; subst; simpl; lia).
    + simpl in H. destruct (parse_set toks) as [vs [|t r']] eqn:E; try discriminate. destruct t; try discriminate.
      inversion H; subst. apply parse_set_len in E. simpl in *. lia.
    + simpl in H. destruct (parse_set toks) as [vs [|t r']] eqn:E; try discriminate. destruct t; try discriminate.
      inversion H; subst. apply parse_set_len in E. simpl in *. lia.
  - inversion H; subst. simpl. lia.
  - inversion H; subst. simpl. lia.
  - simpl in H. destruct (por toks) as [[a' [|t r']]| |] eqn:E; try discriminate. destruct t; try discriminate.
    inversion H; subst. apply Hp in E. simpl in *. lia.
  - inversion H; subst. simpl. lia.
Qed.

Lemma parse_op_SD : forall f, SD (parse_op f).
Proof.
  induction f; intros toks a r H; [discriminate|].
  cbn [parse_op] in H. destruct (strip_nots toks) as [neg t1] eqn:E.
  destruct (parse_base (parse_or_with (parse_op f) f) t1) as [[a' r']| |] eqn:E2; try discriminate.
  inversion H; subst. apply strip_nots_len in E.
  apply (parse_base_SD _ (parse_or_with_SD _ f IHf)) in E2. lia.
Qed.

(* ------------------------------------------------------------------ parser: fuel suffices *)

Definition NO {A} (p : parser A) (m : nat) : Prop := forall toks, (length toks < m)%nat -> p toks <> OutOfFuel.

Lemma tail_loop_no_oof : forall is_sep (p : parser ast) m, SD p -> NO p m -> forall n toks,
  (length toks <= n)%nat -> (n <= m)%nat -> tail_loop is_sep p n toks <> OutOfFuel.
Proof.
  intros is_sep p m Hsd Hno. induction n; intros toks Hl Hm.
  - destruct toks; [simpl; discriminate|simpl in Hl; lia].
  - destruct toks as [|t rest]; [simpl; discriminate|]. simpl. simpl in Hl.
    destruct (is_sep t); [|discriminate].
    pose proof (Hno rest ltac:(lia)) as Hp.
    destruct (p rest) as [[a r1]| |] eqn:E; try discriminate; [|congruence]. simpl.
    apply Hsd in E. specialize (IHn r1 ltac:(lia) ltac:(lia)).
    destruct (tail_loop is_sep p n r1) as [[ys r2]| |]; try discriminate. congruence.
Qed.

Lemma chain_no_oof : forall mk is_sep (p : parser ast) n m, SD p -> NO p m -> (n <= m)%nat ->
  forall toks, (length toks <= n)%nat -> (length toks < m)%nat -> chain mk is_sep p n toks <> OutOfFuel.
Proof.
  intros mk is_sep p n m Hsd Hno Hnm toks Hl Hl2. unfold chain.
  pose proof (Hno toks Hl2) as Hp.
  destruct (p toks) as [[a r1]| |] eqn:E; try discriminate; [|congruence]. simpl.
  apply Hsd in E. pose proof (tail_loop_no_oof is_sep p m Hsd Hno n r1 ltac:(lia) Hnm) as Ht.
  destruct (tail_loop is_sep p n r1) as [[ys r2]| |]; try discriminate. congruence.
Qed.

(* parse_or_with op n on fewer than n tokens, when op itself is fine on fewer than n tokens *)
Lemma parse_or_with_no_oof : forall op n, SD op -> NO op n -> NO (parse_or_with op n) n.
Proof.
  intros op n Hsd Hno toks Hl. unfold parse_or_with.
  apply (chain_no_oof SOr is_or (parse_and_with op n) n n); try lia.
  - unfold parse_and_with. apply chain_SD. exact Hsd.
  - intros toks' Hl'. unfold parse_and_with. apply (chain_no_oof SAnd is_and op n n); auto; lia.
Qed.

Lemma parse_base_no_oof : forall por toks,
  (forall rest, toks = TLParen :: rest -> por rest <> OutOfFuel) -> parse_base por toks <> OutOfFuel.
Proof.
  intros por toks Hp H.
  destruct toks as [|t1 toks]; [discriminate|].
  destruct t1; try discriminate.
  - destruct toks as [|t2 toks]; [discriminate|].
    destruct t2; try discriminate;
      (destruct toks as [|t3 toks]; [discriminate|]); destruct t3; try discriminate;
      simpl in H; destruct (parse_set toks) as [vs [|t r']]; try discriminate; destruct t; discriminate.
  - specialize (Hp toks eq_refl). simpl in H. destruct (por toks) as [[a' [|t r']]| |]; try discriminate; try congruence. destruct t; discriminate.
Qed.

Lemma parse_op_no_oof : forall f, NO (parse_op f) f.
Proof.
  induction f; intros toks Hl; [lia|].
  cbn [parse_op]. destruct (strip_nots toks) as [neg t1] eqn:E. apply strip_nots_len in E.
  pose proof (parse_or_with_no_oof (parse_op f) f (parse_op_SD f) IHf) as Hor.
  assert (Hb : parse_base (parse_or_with (parse_op f) f) t1 <> OutOfFuel).
  { apply parse_base_no_oof. intros rest ->. apply Hor. simpl in E. lia. }
  destruct (parse_base (parse_or_with (parse_op f) f) t1) as [[a r]| |]; try discriminate. congruence.
Qed.

Lemma parse_or_no_oof : forall f, NO (parse_or f) f.
Proof. intros f. unfold parse_or. apply parse_or_with_no_oof; [apply parse_op_SD|apply parse_op_no_oof]. Qed.

(* ------------------------------------------------------------------ entry points *)

Lemma parse_root_no_oof : forall toks, parse_root toks <> OutOfFuel.
Proof.
  intros toks. unfold parse_root.
  pose proof (parse_or_no_oof (S (length toks)) toks ltac:(lia)) as Hn.
  destruct toks as [|t toks']; [|destruct t; try discriminate];
    match goal with |- context [parse_or ?n ?t] => destruct (parse_or n t) as [[a [|x [|y r]]]| |]; try discriminate; congruence end.
Qed.

Lemma parse_no_oof : forall s, parse s <> OutOfFuel.
Proof.
  intros s. unfold parse. pose proof (tokenize_no_oof s). destruct (tokenize s) as [toks| |]; simpl; try discriminate; try congruence.
  apply parse_root_no_oof.
Qed.

Lemma validate_no_oof : forall s, validate s <> OutOfFuel.
Proof. intros s. rewrite validate_parse. pose proof (parse_no_oof s). destruct (parse s); try discriminate; congruence. Qed.
