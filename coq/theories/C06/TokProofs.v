(* C06 — tokenizer lemmas: what the canonical text re-tokenises to, and the invariants of emitted tokens. *)
From Coq Require Import List NArith Bool Arith Lia.
From Verif.Common Require Import Labels.
From Verif.C06 Require Import Model Spec.
Import ListNotations.
Open Scope N_scope.
Local Arguments N.eqb : simpl never.
Local Arguments N.leb : simpl never.

(* ------------------------------------------------------------------ well-formedness *)

Definition valid_label (l : bytes) : bool :=
  negb (Nat.eqb (length l) 0) && forallb ident_char l && Nat.leb (length l) max_label_length.

(* a value never contains both quote characters *)
Definition value_ok (v : bytes) : bool := negb (existsb (N.eqb 34) v && existsb (N.eqb 39) v).

Definition tok_wf (t : token) : bool :=
  match t with TLabel l | THas l => valid_label l | TStr v => value_ok v | _ => true end.

Definition consr (t : token) (r : res (list token)) : res (list token) :=
  match r with Ok ts => Ok (t :: ts) | Reject => Reject | OutOfFuel => OutOfFuel end.
Definition app_res (ts : list token) (r : res (list token)) : res (list token) :=
  match r with Ok ts' => Ok (ts ++ ts') | Reject => Reject | OutOfFuel => OutOfFuel end.

Lemma app_res_cons : forall t ts r, app_res (t :: ts) r = consr t (app_res ts r).
Proof. intros. destruct r; reflexivity. Qed.
Lemma app_res_nil : forall r, app_res [] r = r.
Proof. intros. destruct r; reflexivity. Qed.
Lemma app_res_app : forall a c r, app_res (a ++ c) r = app_res a (app_res c r).
Proof. intros. destruct r; simpl; try reflexivity. rewrite app_assoc. reflexivity. Qed.

(* ------------------------------------------------------------------ basic facts *)

Lemma ident_not_ws : forall c, ident_char c = true -> is_ws c = false.
Proof.
  intros c H. unfold is_ws. destruct (c =? 32) eqn:E1; [apply N.eqb_eq in E1; subst; discriminate|].
  destruct (c =? 9) eqn:E2; [apply N.eqb_eq in E2; subst; discriminate|]. reflexivity.
Qed.

Lemma span_ident_app : forall l c r, forallb ident_char l = true -> ident_char c = false ->
  span_ident (l ++ c :: r) = (l, c :: r).
Proof.
  induction l; simpl; intros c r Hl Hc.
  - rewrite Hc. reflexivity.
  - apply andb_true_iff in Hl. destruct Hl as [Ha Hl]. rewrite Ha. rewrite IHl; auto.
Qed.

Lemma cut_identifier_app : forall l c r, valid_label l = true -> ident_char c = false ->
  cut_identifier (l ++ c :: r) = Some (l, c :: r).
Proof.
  intros l c r Hl Hc. unfold valid_label in Hl. apply andb_true_iff in Hl. destruct Hl as [Hl Hlen].
  apply andb_true_iff in Hl. destruct Hl as [Hne Hid].
  unfold cut_identifier. rewrite span_ident_app; auto.
  apply negb_true_iff in Hne. rewrite Hne. simpl.
  apply Nat.leb_le in Hlen. destruct (Nat.ltb max_label_length (length l)) eqn:E; auto.
  apply Nat.ltb_lt in E. lia.
Qed.

Lemma cut_prefix_spec : forall p s r, cut_prefix p s = Some r -> s = p ++ r.
Proof.
  induction p; simpl; intros s r H.
  - congruence.
  - destruct s; [discriminate|]. destruct (a =? n) eqn:E; [|discriminate].
    apply N.eqb_eq in E. subst. f_equal. auto.
Qed.

Lemma cut_prefix_app : forall p r, cut_prefix p (p ++ r) = Some r.
Proof. induction p; simpl; intros; auto. rewrite N.eqb_refl. auto. Qed.

(* a label followed by a non-identifier byte other than "(" cannot start with has( / all( / global( *)
Lemma cut_paren_kw_none : forall kw l c r,
  forallb ident_char kw = true -> forallb ident_char l = true -> ident_char c = false -> c <> 40 ->
  cut_prefix (kw ++ [40]) (l ++ c :: r) = None.
Proof.
  intros kw l c r Hkw Hl Hc Hne.
  destruct (cut_prefix (kw ++ [40]) (l ++ c :: r)) as [b0|] eqn:E; auto.
  apply cut_prefix_spec in E. rewrite <- app_assoc in E. simpl in E.
  assert (S1 := span_ident_app l c r Hl Hc).
  assert (S2 := span_ident_app kw 40 b0 Hkw eq_refl).
  rewrite E in S1. rewrite S1 in S2. inversion S2. congruence.
Qed.

Lemma split_at_app : forall q v r, ~ In q v -> split_at q (v ++ q :: r) = Some (v, r).
Proof.
  induction v; simpl; intros r H.
  - rewrite N.eqb_refl. reflexivity.
  - destruct (a =? q) eqn:E.
    + apply N.eqb_eq in E. exfalso. apply H. auto.
    + rewrite IHv; auto.
Qed.

Lemma split_at_spec : forall q s v r, split_at q s = Some (v, r) -> s = v ++ q :: r /\ ~ In q v.
Proof.
  induction s; simpl; intros v r H; [discriminate|].
  destruct (a =? q) eqn:E.
  - apply N.eqb_eq in E. inversion H; subst. split; auto.
  - destruct (split_at q s) as [[v' r']|] eqn:E2; [|discriminate]. inversion H; subst.
    destruct (IHs v' r eq_refl) as [H1 H2]. subst. split; auto.
    intros [H3|H3]; [subst; rewrite N.eqb_refl in E; discriminate | auto].
Qed.

Lemma existsb_eqb_In : forall q v, existsb (N.eqb q) v = true <-> In q v.
Proof.
  intros. rewrite existsb_exists. split.
  - intros [x [Hx E]]. apply N.eqb_eq in E. subst. auto.
  - intros H. exists q. split; auto. apply N.eqb_refl.
Qed.

Lemma quote_cases : forall v, quote_of v = 34 \/ quote_of v = 39.
Proof. intros. unfold quote_of. destruct (existsb (N.eqb 34) v); auto. Qed.

Lemma quote_not_in : forall v, value_ok v = true -> ~ In (quote_of v) v.
Proof.
  intros v H. unfold value_ok in H. unfold quote_of.
  destruct (existsb (N.eqb 34) v) eqn:E1; simpl in H.
  - apply negb_true_iff in H. intros Hin. apply existsb_eqb_In in Hin. congruence.
  - intros Hin. apply existsb_eqb_In in Hin. congruence.
Qed.

(* ------------------------------------------------------------------ one-token steps *)

Lemma st_ws : forall f b r, tok_loop f b (32 :: r) = tok_loop f b r.
Proof. destruct f; reflexivity. Qed.

Lemma st_lparen : forall f b r, tok_loop (S f) b (40 :: r) = consr TLParen (tok_loop f false r).
Proof. reflexivity. Qed.
Lemma st_rparen : forall f b r, tok_loop (S f) b (41 :: r) = consr TRParen (tok_loop f false r).
Proof. reflexivity. Qed.
Lemma st_lbrace : forall f b r, tok_loop (S f) b (123 :: r) = consr TLBrace (tok_loop f false r).
Proof. reflexivity. Qed.
Lemma st_rbrace : forall f b r, tok_loop (S f) b (125 :: r) = consr TRBrace (tok_loop f false r).
Proof. reflexivity. Qed.
Lemma st_comma : forall f b r, tok_loop (S f) b (44 :: r) = consr TComma (tok_loop f false r).
Proof. reflexivity. Qed.
Lemma st_eq : forall f b r, tok_loop (S f) b (61 :: 61 :: r) = consr TEq (tok_loop f false r).
Proof. reflexivity. Qed.
Lemma st_ne : forall f b r, tok_loop (S f) b (33 :: 61 :: r) = consr TNe (tok_loop f false r).
Proof. reflexivity. Qed.
Lemma st_and : forall f b r, tok_loop (S f) b (38 :: 38 :: r) = consr TAnd (tok_loop f false r).
Proof. reflexivity. Qed.
Lemma st_or : forall f b r, tok_loop (S f) b (124 :: 124 :: r) = consr TOr (tok_loop f false r).
Proof. reflexivity. Qed.

Lemma st_not : forall f b c r, c <> 61 ->
  tok_loop (S f) b (33 :: c :: r) = consr TNot (tok_loop f false (c :: r)).
Proof.
  intros f b c r H.
  assert (C : cut_prefix [61] (c :: r) = None).
  { simpl. destruct (61 =? c) eqn:E; [apply N.eqb_eq in E; congruence|]. reflexivity. }
  change (tok_loop (S f) b (33 :: c :: r)) with
    (match (match cut_prefix [61] (c :: r) with Some r' => Ok (TNe, r') | None => Ok (TNot, c :: r) end) with
     | Ok (t, r0) => consr t (tok_loop f (is_label t) r0) | Reject => Reject | OutOfFuel => OutOfFuel end).
  rewrite C. reflexivity.
Qed.

Lemma st_str : forall f b v r, value_ok v = true ->
  tok_loop (S f) b (quoted v ++ r) = consr (TStr v) (tok_loop f false r).
Proof.
  intros f b v r H. unfold quoted. simpl. rewrite <- app_assoc. simpl.
  pose proof (quote_not_in v H) as Hn.
  destruct (quote_cases v) as [Q|Q]; rewrite Q in *; simpl; rewrite split_at_app; auto.
Qed.

Lemma st_all : forall f r, tok_loop (S f) false (s_all ++ r) = consr TAll (tok_loop f false r).
Proof. reflexivity. Qed.
Lemma st_global : forall f r, tok_loop (S f) false (s_global ++ r) = consr TGlobal (tok_loop f false r).
Proof. reflexivity. Qed.

(* keyword operators, recognised only directly after a label *)
Lemma st_contains : forall f r, tok_loop (S f) true (kw_contains ++ 32 :: r) = consr TContains (tok_loop f false (32 :: r)).
Proof. reflexivity. Qed.
Lemma st_in : forall f r, tok_loop (S f) true (kw_in ++ 32 :: r) = consr TIn (tok_loop f false (32 :: r)).
Proof. reflexivity. Qed.
Lemma st_notin : forall f r,
  tok_loop (S f) true (kw_not ++ 32 :: kw_in ++ 32 :: 123 :: r) = consr TNotIn (tok_loop f false (123 :: r)).
Proof. reflexivity. Qed.
Lemma st_starts : forall f q r, q = 34 \/ q = 39 ->
  tok_loop (S f) true (kw_starts ++ 32 :: kw_with ++ 32 :: q :: r) = consr TStartsWith (tok_loop f false (q :: r)).
Proof. intros f q r [Q|Q]; subst; reflexivity. Qed.
Lemma st_ends : forall f q r, q = 34 \/ q = 39 ->
  tok_loop (S f) true (kw_ends ++ 32 :: kw_with ++ 32 :: q :: r) = consr TEndsWith (tok_loop f false (q :: r)).
Proof. intros f q r [Q|Q]; subst; reflexivity. Qed.

Lemma next_token_ident : forall b a s, ident_char a = true -> next_token b (a :: s) = default_token b (a :: s).
Proof.
  intros b a s H. unfold next_token.
  repeat match goal with
  | |- context [a =? ?k] =>
      let E := fresh "E" in destruct (a =? k) eqn:E; [apply N.eqb_eq in E; subst a; vm_compute in H; discriminate H|]
  end.
  reflexivity.
Qed.

Lemma valid_label_inv : forall l, valid_label l = true ->
  exists a l', l = a :: l' /\ ident_char a = true /\ forallb ident_char l = true.
Proof.
  intros l H. unfold valid_label in H. apply andb_true_iff in H. destruct H as [H _].
  apply andb_true_iff in H. destruct H as [Hne Hid]. destruct l as [|a l']; [discriminate|].
  exists a, l'. split; auto. split; auto. simpl in Hid. apply andb_true_iff in Hid. tauto.
Qed.

Lemma trim_label : forall l r, valid_label l = true -> trim (l ++ r) = l ++ r.
Proof.
  intros l r H. destruct (valid_label_inv l H) as [a [l' [E [Ha _]]]]. subst. simpl.
  rewrite (ident_not_ws a Ha). reflexivity.
Qed.

Lemma tok_loop_S : forall f b s, tok_loop (S f) b s =
  match trim s with
  | [] => Ok [TEOF]
  | s' => match next_token b s' with
          | Ok (t, r) => consr t (tok_loop f (is_label t) r)
          | Reject => Reject | OutOfFuel => OutOfFuel end
  end.
Proof. reflexivity. Qed.

Lemma st_label : forall f l c r, valid_label l = true -> ident_char c = false -> c <> 40 ->
  tok_loop (S f) false (l ++ c :: r) = consr (TLabel l) (tok_loop f true (c :: r)).
Proof.
  intros f l c r Hl Hc Hne. rewrite tok_loop_S. rewrite trim_label; auto.
  destruct (valid_label_inv l Hl) as [a [l' [E [Ha Hid]]]].
  assert (D : default_token false (l ++ c :: r) = Ok (TLabel l, c :: r)).
  { unfold default_token.
    change kw_has with ([104; 97; 115] ++ [40]). rewrite cut_paren_kw_none; auto.
    change kw_all with ([97; 108; 108] ++ [40]). rewrite cut_paren_kw_none; auto.
    change kw_global with ([103; 108; 111; 98; 97; 108] ++ [40]). rewrite cut_paren_kw_none; auto.
    rewrite cut_identifier_app; auto. }
  subst l. change ((a :: l') ++ c :: r) with (a :: (l' ++ c :: r)) in *. cbv beta iota.
  rewrite next_token_ident; auto. rewrite D. reflexivity.
Qed.

Lemma st_has : forall f l r, valid_label l = true ->
  tok_loop (S f) false (s_has ++ l ++ 41 :: r) = consr (THas l) (tok_loop f false r).
Proof.
  intros f l r Hl.
  change (tok_loop (S f) false (s_has ++ l ++ 41 :: r)) with
    (match (match cut_identifier (trim (l ++ 41 :: r)) with
            | Some (id, r2) => match cut_prefix [41] (trim r2) with Some r3 => Ok (THas id, r3) | None => Reject end
            | None => Reject end) with
     | Ok (t, r0) => consr t (tok_loop f (is_label t) r0) | Reject => Reject | OutOfFuel => OutOfFuel end).
  rewrite trim_label; auto. rewrite cut_identifier_app; auto.
Qed.

Local Opaque tok_loop.

(* ------------------------------------------------------------------ the canonical text as tokens *)

Fixpoint strict_sorted (vs : list bytes) : bool :=
  match vs with
  | x :: ((y :: _) as r) => bytes_ltb x y && strict_sorted r
  | _ => true
  end.

(* shape of the ASTs the parser builds; for pn = false additionally: no negation directly under a negation *)
Fixpoint wfb (pn : bool) (a : ast) : bool :=
  match a with
  | SEq l v | SNe l v | SContains l v | SStartsWith l v | SEndsWith l v => valid_label l && value_ok v
  | SIn l vs | SNotIn l vs => valid_label l && forallb value_ok vs && strict_sorted vs
  | SHas l => valid_label l
  | SAll | SGlobal => true
  | SNot x => (pn || negb (is_not x)) && wfb pn x
  | SAnd xs | SOr xs => Nat.leb 2 (length xs) && forallb (wfb pn) xs
  end.

Fixpoint set_toks (vs : list bytes) : list token :=
  match vs with
  | [] => []
  | [v] => [TStr v]
  | v :: r => TStr v :: TComma :: set_toks r
  end.

Fixpoint join_toks (sep : token) (xs : list (list token)) : list token :=
  match xs with
  | [] => []
  | [x] => x
  | x :: r => x ++ sep :: join_toks sep r
  end.

Fixpoint toks_of (pn : bool) (a : ast) : list token :=
  match a with
  | SEq l v => [TLabel l; TEq; TStr v]
  | SNe l v => [TLabel l; TNe; TStr v]
  | SContains l v => [TLabel l; TContains; TStr v]
  | SStartsWith l v => [TLabel l; TStartsWith; TStr v]
  | SEndsWith l v => [TLabel l; TEndsWith; TStr v]
  | SIn l vs => TLabel l :: TIn :: TLBrace :: set_toks vs ++ [TRBrace]
  | SNotIn l vs => TLabel l :: TNotIn :: TLBrace :: set_toks vs ++ [TRBrace]
  | SHas l => [THas l]
  | SAll => [TAll]
  | SGlobal => [TGlobal]
  | SNot x => TNot :: (if pn && is_not x then TLParen :: toks_of pn x ++ [TRParen] else toks_of pn x)
  | SAnd xs => TLParen :: join_toks TAnd (map (toks_of pn) xs) ++ [TRParen]
  | SOr xs => TLParen :: join_toks TOr (map (toks_of pn) xs) ++ [TRParen]
  end.

Lemma tok_set : forall vs f b r, forallb value_ok vs = true ->
  tok_loop (length (set_toks vs) + f) b (join_with s_comma (map quoted vs) ++ r)
  = app_res (set_toks vs) (tok_loop f (match vs with [] => b | _ => false end) r).
Proof.
  induction vs as [|v vs IH]; intros f b r H.
  - simpl. rewrite app_res_nil. reflexivity.
  - simpl in H. apply andb_true_iff in H. destruct H as [Hv Hvs].
    destruct vs as [|w vs'].
    + change (tok_loop (S f) b (quoted v ++ r) = app_res [TStr v] (tok_loop f false r)).
      rewrite st_str; auto.
    + change (join_with s_comma (map quoted (v :: w :: vs'))) with (quoted v ++ s_comma ++ join_with s_comma (map quoted (w :: vs'))).
      change (set_toks (v :: w :: vs')) with (TStr v :: TComma :: set_toks (w :: vs')).
      rewrite <- !app_assoc. cbn [length plus].
      rewrite st_str; auto. unfold s_comma. cbn [app]. rewrite st_comma, st_ws. fold s_comma.
      rewrite (IH f false r Hvs). rewrite !app_res_cons. reflexivity.
Qed.

Lemma tok_join : forall (sep_text : bytes) (sep_tok : token) (pr : ast -> bytes) (tk : ast -> list token),
  (forall f r, tok_loop (S f) false (sep_text ++ r) = consr sep_tok (tok_loop f false r)) ->
  forall xs,
  Forall (fun x => forall f r, tok_loop (length (tk x) + f) false (pr x ++ r) = app_res (tk x) (tok_loop f false r)) xs ->
  forall f r,
  tok_loop (length (join_toks sep_tok (map tk xs)) + f) false (join_with sep_text (map pr xs) ++ r)
  = app_res (join_toks sep_tok (map tk xs)) (tok_loop f false r).
Proof.
  intros sep_text sep_tok pr tk Hsep xs HF. induction HF as [|x xs Hx HF IH]; intros f r.
  - simpl. rewrite app_res_nil. reflexivity.
  - destruct xs as [|y ys].
    + simpl. apply Hx.
    + change (join_with sep_text (map pr (x :: y :: ys))) with (pr x ++ sep_text ++ join_with sep_text (map pr (y :: ys))).
      change (join_toks sep_tok (map tk (x :: y :: ys))) with (tk x ++ sep_tok :: join_toks sep_tok (map tk (y :: ys))).
      rewrite <- !app_assoc. rewrite app_length. cbn [length].
      rewrite <- Nat.add_assoc. rewrite Hx. cbn [plus]. rewrite Hsep. rewrite IH.
      rewrite app_res_app, app_res_cons. reflexivity.
Qed.

Lemma sep_and_step : forall f r, tok_loop (S f) false (s_and ++ r) = consr TAnd (tok_loop f false r).
Proof. intros. unfold s_and. cbn [app]. rewrite st_ws, st_and, st_ws. reflexivity. Qed.
Lemma sep_or_step : forall f r, tok_loop (S f) false (s_or ++ r) = consr TOr (tok_loop f false r).
Proof. intros. unfold s_or. cbn [app]. rewrite st_ws, st_or, st_ws. reflexivity. Qed.

(* first byte of a printed selector is never '=' (so "!" before it is not read as "!=") *)
Lemma first_char : forall pn a, wfb true a = true -> exists c s, to_string pn a = c :: s /\ c <> 61.
Proof.
  intros pn a H.
  assert (L : forall l s, valid_label l = true -> exists c s', l ++ s = c :: s' /\ c <> 61).
  { intros l s Hl. destruct (valid_label_inv l Hl) as [c [l' [E [Hc _]]]]. subst. exists c, (l' ++ s). split; auto.
    intros ->. vm_compute in Hc. discriminate. }
  destruct a; cbn [wfb] in H; cbn [to_string].
  1-5: (apply andb_true_iff in H; destruct H as [H _]; apply L; exact H).
  1-2: (apply andb_true_iff in H; destruct H as [H _]; apply andb_true_iff in H; destruct H as [H _]; apply L; exact H).
  - exists 104, ([97; 115; 40] ++ l ++ [41]). split; [reflexivity|discriminate].
  - exists 97, [108; 108; 40; 41]. split; [reflexivity|discriminate].
  - exists 103, [108; 111; 98; 97; 108; 40; 41]. split; [reflexivity|discriminate].
  - eexists; eexists; split; [reflexivity|discriminate].
  - eexists; eexists; split; [reflexivity|discriminate].
  - eexists; eexists; split; [reflexivity|discriminate].
Qed.

Lemma tok_set_false : forall vs f r, forallb value_ok vs = true ->
  tok_loop (length (set_toks vs) + f) false (join_with s_comma (map quoted vs) ++ r)
  = app_res (set_toks vs) (tok_loop f false r).
Proof. intros. rewrite tok_set; auto. destruct vs; reflexivity. Qed.

Lemma Forall_forallb_mp : forall (P : ast -> Prop) (g : ast -> bool) xs,
  Forall (fun x => g x = true -> P x) xs -> forallb g xs = true -> Forall P xs.
Proof.
  intros P g xs H. induction H; simpl; intros E; constructor; apply andb_true_iff in E; destruct E; auto.
Qed.

Ltac split_and H := repeat match type of H with _ && _ = true => let H2 := fresh "W" in apply andb_true_iff in H; destruct H as [H H2] end.

(* (well-formedness does not depend on the printer variant here: wfb true is the weaker condition) *)
Lemma tok_ast : forall pn a, wfb true a = true -> forall f r,
  tok_loop (length (toks_of pn a) + f) false (to_string pn a ++ r) = app_res (toks_of pn a) (tok_loop f false r).
Proof.
  intros pn. induction a using ast_ind_nested; intros W f r; cbn [wfb] in W.
  - (* == *) split_and W. cbn [toks_of to_string length Nat.add]. rewrite <- !app_assoc. unfold s_eq. cbn [app].
    rewrite st_label by (auto; discriminate). rewrite st_ws, st_eq, st_ws, st_str by auto.
    rewrite !app_res_cons, app_res_nil. reflexivity.
  - (* != *) split_and W. cbn [toks_of to_string length Nat.add]. rewrite <- !app_assoc. unfold s_ne. cbn [app].
    rewrite st_label by (auto; discriminate). rewrite st_ws, st_ne, st_ws, st_str by auto.
    rewrite !app_res_cons, app_res_nil. reflexivity.
  - (* contains *) split_and W. cbn [toks_of to_string length Nat.add]. rewrite <- !app_assoc. unfold s_contains. cbn [app].
    rewrite st_label by (auto; discriminate). rewrite st_ws.
    rewrite (st_contains _ (quoted v ++ r)). rewrite st_ws, st_str by auto.
    rewrite !app_res_cons, app_res_nil. reflexivity.
  - (* starts with *) split_and W. cbn [toks_of to_string length Nat.add]. rewrite <- !app_assoc. unfold s_starts. cbn [app].
    rewrite st_label by (auto; discriminate). rewrite st_ws.
    change (quoted v ++ r) with (quote_of v :: (v ++ [quote_of v]) ++ r).
    rewrite (st_starts _ (quote_of v) ((v ++ [quote_of v]) ++ r) (quote_cases v)).
    change (quote_of v :: (v ++ [quote_of v]) ++ r) with (quoted v ++ r). rewrite st_str by auto.
    rewrite !app_res_cons, app_res_nil. reflexivity.
  - (* ends with *) split_and W. cbn [toks_of to_string length Nat.add]. rewrite <- !app_assoc. unfold s_ends. cbn [app].
    rewrite st_label by (auto; discriminate). rewrite st_ws.
    change (quoted v ++ r) with (quote_of v :: (v ++ [quote_of v]) ++ r).
    rewrite (st_ends _ (quote_of v) ((v ++ [quote_of v]) ++ r) (quote_cases v)).
    change (quote_of v :: (v ++ [quote_of v]) ++ r) with (quoted v ++ r). rewrite st_str by auto.
    rewrite !app_res_cons, app_res_nil. reflexivity.
  - (* in *) split_and W. cbn [toks_of to_string length Nat.add]. rewrite <- !app_assoc. unfold s_in. cbn [app].
    rewrite st_label by (auto; discriminate). rewrite st_ws.
    rewrite (st_in _ (123 :: join_with s_comma (map quoted vs) ++ 125 :: r)). rewrite st_ws, st_lbrace.
    rewrite app_length. cbn [length]. replace (length (set_toks vs) + 1 + f)%nat with (length (set_toks vs) + S f)%nat by lia.
    rewrite tok_set_false by auto. rewrite st_rbrace.
    rewrite !app_res_cons, app_res_app, app_res_cons, app_res_nil. reflexivity.
  - (* not in *) split_and W. cbn [toks_of to_string length Nat.add]. rewrite <- !app_assoc. unfold s_notin. cbn [app].
    rewrite st_label by (auto; discriminate). rewrite st_ws.
    rewrite (st_notin _ (join_with s_comma (map quoted vs) ++ 125 :: r)). rewrite st_lbrace.
    rewrite app_length. cbn [length]. replace (length (set_toks vs) + 1 + f)%nat with (length (set_toks vs) + S f)%nat by lia.
    rewrite tok_set_false by auto. rewrite st_rbrace.
    rewrite !app_res_cons, app_res_app, app_res_cons, app_res_nil. reflexivity.
  - (* has *) cbn [toks_of to_string length Nat.add]. rewrite <- !app_assoc. cbn [app]. rewrite st_has by auto.
    rewrite app_res_cons, app_res_nil. reflexivity.
  - (* all *) cbn [toks_of to_string length Nat.add]. rewrite st_all. rewrite app_res_cons, app_res_nil. reflexivity.
  - (* global *) cbn [toks_of to_string length Nat.add]. rewrite st_global. rewrite app_res_cons, app_res_nil. reflexivity.
  - (* not *) split_and W. cbn [toks_of to_string]. destruct (pn && is_not a) eqn:P.
    + cbn [length Nat.add app]. rewrite st_not by discriminate. rewrite st_lparen.
      rewrite app_length. cbn [length]. replace (length (toks_of pn a) + 1 + f)%nat with (length (toks_of pn a) + S f)%nat by lia.
      rewrite <- app_assoc. rewrite IHa by auto. cbn [app]. rewrite st_rparen.
      rewrite !app_res_cons, app_res_app, app_res_cons, app_res_nil. reflexivity.
    + cbn [length Nat.add app]. destruct (first_char pn a W0) as [c [s [E Hc]]].
      rewrite E. cbn [app]. rewrite st_not by auto.
      change (c :: s ++ r) with ((c :: s) ++ r). rewrite <- E. rewrite IHa by auto.
      rewrite app_res_cons. reflexivity.
  - (* and *) split_and W. cbn [toks_of to_string length Nat.add app]. rewrite st_lparen.
    rewrite app_length. cbn [length].
    replace (length (join_toks TAnd (map (toks_of pn) xs)) + 1 + f)%nat with (length (join_toks TAnd (map (toks_of pn) xs)) + S f)%nat by lia.
    rewrite <- app_assoc.
    rewrite (tok_join s_and TAnd (to_string pn) (toks_of pn) sep_and_step xs (Forall_forallb_mp _ _ _ H W0)).
    cbn [app]. rewrite st_rparen.
    rewrite !app_res_cons, app_res_app, app_res_cons, app_res_nil. reflexivity.
  - (* or *) split_and W. cbn [toks_of to_string length Nat.add app]. rewrite st_lparen.
    rewrite app_length. cbn [length].
    replace (length (join_toks TOr (map (toks_of pn) xs)) + 1 + f)%nat with (length (join_toks TOr (map (toks_of pn) xs)) + S f)%nat by lia.
    rewrite <- app_assoc.
    rewrite (tok_join s_or TOr (to_string pn) (toks_of pn) sep_or_step xs (Forall_forallb_mp _ _ _ H W0)).
    cbn [app]. rewrite st_rparen.
    rewrite !app_res_cons, app_res_app, app_res_cons, app_res_nil. reflexivity.
Qed.

(* ------------------------------------------------------------------ fuel *)

Local Transparent tok_loop.
Lemma tok_mono : forall f b s ts, tok_loop f b s = Ok ts -> forall f', (f <= f')%nat -> tok_loop f' b s = Ok ts.
Proof.
  induction f; intros b s ts H f' Hle; [discriminate|].
  destruct f' as [|f']; [lia|]. rewrite tok_loop_S in *.
  destruct (trim s) as [|c s']; auto.
  destruct (next_token b (c :: s')) as [[t r]| |]; try discriminate.
  destruct (tok_loop f (is_label t) r) as [ts'| |] eqn:E; try discriminate.
  rewrite (IHf _ _ _ E f') by lia. exact H.
Qed.
Local Opaque tok_loop.

Lemma quoted_len : forall v, length (quoted v) = S (S (length v)).
Proof. intros. unfold quoted. cbn [length]. rewrite app_length. cbn [length]. lia. Qed.

Lemma set_toks_len : forall vs, (length (set_toks vs) <= length (join_with s_comma (map quoted vs)))%nat.
Proof.
  induction vs as [|v vs IH]; [simpl; lia|]. destruct vs as [|w vs'].
  - cbn [set_toks map join_with length]. rewrite quoted_len. lia.
  - change (join_with s_comma (map quoted (v :: w :: vs'))) with (quoted v ++ s_comma ++ join_with s_comma (map quoted (w :: vs'))).
    change (set_toks (v :: w :: vs')) with (TStr v :: TComma :: set_toks (w :: vs')).
    rewrite !app_length. rewrite quoted_len. cbn [length]. lia.
Qed.

Lemma join_toks_len : forall sep_text sep_tok (pr : ast -> bytes) (tk : ast -> list token) xs,
  (1 <= length sep_text)%nat ->
  Forall (fun x => (length (tk x) <= length (pr x))%nat) xs ->
  (length (join_toks sep_tok (map tk xs)) <= length (join_with sep_text (map pr xs)))%nat.
Proof.
  intros sep_text sep_tok pr tk xs Hs HF. induction HF as [|x xs Hx HF IH]; [simpl; lia|].
  destruct xs as [|y ys].
  - simpl. exact Hx.
  - change (join_with sep_text (map pr (x :: y :: ys))) with (pr x ++ sep_text ++ join_with sep_text (map pr (y :: ys))).
    change (join_toks sep_tok (map tk (x :: y :: ys))) with (tk x ++ sep_tok :: join_toks sep_tok (map tk (y :: ys))).
    rewrite !app_length. cbn [length]. lia.
Qed.

Lemma toks_len : forall pn a, (length (toks_of pn a) <= length (to_string pn a))%nat.
Proof.
  intros pn. induction a using ast_ind_nested; cbn [toks_of to_string].
  1-5: (rewrite !app_length, quoted_len; unfold s_eq, s_ne, s_contains, s_starts, s_ends; cbn [length]; lia).
  1-2: (cbn [length]; rewrite !app_length; pose proof (set_toks_len vs); unfold s_in, s_notin; cbn [length]; lia).
  - rewrite !app_length. cbn [length]. lia.
  - compute. lia.
  - compute. lia.
  - destruct (pn && is_not a); cbn [length]; rewrite ?app_length; cbn [length]; lia.
  - cbn [length]. rewrite !app_length. cbn [length].
    pose proof (join_toks_len s_and TAnd (to_string pn) (toks_of pn) xs ltac:(simpl; lia) H). lia.
  - cbn [length]. rewrite !app_length. cbn [length].
    pose proof (join_toks_len s_or TOr (to_string pn) (toks_of pn) xs ltac:(simpl; lia) H). lia.
Qed.

(* the canonical text of a well-formed AST tokenises to its token list *)
Lemma forallb_impl_F : forall (g k : ast -> bool) xs,
  Forall (fun x => g x = true -> k x = true) xs -> forallb g xs = true -> forallb k xs = true.
Proof.
  intros g k xs HF. induction HF as [|x xs Hx HF IH]; simpl; intros G; auto.
  apply andb_true_iff in G. destruct G. rewrite Hx, IH; auto.
Qed.

Lemma wfb_mono : forall pn a, wfb pn a = true -> wfb true a = true.
Proof.
  intros pn. induction a using ast_ind_nested; cbn [wfb]; intros W; auto.
  - apply andb_true_iff in W. destruct W as [_ W]. simpl. auto.
  - apply andb_true_iff in W. destruct W as [W1 W2]. rewrite W1. simpl. apply (forallb_impl_F _ _ _ H W2).
  - apply andb_true_iff in W. destruct W as [W1 W2]. rewrite W1. simpl. apply (forallb_impl_F _ _ _ H W2).
Qed.

Lemma tokenize_to_string_gen : forall pn a, wfb true a = true -> tokenize (to_string pn a) = Ok (toks_of pn a ++ [TEOF]).
Proof.
  intros pn a W. unfold tokenize.
  assert (E : tok_loop (length (toks_of pn a) + 1) false (to_string pn a ++ []) = Ok (toks_of pn a ++ [TEOF])).
  { rewrite tok_ast by auto. reflexivity. }
  rewrite app_nil_r in E. apply (tok_mono _ _ _ _ E). pose proof (toks_len pn a). lia.
Qed.

Lemma tokenize_to_string : forall pn a, wfb pn a = true -> tokenize (to_string pn a) = Ok (toks_of pn a ++ [TEOF]).
Proof. intros pn a W. apply tokenize_to_string_gen. eapply wfb_mono; eauto. Qed.
