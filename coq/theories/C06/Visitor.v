(* C06 — model of Selector.AcceptVisitor(PrefixVisitor{Prefix}) (ast.go): every label name in the AST gets the
   prefix, then updateFields recomputes String() and UniqueID().  This is how namespaceSelector /
   serviceAccountSelector are turned into selectors over "pcns." / "pcsa." labels
   (updateprocessors.parseSelectorAttachPrefix), whose String() is later parsed again.
   Definitions only; new file (Model.v / Spec.v are unchanged). *)
From Coq Require Import List NArith Bool.
From Verif.Common Require Import Labels.
From Verif.C06 Require Import Model Spec.
Import ListNotations.
Open Scope N_scope.

(* PrefixVisitor.Visit on every node, NotNode/AndNode/OrNode recursing into their operands *)
Fixpoint prefix_labels (p : bytes) (a : ast) : ast :=
  match a with
  | SEq l v => SEq (p ++ l) v
  | SNe l v => SNe (p ++ l) v
  | SContains l v => SContains (p ++ l) v
  | SStartsWith l v => SStartsWith (p ++ l) v
  | SEndsWith l v => SEndsWith (p ++ l) v
  | SIn l vs => SIn (p ++ l) vs
  | SNotIn l vs => SNotIn (p ++ l) vs
  | SHas l => SHas (p ++ l)
  | SAll => SAll
  | SGlobal => SGlobal
  | SNot x => SNot (prefix_labels p x)
  | SAnd xs => SAnd (map (prefix_labels p) xs)
  | SOr xs => SOr (map (prefix_labels p) xs)
  end.

(* does every label name of the AST satisfy f *)
Fixpoint all_labels (f : bytes -> bool) (a : ast) : bool :=
  match a with
  | SEq l _ | SNe l _ | SContains l _ | SStartsWith l _ | SEndsWith l _ | SIn l _ | SNotIn l _ | SHas l => f l
  | SAll | SGlobal => true
  | SNot x => all_labels f x
  | SAnd xs | SOr xs => forallb (all_labels f) xs
  end.

(* the prefixed names still fit the tokenizer's MaxLabelLength *)
Definition prefix_fits (p : bytes) (a : ast) : bool :=
  all_labels (fun l => Nat.leb (length p + length l) max_label_length) a.

(* the view of a label map that a prefixed selector looks at: entries whose key starts with p, prefix removed *)
Fixpoint unprefix (p : bytes) (L : labels) : labels :=
  match L with
  | [] => []
  | (k, v) :: r => match cut_prefix p k with
                   | Some k' => (k', v) :: unprefix p r
                   | None => unprefix p r
                   end
  end.

(* ---- one correspondence case for the visitor ---- *)
Record pcase := {
  p_pn : bool;
  p_input : bytes;            (* accepted by Parse *)
  p_prefix : bytes;
  p_maps : list labels;
  p_text : bytes;             (* String() after AcceptVisitor(PrefixVisitor{prefix}) *)
  p_evals : list bool;        (* Evaluate of the visited selector on each map *)
  p_uid_ok : bool;            (* UniqueID() == MakeUniqueID("s", String()) after the visit *)
  p_re_accept : bool;         (* Parse(String()) accepted *)
  p_re_text : bytes;
  p_re_evals : list bool;
  p_re_uid_same : bool;
}.

(* the property, applied to the visited selector: its canonical text parses back to the same text / meaning / UID *)
Definition ok_pcase (c : pcase) : bool :=
  p_re_accept c && bytes_eqb (p_re_text c) (p_text c) && bools_eqb (p_re_evals c) (p_evals c)
  && p_re_uid_same c && p_uid_ok c.

Definition model_agrees_p (c : pcase) : bool :=
  match parse (p_input c) with
  | Ok a =>
      let a1 := prefix_labels (p_prefix c) a in
      bytes_eqb (to_string (p_pn c) a1) (p_text c)
      && bools_eqb (map (eval a1) (p_maps c)) (p_evals c)
      && bools_eqb (map (fun L => eval a (unprefix (p_prefix c) L)) (p_maps c)) (p_evals c)
      && match parse (p_text c) with
         | Ok a' => p_re_accept c && bytes_eqb (to_string (p_pn c) a') (p_re_text c)
                    && bools_eqb (map (eval a') (p_maps c)) (p_re_evals c)
         | _ => negb (p_re_accept c)
         end
  | _ => false
  end.

Definition check_pcase (c : pcase) : bool * bool := (model_agrees_p c, ok_pcase c).

(* the driver emits `inl case` or `inr pcase` *)
Definition check_any (c : case + pcase) : bool * bool :=
  match c with inl c0 => check_case c0 | inr c1 => check_pcase c1 end.
