(* C07 — invariants of the InheritIndex model that depend only on the match maps and the callback log:
   (1) callbacks alternate per (selector,item) and agree with the match map; (2) the two match maps are
   transposes of each other.  Both are shown for EVERY composition of storeMatch/deleteMatch, hence for every
   operation, every history and every iteration order. *)
From Coq Require Import List NArith Bool Arith Lia.
From Verif.Common Require Import Labels.
From Verif.C07 Require Import Model Spec MapLemmas.
Import ListNotations.
Open Scope N_scope.

(* ------------------------------------------------------------------ generic preservation *)
Section Pres.
  Variable ord : nat -> list N -> list N.
  Variable sel_eqb : ast -> ast -> bool.
  Variable P : st -> Prop.
  Hypothesis P_ext : forall x y, by_sel x = by_sel y -> by_item x = by_item y -> log x = log y -> P x -> P y.
  Hypothesis P_store : forall s i x, P x -> P (store_match s i x).
  Hypothesis P_delete : forall s i x, P x -> P (delete_match s i x).

  Lemma P_set_items : forall v x, P x -> P (set_items v x).
  Proof. intros. eapply P_ext; [| | |eassumption]; reflexivity. Qed.
  Lemma P_set_parents : forall v x, P x -> P (set_parents v x).
  Proof. intros. eapply P_ext; [| | |eassumption]; reflexivity. Qed.
  Lemma P_set_sels : forall v x, P x -> P (set_sels v x).
  Proof. intros. eapply P_ext; [| | |eassumption]; reflexivity. Qed.
  Lemma P_set_tick : forall v x, P x -> P (set_tick v x).
  Proof. intros. eapply P_ext; [| | |eassumption]; reflexivity. Qed.

  Lemma P_update_matches : forall s a i it x, P x -> P (update_matches s a i it x).
  Proof. intros. unfold update_matches. destruct (eval a (item_eff x it)); auto. Qed.

  Lemma P_scan_all_selectors : forall i x, P x -> P (scan_all_selectors ord i x).
  Proof.
    intros. unfold scan_all_selectors. destruct (nlookup i (items x)); auto. unfold ranged.
    apply fold_left_pres; [|apply P_set_tick; auto].
    intros y k Hy. destruct (nlookup k (sels y)); auto. apply P_update_matches. auto.
  Qed.

  Lemma P_scan_all_labels : forall s a x, P x -> P (scan_all_labels ord s a x).
  Proof.
    intros. unfold scan_all_labels, ranged.
    apply fold_left_pres; [|apply P_set_tick; auto].
    intros y k Hy. destruct (nlookup k (items y)); auto. apply P_update_matches. auto.
  Qed.

  Lemma P_flush_item : forall i x, P x -> P (flush_item ord i x).
  Proof.
    intros. unfold flush_item. destruct (nlookup i (items x)).
    - apply P_scan_all_selectors. auto.
    - destruct (nlookup i (by_item x)); auto. unfold ranged.
      apply fold_left_pres; [|apply P_set_tick; auto]. auto.
  Qed.

  Lemma P_flush : forall d x, P x -> P (flush ord d x).
  Proof.
    intros. unfold flush, ranged. apply fold_left_pres; [|apply P_set_tick; auto].
    intros. apply P_flush_item. auto.
  Qed.

  Lemma P_get_or_create_parent : forall p x, P x -> P (get_or_create_parent p x).
  Proof. intros. unfold get_or_create_parent. destruct (nlookup p (parents x)); auto. apply P_set_parents. auto. Qed.

  Lemma P_discard_parent_if_empty : forall p x, P x -> P (discard_parent_if_empty p x).
  Proof.
    intros. unfold discard_parent_if_empty. destruct (nlookup p (parents x)) as [[[|] [|]]|]; auto.
    apply P_set_parents. auto.
  Qed.

  Lemma P_on_item_parents_update : forall i olds news x, P x -> P (on_item_parents_update i olds news x).
  Proof.
    intros. unfold on_item_parents_update. apply fold_left_pres.
    - intros y k Hy. destruct (nlookup k (parents y)); auto. apply P_set_parents. auto.
    - apply fold_left_pres; auto. intros y k Hy. destruct (memN k news); auto.
      destruct (nlookup k (parents y)); auto. apply P_discard_parent_if_empty. apply P_set_parents. auto.
  Qed.

  Lemma P_step : forall x o, P x -> P (step ord sel_eqb x o).
  Proof.
    intros x o Hx. destruct o; simpl.
    - unfold update_labels. apply P_flush. apply P_on_item_parents_update. apply P_set_items.
      apply fold_left_pres; auto. intros. apply P_get_or_create_parent. auto.
    - unfold delete_labels. apply P_flush. apply P_on_item_parents_update. apply P_set_items. auto.
    - unfold update_parent_labels, flush_children. apply P_flush.
      destruct (nlookup p (parents (get_or_create_parent p x))).
      + apply P_set_parents. apply P_get_or_create_parent. auto.
      + apply P_get_or_create_parent. auto.
    - unfold delete_parent_labels, flush_children. destruct (nlookup p (parents x)); auto.
      apply P_flush. apply P_discard_parent_if_empty. apply P_set_parents. auto.
    - unfold update_selector.
      destruct (match nlookup s (sels x) with Some old => sel_eqb old a | None => false end); auto.
      apply P_set_sels. apply P_scan_all_labels. auto.
    - unfold delete_selector. apply P_set_sels. destruct (nlookup s (by_sel x)); auto. unfold ranged.
      apply fold_left_pres; [|apply P_set_tick; auto]. auto.
  Qed.

  Lemma P_run_from : forall ops x, P x -> P (run_from ord sel_eqb x ops).
  Proof. unfold run_from. intros. apply fold_left_pres; auto. intros. apply P_step. auto. Qed.

  Lemma P_run : P empty_st -> forall ops, P (run ord sel_eqb ops).
  Proof. intros. apply (P_run_from ops empty_st). auto. Qed.
End Pres.

(* ------------------------------------------------------------------ alternation *)

(* the callbacks concerning one (selector,item) pair, oldest first; true = start *)
Definition proj (s i : N) (evs : list ev) : list bool :=
  map ev_is_start (filter (fun e => pair_eqb (ev_pair e) (s, i)) evs).

(* "(start stop)* possibly ending in start": the stream is start, stop, start, ... *)
Fixpoint alternating (expect_start : bool) (ks : list bool) : Prop :=
  match ks with
  | [] => True
  | k :: ks' => k = expect_start /\ alternating (negb expect_start) ks'
  end.

(* the two-state automaton: Some b = legal so far and "currently matching" = b *)
Definition alt_step (st : option bool) (k : bool) : option bool :=
  match st with
  | None => None
  | Some b => if k then (if b then None else Some true) else (if b then Some false else None)
  end.
Definition alt_fold (ks : list bool) : option bool := fold_left alt_step ks (Some false).

Lemma alt_fold_none : forall ks, fold_left alt_step ks None = None.
Proof. induction ks; simpl; auto. Qed.

Lemma alt_fold_alternating : forall ks b0 b,
  fold_left alt_step ks (Some b0) = Some b -> alternating (negb b0) ks.
Proof.
  induction ks as [|k ks IH]; simpl; intros b0 b H; auto.
  destruct k, b0; simpl in *; try (rewrite alt_fold_none in H; discriminate).
  - split; auto. apply (IH true b). auto.
  - split; auto. apply (IH false b). auto.
Qed.

Lemma proj_app : forall s i a b, proj s i (a ++ b) = proj s i a ++ proj s i b.
Proof. intros. unfold proj. rewrite filter_app, map_app. auto. Qed.

Lemma alt_fold_snoc : forall ks k, alt_fold (ks ++ [k]) = alt_step (alt_fold ks) k.
Proof. intros. unfold alt_fold. rewrite fold_left_app. reflexivity. Qed.

Lemma pair_eqb_true : forall a b a' b', pair_eqb (a, b) (a', b') = N.eqb a a' && N.eqb b b'.
Proof. reflexivity. Qed.

(* invariant: the stream of every pair is legal and ends in "matching" exactly when the pair is in the match map *)
Definition alt_inv (x : st) : Prop :=
  forall s i, alt_fold (proj s i (log x)) = Some (rel_mem s i (by_sel x)).

Lemma alt_inv_store : forall s i x, alt_inv x -> alt_inv (store_match s i x).
Proof.
  intros s i x H s' i'. unfold store_match. destruct (rel_mem s i (by_sel x)) eqn:E; auto.
  simpl. rewrite proj_app, rel_mem_add. unfold proj at 2. simpl. rewrite pair_eqb_true.
  rewrite (N.eqb_sym s s'), (N.eqb_sym i i').
  destruct (N.eqb s' s && N.eqb i' i) eqn:Ep; simpl.
  - apply andb_true_iff in Ep. destruct Ep as [E1 E2]. apply N.eqb_eq in E1, E2. subst.
    rewrite alt_fold_snoc, H, E. reflexivity.
  - rewrite app_nil_r. auto.
Qed.

Lemma alt_inv_delete : forall s i x, alt_inv x -> alt_inv (delete_match s i x).
Proof.
  intros s i x H s' i'. unfold delete_match. destruct (rel_mem s i (by_sel x)) eqn:E; auto.
  simpl. rewrite proj_app, rel_mem_del. unfold proj at 2. simpl. rewrite pair_eqb_true.
  rewrite (N.eqb_sym s s'), (N.eqb_sym i i').
  destruct (N.eqb s' s && N.eqb i' i) eqn:Ep; simpl.
  - apply andb_true_iff in Ep. destruct Ep as [E1 E2]. apply N.eqb_eq in E1, E2. subst.
    rewrite alt_fold_snoc, H, E. simpl. reflexivity.
  - rewrite app_nil_r, andb_true_r. auto.
Qed.

Lemma alt_inv_ext : forall x y, by_sel x = by_sel y -> by_item x = by_item y -> log x = log y -> alt_inv x -> alt_inv y.
Proof. unfold alt_inv. intros x y E1 _ E3 H s i. rewrite <- E1, <- E3. auto. Qed.

Theorem alt_inv_run : forall ord sel_eqb ops, alt_inv (run ord sel_eqb ops).
Proof.
  intros. apply P_run.
  - apply alt_inv_ext.
  - apply alt_inv_store.
  - apply alt_inv_delete.
  - intros s i. reflexivity.
Qed.

Lemma snoc_cases : forall A (l : list A), l = [] \/ exists l' k, l = l' ++ [k].
Proof. induction l using rev_ind; eauto. Qed.

(* the statement of the property: for every pair the callback stream alternates, starting with a start, and the
   pair is in the index's match map exactly when its stream currently ends in a start *)
Theorem alternation : forall ord sel_eqb ops s i,
  let x := run ord sel_eqb ops in
  alternating true (proj s i (log x))
  /\ (rel_mem s i (by_sel x) = true <-> exists ks, proj s i (log x) = ks ++ [true]).
Proof.
  intros. pose proof (alt_inv_run ord sel_eqb ops s i) as H. fold x in H. split.
  - apply (alt_fold_alternating _ false _ H).
  - destruct (snoc_cases _ (proj s i (log x))) as [Ep|[l [k Ep]]]; rewrite Ep in *.
    + unfold alt_fold in H. simpl in H. inversion H. split; [discriminate|].
      intros [ks Hk]. destruct ks; discriminate.
    + rewrite alt_fold_snoc in H. split.
      * intros Hm. rewrite Hm in H. exists l. f_equal. f_equal.
        destruct (alt_fold l) as [[|]|], k; simpl in H; try discriminate; auto.
      * intros [ks Hk]. apply app_inj_tail in Hk. destruct Hk as [_ Hk]. subst k.
        destruct (alt_fold l) as [[|]|]; simpl in H; try discriminate. inversion H. auto.
Qed.

(* ------------------------------------------------------------------ the two match maps are transposes *)

Definition transp_inv (x : st) : Prop := forall s i, rel_mem i s (by_item x) = rel_mem s i (by_sel x).

Lemma transp_store : forall s i x, transp_inv x -> transp_inv (store_match s i x).
Proof.
  intros s i x H s' i'. unfold store_match. destruct (rel_mem s i (by_sel x)); auto.
  simpl. rewrite !rel_mem_add, H. rewrite (andb_comm (N.eqb i' i)). auto.
Qed.

Lemma transp_delete : forall s i x, transp_inv x -> transp_inv (delete_match s i x).
Proof.
  intros s i x H s' i'. unfold delete_match. destruct (rel_mem s i (by_sel x)); auto.
  simpl. rewrite !rel_mem_del, H. rewrite (andb_comm (N.eqb i' i)). auto.
Qed.

Lemma transp_ext : forall x y, by_sel x = by_sel y -> by_item x = by_item y -> log x = log y -> transp_inv x -> transp_inv y.
Proof. unfold transp_inv. intros x y E1 E2 _ H s i. rewrite <- E1, <- E2. auto. Qed.

Theorem transp_run : forall ord sel_eqb ops, transp_inv (run ord sel_eqb ops).
Proof.
  intros. apply P_run.
  - apply transp_ext.
  - apply transp_store.
  - apply transp_delete.
  - intros s i. reflexivity.
Qed.
