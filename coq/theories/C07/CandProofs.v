(* C07 — the candidate scans of LabelRestrictionIndex and LabelNameValueIndex never omit a true match. *)
From Coq Require Import List NArith Bool Arith Lia.
From Verif.Common Require Import Labels.
From Verif.C07 Require Import Model Spec MapLemmas RestrProofs SliceProofs.
Import ListNotations.
Open Scope N_scope.

Local Arguments bupd : simpl never.
Local Arguments bdel : simpl never.
Local Arguments blookup : simpl never.
Local Arguments nupd : simpl never.
Local Arguments ndel : simpl never.
Local Arguments nlookup : simpl never.

Lemma lookup_In : forall k L v, lookup k L = Some v -> In (k, v) L.
Proof.
  induction L as [|[k' v'] L IH]; simpl; intros v H; try discriminate.
  destruct (bytes_eqb k k') eqn:E.
  - apply bytes_eqb_eq in E. inversion H; subst. auto.
  - auto.
Qed.

Lemma bytes_eqb_false_refl : forall a, bytes_eqb a a = false -> False.
Proof. intros a H. rewrite bytes_eqb_refl in H. discriminate. Qed.

(* ================================================================== LabelRestrictionIndex *)

(* is selector id s filed under label l / value v, resp. under l's wildcard set *)
Definition iv (idx : list (bytes * sub)) (l v : bytes) (s : N) : bool :=
  match blookup l idx with Some sb => memN s (odflt [] (blookup v (sb_vals sb))) | None => false end.
Definition iw (idx : list (bytes * sub)) (l : bytes) (s : N) : bool :=
  match blookup l idx with Some sb => memN s (sb_wild sb) | None => false end.

Definition registered (s : N) (k : sel_class) (x : ri) : Prop :=
  match k with
  | KImpossible => True
  | KValues l vs => forall v, In v vs -> iv (ri_idx x) l v s = true
  | KWild l => iw (ri_idx x) l s = true
  | KUnopt => memN s (ri_unopt x) = true
  end.

Definition ri_inv (x : ri) : Prop :=
  forall s a, nlookup s (ri_sels x) = Some a -> registered s (classify a) x.

(* ---- adding *)
Lemma iv_add_step : forall idx l v id l' v' s,
  iv (bupd l (sub_add v id (odflt sub_empty (blookup l idx))) idx) l' v' s
  = (bytes_eqb l' l && bytes_eqb v' v && N.eqb s id) || iv idx l' v' s.
Proof.
  intros. unfold iv. rewrite blookup_bupd. destruct (bytes_eqb l' l) eqn:El; simpl; auto.
  apply bytes_eqb_eq in El. subst l'. unfold sub_add. simpl. rewrite blookup_bupd.
  destruct (bytes_eqb v' v) eqn:Ev; simpl.
  - apply bytes_eqb_eq in Ev. subst v'. rewrite memN_sadd.
    destruct (blookup l idx) as [sb|]; simpl; auto.
  - destruct (blookup l idx) as [sb|]; simpl; auto.
Qed.

Lemma iw_add_step : forall idx l v id l' s,
  iw (bupd l (sub_add v id (odflt sub_empty (blookup l idx))) idx) l' s = iw idx l' s.
Proof.
  intros. unfold iw. rewrite blookup_bupd. destruct (bytes_eqb l' l) eqn:El; simpl; auto.
  apply bytes_eqb_eq in El. subst l'. destruct (blookup l idx); simpl; auto.
Qed.

Lemma register_values_fold : forall l id vs idx,
  let idx' := fold_left (fun idx v => bupd l (sub_add v id (odflt sub_empty (blookup l idx))) idx) vs idx in
  (forall l' v' s, iv idx' l' v' s = (bytes_eqb l' l && mem_bytes v' vs && N.eqb s id) || iv idx l' v' s)
  /\ (forall l' s, iw idx' l' s = iw idx l' s).
Proof.
  induction vs as [|v vs IH]; intros idx; simpl.
  - split; intros; auto. rewrite andb_false_r. auto.
  - destruct (IH (bupd l (sub_add v id (odflt sub_empty (blookup l idx))) idx)) as [A B]. split.
    + intros l' v' s. rewrite A, iv_add_step.
      destruct (bytes_eqb l' l); simpl; auto. destruct (N.eqb s id); simpl; rewrite ?andb_false_r, ?andb_true_r; simpl; auto.
      destruct (bytes_eqb v' v), (mem_bytes v' vs); simpl; auto.
    + intros l' s. rewrite B, iw_add_step. auto.
Qed.

Lemma register_spec : forall id k x,
  let x' := ri_register id k x in
  ri_sels x' = ri_sels x /\ registered id k x'
  /\ (forall l v s, iv (ri_idx x) l v s = true -> iv (ri_idx x') l v s = true)
  /\ (forall l s, iw (ri_idx x) l s = true -> iw (ri_idx x') l s = true)
  /\ (forall s, memN s (ri_unopt x) = true -> memN s (ri_unopt x') = true).
Proof.
  intros id k x. destruct k as [|l vs|l|]; simpl.
  - repeat split; auto.
  - destruct (register_values_fold l id vs (ri_idx x)) as [A B]. repeat split; auto.
    + intros v Hv. rewrite A, bytes_eqb_refl, N.eqb_refl. apply mem_bytes_In in Hv. rewrite Hv. auto.
    + intros l' v' s H. rewrite A, H. apply orb_true_r.
    + intros l' s H. rewrite B. auto.
  - repeat split; auto.
    + unfold iw. rewrite blookup_bupd, bytes_eqb_refl. simpl. rewrite memN_sadd, N.eqb_refl. auto.
    + intros l' v' s H. unfold iv in *. rewrite blookup_bupd. destruct (bytes_eqb l' l) eqn:El; auto.
      apply bytes_eqb_eq in El. subst l'. destruct (blookup l (ri_idx x)); simpl in *; auto; discriminate.
    + intros l' s H. unfold iw in *. rewrite blookup_bupd. destruct (bytes_eqb l' l) eqn:El; auto.
      apply bytes_eqb_eq in El. subst l'. simpl. rewrite memN_sadd.
      destruct (blookup l (ri_idx x)); simpl in *; [rewrite H; apply orb_true_r|discriminate].
  - repeat split; auto.
    + rewrite memN_sadd, N.eqb_refl. auto.
    + intros s H. rewrite memN_sadd, H. apply orb_true_r.
Qed.

(* ---- removing *)
Lemma sub_remove_vals : forall v id sb v' s,
  memN s (odflt [] (blookup v' (sb_vals (sub_remove v id sb))))
  = memN s (odflt [] (blookup v' (sb_vals sb))) && negb (bytes_eqb v' v && N.eqb s id).
Proof.
  intros. unfold sub_remove. destruct (blookup v (sb_vals sb)) as [ids|] eqn:E.
  - simpl. destruct (is_nil (sdel id ids)) eqn:En.
    + rewrite blookup_bdel. destruct (bytes_eqb v' v) eqn:Ev; simpl; [|rewrite andb_true_r; auto].
      apply bytes_eqb_eq in Ev. subst v'. rewrite E. simpl.
      pose proof (is_nil_memN _ En s) as Hm. rewrite memN_sdel in Hm.
      destruct (N.eqb s id); simpl in *; [rewrite andb_false_r; auto|]. rewrite Hm. auto.
    + rewrite blookup_bupd. destruct (bytes_eqb v' v) eqn:Ev; simpl; [|rewrite andb_true_r; auto].
      apply bytes_eqb_eq in Ev. subst v'. rewrite E. simpl. rewrite memN_sdel. apply andb_comm.
  - destruct (bytes_eqb v' v) eqn:Ev; simpl; [|rewrite andb_true_r; auto].
    apply bytes_eqb_eq in Ev. subst v'. rewrite E. simpl. auto.
Qed.

Lemma sub_remove_wild : forall v id sb, sb_wild (sub_remove v id sb) = sb_wild sb.
Proof. intros. unfold sub_remove. destruct (blookup v (sb_vals sb)); auto. Qed.

Lemma sub_remove_fold : forall id vs sb,
  let sb' := fold_left (fun s v => sub_remove v id s) vs sb in
  sb_wild sb' = sb_wild sb /\
  forall v' s, s <> id -> memN s (odflt [] (blookup v' (sb_vals sb'))) = memN s (odflt [] (blookup v' (sb_vals sb))).
Proof.
  induction vs as [|v vs IH]; intros sb; simpl; [split; auto|].
  destruct (IH (sub_remove v id sb)) as [A B]. split; [rewrite A; apply sub_remove_wild|].
  intros v' s Hs. rewrite B, sub_remove_vals; auto.
  destruct (N.eqb s id) eqn:E; [apply N.eqb_eq in E; contradiction|]. rewrite andb_false_r. simpl. apply andb_true_r.
Qed.

Lemma iv_ri_put : forall l sb idx l' v' s,
  iv (ri_put l sb idx) l' v' s = if bytes_eqb l' l then memN s (odflt [] (blookup v' (sb_vals sb))) else iv idx l' v' s.
Proof.
  intros. unfold ri_put, iv. destruct (sub_is_empty sb) eqn:Ee.
  - rewrite blookup_bdel. destruct (bytes_eqb l' l); auto.
    unfold sub_is_empty in Ee. apply andb_true_iff in Ee. destruct Ee as [_ Ee].
    destruct (sb_vals sb); simpl in *; [auto|discriminate].
  - rewrite blookup_bupd. destruct (bytes_eqb l' l); auto.
Qed.

Lemma iw_ri_put : forall l sb idx l' s,
  iw (ri_put l sb idx) l' s = if bytes_eqb l' l then memN s (sb_wild sb) else iw idx l' s.
Proof.
  intros. unfold ri_put, iw. destruct (sub_is_empty sb) eqn:Ee.
  - rewrite blookup_bdel. destruct (bytes_eqb l' l); auto.
    unfold sub_is_empty in Ee. apply andb_true_iff in Ee. destruct Ee as [Ee _].
    destruct (sb_wild sb); simpl in *; [auto|discriminate].
  - rewrite blookup_bupd. destruct (bytes_eqb l' l); auto.
Qed.

(* removing selector id leaves every other selector's filing untouched *)
Lemma unregister_spec : forall id k x,
  let x' := ri_unregister id k x in
  ri_sels x' = ri_sels x
  /\ (forall l v s, s <> id -> iv (ri_idx x') l v s = iv (ri_idx x) l v s)
  /\ (forall l s, s <> id -> iw (ri_idx x') l s = iw (ri_idx x) l s)
  /\ (forall s, s <> id -> memN s (ri_unopt x') = memN s (ri_unopt x)).
Proof.
  intros id k x. destruct k as [|l vs|l|]; simpl.
  - repeat split; auto.
  - destruct (blookup l (ri_idx x)) as [sb|] eqn:E; [|repeat split; auto]. simpl.
    destruct (sub_remove_fold id vs sb) as [A B]. repeat split; auto.
    + intros l' v' s Hs. rewrite iv_ri_put. destruct (bytes_eqb l' l) eqn:El; auto.
      apply bytes_eqb_eq in El. subst l'. unfold iv. rewrite E. apply B. auto.
    + intros l' s Hs. rewrite iw_ri_put. destruct (bytes_eqb l' l) eqn:El; auto.
      apply bytes_eqb_eq in El. subst l'. unfold iw. rewrite E, A. auto.
  - destruct (blookup l (ri_idx x)) as [sb|] eqn:E; [|repeat split; auto]. simpl. repeat split; auto.
    + intros l' v' s Hs. rewrite iv_ri_put. destruct (bytes_eqb l' l) eqn:El; auto.
      apply bytes_eqb_eq in El. subst l'. unfold iv. rewrite E. auto.
    + intros l' s Hs. rewrite iw_ri_put. destruct (bytes_eqb l' l) eqn:El; auto.
      apply bytes_eqb_eq in El. subst l'. unfold iw. rewrite E. simpl. rewrite memN_sdel.
      destruct (N.eqb s id) eqn:Es; [apply N.eqb_eq in Es; contradiction|]. auto.
  - repeat split; auto. intros s Hs. rewrite memN_sdel.
    destruct (N.eqb s id) eqn:Es; [apply N.eqb_eq in Es; contradiction|]. auto.
Qed.

Lemma registered_transfer : forall s k x y,
  (forall l v, iv (ri_idx x) l v s = true -> iv (ri_idx y) l v s = true) ->
  (forall l, iw (ri_idx x) l s = true -> iw (ri_idx y) l s = true) ->
  (memN s (ri_unopt x) = true -> memN s (ri_unopt y) = true) ->
  registered s k x -> registered s k y.
Proof. intros s k x y A B C H. destruct k; simpl in *; auto. Qed.

Lemma ri_delete_spec : forall id x, ri_inv x ->
  ri_inv (ri_delete id x) /\ ri_sels (ri_delete id x) = ndel id (ri_sels x).
Proof.
  intros id x HI. unfold ri_delete. destruct (nlookup id (ri_sels x)) as [a|] eqn:E.
  - destruct (unregister_spec id (classify a) x) as [A [B [C D]]]. simpl. split; [|rewrite A; auto].
    intros s b Hs. simpl in Hs. rewrite A, nlookup_ndel in Hs.
    destruct (N.eqb s id) eqn:Es; [discriminate|].
    assert (Hne : s <> id) by (intros ->; rewrite N.eqb_refl in Es; discriminate).
    eapply (registered_transfer s (classify b) x); [| | |apply HI; auto]; simpl; intros.
    + rewrite B; auto.
    + rewrite C; auto.
    + rewrite D; auto.
  - split; auto. symmetry.
    assert (forall A (m : list (N * A)) k, nlookup k m = None -> ndel k m = m) as Hnd.
    { clear. induction m as [|[k' v'] m IH]; intros k H; auto.
      unfold nlookup in H. fold (@nlookup A) in H. unfold ndel. fold (@ndel A).
      destruct (N.eqb k k'); [discriminate|]. rewrite IH; auto. }
    apply Hnd. auto.
Qed.

Lemma ri_add_spec : forall id a x, ri_inv x ->
  ri_inv (ri_add id a x) /\ ri_sels (ri_add id a x) = nupd id a (ri_sels x).
Proof.
  intros id a x HI. unfold ri_add. destruct (ri_delete_spec id x HI) as [HI1 Es1].
  set (x1 := ri_delete id x) in *.
  set (x2 := {| ri_sels := nupd id a (ri_sels x1); ri_idx := ri_idx x1; ri_unopt := ri_unopt x1 |}).
  destruct (register_spec id (classify a) x2) as [A [B [C [D E]]]].
  assert (Hs : ri_sels (ri_register id (classify a) x2) = nupd id a (ri_sels x)).
  { rewrite A. unfold x2. simpl. rewrite Es1. unfold nupd. f_equal.
    clear. induction (ri_sels x) as [|[k v] m IH]; auto. unfold ndel. fold (@ndel ast).
    destruct (N.eqb id k) eqn:E; auto. unfold ndel. fold (@ndel ast). rewrite E. f_equal. auto. }
  split; auto.
  intros s b Hb. rewrite Hs, nlookup_nupd in Hb. destruct (N.eqb s id) eqn:Es.
  - apply N.eqb_eq in Es. subst s. inversion Hb; subst b. auto.
  - eapply (registered_transfer s (classify b) x1); auto.
    apply HI1. rewrite Es1, nlookup_ndel, Es. auto.
Qed.

Lemma ri_inv_empty : ri_inv ri_empty.
Proof. intros s a H. discriminate. Qed.

(* the selectors a history leaves in the index *)
Definition ri_sels_of (ops : list ri_op) : list (N * ast) :=
  fold_left (fun m o => match o with RiAdd id a => nupd id a m | RiDel id => ndel id m | RiQuery _ => m end) ops [].

Lemma ri_run_inv : forall ops x m, ri_inv x -> ri_sels x = m ->
  ri_inv (fold_left ri_step ops x) /\
  ri_sels (fold_left ri_step ops x)
  = fold_left (fun m o => match o with RiAdd id a => nupd id a m | RiDel id => ndel id m | RiQuery _ => m end) ops m.
Proof.
  induction ops as [|o ops IH]; intros x m HI Hm; simpl; auto.
  destruct o; simpl.
  - destruct (ri_add_spec id a x HI). apply IH; auto. congruence.
  - destruct (ri_delete_spec id x HI). apply IH; auto. congruence.
  - apply IH; auto.
Qed.

(* an impossible restriction cannot be met *)
Lemma impossible_unsat : forall r ov, possible r = false -> sat1 r ov -> False.
Proof.
  intros [mp ma vs] ov Hp [S1 [S2 S3]]. unfold possible in Hp. simpl in *.
  apply andb_false_iff in Hp. destruct Hp as [Hp|Hp].
  - apply negb_false_iff in Hp. apply andb_true_iff in Hp. destruct Hp as [-> ->].
    apply S1; auto.
  - apply negb_false_iff in Hp. destruct vs as [[|]|]; try discriminate.
    destruct (S3 [] eq_refl) as [v [_ []]].
Qed.

Theorem ri_candidates_superset_inv : forall x s a L,
  ri_inv x -> nlookup s (ri_sels x) = Some a -> eval a L = true -> In s (ri_candidates x L).
Proof.
  intros x s a L HI Hs Hev. pose proof (HI s a Hs) as HR.
  pose proof (restrictions_f_sound a L Hev) as Hsat.
  unfold ri_candidates. apply in_or_app.
  unfold classify, classify_restr in HR.
  destruct (most_restricted (restrictions_f a)) as [l|]; [|right; apply memN_In; auto].
  destruct (blookup l (restrictions_f a)) as [r|] eqn:Er; [|right; apply memN_In; auto].
  pose proof (Hsat l r (blookup_In _ _ _ _ Er)) as Hr.
  destruct (possible r) eqn:Ep; simpl in HR; [|exfalso; eapply impossible_unsat; eauto].
  destruct (r_vals r) as [vs|] eqn:Ev.
  - (* filed under each admissible value of l *)
    destruct Hr as [_ [_ S3]]. destruct (S3 vs Ev) as [v [Hv Hin]].
    left. apply in_flat_map. exists (l, v). split; [apply lookup_In; auto|].
    specialize (HR v Hin). unfold iv in HR. destruct (blookup l (ri_idx x)) as [sb|]; [|discriminate].
    apply in_or_app. right. apply memN_In. auto.
  - destruct (r_present r) eqn:Epr.
    + (* filed under l's wildcard *)
      destruct Hr as [S1 _]. destruct (lookup l L) as [v|] eqn:El; [|exfalso; apply S1; auto].
      left. apply in_flat_map. exists (l, v). split; [apply lookup_In; auto|].
      simpl in HR. unfold iw in HR. destruct (blookup l (ri_idx x)) as [sb|]; [|discriminate].
      apply in_or_app. left. apply memN_In. auto.
    + right. apply memN_In. auto.
Qed.

(* for every history of AddSelector/DeleteSelector: a selector that is in the index and evaluates to true on the
   item's labels is among the candidates AllPotentialMatches yields for the item *)
Theorem ri_candidates_superset : forall ops s a L,
  nlookup s (ri_sels_of ops) = Some a -> eval a L = true ->
  In s (ri_candidates (fold_left ri_step ops ri_empty) L).
Proof.
  intros ops s a L Hs Hev. destruct (ri_run_inv ops ri_empty [] ri_inv_empty eq_refl) as [HI Hm].
  eapply ri_candidates_superset_inv; eauto. rewrite Hm. exact Hs.
Qed.

(* ================================================================== LabelNameValueIndex *)

Definition nvm (idx : list (bytes * list (bytes * list N))) (k v : bytes) (s : N) : bool :=
  memN s (odflt [] (blookup v (odflt [] (blookup k idx)))).

Definition nv_inv (x : nv) : Prop :=
  forall i L k v, nlookup i (nv_items x) = Some L -> In (k, v) L -> nvm (nv_idx x) k v i = true.

Lemma nvm_add_kv : forall id idx k v k' v' s,
  nvm (nv_add_kv id idx (k, v)) k' v' s = (bytes_eqb k' k && bytes_eqb v' v && N.eqb s id) || nvm idx k' v' s.
Proof.
  intros. unfold nvm, nv_add_kv. rewrite blookup_bupd. destruct (bytes_eqb k' k) eqn:Ek; simpl; auto.
  apply bytes_eqb_eq in Ek. subst k'. rewrite blookup_bupd. destruct (bytes_eqb v' v) eqn:Ev; simpl; auto.
  apply bytes_eqb_eq in Ev. subst v'. rewrite memN_sadd. auto.
Qed.

Lemma nvm_del_kv : forall id idx k v k' v' s,
  nvm (nv_del_kv id idx (k, v)) k' v' s = nvm idx k' v' s && negb (bytes_eqb k' k && bytes_eqb v' v && N.eqb s id).
Proof.
  intros. unfold nvm, nv_del_kv. destruct (blookup k idx) as [vals|] eqn:Ek.
  - set (ids' := sdel id (odflt [] (blookup v vals))).
    set (vals' := if is_nil ids' then bdel v vals else bupd v ids' vals).
    assert (Hv : forall v', memN s (odflt [] (blookup v' vals'))
                  = memN s (odflt [] (blookup v' vals)) && negb (bytes_eqb v' v && N.eqb s id)).
    { intros v0. unfold vals'. destruct (is_nil ids') eqn:En.
      - rewrite blookup_bdel. destruct (bytes_eqb v0 v) eqn:Ev; simpl; [|rewrite andb_true_r; auto].
        apply bytes_eqb_eq in Ev. subst v0. pose proof (is_nil_memN _ En s) as Hm. unfold ids' in Hm.
        rewrite memN_sdel in Hm. destruct (N.eqb s id); simpl in *; [rewrite andb_false_r; auto|]. rewrite Hm. auto.
      - rewrite blookup_bupd. destruct (bytes_eqb v0 v) eqn:Ev; simpl; [|rewrite andb_true_r; auto].
        apply bytes_eqb_eq in Ev. subst v0. unfold ids'. rewrite memN_sdel. apply andb_comm. }
    destruct (is_nil vals') eqn:En.
    + rewrite blookup_bdel. destruct (bytes_eqb k' k) eqn:Ek'; simpl; [|rewrite andb_true_r; auto].
      apply bytes_eqb_eq in Ek'. subst k'. rewrite Ek. simpl.
      specialize (Hv v'). destruct vals'; [|discriminate]. simpl in Hv. auto.
    + rewrite blookup_bupd. destruct (bytes_eqb k' k) eqn:Ek'; simpl; [|rewrite andb_true_r; auto].
      apply bytes_eqb_eq in Ek'. subst k'. rewrite Ek. simpl. apply Hv.
  - destruct (bytes_eqb k' k) eqn:Ek'; simpl; [|rewrite andb_true_r; auto].
    apply bytes_eqb_eq in Ek'. subst k'. rewrite Ek. simpl. auto.
Qed.

Lemma nvm_add_fold : forall id L idx,
  let idx' := fold_left (nv_add_kv id) L idx in
  (forall k v, In (k, v) L -> nvm idx' k v id = true)
  /\ (forall k v s, nvm idx k v s = true -> nvm idx' k v s = true).
Proof.
  induction L as [|[k v] L IH]; intros idx; simpl; [split; auto; intros k v []|].
  destruct (IH (nv_add_kv id idx (k, v))) as [A B]. split.
  - intros k' v' [H|H]; auto. inversion H; subst. apply B. rewrite nvm_add_kv, !bytes_eqb_refl, N.eqb_refl. auto.
  - intros k' v' s H. apply B. rewrite nvm_add_kv, H. apply orb_true_r.
Qed.

Lemma nvm_del_fold : forall id L idx k v s, s <> id ->
  nvm (fold_left (nv_del_kv id) L idx) k v s = nvm idx k v s.
Proof.
  induction L as [|[k0 v0] L IH]; intros idx k v s Hs; cbn [fold_left]; auto.
  rewrite IH; auto. rewrite nvm_del_kv.
  destruct (N.eqb s id) eqn:E; [apply N.eqb_eq in E; contradiction|]. rewrite andb_false_r. apply andb_true_r.
Qed.

Lemma nv_inv_step : forall x o, nv_inv x -> nv_inv (nv_step x o).
Proof.
  intros x o HI. destruct o; simpl; auto.
  - unfold nv_add. destruct (nlookup id (nv_items x)) eqn:E; auto.
    destruct (nvm_add_fold id L (nv_idx x)) as [A B].
    intros i L' k v Hi Hin. simpl in *. rewrite nlookup_nupd in Hi. destruct (N.eqb i id) eqn:Ei.
    + apply N.eqb_eq in Ei. subst i. inversion Hi; subst L'. auto.
    + apply B. eapply HI; eauto.
  - unfold nv_remove. destruct (nlookup id (nv_items x)) as [L0|] eqn:E; auto.
    intros i L' k v Hi Hin. simpl in *. rewrite nlookup_ndel in Hi. destruct (N.eqb i id) eqn:Ei; [discriminate|].
    rewrite nvm_del_fold; [eapply HI; eauto|]. intros ->. rewrite N.eqb_refl in Ei. discriminate.
Qed.

Lemma nv_inv_run : forall ops, nv_inv (fold_left nv_step ops nv_empty).
Proof. intros. apply fold_left_pres; [intros; apply nv_inv_step; auto|]. intros i L k v H. discriminate. Qed.

Lemma In_ninsert : forall x a l, In x (ninsert a l) <-> x = a \/ In x l.
Proof.
  induction l as [|b l IH]; simpl; [intuition|].
  destruct (N.ltb a b); simpl; [intuition|].
  destruct (N.eqb a b) eqn:E; simpl.
  - apply N.eqb_eq in E. subst. intuition.
  - rewrite IH. intuition.
Qed.

Lemma In_nsort : forall x l, In x (nsort l) <-> In x l.
Proof.
  induction l as [|a l IH]; simpl; [tauto|]. rewrite In_ninsert, IH. intuition.
Qed.

Lemma nvm_true : forall idx k v i, nvm idx k v i = true ->
  exists vals ids, blookup k idx = Some vals /\ blookup v vals = Some ids /\ In i ids.
Proof.
  intros idx k v i H. unfold nvm in H. destruct (blookup k idx) as [vals|]; simpl in H; [|discriminate].
  destruct (blookup v vals) as [ids|] eqn:E; simpl in H; [|discriminate].
  exists vals, ids. repeat split; auto. apply memN_In. auto.
Qed.

Lemma pick_sets : forall (sets : list (list N)) ids i, In ids sets -> In i ids ->
  In i (snd (match sets with
             | [] => (SNoMatch, [])
             | [ids] => (SSingle, ids)
             | _ => (SMulti, nsort (concat sets))
             end)).
Proof.
  intros sets ids i H H0. destruct sets as [|s1 [|s2 rest]].
  - destruct H.
  - destruct H as [->|[]]; auto.
  - cbn [snd]. apply In_nsort. apply in_concat. exists ids; auto.
Qed.

(* a stored item whose OWN labels satisfy the restriction on label l is scanned by the chosen strategy *)
Theorem nv_scan_superset_inv : forall x l r i L,
  nv_inv x -> nlookup i (nv_items x) = Some L -> sat1 r (lookup l L) -> In i (snd (nv_scan x l r)).
Proof.
  intros x l r i L HI Hi [S1 [S2 S3]]. unfold nv_scan.
  destruct (r_present r) eqn:Ep; simpl; [|eapply nlookup_In_fst; eauto].
  destruct (lookup l L) as [v|] eqn:El; [|exfalso; apply S1; auto].
  pose proof (HI i L l v Hi (lookup_In _ _ _ El)) as Hm. apply nvm_true in Hm.
  destruct Hm as [vals [ids [H1 [H2 H3]]]]. rewrite H1.
  destruct (r_vals r) as [vs|] eqn:Ev; simpl.
  - destruct (S3 vs eq_refl) as [v0 [Hv0 Hin]]. inversion Hv0; subst v0.
    set (sets := flat_map (fun v => match blookup v vals with Some ids => [ids] | None => [] end) vs).
    assert (Hs : In ids sets).
    { unfold sets. apply in_flat_map. exists v. split; auto. rewrite H2. simpl. auto. }
    apply (pick_sets sets ids i); auto.
  - apply in_flat_map. exists (v, ids). split; auto. apply blookup_In. auto.
Qed.

Definition nv_items_of (ops : list nv_op) : list (N * labels) := nv_items (fold_left nv_step ops nv_empty).

Theorem nv_scan_superset : forall ops l r i L,
  nlookup i (nv_items (fold_left nv_step ops nv_empty)) = Some L ->
  sat1 r (lookup l L) ->
  In i (snd (nv_scan (fold_left nv_step ops nv_empty) l r)).
Proof. intros. eapply nv_scan_superset_inv; eauto. apply nv_inv_run. Qed.
