(* C07 — the value slices of the restriction summaries as the Go code handles them: the binary search of
   StringSet.Contains is a membership test on what ConvertToStringSetInPlace produces, so the faithful
   intersection/union never lose a value, and LabelRestrictions over them is sound.  Without the sort (the variant
   that binary-searches an unsorted slice) soundness fails: witness at the end. *)
From Coq Require Import List NArith Bool Arith Lia Sorted Permutation.
From Verif.Common Require Import Labels.
From Verif.C07 Require Import Model Spec MapLemmas RestrProofs.
Import ListNotations.

(* ------------------------------------------------------------------ the order on strings *)
Lemma bltb_asym : forall a b, bytes_ltb a b = true -> bytes_ltb b a = false.
Proof.
  intros a b H. destruct (bytes_ltb b a) eqn:E; auto.
  pose proof (bytes_ltb_trans _ _ _ H E) as C. rewrite bytes_ltb_irrefl in C. discriminate.
Qed.

Lemma bleb_refl : forall a, bytes_leb a a = true.
Proof. intros. unfold bytes_leb. rewrite bytes_ltb_irrefl. auto. Qed.

Lemma bleb_total : forall a b, bytes_leb a b = true \/ bytes_leb b a = true.
Proof.
  intros. unfold bytes_leb. destruct (bytes_ltb b a) eqn:E; auto. right. rewrite (bltb_asym _ _ E). auto.
Qed.

Lemma bleb_trans : forall a b c, bytes_leb a b = true -> bytes_leb b c = true -> bytes_leb a c = true.
Proof.
  unfold bytes_leb. intros a b c H1 H2. apply negb_true_iff in H1, H2. apply negb_true_iff.
  destruct (bytes_ltb c a) eqn:E; auto. destruct (bytes_ltb a b) eqn:E2.
  - rewrite (bytes_ltb_trans _ _ _ E E2) in H2. discriminate.
  - assert (a = b) by (apply bytes_ltb_total; auto). subst. congruence.
Qed.

Lemma bleb_antisym : forall a b, bytes_leb a b = true -> bytes_leb b a = true -> a = b.
Proof. unfold bytes_leb. intros a b H1 H2. apply negb_true_iff in H1, H2. apply bytes_ltb_total; auto. Qed.

Lemma ble_lt_trans : forall a b c, bytes_leb a b = true -> bytes_ltb b c = true -> bytes_ltb a c = true.
Proof.
  unfold bytes_leb. intros a b c H1 H2. apply negb_true_iff in H1. destruct (bytes_ltb a b) eqn:E.
  - eapply bytes_ltb_trans; eauto.
  - assert (a = b) by (apply bytes_ltb_total; auto). subst. auto.
Qed.

Definition ble (a b : bytes) : Prop := bytes_leb a b = true.

(* ------------------------------------------------------------------ sort.Slice + the de-duplication loop *)
Lemma binsert_perm : forall a l, Permutation (binsert a l) (a :: l).
Proof.
  induction l as [|b l IH]; simpl; auto. destruct (bytes_leb a b); auto.
  eapply perm_trans; [apply perm_skip; apply IH|apply perm_swap].
Qed.

Lemma bsort_perm : forall l, Permutation (bsort l) l.
Proof. induction l as [|a l IH]; simpl; auto. eapply perm_trans; [apply binsert_perm|]. auto. Qed.

Lemma In_bsort : forall v l, In v (bsort l) <-> In v l.
Proof.
  intros. split; intros H.
  - eapply Permutation_in; [apply bsort_perm|auto].
  - eapply Permutation_in; [apply Permutation_sym, bsort_perm|auto].
Qed.

Lemma binsert_sorted : forall a l, StronglySorted ble l -> StronglySorted ble (binsert a l).
Proof.
  induction l as [|b l IH]; simpl; intros H.
  - constructor; constructor.
  - inversion H; subst. destruct (bytes_leb a b) eqn:E.
    + constructor; auto. constructor; auto.
      eapply Forall_impl; [|exact H3]. intros c Hc. eapply bleb_trans; eauto.
    + constructor; auto.
      assert (Hba : ble b a) by (destruct (bleb_total a b); [congruence|auto]).
      eapply Permutation_Forall; [apply Permutation_sym; apply binsert_perm|]. constructor; auto.
Qed.

Lemma bsort_sorted : forall l, StronglySorted ble (bsort l).
Proof. induction l; simpl; [constructor|apply binsert_sorted; auto]. Qed.

Lemma dedup_adj_cons : forall a l,
  dedup_adj (a :: l) = match l with
                       | [] => [a]
                       | b :: _ => if bytes_eqb a b then dedup_adj l else a :: dedup_adj l
                       end.
Proof. intros. destruct l; reflexivity. Qed.

Lemma In_dedup_adj : forall v l, In v (dedup_adj l) <-> In v l.
Proof.
  induction l as [|a l IH]; [tauto|]. rewrite dedup_adj_cons. destruct l as [|b l'].
  - tauto.
  - destruct (bytes_eqb a b) eqn:E.
    + apply bytes_eqb_eq in E. subst. rewrite IH. simpl. tauto.
    + simpl. simpl in IH. rewrite IH. tauto.
Qed.

Lemma dedup_adj_sorted : forall l, StronglySorted ble l -> StronglySorted ble (dedup_adj l).
Proof.
  induction l as [|a l IH]; intros H; [constructor|]. rewrite dedup_adj_cons. inversion H; subst.
  destruct l as [|b l']; [constructor; constructor|].
  destruct (bytes_eqb a b).
  - apply IH. auto.
  - constructor; [apply IH; auto|].
    rewrite Forall_forall in *. intros x Hx. apply H3. rewrite In_dedup_adj in Hx. auto.
Qed.

Lemma to_set_f_sorted : forall s, StronglySorted ble (to_set_f s).
Proof. intros. apply dedup_adj_sorted, bsort_sorted. Qed.

Lemma In_to_set_f : forall v s, In v (to_set_f s) <-> In v s.
Proof. intros. unfold to_set_f. rewrite In_dedup_adj, In_bsort. tauto. Qed.

(* ------------------------------------------------------------------ the binary search *)
Lemma sorted_nth : forall ss, StronglySorted ble ss ->
  forall i j, (i <= j)%nat -> (j < length ss)%nat -> ble (nth i ss []) (nth j ss []).
Proof.
  induction ss as [|a ss IH]; intros H i j Hij Hj; simpl in Hj; [lia|]. inversion H; subst.
  destruct i, j; simpl; try lia.
  - apply bleb_refl.
  - rewrite Forall_forall in H3. apply H3. apply nth_In. lia.
  - apply IH; auto; lia.
Qed.

Lemma div2_bounds : forall lo hi, (lo < hi)%nat -> (lo <= Nat.div2 (lo + hi) < hi)%nat.
Proof.
  intros. rewrite Nat.div2_div. split.
  - apply Nat.div_le_lower_bound; lia.
  - apply Nat.div_lt_upper_bound; lia.
Qed.

Lemma bsearch_spec : forall ss s, StronglySorted ble ss ->
  forall fuel lo hi,
  (lo <= hi <= length ss)%nat -> (hi - lo < fuel)%nat ->
  (forall j, (j < lo)%nat -> bytes_ltb (nth j ss []) s = true) ->
  (forall j, (hi <= j < length ss)%nat -> bytes_leb s (nth j ss []) = true) ->
  let i := bsearch fuel lo hi ss s in
  (i <= length ss)%nat /\
  (forall j, (j < i)%nat -> bytes_ltb (nth j ss []) s = true) /\
  (forall j, (i <= j < length ss)%nat -> bytes_leb s (nth j ss []) = true).
Proof.
  intros ss s HS. induction fuel as [|fuel IH]; intros lo hi Hb Hf Hlo Hhi; [lia|].
  simpl. destruct (Nat.ltb_spec lo hi) as [Hlt|Hge].
  - pose proof (div2_bounds lo hi Hlt) as Hh. set (h := Nat.div2 (lo + hi)) in *.
    destruct (bytes_leb s (nth h ss [])) eqn:E.
    + apply IH; auto; try lia.
      intros j Hj. eapply bleb_trans; [exact E|]. apply sorted_nth; auto; lia.
    + apply IH; auto; try lia.
      intros j Hj. unfold bytes_leb in E. apply negb_false_iff in E.
      eapply ble_lt_trans; [|exact E]. apply sorted_nth; auto; lia.
  - assert (lo = hi) by lia. subst. repeat split; auto; lia.
Qed.

(* on a sorted slice StringSet.Contains is exactly membership *)
Theorem contains_bs_sorted : forall ss s, StronglySorted ble ss -> (contains_bs ss s = true <-> In s ss).
Proof.
  intros ss s HS. unfold contains_bs.
  destruct (bsearch_spec ss s HS (S (length ss)) 0 (length ss)) as [Hi [Hlt Hge]]; try lia.
  set (i := bsearch (S (length ss)) 0 (length ss) ss s) in *. unfold bytes in *. split.
  - intros H. apply andb_true_iff in H. destruct H as [H1 H2]. apply Nat.ltb_lt in H1.
    apply bytes_eqb_eq in H2. rewrite <- H2. apply nth_In. auto.
  - intros Hin. destruct (In_nth _ _ [] Hin) as [j [Hj Hnth]].
    assert (Hij : (i <= j)%nat).
    { destruct (Nat.le_gt_cases i j) as [Hle|Hgt]; auto. pose proof (Hlt j Hgt) as C.
      unfold bytes in *. rewrite Hnth, bytes_ltb_irrefl in C. discriminate. }
    apply andb_true_iff. split; [apply Nat.ltb_lt; lia|]. apply bytes_eqb_eq.
    apply bleb_antisym.
    + rewrite <- Hnth. apply sorted_nth; auto.
    + apply Hge. lia.
Qed.

Theorem binary_search_contains : forall s v, contains_bs (to_set_f s) v = true <-> In v s.
Proof. intros. rewrite (contains_bs_sorted _ _ (to_set_f_sorted s)). apply In_to_set_f. Qed.

Lemma contains_bs_In : forall ss s, contains_bs ss s = true -> In s ss.
Proof.
  intros ss s H. unfold contains_bs in H. apply andb_true_iff in H. destruct H as [H1 H2].
  apply Nat.ltb_lt in H1. apply bytes_eqb_eq in H2. rewrite <- H2. apply nth_In. auto.
Qed.

(* ------------------------------------------------------------------ the faithful intersection and union lose nothing *)
Lemma In_inter_f : forall v a b, In v (inter_f a b) <-> In v a /\ In v b.
Proof.
  intros. unfold inter_f. rewrite filter_In, (contains_bs_sorted _ _ (to_set_f_sorted b)), In_to_set_f. tauto.
Qed.

Lemma in_skipn_local : forall A (x : A) n l, In x (skipn n l) -> In x l.
Proof. induction n; destruct l; simpl; auto. Qed.

Lemma In_union_f : forall v a b, In v (union_f a b) <-> In v a \/ In v b.
Proof.
  intros. unfold union_f. set (sa := bsort a). set (k := dedup_adj sa).
  assert (Hk : forall x, In x k <-> In x a) by (intros; unfold k, sa; rewrite In_dedup_adj, In_bsort; tauto).
  assert (HS : StronglySorted ble k) by (apply dedup_adj_sorted, bsort_sorted).
  rewrite !in_app_iff, filter_In. split.
  - intros [[H|H]|[H _]]; auto.
    + left. apply Hk. auto.
    + left. apply (In_bsort v a). eapply in_skipn_local. exact H.
  - intros [H|H].
    + left. left. apply Hk. auto.
    + destruct (contains_bs k v) eqn:E.
      * left. left. apply contains_bs_In. auto.
      * right. split; auto.
Qed.

(* ------------------------------------------------------------------ LabelRestrictions over any lossless intersection/union *)
Section GenSound.
  Variable inter union : list bytes -> list bytes -> list bytes.
  Hypothesis inter_keeps : forall v a b, In v a -> In v b -> In v (inter a b).
  Hypothesis union_l : forall v a b, In v a -> In v (union a b).
  Hypothesis union_r : forall v a b, In v b -> In v (union a b).

  Lemma and_entry_g_sound : forall L lr ln r,
    satisfies lr L -> sat1 r (lookup ln L) -> satisfies (and_entry_g inter lr (ln, r)) L.
  Proof.
    intros L lr ln r Hlr Hr. unfold and_entry_g.
    assert (Hb : sat1 (odflt r_zero (blookup ln lr)) (lookup ln L)).
    { destruct (blookup ln lr) eqn:E; simpl; [|apply sat1_zero]. apply Hlr. apply blookup_In. auto. }
    set (base := odflt r_zero (blookup ln lr)) in *.
    intros k r' Hin. apply In_bupd in Hin. destruct Hin as [Hin|[Hin _]]; [|apply Hlr; auto].
    inversion Hin; subst k r'. clear Hin.
    destruct Hb as [B1 [B2 B3]]. destruct Hr as [R1 [R2 R3]].
    repeat split; simpl.
    - intros H. apply orb_true_iff in H. destruct H; auto.
    - intros H. apply orb_true_iff in H. destruct H; auto.
    - intros vs H. destruct (r_vals base) as [a|] eqn:Ea.
      + destruct (B3 a eq_refl) as [v [Hv Hina]].
        destruct (r_vals r) as [b|] eqn:Eb.
        * destruct (R3 b eq_refl) as [v' [Hv' Hinb]]. inversion H; subst vs.
          exists v. split; auto. rewrite Hv in Hv'. inversion Hv'; subst v'. apply inter_keeps; auto.
        * inversion H; subst vs. eauto.
      + apply R3. auto.
  Qed.

  Lemma and_merge_g_sound : forall L opLR lr,
    satisfies lr L -> satisfies opLR L -> satisfies (and_merge_g inter lr opLR) L.
  Proof.
    unfold and_merge_g. induction opLR as [|[ln r] op IH]; simpl; intros lr Hlr Hop; auto.
    apply IH.
    - apply and_entry_g_sound; auto. apply Hop. left. auto.
    - intros k r' Hin. apply Hop. right. auto.
  Qed.

  Lemma or_merge_g_sound : forall L lr opLR,
    satisfies lr L \/ satisfies opLR L -> satisfies (or_merge_g union lr opLR) L.
  Proof.
    intros L lr opLR H k r' Hin. unfold or_merge_g in Hin. apply in_flat_map in Hin.
    destruct Hin as [[ln r] [Hin1 Hin2]]. unfold or_entry_g in Hin2.
    set (opr := odflt r_zero (blookup ln opLR)) in *.
    destruct (r_present r && r_present opr || r_absent r && r_absent opr) eqn:Ekeep; [|contradiction].
    destruct Hin2 as [Hin2|[]]. inversion Hin2; subst k r'. clear Hin2.
    assert (Hcase : sat1 r (lookup ln L) \/ sat1 opr (lookup ln L)).
    { destruct H as [H|H].
      - left. apply H. auto.
      - unfold opr. destruct (blookup ln opLR) eqn:E; simpl.
        + right. apply H. apply blookup_In. auto.
        + exfalso. clear -Ekeep E. subst opr. try rewrite E in Ekeep. simpl in Ekeep.
          rewrite !andb_false_r in Ekeep. discriminate. }
    repeat split; simpl.
    - intros Hp. apply andb_true_iff in Hp. destruct Hp as [P1 P2].
      destruct Hcase as [[S1 _]|[S1 _]]; auto.
    - intros Ha. apply andb_true_iff in Ha. destruct Ha as [A1 A2].
      destruct Hcase as [[_ [S2 _]]|[_ [S2 _]]]; auto.
    - intros vs Hv. destruct (r_present r && r_present opr) eqn:Ep; [|discriminate].
      destruct (r_vals r) as [a|] eqn:Ea; [|discriminate].
      destruct (r_vals opr) as [b|] eqn:Eb; [|discriminate].
      inversion Hv; subst vs.
      destruct Hcase as [[_ [_ S3]]|[_ [_ S3]]].
      + destruct (S3 a Ea) as [v [Hv1 Hv2]]. exists v. split; auto.
      + destruct (S3 b Eb) as [v [Hv1 Hv2]]. exists v. split; auto.
  Qed.

  Theorem restrictions_g_sound : forall a L, eval a L = true -> satisfies (restrictions_g inter union a) L.
  Proof.
    induction a using ast_ind_nested; intros L Hev; simpl in *;
      try (apply satisfies_nil).
    - intros k r [Hin|[]]. inversion Hin; subst k r; clear Hin. destruct (lookup l L) eqn:E; try discriminate.
      apply bytes_eqb_eq in Hev. subst b. repeat split; simpl; try congruence.
      intros vs Hvs. inversion Hvs; subst vs. exists v. simpl. auto.
    - intros k r [Hin|[]]. inversion Hin; subst k r; clear Hin. destruct (lookup l L) eqn:E; try discriminate.
      repeat split; simpl; congruence.
    - intros k r [Hin|[]]. inversion Hin; subst k r; clear Hin. destruct (lookup l L) eqn:E; try discriminate.
      repeat split; simpl; congruence.
    - intros k r [Hin|[]]. inversion Hin; subst k r; clear Hin. destruct (lookup l L) eqn:E; try discriminate.
      repeat split; simpl; congruence.
    - intros k r [Hin|[]]. inversion Hin; subst k r; clear Hin. destruct (lookup l L) eqn:E; try discriminate.
      repeat split; simpl; try congruence.
      intros vs' Hvs. destruct vs as [|v0 vs0]; simpl in Hvs; try discriminate. inversion Hvs; subst vs'.
      exists b. split; auto. apply mem_bytes_In. auto.
    - intros k r [Hin|[]]. inversion Hin; subst k r; clear Hin. destruct (lookup l L) eqn:E; try discriminate.
      repeat split; simpl; congruence.
    - destruct a; try (apply satisfies_nil).
      intros k r [Hin|[]]. inversion Hin; subst k r; clear Hin. simpl in Hev. destruct (lookup l L) eqn:E; try discriminate.
      repeat split; simpl; congruence.
    - assert (G : forall xs0 acc,
                 Forall (fun x => eval x L = true -> satisfies (restrictions_g inter union x) L) xs0 ->
                 forallb (fun x => eval x L) xs0 = true -> satisfies acc L ->
                 satisfies (fold_left (fun lr x => and_merge_g inter lr (restrictions_g inter union x)) xs0 acc) L).
      { clear H Hev. induction xs0 as [|x xs0 IH]; simpl; intros acc HF Hev Hacc; auto.
        apply andb_true_iff in Hev. destruct Hev as [E1 E2]. inversion HF; subst.
        apply IH; auto. apply and_merge_g_sound; auto. }
      apply G; auto.
      + eapply Forall_impl; [|exact H]. simpl. auto.
      + apply satisfies_nil.
    - destruct xs as [|x xs]; [apply satisfies_nil|]. inversion H; subst.
      assert (G : forall ys acc,
                 Forall (fun x => eval x L = true -> satisfies (restrictions_g inter union x) L) ys ->
                 (satisfies acc L \/ existsb (fun x => eval x L) ys = true) ->
                 satisfies (fold_left (fun lr y => or_merge_g union lr (restrictions_g inter union y)) ys acc) L).
      { induction ys as [|y ys IH]; simpl; intros acc HF H0.
        - destruct H0; auto. discriminate.
        - inversion HF; subst. apply IH; auto.
          destruct H0 as [H0|H0].
          + left. apply or_merge_g_sound. auto.
          + apply orb_true_iff in H0. destruct H0 as [H0|H0]; auto.
            left. apply or_merge_g_sound. right. auto. }
      apply G.
      + eapply Forall_impl; [|eassumption]. simpl. auto.
      + simpl in Hev. apply orb_true_iff in Hev. destruct Hev; auto.
  Qed.
End GenSound.

(* the summaries computed the way the Go code computes them never exclude a true match *)
Theorem restrictions_f_sound : forall a L, eval a L = true -> satisfies (restrictions_f a) L.
Proof.
  intros. apply restrictions_g_sound; auto.
  - intros v x y H1 H2. apply In_inter_f. auto.
  - intros v x y H1. apply In_union_f. auto.
  - intros v x y H1. apply In_union_f. auto.
Qed.

(* ... whereas binary-searching the second slice without sorting it first does:  a == "x" && (a == "z" || a == "x")
   evaluates to true on {a: x}, yet the summary admits no value at all for a *)
Theorem restrictions_nosort_refuted :
  exists a L, eval a L = true /\ satisfies_b (restrictions_nosort a) L = false.
Proof.
  exists (SAnd [SEq [97%N] [120%N]; SOr [SEq [97%N] [122%N]; SEq [97%N] [120%N]]]), [([97%N], [120%N])].
  vm_compute. split; reflexivity.
Qed.
