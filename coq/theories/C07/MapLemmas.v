(* C07 — lemmas about the association-list maps, sets and relations of Model.v. *)
From Coq Require Import List NArith Bool Arith Lia.
From Verif.Common Require Import Labels.
From Verif.C07 Require Import Model.
Import ListNotations.
Open Scope N_scope.

Lemma nlookup_ndel : forall A k k' (m : list (N * A)),
  nlookup k' (ndel k m) = if N.eqb k' k then None else nlookup k' m.
Proof.
  induction m as [|[k2 v2] m IH]; simpl.
  - destruct (N.eqb k' k); auto.
  - destruct (N.eqb k k2) eqn:E.
    + rewrite IH. destruct (N.eqb k' k) eqn:E2; auto.
      apply N.eqb_eq in E. subst. rewrite E2. auto.
    + simpl. rewrite IH. destruct (N.eqb k' k2) eqn:E3; auto.
      apply N.eqb_eq in E3. subst. rewrite N.eqb_sym, E. auto.
Qed.

Lemma nlookup_nupd : forall A k v k' (m : list (N * A)),
  nlookup k' (nupd k v m) = if N.eqb k' k then Some v else nlookup k' m.
Proof. intros. unfold nupd. simpl. rewrite nlookup_ndel. destruct (N.eqb k' k); auto. Qed.

Lemma nlookup_In_fst : forall A k (m : list (N * A)) v, nlookup k m = Some v -> In k (map fst m).
Proof.
  induction m as [|[k2 v2] m IH]; simpl; intros v H; try discriminate.
  destruct (N.eqb k k2) eqn:E; [apply N.eqb_eq in E; auto | right; eauto].
Qed.

Lemma In_fst_nlookup : forall A k (m : list (N * A)), In k (map fst m) -> exists v, nlookup k m = Some v.
Proof.
  induction m as [|[k2 v2] m IH]; simpl; intros H; [contradiction|].
  destruct (N.eqb k k2) eqn:E; eauto. destruct H as [H|H]; auto.
  subst. rewrite N.eqb_refl in E. discriminate.
Qed.

Lemma memN_In : forall x l, memN x l = true <-> In x l.
Proof.
  intros. unfold memN. rewrite existsb_exists. split.
  - intros [y [Hy E]]. apply N.eqb_eq in E. subst. auto.
  - intros H. exists x. split; auto. apply N.eqb_refl.
Qed.

Lemma memN_sadd : forall y x l, memN y (sadd x l) = N.eqb y x || memN y l.
Proof.
  intros. unfold sadd. destruct (memN x l) eqn:E.
  - destruct (N.eqb y x) eqn:E2; auto. apply N.eqb_eq in E2. subst. auto.
  - reflexivity.
Qed.

Lemma memN_sdel : forall y x l, memN y (sdel x l) = negb (N.eqb y x) && memN y l.
Proof.
  induction l as [|z l IH]; simpl.
  - rewrite andb_false_r. auto.
  - destruct (N.eqb x z) eqn:E; simpl.
    + rewrite IH. apply N.eqb_eq in E. subst z. destruct (N.eqb y x); simpl; auto.
    + rewrite IH. destruct (N.eqb y z) eqn:E2; simpl.
      * apply N.eqb_eq in E2. subst z. rewrite N.eqb_sym, E. auto.
      * auto.
Qed.

Lemma is_nil_memN : forall l, is_nil l = true -> forall y, memN y l = false.
Proof. destruct l; simpl; intros; [auto|discriminate]. Qed.

Lemma rel_mem_add : forall a b a' b' r,
  rel_mem a' b' (rel_add a b r) = (N.eqb a' a && N.eqb b' b) || rel_mem a' b' r.
Proof.
  intros. unfold rel_mem, rel_add. rewrite nlookup_nupd.
  destruct (N.eqb a' a) eqn:E; simpl; auto.
  apply N.eqb_eq in E. subst a'. rewrite memN_sadd.
  destruct (nlookup a r); simpl; auto.
Qed.

Lemma rel_mem_del : forall a b a' b' r,
  rel_mem a' b' (rel_del a b r) = rel_mem a' b' r && negb (N.eqb a' a && N.eqb b' b).
Proof.
  intros. unfold rel_mem, rel_del.
  destruct (nlookup a r) as [l|] eqn:El.
  - destruct (is_nil (sdel b l)) eqn:En.
    + rewrite nlookup_ndel. destruct (N.eqb a' a) eqn:E; simpl.
      * apply N.eqb_eq in E. subst a'. rewrite El.
        pose proof (is_nil_memN _ En b') as Hm. rewrite memN_sdel in Hm.
        destruct (N.eqb b' b); simpl in *; [rewrite andb_false_r; auto|]. rewrite Hm. auto.
      * rewrite andb_true_r. auto.
    + rewrite nlookup_nupd. destruct (N.eqb a' a) eqn:E; simpl.
      * apply N.eqb_eq in E. subst a'. rewrite El, memN_sdel. rewrite andb_comm. auto.
      * rewrite andb_true_r. auto.
  - destruct (N.eqb a' a) eqn:E; simpl.
    + apply N.eqb_eq in E. subst a'. rewrite El. auto.
    + rewrite andb_true_r. auto.
Qed.

Lemma fold_left_pres : forall A B (P : A -> Prop) (f : A -> B -> A) l x,
  (forall y k, P y -> P (f y k)) -> P x -> P (fold_left f l x).
Proof. induction l; simpl; intros; auto. Qed.

Lemma fold_left_pres_In : forall A B (P : A -> Prop) (f : A -> B -> A) l x,
  (forall y k, In k l -> P y -> P (f y k)) -> P x -> P (fold_left f l x).
Proof. induction l; simpl; intros; auto 6. Qed.
