(* C07 — soundness of the LabelRestrictions summaries (by induction on the selector AST). *)
From Coq Require Import List NArith Bool Arith Lia.
From Verif.Common Require Import Labels.
From Verif.C07 Require Import Model Spec.
Import ListNotations.
Open Scope N_scope.

(* ---- association lists keyed by bytes *)
Lemma blookup_In : forall A k (m : list (bytes * A)) v, blookup k m = Some v -> In (k, v) m.
Proof.
  induction m as [|[k' v'] m IH]; simpl; intros v H; try discriminate.
  destruct (bytes_eqb k k') eqn:E.
  - apply bytes_eqb_eq in E. inversion H; subst. auto.
  - auto.
Qed.

Lemma In_bdel : forall A k (m : list (bytes * A)) e, In e (bdel k m) -> In e m /\ fst e <> k.
Proof.
  induction m as [|[k' v'] m IH]; simpl; intros e H; [contradiction|].
  destruct (bytes_eqb k k') eqn:E.
  - apply IH in H. tauto.
  - destruct H as [H|H].
    + subst. split; auto. simpl. apply bytes_eqb_neq in E. congruence.
    + apply IH in H. tauto.
Qed.

Lemma In_bupd : forall A k v (m : list (bytes * A)) e, In e (bupd k v m) -> e = (k, v) \/ (In e m /\ fst e <> k).
Proof. unfold bupd. simpl. intros A k v m e [H|H]; auto. right. apply In_bdel. auto. Qed.

Lemma blookup_bdel : forall A k k' (m : list (bytes * A)),
  blookup k' (bdel k m) = if bytes_eqb k' k then None else blookup k' m.
Proof.
  induction m as [|[k2 v2] m IH]; simpl.
  - destruct (bytes_eqb k' k); auto.
  - destruct (bytes_eqb k k2) eqn:E.
    + rewrite IH. destruct (bytes_eqb k' k) eqn:E2; auto.
      apply bytes_eqb_eq in E. subst. rewrite E2. auto.
    + simpl. rewrite IH. destruct (bytes_eqb k' k2) eqn:E3; auto.
      apply bytes_eqb_eq in E3. subst. rewrite bytes_eqb_sym, E. auto.
Qed.

Lemma blookup_bupd : forall A k v k' (m : list (bytes * A)),
  blookup k' (bupd k v m) = if bytes_eqb k' k then Some v else blookup k' m.
Proof. intros. unfold bupd. simpl. rewrite blookup_bdel. destruct (bytes_eqb k' k); auto. Qed.

(* ---- single restrictions *)
Lemma sat1_zero : forall ov, sat1 r_zero ov.
Proof. intros. repeat split; simpl; intros; discriminate. Qed.

Lemma sat1_b_iff : forall r ov, sat1_b r ov = true <-> sat1 r ov.
Proof.
  intros [mp ma vs] ov. unfold sat1_b, sat1. simpl. split.
  - intros H. apply andb_true_iff in H. destruct H as [H H3]. apply andb_true_iff in H. destruct H as [H1 H2].
    repeat split.
    + intros ->. destruct ov; simpl in *; congruence.
    + intros ->. destruct ov; simpl in *; congruence.
    + intros vs' ->. destruct ov; try discriminate. exists b. split; auto. apply mem_bytes_In. auto.
  - intros [H1 [H2 H3]]. apply andb_true_iff. split; [apply andb_true_iff; split|].
    + destruct mp; auto. destruct ov; auto. exfalso. apply H1; auto.
    + destruct ma; auto. rewrite H2; auto.
    + destruct vs; auto. destruct (H3 l eq_refl) as [v [-> Hin]]. apply mem_bytes_In. auto.
Qed.

Lemma satisfies_b_iff : forall R L, satisfies_b R L = true <-> satisfies R L.
Proof.
  intros. unfold satisfies_b, satisfies. rewrite forallb_forall. split.
  - intros H ln r Hin. apply sat1_b_iff. apply (H (ln, r)). auto.
  - intros H [ln r] Hin. apply sat1_b_iff. simpl. auto.
Qed.

Lemma In_inter_vals : forall v a b, In v a -> In v b -> In v (inter_vals a b).
Proof. intros. unfold inter_vals. apply filter_In. split; auto. apply mem_bytes_In. auto. Qed.

Lemma In_union_vals_l : forall v a b, In v a -> In v (union_vals a b).
Proof. intros. unfold union_vals. apply in_or_app. auto. Qed.

Lemma In_union_vals_r : forall v a b, In v b -> In v (union_vals a b).
Proof.
  intros. unfold union_vals. apply in_or_app. destruct (mem_bytes v a) eqn:E.
  - left. apply mem_bytes_In. auto.
  - right. apply filter_In. split; auto. rewrite E. auto.
Qed.

(* ---- And *)
Lemma and_entry_sound : forall L lr ln r,
  satisfies lr L -> sat1 r (lookup ln L) -> satisfies (and_entry lr (ln, r)) L.
Proof.
  intros L lr ln r Hlr Hr. unfold and_entry.
  assert (Hb : sat1 (odflt r_zero (blookup ln lr)) (lookup ln L)).
  { destruct (blookup ln lr) eqn:E; simpl; [|apply sat1_zero]. apply Hlr. apply blookup_In. auto. }
  set (base := odflt r_zero (blookup ln lr)) in *.
  intros k r' Hin. apply In_bupd in Hin. destruct Hin as [Hin|[Hin _]]; [|apply Hlr; auto].
  inversion Hin; subst k r'. clear Hin.
  destruct Hb as [B1 [B2 B3]]. destruct Hr as [R1 [R2 R3]].
  repeat split; simpl.
  - intros H. apply orb_true_iff in H. destruct H; auto.
  - intros H. apply orb_true_iff in H. destruct H; auto.
  - intros vs H. destruct (r_vals base) as [a|] eqn:Ea.
    + destruct (B3 a eq_refl) as [v [Hv Hina]].
      destruct (r_vals r) as [b|] eqn:Eb.
      * destruct (R3 b eq_refl) as [v' [Hv' Hinb]]. inversion H; subst vs.
        exists v. split; auto. rewrite Hv in Hv'. inversion Hv'; subst v'. apply In_inter_vals; auto.
      * inversion H; subst vs. eauto.
    + apply R3. auto.
Qed.

Lemma and_merge_sound : forall L opLR lr,
  satisfies lr L -> satisfies opLR L -> satisfies (and_merge lr opLR) L.
Proof.
  unfold and_merge. induction opLR as [|[ln r] op IH]; simpl; intros lr Hlr Hop; auto.
  apply IH.
  - apply and_entry_sound; auto. apply Hop. left. auto.
  - intros k r' Hin. apply Hop. right. auto.
Qed.

Lemma satisfies_nil : forall L, satisfies [] L.
Proof. intros L ln r []. Qed.

Lemma and_fold_sound : forall L xs acc,
  Forall (fun x => eval x L = true -> satisfies (restrictions x) L) xs ->
  forallb (fun x => eval x L) xs = true ->
  satisfies acc L ->
  satisfies (fold_left (fun lr x => and_merge lr (restrictions x)) xs acc) L.
Proof.
  induction xs as [|x xs IH]; simpl; intros acc HF Hev Hacc; auto.
  apply andb_true_iff in Hev. destruct Hev as [E1 E2]. inversion HF; subst.
  apply IH; auto. apply and_merge_sound; auto.
Qed.

(* ---- Or *)
Lemma or_merge_sound : forall L lr opLR,
  satisfies lr L \/ satisfies opLR L -> satisfies (or_merge lr opLR) L.
Proof.
  intros L lr opLR H k r' Hin. unfold or_merge in Hin. apply in_flat_map in Hin.
  destruct Hin as [[ln r] [Hin1 Hin2]]. unfold or_entry in Hin2.
  set (opr := odflt r_zero (blookup ln opLR)) in *.
  destruct (r_present r && r_present opr || r_absent r && r_absent opr) eqn:Ekeep; [|contradiction].
  destruct Hin2 as [Hin2|[]]. inversion Hin2; subst k r'. clear Hin2.
  assert (Hcase : sat1 r (lookup ln L) \/ sat1 opr (lookup ln L)).
  { destruct H as [H|H].
    - left. apply H. auto.
    - unfold opr. destruct (blookup ln opLR) eqn:E; simpl.
      + right. apply H. apply blookup_In. auto.
      + (* no restriction on the other side: the merged entry is dropped *)
        exfalso. clear -Ekeep E. subst opr. try rewrite E in Ekeep. simpl in Ekeep.
        rewrite !andb_false_r in Ekeep. discriminate. }
  repeat split; simpl.
  - intros Hp. apply andb_true_iff in Hp. destruct Hp as [P1 P2].
    destruct Hcase as [[S1 _]|[S1 _]]; auto.
  - intros Ha. apply andb_true_iff in Ha. destruct Ha as [A1 A2].
    destruct Hcase as [[_ [S2 _]]|[_ [S2 _]]]; auto.
  - intros vs Hv. destruct (r_present r && r_present opr) eqn:Ep; [|discriminate].
    destruct (r_vals r) as [a|] eqn:Ea; [|discriminate].
    destruct (r_vals opr) as [b|] eqn:Eb; [|discriminate].
    inversion Hv; subst vs.
    destruct Hcase as [[_ [_ S3]]|[_ [_ S3]]].
    + destruct (S3 a Ea) as [v [Hv1 Hv2]]. exists v. split; auto. apply In_union_vals_l. auto.
    + destruct (S3 b Eb) as [v [Hv1 Hv2]]. exists v. split; auto. apply In_union_vals_r. auto.
Qed.

Lemma or_fold_sound : forall L ys acc,
  Forall (fun x => eval x L = true -> satisfies (restrictions x) L) ys ->
  (satisfies acc L \/ existsb (fun x => eval x L) ys = true) ->
  satisfies (fold_left (fun lr y => or_merge lr (restrictions y)) ys acc) L.
Proof.
  induction ys as [|y ys IH]; simpl; intros acc HF H.
  - destruct H; auto. discriminate.
  - inversion HF; subst. apply IH; auto.
    destruct H as [H|H].
    + left. apply or_merge_sound. auto.
    + apply orb_true_iff in H. destruct H as [H|H]; auto.
      left. apply or_merge_sound. right. auto.
Qed.

(* ---- the theorem *)
Theorem restrictions_sound : forall a L, eval a L = true -> satisfies (restrictions a) L.
Proof.
  induction a using ast_ind_nested; intros L Hev; simpl in *;
    try (apply satisfies_nil).
  - (* == *) intros k r [Hin|[]]. inversion Hin; subst k r; clear Hin. destruct (lookup l L) eqn:E; try discriminate.
    apply bytes_eqb_eq in Hev. subst b. repeat split; simpl; try congruence.
    intros vs Hvs. inversion Hvs; subst vs. exists v. simpl. auto.
  - (* contains *) intros k r [Hin|[]]. inversion Hin; subst k r; clear Hin. destruct (lookup l L) eqn:E; try discriminate.
    repeat split; simpl; congruence.
  - (* starts with *) intros k r [Hin|[]]. inversion Hin; subst k r; clear Hin. destruct (lookup l L) eqn:E; try discriminate.
    repeat split; simpl; congruence.
  - (* ends with *) intros k r [Hin|[]]. inversion Hin; subst k r; clear Hin. destruct (lookup l L) eqn:E; try discriminate.
    repeat split; simpl; congruence.
  - (* in *) intros k r [Hin|[]]. inversion Hin; subst k r; clear Hin. destruct (lookup l L) eqn:E; try discriminate.
    repeat split; simpl; try congruence.
    intros vs' Hvs. destruct vs as [|v0 vs0]; simpl in Hvs; try discriminate. inversion Hvs; subst vs'.
    exists b. split; auto. apply mem_bytes_In. auto.
  - (* has *) intros k r [Hin|[]]. inversion Hin; subst k r; clear Hin. destruct (lookup l L) eqn:E; try discriminate.
    repeat split; simpl; congruence.
  - (* not *) destruct a; try (apply satisfies_nil).
    intros k r [Hin|[]]. inversion Hin; subst k r; clear Hin. simpl in Hev. destruct (lookup l L) eqn:E; try discriminate.
    repeat split; simpl; congruence.
  - (* and *) apply and_fold_sound; auto.
    + eapply Forall_impl; [|exact H]. simpl. auto.
    + apply satisfies_nil.
  - (* or *) destruct xs as [|x xs]; [apply satisfies_nil|]. inversion H; subst.
    apply or_fold_sound.
    + eapply Forall_impl; [|eassumption]. simpl. auto.
    + simpl in Hev. apply orb_true_iff in Hev. destruct Hev; auto.
Qed.

(* boolean corollary: the oracle of Spec.v accepts the model's restrictions on every map the selector matches *)
Corollary restrictions_sound_b : forall a L, eval a L = true -> satisfies_b (restrictions a) L = true.
Proof. intros. apply satisfies_b_iff. apply restrictions_sound. auto. Qed.
