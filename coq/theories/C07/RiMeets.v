(* C07 — the restriction-index oracle of Spec.v (ok_ri) accepts every run of the LabelRestrictionIndex model. *)
From Coq Require Import List NArith Bool Arith Lia.
From Verif.Common Require Import Labels.
From Verif.C07 Require Import Model Spec MapLemmas RestrProofs SliceProofs CandProofs CandExact MeetsProofs.
Import ListNotations.
Open Scope N_scope.

Local Arguments nupd : simpl never.
Local Arguments ndel : simpl never.
Local Arguments nlookup : simpl never.

Lemma ri_meets_from : forall ops x,
  ri_inv x -> filed_exact x -> NoDup (map fst (ri_sels x)) ->
  ok_ri (ri_sels x) ops (ri_run x ops) = true.
Proof.
  induction ops as [|o ops IH]; intros x HI HF HN; simpl; auto.
  destruct o as [id a|id|L]; simpl.
  - destruct (ri_add_spec id a x HI) as [HI' Hs]. rewrite <- Hs. apply IH; auto.
    + apply ri_add_exact. auto.
    + rewrite Hs. apply nodup_nupd. auto.
  - destruct (ri_delete_spec id x HI) as [HI' Hs]. rewrite <- Hs. apply IH; auto.
    + apply ri_delete_exact. auto.
    + rewrite Hs. apply nodup_ndel. auto.
  - rewrite IH; auto. rewrite andb_true_r. apply andb_true_iff. split.
    + (* never omits a selector that evaluates to true *)
      apply forallb_forall. intros [s a] Hin. simpl. destruct (eval a L) eqn:Ev; simpl; auto.
      apply memN_In. rewrite In_nsort. eapply ri_candidates_superset_inv; eauto.
      apply nlookup_In_iff; auto.
    + (* yields only selectors that are in the index *)
      apply forallb_forall. intros s Hin. rewrite In_nsort in Hin.
      destruct HF as [F1 [F2 F3]].
      destruct (nlookup s (ri_sels x)) eqn:El; auto. exfalso.
      unfold ri_candidates in Hin. apply in_app_or in Hin. destruct Hin as [Hin|Hin].
      * apply in_flat_map in Hin. destruct Hin as [[k v] [_ Hin]].
        destruct (blookup k (ri_idx x)) as [sb|] eqn:E; [|destruct Hin].
        apply in_app_or in Hin. destruct Hin as [Hin|Hin].
        -- destruct (F2 k s) as [a [Ha _]]; [unfold iw; rewrite E; apply memN_In; auto|]. congruence.
        -- destruct (F1 k v s) as [a [vs [Ha _]]]; [unfold iv; rewrite E; apply memN_In; auto|]. congruence.
      * destruct (F3 s) as [a [Ha _]]; [apply memN_In; auto|]. congruence.
Qed.

Theorem ri_model_meets_spec : forall ops, ok_ri [] ops (ri_run ri_empty ops) = true.
Proof.
  intros. apply (ri_meets_from ops ri_empty).
  - apply ri_inv_empty.
  - split; [|split]; intros; discriminate.
  - constructor.
Qed.
