(* C07 — the canonical (sorted) form of a set of pairs depends only on the set. *)
From Coq Require Import List NArith Bool Arith Lia Permutation Sorted.
From Verif.Common Require Import Labels.
From Verif.C07 Require Import Model Spec.
Import ListNotations.
Open Scope N_scope.

Definition ple (a b : N * N) : Prop := pair_leb a b = true.

Lemma pair_leb_total : forall a b, pair_leb a b = true \/ pair_leb b a = true.
Proof.
  intros [a1 a2] [b1 b2]. unfold pair_leb. simpl.
  destruct (N.ltb_spec a1 b1); simpl; auto. destruct (N.ltb_spec b1 a1); simpl; auto.
  assert (a1 = b1) by lia. subst. rewrite N.eqb_refl. simpl.
  destruct (N.leb_spec a2 b2); auto. right. apply N.leb_le. lia.
Qed.

Lemma pair_leb_trans : forall a b c, ple a b -> ple b c -> ple a c.
Proof.
  intros [a1 a2] [b1 b2] [c1 c2]. unfold ple, pair_leb. simpl. intros H1 H2.
  apply orb_true_iff in H1. apply orb_true_iff in H2. apply orb_true_iff.
  destruct H1 as [H1|H1], H2 as [H2|H2].
  - left. apply N.ltb_lt in H1, H2. apply N.ltb_lt. lia.
  - apply andb_true_iff in H2. destruct H2 as [E _]. apply N.eqb_eq in E. subst. auto.
  - apply andb_true_iff in H1. destruct H1 as [E _]. apply N.eqb_eq in E. subst. auto.
  - apply andb_true_iff in H1. apply andb_true_iff in H2. destruct H1 as [E1 L1], H2 as [E2 L2].
    apply N.eqb_eq in E1, E2. subst. right. rewrite N.eqb_refl. simpl.
    apply N.leb_le in L1, L2. apply N.leb_le. lia.
Qed.

Lemma pair_leb_antisym : forall a b, ple a b -> ple b a -> a = b.
Proof.
  intros [a1 a2] [b1 b2]. unfold ple, pair_leb. simpl. intros H1 H2.
  apply orb_true_iff in H1. apply orb_true_iff in H2.
  destruct H1 as [H1|H1], H2 as [H2|H2];
    repeat match goal with
    | H : N.ltb _ _ = true |- _ => apply N.ltb_lt in H
    | H : _ && _ = true |- _ => apply andb_true_iff in H; destruct H
    | H : N.eqb _ _ = true |- _ => apply N.eqb_eq in H
    | H : N.leb _ _ = true |- _ => apply N.leb_le in H
    end; try lia.
  subst. f_equal. lia.
Qed.

Lemma pinsert_perm : forall a l, Permutation (pinsert a l) (a :: l).
Proof.
  induction l as [|b l IH]; simpl; auto. destruct (pair_leb a b); auto.
  eapply perm_trans; [apply perm_skip; apply IH|apply perm_swap].
Qed.

Lemma psort_perm : forall l, Permutation (psort l) l.
Proof.
  induction l as [|a l IH]; simpl; auto. eapply perm_trans; [apply pinsert_perm|]. auto.
Qed.

Lemma pinsert_sorted : forall a l, StronglySorted ple l -> StronglySorted ple (pinsert a l).
Proof.
  induction l as [|b l IH]; simpl; intros H.
  - constructor; constructor.
  - inversion H; subst. destruct (pair_leb a b) eqn:E.
    + constructor; auto. constructor; auto.
      eapply Forall_impl; [|exact H3]. intros c Hc. eapply pair_leb_trans; eauto.
    + constructor; auto.
      assert (Hba : ple b a) by (destruct (pair_leb_total a b); [congruence|auto]).
      eapply Permutation_Forall; [apply Permutation_sym; apply pinsert_perm|]. constructor; auto.
Qed.

Lemma psort_sorted : forall l, StronglySorted ple (psort l).
Proof. induction l; simpl; [constructor|apply pinsert_sorted; auto]. Qed.

Lemma sorted_perm_eq : forall l1 l2,
  StronglySorted ple l1 -> StronglySorted ple l2 -> Permutation l1 l2 -> l1 = l2.
Proof.
  induction l1 as [|a l1 IH]; intros l2 S1 S2 HP.
  - apply Permutation_nil in HP. auto.
  - destruct l2 as [|b l2]; [apply Permutation_sym, Permutation_nil in HP; discriminate|].
    inversion S1; subst. inversion S2; subst.
    assert (a = b).
    { assert (Hb : In b (a :: l1)) by (eapply Permutation_in; [apply Permutation_sym; eauto|left; auto]).
      assert (Ha : In a (b :: l2)) by (eapply Permutation_in; [eauto|left; auto]).
      destruct Hb as [Hb|Hb]; auto. destruct Ha as [Ha|Ha]; auto.
      apply pair_leb_antisym.
      - rewrite Forall_forall in H2. auto.
      - rewrite Forall_forall in H4. auto. }
    subst. f_equal. apply IH; auto. eapply Permutation_cons_inv; eauto.
Qed.

Theorem psort_perm_eq : forall l1 l2, Permutation l1 l2 -> psort l1 = psort l2.
Proof.
  intros. apply sorted_perm_eq; try apply psort_sorted.
  eapply perm_trans; [apply psort_perm|]. eapply perm_trans; [eauto|]. apply Permutation_sym, psort_perm.
Qed.

Lemma psort_set_eq : forall l1 l2, NoDup l1 -> NoDup l2 -> (forall p, In p l1 <-> In p l2) -> psort l1 = psort l2.
Proof. intros. apply psort_perm_eq. apply NoDup_Permutation; auto. Qed.

Lemma In_psort : forall p l, In p (psort l) <-> In p l.
Proof.
  intros. split; intros H.
  - eapply Permutation_in; [apply psort_perm|auto].
  - eapply Permutation_in; [apply Permutation_sym, psort_perm|auto].
Qed.

Lemma NoDup_psort : forall l, NoDup l -> NoDup (psort l).
Proof. intros. eapply Permutation_NoDup; [apply Permutation_sym, psort_perm|auto]. Qed.

Lemma pair_eqb_refl : forall p, pair_eqb p p = true.
Proof. intros [a b]. unfold pair_eqb. simpl. rewrite !N.eqb_refl. auto. Qed.

Lemma pair_eqb_eq : forall p q, pair_eqb p q = true <-> p = q.
Proof.
  intros [a b] [c d]. unfold pair_eqb. simpl. rewrite andb_true_iff, !N.eqb_eq. split.
  - intros [-> ->]. auto.
  - intros H. inversion H. auto.
Qed.

Lemma pairs_eqb_refl : forall l, pairs_eqb l l = true.
Proof. induction l; simpl; auto. unfold pairs_eqb in *. simpl. rewrite pair_eqb_refl, IHl. auto. Qed.
