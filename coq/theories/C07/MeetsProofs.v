(* C07 — the specification oracle of Spec.v (ok_trace) accepts every run of the InheritIndex model, for every
   history and every permutation-valued iteration order. *)
From Coq Require Import List NArith Bool Arith Lia Permutation.
From Verif.Common Require Import Labels.
From Verif.C07 Require Import Model Spec MapLemmas AltProofs IdxProofs LiveProofs StepProofs SortLemmas.
Import ListNotations.
Open Scope N_scope.

Local Arguments nupd : simpl never.
Local Arguments ndel : simpl never.
Local Arguments nlookup : simpl never.

(* ------------------------------------------------------------------ keys of the association lists stay unique *)
Lemma In_ndel : forall A k (m : list (N * A)) e, In e (ndel k m) -> In e m /\ fst e <> k.
Proof.
  induction m as [|[k' v'] m IH]; intros e H; [destruct H|].
  unfold ndel in H. fold (@ndel A) in H. destruct (N.eqb k k') eqn:E.
  - apply IH in H. destruct H. split; auto. right. auto.
  - destruct H as [H|H].
    + subst. split; [left; auto|]. simpl. intros ->. rewrite N.eqb_refl in E. discriminate.
    + apply IH in H. destruct H. split; auto. right. auto.
Qed.

Lemma keys_ndel : forall A k (m : list (N * A)) x, In x (map fst (ndel k m)) -> In x (map fst m) /\ x <> k.
Proof.
  intros A k m x H. apply in_map_iff in H. destruct H as [[k' v'] [E H]]. simpl in E. subst.
  apply In_ndel in H. destruct H as [H1 H2]. split; auto. apply (in_map fst) in H1. auto.
Qed.

Lemma nodup_ndel : forall A k (m : list (N * A)), NoDup (map fst m) -> NoDup (map fst (ndel k m)).
Proof.
  induction m as [|[k' v'] m IH]; intros HN; [constructor|]. simpl in HN. inversion HN; subst.
  unfold ndel. fold (@ndel A). destruct (N.eqb k k'); auto. simpl. constructor; auto.
  intros H. apply keys_ndel in H. tauto.
Qed.

Lemma nodup_nupd : forall A k v (m : list (N * A)), NoDup (map fst m) -> NoDup (map fst (nupd k v m)).
Proof.
  intros. unfold nupd. simpl. constructor; [|apply nodup_ndel; auto].
  intros Hin. apply keys_ndel in Hin. tauto.
Qed.

Lemma In_nupd : forall A k v (m : list (N * A)) e, In e (nupd k v m) -> e = (k, v) \/ In e m.
Proof. unfold nupd. intros A k v m e [H|H]; auto. apply In_ndel in H. tauto. Qed.

Lemma nlookup_In_iff : forall A (m : list (N * A)) k v, NoDup (map fst m) -> (nlookup k m = Some v <-> In (k, v) m).
Proof.
  induction m as [|[k' v'] m IH]; intros k v HN.
  - split; [discriminate|intros []].
  - simpl in HN. inversion HN; subst. unfold nlookup. fold (@nlookup A). destruct (N.eqb k k') eqn:E.
    + apply N.eqb_eq in E. subst k'. split.
      * intros H. inversion H. left. auto.
      * intros [H|H]; [inversion H; auto|]. exfalso. apply H1. apply (in_map fst) in H. auto.
    + rewrite IH; auto. split; [right; auto|]. intros [H|H]; auto. inversion H; subst. rewrite N.eqb_refl in E. discriminate.
Qed.

Lemma NoDup_app_intro : forall A (l1 l2 : list A),
  NoDup l1 -> NoDup l2 -> (forall x, In x l1 -> ~ In x l2) -> NoDup (l1 ++ l2).
Proof.
  induction l1 as [|a l1 IH]; simpl; intros l2 H1 H2 H; auto. inversion H1; subst. constructor.
  - intros Hin. apply in_app_or in Hin. destruct Hin; auto. apply (H a); auto.
  - apply IH; auto.
Qed.

Lemma NoDup_flat_map : forall A B (f : A -> list B) (ks : list A),
  NoDup ks -> (forall k, NoDup (f k)) -> (forall k1 k2 x, In x (f k1) -> In x (f k2) -> k1 = k2) ->
  NoDup (flat_map f ks).
Proof.
  induction ks as [|k ks IH]; simpl; intros HN Hf Hinj; [constructor|]. inversion HN; subst.
  apply NoDup_app_intro; auto.
  intros x Hx Hin. apply in_flat_map in Hin. destruct Hin as [k' [Hk' Hx']].
  assert (k = k') by (eapply Hinj; eauto). subst. contradiction.
Qed.

(* ------------------------------------------------------------------ the match maps are well formed *)
Definition rel_wf (r : rel) : Prop := NoDup (map fst r) /\ (forall a l, In (a, l) r -> NoDup l).

Lemma memN_false_notin : forall x l, memN x l = false -> ~ In x l.
Proof. intros x l H Hin. apply memN_In in Hin. congruence. Qed.

Lemma NoDup_sadd : forall x l, NoDup l -> NoDup (sadd x l).
Proof. intros. unfold sadd. destruct (memN x l) eqn:E; auto. constructor; auto. apply memN_false_notin. auto. Qed.

Lemma NoDup_sdel : forall x l, NoDup l -> NoDup (sdel x l).
Proof. intros. unfold sdel. apply NoDup_filter. auto. Qed.

Lemma rel_wf_entry : forall r a, rel_wf r -> NoDup (odflt [] (nlookup a r)).
Proof.
  intros r a [H1 H2]. destruct (nlookup a r) as [l|] eqn:E; simpl; [|constructor].
  apply (H2 a l). apply nlookup_In_iff; auto.
Qed.

Lemma rel_wf_add : forall a b r, rel_wf r -> rel_wf (rel_add a b r).
Proof.
  intros a b r H. pose proof (rel_wf_entry r a H) as He. destruct H as [H1 H2]. unfold rel_add. split.
  - apply nodup_nupd. auto.
  - intros a' l' Hin. apply In_nupd in Hin. destruct Hin as [Hin|Hin]; [|eauto].
    inversion Hin; subst. apply NoDup_sadd. auto.
Qed.

Lemma rel_wf_del : forall a b r, rel_wf r -> rel_wf (rel_del a b r).
Proof.
  intros a b r H. pose proof (rel_wf_entry r a H) as He. destruct H as [H1 H2]. unfold rel_del.
  destruct (nlookup a r) as [l|] eqn:E; [|split; auto]. simpl in He.
  destruct (is_nil (sdel b l)).
  - split; [apply nodup_ndel; auto|]. intros a' l' Hin. apply In_ndel in Hin. destruct Hin. eauto.
  - split; [apply nodup_nupd; auto|]. intros a' l' Hin. apply In_nupd in Hin. destruct Hin as [Hin|Hin]; [|eauto].
    inversion Hin; subst. apply NoDup_sdel. auto.
Qed.

Lemma In_rel_pairs : forall r a b, rel_wf r -> (In (a, b) (rel_pairs r) <-> rel_mem a b r = true).
Proof.
  intros r a b [H1 H2]. unfold rel_pairs, rel_mem. rewrite in_flat_map. split.
  - intros [[a' l] [Hin Hp]]. apply in_map_iff in Hp. destruct Hp as [b' [E Hb]]. inversion E; subst.
    apply nlookup_In_iff in Hin; auto. rewrite Hin. apply memN_In. auto.
  - destruct (nlookup a r) as [l|] eqn:E; [|discriminate]. intros Hm.
    exists (a, l). split; [apply nlookup_In_iff; auto|]. apply in_map_iff. exists b. split; auto. apply memN_In. auto.
Qed.

Lemma NoDup_rel_pairs : forall r, rel_wf r -> NoDup (rel_pairs r).
Proof.
  induction r as [|[a l] r IH]; intros [H1 H2]; [constructor|]. simpl in H1. inversion H1; subst.
  unfold rel_pairs. simpl. apply NoDup_app_intro.
  - apply FinFun.Injective_map_NoDup; [intros x y E; inversion E; auto|]. apply (H2 a l). left. auto.
  - apply IH. split; auto. intros a' l' Hin. apply (H2 a' l'). right. auto.
  - intros [a' b'] Hx Hin. apply in_map_iff in Hx. destruct Hx as [b0 [E _]]. inversion E; subst.
    apply in_flat_map in Hin. destruct Hin as [[a2 l2] [Hin2 Hp]]. apply in_map_iff in Hp.
    destruct Hp as [b2 [E2 _]]. inversion E2; subst. apply H3. apply (in_map fst) in Hin2. auto.
Qed.

Definition wf_inv (x : st) : Prop := rel_wf (by_sel x) /\ rel_wf (by_item x).

Lemma wf_inv_run_from : forall ord sel_eqb ops x, wf_inv x -> wf_inv (run_from ord sel_eqb x ops).
Proof.
  intros. apply P_run_from; auto.
  - intros y z E1 E2 _ [A B]. split; [rewrite <- E1|rewrite <- E2]; auto.
  - intros s i y [A B]. unfold store_match. destruct (rel_mem s i (by_sel y)); [split; auto|].
    split; simpl; apply rel_wf_add; auto.
  - intros s i y [A B]. unfold delete_match. destruct (rel_mem s i (by_sel y)); [|split; auto].
    split; simpl; apply rel_wf_del; auto.
Qed.

Lemma wf_inv_step : forall ord sel_eqb x o, wf_inv x -> wf_inv (step ord sel_eqb x o).
Proof. intros. apply (wf_inv_run_from ord sel_eqb [o] x). auto. Qed.

(* ------------------------------------------------------------------ the specification side *)
Definition sp_wf (y : sp) : Prop := NoDup (map fst (sp_items y)) /\ NoDup (map fst (sp_sels y)).

Lemma sp_wf_step : forall y o, sp_wf y -> sp_wf (sp_step y o).
Proof.
  intros y o [A B]. destruct o; split; cbn [sp_step sp_items sp_sels]; auto;
    first [apply nodup_nupd | apply nodup_ndel]; auto.
Qed.

Definition exp_list (y : sp) : list (N * N) :=
  flat_map (fun s => flat_map (fun i => if want y s i then [(s, i)] else []) (map fst (sp_items y)))
           (map fst (sp_sels y)).

Lemma In_exp_list : forall y s i, In (s, i) (exp_list y) <-> want y s i = true.
Proof.
  intros y s i. unfold exp_list. rewrite in_flat_map. split.
  - intros [s' [_ H]]. apply in_flat_map in H. destruct H as [i' [_ H]].
    destruct (want y s' i') eqn:E; [|destruct H]. destruct H as [H|[]]. inversion H; subst. auto.
  - intros H. exists s. split.
    + unfold want in H. destruct (nlookup s (sp_sels y)) eqn:E; [|discriminate]. eapply nlookup_In_fst; eauto.
    + apply in_flat_map. exists i. split.
      * unfold want in H. destruct (nlookup s (sp_sels y)); [|discriminate].
        destruct (nlookup i (sp_items y)) eqn:E; [|discriminate]. eapply nlookup_In_fst; eauto.
      * rewrite H. left. auto.
Qed.

Lemma NoDup_exp_list : forall y, sp_wf y -> NoDup (exp_list y).
Proof.
  intros y [A B]. unfold exp_list. apply NoDup_flat_map; auto.
  - intros s. apply NoDup_flat_map; auto.
    + intros i. destruct (want y s i); repeat constructor. intros [].
    + intros i1 i2 x H1 H2. destruct (want y s i1); [|destruct H1]. destruct (want y s i2); [|destruct H2].
      destruct H1 as [H1|[]], H2 as [H2|[]]. subst. inversion H2. auto.
  - intros s1 s2 x H1 H2. apply in_flat_map in H1. apply in_flat_map in H2.
    destruct H1 as [i1 [_ H1]], H2 as [i2 [_ H2]].
    destruct (want y s1 i1); [|destruct H1]. destruct (want y s2 i2); [|destruct H2].
    destruct H1 as [H1|[]], H2 as [H2|[]]. subst. inversion H2. auto.
Qed.

(* ------------------------------------------------------------------ the callbacks of one operation *)
Lemma alt_run_app : forall e1 e2 A,
  alt_run A (e1 ++ e2) = match alt_run A e1 with Some A' => alt_run A' e2 | None => None end.
Proof.
  induction e1 as [|[s i|s i] e1 IH]; intros e2 A; simpl; auto.
  - destruct (memP (s, i) A); auto.
  - destruct (memP (s, i) A); auto.
Qed.

Lemma memP_In : forall p l, memP p l = true <-> In p l.
Proof.
  intros. unfold memP. rewrite existsb_exists. split.
  - intros [q [Hq E]]. apply pair_eqb_eq in E. subst. auto.
  - intros H. exists p. split; auto. apply pair_eqb_refl.
Qed.

Definition act_ok (A : list (N * N)) (bs : rel) : Prop :=
  NoDup A /\ forall s i, In (s, i) A <-> rel_mem s i bs = true.

(* the oracle's automaton, fed the callbacks fired since state x, ends in the match map of the current state *)
Definition tracks (x : st) (A0 : list (N * N)) (y : st) : Prop :=
  exists evs A, log y = log x ++ evs /\ alt_run A0 evs = Some A /\ act_ok A (by_sel y).

Lemma tracks_store : forall x A0 s i y, tracks x A0 y -> tracks x A0 (store_match s i y).
Proof.
  intros x A0 s i y [evs [A [Hl [Hr [HN HA]]]]]. unfold store_match.
  destruct (rel_mem s i (by_sel y)) eqn:E; [exists evs, A; repeat split; auto; apply HA|].
  exists (evs ++ [Start s i]), ((s, i) :: A). simpl. split; [rewrite Hl, app_assoc; auto|]. split.
  - rewrite alt_run_app, Hr. simpl.
    destruct (memP (s, i) A) eqn:Em; auto. apply memP_In in Em. apply HA in Em. congruence.
  - split.
    + constructor; auto. intros Hin. apply HA in Hin. congruence.
    + intros s' i'. rewrite rel_mem_add. simpl. rewrite HA. split.
      * intros [H|H]; [inversion H; subst; rewrite !N.eqb_refl; auto|rewrite H; apply orb_true_r].
      * intros H. apply orb_true_iff in H. destruct H as [H|H]; auto.
        apply andb_true_iff in H. destruct H as [H1 H2]. apply N.eqb_eq in H1, H2. subst. auto.
Qed.

Lemma tracks_delete : forall x A0 s i y, tracks x A0 y -> tracks x A0 (delete_match s i y).
Proof.
  intros x A0 s i y [evs [A [Hl [Hr [HN HA]]]]]. unfold delete_match.
  destruct (rel_mem s i (by_sel y)) eqn:E; [|exists evs, A; repeat split; auto; apply HA].
  exists (evs ++ [Stop s i]), (filter (fun p => negb (pair_eqb (s, i) p)) A). simpl.
  split; [rewrite Hl, app_assoc; auto|]. split.
  - rewrite alt_run_app, Hr. simpl.
    destruct (memP (s, i) A) eqn:Em; auto. exfalso.
    assert (In (s, i) A) by (apply HA; auto). apply memP_In in H. congruence.
  - split; [apply NoDup_filter; auto|].
    intros s' i'. rewrite rel_mem_del, filter_In, HA. unfold pair_eqb. simpl.
    rewrite (N.eqb_sym s s'), (N.eqb_sym i i'). split.
    + intros [H1 H2]. rewrite H1, H2. auto.
    + intros H. apply andb_true_iff in H. tauto.
Qed.

Lemma tracks_ext : forall x A0 y z, by_sel y = by_sel z -> by_item y = by_item z -> log y = log z ->
  tracks x A0 y -> tracks x A0 z.
Proof. intros x A0 y z E1 _ E3 [evs [A H]]. exists evs, A. rewrite <- E1, <- E3. auto. Qed.

Lemma skipn_app_exact : forall A (l1 l2 : list A), skipn (length l1) (l1 ++ l2) = l2.
Proof. induction l1; simpl; auto. Qed.

Lemma step_events : forall ord sel_eqb x o A0,
  act_ok A0 (by_sel x) ->
  exists A, alt_run A0 (new_events x (step ord sel_eqb x o)) = Some A /\ act_ok A (by_sel (step ord sel_eqb x o)).
Proof.
  intros ord sel_eqb x o A0 H0.
  assert (HT : tracks x A0 (step ord sel_eqb x o)).
  { apply P_step.
    - apply tracks_ext.
    - intros. apply tracks_store. auto.
    - intros. apply tracks_delete. auto.
    - exists [], A0. rewrite app_nil_r. repeat split; auto; apply H0. }
  destruct HT as [evs [A [Hl [Hr HA]]]]. exists A. split; auto.
  unfold new_events. rewrite Hl, skipn_app_exact. auto.
Qed.

(* ------------------------------------------------------------------ the oracle accepts the model *)
Section Meets.
  Variable ord : nat -> list N -> list N.
  Hypothesis ord_same : forall t l k, In k (ord t l) <-> In k l.

  Lemma ast_eqb_sound' : forall a b, ast_eqb a b = true -> forall L, eval a L = eval b L.
  Proof.
    assert (E : forall a b, ast_eqb a b = true -> a = b).
    { induction a using ast_ind_nested; destruct b; simpl; intros E; try discriminate;
        try (apply andb_true_iff in E; destruct E as [E1 E2]; apply bytes_eqb_eq in E1; subst;
             first [ apply bytes_eqb_eq in E2
                   | (assert (forall x y, list_eqb bytes_eqb x y = true -> x = y) as HL
                        by (induction x; destruct y; simpl; intros HH; try discriminate; auto;
                            apply andb_true_iff in HH; destruct HH as [HH1 HH2]; apply bytes_eqb_eq in HH1; subst; f_equal; auto);
                      apply HL in E2) ]; subst; reflexivity);
        try reflexivity.
      - apply bytes_eqb_eq in E. subst. reflexivity.
      - f_equal. auto.
      - f_equal. revert xs0 E. induction H; destruct xs0; intros E; try discriminate; auto.
        apply andb_true_iff in E. destruct E as [E1 E2]. f_equal; auto.
      - f_equal. revert xs0 E. induction H; destruct xs0; intros E; try discriminate; auto.
        apply andb_true_iff in E. destruct E as [E1 E2]. f_equal; auto. }
    intros a b H L. apply E in H. subst. auto.
  Qed.

  Lemma meets_from : forall ops x y A,
    Inv x -> refines x y -> wf_inv x -> sp_wf y -> act_ok A (by_sel x) ->
    ok_trace_from y A ops (run_obs ord x ops) = true.
  Proof.
    induction ops as [|o ops IH]; intros x y A HI HR HW HS HA; simpl; auto.
    set (x' := step ord ast_eqb x o).
    destruct (step_events ord ast_eqb x o A HA) as [A' [Hrun HA']]. fold x' in Hrun, HA'.
    rewrite Hrun.
    assert (HI' : Inv x') by (apply Inv_step; auto).
    assert (HR' : refines x' (sp_step y o)) by (apply refines_step; auto; apply ast_eqb_sound').
    assert (HW' : wf_inv x') by (apply wf_inv_step; auto).
    assert (HS' : sp_wf (sp_step y o)) by (apply sp_wf_step; auto).
    destruct HI' as [HE' [HT' HL']]. destruct HW' as [W1 W2]. destruct HA' as [AN AM].
    rewrite (IH x' (sp_step y o) A'); auto; [|split; auto|split; auto|split; auto].
    rewrite andb_true_r.
    assert (C2 : psort (rel_pairs (by_sel x')) = expected (sp_step y o)).
    { change (expected (sp_step y o)) with (psort (exp_list (sp_step y o))).
      apply psort_set_eq; [apply NoDup_rel_pairs; auto|apply NoDup_exp_list; auto|].
      intros [s i]. rewrite In_rel_pairs, In_exp_list; auto. rewrite HE'.
      rewrite (refines_want x' (sp_step y o) s i HR'). tauto. }
    assert (C3 : psort A' = psort (rel_pairs (by_sel x'))).
    { apply psort_set_eq; auto; [apply NoDup_rel_pairs; auto|].
      intros [s i]. rewrite AM, In_rel_pairs; auto. tauto. }
    assert (C4 : psort (rel_pairs (by_item x')) = psort (map (fun p => (snd p, fst p)) (psort (rel_pairs (by_sel x'))))).
    { apply psort_set_eq; [apply NoDup_rel_pairs; auto| |].
      - apply FinFun.Injective_map_NoDup.
        + intros [a b] [c d] E. simpl in E. inversion E. auto.
        + apply NoDup_psort. apply NoDup_rel_pairs. auto.
      - intros [i s]. rewrite In_rel_pairs; auto. rewrite HT'. rewrite in_map_iff. split.
        + intros H. exists (s, i). split; auto. rewrite In_psort. apply In_rel_pairs; auto.
        + intros [[s' i'] [E H]]. simpl in E. inversion E; subst. rewrite In_psort in H. apply In_rel_pairs in H; auto. }
    unfold observe. simpl. rewrite C2, C3, C4, C2. rewrite !pairs_eqb_refl. reflexivity.
  Qed.

  Theorem model_meets_spec : forall ops, ok_trace ops (run_obs ord empty_st ops) = true.
  Proof.
    intros. unfold ok_trace. apply meets_from.
    - apply Inv_empty.
    - split; [|split]; intros; simpl; auto.
    - split; split; simpl; try constructor; intros a l [].
    - split; constructor.
    - split; [constructor|]. intros s i. simpl. split; [intros []|discriminate].
  Qed.
End Meets.
