(* C07 — LabelRestrictionIndex files nothing but live selectors: every candidate AllPotentialMatches yields is a
   selector currently in the index (no stale filing survives DeleteSelector / re-AddSelector).  A stale candidate
   would make SelectorAndNamedPortIndex.scanEndpointAgainstIPSets dereference a nil *ipSetData. *)
From Coq Require Import List NArith Bool Arith Lia.
From Verif.Common Require Import Labels.
From Verif.C07 Require Import Model Spec MapLemmas RestrProofs CandProofs.
Import ListNotations.
Open Scope N_scope.

Local Arguments bupd : simpl never.
Local Arguments bdel : simpl never.
Local Arguments blookup : simpl never.
Local Arguments nupd : simpl never.
Local Arguments ndel : simpl never.
Local Arguments nlookup : simpl never.

Definition filed_exact (x : ri) : Prop :=
  (forall l v s, iv (ri_idx x) l v s = true ->
     exists a vs, nlookup s (ri_sels x) = Some a /\ classify a = KValues l vs /\ In v vs)
  /\ (forall l s, iw (ri_idx x) l s = true -> exists a, nlookup s (ri_sels x) = Some a /\ classify a = KWild l)
  /\ (forall s, memN s (ri_unopt x) = true -> exists a, nlookup s (ri_sels x) = Some a /\ classify a = KUnopt).

(* ---- what unregistering does to the selector being removed *)
Lemma sub_remove_fold_id : forall id vs sb v',
  memN id (odflt [] (blookup v' (sb_vals (fold_left (fun s v => sub_remove v id s) vs sb))))
  = memN id (odflt [] (blookup v' (sb_vals sb))) && negb (mem_bytes v' vs).
Proof.
  induction vs as [|v vs IH]; intros sb v'; simpl; [rewrite andb_true_r; auto|].
  rewrite IH, sub_remove_vals, N.eqb_refl, andb_true_r.
  destruct (memN id (odflt [] (blookup v' (sb_vals sb)))); simpl; auto.
  rewrite bytes_eqb_sym. destruct (bytes_eqb v v'); simpl; auto.
Qed.

Lemma unregister_self : forall id k x,
  let x' := ri_unregister id k x in
  (forall l v, iv (ri_idx x') l v id = true ->
     iv (ri_idx x) l v id = true /\ (forall l0 vs0, k = KValues l0 vs0 -> ~ (l = l0 /\ In v vs0)))
  /\ (forall l, iw (ri_idx x') l id = true -> iw (ri_idx x) l id = true /\ k <> KWild l)
  /\ (memN id (ri_unopt x') = true -> memN id (ri_unopt x) = true /\ k <> KUnopt).
Proof.
  intros id k x. destruct k as [|l0 vs0|l0|]; simpl.
  - repeat split; auto; intros; discriminate.
  - destruct (blookup l0 (ri_idx x)) as [sb|] eqn:E; simpl.
    + destruct (sub_remove_fold id vs0 sb) as [Aw _]. split; [|split].
      * intros l v H. rewrite iv_ri_put in H. destruct (bytes_eqb l l0) eqn:El.
        -- apply bytes_eqb_eq in El. subst l. rewrite sub_remove_fold_id in H.
           apply andb_true_iff in H. destruct H as [H1 H2]. split; [unfold iv; rewrite E; auto|].
           intros l1 vs1 Ek [_ Hin]. inversion Ek; subst. apply mem_bytes_In in Hin. rewrite Hin in H2. discriminate.
        -- split; auto. intros l1 vs1 Ek [Hl _]. inversion Ek; subst. rewrite bytes_eqb_refl in El. discriminate.
      * intros l H. rewrite iw_ri_put in H. split; [|discriminate].
        destruct (bytes_eqb l l0) eqn:El; auto. apply bytes_eqb_eq in El. subst l. unfold iw. rewrite E, <- Aw. auto.
      * intros H. split; auto. discriminate.
    + split; [|split].
      * intros l v H. split; auto. intros l1 vs1 Ek [Hl _]. inversion Ek; subst.
        unfold iv in H. rewrite E in H. discriminate.
      * intros l H. split; auto. discriminate.
      * intros H. split; auto. discriminate.
  - destruct (blookup l0 (ri_idx x)) as [sb|] eqn:E; simpl.
    + split; [|split].
      * intros l v H. rewrite iv_ri_put in H. split; [|intros; discriminate].
        destruct (bytes_eqb l l0) eqn:El; auto. apply bytes_eqb_eq in El. subst l. unfold iv. rewrite E. auto.
      * intros l H. rewrite iw_ri_put in H. destruct (bytes_eqb l l0) eqn:El.
        -- simpl in H. rewrite memN_sdel, N.eqb_refl in H. discriminate.
        -- split; auto. intros Ek. inversion Ek; subst. rewrite bytes_eqb_refl in El. discriminate.
      * intros H. split; auto. discriminate.
    + split; [|split].
      * intros l v H. split; auto. intros; discriminate.
      * intros l H. split; auto. intros Ek. inversion Ek; subst. unfold iw in H. rewrite E in H. discriminate.
      * intros H. split; auto. discriminate.
  - split; [|split].
    + intros l v H. split; auto. intros; discriminate.
    + intros l H. split; auto. discriminate.
    + intros H. rewrite memN_sdel, N.eqb_refl in H. discriminate.
Qed.

Lemma ri_delete_exact : forall id x, filed_exact x -> filed_exact (ri_delete id x).
Proof.
  intros id x [F1 [F2 F3]]. unfold ri_delete. destruct (nlookup id (ri_sels x)) as [a0|] eqn:E0; [|repeat split; auto].
  destruct (unregister_spec id (classify a0) x) as [A [B [C D]]].
  destruct (unregister_self id (classify a0) x) as [S1 [S2 S3]].
  split; [|split]; simpl.
  - intros l v s H. destruct (N.eq_dec s id) as [->|Hne].
    + exfalso. destruct (S1 l v H) as [H0 Hk]. destruct (F1 l v id H0) as [a [vs [Ha [Hc Hin]]]].
      rewrite E0 in Ha. inversion Ha; subst a0. apply (Hk l vs Hc). auto.
    + rewrite B in H; auto. destruct (F1 l v s H) as [a [vs [Ha Hc]]]. exists a, vs.
      rewrite A, nlookup_ndel. destruct (N.eqb s id) eqn:Es; [apply N.eqb_eq in Es; contradiction|]. auto.
  - intros l s H. destruct (N.eq_dec s id) as [->|Hne].
    + exfalso. destruct (S2 l H) as [H0 Hk]. destruct (F2 l id H0) as [a [Ha Hc]].
      rewrite E0 in Ha. inversion Ha; subst a0. auto.
    + rewrite C in H; auto. destruct (F2 l s H) as [a [Ha Hc]]. exists a.
      rewrite A, nlookup_ndel. destruct (N.eqb s id) eqn:Es; [apply N.eqb_eq in Es; contradiction|]. auto.
  - intros s H. destruct (N.eq_dec s id) as [->|Hne].
    + exfalso. destruct (S3 H) as [H0 Hk]. destruct (F3 id H0) as [a [Ha Hc]].
      rewrite E0 in Ha. inversion Ha; subst a0. auto.
    + rewrite D in H; auto. destruct (F3 s H) as [a [Ha Hc]]. exists a.
      rewrite A, nlookup_ndel. destruct (N.eqb s id) eqn:Es; [apply N.eqb_eq in Es; contradiction|]. auto.
Qed.

(* ---- registering files the new selector under its own class only *)
Lemma register_exact : forall id a x,
  filed_exact x -> nlookup id (ri_sels x) = Some a -> 
  (forall l v, iv (ri_idx x) l v id = false) -> (forall l, iw (ri_idx x) l id = false) -> memN id (ri_unopt x) = false ->
  filed_exact (ri_register id (classify a) x).
Proof.
  intros id a x [F1 [F2 F3]] Ha N1 N2 N3. destruct (classify a) as [|l0 vs0|l0|] eqn:Ek; simpl.
  - repeat split; auto.
  - destruct (register_values_fold l0 id vs0 (ri_idx x)) as [A B]. split; [|split]; simpl.
    + intros l v s H. rewrite A in H. apply orb_true_iff in H. destruct H as [H|H]; auto.
      apply andb_true_iff in H. destruct H as [H Hs]. apply andb_true_iff in H. destruct H as [Hl Hv].
      apply N.eqb_eq in Hs. apply bytes_eqb_eq in Hl. subst. exists a, vs0. repeat split; auto. apply mem_bytes_In. auto.
    + intros l s H. rewrite B in H. auto.
    + auto.
  - split; [|split]; simpl.
    + intros l v s H. apply F1. unfold iv in *. rewrite blookup_bupd in H. destruct (bytes_eqb l l0) eqn:El; auto.
      apply bytes_eqb_eq in El. subst l. simpl in H. destruct (blookup l0 (ri_idx x)); simpl in *; auto.
    + intros l s H. unfold iw in H. rewrite blookup_bupd in H. destruct (bytes_eqb l l0) eqn:El.
      * apply bytes_eqb_eq in El. subst l. simpl in H. rewrite memN_sadd in H. apply orb_true_iff in H.
        destruct H as [H|H].
        -- apply N.eqb_eq in H. subst s. exists a. auto.
        -- apply F2. unfold iw. destruct (blookup l0 (ri_idx x)); simpl in *; auto.
      * apply F2. unfold iw. auto.
    + auto.
  - split; [|split]; simpl; auto.
    intros s H. rewrite memN_sadd in H. apply orb_true_iff in H. destruct H as [H|H]; auto.
    apply N.eqb_eq in H. subst s. exists a. auto.
Qed.

Lemma ri_add_exact : forall id a x, filed_exact x -> filed_exact (ri_add id a x).
Proof.
  intros id a x HF. unfold ri_add. pose proof (ri_delete_exact id x HF) as HF1.
  set (x1 := ri_delete id x) in *.
  assert (Hgone : nlookup id (ri_sels x1) = None).
  { unfold x1, ri_delete. destruct (nlookup id (ri_sels x)) eqn:E; auto. simpl.
    destruct (unregister_spec id (classify a0) x) as [A _]. rewrite A, nlookup_ndel, N.eqb_refl. auto. }
  destruct HF1 as [F1 [F2 F3]].
  set (x2 := {| ri_sels := nupd id a (ri_sels x1); ri_idx := ri_idx x1; ri_unopt := ri_unopt x1 |}).
  assert (HF2 : filed_exact x2).
  { split; [|split]; simpl.
    - intros l v s H. destruct (F1 l v s H) as [b [vs [Hb Hc]]]. exists b, vs. rewrite nlookup_nupd.
      destruct (N.eqb s id) eqn:Es; auto. apply N.eqb_eq in Es. subst. congruence.
    - intros l s H. destruct (F2 l s H) as [b [Hb Hc]]. exists b. rewrite nlookup_nupd.
      destruct (N.eqb s id) eqn:Es; auto. apply N.eqb_eq in Es. subst. congruence.
    - intros s H. destruct (F3 s H) as [b [Hb Hc]]. exists b. rewrite nlookup_nupd.
      destruct (N.eqb s id) eqn:Es; auto. apply N.eqb_eq in Es. subst. congruence. }
  apply register_exact; auto.
  - unfold x2. simpl. rewrite nlookup_nupd, N.eqb_refl. auto.
  - intros l v. destruct (iv (ri_idx x2) l v id) eqn:E; auto. destruct (F1 l v id E) as [b [vs [Hb _]]]. congruence.
  - intros l. destruct (iw (ri_idx x2) l id) eqn:E; auto. destruct (F2 l id E) as [b [Hb _]]. congruence.
  - destruct (memN id (ri_unopt x2)) eqn:E; auto. destruct (F3 id E) as [b [Hb _]]. congruence.
Qed.

Lemma filed_exact_run : forall ops, filed_exact (fold_left ri_step ops ri_empty).
Proof.
  intros. apply fold_left_pres.
  - intros y o Hy. destruct o; simpl; auto; [apply ri_add_exact|apply ri_delete_exact]; auto.
  - split; [|split]; intros; discriminate.
Qed.

(* every candidate is a selector that is in the index now *)
Theorem ri_candidates_live : forall ops L s,
  In s (ri_candidates (fold_left ri_step ops ri_empty) L) -> nlookup s (ri_sels_of ops) <> None.
Proof.
  intros ops L s Hin. destruct (ri_run_inv ops ri_empty [] ri_inv_empty eq_refl) as [_ Hm].
  unfold ri_sels_of. rewrite <- Hm. destruct (filed_exact_run ops) as [F1 [F2 F3]].
  set (x := fold_left ri_step ops ri_empty) in *.
  unfold ri_candidates in Hin. apply in_app_or in Hin. destruct Hin as [Hin|Hin].
  - apply in_flat_map in Hin. destruct Hin as [[k v] [_ Hin]].
    destruct (blookup k (ri_idx x)) as [sb|] eqn:E; [|destruct Hin].
    apply in_app_or in Hin. destruct Hin as [Hin|Hin].
    + destruct (F2 k s) as [a [Ha _]]; [unfold iw; rewrite E; apply memN_In; auto|]. congruence.
    + destruct (F1 k v s) as [a [vs [Ha _]]]; [unfold iv; rewrite E; apply memN_In; auto|]. congruence.
  - destruct (F3 s) as [a [Ha _]]; [apply memN_In; auto|]. congruence.
Qed.
