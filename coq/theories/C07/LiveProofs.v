(* C07 — the parent bookkeeping of the InheritIndex model: every parent an item names stays in the parent map and
   lists the item as a child (so the *parentData pointers of the Go code never go stale and flushChildren reaches
   every item whose inherited labels change); maintaining it never changes any parent's labels. *)
From Coq Require Import List NArith Bool Arith Lia.
From Verif.Common Require Import Labels.
From Verif.C07 Require Import Model Spec MapLemmas AltProofs IdxProofs.
Import ListNotations.
Open Scope N_scope.

Local Arguments nupd : simpl never.
Local Arguments ndel : simpl never.
Local Arguments nlookup : simpl never.

Definition child (x : st) (p i : N) : Prop :=
  exists pa l, nlookup p (parents x) = Some pa /\ pa_items pa = Some l /\ memN i l = true.

Definition parents_live (x : st) : Prop :=
  forall i it p, nlookup i (items x) = Some it -> In p (it_parents it) -> child x p i.

Definition plabels_same (x y : st) : Prop := forall p, parent_labels x p = parent_labels y p.

Definition pexists (x : st) (p : N) : Prop := nlookup p (parents x) <> None.

Lemma plabels_same_refl : forall x, plabels_same x x.
Proof. intros x p. auto. Qed.
Lemma plabels_same_trans : forall x y z, plabels_same x y -> plabels_same y z -> plabels_same x z.
Proof. intros x y z A B p. rewrite A. auto. Qed.

Lemma child_same_parents : forall x y p i, parents x = parents y -> child x p i -> child y p i.
Proof. unfold child. intros x y p i E H. rewrite <- E. auto. Qed.

(* ---- getOrCreateParent *)
Lemma goc_spec : forall p x,
  let x' := get_or_create_parent p x in
  items x' = items x /\ sels x' = sels x /\ plabels_same x x' /\ pexists x' p
  /\ (forall q, pexists x q -> pexists x' q) /\ (forall q j, child x q j -> child x' q j).
Proof.
  intros p x. unfold get_or_create_parent. destruct (nlookup p (parents x)) as [pa|] eqn:E.
  - repeat split; auto. unfold pexists. congruence.
  - simpl. repeat split; auto.
    + intros q. unfold parent_labels. simpl. rewrite nlookup_nupd.
      destruct (N.eqb q p) eqn:Eq; auto. apply N.eqb_eq in Eq. subst. rewrite E. auto.
    + unfold pexists. simpl. rewrite nlookup_nupd, N.eqb_refl. discriminate.
    + intros q Hq. unfold pexists in *. simpl. rewrite nlookup_nupd. destruct (N.eqb q p); auto. discriminate.
    + intros q j [pa [l [H1 [H2 H3]]]]. exists pa, l. simpl. rewrite nlookup_nupd.
      destruct (N.eqb q p) eqn:Eq; auto. apply N.eqb_eq in Eq. subst. congruence.
Qed.

Lemma goc_fold_spec : forall pids x,
  let x' := fold_left (fun y p => get_or_create_parent p y) pids x in
  items x' = items x /\ sels x' = sels x /\ plabels_same x x'
  /\ (forall q, pexists x q \/ In q pids -> pexists x' q) /\ (forall q j, child x q j -> child x' q j).
Proof.
  induction pids as [|p pids IH]; intros x; simpl.
  - repeat split; auto. intros q [H|[]]; auto.
  - destruct (goc_spec p x) as [A [B [C [D [E F]]]]].
    destruct (IH (get_or_create_parent p x)) as [A' [B' [C' [D' F']]]].
    split; [congruence|]. split; [congruence|]. split; [eapply plabels_same_trans; eauto|]. split.
    + intros q [H|[H|H]]; apply D'; auto. subst. auto.
    + intros q j H. apply F'. apply F. auto.
Qed.

(* ---- discardParentIfEmpty *)
Lemma discard_spec : forall p x,
  let x' := discard_parent_if_empty p x in
  items x' = items x /\ sels x' = sels x /\ plabels_same x x'
  /\ (forall q, q <> p -> nlookup q (parents x') = nlookup q (parents x))
  /\ (forall j, child x p j -> child x' p j).
Proof.
  intros p x. unfold discard_parent_if_empty.
  destruct (nlookup p (parents x)) as [[[Lb|] [its|]]|] eqn:E; try (repeat split; auto; fail).
  simpl. repeat split; auto.
  - intros q. unfold parent_labels. simpl. rewrite nlookup_ndel. destruct (N.eqb q p) eqn:Eq; auto.
    apply N.eqb_eq in Eq. subst. rewrite E. auto.
  - intros q Hq. rewrite nlookup_ndel. destruct (N.eqb q p) eqn:Eq; auto. apply N.eqb_eq in Eq. contradiction.
  - intros j [pa [l [H1 [H2 H3]]]]. rewrite E in H1. inversion H1; subst. simpl in H2. discriminate.
Qed.

(* ---- onItemParentsUpdate, first loop: leave the parents that are no longer named *)
Definition old_body (i : N) (news : list N) (y : st) (p : N) : st :=
  if memN p news then y else
  match nlookup p (parents y) with
  | None => y
  | Some pa =>
      let its := sdel i (odflt [] (pa_items pa)) in
      let pa' := {| pa_labels := pa_labels pa; pa_items := if is_nil its then None else Some its |} in
      discard_parent_if_empty p (set_parents (nupd p pa' (parents y)) y)
  end.

Lemma old_body_spec : forall i news y p,
  let y' := old_body i news y p in
  items y' = items y /\ sels y' = sels y /\ plabels_same y y'
  /\ (forall q, memN q news = true -> nlookup q (parents y') = nlookup q (parents y))
  /\ (forall q j, j <> i -> child y q j -> child y' q j).
Proof.
  intros i news y p. unfold old_body. destruct (memN p news) eqn:Enews; [repeat split; auto|].
  destruct (nlookup p (parents y)) as [pa|] eqn:E; [|repeat split; auto].
  set (its := sdel i (odflt [] (pa_items pa))).
  set (pa' := {| pa_labels := pa_labels pa; pa_items := if is_nil its then None else Some its |}).
  set (y1 := set_parents (nupd p pa' (parents y)) y).
  destruct (discard_spec p y1) as [A [B [C [D F]]]].
  assert (C1 : plabels_same y y1).
  { intros q. unfold parent_labels, y1. simpl. rewrite nlookup_nupd. destruct (N.eqb q p) eqn:Eq; auto.
    apply N.eqb_eq in Eq. subst. rewrite E. auto. }
  split; [rewrite A; auto|]. split; [rewrite B; auto|]. split; [eapply plabels_same_trans; eauto|]. split.
  - intros q Hq. assert (q <> p) by (intros ->; congruence).
    rewrite D; auto. unfold y1. simpl. rewrite nlookup_nupd.
    destruct (N.eqb q p) eqn:Eq; auto. apply N.eqb_eq in Eq. contradiction.
  - intros q j Hj [pa0 [l [H1 [H2 H3]]]].
    destruct (N.eq_dec q p) as [->|Hqp].
    + apply F. rewrite E in H1. inversion H1; subst pa0.
      assert (Hm : memN j its = true).
      { unfold its. rewrite H2. simpl. rewrite memN_sdel, H3.
        destruct (N.eqb j i) eqn:Eji; auto. apply N.eqb_eq in Eji. contradiction. }
      exists pa', its. unfold y1. simpl. rewrite nlookup_nupd, N.eqb_refl. repeat split; auto.
      destruct (is_nil its) eqn:En; auto. rewrite (is_nil_memN _ En) in Hm. discriminate.
    + exists pa0, l. rewrite D; auto. unfold y1. simpl. rewrite nlookup_nupd.
      destruct (N.eqb q p) eqn:Eq; auto. apply N.eqb_eq in Eq. contradiction.
Qed.

Lemma old_fold_spec : forall i news olds y,
  let y' := fold_left (old_body i news) olds y in
  items y' = items y /\ sels y' = sels y /\ plabels_same y y'
  /\ (forall q, memN q news = true -> nlookup q (parents y') = nlookup q (parents y))
  /\ (forall q j, j <> i -> child y q j -> child y' q j).
Proof.
  induction olds as [|p olds IH]; intros y; simpl.
  - repeat split; auto.
  - destruct (old_body_spec i news y p) as [A [B [C [D F]]]].
    destruct (IH (old_body i news y p)) as [A' [B' [C' [D' F']]]].
    split; [congruence|]. split; [congruence|]. split; [eapply plabels_same_trans; eauto|]. split.
    + intros q Hq. rewrite D'; auto.
    + intros q j Hj H. apply F'; auto.
Qed.

(* ---- second loop: join the parents that are named now *)
Definition new_body (i : N) (y : st) (p : N) : st :=
  match nlookup p (parents y) with
  | None => y
  | Some pa => set_parents (nupd p {| pa_labels := pa_labels pa;
                                       pa_items := Some (sadd i (odflt [] (pa_items pa))) |} (parents y)) y
  end.

Lemma new_body_spec : forall i y p,
  let y' := new_body i y p in
  items y' = items y /\ sels y' = sels y /\ plabels_same y y'
  /\ (forall q, pexists y q -> pexists y' q)
  /\ (forall q j, child y q j -> child y' q j)
  /\ (pexists y p -> child y' p i).
Proof.
  intros i y p. unfold new_body. destruct (nlookup p (parents y)) as [pa|] eqn:E.
  - simpl. repeat split; auto.
    + intros q. unfold parent_labels. simpl. rewrite nlookup_nupd. destruct (N.eqb q p) eqn:Eq; auto.
      apply N.eqb_eq in Eq. subst. rewrite E. auto.
    + intros q Hq. unfold pexists in *. simpl. rewrite nlookup_nupd. destruct (N.eqb q p); auto. discriminate.
    + intros q j [pa0 [l [H1 [H2 H3]]]]. unfold child. simpl. rewrite nlookup_nupd.
      destruct (N.eqb q p) eqn:Eq.
      * apply N.eqb_eq in Eq. subst q. rewrite E in H1. inversion H1; subst pa0.
        eexists. eexists. split; [reflexivity|]. simpl. split; [reflexivity|].
        rewrite memN_sadd, H2. simpl. rewrite H3. apply orb_true_r.
      * exists pa0, l. auto.
    + intros _. unfold child. simpl. rewrite nlookup_nupd, N.eqb_refl.
      eexists. eexists. split; [reflexivity|]. simpl. split; [reflexivity|].
      rewrite memN_sadd, N.eqb_refl. auto.
  - repeat split; auto. intros H. unfold pexists in H. congruence.
Qed.

Lemma new_fold_spec : forall i news y,
  let y' := fold_left (new_body i) news y in
  items y' = items y /\ sels y' = sels y /\ plabels_same y y'
  /\ (forall q, pexists y q -> pexists y' q)
  /\ (forall q j, child y q j -> child y' q j)
  /\ (forall p, In p news -> pexists y p -> child y' p i).
Proof.
  induction news as [|p news IH]; intros y; simpl.
  - repeat split; auto. intros p [].
  - destruct (new_body_spec i y p) as [A [B [C [D [F G]]]]].
    destruct (IH (new_body i y p)) as [A' [B' [C' [D' [F' G']]]]].
    split; [congruence|]. split; [congruence|]. split; [eapply plabels_same_trans; eauto|].
    split; [auto|]. split; [auto|].
    intros q [->|Hin] Hq; auto.
Qed.

Lemma oipu_spec : forall i olds news x,
  let x' := on_item_parents_update i olds news x in
  items x' = items x /\ sels x' = sels x /\ plabels_same x x'
  /\ (forall q j, j <> i -> child x q j -> child x' q j)
  /\ (forall p, In p news -> pexists x p -> child x' p i).
Proof.
  intros i olds news x. unfold on_item_parents_update.
  change (fold_left _ news (fold_left _ olds x))
    with (fold_left (new_body i) news (fold_left (old_body i news) olds x)).
  destruct (old_fold_spec i news olds x) as [A [B [C [D F]]]].
  destruct (new_fold_spec i news (fold_left (old_body i news) olds x)) as [A' [B' [C' [D' [F' G']]]]].
  split; [congruence|]. split; [congruence|]. split; [eapply plabels_same_trans; eauto|]. split.
  - intros q j Hj H. apply F'. apply F; auto.
  - intros p Hin Hp. apply G'; auto. unfold pexists in *. rewrite D; auto. apply memN_In. auto.
Qed.
