(* C07 — what the rescans of the InheritIndex model do to the match map. *)
From Coq Require Import List NArith Bool Arith Lia.
From Verif.Common Require Import Labels.
From Verif.C07 Require Import Model Spec MapLemmas AltProofs.
Import ListNotations.
Open Scope N_scope.

(* should selector s match item i, according to the model's own copy of the data *)
Definition wantm (x : st) (s i : N) : bool :=
  match nlookup s (sels x), nlookup i (items x) with
  | Some a, Some it => eval a (item_eff x it)
  | _, _ => false
  end.

Definition exact (x : st) : Prop := forall s i, rel_mem s i (by_sel x) = wantm x s i.

Definition same_data (x y : st) : Prop := items x = items y /\ parents x = parents y /\ sels x = sels y.

Lemma same_data_refl : forall x, same_data x x.
Proof. intros. repeat split. Qed.
Lemma same_data_trans : forall x y z, same_data x y -> same_data y z -> same_data x z.
Proof. intros x y z [A [B C]] [D [E F]]. repeat split; congruence. Qed.

Lemma item_eff_parents : forall x y it, parents x = parents y -> item_eff x it = item_eff y it.
Proof.
  intros. unfold item_eff. f_equal. apply map_ext. intros p. unfold parent_labels. rewrite H. auto.
Qed.

Lemma wantm_same_data : forall x y s i, same_data x y -> wantm x s i = wantm y s i.
Proof.
  intros x y s i [A [B C]]. unfold wantm. rewrite A, C.
  destruct (nlookup s (sels y)); auto. destruct (nlookup i (items y)); auto.
  rewrite (item_eff_parents x y); auto.
Qed.

(* ---- primitives *)
Lemma data_store : forall s i x, same_data x (store_match s i x).
Proof. intros. unfold store_match. destruct (rel_mem s i (by_sel x)); repeat split. Qed.
Lemma data_delete : forall s i x, same_data x (delete_match s i x).
Proof. intros. unfold delete_match. destruct (rel_mem s i (by_sel x)); repeat split. Qed.
Lemma data_update_matches : forall s a i it x, same_data x (update_matches s a i it x).
Proof. intros. unfold update_matches. destruct (eval a (item_eff x it)); [apply data_store|apply data_delete]. Qed.
Lemma data_set_tick : forall v x, same_data x (set_tick v x).
Proof. repeat split. Qed.

Lemma mem_store : forall s i x s' i',
  rel_mem s' i' (by_sel (store_match s i x)) = (N.eqb s' s && N.eqb i' i) || rel_mem s' i' (by_sel x).
Proof.
  intros. unfold store_match. destruct (rel_mem s i (by_sel x)) eqn:E.
  - destruct (N.eqb s' s && N.eqb i' i) eqn:Ep; auto.
    apply andb_true_iff in Ep. destruct Ep as [E1 E2]. apply N.eqb_eq in E1, E2. subst. auto.
  - simpl. apply rel_mem_add.
Qed.

Lemma mem_delete : forall s i x s' i',
  rel_mem s' i' (by_sel (delete_match s i x)) = rel_mem s' i' (by_sel x) && negb (N.eqb s' s && N.eqb i' i).
Proof.
  intros. unfold delete_match. destruct (rel_mem s i (by_sel x)) eqn:E.
  - simpl. apply rel_mem_del.
  - destruct (N.eqb s' s && N.eqb i' i) eqn:Ep; simpl; [|rewrite andb_true_r; auto].
    apply andb_true_iff in Ep. destruct Ep as [E1 E2]. apply N.eqb_eq in E1, E2. subst. rewrite E. auto.
Qed.

Lemma mem_update_matches : forall s a i it x s' i',
  rel_mem s' i' (by_sel (update_matches s a i it x)) =
  if N.eqb s' s && N.eqb i' i then eval a (item_eff x it) else rel_mem s' i' (by_sel x).
Proof.
  intros. unfold update_matches. destruct (eval a (item_eff x it)).
  - rewrite mem_store. destruct (N.eqb s' s && N.eqb i' i); auto.
  - rewrite mem_delete. destruct (N.eqb s' s && N.eqb i' i); simpl; [apply andb_false_r|apply andb_true_r].
Qed.

(* ---- scanAllSelectors: fold over selector ids for a fixed item *)
Definition scan_sel_body (i : N) (it : item) (y : st) (s : N) : st :=
  match nlookup s (sels y) with Some a => update_matches s a i it y | None => y end.

Lemma data_scan_sel_body : forall i it y s, same_data y (scan_sel_body i it y s).
Proof. intros. unfold scan_sel_body. destruct (nlookup s (sels y)); [apply data_update_matches|apply same_data_refl]. Qed.

Lemma fold_scan_sel : forall i it ks x,
  let x' := fold_left (scan_sel_body i it) ks x in
  same_data x x' /\
  forall s' i', rel_mem s' i' (by_sel x') =
    if N.eqb i' i && memN s' ks
    then match nlookup s' (sels x) with Some a => eval a (item_eff x it) | None => rel_mem s' i' (by_sel x) end
    else rel_mem s' i' (by_sel x).
Proof.
  induction ks as [|k ks IH]; intros x; simpl.
  - split; [apply same_data_refl|]. intros. rewrite andb_false_r. auto.
  - destruct (IH (scan_sel_body i it x k)) as [D M]. pose proof (data_scan_sel_body i it x k) as D0.
    split; [eapply same_data_trans; eauto|].
    intros s' i'. rewrite M. clear M IH.
    destruct D0 as [_ [Dp Ds]]. rewrite <- Ds. rewrite <- (item_eff_parents x _ it Dp).
    assert (Hk : rel_mem s' i' (by_sel (scan_sel_body i it x k)) =
                 match nlookup k (sels x) with
                 | Some a => if N.eqb s' k && N.eqb i' i then eval a (item_eff x it) else rel_mem s' i' (by_sel x)
                 | None => rel_mem s' i' (by_sel x) end).
    { unfold scan_sel_body. destruct (nlookup k (sels x)); auto. apply mem_update_matches. }
    rewrite Hk. clear Hk.
    destruct (N.eqb i' i) eqn:Ei; simpl.
    + destruct (N.eqb s' k) eqn:Ek; simpl.
      * apply N.eqb_eq in Ek. subst k. destruct (nlookup s' (sels x)); destruct (memN s' ks); auto.
      * destruct (memN s' ks); auto; destruct (nlookup k (sels x)); auto; destruct (nlookup s' (sels x)); auto.
    + rewrite andb_false_r. destruct (nlookup k (sels x)); auto.
Qed.

(* ---- scanAllLabels: fold over item ids for a fixed selector *)
Definition scan_item_body (s : N) (a : ast) (y : st) (i : N) : st :=
  match nlookup i (items y) with Some it => update_matches s a i it y | None => y end.

Lemma data_scan_item_body : forall s a y i, same_data y (scan_item_body s a y i).
Proof. intros. unfold scan_item_body. destruct (nlookup i (items y)); [apply data_update_matches|apply same_data_refl]. Qed.

Lemma fold_scan_item : forall s a ks x,
  let x' := fold_left (scan_item_body s a) ks x in
  same_data x x' /\
  forall s' i', rel_mem s' i' (by_sel x') =
    if N.eqb s' s && memN i' ks
    then match nlookup i' (items x) with Some it => eval a (item_eff x it) | None => rel_mem s' i' (by_sel x) end
    else rel_mem s' i' (by_sel x).
Proof.
  induction ks as [|k ks IH]; intros x; simpl.
  - split; [apply same_data_refl|]. intros. rewrite andb_false_r. auto.
  - destruct (IH (scan_item_body s a x k)) as [D M]. pose proof (data_scan_item_body s a x k) as D0.
    split; [eapply same_data_trans; eauto|].
    intros s' i'. rewrite M. clear M IH.
    destruct D0 as [Di [Dp _]]. rewrite <- Di.
    assert (Hk : rel_mem s' i' (by_sel (scan_item_body s a x k)) =
                 match nlookup k (items x) with
                 | Some it => if N.eqb s' s && N.eqb i' k then eval a (item_eff x it) else rel_mem s' i' (by_sel x)
                 | None => rel_mem s' i' (by_sel x) end).
    { unfold scan_item_body. destruct (nlookup k (items x)); auto. apply mem_update_matches. }
    rewrite Hk. clear Hk.
    destruct (N.eqb s' s) eqn:Es; simpl.
    + destruct (N.eqb i' k) eqn:Ek; simpl.
      * apply N.eqb_eq in Ek. subst k.
        destruct (nlookup i' (items x)) as [it|]; destruct (memN i' ks); auto;
          rewrite <- (item_eff_parents x _ it Dp); auto.
      * destruct (memN i' ks); auto.
        -- destruct (nlookup i' (items x)) as [it|]; [rewrite <- (item_eff_parents x _ it Dp); auto|].
           destruct (nlookup k (items x)); auto.
        -- destruct (nlookup k (items x)); auto.
    + destruct (nlookup k (items x)); auto.
Qed.

(* ---- folds of deleteMatch *)
Lemma fold_delete_sels : forall i ks x,
  let x' := fold_left (fun y s => delete_match s i y) ks x in
  same_data x x' /\
  forall s' i', rel_mem s' i' (by_sel x') = rel_mem s' i' (by_sel x) && negb (N.eqb i' i && memN s' ks).
Proof.
  induction ks as [|k ks IH]; intros x; simpl.
  - split; [apply same_data_refl|]. intros. rewrite andb_false_r, andb_true_r. auto.
  - destruct (IH (delete_match k i x)) as [D M]. split; [eapply same_data_trans; [apply data_delete|eauto]|].
    intros s' i'. rewrite M, mem_delete.
    destruct (rel_mem s' i' (by_sel x)); simpl; auto.
    destruct (N.eqb i' i); simpl; [|rewrite andb_false_r; auto].
    rewrite andb_true_r. destruct (N.eqb s' k); simpl; auto.
Qed.

Lemma fold_delete_items : forall s ks x,
  let x' := fold_left (fun y i => delete_match s i y) ks x in
  same_data x x' /\
  forall s' i', rel_mem s' i' (by_sel x') = rel_mem s' i' (by_sel x) && negb (N.eqb s' s && memN i' ks).
Proof.
  induction ks as [|k ks IH]; intros x; simpl.
  - split; [apply same_data_refl|]. intros. rewrite andb_false_r, andb_true_r. auto.
  - destruct (IH (delete_match s k x)) as [D M]. split; [eapply same_data_trans; [apply data_delete|eauto]|].
    intros s' i'. rewrite M, mem_delete.
    destruct (rel_mem s' i' (by_sel x)); simpl; auto.
    destruct (N.eqb s' s); simpl; auto.
    destruct (N.eqb i' k); simpl; auto.
Qed.

(* ------------------------------------------------------------------ flushUpdates *)
Section Flush.
  Variable ord : nat -> list N -> list N.
  Hypothesis ord_same : forall t l k, In k (ord t l) <-> In k l.

  Lemma memN_ord : forall t l k, memN k (ord t l) = memN k l.
  Proof.
    intros. destruct (memN k l) eqn:E.
    - apply memN_In. apply ord_same. apply memN_In. auto.
    - destruct (memN k (ord t l)) eqn:E2; auto. apply memN_In in E2. apply ord_same in E2.
      apply memN_In in E2. congruence.
  Qed.

  (* matches exist only for selectors the index knows *)
  Definition sel_known (x : st) : Prop := forall s i, rel_mem s i (by_sel x) = true -> nlookup s (sels x) <> None.

  Lemma flush_item_spec : forall i x,
    transp_inv x -> sel_known x ->
    let x' := flush_item ord i x in
    same_data x x' /\
    forall s' i', rel_mem s' i' (by_sel x') = if N.eqb i' i then wantm x s' i' else rel_mem s' i' (by_sel x).
  Proof.
    intros i x HT HK. unfold flush_item. destruct (nlookup i (items x)) as [it|] eqn:Eit.
    - (* the item exists: rescan every selector *)
      unfold scan_all_selectors. rewrite Eit. unfold ranged.
      change (fold_left _ (ord (tick x) (map fst (sels x))) (set_tick (S (tick x)) x))
        with (fold_left (scan_sel_body i it) (ord (tick x) (map fst (sels x))) (set_tick (S (tick x)) x)).
      destruct (fold_scan_sel i it (ord (tick x) (map fst (sels x))) (set_tick (S (tick x)) x)) as [D M].
      split; [eapply same_data_trans; [apply (data_set_tick (S (tick x)))|exact D]|].
      intros s' i'. rewrite M. simpl. rewrite memN_ord.
      destruct (N.eqb i' i) eqn:Ei; simpl; auto.
      apply N.eqb_eq in Ei. subst i'. unfold wantm. rewrite Eit.
      change (item_eff (set_tick (S (tick x)) x) it) with (item_eff x it).
      destruct (nlookup s' (sels x)) as [a|] eqn:Es.
      + assert (Hin : memN s' (map fst (sels x)) = true) by (apply memN_In; eapply nlookup_In_fst; eauto).
        rewrite Hin. auto.
      + destruct (memN s' (map fst (sels x))); auto;
          destruct (rel_mem s' i (by_sel x)) eqn:Em; auto; apply HK in Em; congruence.
    - (* the item is gone: remove every match the item->selectors map lists *)
      assert (Hw : forall s', wantm x s' i = false).
      { intros. unfold wantm. rewrite Eit. destruct (nlookup s' (sels x)); auto. }
      destruct (nlookup i (by_item x)) as [ss|] eqn:Ess.
      + unfold ranged.
        destruct (fold_delete_sels i (ord (tick x) ss) (set_tick (S (tick x)) x)) as [D M].
        split; [eapply same_data_trans; [apply (data_set_tick (S (tick x)))|exact D]|].
        intros s' i'. rewrite M. simpl. rewrite memN_ord.
        destruct (N.eqb i' i) eqn:Ei; simpl; [|rewrite andb_true_r; auto].
        apply N.eqb_eq in Ei. subst i'. rewrite Hw.
        destruct (memN s' ss) eqn:Em; simpl; [rewrite andb_false_r; auto|].
        rewrite andb_true_r. rewrite <- HT. unfold rel_mem. rewrite Ess. auto.
      + split; [apply same_data_refl|]. intros s' i'.
        destruct (N.eqb i' i) eqn:Ei; auto. apply N.eqb_eq in Ei. subst i'. rewrite Hw.
        rewrite <- HT. unfold rel_mem. rewrite Ess. auto.
  Qed.

  Lemma sel_known_same : forall x y, same_data x y -> sel_known x ->
    (forall s i, rel_mem s i (by_sel y) = true -> rel_mem s i (by_sel x) = true \/ wantm x s i = true) ->
    sel_known y.
  Proof.
    intros x y [_ [_ Ds]] HK H s i Hm. rewrite <- Ds. destruct (H s i Hm) as [H1|H1].
    - eapply HK; eauto.
    - unfold wantm in H1. destruct (nlookup s (sels x)); congruence.
  Qed.

  Lemma flush_fold_spec : forall ks x,
    transp_inv x -> sel_known x ->
    let x' := fold_left (fun y i => flush_item ord i y) ks x in
    same_data x x' /\ transp_inv x' /\ sel_known x' /\
    forall s' i', rel_mem s' i' (by_sel x') = if memN i' ks then wantm x s' i' else rel_mem s' i' (by_sel x).
  Proof.
    induction ks as [|k ks IH]; intros x HT HK; simpl.
    - repeat split; auto.
    - destruct (flush_item_spec k x HT HK) as [D1 M1].
      assert (HT1 : transp_inv (flush_item ord k x)).
      { apply P_flush_item; auto; [apply transp_ext|apply transp_store|apply transp_delete]. }
      assert (HK1 : sel_known (flush_item ord k x)).
      { eapply sel_known_same; eauto. intros s i Hm. rewrite M1 in Hm. destruct (N.eqb i k); auto. }
      destruct (IH _ HT1 HK1) as [D2 [HT2 [HK2 M2]]].
      split; [eapply same_data_trans; eauto|]. split; auto. split; auto.
      intros s' i'. rewrite M2, M1. rewrite <- (wantm_same_data x _ s' i' D1).
      destruct (N.eqb i' k) eqn:Ek; simpl; destruct (memN i' ks); auto.
  Qed.

  Lemma flush_spec : forall d x,
    transp_inv x -> sel_known x ->
    let x' := flush ord d x in
    same_data x x' /\ transp_inv x' /\ sel_known x' /\
    forall s' i', rel_mem s' i' (by_sel x') = if memN i' d then wantm x s' i' else rel_mem s' i' (by_sel x).
  Proof.
    intros d x HT HK. unfold flush, ranged.
    destruct (flush_fold_spec (ord (tick x) d) (set_tick (S (tick x)) x)) as [D [HT' [HK' M]]]; auto.
    split; [eapply same_data_trans; [apply (data_set_tick (S (tick x)))|exact D]|].
    split; auto. split; auto. intros s' i'. rewrite M, memN_ord. reflexivity.
  Qed.
End Flush.
