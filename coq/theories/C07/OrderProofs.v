(* C07 — findMostRestrictedLabel ranges over a Go map: its result (and hence how a selector is filed in the
   LabelRestrictionIndex, at AddSelector and again at DeleteSelector) does not depend on the iteration order. *)
From Coq Require Import List NArith Bool Arith Lia Permutation.
From Verif.Common Require Import Labels.
From Verif.C07 Require Import Model Spec MapLemmas RestrProofs.
Import ListNotations.
Open Scope N_scope.

Definition lp := (bytes * N)%type.       (* (label, score) *)
Definition lt (p q : lp) : bool :=
  N.ltb (snd p) (snd q) || (N.eqb (snd q) (snd p) && bytes_ltb (fst p) (fst q)).

Lemma lt_irrefl : forall p, lt p p = false.
Proof. intros [l s]. unfold lt. simpl. rewrite N.ltb_irrefl, bytes_ltb_irrefl, andb_false_r. auto. Qed.

Lemma lt_trans : forall p q r, lt p q = true -> lt q r = true -> lt p r = true.
Proof.
  intros [l1 s1] [l2 s2] [l3 s3]. unfold lt. simpl. intros H1 H2.
  apply orb_true_iff in H1. apply orb_true_iff in H2. apply orb_true_iff.
  destruct H1 as [H1|H1], H2 as [H2|H2].
  - left. apply N.ltb_lt in H1, H2. apply N.ltb_lt. lia.
  - apply andb_true_iff in H2. destruct H2 as [E _]. apply N.eqb_eq in E. subst. auto.
  - apply andb_true_iff in H1. destruct H1 as [E _]. apply N.eqb_eq in E. subst. auto.
  - apply andb_true_iff in H1. apply andb_true_iff in H2. destruct H1 as [E1 L1], H2 as [E2 L2].
    apply N.eqb_eq in E1, E2. subst. right. rewrite N.eqb_refl. simpl. eapply bytes_ltb_trans; eauto.
Qed.

Lemma lt_total : forall p q, lt p q = false -> lt q p = false -> p = q.
Proof.
  intros [l1 s1] [l2 s2]. unfold lt. simpl. intros H1 H2.
  apply orb_false_iff in H1. apply orb_false_iff in H2. destruct H1 as [A1 B1], H2 as [A2 B2].
  apply N.ltb_ge in A1, A2. assert (s1 = s2) by lia. subst. rewrite N.eqb_refl in B1, B2. simpl in *.
  f_equal. apply bytes_ltb_total; auto.
Qed.

Definition mstep (acc : option lp) (p : lp) : option lp :=
  match acc with None => Some p | Some b => if lt b p then Some p else Some b end.
Definition tosc (e : bytes * restr) : lp := (fst e, score (snd e)).

Lemma most_restricted_fold : forall R acc,
  fold_left (fun best '(l, r) => if better best l (score r) then Some (l, score r) else best) R acc
  = fold_left mstep (map tosc R) acc.
Proof.
  induction R as [|[l r] R IH]; intros acc; simpl; auto. rewrite IH. f_equal.
  destruct acc as [[bl bs]|]; simpl; auto.
Qed.

Lemma fold_mstep_max : forall ps acc,
  match fold_left mstep ps acc with
  | None => acc = None /\ ps = []
  | Some pm => (acc = Some pm \/ In pm ps)
               /\ (forall b, acc = Some b -> lt pm b = false)
               /\ (forall p, In p ps -> lt pm p = false)
  end.
Proof.
  induction ps as [|p ps IH]; intros acc; simpl.
  - destruct acc as [b|]; auto. split; auto. split; [|intros p []].
    intros b0 H. inversion H; subst. apply lt_irrefl.
  - specialize (IH (mstep acc p)). destruct (fold_left mstep ps (mstep acc p)) as [pm|].
    + destruct IH as [Hm [Hb Hp]]. destruct acc as [b|]; simpl in *.
      * destruct (lt b p) eqn:Ebp.
        -- split; [destruct Hm as [Hm|Hm]; [inversion Hm; auto|auto]|]. split.
           ++ intros b0 H0. inversion H0; subst b0. destruct (lt pm b) eqn:E; auto.
              specialize (Hb p eq_refl). pose proof (lt_trans pm b p E Ebp). congruence.
           ++ intros p0 [->|H0]; auto.
        -- split; [destruct Hm as [Hm|Hm]; [inversion Hm; auto|auto]|]. split.
           ++ intros b0 H0. inversion H0; subst b0. auto.
           ++ intros p0 [<-|H0]; auto. specialize (Hb b eq_refl).
              destruct (lt pm p) eqn:E; auto. destruct (lt p b) eqn:Epb.
              ** pose proof (lt_trans pm p b E Epb). congruence.
              ** assert (b = p) by (apply lt_total; auto). subst. congruence.
      * split; [destruct Hm as [Hm|Hm]; [inversion Hm; auto|auto]|]. split; [intros b H0; discriminate|].
        intros p0 [<-|H0]; auto.
    + destruct IH as [H _]. destruct acc as [b|]; simpl in H; [destruct (lt b p)|]; discriminate.
Qed.

Lemma fold_mstep_perm : forall ps ps', Permutation ps ps' -> fold_left mstep ps None = fold_left mstep ps' None.
Proof.
  intros ps ps' HP.
  pose proof (fold_mstep_max ps None) as H1. pose proof (fold_mstep_max ps' None) as H2.
  destruct (fold_left mstep ps None) as [m1|], (fold_left mstep ps' None) as [m2|]; auto.
  - destruct H1 as [[H1|H1] [_ M1]]; [discriminate|]. destruct H2 as [[H2|H2] [_ M2]]; [discriminate|].
    f_equal. apply lt_total.
    + apply M1. eapply Permutation_in; [apply Permutation_sym; eauto|auto].
    + apply M2. eapply Permutation_in; eauto.
  - destruct H2 as [_ H2]. subst ps'. apply Permutation_sym, Permutation_nil in HP. subst ps.
    simpl in H1. destruct H1 as [[H1|[]] _]. discriminate.
  - destruct H1 as [_ H1]. subst ps. apply Permutation_nil in HP. subst ps'.
    simpl in H2. destruct H2 as [[H2|[]] _]. discriminate.
Qed.

Theorem most_restricted_perm : forall R R', Permutation R R' -> most_restricted R = most_restricted R'.
Proof.
  intros R R' HP. unfold most_restricted. rewrite !most_restricted_fold. f_equal.
  apply fold_mstep_perm. apply Permutation_map. auto.
Qed.

(* ---- lookups in a map do not depend on the order either, keys being unique *)
Lemma blookup_In_iff : forall A (m : list (bytes * A)) k v,
  NoDup (map fst m) -> (blookup k m = Some v <-> In (k, v) m).
Proof.
  induction m as [|[k' v'] m IH]; simpl; intros k v HN.
  - split; [discriminate|intros []].
  - inversion HN; subst. destruct (bytes_eqb k k') eqn:E.
    + apply bytes_eqb_eq in E. subst k'. split.
      * intros H. inversion H; auto.
      * intros [H|H]; [inversion H; auto|]. exfalso. apply H1. apply (in_map fst) in H. auto.
    + rewrite IH; auto. split; auto. intros [H|H]; auto. inversion H; subst. rewrite bytes_eqb_refl in E. discriminate.
Qed.

Lemma blookup_perm : forall A (R R' : list (bytes * A)) k,
  Permutation R R' -> NoDup (map fst R) -> blookup k R' = blookup k R.
Proof.
  intros A R R' k HP HN.
  assert (HN' : NoDup (map fst R')) by (eapply Permutation_NoDup; [apply Permutation_map; eauto|auto]).
  destruct (blookup k R) as [v|] eqn:E.
  - apply blookup_In_iff; auto. apply blookup_In_iff in E; auto. eapply Permutation_in; eauto.
  - destruct (blookup k R') as [v|] eqn:E'; auto.
    apply blookup_In_iff in E'; auto. apply (Permutation_in _ (Permutation_sym HP)) in E'.
    apply blookup_In_iff in E'; auto. congruence.
Qed.

Theorem classify_restr_perm : forall R R', Permutation R R' -> NoDup (map fst R) ->
  classify_restr R' = classify_restr R.
Proof.
  intros R R' HP HN. unfold classify_restr. rewrite <- (most_restricted_perm R R' HP).
  destruct (most_restricted R); auto. rewrite (blookup_perm _ R R' b HP HN). auto.
Qed.

(* ---- the restriction map of a selector has one entry per label *)
Lemma keys_bdel : forall A k (m : list (bytes * A)) x, In x (map fst (bdel k m)) -> In x (map fst m) /\ x <> k.
Proof.
  intros A k m x H. apply in_map_iff in H. destruct H as [[k' v'] [E H]]. simpl in E. subst.
  apply In_bdel in H. destruct H as [H1 H2]. split; auto. apply (in_map fst) in H1. auto.
Qed.

Lemma nodup_bdel : forall A k (m : list (bytes * A)), NoDup (map fst m) -> NoDup (map fst (bdel k m)).
Proof.
  induction m as [|[k' v'] m IH]; simpl; intros HN; auto. inversion HN; subst.
  destruct (bytes_eqb k k'); auto. simpl. constructor; auto.
  intros H. apply keys_bdel in H. tauto.
Qed.

Lemma nodup_bupd : forall A k v (m : list (bytes * A)), NoDup (map fst m) -> NoDup (map fst (bupd k v m)).
Proof.
  intros. unfold bupd. simpl. constructor; [|apply nodup_bdel; auto].
  intros Hin. apply keys_bdel in Hin. tauto.
Qed.

Lemma nodup_and_merge : forall op lr, NoDup (map fst lr) -> NoDup (map fst (and_merge lr op)).
Proof.
  unfold and_merge. induction op as [|[ln r] op IH]; simpl; intros lr H; auto.
  apply IH. apply nodup_bupd. auto.
Qed.

Lemma nodup_or_merge : forall op lr, NoDup (map fst lr) -> NoDup (map fst (or_merge lr op)).
Proof.
  unfold or_merge. induction lr as [|[ln r] lr IH]; simpl; intros H; auto. inversion H; subst.
  rewrite map_app. unfold or_entry at 1.
  destruct (r_present r && r_present (odflt r_zero (blookup ln op)) || r_absent r && r_absent (odflt r_zero (blookup ln op))); simpl; auto.
  constructor; auto. intros Hin. apply H2. apply in_map_iff in Hin. destruct Hin as [[k v] [E Hin]].
  simpl in E. subst k. apply in_flat_map in Hin. destruct Hin as [[k' r'] [Hin1 Hin2]].
  unfold or_entry in Hin2.
  destruct (r_present r' && r_present (odflt r_zero (blookup k' op)) || r_absent r' && r_absent (odflt r_zero (blookup k' op))); [|contradiction].
  destruct Hin2 as [Hin2|[]]. inversion Hin2; subst. apply (in_map fst) in Hin1. auto.
Qed.

Lemma restrictions_nodup : forall a, NoDup (map fst (restrictions a)).
Proof.
  induction a using ast_ind_nested; simpl; try (repeat constructor; simpl; tauto).
  - destruct a; simpl; repeat constructor; simpl; tauto.
  - assert (G : forall acc, NoDup (map fst acc) ->
               NoDup (map fst (fold_left (fun lr x => and_merge lr (restrictions x)) xs acc))).
    { clear H. induction xs as [|x xs IH]; simpl; intros acc Hacc; auto. apply IH. apply nodup_and_merge. auto. }
    apply G. constructor.
  - destruct xs as [|x xs]; [constructor|]. inversion H; subst.
    assert (G : forall acc, NoDup (map fst acc) ->
               NoDup (map fst (fold_left (fun lr y => or_merge lr (restrictions y)) xs acc))).
    { clear. induction xs as [|y xs IH]; simpl; intros acc Hacc; auto. apply IH. apply nodup_or_merge. auto. }
    apply G. auto.
Qed.

(* the same for LabelRestrictions over any intersection/union functions, in particular the faithful ones *)
Section GenNodup.
  Variable inter union : list bytes -> list bytes -> list bytes.

  Lemma nodup_and_merge_g : forall op lr, NoDup (map fst lr) -> NoDup (map fst (and_merge_g inter lr op)).
  Proof.
    unfold and_merge_g. induction op as [|[ln r] op IH]; simpl; intros lr H; auto.
    apply IH. apply nodup_bupd. auto.
  Qed.

  Lemma nodup_or_merge_g : forall op lr, NoDup (map fst lr) -> NoDup (map fst (or_merge_g union lr op)).
  Proof.
    unfold or_merge_g. induction lr as [|[ln r] lr IH]; simpl; intros H; auto. inversion H; subst.
    rewrite map_app. unfold or_entry_g at 1.
    destruct (r_present r && r_present (odflt r_zero (blookup ln op)) || r_absent r && r_absent (odflt r_zero (blookup ln op))); simpl; auto.
    constructor; auto. intros Hin. apply H2. apply in_map_iff in Hin. destruct Hin as [[k v] [E Hin]].
    simpl in E. subst k. apply in_flat_map in Hin. destruct Hin as [[k' r'] [Hin1 Hin2]].
    unfold or_entry_g in Hin2.
    destruct (r_present r' && r_present (odflt r_zero (blookup k' op)) || r_absent r' && r_absent (odflt r_zero (blookup k' op))); [|contradiction].
    destruct Hin2 as [Hin2|[]]. inversion Hin2; subst. apply (in_map fst) in Hin1. auto.
  Qed.

  Lemma restrictions_g_nodup : forall a, NoDup (map fst (restrictions_g inter union a)).
  Proof.
    induction a using ast_ind_nested; simpl; try (repeat constructor; simpl; tauto).
    - destruct a; simpl; repeat constructor; simpl; tauto.
    - assert (G : forall acc, NoDup (map fst acc) ->
                 NoDup (map fst (fold_left (fun lr x => and_merge_g inter lr (restrictions_g inter union x)) xs acc))).
      { clear H. induction xs as [|x xs IH]; simpl; intros acc Hacc; auto. apply IH. apply nodup_and_merge_g. auto. }
      apply G. constructor.
    - destruct xs as [|x xs]; [constructor|]. inversion H; subst.
      assert (G : forall acc, NoDup (map fst acc) ->
                 NoDup (map fst (fold_left (fun lr y => or_merge_g union lr (restrictions_g inter union y)) xs acc))).
      { clear. induction xs as [|y xs IH]; simpl; intros acc Hacc; auto. apply IH. apply nodup_or_merge_g. auto. }
      apply G. auto.
  Qed.
End GenNodup.

(* whatever order the map behind sel.LabelRestrictions() is ranged in, the selector is classified the same way *)
Theorem classify_order_free : forall a R', Permutation (restrictions_f a) R' -> classify_restr R' = classify a.
Proof. intros. apply classify_restr_perm; auto. apply restrictions_g_nodup. Qed.

(* ---- AndNode / OrNode range over Go maps too: one merge step is order-free as a map *)
Definition and_comb (base r : restr) : restr :=
  {| r_present := r_present base || r_present r;
     r_absent := r_absent base || r_absent r;
     r_vals := match r_vals base with
               | None => r_vals r
               | Some a => match r_vals r with None => Some a | Some b => Some (inter_vals a b) end
               end |}.

Lemma and_merge_lookup : forall op lr k, NoDup (map fst op) ->
  blookup k (and_merge lr op) =
  match blookup k op with
  | Some r => Some (and_comb (odflt r_zero (blookup k lr)) r)
  | None => blookup k lr
  end.
Proof.
  unfold and_merge. induction op as [|[ln r] op IH]; intros lr k HN; simpl; auto.
  inversion HN; subst. rewrite IH; auto. unfold and_entry. rewrite !blookup_bupd.
  destruct (bytes_eqb k ln) eqn:E.
  - apply bytes_eqb_eq in E. subst k.
    destruct (blookup ln op) as [r'|] eqn:El; auto.
    exfalso. apply H1. apply blookup_In in El. apply (in_map fst) in El. auto.
  - reflexivity.
Qed.

(* `for ln, r := range opLR` in AndNode.LabelRestrictions: any order of the operand's map gives the same map *)
Theorem and_merge_order_free : forall lr op op' k,
  NoDup (map fst op) -> Permutation op op' -> blookup k (and_merge lr op') = blookup k (and_merge lr op).
Proof.
  intros lr op op' k HN HP.
  assert (HN' : NoDup (map fst op')) by (eapply Permutation_NoDup; [apply Permutation_map; eauto|auto]).
  rewrite !and_merge_lookup; auto. rewrite (blookup_perm _ op op' k HP HN). reflexivity.
Qed.

(* `for ln, r := range lr` in OrNode.LabelRestrictions: the accumulated map may be ranged in any order, and the
   operand's map is only looked up by key *)
Theorem or_merge_order_free : forall lr lr' op op',
  Permutation lr lr' -> NoDup (map fst op) -> Permutation op op' ->
  Permutation (or_merge lr op) (or_merge lr' op').
Proof.
  intros lr lr' op op' HP HN HPo. unfold or_merge.
  assert (E : forall e, or_entry op' e = or_entry op e).
  { intros [ln r]. unfold or_entry. rewrite (blookup_perm _ op op' ln HPo HN). reflexivity. }
  rewrite (flat_map_ext _ _ E). apply Permutation_flat_map. auto.
Qed.
