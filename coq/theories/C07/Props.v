(* C07 — property theorems only.  Each is closed by `exact <lemma>` and followed by Print Assumptions. *)
From Coq Require Import List NArith Bool.
From Verif.Common Require Import Labels.
From Verif.C07 Require Import Model Spec Proofs.
Import ListNotations.
Open Scope N_scope.

Theorem c07_ast_eqb_sound : forall a b, ast_eqb a b = true -> a = b.
Proof. exact ast_eqb_eq. Qed.
Print Assumptions c07_ast_eqb_sound.
