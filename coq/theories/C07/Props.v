(* C07 — property theorems only.  Each is closed by `exact <lemma>` and followed by Print Assumptions.

   Vocabulary (Model.v / Spec.v):
     run ord sel_eqb ops      the InheritIndex model after the history `ops` (UpdateLabels, DeleteLabels,
                              UpdateParentLabels, DeleteParentLabels, UpdateSelector, DeleteSelector), where `ord` is the
                              order in which every Go map/set iteration enumerates its elements and `sel_eqb` is
                              Selector.Equal;
     by_sel / by_item         labelIdsBySelId / selIdsByLabelId;  log = every OnMatchStarted/Stopped callback so far;
     sp_run ops, want         the plain data the history describes and "selector s evaluates to true on item i's
                              effective labels (own labels, then the parents' labels in order)";
     restrictions a           Selector.LabelRestrictions();  satisfies R L = the label map L meets every restriction. *)
From Coq Require Import List NArith Bool Permutation.
From Verif.Common Require Import Labels.
From Verif.C07 Require Import Model Spec MapLemmas AltProofs IdxProofs LiveProofs StepProofs RestrProofs SliceProofs CandProofs CandExact OrderProofs IterProofs RiMeets NvExact Proofs.
Import ListNotations.
Open Scope N_scope.

(* After ANY history, under ANY map iteration orders, both match maps contain (selector,item) exactly when the
   selector evaluates to true on the item's effective labels. *)
Theorem c07_index_exact :
  forall (ord : nat -> list N -> list N) (sel_eqb : ast -> ast -> bool),
  (forall t l, Permutation (ord t l) l) ->
  (forall a b, sel_eqb a b = true -> forall L, eval a L = eval b L) ->
  forall ops s i,
    let x := run ord sel_eqb ops in
    rel_mem s i (by_sel x) = want (sp_run ops) s i /\ rel_mem i s (by_item x) = want (sp_run ops) s i.
Proof. exact index_exact_perm. Qed.
Print Assumptions c07_index_exact.

(* Per (selector,item) the callback stream is start, stop, start, ... ("(start stop)* possibly ending in start":
   never two starts, never a stop without a start), and the pair is in the match map exactly when its stream
   currently ends with a start.  No assumption on `ord` or `sel_eqb` at all. *)
Theorem c07_alternation :
  forall ord sel_eqb ops s i,
    let x := run ord sel_eqb ops in
    alternating true (proj s i (log x))
    /\ (rel_mem s i (by_sel x) = true <-> exists ks, proj s i (log x) = ks ++ [true]).
Proof. exact alternation. Qed.
Print Assumptions c07_alternation.

(* Whole-history statement at the level of the OBSERVABLES the correspondence run compares: for every history and
   every iteration order, the specification oracle of Spec.v (match map after each call = direct evaluation, both
   maps agree, callbacks alternate and end in the match map) accepts the model's own run.  The same oracle is
   evaluated on the implementation's observations by the correspondence run. *)
Theorem c07_model_meets_spec :
  forall (ord : nat -> list N -> list N), (forall t l, Permutation (ord t l) l) ->
  forall ops, ok_trace ops (run_obs ord empty_st ops) = true.
Proof. exact model_meets_spec_perm. Qed.
Print Assumptions c07_model_meets_spec.

(* Pruning by label restrictions never excludes a true match: whenever the selector evaluates to true on a label
   map, the map satisfies the selector's LabelRestrictions (every node type; And = intersection, Or = union). *)
Theorem c07_restrictions_sound : forall a L, eval a L = true -> satisfies (restrictions a) L.
Proof. exact restrictions_sound. Qed.
Print Assumptions c07_restrictions_sound.

(* The same at the level of the value SLICES the Go code manipulates (Model.v section 2b): StringSet.Contains is the
   bisection of sort.Search; on what ConvertToStringSetInPlace produces (sorted, adjacent repeats dropped) it is exactly
   membership ... *)
Theorem c07_binary_search_contains : forall s v, contains_bs (to_set_f s) v = true <-> In v s.
Proof. exact binary_search_contains. Qed.
Print Assumptions c07_binary_search_contains.

(* ... so the summaries computed with intersectStringSlicesInPlace / unionStringSlicesInPlace as written (in-place sort,
   order-keeping filter, append) never exclude a true match either.  These are the summaries the index models file
   selectors by (classify) and iterEndpointCandidates consumes; the driver compares them with the real
   LabelRestrictions() value for value IN ORDER. *)
Theorem c07_restrictions_exact_sound : forall a L, eval a L = true -> satisfies (restrictions_f a) L.
Proof. exact restrictions_f_sound. Qed.
Print Assumptions c07_restrictions_exact_sound.

(* The sort is essential: binary-searching the second slice as it comes (unions are appended, not sorted) loses
   values.  Witness  a == "x" && (a == "z" || a == "x")  on {a: x}. *)
Theorem c07_restrictions_nosort_refuted :
  exists a L, eval a L = true /\ satisfies_b (restrictions_nosort a) L = false.
Proof. exact restrictions_nosort_refuted. Qed.
Print Assumptions c07_restrictions_nosort_refuted.

(* The abstraction "items name their parents by id" is sound: a parent named by a live item is never dropped from
   the parent map and always lists that item as a child (so Go's *parentData pointers cannot go stale and
   flushChildren reaches every item whose inherited labels change). *)
Theorem c07_parents_live :
  forall (ord : nat -> list N -> list N) (sel_eqb : ast -> ast -> bool),
  (forall t l, Permutation (ord t l) l) ->
  forall ops i it p,
    let x := run ord sel_eqb ops in
    nlookup i (items x) = Some it -> In p (it_parents it) ->
    exists pa l, nlookup p (parents x) = Some pa /\ pa_items pa = Some l /\ memN i l = true.
Proof. exact parents_live_perm. Qed.
Print Assumptions c07_parents_live.

(* LabelRestrictionIndex: after any history of AddSelector/DeleteSelector (ri_sels_of ops = the selectors now in the
   index), a selector that evaluates to true on a label map is among the candidates AllPotentialMatches yields for
   that map.  (Combines c07_restrictions_sound with the index's filing invariant.) *)
Theorem c07_candidates_superset : forall ops s a L,
  nlookup s (ri_sels_of ops) = Some a -> eval a L = true ->
  In s (ri_candidates (fold_left ri_step ops ri_empty) L).
Proof. exact ri_candidates_superset. Qed.
Print Assumptions c07_candidates_superset.

(* ... and nothing else: every candidate the LabelRestrictionIndex yields is a selector that is in the index now (no
   stale filing survives DeleteSelector or a re-AddSelector; a stale id would be a nil *ipSetData in the caller). *)
Theorem c07_candidates_live : forall ops L s,
  In s (ri_candidates (fold_left ri_step ops ri_empty) L) -> nlookup s (ri_sels_of ops) <> None.
Proof. exact ri_candidates_live. Qed.
Print Assumptions c07_candidates_live.

(* LabelNameValueIndex: after any history of Add/Remove, the scan strategy chosen for (label l, restriction r)
   yields every stored item whose own labels satisfy r on l. *)
Theorem c07_candidates_superset_items : forall ops l r i L,
  nlookup i (nv_items (fold_left nv_step ops nv_empty)) = Some L ->
  sat1 r (lookup l L) ->
  In i (snd (nv_scan (fold_left nv_step ops nv_empty) l r)).
Proof. exact nv_scan_superset. Qed.
Print Assumptions c07_candidates_superset_items.

(* Non-vacuity: selectors 1 (a == "x"), 2 (has(b)), 3 (a != "x": unoptimised), 4 (a == "x" && !has(a): impossible);
   an item with a=x gets candidates 1 and 3 only. *)
Example c07_candidates_example :
  let ops := [RiAdd 1 (SEq [97] [120]); RiAdd 2 (SHas [98]); RiAdd 3 (SNe [97] [120]);
              RiAdd 4 (SAnd [SEq [97] [120]; SNot (SHas [97])])] in
  nsort (ri_candidates (fold_left ri_step ops ri_empty) [([97], [120])]) = [1; 3].
Proof. vm_compute. reflexivity. Qed.

(* The oracles of the two candidate-index streams accept every run of their models: ok_ri (never omits a selector that
   evaluates to true; yields only selectors in the index) for every AddSelector/DeleteSelector/query history; ok_nv
   (never omits a stored item whose own labels satisfy the restriction; yields only stored items, none twice) for
   every history inside the domain - label maps with one value per label, Add never called for a stored id (the Go
   code panics; callers Remove first). *)
Theorem c07_ri_model_meets_spec : forall ops, ok_ri [] ops (ri_run ri_empty ops) = true.
Proof. exact ri_model_meets_spec. Qed.
Print Assumptions c07_ri_model_meets_spec.

Theorem c07_nv_model_meets_spec : forall ops, nv_valid nv_empty ops -> ok_nv [] ops (nv_run nv_empty ops) = true.
Proof. exact nv_model_meets_spec. Qed.
Print Assumptions c07_nv_model_meets_spec.

(* iterEndpointCandidates (SelectorAndNamedPortIndex), the step that actually prunes with the restriction
   summaries: endpoints are indexed by their OWN labels, parents by theirs (both reached by arbitrary Add/Remove
   histories), `kids` is parent -> endpointIDs.  If endpoint e (own labels L, parents ps, each indexed parent listing
   e) satisfies the selector on its effective labels, e is among the candidates - for EVERY iteration order R' of
   the restriction map and EVERY parent-scan estimate function. *)
Theorem c07_iter_candidates_superset :
  forall (pest : np -> list N -> nat) opsE opsP kids e L ps a R',
  let x := {| np_eps := fold_left nv_step opsE nv_empty; np_pars := fold_left nv_step opsP nv_empty; np_children := kids |} in
  nlookup e (nv_items (np_eps x)) = Some L ->
  (forall p, In p ps -> nlookup p (nv_items (np_pars x)) <> None -> In e (np_kids x p)) ->
  Permutation (restrictions_f a) R' ->
  eval a (effective L (map (fun p => odflt [] (nlookup p (nv_items (np_pars x)))) ps)) = true ->
  In e (iter_candidates pest x R').
Proof. exact iter_candidates_superset. Qed.
Print Assumptions c07_iter_candidates_superset.

(* findMostRestrictedLabel ranges over the Go map behind LabelRestrictions(): whatever the iteration order (any
   permutation R' of the restriction map), the selector is filed the same way - so DeleteSelector undoes exactly
   what AddSelector did. *)
Theorem c07_filing_order_free : forall a R', Permutation (restrictions_f a) R' -> classify_restr R' = classify a.
Proof. exact classify_order_free. Qed.
Print Assumptions c07_filing_order_free.

(* The two other loops over Go maps in the restriction code are order-free as well: AndNode ranges over an operand's
   map (any order gives the same map), OrNode ranges over the accumulated map and only looks the operand's map up. *)
Theorem c07_and_merge_order_free : forall lr op op' k,
  NoDup (map fst op) -> Permutation op op' -> blookup k (and_merge lr op') = blookup k (and_merge lr op).
Proof. exact and_merge_order_free. Qed.
Print Assumptions c07_and_merge_order_free.

Theorem c07_or_merge_order_free : forall lr lr' op op',
  Permutation lr lr' -> NoDup (map fst op) -> Permutation op op' ->
  Permutation (or_merge lr op) (or_merge lr' op').
Proof. exact or_merge_order_free. Qed.
Print Assumptions c07_or_merge_order_free.

(* The restriction oracle of Spec.v accepts the model on every selector and every list of label maps. *)
Theorem c07_restr_model_meets_spec : forall a maps,
  snd (check_case (CRestr a (restrictions a) maps (map (eval a) maps))) = true.
Proof. exact restr_model_meets_spec. Qed.
Print Assumptions c07_restr_model_meets_spec.

(* The executable stand-in for Selector.Equal used in the correspondence run meets the hypothesis above. *)
Theorem c07_ast_eqb_sound : forall a b, ast_eqb a b = true -> forall L, eval a L = eval b L.
Proof. exact ast_eqb_sound. Qed.
Print Assumptions c07_ast_eqb_sound.

(* Non-vacuity: item 1 has own label a=x and inherits b=y from parent 7; selector 5 is  a == "x" && b == "y";
   the match starts when the parent's labels arrive, stops when the item overrides b, restarts when the override
   goes away, stops when the parent's labels are deleted. *)
Example c07_example :
  let a := [97] in let b := [98] in let vx := [120] in let vy := [121] in let vz := [122] in
  let ops := [ OpUpdateSelector 5 (SAnd [SEq a vx; SEq b vy]);
               OpUpdateLabels 1 [(a, vx)] [7];
               OpUpdateParentLabels 7 (Some [(b, vy)]);
               OpUpdateLabels 1 [(a, vx); (b, vz)] [7];
               OpUpdateLabels 1 [(a, vx)] [7];
               OpDeleteParentLabels 7 ] in
  log (run ord_id ast_eqb ops) = [Start 5 1; Stop 5 1; Start 5 1; Stop 5 1]
  /\ map (fun n => want (sp_run (firstn n ops)) 5 1) [2; 3; 4; 5; 6]%nat = [false; true; false; true; false].
Proof. vm_compute. split; reflexivity. Qed.

(* Non-vacuity of the restriction theorem: And intersects, Or unions. *)
Example c07_restrictions_example :
  restrictions (SAnd [SIn [97] [[120]; [121]]; SOr [SEq [97] [121]; SEq [97] [122]]; SNot (SHas [98])])
  = [([98], {| r_present := false; r_absent := true; r_vals := None |});
     ([97], {| r_present := true; r_absent := false; r_vals := Some [[121]] |})].
Proof. vm_compute. reflexivity. Qed.

(* Non-vacuity for the name/value index and iterEndpointCandidates: endpoints 1 (a=x, parent 7), 2 (a=y, parent 7),
   3 (no labels, parent 8); parent 7 has b=y, parent 8 has b=z.  For  a == "x" && b == "y"  the endpoint index
   narrows to endpoint 1; for  b == "y"  (a label only parents carry) the parent strategy yields 7's children. *)
Example c07_iter_example :
  let a := [97] in let b := [98] in let vx := [120] in let vy := [121] in let vz := [122] in
  let x := np_of [(1, ([(a, vx)], [7])); (2, ([(a, vy)], [7])); (3, ([], [8]))] [(7, [(b, vy)]); (8, [(b, vz)])] in
  snd (nv_scan (np_eps x) a {| r_present := true; r_absent := false; r_vals := Some [vx; vz] |}) = [1]
  /\ iter_candidates pest_exact x (restrictions_f (SAnd [SEq a vx; SEq b vy])) = [1]
  /\ iter_candidates pest_exact x (restrictions_f (SEq b vy)) = [1; 2]
  /\ iter_candidates pest_exact x (restrictions_f (SEq b vx)) = [].
Proof. vm_compute. repeat split; reflexivity. Qed.
