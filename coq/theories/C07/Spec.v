(* C07 — specification level.  What the property text says, written without reference to the index
   structures of the code, plus the boolean oracles applied to the IMPLEMENTATION's observables, the `case`
   type written by the Go driver and `check_case`.

   1. (index exact)   a selector matches an item exactly when the selector evaluates to true on the item's
                      effective labels (own labels first, then the parents' labels in order);
   2. (alternation)   per (selector,item) the callbacks go start, stop, start, ... beginning with a start;
   3. (restrictions)  whenever a selector evaluates to true on a label map, that map satisfies the selector's
                      LabelRestrictions;
   4. (candidates)    a candidate scan never omits a selector (resp. item) whose selector evaluates to true
                      (resp. whose own labels satisfy the restriction). *)
From Coq Require Import List NArith Bool Arith.
From Verif.Common Require Import Labels.
From Verif.C07 Require Import Model.
Import ListNotations.
Open Scope N_scope.

(* ------------------------------------------------------------------ 1+2. the index *)

(* the datastore view: what the history of calls says exists now *)
Record sp := { sp_items : list (N * (labels * list N));    (* item -> own labels, parent ids *)
               sp_parents : list (N * labels);              (* parent -> labels (absent = none) *)
               sp_sels : list (N * ast) }.
Definition sp_empty : sp := {| sp_items := []; sp_parents := []; sp_sels := [] |}.

Definition sp_step (x : sp) (o : op) : sp :=
  match o with
  | OpUpdateLabels i L ps => {| sp_items := nupd i (L, ps) (sp_items x); sp_parents := sp_parents x; sp_sels := sp_sels x |}
  | OpDeleteLabels i => {| sp_items := ndel i (sp_items x); sp_parents := sp_parents x; sp_sels := sp_sels x |}
  | OpUpdateParentLabels p L => {| sp_items := sp_items x; sp_parents := nupd p (odflt [] L) (sp_parents x); sp_sels := sp_sels x |}
  | OpDeleteParentLabels p => {| sp_items := sp_items x; sp_parents := ndel p (sp_parents x); sp_sels := sp_sels x |}
  | OpUpdateSelector s a => {| sp_items := sp_items x; sp_parents := sp_parents x; sp_sels := nupd s a (sp_sels x) |}
  | OpDeleteSelector s => {| sp_items := sp_items x; sp_parents := sp_parents x; sp_sels := ndel s (sp_sels x) |}
  end.
Definition sp_run (ops : list op) : sp := fold_left sp_step ops sp_empty.

Definition sp_parent_labels (x : sp) (p : N) : labels := odflt [] (nlookup p (sp_parents x)).

(* THE specification: should selector s match item i now? *)
Definition want (x : sp) (s i : N) : bool :=
  match nlookup s (sp_sels x), nlookup i (sp_items x) with
  | Some a, Some (L, ps) => matches a L (map (sp_parent_labels x) ps)
  | _, _ => false
  end.

Definition expected (x : sp) : list (N * N) :=
  psort (flat_map (fun s => flat_map (fun i => if want x s i then [(s, i)] else []) (map fst (sp_items x)))
                  (map fst (sp_sels x))).

Definition pair_eqb (a b : N * N) : bool := N.eqb (fst a) (fst b) && N.eqb (snd a) (snd b).
Definition pairs_eqb := list_eqb pair_eqb.
Definition memP (p : N * N) (l : list (N * N)) : bool := existsb (pair_eqb p) l.

(* alternation automaton: `active` = pairs whose last callback was a start *)
Fixpoint alt_run (active : list (N * N)) (evs : list ev) : option (list (N * N)) :=
  match evs with
  | [] => Some active
  | Start s i :: evs' => if memP (s, i) active then None else alt_run ((s, i) :: active) evs'
  | Stop s i :: evs' => if memP (s, i) active
                        then alt_run (filter (fun p => negb (pair_eqb (s, i) p)) active) evs'
                        else None
  end.

(* oracle over the implementation's observations of a whole history *)
Fixpoint ok_trace_from (x : sp) (active : list (N * N)) (ops : list op) (outs : list obs) : bool :=
  match ops, outs with
  | [], [] => true
  | o :: ops', r :: outs' =>
      let x' := sp_step x o in
      match alt_run active (o_events r) with
      | None => false                                                (* two starts / stop without start *)
      | Some active' =>
          pairs_eqb (o_by_sel r) (expected x')                       (* index says match  <->  selector evaluates true *)
          && pairs_eqb (psort active') (o_by_sel r)                  (* callbacks tell the same story as the index *)
          && pairs_eqb (o_by_item r) (psort (map (fun p => (snd p, fst p)) (o_by_sel r)))   (* both directions agree *)
          && ok_trace_from x' active' ops' outs'
      end
  | _, _ => false
  end.
Definition ok_trace (ops : list op) (outs : list obs) : bool := ok_trace_from sp_empty [] ops outs.

(* ------------------------------------------------------------------ 3. restrictions *)

Definition is_some {A} (o : option A) : bool := match o with Some _ => true | None => false end.

(* a label's (optional) value satisfies one restriction *)
Definition sat1_b (r : restr) (ov : option bytes) : bool :=
  implb (r_present r) (is_some ov)
  && implb (r_absent r) (negb (is_some ov))
  && match r_vals r with
     | None => true
     | Some vs => match ov with Some v => mem_bytes v vs | None => false end
     end.
Definition satisfies_b (R : rmap) (L : labels) : bool :=
  forallb (fun e => sat1_b (snd e) (lookup (fst e) L)) R.

(* the Prop form used by the theorems *)
Definition sat1 (r : restr) (ov : option bytes) : Prop :=
  (r_present r = true -> ov <> None) /\
  (r_absent r = true -> ov = None) /\
  (forall vs, r_vals r = Some vs -> exists v, ov = Some v /\ In v vs).
Definition satisfies (R : rmap) (L : labels) : Prop :=
  forall ln r, In (ln, r) R -> sat1 r (lookup ln L).

(* ------------------------------------------------------------------ equality of observables *)

Definition ev_eqb (a b : ev) : bool :=
  Bool.eqb (ev_is_start a) (ev_is_start b) && pair_eqb (ev_pair a) (ev_pair b).
Definition obs_eqb (a b : obs) : bool :=
  list_eqb ev_eqb (esort (o_events a)) (esort (o_events b))      (* callback order across pairs follows Go map order *)
  && pairs_eqb (o_by_sel a) (o_by_sel b)
  && pairs_eqb (o_by_item a) (o_by_item b).

Definition subset_b (a b : list bytes) : bool := forallb (fun x => mem_bytes x b) a.
Definition vals_eqb (a b : option (list bytes)) : bool :=
  match a, b with
  | None, None => true
  | Some x, Some y => subset_b x y && subset_b y x
  | _, _ => false
  end.
Definition restr_eqb (a b : restr) : bool :=
  Bool.eqb (r_present a) (r_present b) && Bool.eqb (r_absent a) (r_absent b) && vals_eqb (r_vals a) (r_vals b).
Definition rmap_eqb (A B : rmap) : bool :=
  Nat.eqb (length A) (length B)
  && forallb (fun e => match blookup (fst e) B with Some r => restr_eqb (snd e) r | None => false end) A.

(* exact comparison (value slices in the same order) for the faithful summaries of Model.v section 6 *)
Definition vals_eqb_exact (a b : option (list bytes)) : bool :=
  match a, b with
  | None, None => true
  | Some x, Some y => list_eqb bytes_eqb x y
  | _, _ => false
  end.
Definition rmap_eqb_exact (A B : rmap) : bool :=
  Nat.eqb (length A) (length B)
  && forallb (fun e => match blookup (fst e) B with
                       | Some r => Bool.eqb (r_present (snd e)) (r_present r) && Bool.eqb (r_absent (snd e)) (r_absent r)
                                   && vals_eqb_exact (r_vals (snd e)) (r_vals r)
                       | None => false end) A.

Definition nlist_eqb := list_eqb N.eqb.
Fixpoint nodup_sorted (l : list N) : bool :=
  match l with
  | a :: ((b :: _) as l') => negb (N.eqb a b) && nodup_sorted l'
  | _ => true
  end.

(* ------------------------------------------------------------------ 4. candidate oracles *)

(* restriction index: every selector that evaluates true on L must be among the candidates *)
Fixpoint ok_ri (selsNow : list (N * ast)) (ops : list ri_op) (outs : list (list N)) : bool :=
  match ops with
  | [] => is_nil outs
  | RiAdd id a :: ops' => ok_ri (nupd id a selsNow) ops' outs
  | RiDel id :: ops' => ok_ri (ndel id selsNow) ops' outs
  | RiQuery L :: ops' =>
      match outs with
      | [] => false
      | out :: outs' =>
          forallb (fun e => implb (eval (snd e) L) (memN (fst e) out)) selsNow
          && forallb (fun id => is_some (nlookup id selsNow)) out
          && ok_ri selsNow ops' outs'
      end
  end.

(* name/value index: every stored item whose OWN labels satisfy the restriction must be scanned; nothing is
   scanned twice; only stored items are scanned *)
Fixpoint ok_nv (itemsNow : list (N * labels)) (ops : list nv_op) (outs : list (strat * list N)) : bool :=
  match ops with
  | [] => is_nil outs
  | NvAdd id L :: ops' => ok_nv (nupd id L itemsNow) ops' outs
  | NvRemove id :: ops' => ok_nv (ndel id itemsNow) ops' outs
  | NvQuery l r :: ops' =>
      match outs with
      | [] => false
      | (_, out) :: outs' =>
          forallb (fun e => implb (sat1_b r (lookup l (snd e))) (memN (fst e) out)) itemsNow
          && nodup_sorted out
          && forallb (fun id => is_some (nlookup id itemsNow)) out
          && ok_nv itemsNow ops' outs'
      end
  end.

(* iterEndpointCandidates: every endpoint whose effective labels make the selector true must be a candidate; only
   known endpoints are candidates; none twice *)
Inductive np_op :=
| NpEndpoint (e : N) (L : labels) (ps : list N)
| NpDelEndpoint (e : N)
| NpParent (p : N) (L : labels)
| NpDelParent (p : N)
| NpQuery (a : ast).

Definition np_eff (pars : list (N * labels)) (L : labels) (ps : list N) : labels :=
  effective L (map (fun p => odflt [] (nlookup p pars)) ps).

Fixpoint ok_np (eps : list (N * (labels * list N))) (pars : list (N * labels)) (ops : list np_op) (outs : list (list N)) : bool :=
  match ops with
  | [] => is_nil outs
  | NpEndpoint e L ps :: ops' => ok_np (nupd e (L, ps) eps) pars ops' outs
  | NpDelEndpoint e :: ops' => ok_np (ndel e eps) pars ops' outs
  | NpParent p L :: ops' => ok_np eps (nupd p L pars) ops' outs
  | NpDelParent p :: ops' => ok_np eps (ndel p pars) ops' outs
  | NpQuery a :: ops' =>
      match outs with
      | [] => false
      | out :: outs' =>
          forallb (fun e => implb (eval a (np_eff pars (fst (snd e)) (snd (snd e)))) (memN (fst e) out)) eps
          && nodup_sorted out
          && forallb (fun id => is_some (nlookup id eps)) out
          && ok_np eps pars ops' outs'
      end
  end.

(* the model side: the candidates iterEndpointCandidates may produce, one per iteration order of the restrictions *)
Fixpoint np_model (eps : list (N * (labels * list N))) (pars : list (N * labels)) (ops : list np_op) (outs : list (list N)) : bool :=
  match ops with
  | [] => is_nil outs
  | NpEndpoint e L ps :: ops' => np_model (nupd e (L, ps) eps) pars ops' outs
  | NpDelEndpoint e :: ops' => np_model (ndel e eps) pars ops' outs
  | NpParent p L :: ops' => np_model eps (nupd p L pars) ops' outs
  | NpDelParent p :: ops' => np_model eps (ndel p pars) ops' outs
  | NpQuery a :: ops' =>
      match outs with
      | [] => false
      | out :: outs' =>
          existsb (fun R => nlist_eqb (nsort_dup (iter_candidates pest_exact (np_of eps pars) R)) out) (perms (restrictions_f a))
          && np_model eps pars ops' outs'
      end
  end.

(* ------------------------------------------------------------------ cases written by the Go driver *)

Inductive case :=
| CIdx (ops : list op) (outs : list obs)
    (* a history run on the real InheritIndex; one observation per op *)
| CRestr (a : ast) (real : rmap) (maps : list labels) (evals : list bool)
    (* a parsed selector, its real LabelRestrictions(), label maps and the real Evaluate on each *)
| CRi (ops : list ri_op) (outs : list (list N))
    (* real LabelRestrictionIndex: AllPotentialMatches output (sorted id set) of every query *)
| CNv (ops : list nv_op) (outs : list (strat * list N))
    (* real LabelNameValueIndex: strategy name and sorted scan output of every query *)
| CNp (ops : list np_op) (outs : list (list N))
    (* real SelectorAndNamedPortIndex: sorted output of iterEndpointCandidates for every queried selector *)
| CCrash (ops : list np_op)
    (* the real SelectorAndNamedPortIndex PANICKED while executing this (valid) history *)
| CPanic (stream : bytes).
    (* the real code panicked in one of the other streams (name of the stream) *)

Definition strat_out_eqb (a b : strat * list N) : bool := strat_eqb (fst a) (fst b) && nlist_eqb (snd a) (snd b).

Fixpoint zipb {A B} (f : A -> B -> bool) (a : list A) (b : list B) : bool :=
  match a, b with
  | [], [] => true
  | x :: a', y :: b' => f x y && zipb f a' b'
  | _, _ => false
  end.

Definition check_case (c : case) : bool * bool :=
  match c with
  | CIdx ops outs => (list_eqb obs_eqb (run_obs ord_id empty_st ops) outs, ok_trace ops outs)
  | CRestr a real maps evals =>
      (rmap_eqb (restrictions a) real              (* set-level summaries (section 2 of Model.v) *)
       && rmap_eqb_exact (restrictions_f a) real   (* slice-level summaries: same values in the same order *)
       && list_eqb Bool.eqb (map (eval a) maps) evals,
       zipb (fun L e => implb e (satisfies_b real L)) maps evals)
  | CRi ops outs => (list_eqb nlist_eqb (ri_run ri_empty ops) outs, ok_ri [] ops outs)
  | CNv ops outs => (list_eqb strat_out_eqb (nv_run nv_empty ops) outs, ok_nv [] ops outs)
  | CNp ops outs => (np_model [] [] ops outs, ok_np [] [] ops outs)
  | CCrash _ => (false, false)       (* an index that dies answers no query: never acceptable on a valid history *)
  | CPanic _ => (false, false)
  end.
