(* C07 — proofs. *)
From Coq Require Import List NArith Bool Arith Lia.
From Verif.Common Require Import Labels.
From Verif.C07 Require Import Model Spec.
Import ListNotations.
Open Scope N_scope.

Lemma list_eqb_bytes_eq : forall a b, list_eqb bytes_eqb a b = true -> a = b.
Proof.
  induction a; destruct b; simpl; intros H; try discriminate; auto.
  apply andb_true_iff in H. destruct H as [H1 H2]. apply bytes_eqb_eq in H1. subst. f_equal. auto.
Qed.

Lemma ast_eqb_eq : forall a b, ast_eqb a b = true -> a = b.
Proof.
  induction a using ast_ind_nested; destruct b; simpl; intros E; try discriminate;
    try (apply andb_true_iff in E; destruct E as [E1 E2]; apply bytes_eqb_eq in E1; subst;
         first [ apply bytes_eqb_eq in E2 | apply list_eqb_bytes_eq in E2 ]; subst; reflexivity);
    try reflexivity.
  - apply bytes_eqb_eq in E. subst. reflexivity.
  - f_equal. auto.
  - f_equal. revert xs0 E. induction H; destruct xs0; intros E; try discriminate; auto.
    apply andb_true_iff in E. destruct E as [E1 E2]. f_equal; auto.
  - f_equal. revert xs0 E. induction H; destruct xs0; intros E; try discriminate; auto.
    apply andb_true_iff in E. destruct E as [E1 E2]. f_equal; auto.
Qed.

(* ------------------------------------------------------------------ statements in the form used by Props.v *)
From Coq Require Import Permutation.
From Verif.C07 Require Import MapLemmas AltProofs IdxProofs LiveProofs StepProofs RestrProofs.

Lemma perm_same : forall (ord : nat -> list N -> list N),
  (forall t l, Permutation (ord t l) l) -> forall t l k, In k (ord t l) <-> In k l.
Proof.
  intros ord H t l k. split; intros Hin.
  - apply (Permutation_in k (H t l)). auto.
  - apply (Permutation_in k (Permutation_sym (H t l))). auto.
Qed.

Lemma ast_eqb_sound : forall a b, ast_eqb a b = true -> forall L, eval a L = eval b L.
Proof. intros a b H L. apply ast_eqb_eq in H. subst. auto. Qed.

Theorem index_exact_perm :
  forall (ord : nat -> list N -> list N) (sel_eqb : ast -> ast -> bool),
  (forall t l, Permutation (ord t l) l) ->
  (forall a b, sel_eqb a b = true -> forall L, eval a L = eval b L) ->
  forall ops s i,
    let x := run ord sel_eqb ops in
    rel_mem s i (by_sel x) = want (sp_run ops) s i /\ rel_mem i s (by_item x) = want (sp_run ops) s i.
Proof.
  intros ord sel_eqb Hp Hs ops s i x. split.
  - apply index_exact; auto. apply perm_same. auto.
  - unfold x. rewrite (transp_run ord sel_eqb ops s i). apply index_exact; auto. apply perm_same. auto.
Qed.

Theorem parents_live_perm :
  forall (ord : nat -> list N -> list N) (sel_eqb : ast -> ast -> bool),
  (forall t l, Permutation (ord t l) l) ->
  forall ops i it p,
    let x := run ord sel_eqb ops in
    nlookup i (items x) = Some it -> In p (it_parents it) ->
    exists pa l, nlookup p (parents x) = Some pa /\ pa_items pa = Some l /\ memN i l = true.
Proof.
  intros ord sel_eqb Hp ops i it p x H1 H2.
  apply (parents_live_run ord (perm_same ord Hp) sel_eqb ops i it p H1 H2).
Qed.

Lemma restr_model_meets_spec : forall a maps,
  snd (check_case (CRestr a (restrictions a) maps (map (eval a) maps))) = true.
Proof.
  intros a maps. simpl. induction maps as [|L maps IH]; simpl; auto.
  rewrite IH, andb_true_r. destruct (eval a L) eqn:E; simpl; auto. apply restrictions_sound_b. auto.
Qed.

From Verif.C07 Require Import SortLemmas MeetsProofs.

Theorem model_meets_spec_perm :
  forall (ord : nat -> list N -> list N), (forall t l, Permutation (ord t l) l) ->
  forall ops, ok_trace ops (run_obs ord empty_st ops) = true.
Proof. intros ord Hp ops. apply model_meets_spec. apply perm_same. auto. Qed.
