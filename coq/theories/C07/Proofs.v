(* C07 — proofs. *)
From Coq Require Import List NArith Bool Arith Lia.
From Verif.Common Require Import Labels.
From Verif.C07 Require Import Model Spec.
Import ListNotations.
Open Scope N_scope.

Lemma list_eqb_bytes_eq : forall a b, list_eqb bytes_eqb a b = true -> a = b.
Proof.
  induction a; destruct b; simpl; intros H; try discriminate; auto.
  apply andb_true_iff in H. destruct H as [H1 H2]. apply bytes_eqb_eq in H1. subst. f_equal. auto.
Qed.

Lemma ast_eqb_eq : forall a b, ast_eqb a b = true -> a = b.
Proof.
  induction a using ast_ind_nested; destruct b; simpl; intros E; try discriminate;
    try (apply andb_true_iff in E; destruct E as [E1 E2]; apply bytes_eqb_eq in E1; subst;
         first [ apply bytes_eqb_eq in E2 | apply list_eqb_bytes_eq in E2 ]; subst; reflexivity);
    try reflexivity.
  - apply bytes_eqb_eq in E. subst. reflexivity.
  - f_equal. auto.
  - f_equal. revert xs0 E. induction H; destruct xs0; intros E; try discriminate; auto.
    apply andb_true_iff in E. destruct E as [E1 E2]. f_equal; auto.
  - f_equal. revert xs0 E. induction H; destruct xs0; intros E; try discriminate; auto.
    apply andb_true_iff in E. destruct E as [E1 E2]. f_equal; auto.
Qed.
