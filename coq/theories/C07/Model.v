(* C07 — executable models (definitions only, no proofs) of
     felix/labelindex/label_inheritance_index.go            (InheritIndex)
     libcalico-go/lib/selector/parser/ast.go                (LabelRestrictions of every node type)
     felix/labelindex/labelrestrictionindex/...             (LabelRestrictionIndex)
     felix/labelindex/labelnamevalueindex/...               (LabelNameValueIndex + scan strategies)
   Hand-written; tied to the Go code by the correspondence run (harness/C07).

   Go maps are association lists.  `nupd k v m = (k,v) :: ndel k m`, so a key is bound at most once in every
   reachable state.  Wherever the Go code ranges over a map or set the model asks the ORDER ORACLE
   `ord : nat -> list N -> list N` (indexed by a tick counter kept in the state, so that two iterations over the
   same map may use different orders); the theorems quantify over every oracle that returns a permutation.

   Item/selector/parent identifiers are numbers (the driver maps Go's ids to them). *)
From Coq Require Import List NArith Bool Arith.
From Verif.Common Require Import Labels.
Import ListNotations.
Open Scope N_scope.

(* ------------------------------------------------------------------ finite maps / sets *)

Fixpoint nlookup {A} (k : N) (m : list (N * A)) : option A :=
  match m with
  | [] => None
  | (k', v) :: m' => if N.eqb k k' then Some v else nlookup k m'
  end.
Fixpoint ndel {A} (k : N) (m : list (N * A)) : list (N * A) :=
  match m with
  | [] => []
  | (k', v) :: m' => if N.eqb k k' then ndel k m' else (k', v) :: ndel k m'
  end.
Definition nupd {A} (k : N) (v : A) (m : list (N * A)) : list (N * A) := (k, v) :: ndel k m.

Fixpoint blookup {A} (k : bytes) (m : list (bytes * A)) : option A :=
  match m with
  | [] => None
  | (k', v) :: m' => if bytes_eqb k k' then Some v else blookup k m'
  end.
Fixpoint bdel {A} (k : bytes) (m : list (bytes * A)) : list (bytes * A) :=
  match m with
  | [] => []
  | (k', v) :: m' => if bytes_eqb k k' then bdel k m' else (k', v) :: bdel k m'
  end.
Definition bupd {A} (k : bytes) (v : A) (m : list (bytes * A)) : list (bytes * A) := (k, v) :: bdel k m.

Definition memN (x : N) (l : list N) : bool := existsb (N.eqb x) l.
Definition sadd (x : N) (l : list N) : list N := if memN x l then l else x :: l.
Definition sdel (x : N) (l : list N) : list N := filter (fun y => negb (N.eqb x y)) l.
Definition is_nil {A} (l : list A) : bool := match l with [] => true | _ => false end.
Definition odflt {A} (d : A) (o : option A) : A := match o with Some x => x | None => d end.

(* a binary relation stored the way the Go code stores its match sets: map key -> set, with the key
   removed when its set becomes empty *)
Definition rel := list (N * list N).
Definition rel_mem (a b : N) (r : rel) : bool :=
  match nlookup a r with Some l => memN b l | None => false end.
Definition rel_add (a b : N) (r : rel) : rel := nupd a (sadd b (odflt [] (nlookup a r))) r.
Definition rel_del (a b : N) (r : rel) : rel :=
  match nlookup a r with
  | None => r
  | Some l => let l' := sdel b l in if is_nil l' then ndel a r else nupd a l' r
  end.

(* ================================================================== 1. InheritIndex *)

Record item := { it_labels : labels; it_parents : list N }.
(* parentData: labels may be Nil (None), itemIDs may be nil (None) *)
Record parent := { pa_labels : option labels; pa_items : option (list N) }.

Inductive ev := Start (s i : N) | Stop (s i : N).

Record st := {
  items : list (N * item);          (* itemDataByID *)
  parents : list (N * parent);      (* parentDataByParentID *)
  sels : list (N * ast);            (* selectorsById *)
  by_sel : rel;                     (* labelIdsBySelId : selector -> items *)
  by_item : rel;                    (* selIdsByLabelId : item -> selectors *)
  log : list ev;                    (* every callback so far, oldest first *)
  tick : nat                        (* number of map iterations performed so far *)
}.

Definition empty_st : st :=
  {| items := []; parents := []; sels := []; by_sel := []; by_item := []; log := []; tick := 0 |}.

Definition set_items v s := {| items := v; parents := parents s; sels := sels s; by_sel := by_sel s; by_item := by_item s; log := log s; tick := tick s |}.
Definition set_parents v s := {| items := items s; parents := v; sels := sels s; by_sel := by_sel s; by_item := by_item s; log := log s; tick := tick s |}.
Definition set_sels v s := {| items := items s; parents := parents s; sels := v; by_sel := by_sel s; by_item := by_item s; log := log s; tick := tick s |}.
Definition set_tick v s := {| items := items s; parents := parents s; sels := sels s; by_sel := by_sel s; by_item := by_item s; log := log s; tick := v |}.

(* storeMatch / deleteMatch *)
Definition store_match (s i : N) (x : st) : st :=
  if rel_mem s i (by_sel x) then x
  else {| items := items x; parents := parents x; sels := sels x;
          by_sel := rel_add s i (by_sel x); by_item := rel_add i s (by_item x);
          log := log x ++ [Start s i]; tick := tick x |}.
Definition delete_match (s i : N) (x : st) : st :=
  if rel_mem s i (by_sel x)
  then {| items := items x; parents := parents x; sels := sels x;
          by_sel := rel_del s i (by_sel x); by_item := rel_del i s (by_item x);
          log := log x ++ [Stop s i]; tick := tick x |}
  else x.

(* itemData.GetHandle: own labels, then each parent's labels in order *)
Definition parent_labels (x : st) (p : N) : labels :=
  match nlookup p (parents x) with
  | Some pa => odflt [] (pa_labels pa)
  | None => []
  end.
Definition item_eff (x : st) (it : item) : labels :=
  effective (it_labels it) (map (parent_labels x) (it_parents it)).

Definition update_matches (s : N) (a : ast) (i : N) (it : item) (x : st) : st :=
  if eval a (item_eff x it) then store_match s i x else delete_match s i x.

Section Idx.
  Variable ord : nat -> list N -> list N.        (* Go map/set iteration order *)
  Variable sel_eqb : ast -> ast -> bool.         (* Selector.Equal (compares UniqueID hashes) *)

  Definition ranged (x : st) (l : list N) : list N * st := (ord (tick x) l, set_tick (S (tick x)) x).

  Definition scan_all_selectors (i : N) (x : st) : st :=
    match nlookup i (items x) with
    | None => x
    | Some it =>
        let '(ks, x1) := ranged x (map fst (sels x)) in
        fold_left (fun y s => match nlookup s (sels y) with
                              | Some a => update_matches s a i it y
                              | None => y end) ks x1
    end.

  Definition scan_all_labels (s : N) (a : ast) (x : st) : st :=
    let '(ks, x1) := ranged x (map fst (items x)) in
    fold_left (fun y i => match nlookup i (items y) with
                          | Some it => update_matches s a i it y
                          | None => y end) ks x1.

  (* one round of the flushUpdates loop *)
  Definition flush_item (i : N) (x : st) : st :=
    match nlookup i (items x) with
    | None =>
        match nlookup i (by_item x) with
        | None => x
        | Some ss => let '(ks, x1) := ranged x ss in fold_left (fun y s => delete_match s i y) ks x1
        end
    | Some _ => scan_all_selectors i x
    end.

  Definition flush (dirty : list N) (x : st) : st :=
    let '(ks, x1) := ranged x dirty in fold_left (fun y i => flush_item i y) ks x1.

  Definition get_or_create_parent (p : N) (x : st) : st :=
    match nlookup p (parents x) with
    | Some _ => x
    | None => set_parents (nupd p {| pa_labels := None; pa_items := None |} (parents x)) x
    end.

  Definition discard_parent_if_empty (p : N) (x : st) : st :=
    match nlookup p (parents x) with
    | Some {| pa_labels := None; pa_items := None |} => set_parents (ndel p (parents x)) x
    | _ => x
    end.

  Definition on_item_parents_update (i : N) (olds news : list N) (x : st) : st :=
    let x1 := fold_left (fun y p =>
                if memN p news then y else
                match nlookup p (parents y) with
                | None => y
                | Some pa =>
                    let its := sdel i (odflt [] (pa_items pa)) in
                    let pa' := {| pa_labels := pa_labels pa; pa_items := if is_nil its then None else Some its |} in
                    discard_parent_if_empty p (set_parents (nupd p pa' (parents y)) y)
                end) olds x in
    fold_left (fun y p =>
                match nlookup p (parents y) with
                | None => y
                | Some pa => set_parents (nupd p {| pa_labels := pa_labels pa;
                                                    pa_items := Some (sadd i (odflt [] (pa_items pa))) |} (parents y)) y
                end) news x1.

  Definition old_parents (i : N) (x : st) : list N :=
    match nlookup i (items x) with Some it => it_parents it | None => [] end.

  (* UpdateLabels.  (The reflect.DeepEqual early return compares []*parentData with []string and therefore
     never fires; an update is always processed.) *)
  Definition update_labels (i : N) (L : labels) (pids : list N) (x : st) : st :=
    let olds := old_parents i x in
    let x1 := fold_left (fun y p => get_or_create_parent p y) pids x in
    let x2 := set_items (nupd i {| it_labels := L; it_parents := pids |} (items x1)) x1 in
    let x3 := on_item_parents_update i olds pids x2 in
    flush [i] x3.

  Definition delete_labels (i : N) (x : st) : st :=
    let olds := old_parents i x in
    let x1 := set_items (ndel i (items x)) x in
    let x2 := on_item_parents_update i olds [] x1 in
    flush [i] x2.

  Definition children (p : N) (x : st) : list N :=
    match nlookup p (parents x) with
    | Some pa => odflt [] (pa_items pa)
    | None => []
    end.
  Definition flush_children (p : N) (x : st) : st := flush (children p x) x.

  (* UpdateParentLabels: uniquelabels.Make(nil) is the Nil map (None), anything else is non-Nil *)
  Definition update_parent_labels (p : N) (L : option labels) (x : st) : st :=
    let x1 := get_or_create_parent p x in
    let x2 := match nlookup p (parents x1) with
              | Some pa => set_parents (nupd p {| pa_labels := L; pa_items := pa_items pa |} (parents x1)) x1
              | None => x1 end in
    flush_children p x2.

  Definition delete_parent_labels (p : N) (x : st) : st :=
    match nlookup p (parents x) with
    | None => x
    | Some pa =>
        let x1 := set_parents (nupd p {| pa_labels := None; pa_items := pa_items pa |} (parents x)) x in
        flush_children p (discard_parent_if_empty p x1)
    end.

  Definition update_selector (s : N) (a : ast) (x : st) : st :=
    if match nlookup s (sels x) with Some old => sel_eqb old a | None => false end then x
    else let x1 := scan_all_labels s a x in set_sels (nupd s a (sels x1)) x1.

  Definition delete_selector (s : N) (x : st) : st :=
    let x1 := match nlookup s (by_sel x) with
              | None => x
              | Some is => let '(ks, x0) := ranged x is in fold_left (fun y i => delete_match s i y) ks x0
              end in
    set_sels (ndel s (sels x1)) x1.

  Inductive op :=
  | OpUpdateLabels (i : N) (L : labels) (pids : list N)
  | OpDeleteLabels (i : N)
  | OpUpdateParentLabels (p : N) (L : option labels)
  | OpDeleteParentLabels (p : N)
  | OpUpdateSelector (s : N) (a : ast)
  | OpDeleteSelector (s : N).

  Definition step (x : st) (o : op) : st :=
    match o with
    | OpUpdateLabels i L pids => update_labels i L pids x
    | OpDeleteLabels i => delete_labels i x
    | OpUpdateParentLabels p L => update_parent_labels p L x
    | OpDeleteParentLabels p => delete_parent_labels p x
    | OpUpdateSelector s a => update_selector s a x
    | OpDeleteSelector s => delete_selector s x
    end.

  Definition run (ops : list op) : st := fold_left step ops empty_st.
  Definition run_from (x : st) (ops : list op) : st := fold_left step ops x.
End Idx.

(* structural equality of selector ASTs: the executable stand-in for Selector.Equal *)
Section ListEqb.
  Context {A : Type} (f : A -> A -> bool).
  Fixpoint list_eqb (a b : list A) : bool :=
    match a, b with
    | [], [] => true
    | x :: a', y :: b' => f x y && list_eqb a' b'
    | _, _ => false
    end.
End ListEqb.

Fixpoint ast_eqb (a b : ast) : bool :=
  match a, b with
  | SEq l v, SEq l' v' => bytes_eqb l l' && bytes_eqb v v'
  | SNe l v, SNe l' v' => bytes_eqb l l' && bytes_eqb v v'
  | SContains l v, SContains l' v' => bytes_eqb l l' && bytes_eqb v v'
  | SStartsWith l v, SStartsWith l' v' => bytes_eqb l l' && bytes_eqb v v'
  | SEndsWith l v, SEndsWith l' v' => bytes_eqb l l' && bytes_eqb v v'
  | SIn l vs, SIn l' vs' => bytes_eqb l l' && list_eqb bytes_eqb vs vs'
  | SNotIn l vs, SNotIn l' vs' => bytes_eqb l l' && list_eqb bytes_eqb vs vs'
  | SHas l, SHas l' => bytes_eqb l l'
  | SAll, SAll => true
  | SGlobal, SGlobal => true
  | SNot x, SNot y => ast_eqb x y
  | SAnd xs, SAnd ys => (fix go (xs ys : list ast) : bool :=
                           match xs, ys with
                           | [], [] => true
                           | x :: xs', y :: ys' => ast_eqb x y && go xs' ys'
                           | _, _ => false
                           end) xs ys
  | SOr xs, SOr ys => (fix go (xs ys : list ast) : bool :=
                           match xs, ys with
                           | [], [] => true
                           | x :: xs', y :: ys' => ast_eqb x y && go xs' ys'
                           | _, _ => false
                           end) xs ys
  | _, _ => false
  end.

Definition ord_id : nat -> list N -> list N := fun _ l => l.

(* ---- observables of one operation: callbacks fired during it + both match maps afterwards, canonicalised *)

Definition pair_leb (a b : N * N) : bool :=
  N.ltb (fst a) (fst b) || (N.eqb (fst a) (fst b) && N.leb (snd a) (snd b)).
Fixpoint pinsert (a : N * N) (l : list (N * N)) : list (N * N) :=
  match l with
  | [] => [a]
  | b :: l' => if pair_leb a b then a :: l else b :: pinsert a l'
  end.
Definition psort (l : list (N * N)) : list (N * N) := fold_right pinsert [] l.

Definition ev_pair (e : ev) : N * N := match e with Start s i | Stop s i => (s, i) end.
Definition ev_is_start (e : ev) : bool := match e with Start _ _ => true | Stop _ _ => false end.
Definition ev_leb (a b : ev) : bool :=
  let pa := ev_pair a in let pb := ev_pair b in
  if (N.eqb (fst pa) (fst pb) && N.eqb (snd pa) (snd pb))
  then (ev_is_start a || negb (ev_is_start b))      (* Start before Stop on the same pair *)
  else pair_leb pa pb.
Fixpoint einsert (a : ev) (l : list ev) : list ev :=
  match l with
  | [] => [a]
  | b :: l' => if ev_leb a b then a :: l else b :: einsert a l'
  end.
Definition esort (l : list ev) : list ev := fold_right einsert [] l.

Definition rel_pairs (r : rel) : list (N * N) := flat_map (fun '(a, l) => map (fun b => (a, b)) l) r.

Record obs := { o_events : list ev;           (* callbacks of this op in the order they fired *)
                o_by_sel : list (N * N);      (* (selector, item) pairs, sorted *)
                o_by_item : list (N * N) }.   (* (item, selector) pairs, sorted *)

Definition new_events (before after : st) : list ev := skipn (length (log before)) (log after).

Definition observe (before after : st) : obs :=
  {| o_events := new_events before after;
     o_by_sel := psort (rel_pairs (by_sel after));
     o_by_item := psort (rel_pairs (by_item after)) |}.

Fixpoint run_obs (ord : nat -> list N -> list N) (x : st) (ops : list op) : list obs :=
  match ops with
  | [] => []
  | o :: ops' => let x' := step ord ast_eqb x o in observe x x' :: run_obs ord x' ops'
  end.

(* ================================================================== 2. LabelRestrictions *)

Record restr := { r_present : bool; r_absent : bool; r_vals : option (list bytes) }.
Definition rmap := list (bytes * restr).
Definition r_zero : restr := {| r_present := false; r_absent := false; r_vals := None |}.

(* intersectStringSlicesInPlace / unionStringSlicesInPlace, as sets *)
Definition inter_vals (a b : list bytes) : list bytes := filter (fun x => mem_bytes x b) a.
Definition union_vals (a b : list bytes) : list bytes := a ++ filter (fun x => negb (mem_bytes x a)) b.

(* AndNode: fold one operand's restrictions into the accumulator *)
Definition and_entry (lr : rmap) (e : bytes * restr) : rmap :=
  let '(ln, r) := e in
  let base := odflt r_zero (blookup ln lr) in
  bupd ln {| r_present := r_present base || r_present r;
             r_absent := r_absent base || r_absent r;
             r_vals := match r_vals base with
                       | None => r_vals r
                       | Some a => match r_vals r with None => Some a | Some b => Some (inter_vals a b) end
                       end |} lr.
Definition and_merge (lr opLR : rmap) : rmap := fold_left and_entry opLR lr.

(* OrNode: weaken the accumulator by one operand's restrictions *)
Definition or_entry (opLR : rmap) (e : bytes * restr) : rmap :=
  let '(ln, r) := e in
  let opr := odflt r_zero (blookup ln opLR) in
  let mp := r_present r && r_present opr in
  let vals := if mp then match r_vals r, r_vals opr with
                         | Some a, Some b => Some (union_vals a b)
                         | _, _ => None end
              else None in
  let ma := r_absent r && r_absent opr in
  if mp || ma then [(ln, {| r_present := mp; r_absent := ma; r_vals := vals |})] else [].
Definition or_merge (lr opLR : rmap) : rmap := flat_map (or_entry opLR) lr.

Definition present_only (l : bytes) : rmap := [(l, {| r_present := true; r_absent := false; r_vals := None |})].

Fixpoint restrictions (a : ast) : rmap :=
  match a with
  | SEq l v => [(l, {| r_present := true; r_absent := false; r_vals := Some [v] |})]
  | SContains l _ | SStartsWith l _ | SEndsWith l _ | SHas l => present_only l
  (* `l in {}` has a nil StringSet, so SliceCopy gives nil: no value restriction *)
  | SIn l vs => [(l, {| r_present := true; r_absent := false; r_vals := if is_nil vs then None else Some vs |})]
  | SNe _ _ | SNotIn _ _ | SAll | SGlobal => []
  | SNot (SHas l) => [(l, {| r_present := false; r_absent := true; r_vals := None |})]
  | SNot _ => []
  | SAnd xs => fold_left (fun lr x => and_merge lr (restrictions x)) xs []
  | SOr [] => []
  | SOr (x :: xs) => fold_left (fun lr y => or_merge lr (restrictions y)) xs (restrictions x)
  end.

Definition possible (r : restr) : bool :=
  negb (r_present r && r_absent r) && negb (match r_vals r with Some [] => true | _ => false end).

(* ================================================================== 2b. the value slices, as the Go code handles them
   (parser/stringset.go ConvertToStringSetInPlace + StringSet.Contains, ast.go intersectStringSlicesInPlace /
   unionStringSlicesInPlace).  Section 2 treats MustHaveOneOfValues as a set; here the slices keep their order,
   the membership test is the binary search of sort.Search, and the in-place sort/de-duplication is spelled out.
   `restrictions_g` is LabelRestrictions over arbitrary intersection/union functions; `restrictions_f` instantiates
   it with the faithful ones. *)

Definition bytes_leb (a b : bytes) : bool := negb (bytes_ltb b a).

(* sort.Slice(s, less = Value() <): the ascending arrangement (equal handles are indistinguishable) *)
Fixpoint binsert (a : bytes) (l : list bytes) : list bytes :=
  match l with
  | [] => [a]
  | b :: l' => if bytes_leb a b then a :: l else b :: binsert a l'
  end.
Definition bsort (l : list bytes) : list bytes := fold_right binsert [] l.

(* the de-duplication loop of ConvertToStringSetInPlace: keep an element unless it equals the last one kept *)
Fixpoint dedup_adj (l : list bytes) : list bytes :=
  match l with
  | a :: ((b :: _) as l') => if bytes_eqb a b then dedup_adj l' else a :: dedup_adj l'
  | _ => l
  end.
Definition to_set_f (s : list bytes) : list bytes := dedup_adj (bsort s).

(* sort.Search(n, f): smallest index in [0,n] with f true, by bisection; f i = (ss[i] >= s) *)
Fixpoint bsearch (fuel lo hi : nat) (ss : list bytes) (s : bytes) : nat :=
  match fuel with
  | O => lo
  | S f =>
      if Nat.ltb lo hi then
        let h := Nat.div2 (lo + hi) in
        if bytes_leb s (nth h ss []) then bsearch f lo h ss s else bsearch f (S h) hi ss s
      else lo
  end.
(* StringSet.Contains *)
Definition contains_bs (ss : list bytes) (s : bytes) : bool :=
  let i := bsearch (S (length ss)) 0 (length ss) ss s in
  Nat.ltb i (length ss) && bytes_eqb (nth i ss []) s.

(* intersectStringSlicesInPlace(a, b): a filtered (order kept) by binary search in the sorted, de-duplicated b *)
Definition inter_f (a b : list bytes) : list bytes := let bs := to_set_f b in filter (contains_bs bs) a.

(* unionStringSlicesInPlace(a, b): a is sorted and de-duplicated IN PLACE (the slice header keeps its length, so what
   follows the de-duplicated prefix is the tail of the sorted array), then the values of b the prefix lacks are appended *)
Definition union_f (a b : list bytes) : list bytes :=
  let sa := bsort a in
  let k := dedup_adj sa in
  (k ++ skipn (length k) sa) ++ filter (fun v => negb (contains_bs k v)) b.

(* the seeded variant of intersectStringSlicesInPlace that binary-searches b WITHOUT sorting it first *)
Definition inter_nosort (a b : list bytes) : list bytes := filter (contains_bs b) a.

Section RGen.
  Variable inter union : list bytes -> list bytes -> list bytes.

  Definition and_entry_g (lr : rmap) (e : bytes * restr) : rmap :=
    let '(ln, r) := e in
    let base := odflt r_zero (blookup ln lr) in
    bupd ln {| r_present := r_present base || r_present r;
               r_absent := r_absent base || r_absent r;
               r_vals := match r_vals base with
                         | None => r_vals r
                         | Some a => match r_vals r with None => Some a | Some b => Some (inter a b) end
                         end |} lr.
  Definition and_merge_g (lr opLR : rmap) : rmap := fold_left and_entry_g opLR lr.

  Definition or_entry_g (opLR : rmap) (e : bytes * restr) : rmap :=
    let '(ln, r) := e in
    let opr := odflt r_zero (blookup ln opLR) in
    let mp := r_present r && r_present opr in
    let vals := if mp then match r_vals r, r_vals opr with
                           | Some a, Some b => Some (union a b)
                           | _, _ => None end
                else None in
    let ma := r_absent r && r_absent opr in
    if mp || ma then [(ln, {| r_present := mp; r_absent := ma; r_vals := vals |})] else [].
  Definition or_merge_g (lr opLR : rmap) : rmap := flat_map (or_entry_g opLR) lr.

  Fixpoint restrictions_g (a : ast) : rmap :=
    match a with
    | SEq l v => [(l, {| r_present := true; r_absent := false; r_vals := Some [v] |})]
    | SContains l _ | SStartsWith l _ | SEndsWith l _ | SHas l => present_only l
    | SIn l vs => [(l, {| r_present := true; r_absent := false; r_vals := if is_nil vs then None else Some vs |})]
    | SNe _ _ | SNotIn _ _ | SAll | SGlobal => []
    | SNot (SHas l) => [(l, {| r_present := false; r_absent := true; r_vals := None |})]
    | SNot _ => []
    | SAnd xs => fold_left (fun lr x => and_merge_g lr (restrictions_g x)) xs []
    | SOr [] => []
    | SOr (x :: xs) => fold_left (fun lr y => or_merge_g lr (restrictions_g y)) xs (restrictions_g x)
    end.
End RGen.

Definition restrictions_f : ast -> rmap := restrictions_g inter_f union_f.
Definition restrictions_nosort : ast -> rmap := restrictions_g inter_nosort union_f.

(* ================================================================== 3. LabelRestrictionIndex *)

Definition max_int : N := 9223372036854775807.
Definition score (r : restr) : N :=
  if negb (possible r) then max_int
  else (if r_present r then 10 else 0)
       + match r_vals r with
         | Some vs => N.max (10000 - N.of_nat (length vs)) 100
         | None => 0
         end.

(* findMostRestrictedLabel: a fold over the restrictions in iteration order *)
Definition better (best : option (bytes * N)) (l : bytes) (sc : N) : bool :=
  match best with
  | None => true
  | Some (bl, bs) => N.ltb bs sc || (N.eqb sc bs && bytes_ltb bl l)
  end.
Definition most_restricted (R : rmap) : option bytes :=
  option_map fst (fold_left (fun best '(l, r) => if better best l (score r) then Some (l, score r) else best) R None).

Inductive sel_class := KImpossible | KValues (l : bytes) (vs : list bytes) | KWild (l : bytes) | KUnopt.
Definition classify_restr (R : rmap) : sel_class :=
  match most_restricted R with
  | None => KUnopt
  | Some l =>
      match blookup l R with
      | None => KUnopt
      | Some r => if negb (possible r) then KImpossible
                  else match r_vals r with
                       | Some vs => KValues l vs
                       | None => if r_present r then KWild l else KUnopt
                       end
      end
  end.
(* the index files a selector by the summaries the Go code computes (section 6) *)
Definition classify (a : ast) : sel_class := classify_restr (restrictions_f a).

(* valuesSubIndex: nil set = [] *)
Record sub := { sb_wild : list N; sb_vals : list (bytes * list N) }.
Definition sub_empty : sub := {| sb_wild := []; sb_vals := [] |}.
Definition sub_is_empty (s : sub) : bool := is_nil (sb_wild s) && is_nil (sb_vals s).
Definition sub_add (v : bytes) (id : N) (s : sub) : sub :=
  {| sb_wild := sb_wild s; sb_vals := bupd v (sadd id (odflt [] (blookup v (sb_vals s)))) (sb_vals s) |}.
Definition sub_remove (v : bytes) (id : N) (s : sub) : sub :=
  match blookup v (sb_vals s) with
  | None => s
  | Some ids => let ids' := sdel id ids in
                {| sb_wild := sb_wild s;
                   sb_vals := if is_nil ids' then bdel v (sb_vals s) else bupd v ids' (sb_vals s) |}
  end.

Record ri := { ri_sels : list (N * ast); ri_idx : list (bytes * sub); ri_unopt : list N }.
Definition ri_empty : ri := {| ri_sels := []; ri_idx := []; ri_unopt := [] |}.

Definition ri_put (l : bytes) (s : sub) (idx : list (bytes * sub)) : list (bytes * sub) :=
  if sub_is_empty s then bdel l idx else bupd l s idx.

Definition ri_unregister (id : N) (k : sel_class) (x : ri) : ri :=
  match k with
  | KImpossible => x
  | KValues l vs =>
      match blookup l (ri_idx x) with
      | None => x     (* Go would dereference a nil *valuesSubIndex here; unreachable (Proofs) *)
      | Some s => {| ri_sels := ri_sels x;
                     ri_idx := ri_put l (fold_left (fun s v => sub_remove v id s) vs s) (ri_idx x);
                     ri_unopt := ri_unopt x |}
      end
  | KWild l =>
      match blookup l (ri_idx x) with
      | None => x
      | Some s => {| ri_sels := ri_sels x;
                     ri_idx := ri_put l {| sb_wild := sdel id (sb_wild s); sb_vals := sb_vals s |} (ri_idx x);
                     ri_unopt := ri_unopt x |}
      end
  | KUnopt => {| ri_sels := ri_sels x; ri_idx := ri_idx x; ri_unopt := sdel id (ri_unopt x) |}
  end.

Definition ri_delete (id : N) (x : ri) : ri :=
  match nlookup id (ri_sels x) with
  | None => x
  | Some a => let x1 := ri_unregister id (classify a) x in
              {| ri_sels := ndel id (ri_sels x1); ri_idx := ri_idx x1; ri_unopt := ri_unopt x1 |}
  end.

Definition ri_register (id : N) (k : sel_class) (x : ri) : ri :=
  match k with
  | KImpossible => x
  | KValues l vs =>
      {| ri_sels := ri_sels x;
         ri_idx := fold_left (fun idx v => bupd l (sub_add v id (odflt sub_empty (blookup l idx))) idx) vs (ri_idx x);
         ri_unopt := ri_unopt x |}
  | KWild l =>
      let s := odflt sub_empty (blookup l (ri_idx x)) in
      {| ri_sels := ri_sels x;
         ri_idx := bupd l {| sb_wild := sadd id (sb_wild s); sb_vals := sb_vals s |} (ri_idx x);
         ri_unopt := ri_unopt x |}
  | KUnopt => {| ri_sels := ri_sels x; ri_idx := ri_idx x; ri_unopt := sadd id (ri_unopt x) |}
  end.

Definition ri_add (id : N) (a : ast) (x : ri) : ri :=
  let x1 := ri_delete id x in
  ri_register id (classify a) {| ri_sels := nupd id a (ri_sels x1); ri_idx := ri_idx x1; ri_unopt := ri_unopt x1 |}.

(* AllPotentialMatches: for every (k,v) of the item, wildcard selectors of k and selectors wanting value v; then
   the unoptimised selectors *)
Definition ri_candidates (x : ri) (L : labels) : list N :=
  flat_map (fun '(k, v) => match blookup k (ri_idx x) with
                           | None => []
                           | Some s => sb_wild s ++ odflt [] (blookup v (sb_vals s))
                           end) L
  ++ ri_unopt x.

Inductive ri_op := RiAdd (id : N) (a : ast) | RiDel (id : N) | RiQuery (L : labels).
Definition ri_step (x : ri) (o : ri_op) : ri :=
  match o with RiAdd id a => ri_add id a x | RiDel id => ri_delete id x | RiQuery _ => x end.

(* sorted, duplicate-free list of numbers (canonical form of an id set) *)
Fixpoint ninsert (a : N) (l : list N) : list N :=
  match l with
  | [] => [a]
  | b :: l' => if N.ltb a b then a :: l else if N.eqb a b then l else b :: ninsert a l'
  end.
Definition nsort (l : list N) : list N := fold_right ninsert [] l.

Fixpoint ri_run (x : ri) (ops : list ri_op) : list (list N) :=
  match ops with
  | [] => []
  | RiQuery L :: ops' => nsort (ri_candidates x L) :: ri_run x ops'
  | o :: ops' => ri_run (ri_step x o) ops'
  end.

(* ================================================================== 4. LabelNameValueIndex *)

Record nv := { nv_items : list (N * labels); nv_idx : list (bytes * list (bytes * list N)) }.
Definition nv_empty : nv := {| nv_items := []; nv_idx := [] |}.

Definition nv_add_kv (id : N) (idx : list (bytes * list (bytes * list N))) (kv : bytes * bytes) :=
  let '(k, v) := kv in
  let vals := odflt [] (blookup k idx) in
  bupd k (bupd v (sadd id (odflt [] (blookup v vals))) vals) idx.
Definition nv_del_kv (id : N) (idx : list (bytes * list (bytes * list N))) (kv : bytes * bytes) :=
  let '(k, v) := kv in
  match blookup k idx with
  | None => idx
  | Some vals =>
      let ids' := sdel id (odflt [] (blookup v vals)) in
      let vals' := if is_nil ids' then bdel v vals else bupd v ids' vals in
      if is_nil vals' then bdel k idx else bupd k vals' idx
  end.

(* Add panics when the id is already present: the model leaves the state unchanged (outside the domain) *)
Definition nv_add (id : N) (L : labels) (x : nv) : nv :=
  match nlookup id (nv_items x) with
  | Some _ => x
  | None => {| nv_items := nupd id L (nv_items x); nv_idx := fold_left (nv_add_kv id) L (nv_idx x) |}
  end.
Definition nv_remove (id : N) (x : nv) : nv :=
  match nlookup id (nv_items x) with
  | None => x
  | Some L => {| nv_items := ndel id (nv_items x); nv_idx := fold_left (nv_del_kv id) L (nv_idx x) |}
  end.

Inductive strat := SFull | SNoMatch | SLabelName | SSingle | SMulti.
Definition strat_eqb (a b : strat) : bool :=
  match a, b with
  | SFull, SFull | SNoMatch, SNoMatch | SLabelName, SLabelName | SSingle, SSingle | SMulti, SMulti => true
  | _, _ => false
  end.

(* StrategyFor + Scan: the strategy chosen and the ids it yields *)
Definition nv_scan (x : nv) (l : bytes) (r : restr) : strat * list N :=
  if negb (r_present r) then (SFull, map fst (nv_items x))
  else match r_vals r with
       | None => match blookup l (nv_idx x) with
                 | None => (SNoMatch, [])
                 | Some vals => (SLabelName, flat_map snd vals)
                 end
       | Some vs =>
           let vals := odflt [] (blookup l (nv_idx x)) in
           let sets := flat_map (fun v => match blookup v vals with Some ids => [ids] | None => [] end) vs in
           match sets with
           | [] => (SNoMatch, [])
           | [ids] => (SSingle, ids)
           | _ => (SMulti, nsort (concat sets))       (* set.IterUnion: union without repeats *)
           end
       end.

Inductive nv_op := NvAdd (id : N) (L : labels) | NvRemove (id : N) | NvQuery (l : bytes) (r : restr).
Definition nv_step (x : nv) (o : nv_op) : nv :=
  match o with NvAdd id L => nv_add id L x | NvRemove id => nv_remove id x | NvQuery _ _ => x end.

(* plain sort keeping duplicates (the implementation's scan output is sorted by the driver, repeats kept) *)
Fixpoint ninsert_dup (a : N) (l : list N) : list N :=
  match l with
  | [] => [a]
  | b :: l' => if N.leb a b then a :: l else b :: ninsert_dup a l'
  end.
Definition nsort_dup (l : list N) : list N := fold_right ninsert_dup [] l.

Fixpoint nv_run (x : nv) (ops : list nv_op) : list (strat * list N) :=
  match ops with
  | [] => []
  | NvQuery l r :: ops' => (let '(s, ids) := nv_scan x l r in (s, nsort_dup ids)) :: nv_run x ops'
  | o :: ops' => nv_run (nv_step x o) ops'
  end.

(* ================================================================== 5. iterEndpointCandidates
   (felix/labelindex/named_port_index.go): the pruning step that uses the restriction summaries.  Endpoints are
   indexed by their OWN labels (np_eps), parents by theirs (np_pars); np_children is parent -> endpointIDs.  For
   each restriction, in the iteration order of the restriction map (the list R), the best endpoint strategy and
   the best parent strategy are tracked; a restriction that neither an endpoint nor a parent can meet ends the
   scan with no candidates. *)

(* ScanStrategy.EstimatedItemsToScan of the strategy StrategyFor returns *)
Definition nv_est (x : nv) (l : bytes) (r : restr) : nat :=
  if negb (r_present r) then length (nv_items x)
  else match r_vals r with
       | None => match blookup l (nv_idx x) with
                 | None => 0
                 | Some vals => length (flat_map snd vals)        (* values.count *)
                 end
       | Some vs =>
           let vals := odflt [] (blookup l (nv_idx x)) in
           let sets := flat_map (fun v => match blookup v vals with Some ids => [ids] | None => [] end) vs in
           match sets with
           | [] => 0
           | [ids] => length ids
           | _ => length (concat sets)
           end
       end%nat.

Record np := { np_eps : nv; np_pars : nv; np_children : list (N * list N) }.
Definition np_kids (x : np) (p : N) : list N := odflt [] (nlookup p (np_children x)).

Record best := { b_ep : list N; b_ep_est : nat; b_par : option (list N * nat) }.

Section Iter.
  (* estimateParentEndpointScanCount: how many endpoints a parent scan is expected to touch *)
  Variable pest : np -> list N -> nat.

  Definition iter_step (x : np) (st : option best) (e : bytes * restr) : option best :=
    match st with
    | None => None
    | Some b =>
        let '(k, r) := e in
        let eps := nv_est (np_eps x) k r in
        let pars := nv_est (np_pars x) k r in
        if Nat.ltb 0 eps && Nat.eqb pars 0 then
          Some (if Nat.ltb eps (b_ep_est b)
                then {| b_ep := snd (nv_scan (np_eps x) k r); b_ep_est := eps; b_par := b_par b |} else b)
        else if Nat.eqb eps 0 && Nat.ltb 0 pars then
          let scan := snd (nv_scan (np_pars x) k r) in
          let pe := pest x scan in
          Some (if match b_par b with None => true | Some (_, old) => Nat.ltb pe old end
                then {| b_ep := b_ep b; b_ep_est := b_ep_est b; b_par := Some (scan, pe) |} else b)
        else if Nat.ltb 0 pars && Nat.ltb 0 eps then Some b
        else None
    end.

  Definition iter_candidates (x : np) (R : rmap) : list N :=
    match fold_left (iter_step x) R
            (Some {| b_ep := map fst (nv_items (np_eps x)); b_ep_est := length (nv_items (np_eps x)); b_par := None |}) with
    | None => []
    | Some b =>
        match b_par b with
        | None => b_ep b
        | Some (scan, pe) => if Nat.leb (b_ep_est b) pe then b_ep b else nsort (flat_map (np_kids x) scan)
        end
    end.
End Iter.

(* exact when the parent scan yields at most 10 parents (the only case the driver produces) *)
Definition pest_exact (x : np) (scan : list N) : nat :=
  fold_left (fun n p => (n + length (np_kids x p))%nat) scan 0%nat.

(* build the index contents from plain data: endpoints (own labels, parent ids) and parent labels *)
Definition np_of (eps : list (N * (labels * list N))) (pars : list (N * labels)) : np :=
  let named := nsort (flat_map (fun e => snd (snd e)) eps ++ map fst pars) in
  {| np_eps := fold_left (fun x e => nv_add (fst e) (fst (snd e)) x) eps nv_empty;
     np_pars := fold_left (fun x p => nv_add p (odflt [] (nlookup p pars)) x) named nv_empty;
     np_children := map (fun p => (p, nsort (flat_map (fun e => if memN p (snd (snd e)) then [fst e] else []) eps))) named |}.

(* all orders in which a (small) restriction map may be ranged *)
Fixpoint insert_all {A} (a : A) (l : list A) : list (list A) :=
  match l with
  | [] => [[a]]
  | b :: l' => (a :: l) :: map (cons b) (insert_all a l')
  end.
Fixpoint perms {A} (l : list A) : list (list A) :=
  match l with
  | [] => [[]]
  | a :: l' => flat_map (insert_all a) (perms l')
  end.
