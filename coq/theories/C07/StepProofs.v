(* C07 — every operation of the InheritIndex model re-establishes "match map = direct evaluation", and the model's
   copy of the data refines the specification state of Spec.v.  Holds for every iteration-order oracle that
   enumerates exactly the elements it is given and every selector-equality test that implies equal evaluation. *)
From Coq Require Import List NArith Bool Arith Lia.
From Verif.Common Require Import Labels.
From Verif.C07 Require Import Model Spec MapLemmas AltProofs IdxProofs LiveProofs.
Import ListNotations.
Open Scope N_scope.

Local Arguments nupd : simpl never.
Local Arguments ndel : simpl never.
Local Arguments nlookup : simpl never.

Definition same_match (x y : st) : Prop := by_sel x = by_sel y /\ by_item x = by_item y.
Lemma sm_refl : forall x, same_match x x. Proof. split; auto. Qed.
Lemma sm_trans : forall x y z, same_match x y -> same_match y z -> same_match x z.
Proof. intros x y z [A B] [C D]. split; congruence. Qed.

Lemma sm_goc : forall p x, same_match x (get_or_create_parent p x).
Proof. intros. unfold get_or_create_parent. destruct (nlookup p (parents x)); split; auto. Qed.
Lemma sm_discard : forall p x, same_match x (discard_parent_if_empty p x).
Proof. intros. unfold discard_parent_if_empty. destruct (nlookup p (parents x)) as [[[|] [|]]|]; split; auto. Qed.
Lemma sm_old_body : forall i news y p, same_match y (old_body i news y p).
Proof.
  intros. unfold old_body. destruct (memN p news); [apply sm_refl|].
  destruct (nlookup p (parents y)); [|apply sm_refl].
  eapply sm_trans; [|apply sm_discard]. split; auto.
Qed.
Lemma sm_new_body : forall i y p, same_match y (new_body i y p).
Proof. intros. unfold new_body. destruct (nlookup p (parents y)); split; auto. Qed.
Lemma sm_fold : forall B (f : st -> B -> st) l x, (forall y k, same_match y (f y k)) -> same_match x (fold_left f l x).
Proof. induction l; simpl; intros; [apply sm_refl|]. eapply sm_trans; [apply H|]. apply IHl. auto. Qed.
Lemma sm_oipu : forall i olds news x, same_match x (on_item_parents_update i olds news x).
Proof.
  intros. unfold on_item_parents_update.
  change (fold_left _ news (fold_left _ olds x))
    with (fold_left (new_body i) news (fold_left (old_body i news) olds x)).
  eapply sm_trans; apply sm_fold; intros; [apply sm_old_body|apply sm_new_body].
Qed.

Lemma transp_sm : forall x y, same_match x y -> transp_inv x -> transp_inv y.
Proof. intros x y [A B] H s i. rewrite <- A, <- B. auto. Qed.

Lemma item_eff_plabels : forall x y it,
  (forall p, In p (it_parents it) -> parent_labels x p = parent_labels y p) -> item_eff x it = item_eff y it.
Proof. intros. unfold item_eff. f_equal. apply map_ext_in. auto. Qed.

Lemma wantm_agree : forall x y s i,
  sels x = sels y -> nlookup i (items x) = nlookup i (items y) ->
  (forall it p, nlookup i (items x) = Some it -> In p (it_parents it) -> parent_labels x p = parent_labels y p) ->
  wantm x s i = wantm y s i.
Proof.
  intros x y s i Es Ei Hp. unfold wantm. rewrite <- Es, <- Ei.
  destruct (nlookup s (sels x)); auto. destruct (nlookup i (items x)) as [it|] eqn:E; auto.
  rewrite (item_eff_plabels x y it); auto. intros. eapply Hp; eauto.
Qed.

Lemma parents_live_same : forall x y, items x = items y -> parents x = parents y -> parents_live x -> parents_live y.
Proof.
  intros x y Ei Ep H i it p H1 H2. rewrite <- Ei in H1. eapply child_same_parents; eauto.
Qed.

Definition Inv (x : st) : Prop := exact x /\ transp_inv x /\ parents_live x.

Lemma exact_sel_known : forall x, exact x -> sel_known x.
Proof.
  intros x H s i Hm. rewrite H in Hm. unfold wantm in Hm. destruct (nlookup s (sels x)); congruence.
Qed.

Section Step.
  Variable ord : nat -> list N -> list N.
  Hypothesis ord_same : forall t l k, In k (ord t l) <-> In k l.
  Variable sel_eqb : ast -> ast -> bool.

  (* finishing an operation: the data is final, every item whose answer may have changed is dirty *)
  Lemma flush_exact : forall d x0,
    transp_inv x0 -> sel_known x0 -> parents_live x0 ->
    (forall s i, memN i d = false -> rel_mem s i (by_sel x0) = wantm x0 s i) ->
    Inv (flush ord d x0) /\ same_data x0 (flush ord d x0).
  Proof.
    intros d x0 HT HK HL HF.
    destruct (flush_spec ord ord_same d x0 HT HK) as [D [HT' [_ M]]].
    split; [|exact D]. split; [|split; auto].
    - intros s i. rewrite M, <- (wantm_same_data x0 _ s i D). destruct (memN i d) eqn:E; auto.
    - destruct D as [Di [Dp _]]. eapply parents_live_same; eauto.
  Qed.

  (* ---- UpdateLabels *)
  Lemma update_labels_spec : forall i L pids x, Inv x ->
    let x' := update_labels ord i L pids x in
    Inv x' /\ items x' = nupd i {| it_labels := L; it_parents := pids |} (items x)
    /\ sels x' = sels x /\ plabels_same x x'.
  Proof.
    intros i L pids x [HE [HT HL]]. unfold update_labels.
    set (olds := old_parents i x).
    set (x1 := fold_left (fun y p => get_or_create_parent p y) pids x).
    set (x2 := set_items (nupd i {| it_labels := L; it_parents := pids |} (items x1)) x1).
    set (x3 := on_item_parents_update i olds pids x2).
    destruct (goc_fold_spec pids x) as [A1 [B1 [C1 [D1 F1]]]]. fold x1 in A1, B1, C1, D1, F1.
    destruct (oipu_spec i olds pids x2) as [A3 [B3 [C3 [F3 G3]]]]. fold x3 in A3, B3, C3, F3, G3.
    assert (SM : same_match x x3).
    { eapply sm_trans; [apply (sm_fold _ (fun y p => get_or_create_parent p y) pids x); intros; apply sm_goc|].
      eapply sm_trans; [|apply sm_oipu]. split; auto. }
    assert (Ei3 : items x3 = nupd i {| it_labels := L; it_parents := pids |} (items x)).
    { rewrite A3. unfold x2. simpl. rewrite A1. auto. }
    assert (Es3 : sels x3 = sels x) by (rewrite B3; unfold x2; simpl; auto).
    assert (PL3 : plabels_same x x3).
    { eapply plabels_same_trans; [exact C1|]. intros p. rewrite <- C3. reflexivity. }
    assert (HL3 : parents_live x3).
    { intros j it p Hj Hp. rewrite Ei3, nlookup_nupd in Hj. destruct (N.eqb j i) eqn:Eji.
      - apply N.eqb_eq in Eji. subst j. inversion Hj; subst it. simpl in Hp.
        apply G3; auto. unfold pexists, x2. simpl. apply D1. auto.
      - apply F3; [intros ->; rewrite N.eqb_refl in Eji; discriminate|].
        apply (child_same_parents x1 x2); auto. apply F1. eapply HL; eauto. }
    destruct (flush_exact [i] x3) as [HI D]; auto.
    - eapply transp_sm; eauto.
    - intros s j Hm. destruct SM as [SM _]. rewrite <- SM in Hm. rewrite Es3. apply (exact_sel_known x HE s j Hm).
    - intros s j Hj. destruct SM as [SM _]. rewrite <- SM, HE. simpl in Hj. rewrite orb_false_r in Hj.
      apply wantm_agree; auto.
      + rewrite Ei3, nlookup_nupd, Hj. auto.
    - split; auto. destruct D as [Di [Dp Ds]]. split; [congruence|]. split; [congruence|].
      intros p. rewrite PL3. unfold parent_labels. rewrite Dp. auto.
  Qed.

  (* ---- DeleteLabels *)
  Lemma delete_labels_spec : forall i x, Inv x ->
    let x' := delete_labels ord i x in
    Inv x' /\ items x' = ndel i (items x) /\ sels x' = sels x /\ plabels_same x x'.
  Proof.
    intros i x [HE [HT HL]]. unfold delete_labels.
    set (olds := old_parents i x).
    set (x1 := set_items (ndel i (items x)) x).
    set (x2 := on_item_parents_update i olds [] x1).
    destruct (oipu_spec i olds [] x1) as [A3 [B3 [C3 [F3 G3]]]]. fold x2 in A3, B3, C3, F3, G3.
    assert (SM : same_match x x2) by (eapply sm_trans; [|apply sm_oipu]; split; auto).
    assert (Ei : items x2 = ndel i (items x)) by (rewrite A3; auto).
    assert (Es : sels x2 = sels x) by (rewrite B3; auto).
    assert (PL : plabels_same x x2) by (intros p; rewrite <- C3; reflexivity).
    assert (HL2 : parents_live x2).
    { intros j it p Hj Hp. rewrite Ei, nlookup_ndel in Hj. destruct (N.eqb j i) eqn:Eji; [discriminate|].
      apply F3; [intros ->; rewrite N.eqb_refl in Eji; discriminate|].
      apply (child_same_parents x x1); auto. eapply HL; eauto. }
    destruct (flush_exact [i] x2) as [HI D]; auto.
    - eapply transp_sm; eauto.
    - intros s j Hm. destruct SM as [SM _]. rewrite <- SM in Hm. rewrite Es. apply (exact_sel_known x HE s j Hm).
    - intros s j Hj. destruct SM as [SM _]. rewrite <- SM, HE. simpl in Hj. rewrite orb_false_r in Hj.
      apply wantm_agree; auto. rewrite Ei, nlookup_ndel, Hj. auto.
    - split; auto. destruct D as [Di [Dp Ds]]. split; [congruence|]. split; [congruence|].
      intros p. rewrite PL. unfold parent_labels. rewrite Dp. auto.
  Qed.

  Lemma child_children : forall x p i, child x p i -> memN i (children p x) = true.
  Proof. intros x p i [pa [l [H1 [H2 H3]]]]. unfold children. rewrite H1, H2. auto. Qed.

  (* flushing the children of p after only p's labels changed *)
  Lemma parent_change_exact : forall p x x0,
    Inv x -> same_match x x0 -> items x0 = items x -> sels x0 = sels x -> parents_live x0 ->
    (forall q, q <> p -> parent_labels x0 q = parent_labels x q) ->
    Inv (flush_children ord p x0) /\ same_data x0 (flush_children ord p x0).
  Proof.
    intros p x x0 [HE [HT HL]] SM Ei Es HL0 Hq. unfold flush_children.
    apply flush_exact; auto.
    - eapply transp_sm; eauto.
    - intros s j Hm. destruct SM as [SM _]. rewrite <- SM in Hm. rewrite Es. apply (exact_sel_known x HE s j Hm).
    - intros s j Hj. destruct SM as [SM _]. rewrite <- SM, HE.
      apply wantm_agree; auto; [rewrite Ei; auto|].
      intros it q Hit Hin. symmetry. apply Hq. intros ->.
      rewrite <- Ei in Hit. apply (HL0 j it p Hit) in Hin. apply child_children in Hin. congruence.
  Qed.

  (* ---- UpdateParentLabels *)
  Lemma update_parent_labels_spec : forall p oL x, Inv x ->
    let x' := update_parent_labels ord p oL x in
    Inv x' /\ items x' = items x /\ sels x' = sels x
    /\ (forall q, parent_labels x' q = if N.eqb q p then odflt [] oL else parent_labels x q).
  Proof.
    intros p oL x HI. pose proof HI as [HE [HT HL]]. unfold update_parent_labels.
    set (x1 := get_or_create_parent p x).
    destruct (goc_spec p x) as [A1 [B1 [C1 [D1 [E1 F1]]]]]. fold x1 in A1, B1, C1, D1, E1, F1.
    destruct (nlookup p (parents x1)) as [pa|] eqn:Ep; [|exfalso; apply D1; auto].
    set (x2 := set_parents (nupd p {| pa_labels := oL; pa_items := pa_items pa |} (parents x1)) x1).
    assert (PLq : forall q, parent_labels x2 q = if N.eqb q p then odflt [] oL else parent_labels x q).
    { intros q. unfold parent_labels at 1. unfold x2. simpl. rewrite nlookup_nupd.
      destruct (N.eqb q p); auto. rewrite C1. reflexivity. }
    assert (HL2 : parents_live x2).
    { intros j it q Hj Hq. assert (Hc : child x1 q j) by (apply F1; eapply HL; eauto; rewrite <- A1; exact Hj).
      destruct Hc as [pa0 [l [H1 [H2 H3]]]]. unfold child, x2. simpl. rewrite nlookup_nupd.
      destruct (N.eqb q p) eqn:Eq.
      - apply N.eqb_eq in Eq. subst q. rewrite Ep in H1. inversion H1; subst pa0.
        eexists. eexists. split; [reflexivity|]. simpl. eauto.
      - exists pa0, l. auto. }
    destruct (parent_change_exact p x x2 HI) as [HI' D]; auto.
    - eapply sm_trans; [apply (sm_goc p)|]. split; auto.
    - intros q Hq. rewrite PLq. destruct (N.eqb q p) eqn:Eq; auto. apply N.eqb_eq in Eq. contradiction.
    - split; auto. destruct D as [Di [Dp Ds]]. split; [rewrite <- Di; auto|]. split; [rewrite <- Ds; auto|].
      intros q. rewrite <- PLq. unfold parent_labels. rewrite Dp. auto.
  Qed.

  (* ---- DeleteParentLabels *)
  Lemma delete_parent_labels_spec : forall p x, Inv x ->
    let x' := delete_parent_labels ord p x in
    Inv x' /\ items x' = items x /\ sels x' = sels x
    /\ (forall q, parent_labels x' q = if N.eqb q p then [] else parent_labels x q).
  Proof.
    intros p x HI. pose proof HI as [HE [HT HL]]. unfold delete_parent_labels.
    destruct (nlookup p (parents x)) as [pa|] eqn:Ep.
    - set (x1 := set_parents (nupd p {| pa_labels := None; pa_items := pa_items pa |} (parents x)) x).
      set (x2 := discard_parent_if_empty p x1).
      destruct (discard_spec p x1) as [A2 [B2 [C2 [D2 F2]]]]. fold x2 in A2, B2, C2, D2, F2.
      assert (PL1 : forall q, parent_labels x1 q = if N.eqb q p then [] else parent_labels x q).
      { intros q. unfold parent_labels at 1. unfold x1. simpl. rewrite nlookup_nupd. destruct (N.eqb q p); auto. }
      assert (HL1 : parents_live x1).
      { intros j it q Hj Hq. destruct (HL j it q Hj Hq) as [pa0 [l [H1 [H2 H3]]]].
        unfold child, x1. simpl. rewrite nlookup_nupd. destruct (N.eqb q p) eqn:Eq.
        - apply N.eqb_eq in Eq. subst q. rewrite Ep in H1. inversion H1; subst pa0.
          eexists. eexists. split; [reflexivity|]. simpl. eauto.
        - exists pa0, l. auto. }
      assert (HL2 : parents_live x2).
      { intros j it q Hj Hq. rewrite A2 in Hj. pose proof (HL1 j it q Hj Hq) as Hc.
        destruct (N.eq_dec q p) as [->|Hqp]; [apply F2; auto|].
        destruct Hc as [pa0 [l [H1 [H2 H3]]]]. exists pa0, l. rewrite D2; auto. }
      destruct (parent_change_exact p x x2 HI) as [HI' D]; auto.
      + eapply sm_trans; [|apply sm_discard]. split; auto.
      + intros q Hq. rewrite <- C2, PL1. destruct (N.eqb q p) eqn:Eq; auto. apply N.eqb_eq in Eq. contradiction.
      + split; auto. destruct D as [Di [Dp Ds]]. split; [rewrite <- Di; auto|]. split; [rewrite <- Ds; auto|].
        intros q. rewrite <- PL1, C2. unfold parent_labels. rewrite Dp. auto.
    - split; auto. split; auto. split; auto. intros q. destruct (N.eqb q p) eqn:Eq; auto.
      apply N.eqb_eq in Eq. subst q. unfold parent_labels. rewrite Ep. auto.
  Qed.

  (* ---- UpdateSelector (the rescanning branch) *)
  Lemma update_selector_scan_spec : forall s a x, Inv x ->
    let x' := set_sels (nupd s a (sels (scan_all_labels ord s a x))) (scan_all_labels ord s a x) in
    Inv x' /\ items x' = items x /\ parents x' = parents x /\ sels x' = nupd s a (sels x).
  Proof.
    intros s a x [HE [HT HL]]. unfold scan_all_labels, ranged.
    change (fold_left _ (ord (tick x) (map fst (items x))) (set_tick (S (tick x)) x))
      with (fold_left (scan_item_body s a) (ord (tick x) (map fst (items x))) (set_tick (S (tick x)) x)).
    set (x1 := fold_left (scan_item_body s a) (ord (tick x) (map fst (items x))) (set_tick (S (tick x)) x)).
    destruct (fold_scan_item s a (ord (tick x) (map fst (items x))) (set_tick (S (tick x)) x)) as [[Di [Dp Ds]] M].
    fold x1 in Di, Dp, Ds, M. simpl in Di, Dp, Ds.
    split; [|simpl; repeat split; congruence].
    split; [|split].
    - intros s' i'. simpl. rewrite M. simpl. rewrite (memN_ord ord ord_same).
      unfold wantm. simpl. rewrite nlookup_nupd, <- Ds, <- Di.
      destruct (N.eqb s' s) eqn:Es; simpl.
      + apply N.eqb_eq in Es. subst s'.
        destruct (nlookup i' (items x)) as [it|] eqn:Eit.
        * assert (Hin : memN i' (map fst (items x)) = true) by (apply memN_In; eapply nlookup_In_fst; eauto).
          rewrite Hin. apply f_equal. unfold item_eff. f_equal. apply map_ext. intros q.
          unfold parent_labels. simpl. rewrite <- Dp. auto.
        * rewrite HE. unfold wantm. rewrite Eit. destruct (nlookup s (sels x)); destruct (memN i' (map fst (items x))); auto.
      + rewrite HE. unfold wantm. destruct (nlookup s' (sels x)); auto. destruct (nlookup i' (items x)) as [it|]; auto.
        apply f_equal. unfold item_eff. f_equal. apply map_ext. intros q. unfold parent_labels. simpl. rewrite <- Dp. auto.
    - apply P_set_sels; [apply transp_ext|]. unfold x1.
      apply fold_left_pres.
      + intros y k Hy. unfold scan_item_body. destruct (nlookup k (items y)); auto.
        apply P_update_matches; auto; [apply transp_store|apply transp_delete].
      + eapply transp_ext; [| | |exact HT]; reflexivity.
    - eapply (parents_live_same x); auto.
  Qed.

  (* ---- DeleteSelector *)
  Lemma delete_selector_spec : forall s x, Inv x ->
    let x' := delete_selector ord s x in
    Inv x' /\ items x' = items x /\ parents x' = parents x /\ sels x' = ndel s (sels x).
  Proof.
    intros s x [HE [HT HL]]. unfold delete_selector.
    set (x1 := match nlookup s (by_sel x) with
               | Some is => let '(ks, x0) := ranged ord x is in fold_left (fun y i => delete_match s i y) ks x0
               | None => x end).
    assert (H1 : same_data x x1 /\ transp_inv x1 /\
                 forall s' i', rel_mem s' i' (by_sel x1) = rel_mem s' i' (by_sel x) && negb (N.eqb s' s)).
    { unfold x1. destruct (nlookup s (by_sel x)) as [is|] eqn:Eis.
      - unfold ranged.
        destruct (fold_delete_items s (ord (tick x) is) (set_tick (S (tick x)) x)) as [D M].
        split; [eapply same_data_trans; [apply (data_set_tick (S (tick x)))|exact D]|]. split.
        + apply fold_left_pres; [intros; apply transp_delete; auto|].
          eapply transp_ext; [| | |exact HT]; reflexivity.
        + intros s' i'. rewrite M. simpl. rewrite (memN_ord ord ord_same).
          destruct (N.eqb s' s) eqn:Es; simpl; auto.
          apply N.eqb_eq in Es. subst s'. unfold rel_mem. rewrite Eis.
          destruct (memN i' is); auto.
      - split; [apply same_data_refl|]. split; auto.
        intros s' i'. destruct (N.eqb s' s) eqn:Es; simpl; [|rewrite andb_true_r; auto].
        apply N.eqb_eq in Es. subst s'. unfold rel_mem. rewrite Eis. auto. }
    destruct H1 as [[Di [Dp Ds]] [HT1 M]].
    split; [|simpl; repeat split; congruence].
    split; [|split].
    - intros s' i'. simpl. rewrite M, HE. unfold wantm. simpl. rewrite nlookup_ndel, <- Ds, <- Di.
      destruct (N.eqb s' s); simpl; [apply andb_false_r|]. rewrite andb_true_r.
      destruct (nlookup s' (sels x)); auto. destruct (nlookup i' (items x)); auto.
      apply f_equal. unfold item_eff. f_equal. apply map_ext. intros q. unfold parent_labels. simpl. rewrite <- Dp. auto.
    - apply P_set_sels; [apply transp_ext|auto].
    - eapply (parents_live_same x); auto.
  Qed.

  Lemma Inv_empty : Inv empty_st.
  Proof.
    split; [|split].
    - intros s i. reflexivity.
    - intros s i. reflexivity.
    - intros i it p H. discriminate.
  Qed.

  Lemma Inv_step : forall x o, Inv x -> Inv (step ord sel_eqb x o).
  Proof.
    intros x o HI. destruct o; simpl.
    - apply update_labels_spec; auto.
    - apply delete_labels_spec; auto.
    - apply update_parent_labels_spec; auto.
    - apply delete_parent_labels_spec; auto.
    - unfold update_selector.
      destruct (match nlookup s (sels x) with Some old => sel_eqb old a | None => false end); auto.
      apply update_selector_scan_spec; auto.
    - apply delete_selector_spec; auto.
  Qed.

  Lemma Inv_run : forall ops, Inv (run ord sel_eqb ops).
  Proof.
    intros. unfold run. apply fold_left_pres; [|apply Inv_empty]. intros. apply Inv_step. auto.
  Qed.

  Theorem parents_live_run : forall ops, parents_live (run ord sel_eqb ops).
  Proof. intros. apply Inv_run. Qed.

  (* ------------------------------------------------------------------ refinement to the specification state *)
  Hypothesis sel_eqb_sound : forall a b, sel_eqb a b = true -> forall L, eval a L = eval b L.

  Definition sel_equiv (o1 o2 : option ast) : Prop :=
    match o1, o2 with
    | Some a, Some b => forall L, eval a L = eval b L
    | None, None => True
    | _, _ => False
    end.

  Definition item_view (it : item) : labels * list N := (it_labels it, it_parents it).

  Definition refines (x : st) (y : sp) : Prop :=
    (forall i, option_map item_view (nlookup i (items x)) = nlookup i (sp_items y))
    /\ (forall p, parent_labels x p = sp_parent_labels y p)
    /\ (forall s, sel_equiv (nlookup s (sels x)) (nlookup s (sp_sels y))).

  Lemma refines_want : forall x y s i, refines x y -> wantm x s i = want y s i.
  Proof.
    intros x y s i [R1 [R2 R3]]. unfold wantm, want. specialize (R1 i). specialize (R3 s).
    destruct (nlookup s (sels x)) as [a|], (nlookup s (sp_sels y)) as [b|]; simpl in R3; try contradiction; auto.
    destruct (nlookup i (items x)) as [it|]; simpl in R1; rewrite <- R1; auto.
    unfold item_view, matches, item_eff. rewrite R3. f_equal. f_equal. apply map_ext. auto.
  Qed.

  Lemma refines_step : forall x y o, Inv x -> refines x y -> refines (step ord sel_eqb x o) (sp_step y o).
  Proof.
    intros x y o HI [R1 [R2 R3]]. destruct o; simpl.
    - destruct (update_labels_spec i L pids x HI) as [_ [Ei [Es PL]]]. split; [|split].
      + intros j. simpl. rewrite Ei, !nlookup_nupd. destruct (N.eqb j i); simpl; auto.
      + intros p. rewrite <- PL. apply R2.
      + intros s. rewrite Es. apply R3.
    - destruct (delete_labels_spec i x HI) as [_ [Ei [Es PL]]]. split; [|split].
      + intros j. simpl. rewrite Ei, !nlookup_ndel. destruct (N.eqb j i); simpl; auto.
      + intros p. rewrite <- PL. apply R2.
      + intros s. rewrite Es. apply R3.
    - destruct (update_parent_labels_spec p L x HI) as [_ [Ei [Es PL]]]. split; [|split].
      + intros j. rewrite Ei. apply R1.
      + intros q. rewrite PL. unfold sp_parent_labels. simpl. rewrite nlookup_nupd.
        destruct (N.eqb q p); auto. apply R2.
      + intros s. rewrite Es. apply R3.
    - destruct (delete_parent_labels_spec p x HI) as [_ [Ei [Es PL]]]. split; [|split].
      + intros j. rewrite Ei. apply R1.
      + intros q. rewrite PL. unfold sp_parent_labels. simpl. rewrite nlookup_ndel.
        destruct (N.eqb q p); auto. apply R2.
      + intros s. rewrite Es. apply R3.
    - unfold update_selector.
      destruct (match nlookup s (sels x) with Some old => sel_eqb old a | None => false end) eqn:Eskip.
      + (* unchanged selector (same hash): the index keeps the old one, which evaluates identically *)
        split; [auto|]. split; [auto|]. intros s'. simpl. rewrite nlookup_nupd.
        destruct (N.eqb s' s) eqn:Es; [|apply R3]. apply N.eqb_eq in Es. subst s'.
        destruct (nlookup s (sels x)) as [old|]; [|discriminate]. simpl. apply sel_eqb_sound. auto.
      + destruct (update_selector_scan_spec s a x HI) as [_ [Ei [Ep Es]]]. split; [|split].
        * intros j. rewrite Ei. apply R1.
        * intros q. unfold parent_labels. rewrite Ep. apply R2.
        * intros s'. rewrite Es. simpl. rewrite !nlookup_nupd. destruct (N.eqb s' s); [simpl; auto|apply R3].
    - destruct (delete_selector_spec s x HI) as [_ [Ei [Ep Es]]]. split; [|split].
      + intros j. rewrite Ei. apply R1.
      + intros q. unfold parent_labels. rewrite Ep. apply R2.
      + intros s'. rewrite Es. simpl. rewrite !nlookup_ndel. destruct (N.eqb s' s); [simpl; auto|apply R3].
  Qed.

  Lemma run_inv_refines : forall ops x y, Inv x -> refines x y ->
    Inv (fold_left (step ord sel_eqb) ops x) /\ refines (fold_left (step ord sel_eqb) ops x) (fold_left sp_step ops y).
  Proof.
    induction ops as [|o ops IH]; simpl; intros x y HI HR; auto.
    apply IH; [apply Inv_step; auto|apply refines_step; auto].
  Qed.

  Theorem index_exact : forall ops s i,
    rel_mem s i (by_sel (run ord sel_eqb ops)) = want (sp_run ops) s i.
  Proof.
    intros. unfold run, sp_run.
    destruct (run_inv_refines ops empty_st sp_empty Inv_empty) as [[HE _] HR].
    - split; [|split]; intros; simpl; auto.
    - rewrite HE. apply refines_want. auto.
  Qed.

End Step.
