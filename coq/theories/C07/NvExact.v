(* C07 — LabelNameValueIndex holds exactly the stored items' own labels (no stale entry, every set without repeats),
   so a scan yields only stored items, each at most once: the name/value oracle of Spec.v (ok_nv) accepts every run
   of the model on histories whose label maps have one value per label (Go maps). *)
From Coq Require Import List NArith Bool Arith Lia Permutation Sorted.
From Verif.Common Require Import Labels.
From Verif.C07 Require Import Model Spec MapLemmas RestrProofs SliceProofs CandProofs OrderProofs MeetsProofs.
Import ListNotations.
Open Scope N_scope.

Local Arguments bupd : simpl never.
Local Arguments bdel : simpl never.
Local Arguments blookup : simpl never.
Local Arguments nupd : simpl never.
Local Arguments ndel : simpl never.
Local Arguments nlookup : simpl never.

Definition kv_in (k v : bytes) (L : labels) : bool := existsb (fun e => bytes_eqb k (fst e) && bytes_eqb v (snd e)) L.

Lemma kv_in_In : forall k v L, kv_in k v L = true <-> In (k, v) L.
Proof.
  intros. unfold kv_in. rewrite existsb_exists. split.
  - intros [[k' v'] [Hin E]]. simpl in E. apply andb_true_iff in E. destruct E as [E1 E2].
    apply bytes_eqb_eq in E1, E2. subst. auto.
  - intros H. exists (k, v). simpl. rewrite !bytes_eqb_refl. auto.
Qed.

Lemma nvm_add_fold_exact : forall id L idx k v s,
  nvm (fold_left (nv_add_kv id) L idx) k v s = (N.eqb s id && kv_in k v L) || nvm idx k v s.
Proof.
  induction L as [|[k0 v0] L IH]; intros idx k v s; cbn [fold_left].
  - unfold kv_in. simpl. rewrite andb_false_r. auto.
  - rewrite IH, nvm_add_kv. unfold kv_in. simpl.
    destruct (N.eqb s id), (bytes_eqb k k0), (bytes_eqb v v0),
      (existsb (fun e => bytes_eqb k (fst e) && bytes_eqb v (snd e)) L), (nvm idx k v s); reflexivity.
Qed.

Lemma nvm_del_fold_exact : forall id L idx k v s,
  nvm (fold_left (nv_del_kv id) L idx) k v s = nvm idx k v s && negb (N.eqb s id && kv_in k v L).
Proof.
  induction L as [|[k0 v0] L IH]; intros idx k v s; cbn [fold_left].
  - unfold kv_in. simpl. rewrite andb_false_r, andb_true_r. auto.
  - rewrite IH, nvm_del_kv. unfold kv_in. simpl.
    destruct (N.eqb s id), (bytes_eqb k k0), (bytes_eqb v v0),
      (existsb (fun e => bytes_eqb k (fst e) && bytes_eqb v (snd e)) L), (nvm idx k v s); reflexivity.
Qed.

(* ---- well-formedness of the two-level map *)
Definition vals_wf (vals : list (bytes * list N)) : Prop :=
  NoDup (map fst vals) /\ forall v ids, In (v, ids) vals -> NoDup ids.
Definition idx_wf (idx : list (bytes * list (bytes * list N))) : Prop :=
  NoDup (map fst idx) /\ forall k vals, In (k, vals) idx -> vals_wf vals.

Lemma vals_wf_nil : vals_wf [].
Proof. split; [constructor|intros v ids []]. Qed.

Lemma vals_wf_lookup : forall vals v, vals_wf vals -> NoDup (odflt [] (blookup v vals)).
Proof.
  intros vals v [H1 H2]. destruct (blookup v vals) as [ids|] eqn:E; simpl; [|constructor].
  apply (H2 v ids). apply blookup_In. auto.
Qed.

Lemma idx_wf_lookup : forall idx k, idx_wf idx -> vals_wf (odflt [] (blookup k idx)).
Proof.
  intros idx k [H1 H2]. destruct (blookup k idx) as [vals|] eqn:E; simpl; [|apply vals_wf_nil].
  apply (H2 k vals). apply blookup_In. auto.
Qed.

Lemma vals_wf_bupd : forall v ids vals, vals_wf vals -> NoDup ids -> vals_wf (bupd v ids vals).
Proof.
  intros v ids vals [H1 H2] Hn. split; [apply nodup_bupd; auto|].
  intros v' ids' Hin. apply In_bupd in Hin. destruct Hin as [Hin|[Hin _]]; [inversion Hin; subst; auto|eauto].
Qed.

Lemma vals_wf_bdel : forall v vals, vals_wf vals -> vals_wf (bdel v vals).
Proof.
  intros v vals [H1 H2]. split; [apply nodup_bdel; auto|].
  intros v' ids' Hin. apply In_bdel in Hin. destruct Hin. eauto.
Qed.

Lemma idx_wf_bupd : forall k vals idx, idx_wf idx -> vals_wf vals -> idx_wf (bupd k vals idx).
Proof.
  intros k vals idx [H1 H2] Hv. split; [apply nodup_bupd; auto|].
  intros k' vals' Hin. apply In_bupd in Hin. destruct Hin as [Hin|[Hin _]]; [inversion Hin; subst; auto|eauto].
Qed.

Lemma idx_wf_bdel : forall k idx, idx_wf idx -> idx_wf (bdel k idx).
Proof.
  intros k idx [H1 H2]. split; [apply nodup_bdel; auto|].
  intros k' vals' Hin. apply In_bdel in Hin. destruct Hin. eauto.
Qed.

Lemma idx_wf_add_kv : forall id idx kv, idx_wf idx -> idx_wf (nv_add_kv id idx kv).
Proof.
  intros id idx [k v] H. unfold nv_add_kv. pose proof (idx_wf_lookup idx k H) as Hv.
  apply idx_wf_bupd; auto. apply vals_wf_bupd; auto. apply NoDup_sadd. apply vals_wf_lookup. auto.
Qed.

Lemma idx_wf_del_kv : forall id idx kv, idx_wf idx -> idx_wf (nv_del_kv id idx kv).
Proof.
  intros id idx [k v] H. unfold nv_del_kv. destruct (blookup k idx) as [vals|] eqn:E; auto.
  assert (Hv : vals_wf vals) by (destruct H as [_ H2]; apply (H2 k vals); apply blookup_In; auto).
  set (ids' := sdel id (odflt [] (blookup v vals))).
  assert (Hv' : vals_wf (if is_nil ids' then bdel v vals else bupd v ids' vals)).
  { destruct (is_nil ids'); [apply vals_wf_bdel; auto|].
    apply vals_wf_bupd; auto. apply NoDup_sdel. apply vals_wf_lookup. auto. }
  destruct (is_nil (if is_nil ids' then bdel v vals else bupd v ids' vals)); [apply idx_wf_bdel; auto|].
  apply idx_wf_bupd; auto.
Qed.

(* ---- the exact invariant *)
Definition labels_ok (L : labels) : Prop := NoDup (map fst L).

Definition nv_exact (x : nv) : Prop :=
  (forall k v s, nvm (nv_idx x) k v s = true -> exists L, nlookup s (nv_items x) = Some L /\ In (k, v) L)
  /\ idx_wf (nv_idx x)
  /\ NoDup (map fst (nv_items x))
  /\ (forall i L, nlookup i (nv_items x) = Some L -> labels_ok L).

Definition nv_op_ok (o : nv_op) : Prop := match o with NvAdd _ L => labels_ok L | _ => True end.

Lemma nv_exact_step : forall x o, nv_op_ok o -> nv_exact x -> nv_exact (nv_step x o).
Proof.
  intros x o Hok [E1 [E2 [E3 E4]]]. destruct o as [id L|id|l r]; simpl; [| |(split; [|split; [|split]]; auto)].
  - unfold nv_add. destruct (nlookup id (nv_items x)) eqn:Eid; [(split; [|split; [|split]]; auto)|]. unfold nv_exact. cbn [nv_idx nv_items].
    split; [|split; [|split]].
    + intros k v s H. rewrite nvm_add_fold_exact in H. rewrite nlookup_nupd.
      apply orb_true_iff in H. destruct H as [H|H].
      * apply andb_true_iff in H. destruct H as [H1 H2]. rewrite H1. exists L. split; auto. apply kv_in_In. auto.
      * destruct (E1 k v s H) as [L' [HL' Hin]]. destruct (N.eqb s id) eqn:Es; [|eauto].
        apply N.eqb_eq in Es. subst. congruence.
    + apply fold_left_pres; auto. intros. apply idx_wf_add_kv. auto.
    + apply nodup_nupd. auto.
    + intros i L' H. rewrite nlookup_nupd in H. destruct (N.eqb i id); [inversion H; subst; auto|eauto].
  - unfold nv_remove. destruct (nlookup id (nv_items x)) as [L0|] eqn:Eid; [|(split; [|split; [|split]]; auto)]. unfold nv_exact. cbn [nv_idx nv_items].
    split; [|split; [|split]].
    + intros k v s H. rewrite nvm_del_fold_exact in H. apply andb_true_iff in H. destruct H as [H1 H2].
      destruct (E1 k v s H1) as [L' [HL' Hin]]. rewrite nlookup_ndel.
      destruct (N.eqb s id) eqn:Es; [|eauto]. exfalso.
      apply N.eqb_eq in Es. subst. rewrite Eid in HL'. inversion HL'; subst.
      apply kv_in_In in Hin. rewrite Hin in H2. discriminate.
    + apply fold_left_pres; auto. intros. apply idx_wf_del_kv. auto.
    + apply nodup_ndel. auto.
    + intros i L' H. rewrite nlookup_ndel in H. destruct (N.eqb i id); [discriminate|eauto].
Qed.

Lemma nv_exact_empty : nv_exact nv_empty.
Proof.
  split; [|split; [|split]]; simpl.
  - intros k v s H. discriminate.
  - split; [constructor|intros k vals []].
  - constructor.
  - intros i L H. discriminate.
Qed.

(* ---- what a scan yields *)
Lemma In_set_nvm : forall idx k vals v ids s,
  blookup k idx = Some vals -> blookup v vals = Some ids -> In s ids -> nvm idx k v s = true.
Proof. intros. unfold nvm. rewrite H. simpl. rewrite H0. simpl. apply memN_In. auto. Qed.

Lemma NoDup_pairs_of_keys : forall A B (l : list (A * B)), NoDup (map fst l) -> NoDup l.
Proof.
  induction l as [|[a b] l IH]; simpl; intros H; [constructor|]. inversion H; subst. constructor; auto.
  intros Hin. apply H2. apply (in_map fst) in Hin. auto.
Qed.

Lemma ninsert_lt_sorted : forall a l, StronglySorted N.lt l -> StronglySorted N.lt (ninsert a l).
Proof.
  induction l as [|b l IH]; simpl; intros H; [constructor; constructor|]. inversion H; subst.
  destruct (N.ltb_spec a b).
  - constructor; auto. constructor; auto. eapply Forall_impl; [|exact H3]. intros c Hc. simpl in Hc. lia.
  - destruct (N.eqb_spec a b); auto. constructor; auto.
    rewrite Forall_forall in *. intros c Hc. apply In_ninsert in Hc. destruct Hc as [->|Hc]; [lia|auto].
Qed.

Lemma NoDup_nsort : forall l, NoDup (nsort l).
Proof.
  intros. assert (H : StronglySorted N.lt (nsort l)).
  { induction l; simpl; [constructor|apply ninsert_lt_sorted; auto]. }
  induction H; constructor; auto. intros Hin. rewrite Forall_forall in H0. apply H0 in Hin. lia.
Qed.

Lemma NoDup_flat_map_in : forall A B (f : A -> list B) (ks : list A),
  NoDup ks -> (forall k, In k ks -> NoDup (f k)) ->
  (forall k1 k2 x, In k1 ks -> In k2 ks -> In x (f k1) -> In x (f k2) -> k1 = k2) ->
  NoDup (flat_map f ks).
Proof.
  induction ks as [|k ks IH]; simpl; intros HN Hf Hinj; [constructor|]. inversion HN; subst.
  apply NoDup_app_intro; auto.
  - apply IH; auto. intros k1 k2 x G1 G2. apply Hinj; auto.
  - intros x Hx Hin. apply in_flat_map in Hin. destruct Hin as [k' [Hk' Hx']].
    assert (k = k') by (eapply Hinj; eauto). subst. contradiction.
Qed.

Lemma keys_functional : forall A B (l : list (A * B)) k a b,
  NoDup (map fst l) -> In (k, a) l -> In (k, b) l -> a = b.
Proof.
  induction l as [|[k' v'] l IH]; simpl; intros k a b HN H1 H2; [destruct H1|]. inversion HN as [|x0 l0 H3 H4]; subst.
  destruct H1 as [H1|H1], H2 as [H2|H2].
  - congruence.
  - inversion H1; subst. exfalso. apply H3. apply (in_map fst) in H2. auto.
  - inversion H2; subst. exfalso. apply H3. apply (in_map fst) in H1. auto.
  - eauto.
Qed.

Lemma scan_facts : forall x l r, nv_exact x ->
  NoDup (snd (nv_scan x l r)) /\ forall s, In s (snd (nv_scan x l r)) -> nlookup s (nv_items x) <> None.
Proof.
  intros x l r [E1 [E2 [E3 E4]]]. unfold nv_scan. destruct (negb (r_present r)); simpl.
  - split; auto. intros s Hin. apply in_map_iff in Hin. destruct Hin as [[s' L] [Es Hin]]. simpl in Es. subst.
    apply nlookup_In_iff in Hin; auto. congruence.
  - destruct (r_vals r) as [vs|].
    + set (vals := odflt [] (blookup l (nv_idx x))).
      assert (Hv : vals_wf vals) by (apply idx_wf_lookup; auto).
      set (sets := flat_map (fun v => match blookup v vals with Some ids => [ids] | None => [] end) vs).
      assert (Hsets : forall ids, In ids sets -> NoDup ids /\ forall s, In s ids -> nlookup s (nv_items x) <> None).
      { intros ids Hin. unfold sets in Hin. apply in_flat_map in Hin. destruct Hin as [v [_ Hin]].
        destruct (blookup v vals) as [ids'|] eqn:Ev; [|destruct Hin]. destruct Hin as [<-|[]].
        split; [destruct Hv as [_ Hv2]; apply (Hv2 v ids'); apply blookup_In; auto|].
        intros s Hs. assert (Hm : nvm (nv_idx x) l v s = true).
        { unfold nvm. fold vals. rewrite Ev. simpl. apply memN_In. auto. }
        destruct (E1 l v s Hm) as [L [HL _]]. congruence. }
      destruct sets as [|s1 [|s2 rest]]; simpl.
      * split; [constructor|intros s []].
      * apply Hsets. left. auto.
      * split; [apply NoDup_nsort|]. intros s Hin. rewrite In_nsort in Hin.
        change (s1 ++ s2 ++ concat rest) with (concat (s1 :: s2 :: rest)) in Hin.
        apply in_concat in Hin. destruct Hin as [ids [H1 H2]]. apply (Hsets ids H1). auto.
    + destruct (blookup l (nv_idx x)) as [vals|] eqn:El; simpl; [|split; [constructor|intros s []]].
      assert (Hv : vals_wf vals) by (destruct E2 as [_ H2]; apply (H2 l vals); apply blookup_In; auto).
      assert (Hm : forall v ids s, In (v, ids) vals -> In s ids -> nvm (nv_idx x) l v s = true).
      { intros v ids s Hin Hs. eapply In_set_nvm; eauto. apply blookup_In_iff; auto. apply Hv. }
      split.
      * apply NoDup_flat_map_in.
        -- apply NoDup_pairs_of_keys. apply Hv.
        -- intros [v ids] Hin. simpl. destruct Hv as [_ Hv2]. eapply Hv2; eauto.
        -- intros [v1 ids1] [v2 ids2] s H1 H2 Hs1 Hs2. simpl in Hs1, Hs2.
           destruct (E1 l v1 s (Hm _ _ _ H1 Hs1)) as [L1 [HL1 Hin1]].
           destruct (E1 l v2 s (Hm _ _ _ H2 Hs2)) as [L2 [HL2 Hin2]].
           rewrite HL1 in HL2. inversion HL2; subst L2.
           assert (v1 = v2) by (eapply keys_functional; [apply (E4 s L1 HL1)|eauto|eauto]). subst v2.
           f_equal. eapply keys_functional; [apply Hv|eauto|eauto].
      * intros s Hin. apply in_flat_map in Hin. destruct Hin as [[v ids] [Hin Hs]]. simpl in Hs.
        destruct (E1 l v s (Hm _ _ _ Hin Hs)) as [L [HL _]]. congruence.
Qed.

(* ---- the oracle accepts the model *)
Lemma ninsert_dup_perm : forall a l, Permutation (ninsert_dup a l) (a :: l).
Proof.
  induction l as [|b l IH]; simpl; auto. destruct (N.leb a b); auto.
  eapply perm_trans; [apply perm_skip; apply IH|apply perm_swap].
Qed.

Lemma nsort_dup_perm : forall l, Permutation (nsort_dup l) l.
Proof. induction l as [|a l IH]; simpl; auto. eapply perm_trans; [apply ninsert_dup_perm|]. auto. Qed.

Lemma nodup_sorted_of_NoDup : forall l, NoDup l -> nodup_sorted l = true.
Proof.
  induction l as [|a [|b l] IH]; intros H; auto. inversion H; subst.
  change (nodup_sorted (a :: b :: l)) with (negb (N.eqb a b) && nodup_sorted (b :: l)).
  rewrite IH; auto. rewrite andb_true_r. destruct (N.eqb_spec a b); auto. subst. exfalso. apply H2. left. auto.
Qed.

(* histories inside the domain: label maps have one value per label (Go maps), and Add is never called for an id that
   is stored (the Go code panics; callers Remove first) *)
Fixpoint nv_valid (x : nv) (ops : list nv_op) : Prop :=
  match ops with
  | [] => True
  | o :: ops' =>
      match o with
      | NvAdd id L => nlookup id (nv_items x) = None /\ labels_ok L
      | _ => True
      end /\ nv_valid (nv_step x o) ops'
  end.

Lemma nv_meets_from : forall ops x,
  nv_valid x ops -> nv_inv x -> nv_exact x ->
  ok_nv (nv_items x) ops (nv_run x ops) = true.
Proof.
  induction ops as [|o ops IH]; intros x Hv HI HE; simpl; auto. destruct Hv as [Ho Hv].
  pose proof (nv_inv_step x o HI) as HI'.
  destruct o as [id L|id|l r].
  - destruct Ho as [Hnew HL].
    assert (HE' : nv_exact (nv_step x (NvAdd id L))) by (apply nv_exact_step; auto).
    assert (Es : nv_items (nv_add id L x) = nupd id L (nv_items x)).
    { unfold nv_add. rewrite Hnew. reflexivity. }
    simpl in *. rewrite <- Es. apply IH; auto.
  - assert (HE' : nv_exact (nv_step x (NvRemove id))) by (apply nv_exact_step; simpl; auto).
    assert (Es : nv_items (nv_remove id x) = ndel id (nv_items x)).
    { unfold nv_remove. destruct (nlookup id (nv_items x)) eqn:E; auto. simpl.
      destruct HE as [_ [_ [HN _]]]. clear -E. induction (nv_items x) as [|[k v] m IHm]; auto.
      unfold nlookup in E. fold (@nlookup labels) in E. unfold ndel. fold (@ndel labels).
      destruct (N.eqb id k); [discriminate|]. rewrite <- IHm; auto. }
    simpl in *. rewrite <- Es. apply IH; auto.
  - simpl in *. destruct (nv_scan x l r) as [st ids] eqn:Escan.
    destruct (scan_facts x l r HE) as [HN Hknown]. rewrite Escan in HN, Hknown. simpl in HN, Hknown.
    rewrite IH; auto. rewrite andb_true_r.
    assert (Hin : forall s, In s (nsort_dup ids) <-> In s ids).
    { intros s. split; intros H.
      - eapply Permutation_in; [apply nsort_dup_perm|auto].
      - eapply Permutation_in; [apply Permutation_sym, nsort_dup_perm|auto]. }
    apply andb_true_iff. split; [apply andb_true_iff; split|].
    + apply forallb_forall. intros [i L] Hi. simpl.
      destruct (sat1_b r (lookup l L)) eqn:Es; simpl; auto.
      apply memN_In. apply Hin.
      assert (Hs : In i (snd (nv_scan x l r))).
      { apply (nv_scan_superset_inv x l r i L HI).
        - apply nlookup_In_iff; auto. destruct HE as [_ [_ [HNk _]]]. auto.
        - apply sat1_b_iff. auto. }
      rewrite Escan in Hs. auto.
    + apply nodup_sorted_of_NoDup. eapply Permutation_NoDup; [apply Permutation_sym, nsort_dup_perm|auto].
    + apply forallb_forall. intros s Hs. apply Hin in Hs. apply Hknown in Hs.
      destruct (nlookup s (nv_items x)); auto.
Qed.

Theorem nv_model_meets_spec : forall ops, nv_valid nv_empty ops -> ok_nv [] ops (nv_run nv_empty ops) = true.
Proof.
  intros ops Hv. apply (nv_meets_from ops nv_empty); auto.
  - intros i L k v H. discriminate.
  - apply nv_exact_empty.
Qed.
