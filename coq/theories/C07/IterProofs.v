(* C07 — iterEndpointCandidates (the pruning step of SelectorAndNamedPortIndex) never omits an endpoint whose
   effective labels satisfy the selector's restrictions - whatever the iteration order of the restriction map and
   whatever the parent-scan estimates are. *)
From Coq Require Import List NArith Bool Arith Lia Permutation.
From Verif.Common Require Import Labels.
From Verif.C07 Require Import Model Spec MapLemmas RestrProofs SliceProofs CandProofs.
Import ListNotations.
Open Scope N_scope.

Local Arguments nlookup : simpl never.
Local Arguments blookup : simpl never.

(* an empty estimate means an empty scan *)
Lemma est_zero_scan_nil : forall x l r, nv_est x l r = 0%nat -> snd (nv_scan x l r) = [].
Proof.
  intros x l r. unfold nv_est, nv_scan. destruct (negb (r_present r)).
  - simpl. intros H. destruct (nv_items x); [auto|discriminate].
  - destruct (r_vals r) as [vs|].
    + set (sets := flat_map _ vs). destruct sets as [|s1 [|s2 rest]]; simpl; auto.
      * intros H. destruct s1; [auto|discriminate].
      * intros H. destruct (s1 ++ s2 ++ concat rest) eqn:E; [reflexivity|discriminate].
    + destruct (blookup l (nv_idx x)) as [vals|]; simpl; auto.
      intros H. destruct (flat_map snd vals); [auto|discriminate].
Qed.

Lemma scan_in_est_pos : forall x l r i, In i (snd (nv_scan x l r)) -> (0 < nv_est x l r)%nat.
Proof.
  intros x l r i H. destruct (nv_est x l r) eqn:E; [|lia].
  rewrite (est_zero_scan_nil x l r E) in H. destruct H.
Qed.

Lemma lookup_concat : forall k Ps v, lookup k (concat Ps) = Some v -> exists P, In P Ps /\ lookup k P = Some v.
Proof.
  induction Ps as [|P Ps IH]; simpl; intros v H; [discriminate|].
  rewrite lookup_app in H. destruct (lookup k P) eqn:E.
  - inversion H; subst. exists P. auto.
  - destruct (IH v H) as [P' [H1 H2]]. exists P'. auto.
Qed.

(* a restriction that demands the label and is met by the effective labels is met by the endpoint's own labels
   or by the labels of one of its parents *)
Lemma sat1_split : forall r k L Ps,
  r_present r = true -> sat1 r (lookup k (effective L Ps)) ->
  sat1 r (lookup k L) \/ (lookup k L = None /\ exists P, In P Ps /\ lookup k P <> None /\ sat1 r (lookup k P)).
Proof.
  intros r k L Ps Hp Hs. unfold effective in Hs. rewrite lookup_app in Hs.
  destruct (lookup k L) as [v|] eqn:E; auto.
  right. split; auto. destruct (lookup k (concat Ps)) as [v|] eqn:Ec.
  - destruct (lookup_concat k Ps v Ec) as [P [H1 H2]]. exists P. rewrite H2. split; [auto|]. split; [discriminate|exact Hs].
  - destruct Hs as [S1 _]. exfalso. apply S1; auto.
Qed.

Section IterSound.
  Variable pest : np -> list N -> nat.
  Variable x : np.
  Hypothesis Heps : nv_inv (np_eps x).
  Hypothesis Hpars : nv_inv (np_pars x).

  (* the endpoint under consideration: own labels L, parent ids ps *)
  Variable e : N.
  Variable L : labels.
  Variable ps : list N.
  Hypothesis He : nlookup e (nv_items (np_eps x)) = Some L.
  Definition plabels (p : N) : labels := odflt [] (nlookup p (nv_items (np_pars x))).
  (* a parent of e that is in the parent index lists e among its endpoints *)
  Hypothesis Hkids : forall p, In p ps -> nlookup p (nv_items (np_pars x)) <> None -> In e (np_kids x p).

  Definition eff_e : labels := effective L (map plabels ps).

  Definition good (st : option best) : Prop :=
    exists b, st = Some b /\ In e (b_ep b)
              /\ (forall scan pe, b_par b = Some (scan, pe) -> exists p, In p scan /\ In e (np_kids x p)).

  Lemma source : forall k r, sat1 r (lookup k eff_e) ->
    In e (snd (nv_scan (np_eps x) k r))
    \/ exists p, In p (snd (nv_scan (np_pars x) k r)) /\ In e (np_kids x p).
  Proof.
    intros k r Hs. destruct (r_present r) eqn:Ep.
    - destruct (sat1_split r k L (map plabels ps) Ep Hs) as [Hown|[_ [P [HP [Hne HsP]]]]].
      + left. eapply nv_scan_superset_inv; eauto.
      + right. apply in_map_iff in HP. destruct HP as [p [HPp Hp]]. subst P.
        assert (Hidx : nlookup p (nv_items (np_pars x)) = Some (plabels p)).
        { unfold plabels in *. destruct (nlookup p (nv_items (np_pars x))); simpl in *; auto. exfalso. apply Hne. reflexivity. }
        exists p. split.
        * eapply nv_scan_superset_inv; eauto.
        * apply Hkids; auto. rewrite Hidx. discriminate.
    - left. unfold nv_scan. rewrite Ep. simpl. eapply nlookup_In_fst; eauto.
  Qed.

  Lemma iter_step_good : forall st k r, good st -> sat1 r (lookup k eff_e) -> good (iter_step pest x st (k, r)).
  Proof.
    intros st k r [b [-> [Hep Hpar]]] Hs. unfold iter_step.
    pose proof (source k r Hs) as Hsrc.
    set (eps := nv_est (np_eps x) k r) in *. set (pars := nv_est (np_pars x) k r) in *.
    assert (P1 : In e (snd (nv_scan (np_eps x) k r)) -> (0 < eps)%nat) by (apply scan_in_est_pos).
    assert (P2 : forall p, In p (snd (nv_scan (np_pars x) k r)) -> (0 < pars)%nat) by (intros p; apply scan_in_est_pos).
    destruct (Nat.ltb_spec 0 eps) as [Le|Le]; destruct (Nat.eqb_spec pars 0) as [Ep0|Ep0]; simpl.
    - (* endpoints only *)
      assert (Hin : In e (snd (nv_scan (np_eps x) k r))).
      { destruct Hsrc as [H|[p [H _]]]; auto. apply P2 in H. lia. }
      exists (if Nat.ltb eps (b_ep_est b)
              then {| b_ep := snd (nv_scan (np_eps x) k r); b_ep_est := eps; b_par := b_par b |} else b).
      split; auto. destruct (Nat.ltb eps (b_ep_est b)); simpl; auto.
    - destruct (Nat.eqb_spec eps 0) as [Ee0|Ee0]; [lia|]. simpl.
      destruct (Nat.ltb_spec 0 pars) as [Lp|Lp]; [|lia]. simpl. exists b. auto.
    - (* eps = 0 and pars = 0: impossible *)
      exfalso. destruct Hsrc as [H|[p [H _]]]; [apply P1 in H|apply P2 in H]; lia.
    - (* parents only *)
      assert (Ee0 : eps = 0%nat) by lia. rewrite Ee0. simpl.
      destruct (Nat.ltb_spec 0 pars) as [Lp|Lp]; [|lia]. simpl.
      assert (Hp : exists p, In p (snd (nv_scan (np_pars x) k r)) /\ In e (np_kids x p)).
      { destruct Hsrc as [H|H]; auto. apply P1 in H. lia. }
      eexists. split; [reflexivity|].
      destruct (match b_par b with None => true | Some (_, old) => Nat.ltb (pest x (snd (nv_scan (np_pars x) k r))) old end);
        simpl; split; auto.
      intros scan pe Hsc. inversion Hsc; subst. auto.
  Qed.

  Theorem iter_candidates_sound : forall R, satisfies R eff_e -> In e (iter_candidates pest x R).
  Proof.
    intros R Hsat. unfold iter_candidates.
    assert (G : forall R st, (forall k r, In (k, r) R -> sat1 r (lookup k eff_e)) -> good st ->
                good (fold_left (iter_step pest x) R st)).
    { clear R Hsat. induction R as [|[k r] R IH]; simpl; intros st HR Hg; auto.
      apply IH; auto. apply iter_step_good; auto. }
    destruct (G R (Some {| b_ep := map fst (nv_items (np_eps x)); b_ep_est := length (nv_items (np_eps x)); b_par := None |}))
      as [b [-> [Hep Hpar]]].
    - intros k r Hin. apply Hsat. auto.
    - eexists. split; [reflexivity|]. simpl. split; [eapply nlookup_In_fst; eauto|]. intros; discriminate.
    - destruct (b_par b) as [[scan pe]|] eqn:Eb; auto.
      destruct (Nat.leb (b_ep_est b) pe); auto.
      destruct (Hpar scan pe eq_refl) as [p [H1 H2]]. apply In_nsort. apply in_flat_map. exists p. auto.
  Qed.
End IterSound.

(* stated for selectors and for indexes reached by arbitrary Add/Remove histories; R' is the restriction map in
   whatever order Go ranges over it *)
Theorem iter_candidates_superset :
  forall (pest : np -> list N -> nat) opsE opsP kids e L ps a R',
  let x := {| np_eps := fold_left nv_step opsE nv_empty; np_pars := fold_left nv_step opsP nv_empty; np_children := kids |} in
  nlookup e (nv_items (np_eps x)) = Some L ->
  (forall p, In p ps -> nlookup p (nv_items (np_pars x)) <> None -> In e (np_kids x p)) ->
  Permutation (restrictions_f a) R' ->
  eval a (effective L (map (fun p => odflt [] (nlookup p (nv_items (np_pars x)))) ps)) = true ->
  In e (iter_candidates pest x R').
Proof.
  intros pest opsE opsP kids e L ps a R' x He Hk HP Hev.
  apply (iter_candidates_sound pest x (nv_inv_run opsE) (nv_inv_run opsP) e L ps He Hk).
  intros k r Hin. apply (restrictions_f_sound a _ Hev).
  eapply Permutation_in; [apply Permutation_sym; eauto|auto].
Qed.
