(* C26 — property theorems only.  Each is closed by `exact <lemma>` and followed by Print Assumptions. *)
From Coq Require Import List NArith Arith Bool.
From Verif.C26 Require Import Model Spec Proofs.
Import ListNotations.

(* The aggregated status is InSync exactly when every cache's last reported status is InSync. *)
Theorem c26_agg_insync_iff_all : forall cs, agg cs = InSync <-> Forall (fun s => s = InSync) cs.
Proof. exact agg_insync. Qed.
Print Assumptions c26_agg_insync_iff_all.
