(* C26 — property theorems only.  Each is closed by `exact <lemma>` and followed by Print Assumptions.

   Reading guide.  [cache_run ord g c0 ins] runs the model of ONE watcher cache over ANY list [ins] of
   (timeout-elapsed?, datastore outcome) pairs; it is [None] only when an outcome does not answer the call the
   cache is blocked in (a List outcome while it waits for a watch event, ...) or when the code panics by design
   (a List that returns items with a zero revision).  [ord] is the Go map iteration order and is arbitrary
   ([ord_ok]: it enumerates exactly the entries of the map); [g] holds SendDeletesOnConnFail and an arbitrary pure
   converter.  [upds_of rs] are the KV updates the cache sent, in order; [cfold [] us] is the consumer's view after
   applying them to nothing; [spec_run] is the specification of Spec.v (what the datastore told last);
   [rvl k V] is the revision held for key k.  Views are compared by revision: the code swallows an event whose
   revision equals the cached one, so contents agree exactly when a revision identifies the content of a key. *)
From Coq Require Import List NArith Arith Bool.
From Verif.C26 Require Import Model Spec Proofs Steps.
Import ListNotations.

(* Convergence: after ANY sequence of list results, list errors, watch-creation outcomes, watch events, watch errors,
   expired revisions, bookmarks and timeouts, the emitted update stream applied in order yields exactly the
   (converted) contents the datastore reported last: the last successful list edited by the watch events since
   (emptied on a lost connection when SendDeletesOnConnFail is set). *)
Theorem c26_converges : forall ord g ins c rs,
  ord_ok ord -> cache_run ord g (fst cache_init) ins = Some (c, rs) ->
  forall k, rvl k (cfold [] (upds_of rs)) = rvl k (sv (spec_run g sstate0 ins)).
Proof. exact cache_converges. Qed.
Print Assumptions c26_converges.

(* Resources that vanished during a resync are deleted: when a List completes, every key the consumer holds that is
   absent from the (converted) listed items gets a deletion in that very step. *)
Theorem c26_vanished_deleted : forall ord g ins c rs0 t items lrev c' rs,
  ord_ok ord -> cache_run ord g (fst cache_init) ins = Some (c, rs0) ->
  cache_step ord g c t (RListOk items lrev) = Some (c', rs) ->
  forall k, rvl k (cfold [] (upds_of rs0)) <> None -> rvl k (slist (cv g) items) = None -> In (UDel k) (upds_of rs).
Proof. exact cache_vanished_deleted. Qed.
Print Assumptions c26_vanished_deleted.

(* No update while waiting for the datastore — what the code guarantees precisely: scanning everything a cache ever
   puts on the results channel, no KV update follows a WaitForDatastore status without another status in between
   (the scan [nowait] never fails, and it ends in the cache's own status field).  In particular the deletions sent on
   a lost connection are preceded by a transition to ResyncInProgress. *)
Theorem c26_no_update_while_waiting : forall ord g ins c rs,
  ord_ok ord -> cache_run ord g (fst cache_init) ins = Some (c, rs) -> nowait Wait rs = Some (status c).
Proof. exact cache_no_update_while_waiting. Qed.
Print Assumptions c26_no_update_while_waiting.

(* A cache reports InSync only if a full List (or the server's "no such resource type" answer, which the code treats
   as an empty, complete list) has completed since its connection was last declared lost. *)
Theorem c26_insync_after_listed : forall ord g ins c rs,
  ord_ok ord -> cache_run ord g (fst cache_init) ins = Some (c, rs) ->
  status c = InSync -> slisted (spec_run g sstate0 ins) = true.
Proof. exact cache_insync_listed. Qed.
Print Assumptions c26_insync_after_listed.

(* The syncer: after any script the status it has reported is the aggregate of the caches' last statuses ... *)
Theorem c26_syncer_status_is_aggregate : forall ord gs steps s s' os,
  wstatus s = agg (cstat s) -> syncer_run ord gs s steps = Some (s', os) -> wstatus s' = agg (cstat s').
Proof. exact syncer_status_is_agg. Qed.
Print Assumptions c26_syncer_status_is_aggregate.

(* ... and the aggregate is InSync exactly when EVERY cache's last reported status is InSync. *)
Theorem c26_agg_insync_iff_all : forall cs, agg cs = InSync <-> Forall (fun s => s = InSync) cs.
Proof. exact agg_insync. Qed.
Print Assumptions c26_agg_insync_iff_all.

(* Non-vacuity: a run with a list, an unobserved deletion found by the resync, a lost connection and recovery. *)
Example c26_example :
  let g := mkCfgC true None in
  let ins := [(false, RListOk [mkItem 1 11 5; mkItem 2 12 6] 12); (false, RWatchOk);
              (false, REvent (EvMod (mkItem 1 13 7))); (false, REvent EvErrExpired);
              (false, RListOk [mkItem 1 13 7] 14); (false, RWatchErr WConnRefused); (true, RWatchErr WConnRefused);
              (false, RListErr LOther); (false, RListOk [mkItem 3 20 1] 20)] in
  option_map (fun cr => upds_of (snd cr)) (cache_run id_ord g (fst cache_init) ins)
  = Some [UNew 1 11 5; UNew 2 12 6; UMod 1 13 7; UDel 2; UDel 1; UNew 3 20 1]
  /\ ord_ok id_ord.
Proof. split; [vm_compute; reflexivity|intros m x; reflexivity]. Qed.
