(* C26 — property theorems only.  Each is closed by `exact <lemma>` and followed by Print Assumptions.

   Reading guide.  [cache_run ord g c0 ins] runs the model of ONE watcher cache over ANY list [ins] of
   (timeout-elapsed?, datastore outcome) pairs; it is [None] only when an outcome does not answer the call the
   cache is blocked in (a List outcome while it waits for a watch event, ...) or when the code panics by design
   (a List that returns items with a zero revision).  [ord] is the Go map iteration order and is arbitrary
   ([ord_ok]: it enumerates exactly the entries of the map); [g] holds SendDeletesOnConnFail and an arbitrary pure
   converter.  [upds_of rs] are the KV updates the cache sent, in order; [cfold [] us] is the consumer's view after
   applying them to nothing; [spec_run] is the specification of Spec.v (what the datastore told last);
   [rvl k V] is the revision held for key k.  Views are compared by revision: the code swallows an event whose
   revision equals the cached one, so contents agree exactly when a revision identifies the content of a key. *)
From Coq Require Import List NArith Arith Bool.
From Verif.C26 Require Import Model Spec Proofs Steps Syncer Shape Main Content Tidy Oracle Revs Reqs.
Import ListNotations.

(* Convergence: after ANY sequence of list results, list errors, watch-creation outcomes, watch events, watch errors,
   expired revisions, bookmarks and timeouts, the emitted update stream applied in order yields exactly the
   (converted) contents the datastore reported last: the last successful list edited by the watch events since
   (emptied on a lost connection when SendDeletesOnConnFail is set). *)
Theorem c26_cache_converges : forall ord g ins c rs,
  ord_ok ord -> cache_run ord g (fst cache_init) ins = Some (c, rs) ->
  forall k, rvl k (cfold [] (upds_of rs)) = rvl k (sv (spec_run g sstate0 ins)).
Proof. exact cache_converges. Qed.
Print Assumptions c26_cache_converges.

(* Resources that vanished during a resync are deleted: when a List completes, every key the consumer holds that is
   absent from the (converted) listed items gets a deletion in that very step. *)
Theorem c26_cache_vanished_deleted : forall ord g ins c rs0 t items lrev c' rs,
  ord_ok ord -> cache_run ord g (fst cache_init) ins = Some (c, rs0) ->
  cache_step ord g c t (RListOk items lrev) = Some (c', rs) ->
  forall k, rvl k (cfold [] (upds_of rs0)) <> None -> rvl k (slist (cv g) items) = None -> In (UDel k) (upds_of rs).
Proof. exact cache_vanished_deleted. Qed.
Print Assumptions c26_cache_vanished_deleted.

(* No update while waiting for the datastore — what the code guarantees precisely: scanning everything a cache ever
   puts on the results channel, no KV update follows a WaitForDatastore status without another status in between
   (the scan [nowait] never fails, and it ends in the cache's own status field).  In particular the deletions sent on
   a lost connection are preceded by a transition to ResyncInProgress. *)
Theorem c26_cache_no_update_while_waiting : forall ord g ins c rs,
  ord_ok ord -> cache_run ord g (fst cache_init) ins = Some (c, rs) -> nowait Wait rs = Some (status c).
Proof. exact cache_no_update_while_waiting. Qed.
Print Assumptions c26_cache_no_update_while_waiting.

(* A cache reports InSync only if a full List (or the server's "no such resource type" answer, which the code treats
   as an empty, complete list) has completed since its connection was last declared lost. *)
Theorem c26_cache_insync_after_listed : forall ord g ins c rs,
  ord_ok ord -> cache_run ord g (fst cache_init) ins = Some (c, rs) ->
  status c = InSync -> slisted (spec_run g sstate0 ins) = true.
Proof. exact cache_insync_listed. Qed.
Print Assumptions c26_cache_insync_after_listed.

(* The aggregate status is InSync exactly when EVERY cache's last reported status is InSync. *)
Theorem c26_agg_insync_iff_all : forall cs, agg cs = InSync <-> Forall (fun s => s = InSync) cs.
Proof. exact agg_insync. Qed.
Print Assumptions c26_agg_insync_iff_all.

(* ======================= the property on the SYNCER's callback stream =======================
   [gs] are the resource types (at least one), cache i is fed ANY input sequence [nth i inss]; [es] is ANY
   interleaving of the caches' result streams as read from the results channel, with [SFlush] at ANY points (where the
   consolidation loop of watcherSyncer.run happened to call sendUpdates): [interleaving ord gs inss es].
   [proc (syncer0 gs) es] is watcherSyncer.processResult run over it (pending-update batching, flush before errors
   and status changes, status aggregation); [o] are the SyncerCallbacks calls made, [pend] what the next sendUpdates
   will deliver, [delivered o pend] both.  [oups i] selects the updates of resource type i. *)

Theorem c26_converges : forall ord, ord_ok ord -> forall gs inss es cs ws pend o,
  interleaving ord gs inss es -> proc (syncer0 gs) es = ((cs, ws, pend), o) ->
  forall i g ins, nth_error gs i = Some g -> nth_error inss i = Some ins ->
  forall k, rvl k (cfold [] (oups i (delivered o pend))) = rvl k (sv (spec_run g sstate0 ins)).
Proof. exact syncer_converges. Qed.
Print Assumptions c26_converges.

Theorem c26_vanished_deleted : forall ord, ord_ok ord -> forall gs inss es cs ws pend o,
  interleaving ord gs inss es -> proc (syncer0 gs) es = ((cs, ws, pend), o) ->
  forall i g ins1 t items lrev ins2, nth_error gs i = Some g ->
  nth_error inss i = Some (ins1 ++ (t, RListOk items lrev) :: ins2) ->
  forall k, rvl k (sv (spec_run g sstate0 ins1)) <> None -> rvl k (slist (cv g) items) = None ->
  In (OUpd i (UDel k)) (delivered o pend).
Proof. exact syncer_vanished_deleted. Qed.
Print Assumptions c26_vanished_deleted.

(* [oscan Wait l = Some ws]: scanning the callbacks from the initial WaitForDatastore, no OnUpdates ever comes while the
   last OnStatusUpdated said WaitForDatastore, and the last status reported is [ws]. *)
Theorem c26_no_update_while_waiting : forall ord, ord_ok ord -> forall gs, gs <> [] -> forall inss es cs ws pend o,
  interleaving ord gs inss es -> proc (syncer0 gs) es = ((cs, ws, pend), o) ->
  oscan Wait (delivered o pend) = Some ws.
Proof. exact syncer_no_update_while_waiting. Qed.
Print Assumptions c26_no_update_while_waiting.

(* At ANY moment (after any prefix es1 of what the syncer reads) at which the status reported last is InSync, every
   resource type's cache has already sent its own InSync, which a cache sends only in a step that completes a full
   List (or gets the server's "no such resource type") ... *)
Theorem c26_insync_after_all_listed : forall ord, ord_ok ord -> forall gs, gs <> [] -> forall inss es1 es2 cs pend o,
  interleaving ord gs inss (es1 ++ es2) -> proc (syncer0 gs) es1 = ((cs, InSync, pend), o) ->
  forall i g ins, nth_error gs i = Some g -> nth_error inss i = Some ins ->
  In (ResStatus InSync) (proj i es1) /\ existsb list_done (map snd ins) = true.
Proof. exact syncer_insync_after_all_listed. Qed.
Print Assumptions c26_insync_after_all_listed.

(* ... and when everything sent has been processed and the syncer says InSync, every resource type has completed a
   full List since its connection was last declared lost. *)
Theorem c26_insync_all_listed_since_lost : forall ord, ord_ok ord -> forall gs, gs <> [] -> forall inss es cs pend o,
  interleaving ord gs inss es -> proc (syncer0 gs) es = ((cs, InSync, pend), o) ->
  forall i g ins, nth_error gs i = Some g -> nth_error inss i = Some ins -> slisted (spec_run g sstate0 ins) = true.
Proof. exact syncer_insync_all_listed. Qed.
Print Assumptions c26_insync_all_listed_since_lost.

(* Convergence of CONTENTS (key -> revision AND value) on the callback stream, under the stated hypothesis that a
   revision determines a key's content: [inputs_ok content g ins] says every KV that the inputs of this resource type
   convert to carries, for key k at revision r, the value [content k r]. *)
Theorem c26_converges_content : forall content ord gs inss es cs ws pend o,
  ord_ok ord -> interleaving ord gs inss es -> proc (syncer0 gs) es = ((cs, ws, pend), o) ->
  forall i g ins, nth_error gs i = Some g -> nth_error inss i = Some ins -> inputs_ok content g ins ->
  forall k, lookup k (cfold [] (oups i (delivered o pend))) = lookup k (sv (spec_run g sstate0 ins)).
Proof. exact syncer_converges_content. Qed.
Print Assumptions c26_converges_content.

(* The hypothesis is necessary: without it the content-comparing oracle of Spec.v rejects a run of the model itself
   (a modification that re-uses the cached revision is swallowed, as in the code). *)
Theorem c26_content_hypothesis_needed :
  exists gs steps s' os, syncer_run id_ord gs (fst (syncer_init gs)) steps = Some (s', os) /\
                         ok_obs gs [OStatus Wait] (refill steps os) = false.
Proof. exact oracle_needs_content. Qed.
Print Assumptions c26_content_hypothesis_needed.

(* MODEL MEETS SPEC.  The boolean oracle [ok_obs] of Spec.v - the one evaluated on the REAL syncer's callbacks by the
   correspondence run - returns true on the model's own callbacks for EVERY scripted run of the syncer model and every
   prefix of it ([refill steps os] is the script with the model's callbacks filled in), for every map iteration order
   that is a permutation, provided a revision determines content ([step_input_ok]: every KV an input converts to
   carries [content k r]; necessary by c26_content_hypothesis_needed).  This covers all clauses of the oracle: views
   converge in content after every step, vanished keys deleted in the List step, no update while WaitForDatastore, InSync
   only when every type has listed, updates of the right kind (new only for absent keys, modify/delete only for present
   ones: NoDup invariant on resources/oldResources), status callbacks are real transitions, SyncFailed only on a lost
   connection, ParseFailed only for an input whose conversion failed. *)
Theorem c26_model_meets_spec : forall content ord, ord_perm ord -> forall gs, gs <> [] -> forall steps s' os,
  syncer_run ord gs (fst (syncer_init gs)) steps = Some (s', os) -> Forall (step_input_ok content gs) steps ->
  forall n, ok_obs gs (snd (syncer_init gs)) (firstn n (refill steps os)) = true.
Proof. exact model_meets_spec. Qed.
Print Assumptions c26_model_meets_spec.

Example c26_model_meets_spec_nonvacuous :
  let gs := [mkCfgC true None] in
  let steps := [St 0 false (RListOk [mkItem 1 11 11; mkItem 2 12 12] 12) []; St 0 false RWatchOk [];
                St 0 false (REvent (EvMod (mkItem 1 13 13))) []; St 0 true (REvent EvErrExpired) [];
                St 0 false (RListOk [mkItem 1 13 13] 14) []] in
  Forall (step_input_ok (fun k r => r) gs) steps /\
  exists s' os, syncer_run id_ord gs (fst (syncer_init gs)) steps = Some (s', os) /\ ord_perm id_ord.
Proof.
  split.
  - repeat constructor; intros g Hg; cbn in Hg; inversion Hg; subst; unfold input_ok; cbn; repeat constructor.
  - eexists. eexists. split; [vm_compute; reflexivity|intros m; apply Permutation.Permutation_refl].
Qed.

(* The same semantic clauses stated directly (revisions need no hypothesis on contents). *)
Theorem c26_model_run_semantics : forall content ord gs steps s' os,
  ord_ok ord -> gs <> [] -> syncer_run ord gs (fst (syncer_init gs)) steps = Some (s', os) ->
  oscan Wait (concat os) = Some (wstatus s') /\
  (wstatus s' = InSync -> forall i g, nth_error gs i = Some g -> slisted (spec_run g sstate0 (ins_of i steps)) = true) /\
  (forall i g, nth_error gs i = Some g -> inputs_ok content g (ins_of i steps) ->
     forall k, lookup k (cfold [] (oups i (concat os))) = lookup k (sv (spec_run g sstate0 (ins_of i steps)))) /\
  (forall i g, nth_error gs i = Some g ->
     forall k, rvl k (cfold [] (oups i (concat os))) = rvl k (sv (spec_run g sstate0 (ins_of i steps)))).
Proof. exact model_meets_spec_semantic. Qed.
Print Assumptions c26_model_run_semantics.

(* The scripted runs [syncer_run] that the correspondence run compares with the real watcherSyncer are such
   interleavings (one cache step at a time, a flush after each), so all of the above applies to them. *)
Theorem c26_scripted_runs_are_interleavings : forall ord gs steps s' os,
  syncer_run ord gs (fst (syncer_init gs)) steps = Some (s', os) ->
  exists es, interleaving ord gs (all_ins gs steps) es /\ proc (syncer0 gs) es = ((cstat s', wstatus s', []), concat os).
Proof. exact syncer_run_interleaving. Qed.
Print Assumptions c26_scripted_runs_are_interleavings.

(* ======================= error / timeout paths and the revision discipline of a cache =======================
   [req_of c] = the call the cache blocks in next and the revision it passes (List and Watch are always passed
   wc.currentWatchRevision); the correspondence run compares it with the real cache after every step. *)

(* A Watch is never created from revision "0": for every input sequence, whenever the cache is about to call Watch. *)
Theorem c26_watch_never_from_zero : forall ord g ins c rs,
  cache_run ord g (fst cache_init) ins = Some (c, rs) -> ph c = PWatch -> N.eqb (rev c) 0 = false.
Proof. intros ord g ins c rs H. eapply run_watch_rev; [|exact H]. cbv. discriminate. Qed.
Print Assumptions c26_watch_never_from_zero.

(* An expired / too-large / gone answer (to List, to Watch, or as a watch error event) is never treated as a lost
   connection, WHATEVER the timeout flag, refreshes the connection time, and is followed by a revision-less List. *)
Theorem c26_expired_forces_full_relist : forall ord g c t r c' rs,
  cache_step ord g c t r = Some (c', rs) -> expired_input r = true ->
  req_of c' = (PList, 0%N) /\ stale c' = false /\ ~ In ResBackendErr rs.
Proof. exact expired_relists. Qed.
Print Assumptions c26_expired_forces_full_relist.

(* The backend error behind SyncFailed is sent only by a failed List that is not an expiry, and only after the retry
   timeout elapsed without contact. *)
Theorem c26_syncfailed_only_after_timeout : forall ord g c t r c' rs,
  cache_step ord g c t r = Some (c', rs) -> In ResBackendErr rs -> r = RListErr LOther /\ stale c || t = true.
Proof. exact backend_err_only_after_timeout. Qed.
Print Assumptions c26_syncfailed_only_after_timeout.

(* A completed List with a usable revision is followed by a Watch from exactly the List's revision. *)
Theorem c26_list_then_watch_from_list_revision : forall ord g c t items lrev c' rs,
  cache_step ord g c t (RListOk items lrev) = Some (c', rs) -> zero_rev lrev = false -> req_of c' = (PWatch, lrev).
Proof. exact list_then_watch_from_list_rev. Qed.
Print Assumptions c26_list_then_watch_from_list_revision.

(* A bookmark sends nothing and moves the revision: when the watch then ends the next Watch starts from it (a bookmark
   at "0" forces a full List instead). *)
Theorem c26_bookmark_then_rewatch : forall ord g c t r t' c1 rs1 c2 rs2,
  cache_step ord g c t (REvent (EvBookmark r)) = Some (c1, rs1) ->
  cache_step ord g c1 t' (REvent EvClosed) = Some (c2, rs2) ->
  rs1 = [] /\ req_of c2 = (if N.eqb r 0 then (PList, 0%N) else (PWatch, r)).
Proof. exact bookmark_then_rewatch. Qed.
Print Assumptions c26_bookmark_then_rewatch.

(* MaxErrorsPerRevision = 5.  Fewer consecutive generic watch error events: the watch is re-created from the same
   revision and nothing is sent; the fifth clears the revision (full List from "0"); the fifth consecutive generic
   failure to CREATE the watch makes the cache List again at the cached revision. *)
Theorem c26_early_watch_error_rewatches : forall ord g c t c' rs,
  ph c = PEvents -> errs c < 4 -> N.eqb (rev c) 0 = false ->
  cache_step ord g c t (REvent EvErrOther) = Some (c', rs) -> req_of c' = (PWatch, rev c) /\ rs = [].
Proof. exact early_watch_error_event_rewatches. Qed.
Print Assumptions c26_early_watch_error_rewatches.

Theorem c26_fifth_watch_error_resyncs : forall ord g c t c' rs,
  ph c = PEvents -> errs c = 4 -> cache_step ord g c t (REvent EvErrOther) = Some (c', rs) -> req_of c' = (PList, 0%N).
Proof. exact fifth_watch_error_event_resyncs. Qed.
Print Assumptions c26_fifth_watch_error_resyncs.

Theorem c26_fifth_watch_create_error_relists : forall ord g c t c' rs,
  ph c = PWatch -> errs c = 4 -> cache_step ord g c t (RWatchErr WOther) = Some (c', rs) -> req_of c' = (PList, rev c).
Proof. exact fifth_watch_create_error_relists. Qed.
Print Assumptions c26_fifth_watch_create_error_relists.

(* A List that fails (not an expiry) after the retry timeout: the error is signalled, the cache goes back to
   WaitForDatastore and Lists again; a SendDeletesOnConnFail type has deleted and forgotten everything and Lists from "0". *)
Theorem c26_list_failure_after_timeout : forall ord, ord_ok ord -> forall g c t c' rs,
  ph c = PList -> pfr c = true -> stale c || t = true ->
  cache_step ord g c t (RListErr LOther) = Some (c', rs) ->
  In ResBackendErr rs /\ status c' = Wait /\ req_of c' = (PList, if sd g then 0%N else rev c) /\ (sd g = true -> res c' = []).
Proof. exact list_failure_after_timeout. Qed.
Print Assumptions c26_list_failure_after_timeout.

(* MODEL MEETS SPEC, revision clause.  The oracle also judges the REQUESTS of the real caches ([ok_reqs]: a Watch is
   created from exactly the last revision the datastore reported for that resource type - a completed List's revision,
   the last event's or bookmark's - and never from "0"; a List is revision-less or at that revision).  Every scripted
   run of the model satisfies it, for every map order. *)
Theorem c26_model_requests_meet_spec : forall ord gs steps s' mo,
  syncer_run_obs ord gs (fst (syncer_init gs)) steps = Some (s', mo) ->
  ok_reqs (map (fun _ => 0%N) gs) steps (map snd mo) = true.
Proof. exact model_requests_meet_spec. Qed.
Print Assumptions c26_model_requests_meet_spec.

(* The run evaluated by check_case (with the requests observed) is the scripted run the theorems are about. *)
Theorem c26_observed_runs_are_scripted_runs : forall ord gs steps s s' mo,
  syncer_run_obs ord gs s steps = Some (s', mo) -> syncer_run ord gs s steps = Some (s', map fst mo).
Proof. intros ord gs steps. exact (syncer_run_obs_outs ord gs steps). Qed.
Print Assumptions c26_observed_runs_are_scripted_runs.

(* Non-vacuity: a run with a list, an unobserved deletion found by the resync, a lost connection and recovery. *)
Example c26_example :
  let g := mkCfgC true None in
  let ins := [(false, RListOk [mkItem 1 11 5; mkItem 2 12 6] 12); (false, RWatchOk);
              (false, REvent (EvMod (mkItem 1 13 7))); (false, REvent EvErrExpired);
              (false, RListOk [mkItem 1 13 7] 14); (false, RWatchErr WConnRefused); (true, RWatchErr WConnRefused);
              (false, RListErr LOther); (false, RListOk [mkItem 3 20 1] 20)] in
  option_map (fun cr => upds_of (snd cr)) (cache_run id_ord g (fst cache_init) ins)
  = Some [UNew 1 11 5; UNew 2 12 6; UMod 1 13 7; UDel 2; UDel 1; UNew 3 20 1]
  /\ ord_ok id_ord.
Proof. split; [vm_compute; reflexivity|intros m x; reflexivity]. Qed.
