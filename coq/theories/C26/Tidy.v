(* C26 — proofs, part 7: one step of a cache sends updates of the right kind (new only for keys the consumer does not
   hold, modified/deleted only for keys it holds) and keeps wc.resources free of duplicate keys, for every map
   iteration order that is a permutation. *)
From Coq Require Import List NArith Arith Bool Lia Permutation.
From Verif.C26 Require Import Model Spec Proofs Steps.
Import ListNotations.

Definition ord_perm (ord : rmap -> rmap) : Prop := forall m, Permutation (ord m) m.
Lemma ord_perm_ok ord : ord_perm ord -> ord_ok ord.
Proof. intros H m x. split; apply Permutation_in; [apply H|apply Permutation_sym, H]. Qed.
Lemma ord_perm_nodup ord m : ord_perm ord -> NoDup (map fst m) -> NoDup (map fst (ord m)).
Proof. intros H Hn. eapply Permutation_NoDup; [|exact Hn]. apply Permutation_map, Permutation_sym, H. Qed.

Section T.
  Variable ord : rmap -> rmap.
  Hypothesis Hperm : ord_perm ord.
  Let Ho : ord_ok ord := ord_perm_ok ord Hperm.

  Ltac lt :=
    match goal with |- context [loop_top ?a] =>
      let EL := fresh "EL" in destruct (loop_top a) as [cL oL] eqn:EL; apply loop_top_spec in EL; cbn in EL;
      destruct EL as (L & _ & _ & L2 & _) end.
  Ltac fin H := intros H; apply some_inj, pair_inj in H; destruct H as [<- <-].

  Lemma cache_step_tidy g c V S t r c' rs :
    (forall k, rvl k V = lookup k (res c)) -> (forall k, rvl k S = lookup k (res c)) -> NoDup (map fst (res c)) ->
    cache_step ord g c t r = Some (c', rs) -> fits V (upds_of rs) /\ NoDup (map fst (res c')).
  Proof.
    intros R1 R2 Nd. unfold cache_step. cbv zeta. set (c1 := set_stale c (stale c || t)).
    assert (Er : res c1 = res c) by (destruct c; reflexivity).
    assert (Hdel : forall W l, (forall k, In k (map fst l) -> rvl k W <> None) -> NoDup (map fst l) ->
                               fits W (map (fun kr : N * N => UDel (fst kr)) (ord l))).
    { intros W l Hp Hn. apply fits_dels; [apply ord_perm_nodup; assumption|].
      intros k Hk. apply Hp. apply (ord_keys ord Ho) in Hk. apply lookup_in. exact Hk. }
    destruct (ph c1); destruct r as [items lrev|e| |e|e]; try discriminate.
    - (* successful list *)
      unfold step_list. set (c0 := set_crd (mark_connected c1) true).
      assert (Er0 : res c0 = res c) by (destruct c; reflexivity).
      destruct (match status c0 with Wait => send_status c0 Resync | _ => (c0, []) end) as [c2 o1] eqn:E1.
      assert (H1 : res c2 = res c /\ upds_of o1 = []).
      { destruct (status c0); [apply send_status_spec in E1; destruct E1 as (-> & U & _); split; [destruct c0; exact Er0|exact U]|..];
          apply pair_inj in E1; destruct E1 as [<- <-]; auto. }
      destruct H1 as [Er2 U1]. rewrite Er2.
      destruct (handle_items g (set_res c2 []) (res c) items) as [[c3 old] o2] eqn:E2.
      assert (HI1 : I1 (res (set_res c2 [])) (res c) V) by (intros k; rewrite R1; destruct c2; reflexivity).
      assert (HI2 : I2 (res (set_res c2 [])) (res c)) by (intros k Hk; destruct c2; cbn in Hk; congruence).
      assert (HI3 : I3 (res (set_res c2 [])) []) by (intros k; destruct c2; reflexivity).
      assert (Nd0 : NoDup (map fst (res (set_res c2 [])))) by (destruct c2; constructor).
      destruct (handle_items_spec _ _ _ _ _ _ _ _ _ E2 HI1 HI2 HI3) as (A1 & A2 & _).
      destruct (handle_items_tidy _ _ _ _ _ _ _ _ _ E2 HI1 HI2 HI3 Nd0 Nd) as (T1 & T2 & T3).
      destruct (finish_resync ord c3 old) as [c4 o3] eqn:E3. apply (finish_resync_spec ord Ho) in E3. destruct E3 as (-> & U3 & _).
      assert (HF : fits V (upds_of (o1 ++ o2 ++ o3))).
      { rewrite !upds_of_app, U1, U3. cbn [app]. apply fits_app. split; [exact T1|]. apply Hdel; [|exact T3].
        intros k Hk. apply lookup_in in Hk. rewrite (A1 k). destruct (lookup k (res c3)) eqn:El; [|exact Hk].
        exfalso. apply Hk. apply A2. congruence. }
      destruct (zero_rev lrev).
      + destruct items; [|discriminate]. unfold seq2. lt. fin H. rewrite upds_of_app, L2, app_nil_r. split; [exact HF|].
        rewrite L. destruct c3; exact T2.
      + fin H. split; [exact HF|]. destruct c3; exact T2.
    - (* list errors *)
      unfold step_list. destruct e.
      + destruct (finish_resync ord c1 []) as [c4 o3] eqn:E3. apply (finish_resync_spec ord Ho) in E3. destruct E3 as (-> & U3 & _).
        rewrite (ord_nil ord Ho) in U3. unfold seq2. lt. fin H. rewrite upds_of_app, U3, L2. cbn. split; [exact I|].
        rewrite L. destruct c; exact Nd.
      + lt. fin H. rewrite L2. split; [exact I|]. rewrite L. destruct c; exact Nd.
      + destruct (stale (set_crd c1 true)).
        * destruct (sd g).
          -- match goal with |- context [send_deletions ord ?a] => destruct (send_deletions ord a) as [cD oD] eqn:ED end.
             apply (send_deletions_spec ord Ho) in ED. destruct ED as (D1 & _ & _ & _ & _ & _ & _ & _ & _ & _ & D11 & _).
             unfold seq2. lt. fin H. rewrite upds_of_app. change (upds_of (ResBackendErr :: oD)) with (upds_of oD). rewrite L2, app_nil_r, D11.
             assert (Erx : forall x, res (set_polls (set_conn (set_crd c1 true) false) x x) = res c) by (intros; destruct c; reflexivity).
             rewrite Erx. split; [|rewrite L, D1; constructor].
             apply Hdel; [|exact Nd]. intros k Hk. rewrite R1. apply lookup_in. exact Hk.
          -- unfold seq2. lt. fin H. rewrite upds_of_app, L2. cbn. split; [exact I|].
             rewrite L. destruct c; exact Nd.
        * lt. fin H. rewrite L2. split; [exact I|]. rewrite L. destruct c; exact Nd.
    - fin H. split; [exact I|]. destruct c; exact Nd.
    - unfold step_watch. destruct e; try destruct (stale c1); try destruct (5 <=? _);
        lt; fin H; rewrite L2; (split; [exact I|]); rewrite L; destruct c; exact Nd.
    - unfold step_event, reenter.
      assert (HI1 : I1 (res c1) [] V) by (intros k; rewrite Er, R1; destruct (lookup k (res c)); reflexivity).
      assert (HI2 : I2 (res c1) []) by (intros k _; reflexivity).
      assert (HI3 : I3 (res c1) S) by (intros k; rewrite Er; apply R2).
      assert (Nd1 : NoDup (map fst (res c1))) by (rewrite Er; exact Nd).
      destruct e.
      1-3: match goal with |- context [handle_wl ?gg ?cc [] ?k ?r ?v] =>
             destruct (handle_wl gg cc [] k r v) as [[cH oldH] oH] eqn:EH end;
           destruct (handle_wl_tidy _ _ _ _ _ _ _ _ _ _ _ EH HI1 HI2 HI3 Nd1 (NoDup_nil _)) as (T1 & T2 & _);
           fin H; split; [exact T1|destruct cH; exact T2].
      1,4: fin H; split; [exact I|destruct c; exact Nd].
      all: try destruct (5 <=? _); lt; fin H; rewrite L2; (split; [exact I|]); rewrite L; destruct c; exact Nd.
  Qed.
End T.
