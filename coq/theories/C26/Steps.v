(* C26 — proofs, part 2: one step of a cache preserves the invariant and the relation to the specification. *)
From Coq Require Import List NArith Arith Bool Lia.
From Verif.C26 Require Import Model Spec Proofs.
Import ListNotations.

(* invariant of a cache between inputs: while it is watching (or about to) it has reported InSync and knows the API
   is installed; while it is about to List, performFullResync is set *)
Definition cinv (c : cache) : Prop :=
  (ph c <> PList -> status c = InSync /\ crd c = true) /\ (ph c = PList -> pfr c = true).
(* relation between a cache, the specification state of its resource type and the consumer's view *)
Definition rel (c : cache) (sp : sstate) (V : vmap) : Prop :=
  (forall k, rvl k V = lookup k (res c)) /\ (forall k, rvl k (sv sp) = lookup k (res c)) /\ sstale sp = stale c
  /\ (status c = InSync -> slisted sp = true).
Definition post (g : cfg) (c : cache) (sp : sstate) (V : vmap) (t : bool) (r : resp) (c' : cache) (rs : list result) : Prop :=
  cinv c' /\ rel c' (spec_step g sp t r) (cfold V (upds_of rs)) /\ nowait (status c) rs = Some (status c').

Lemma send_status_spec c s c' o :
  send_status c s = (c', o) -> c' = set_status c s /\ upds_of o = [] /\ nowait (status c) o = Some s.
Proof.
  unfold send_status. destruct (st_eqb s (status c)) eqn:E; intros H; injection H as <- <-.
  - apply st_eqb_eq in E. subst s. destruct c; cbn. auto.
  - cbn. auto.
Qed.

Lemma loop_top_spec c c' o :
  loop_top c = (c', o) ->
  res c' = res c /\ crd c' = crd c /\ stale c' = stale c /\ upds_of o = [] /\ nowait (status c) o = Some (status c') /\
  (ph c' = PList -> pfr c' = true) /\
  (ph c' <> PList -> status c' = status c /\ pfr c = false /\ N.eqb (rev c) 0 = false) /\
  (status c' = InSync -> status c = InSync) /\
  (crd c = true -> lpoll c = false -> wpoll c = false -> conn c = false -> pfr c || N.eqb (rev c) 0 = true -> status c' = Wait).
Proof.
  unfold loop_top. destruct c as [res0 rev0 errs0 pfr0 ph0 st0 crd0 lp0 wp0 conn0 stale0]. cbn.
  destruct (pfr0 || (rev0 =? 0)%N) eqn:E.
  - destruct (crd0 && negb (lp0 || wp0)) eqn:E2; cbn.
    + unfold send_status; cbn. destruct (st_eqb (if conn0 then Resync else Wait) st0) eqn:E3; cbn;
        intros H; inversion H; subst; clear H; cbn.
      * apply st_eqb_eq in E3. repeat split; auto; try congruence. intros; subst; reflexivity.
      * repeat split; auto; try congruence. destruct conn0; congruence. intros; subst; reflexivity.
    + intros H; inversion H; subst; clear H; cbn. repeat split; auto; try congruence.
      intros; subst. cbn in E2. discriminate.
  - intros H; inversion H; subst; clear H; cbn. apply orb_false_elim in E. destruct E.
    repeat split; auto; try congruence.
Qed.

Arguments loop_top : simpl never.
Lemma some_inj {A} (a b : A) : Some a = Some b -> a = b.
Proof. congruence. Qed.
Lemma pair_inj {A B} (a a' : A) (b b' : B) : (a, b) = (a', b') -> a = a' /\ b = b'.
Proof. intros H; inversion H; auto. Qed.

Section S2.
  Variable ord : rmap -> rmap.
  Hypothesis ord_in : forall m x, In x (ord m) <-> In x m.

  Lemma finish_resync_spec c old c' o :
    finish_resync ord c old = (c', o) ->
    c' = set_status c InSync /\ upds_of o = map (fun kr : N * N => UDel (fst kr)) (ord old) /\ nowait (status c) o = Some InSync.
  Proof.
    unfold finish_resync. intros H.
    assert (Ed : upds_of (match old with [] => [] | _ => [ResUpd (map (fun kr : N * N => UDel (fst kr)) (ord old))] end)
                 = map (fun kr : N * N => UDel (fst kr)) (ord old)).
    { destruct old; [rewrite (ord_nil ord ord_in); reflexivity|]. cbn. apply app_nil_r. }
    set (dels := match old with [] => [] | _ => [ResUpd (map (fun kr : N * N => UDel (fst kr)) (ord old))] end) in *.
    assert (Hn : forall s, s <> Wait -> nowait s dels = Some s).
    { intros s Hs. unfold dels. destruct old; [reflexivity|]. cbn. destruct s; congruence. }
    destruct c as [res0 rev0 errs0 pfr0 ph0 st0 crd0 lp0 wp0 conn0 stale0]. cbn in *.
    destruct st0; cbn in H; unfold send_status in H; cbn in H; inversion H; subst; clear H; cbn;
      rewrite ?upds_of_app, ?Ed; cbn; rewrite ?app_nil_r; (split; [reflexivity|split; [reflexivity|]]);
      rewrite ?nowait_app; try rewrite (Hn Resync) by congruence; try rewrite (Hn InSync) by congruence; reflexivity.
  Qed.

  Lemma send_deletions_spec c c' o :
    send_deletions ord c = (c', o) ->
    res c' = [] /\ rev c' = 0%N /\ ph c' = ph c /\ pfr c' = pfr c /\ crd c' = crd c /\ lpoll c' = lpoll c /\ wpoll c' = wpoll c
    /\ conn c' = conn c /\ stale c' = stale c /\ (status c' = InSync -> status c = InSync)
    /\ upds_of o = map (fun kr : N * N => UDel (fst kr)) (ord (res c)) /\ nowait (status c) o = Some (status c').
  Proof.
    unfold send_deletions. destruct c as [res0 rev0 errs0 pfr0 ph0 st0 crd0 lp0 wp0 conn0 stale0]. cbn.
    destruct res0 as [|x res0].
    - intros H; inversion H; subst; clear H; cbn. rewrite (ord_nil ord ord_in). repeat split; auto.
    - destruct st0; cbn; unfold send_status; cbn; intros H; inversion H; subst; clear H; cbn;
        rewrite ?upds_of_single_dels; repeat split; auto; try congruence;
        try (apply nowait_single_dels; congruence).
  Qed.

  Ltac use_loop_top H :=
    let A1 := fresh "L" in
    apply loop_top_spec in H; cbn in H; destruct H as (?L & ?L & ?L & ?L & ?L & ?L & ?L & ?L & ?L).

  (* ---- Watch outcomes ---- *)
  Lemma step_watch_post g c sp V t e c' rs :
    cinv c -> rel c sp V -> ph c = PWatch ->
    step_watch (set_stale c (stale c || t)) e = (c', rs) ->
    post g c sp V t (match e with None => RWatchOk | Some e => RWatchErr e end) c' rs.
  Proof.
    intros [Hi1 Hi2] (R1 & R2 & R3 & R4) Hp H.
    destruct c as [res0 rev0 errs0 pfr0 ph0 st0 crd0 lp0 wp0 conn0 stale0]. cbn in *. subst ph0.
    destruct Hi1 as [Hs Hc]; [congruence|]. subst st0 crd0. destruct sp as [sv0 ss0 sl0]. cbn in *. subst ss0.
    specialize (R4 eq_refl). subst sl0.
    unfold post, cinv, rel.
    destruct e as [[| | |]|]; unfold step_watch in H;
      try (match type of H with context [Nat.leb 5 ?x] => destruct (Nat.leb 5 x) end); cbn in H.
    6: { inversion H; subst; clear H; cbn. repeat split; auto; congruence. }
    2: destruct (stale0 || t) eqn:Est.
    all: use_loop_top H; cbn; rewrite ?L, ?L0, ?L1, ?L2; cbn; rewrite ?Est; cbn.
    all: repeat split; auto; try tauto; try (intros Hq; destruct (L5 Hq) as (? & ? & ?); congruence).
    all: try (intros Hq; apply L6 in Hq; auto; congruence).
    all: try (intros Hq; rewrite L7 in Hq by (auto using orb_true_r); congruence).
  Qed.

  (* ---- watch events ---- *)
  Lemma step_event_post g c sp V t e c' rs :
    cinv c -> rel c sp V -> ph c = PEvents ->
    step_event g (set_stale c (stale c || t)) e = (c', rs) ->
    post g c sp V t (REvent e) c' rs.
  Proof.
    intros [Hi1 Hi2] (R1 & R2 & R3 & R4) Hp H.
    destruct c as [res0 rev0 errs0 pfr0 ph0 st0 crd0 lp0 wp0 conn0 stale0]. cbn in *. subst ph0.
    destruct Hi1 as [Hs Hc]; [congruence|]. subst st0 crd0. destruct sp as [sv0 ss0 sl0]. cbn in *. subst ss0.
    specialize (R4 eq_refl). subst sl0.
    unfold post, cinv, rel.
    assert (HI1 : I1 res0 [] V) by (intros k; rewrite R1; destruct (lookup k res0); reflexivity).
    assert (HI2 : I2 res0 []) by (intros k _; reflexivity).
    assert (HD : forall k r v c1 old1 o,
      handle_wl g {| res := res0; rev := rev0; errs := errs0; pfr := pfr0; ph := PEvents; status := InSync; crd := true;
                     lpoll := lp0; wpoll := wp0; conn := conn0; stale := stale0 || t |} [] k r v = (c1, old1, o) ->
      (set_stale c1 false, o) = (c', rs) ->
      ((ph c' <> PList -> status c' = InSync /\ crd c' = true) /\ (ph c' = PList -> pfr c' = true)) /\
      ((forall q, rvl q (cfold V (upds_of rs)) = lookup q (res c')) /\
       (forall q, rvl q (sapply_conv (cv g) sv0 k r v) = lookup q (res c')) /\ false = stale c' /\ (status c' = InSync -> true = true)) /\
      nowait InSync rs = Some (status c')).
    { intros k r v c1 old1 o E1 E2. injection E2 as <- <-.
      destruct (handle_wl_spec _ _ _ _ _ _ _ _ _ V sv0 E1 HI1 HI2 R2) as (A1 & A2 & A3 & A4 & A5).
      destruct A4 as (S1 & S2 & S3 & S4 & S5 & S6 & S7 & S8). destruct c1; cbn in *. subst.
      assert (Eold : old1 = []).
      { apply lookup_nil_all. intros q. destruct (lookup q res) eqn:El.
        - apply A2. congruence.
        - specialize (A1 q). rewrite El in A1. specialize (A3 q). rewrite El in A3.
          (* nothing can come back from an empty oldResources *)
          destruct (lookup q old1) eqn:Eo; [|reflexivity]. exfalso.
          clear - E1 Eo. unfold handle_wl in E1. destruct (convert (cv g) k r v) as [kvs e0].
          destruct (handle_many _ [] kvs) as [[rs1 oldx] o1] eqn:Em. inversion E1; subst; clear E1.
          assert (forall xs rs0 rsx ox oo, handle_many rs0 [] xs = (rsx, ox, oo) -> ox = []).
          { induction xs as [|x xs IH]; intros rs0 rsx ox oo Hh; cbn in Hh; [inversion Hh; reflexivity|].
            destruct x as [[kk rr] vv]. cbn in Hh.
            destruct vv; destruct (lookup kk rs0); try destruct (N.eqb _ _);
              match type of Hh with context [handle_many ?a [] xs] => destruct (handle_many a [] xs) as [[? ?] ?] eqn:Ex end;
              inversion Hh; subst; eapply IH; eauto. }
          apply H in Em. subst. discriminate. }
      subst old1. repeat split; auto; try congruence.
      - intros q. rewrite (A1 q). destruct (lookup q res); reflexivity.
      - apply nowait_nostatus; [exact A5|congruence]. }
    destruct e; unfold step_event, reenter in H;
      try (match type of H with context [Nat.leb 5 ?x] => destruct (Nat.leb 5 x) end); cbn in H.
    1-3: match type of H with context [handle_wl ?a ?b ?c ?d ?e ?f] => destruct (handle_wl a b c d e f) as [[c1 old1] o] eqn:E1 end;
         eapply HD; eauto.
    1: { inversion H; subst; clear H; cbn. repeat split; auto; try congruence. }
    4: { inversion H; subst; clear H; cbn. rewrite orb_comm. repeat split; auto; try congruence. }
    all: use_loop_top H; cbn; rewrite ?L, ?L0, ?L1, ?L2; cbn.
    all: repeat split; auto; try tauto; try (intros Hq; destruct (L5 Hq) as (? & ? & ?); congruence).
    all: try (intros Hq; apply L6 in Hq; auto; congruence).
    all: try (rewrite orb_comm; congruence).
  Qed.

  (* ---- List errors ---- *)
  Lemma step_list_err_post g c sp V t e c' rs :
    cinv c -> rel c sp V -> ph c = PList ->
    step_list ord g (set_stale c (stale c || t)) (inr e) = Some (c', rs) ->
    post g c sp V t (RListErr e) c' rs.
  Proof.
    intros [Hi1 Hi2] (R1 & R2 & R3 & R4) Hp H.
    destruct c as [res0 rev0 errs0 pfr0 ph0 st0 crd0 lp0 wp0 conn0 stale0]. cbn in *. subst ph0.
    specialize (Hi2 eq_refl). subst pfr0. destruct sp as [sv0 ss0 sl0]. cbn in *. subst ss0.
    unfold post, cinv, rel. destruct g as [sd0 cv0].
    destruct e; unfold step_list in H.
    - (* not found: counts as a completed list *)
      match type of H with context [finish_resync ord ?a ?b] => destruct (finish_resync ord a b) as [c1 o1] eqn:E1 end.
      apply finish_resync_spec in E1. destruct E1 as (-> & U1 & N1). cbn in *. rewrite (ord_nil ord ord_in) in U1.
      apply some_inj in H. unfold seq2 in H.
      match type of H with context [loop_top ?a] => destruct (loop_top a) as [c2 o2] eqn:E2 end.
      apply pair_inj in H; destruct H as [<- <-]. use_loop_top E2. rewrite upds_of_app, U1, L2, nowait_app, N1. cbn.
      rewrite L, L0, L1. repeat split; auto; try (match goal with Hq : ph _ <> PList |- _ => destruct (L5 Hq) as (? & ? & ?); try congruence; try discriminate end).
    - (* expired / too large *)
      apply some_inj in H. use_loop_top H. cbn. rewrite L, L1, L2. cbn.
      repeat split; auto; try (match goal with Hq : ph _ <> PList |- _ => destruct (L5 Hq) as (? & ? & ?); try congruence; try discriminate end).
      all: try (intros Hq; apply L6 in Hq; auto).
    - cbn in H. destruct (stale0 || t) eqn:Est; cbn in H.
      + (* connection lost *)
        destruct sd0; cbn in H.
        * match type of H with context [send_deletions ord ?a] => destruct (send_deletions ord a) as [c1 o1] eqn:E1 end.
          apply send_deletions_spec in E1. cbn in E1.
          destruct E1 as (D1 & D2 & D3 & D4 & D5 & D6 & D7 & D8 & D9 & D10 & D11 & D12).
          apply some_inj in H. unfold seq2 in H. destruct (loop_top c1) as [c2 o2] eqn:E2. apply pair_inj in H; destruct H as [<- <-].
          use_loop_top E2. cbn. rewrite upds_of_app, L2, app_nil_r, D11, L, D1, L1, D9. cbn.
          rewrite nowait_app, D12, L3, ?Est. cbn.
          assert (Hw : status c2 = Wait) by (apply L7; auto; rewrite D4; reflexivity).
          repeat split; auto; try (match goal with Hq : ph _ <> PList |- _ => destruct (L5 Hq) as (? & ? & ?); try congruence; try discriminate end); try congruence.
          intros k. pose proof (cfold_dels (ord res0) V k) as Hc; unfold cfold in Hc; rewrite Hc; clear Hc. destruct (existsb (N.eqb k) (map fst (ord res0))) eqn:Ex; [reflexivity|].
          rewrite R1. destruct (lookup k res0) eqn:El; [|reflexivity]. exfalso.
          assert (In k (map fst (ord res0))) by (apply (ord_keys ord ord_in); congruence).
          apply existsb_in in H. congruence.
        * apply some_inj in H. unfold seq2 in H.
          match type of H with context [loop_top ?a] => destruct (loop_top a) as [c2 o2] eqn:E2 end.
          apply pair_inj in H; destruct H as [<- <-]. use_loop_top E2.
          change (upds_of (ResBackendErr :: o2)) with (upds_of o2). cbn [status]. change (nowait st0 (ResBackendErr :: o2)) with (nowait st0 o2).
          rewrite L2. cbn. rewrite L, L1, L3, ?Est. cbn.
          assert (Hw : status c2 = Wait) by (apply L7; auto).
          repeat split; auto; try (match goal with Hq : ph _ <> PList |- _ => destruct (L5 Hq) as (? & ? & ?); try congruence; try discriminate end); try congruence.
      + apply some_inj in H. use_loop_top H. cbn. rewrite L, L1, L2, ?Est. cbn.
        repeat split; auto; try (match goal with Hq : ph _ <> PList |- _ => destruct (L5 Hq) as (? & ? & ?); try congruence; try discriminate end).
        all: try (intros Hq; apply L6 in Hq; auto).
  Qed.

  (* ---- a successful List: mark and sweep ---- *)
  Lemma step_list_ok_post g c sp V t items lrev c' rs :
    cinv c -> rel c sp V -> ph c = PList ->
    step_list ord g (set_stale c (stale c || t)) (inl (items, lrev)) = Some (c', rs) ->
    post g c sp V t (RListOk items lrev) c' rs.
  Proof.
    intros [Hi1 Hi2] (R1 & R2 & R3 & R4) Hp H.
    destruct c as [res0 rev0 errs0 pfr0 ph0 st0 crd0 lp0 wp0 conn0 stale0]. cbn in *. subst ph0.
    specialize (Hi2 eq_refl). subst pfr0. destruct sp as [sv0 ss0 sl0]. cbn in *. subst ss0.
    unfold post, cinv, rel. unfold step_list in H.
    pose (c0 := {| res := res0; rev := rev0; errs := errs0; pfr := true; ph := PList; status := st0; crd := true;
                  lpoll := lp0; wpoll := wp0; conn := true; stale := false |}).
    change (set_crd (mark_connected (set_stale ?a ?b)) true) with c0 in H. cbn [status] in H.
    change (status c0) with st0 in H.
    assert (Hc1 : exists s1 o1, (match st0 with Wait => send_status c0 Resync | _ => (c0, []) end) = (set_status c0 s1, o1)
                  /\ s1 <> Wait /\ upds_of o1 = [] /\ nowait st0 o1 = Some s1).
    { destruct st0; cbn.
      - exists Resync, [ResStatus Resync]. repeat split; congruence.
      - exists Resync, []. repeat split; congruence.
      - exists InSync, []. repeat split; congruence. }
    destruct Hc1 as (s1 & o1 & E1 & Hs1 & U1 & N1). rewrite E1 in H. clear E1.
    cbn [res set_res set_status c0] in H.
    match type of H with context [handle_items g ?a ?b items] => destruct (handle_items g a b items) as [[c2 old] o2] eqn:E2 end.
    assert (HI1 : I1 [] res0 V) by (intros k; rewrite R1; reflexivity).
    assert (HI2 : I2 [] res0) by (intros k Hk; cbn in Hk; congruence).
    assert (HI3 : I3 [] []) by (intros k; reflexivity).
    destruct (handle_items_spec _ _ _ _ _ _ _ V [] E2 HI1 HI2 HI3) as (A1 & A2 & A3 & A4 & A5).
    destruct A4 as (S1 & S2 & S3 & S4 & S5 & S6 & S7 & S8). cbn in S1, S2, S3, S4, S5, S6, S7, S8.
    destruct (finish_resync ord c2 old) as [c3 o3] eqn:E3. apply finish_resync_spec in E3. destruct E3 as (-> & U3 & N3).
    rewrite S1 in N3.
    assert (HV : forall k, rvl k (cfold V (upds_of (o1 ++ o2 ++ o3))) = lookup k (res c2)).
    { intros k. rewrite !upds_of_app, U1, U3. cbn [app]. rewrite cfold_app, cfold_dels.
      destruct (existsb (N.eqb k) (map fst (ord old))) eqn:Ex.
      - apply existsb_in in Ex. apply (ord_keys ord ord_in) in Ex.
        destruct (lookup k (res c2)) eqn:El; [|reflexivity]. exfalso. apply Ex. apply A2. congruence.
      - rewrite (A1 k). destruct (lookup k (res c2)) eqn:El; [reflexivity|].
        destruct (lookup k old) eqn:Eo; [|reflexivity]. exfalso.
        assert (In k (map fst (ord old))) by (apply (ord_keys ord ord_in); congruence).
        apply existsb_in in H0. congruence. }
    assert (HN : nowait st0 (o1 ++ o2 ++ o3) = Some InSync).
    { rewrite nowait_app, N1, nowait_app, (nowait_nostatus o2 s1 A5 Hs1). exact N3. }
    destruct c2 as [res2 rev2 errs2 pfr2 ph2 st2 crd2 lp2 wp2 conn2 stale2]. cbn in *. subst.
    destruct (zero_rev lrev).
    - destruct items; [|discriminate]. apply some_inj in H. unfold seq2 in H.
      match type of H with context [loop_top ?a] => destruct (loop_top a) as [c4 o4] eqn:E4 end.
      apply pair_inj in H; destruct H as [<- <-]. use_loop_top E4.
      rewrite upds_of_app, L2, app_nil_r, nowait_app, HN, L3, L, L1.
      repeat split; auto; try congruence.
      all: try (match goal with Hq : ph _ <> PList |- _ => destruct (L5 Hq) as (? & ? & ?); try congruence; try discriminate end).
    - apply some_inj in H. apply pair_inj in H; destruct H as [<- <-]. cbn.
      repeat split; auto; try congruence.
  Qed.

  Lemma cache_step_post g c sp V t r c' rs :
    cinv c -> rel c sp V -> cache_step ord g c t r = Some (c', rs) -> post g c sp V t r c' rs.
  Proof.
    intros Hi Hr H. unfold cache_step in H. cbv zeta in H.
    assert (Ep : ph (set_stale c (stale c || t)) = ph c) by (destruct c; reflexivity). rewrite Ep in H.
    destruct (ph c) eqn:Eph; destruct r; try discriminate.
    - eapply step_list_ok_post; eauto.
    - eapply step_list_err_post; eauto.
    - apply some_inj in H. apply (step_watch_post g c sp V t None); auto.
    - apply some_inj in H. apply (step_watch_post g c sp V t (Some e)); auto.
    - apply some_inj in H. eapply step_event_post; eauto.
  Qed.

  (* ---- a whole run of one cache ---- *)
  Fixpoint cache_run (g : cfg) (c : cache) (ins : list (bool * resp)) : option (cache * list result) :=
    match ins with
    | [] => Some (c, [])
    | (t, r) :: rest =>
        match cache_step ord g c t r with
        | Some (c1, o1) => match cache_run g c1 rest with Some (c2, o2) => Some (c2, o1 ++ o2) | None => None end
        | None => None
        end
    end.
  Fixpoint spec_run (g : cfg) (sp : sstate) (ins : list (bool * resp)) : sstate :=
    match ins with [] => sp | (t, r) :: rest => spec_run g (spec_step g sp t r) rest end.

  Lemma cache_run_post g ins : forall c sp V c' rs,
    cinv c -> rel c sp V -> cache_run g c ins = Some (c', rs) ->
    cinv c' /\ rel c' (spec_run g sp ins) (cfold V (upds_of rs)) /\ nowait (status c) rs = Some (status c').
  Proof.
    induction ins as [|[t r] ins IH]; intros c sp V c' rs Hi Hr H; cbn in H.
    - apply some_inj in H. apply pair_inj in H. destruct H as [<- <-]. cbn. auto.
    - destruct (cache_step ord g c t r) as [[c1 o1]|] eqn:E1; [|discriminate].
      destruct (cache_run g c1 ins) as [[c2 o2]|] eqn:E2; [|discriminate].
      apply some_inj in H. apply pair_inj in H. destruct H as [<- <-].
      destruct (cache_step_post _ _ _ _ _ _ _ _ Hi Hr E1) as (P1 & P2 & P3).
      destruct (IH _ _ _ _ _ P1 P2 E2) as (Q1 & Q2 & Q3).
      rewrite upds_of_app, cfold_app, nowait_app, P3. cbn. auto.
  Qed.

  Lemma cache_init_ok : cinv (fst cache_init) /\ rel (fst cache_init) sstate0 [] /\ snd cache_init = [] /\ status (fst cache_init) = Wait.
  Proof.
    cbv. repeat split; auto; try congruence; try discriminate.
  Qed.
End S2.

(* ---------- the statements used in Props.v ---------- *)
Definition ord_ok (ord : rmap -> rmap) : Prop := forall m x, In x (ord m) <-> In x m.

Lemma cfold_lost us : forall V k, rvl k V <> None -> rvl k (cfold V us) = None -> In (UDel k) us.
Proof.
  induction us as [|u us IH]; intros V k Hk H; cbn in H; [congruence|].
  destruct u as [k' r v|k' r v|k']; cbn in H.
  - right. apply (IH (upsert k' (r, v) V)); auto. rewrite rvl_upsert. destruct (N.eqb k k'); congruence.
  - right. apply (IH (upsert k' (r, v) V)); auto. rewrite rvl_upsert. destruct (N.eqb k k'); congruence.
  - destruct (N.eqb k k') eqn:E.
    + apply N.eqb_eq in E. subst. left. reflexivity.
    + right. apply (IH (remove k' V)); auto. rewrite rvl_remove, E. exact Hk.
Qed.

Theorem cache_converges ord g ins c rs :
  ord_ok ord -> cache_run ord g (fst cache_init) ins = Some (c, rs) ->
  forall k, rvl k (cfold [] (upds_of rs)) = rvl k (sv (spec_run g sstate0 ins)).
Proof.
  intros Ho H k. destruct cache_init_ok as (I & R & _ & _).
  destruct (cache_run_post ord Ho g ins _ _ _ _ _ I R H) as (_ & (R1 & R2 & _) & _).
  rewrite R1, R2. reflexivity.
Qed.

Theorem cache_vanished_deleted ord g ins c rs0 t items lrev c' rs :
  ord_ok ord -> cache_run ord g (fst cache_init) ins = Some (c, rs0) ->
  cache_step ord g c t (RListOk items lrev) = Some (c', rs) ->
  forall k, rvl k (cfold [] (upds_of rs0)) <> None -> rvl k (slist (cv g) items) = None -> In (UDel k) (upds_of rs).
Proof.
  intros Ho H Hs k Hk Hn. destruct cache_init_ok as (I & R & _ & _).
  destruct (cache_run_post ord Ho g ins _ _ _ _ _ I R H) as (I1 & R1 & _).
  destruct (cache_step_post ord Ho g _ _ _ _ _ _ _ I1 R1 Hs) as (_ & (Q1 & Q2 & _) & _).
  apply (cfold_lost _ (cfold [] (upds_of rs0)) k Hk). rewrite Q1, <- Q2. exact Hn.
Qed.

Theorem cache_no_update_while_waiting ord g ins c rs :
  ord_ok ord -> cache_run ord g (fst cache_init) ins = Some (c, rs) -> nowait Wait rs = Some (status c).
Proof.
  intros Ho H. destruct cache_init_ok as (I & R & _ & Es).
  destruct (cache_run_post ord Ho g ins _ _ _ _ _ I R H) as (_ & _ & N). rewrite Es in N. exact N.
Qed.

Theorem cache_insync_listed ord g ins c rs :
  ord_ok ord -> cache_run ord g (fst cache_init) ins = Some (c, rs) ->
  status c = InSync -> slisted (spec_run g sstate0 ins) = true.
Proof.
  intros Ho H. destruct cache_init_ok as (I & R & _ & _).
  destruct (cache_run_post ord Ho g ins _ _ _ _ _ I R H) as (_ & (_ & _ & _ & R4) & _). exact R4.
Qed.

