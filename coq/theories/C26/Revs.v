(* C26 — proofs, part 9: the revision discipline of a watcher cache: which call it makes next and from which revision
   (client.List / client.Watch are always passed wc.currentWatchRevision; [req_of] in Model.v). *)
From Coq Require Import List NArith Arith Bool Lia.
From Verif.C26 Require Import Model Spec Proofs Steps Shape.
Import ListNotations.

Lemma loop_top_req c c' o :
  loop_top c = (c', o) ->
  rev c' = rev c /\ (ph c' = PList \/ (ph c' = PWatch /\ N.eqb (rev c) 0 = false)) /\ (N.eqb (rev c) 0 = true -> ph c' = PList).
Proof.
  unfold loop_top. destruct c as [res0 rev0 errs0 pfr0 ph0 st0 crd0 lp0 wp0 conn0 stale0]. cbn.
  destruct (pfr0 || (rev0 =? 0)%N) eqn:E.
  - destruct (crd0 && negb (lp0 || wp0)); cbn; [unfold send_status; cbn; destruct (st_eqb _ st0); cbn|];
      intros H; apply pair_inj in H; destruct H as [<- _]; cbn; auto.
  - apply orb_false_elim in E. destruct E as [_ E]. intros H; apply pair_inj in H; destruct H as [<- _]; cbn.
    split; [reflexivity|]. split; [right; auto|congruence].
Qed.

Definition expired_input (r : resp) : bool :=
  match r with RListErr LExpired | RWatchErr WExpired | REvent EvErrExpired => true | _ => false end.

Section R.
  Variable ord : rmap -> rmap.

  Ltac lt :=
    match goal with |- context [loop_top ?a] =>
      let EL := fresh "EL" in destruct (loop_top a) as [cL oL] eqn:EL; apply loop_top_req in EL; cbn in EL;
      destruct EL as (L1 & L2 & L3) end.
  Ltac fin H := intros H; apply some_inj, pair_inj in H; destruct H as [<- _].
  Ltac wz L1 L2 := let Hp := fresh "Hp" in intros Hp; destruct L2 as [L2|[_ L2]]; [congruence|rewrite L1; exact L2].

  (* A Watch is never created from revision "0": whenever the cache is about to call Watch its revision is not 0 *)
  Lemma step_watch_rev g c t r c' rs :
    cache_step ord g c t r = Some (c', rs) -> ph c' = PWatch -> N.eqb (rev c') 0 = false.
  Proof.
    unfold cache_step. cbv zeta. set (c1 := set_stale c (stale c || t)).
    destruct (ph c1) eqn:Ep1; destruct r as [items lrev|e| |e|e]; try discriminate.
    - unfold step_list. set (c0 := set_crd (mark_connected c1) true).
      destruct (match status c0 with Wait => send_status c0 Resync | _ => (c0, []) end) as [c2 o1].
      destruct (handle_items g (set_res c2 []) (res c2) items) as [[c3 old] o2].
      destruct (finish_resync ord c3 old) as [c4 o3]. destruct (zero_rev lrev) eqn:Ez.
      + destruct items; [|discriminate]. unfold seq2. lt. fin H. intros Hp. exfalso.
        assert (ph cL = PList) by (apply L3; reflexivity). congruence.
      + fin H. intros _. cbn. apply orb_false_elim in Ez. tauto.
    - unfold step_list. destruct e.
      + destruct (finish_resync ord c1 []) as [c4 o3]. unfold seq2. lt. fin H. wz L1 L2.
      + lt. fin H. wz L1 L2.
      + destruct (stale (set_crd c1 true)); [destruct (sd g); [destruct (send_deletions ord _) as [cD oD]|]|]; unfold seq2; lt; fin H; wz L1 L2.
    - fin H. cbn. intros Hp. destruct c; discriminate.
    - unfold step_watch. destruct e; try destruct (stale c1); try destruct (5 <=? _); lt; fin H; wz L1 L2.
    - unfold step_event, reenter. destruct e.
      1-3: match goal with |- context [handle_wl ?gg ?cc [] ?k ?r ?v] =>
             let E := fresh "EH" in destruct (handle_wl gg cc [] k r v) as [[cH oldH] oH] eqn:E;
             assert (Hph : ph cH = ph cc) by
               (unfold handle_wl in E; destruct (convert (cv gg) k r v) as [kvs e0]; destruct (handle_many (res cc) [] kvs) as [[a b] d];
                apply pair_inj in E; destruct E as [E _]; apply pair_inj in E; destruct E as [<- _]; destruct cc; reflexivity) end;
           fin H; intros Hp; exfalso; rewrite Ep1 in Hph; destruct cH; cbn in *; congruence.
      1,4: fin H; intros Hp; exfalso; destruct c; cbn in *; congruence.
      all: try destruct (5 <=? _); lt; fin H; wz L1 L2.
  Qed.

  Lemma run_watch_rev g ins : forall c c' rs,
    (ph c = PWatch -> N.eqb (rev c) 0 = false) -> cache_run ord g c ins = Some (c', rs) ->
    ph c' = PWatch -> N.eqb (rev c') 0 = false.
  Proof.
    induction ins as [|[t r] ins IH]; intros c c' rs H0 H; cbn in H.
    - apply some_inj, pair_inj in H. destruct H as [<- _]. exact H0.
    - destruct (cache_step ord g c t r) as [[c1 o1]|] eqn:E1; [|discriminate].
      destruct (cache_run ord g c1 ins) as [[c2 o2]|] eqn:E2; [|discriminate].
      apply some_inj, pair_inj in H. destruct H as [<- _]. eapply IH; [|exact E2]. eapply step_watch_rev; eauto.
  Qed.

  (* An expired / too-large / gone answer - to List, to Watch, or as a watch error event - is never treated as a lost
     connection, whatever the timeout says, and is followed by a revision-less List (full resync from "0") *)
  Lemma expired_relists g c t r c' rs :
    cache_step ord g c t r = Some (c', rs) -> expired_input r = true ->
    req_of c' = (PList, 0%N) /\ stale c' = false /\ ~ In ResBackendErr rs.
  Proof.
    intros H He. pose proof (cache_step_shape ord g c t r c' rs H) as Hs.
    assert (Hnb : ~ In ResBackendErr rs).
    { intros Hi. rewrite Forall_forall in Hs. specialize (Hs _ Hi). cbn in Hs.
      destruct r as [| [| |] | | [| | |] | []]; cbn in *; discriminate. }
    revert H. unfold cache_step. cbv zeta. set (c1 := set_stale c (stale c || t)).
    destruct (ph c1) eqn:Ep; destruct r as [items lrev|e| |e|e]; try discriminate; try destruct e; try discriminate.
    all: unfold step_list, step_watch, step_event, reenter;
      match goal with |- context [loop_top ?a] =>
        destruct (loop_top a) as [cL oL] eqn:EL; pose proof (loop_top_req _ _ _ EL) as (L1 & L2 & L3);
        pose proof (loop_top_spec _ _ _ EL) as (_ & _ & Lst & _) end;
      intros H; apply some_inj, pair_inj in H; destruct H as [<- _];
      assert (Hr0 : rev cL = 0%N) by (rewrite L1; destruct c; reflexivity);
      assert (Hpl : ph cL = PList) by (apply L3; destruct c; reflexivity);
      (split; [unfold req_of; rewrite Hpl, Hr0; reflexivity|]); (split; [rewrite Lst; destruct c; reflexivity|exact Hnb]).
  Qed.

  (* SyncFailed material: a backend error is sent only by a failed List that is not an expiry, after the timeout *)
  Lemma backend_err_only_after_timeout g c t r c' rs :
    cache_step ord g c t r = Some (c', rs) -> In ResBackendErr rs -> r = RListErr LOther /\ stale c || t = true.
  Proof.
    intros H Hi. apply cache_step_shape in H. rewrite Forall_forall in H. specialize (H _ Hi). cbn in H.
    unfold step_lost in H. destruct r as [| [| |] | | |]; try discriminate. auto.
  Qed.

  (* a completed List with a usable revision is followed by a Watch from exactly that revision *)
  Lemma list_then_watch_from_list_rev g c t items lrev c' rs :
    cache_step ord g c t (RListOk items lrev) = Some (c', rs) -> zero_rev lrev = false -> req_of c' = (PWatch, lrev).
  Proof.
    unfold cache_step. cbv zeta. set (c1 := set_stale c (stale c || t)). destruct (ph c1); try discriminate.
    unfold step_list. set (c0 := set_crd (mark_connected c1) true).
    destruct (match status c0 with Wait => send_status c0 Resync | _ => (c0, []) end) as [c2 o1].
    destruct (handle_items g (set_res c2 []) (res c2) items) as [[c3 old] o2].
    destruct (finish_resync ord c3 old) as [c4 o3]. intros H Hz. rewrite Hz in H.
    apply some_inj, pair_inj in H. destruct H as [<- _]. reflexivity.
  Qed.

  (* a bookmark moves the revision without any update; when the watch then ends, the next Watch starts from it *)
  Lemma bookmark_then_rewatch g c t r t' c1 rs1 c2 rs2 :
    cache_step ord g c t (REvent (EvBookmark r)) = Some (c1, rs1) ->
    cache_step ord g c1 t' (REvent EvClosed) = Some (c2, rs2) ->
    rs1 = [] /\ req_of c2 = (if N.eqb r 0 then (PList, 0%N) else (PWatch, r)).
  Proof.
    unfold cache_step. cbv zeta. destruct c as [res0 rev0 errs0 pfr0 ph0 st0 crd0 lp0 wp0 conn0 stale0]. cbn.
    destruct ph0; try discriminate. intros H. apply some_inj, pair_inj in H. destruct H as [<- <-]. cbn.
    intros H. apply some_inj in H. unfold reenter, loop_top in H. cbn in H. split; [reflexivity|].
    destruct (N.eqb r 0) eqn:E; cbn in H.
    - destruct (crd0 && negb (lp0 || wp0)); cbn in H; [unfold send_status in H; cbn in H; destruct (st_eqb _ st0); cbn in H|];
        apply pair_inj in H; destruct H as [<- _]; apply N.eqb_eq in E; subst; reflexivity.
    - apply pair_inj in H. destruct H as [<- _]. reflexivity.
  Qed.
End R.

(* the run with requests observed is the scripted run *)
Lemma syncer_run_obs_outs ord gs steps : forall s s' mo,
  syncer_run_obs ord gs s steps = Some (s', mo) -> syncer_run ord gs s steps = Some (s', map fst mo).
Proof.
  induction steps as [|[i t r outs] steps IH]; intros s s' mo H; cbn in *.
  - apply some_inj, pair_inj in H. destruct H as [<- <-]. reflexivity.
  - destruct (syncer_step ord gs s i t r) as [[s1 o]|]; [|discriminate].
    destruct (syncer_run_obs ord gs s1 steps) as [[s2 os]|] eqn:E; [|discriminate].
    apply some_inj, pair_inj in H. destruct H as [<- <-]. rewrite (IH _ _ _ E). reflexivity.
Qed.

Section R2.
  Variable ord : rmap -> rmap.
  Hypothesis Ho : ord_ok ord.

  (* MaxErrorsPerRevision: the fifth consecutive generic failure to CREATE a watch makes the cache List again - at the
     cached (non-zero) revision; the fifth consecutive generic watch ERROR EVENT clears the revision: List from "0" *)
  Lemma fifth_watch_create_error_relists g c t c' rs :
    ph c = PWatch -> errs c = 4 -> cache_step ord g c t (RWatchErr WOther) = Some (c', rs) -> req_of c' = (PList, rev c).
  Proof.
    unfold cache_step. cbv zeta. destruct c as [res0 rev0 errs0 pfr0 ph0 st0 crd0 lp0 wp0 conn0 stale0]. cbn.
    intros -> ->. cbn. intros H. apply some_inj in H. unfold loop_top in H. cbn in H.
    destruct (crd0 && negb (lp0 || wp0)); cbn in H; [unfold send_status in H; cbn in H; destruct (st_eqb _ st0); cbn in H|];
      apply pair_inj in H; destruct H as [<- _]; reflexivity.
  Qed.
  Lemma fifth_watch_error_event_resyncs g c t c' rs :
    ph c = PEvents -> errs c = 4 -> cache_step ord g c t (REvent EvErrOther) = Some (c', rs) -> req_of c' = (PList, 0%N).
  Proof.
    unfold cache_step. cbv zeta. destruct c as [res0 rev0 errs0 pfr0 ph0 st0 crd0 lp0 wp0 conn0 stale0]. cbn.
    intros -> ->. cbn. intros H. apply some_inj in H. unfold reenter, loop_top in H. cbn in H.
    destruct (crd0 && negb (lp0 || wp0)); cbn in H; [unfold send_status in H; cbn in H; destruct (st_eqb _ st0); cbn in H|];
      apply pair_inj in H; destruct H as [<- _]; reflexivity.
  Qed.
  (* fewer than that: the watch is simply re-created from the same revision *)
  Lemma early_watch_error_event_rewatches g c t c' rs :
    ph c = PEvents -> errs c < 4 -> N.eqb (rev c) 0 = false ->
    cache_step ord g c t (REvent EvErrOther) = Some (c', rs) -> req_of c' = (PWatch, rev c) /\ rs = [].
  Proof.
    unfold cache_step. cbv zeta. destruct c as [res0 rev0 errs0 pfr0 ph0 st0 crd0 lp0 wp0 conn0 stale0]. cbn.
    intros -> He Hr. destruct errs0 as [|[|[|[|n]]]]; try lia; cbn; unfold reenter, loop_top; cbn; rewrite Hr; cbn;
      intros H; apply some_inj, pair_inj in H; destruct H as [<- <-]; auto.
  Qed.

  (* a List that fails after the retry timeout: the error is signalled, the cache goes back to WaitForDatastore, and a
     SendDeletesOnConnFail type forgets (and has deleted) everything and will List from "0" *)
  Lemma list_failure_after_timeout g c t c' rs :
    ph c = PList -> pfr c = true -> stale c || t = true ->
    cache_step ord g c t (RListErr LOther) = Some (c', rs) ->
    In ResBackendErr rs /\ status c' = Wait /\ req_of c' = (PList, if sd g then 0%N else rev c) /\ (sd g = true -> res c' = []).
  Proof.
    unfold cache_step. cbv zeta. destruct c as [res0 rev0 errs0 pfr0 ph0 st0 crd0 lp0 wp0 conn0 stale0]. cbn.
    intros -> -> Hs. unfold step_list. cbn [stale set_crd set_stale]. rewrite Hs. cbn [sd].
    destruct (sd g).
    - match goal with |- context [send_deletions ord ?a] => destruct (send_deletions ord a) as [cD oD] eqn:ED end.
      apply (send_deletions_spec ord Ho) in ED. cbn in ED. destruct ED as (D1 & D2 & D3 & D4 & D5 & D6 & D7 & D8 & D9 & _).
      unfold seq2. destruct (loop_top cD) as [cL oL] eqn:EL.
      pose proof (loop_top_req _ _ _ EL) as (L1 & L2 & L3). pose proof (loop_top_spec _ _ _ EL) as (Lr & _ & _ & _ & _ & _ & _ & _ & Lw).
      intros H. apply some_inj, pair_inj in H. destruct H as [<- <-].
      assert (Hpl : ph cL = PList) by (apply L3; rewrite D2; reflexivity).
      split; [left; reflexivity|]. split; [apply Lw; auto; rewrite D4; reflexivity|].
      split; [unfold req_of; rewrite Hpl, L1, D2; reflexivity|]. intros _. rewrite Lr. exact D1.
    - unfold seq2. match goal with |- context [loop_top ?a] => destruct (loop_top a) as [cL oL] eqn:EL end.
      pose proof (loop_top_req _ _ _ EL) as (L1 & L2 & L3). pose proof (loop_top_spec _ _ _ EL) as (Lr & _ & _ & _ & _ & Lp & Lq & _ & Lw).
      cbn in *. intros H. apply some_inj, pair_inj in H. destruct H as [<- <-].
      assert (Hpl : ph cL = PList).
      { destruct L2 as [L2|[L2 _]]; [exact L2|]. exfalso. assert (Hn : ph cL <> PList) by congruence. destruct (Lq Hn) as (_ & Hf & _). discriminate. }
      split; [left; reflexivity|]. split; [apply Lw; auto|]. split; [unfold req_of; rewrite Hpl, L1; reflexivity|discriminate].
  Qed.
End R2.
