(* C26 — specification: what the property text says, written without reference to the cache algorithm
   (no oldResources, no error counters, no polling flags, no phases).

   Per resource type the specification follows only
     sv      what the datastore has TOLD us last: a successful List replaces it by the (converted) listed items,
             an added/modified/deleted watch event edits it; if the resource type is configured with
             SendDeletesOnConnFail, losing the connection empties it;
     sstale  the connection counts as lost when the retry timeout elapsed ([tick]) since the last answer that
             proved the server reachable;
     slisted a full List (or the server's "no such resource type" answer) completed since the connection was last
             declared lost.
   The observable behaviour of the syncer (the SyncerCallbacks calls) is then judged by [ok_case]:
     converge   after every input the view obtained by applying the emitted updates in order equals sv;
     vanished   a key the consumer held that is absent from a completed List is deleted by that step;
     nowait     no update is emitted while the last reported status is WaitForDatastore;
     insync     InSync is reported only when every resource type has slisted;
     tidy       updates are of the right kind (new key / existing key), come from the cache that was stepped, status
                callbacks are real transitions, SyncFailed only on a lost connection, ParseFailed only for an input
                whose conversion failed. *)
From Coq Require Import List NArith Arith Bool.
From Verif.C26 Require Import Model.
Import ListNotations.

Definition vmap := list (N * (N * N)).        (* key -> (revision, value) *)

Definition sapply (V : vmap) (x : ckv) : vmap :=
  let '(k, r, v) := x in match v with Some v => upsert k (r, v) V | None => remove k V end.
Definition sapply_conv (cv : option converter) (V : vmap) (k r : N) (v : option N) : vmap :=
  fold_left sapply (fst (convert cv k r v)) V.
Definition slist (cv : option converter) (items : list item) : vmap :=
  fold_left (fun V i => sapply_conv cv V (ikey i) (irev i) (Some (ival i))) items [].

Record sstate := mkS { sv : vmap; sstale : bool; slisted : bool }.
Definition sstate0 : sstate := mkS [] true false.

Definition spec_step (g : cfg) (s : sstate) (tick : bool) (r : resp) : sstate :=
  let stl := sstale s || tick in
  match r with
  | RListOk items _ => mkS (slist (cv g) items) false true
  | RListErr LNotFound => mkS (sv s) false true
  | RListErr LExpired => mkS (sv s) false (slisted s)
  | RListErr LOther => if stl then mkS (if sd g then [] else sv s) true false else mkS (sv s) false (slisted s)
  | RWatchOk => mkS (sv s) stl (slisted s)
  | RWatchErr WExpired => mkS (sv s) false (slisted s)
  | RWatchErr WConnRefused => mkS (sv s) stl (if stl then false else slisted s)
  | RWatchErr _ => mkS (sv s) stl (slisted s)
  | REvent (EvAdd i) | REvent (EvMod i) => mkS (sapply_conv (cv g) (sv s) (ikey i) (irev i) (Some (ival i))) false (slisted s)
  | REvent (EvDel k r) => mkS (sapply_conv (cv g) (sv s) k r None) false (slisted s)
  | REvent (EvBookmark _) | REvent EvErrExpired => mkS (sv s) false (slisted s)
  | REvent _ => mkS (sv s) stl (slisted s)
  end.

(* the consumer applies updates in order *)
Definition capply (V : vmap) (u : upd) : vmap :=
  match u with UNew k r v | UMod k r v => upsert k (r, v) V | UDel k => remove k V end.

Definition opt_eqb (a b : option (N * N)) : bool :=
  match a, b with
  | None, None => true
  | Some (r1, v1), Some (r2, v2) => N.eqb r1 r2 && N.eqb v1 v2
  | _, _ => false
  end.
Definition vsub (A B : vmap) : bool := forallb (fun kv => opt_eqb (lookup (fst kv) A) (lookup (fst kv) B)) A.
Definition veqb (A B : vmap) : bool := vsub A B && vsub B A.

(* right kind of update for the consumer's current view *)
Definition upd_fits (V : vmap) (u : upd) : bool :=
  match u with
  | UNew k _ _ => match lookup k V with None => true | Some _ => false end
  | UMod k _ _ | UDel k => match lookup k V with None => false | Some _ => true end
  end.

(* inputs of a step whose conversion reports an error *)
Definition parse_fails (g : cfg) (r : resp) (k : N) : bool :=
  match r with
  | RListOk items _ => existsb (fun i => N.eqb (ikey i) k && snd (convert (cv g) (ikey i) (irev i) (Some (ival i)))) items
  | REvent (EvAdd i) | REvent (EvMod i) => N.eqb (ikey i) k && snd (convert (cv g) (ikey i) (irev i) (Some (ival i)))
  | REvent (EvDel k' r') => N.eqb k' k && snd (convert (cv g) k' r' None)
  | _ => false
  end.
Definition conn_lost (s : sstate) (tick : bool) (r : resp) : bool :=
  match r with RListErr LOther => sstale s || tick | _ => false end.

(* scan of the callbacks of one step.  V: consumer view of the stepped cache; ws: last reported status *)
Fixpoint scan (i : nat) (all_listed lost : bool) (pf : N -> bool) (V : vmap) (ws : st) (outs : list out)
  : option (vmap * st) :=
  match outs with
  | [] => Some (V, ws)
  | OStatus s :: t =>
      if negb (st_eqb s ws) && (match s with InSync => all_listed | _ => true end)
      then scan i all_listed lost pf V s t else None
  | OUpd c u :: t =>
      if Nat.eqb c i && negb (st_eqb ws Wait) && upd_fits V u
      then scan i all_listed lost pf (capply V u) ws t else None
  | OSyncFailed :: t => if lost then scan i all_listed lost pf V ws t else None
  | OParseFailed c k :: t => if Nat.eqb c i && pf k then scan i all_listed lost pf V ws t else None
  | OUnknown :: _ => None
  end.

Definition is_list_ok (r : resp) : bool := match r with RListOk _ _ => true | _ => false end.
Definition has_del (i : nat) (k : N) (outs : list out) : bool :=
  existsb (fun o => match o with OUpd c (UDel k') => Nat.eqb c i && N.eqb k k' | _ => false end) outs.
(* every key held before and absent from the list result is deleted by this step *)
Definition vanished_ok (i : nat) (before after : vmap) (outs : list out) : bool :=
  forallb (fun kv => match lookup (fst kv) after with Some _ => true | None => has_del i (fst kv) outs end) before.

Record ostate := mkO { o_views : list vmap; o_spec : list sstate; o_ws : st }.

Definition ok_step (gs : list cfg) (o : ostate) (s : stepio) : option ostate :=
  let '(St i tick r outs) := s in
  match nth_error gs i, nth_error (o_views o) i, nth_error (o_spec o) i with
  | Some g, Some V, Some sp =>
      let sp' := spec_step g sp tick r in
      let specs' := set_nth i sp' (o_spec o) in
      match scan i (forallb slisted specs') (conn_lost sp tick r) (parse_fails g r) V (o_ws o) outs with
      | Some (V', ws') =>
          if veqb V' (sv sp') && (if is_list_ok r then vanished_ok i V (sv sp') outs else true)
          then Some (mkO (set_nth i V' (o_views o)) specs' ws') else None
      | None => None
      end
  | _, _, _ => None
  end.

Fixpoint ok_steps (gs : list cfg) (o : ostate) (steps : list stepio) : bool :=
  match steps with
  | [] => true
  | s :: rest => match ok_step gs o s with Some o' => ok_steps gs o' rest | None => false end
  end.

Definition out_eqb (a b : out) : bool :=
  match a, b with
  | OStatus s, OStatus s' => st_eqb s s'
  | OUpd c (UNew k r v), OUpd c' (UNew k' r' v') | OUpd c (UMod k r v), OUpd c' (UMod k' r' v') =>
      Nat.eqb c c' && N.eqb k k' && N.eqb r r' && N.eqb v v'
  | OUpd c (UDel k), OUpd c' (UDel k') => Nat.eqb c c' && N.eqb k k'
  | OSyncFailed, OSyncFailed => true
  | OParseFailed c k, OParseFailed c' k' => Nat.eqb c c' && N.eqb k k'
  | _, _ => false
  end.
Fixpoint outs_eqb (a b : list out) : bool :=
  match a, b with
  | [], [] => true
  | x :: a', y :: b' => out_eqb x y && outs_eqb a' b'
  | _, _ => false
  end.

Definition ostate0 (gs : list cfg) : ostate := mkO (map (fun _ => []) gs) (map (fun _ => sstate0) gs) Wait.

(* the whole observation: Start announces WaitForDatastore, then the steps *)
Definition ok_obs (gs : list cfg) (pre : list out) (steps : list stepio) : bool :=
  outs_eqb pre [OStatus Wait] && ok_steps gs (ostate0 gs) steps.

(* ---- one correspondence case, as written by the Go driver ---- *)
Record ccfg := mkCfg { c_sd : bool; c_conv : bool }.
Definition cfg_of (c : ccfg) : cfg := mkCfgC (c_sd c) (if c_conv c then Some conv4 else None).
(* the documented precondition on the datastore: a List that returns items carries a usable revision; the code refuses
   to go on (panics) exactly when it does not *)
Definition spec_panics (r : resp) : bool :=
  match r with RListOk (_ :: _) lrev => N.eqb lrev 0 || N.eqb lrev rev_empty | _ => false end.
Definition step_resp (s : stepio) : resp := match s with St _ _ r _ => r end.

(* c_panic = Some (St i t r outs): after c_steps, cache i was given r, logged the BUG panic and died; outs are the
   callbacks made before that *)
(* c_reqs: after each step, the call the stepped cache made next and the revision it passed (0 for a channel read) *)
Record case := { c_cfgs : list ccfg; c_pre : list out; c_steps : list stepio; c_reqs : list (phase * N); c_panic : option stepio }.

Definition id_ord (m : rmap) : rmap := m.

Fixpoint steps_agree (steps : list stepio) (mo : list (list out)) : bool :=
  match steps, mo with
  | [], [] => true
  | St _ _ _ outs :: s', o :: m' => outs_eqb (canon o) (canon outs) && steps_agree s' m'
  | _, _ => false
  end.

(* ---- the revision a cache resumes from: the last one the datastore reported for its resource type ----
   (a completed List's revision, the revision of the last watch event or bookmark).  A Watch must be created from
   exactly that revision and never from "0"; a List is either revision-less ("0", full resync) or at that revision. *)
Definition slast_step (l : N) (r : resp) : N :=
  match r with
  | RListOk _ lrev => lrev
  | REvent (EvAdd i) | REvent (EvMod i) => irev i
  | REvent (EvDel _ r) | REvent (EvBookmark r) => r
  | _ => l
  end.
Definition req_ok (l : N) (q : phase * N) : bool :=
  match q with
  | (PWatch, r) => N.eqb r l && negb (N.eqb r 0)
  | (PList, r) => N.eqb r 0 || N.eqb r l
  | (PEvents, _) => true
  end.
Fixpoint ok_reqs (ls : list N) (steps : list stepio) (reqs : list (phase * N)) : bool :=
  match steps, reqs with
  | [], [] => true
  | St i _ r _ :: steps', q :: reqs' =>
      let l' := slast_step (nth i ls 0%N) r in
      req_ok l' q && ok_reqs (set_nth i l' ls) steps' reqs'
  | _, _ => false
  end.

Definition phase_eqb (a b : phase) : bool :=
  match a, b with PList, PList | PWatch, PWatch | PEvents, PEvents => true | _, _ => false end.
Fixpoint reqs_agree (mo : list (list out * (phase * N))) (reqs : list (phase * N)) : bool :=
  match mo, reqs with
  | [], [] => true
  | (_, (p, r)) :: m', (p', r') :: q' => phase_eqb p p' && N.eqb r r' && reqs_agree m' q'
  | _, _ => false
  end.

Definition check_case (c : case) : bool * bool :=
  let gs := map cfg_of (c_cfgs c) in
  let '(s0, pre) := syncer_init gs in
  (match syncer_run_obs id_ord gs s0 (c_steps c) with
   | Some (s, mo) =>
       outs_eqb pre (c_pre c) && steps_agree (c_steps c) (map fst mo) && reqs_agree mo (c_reqs c) &&
       match c_panic c with
       | None => true
       | Some (St i t r outs) =>
           match syncer_panic id_ord gs s i t r with Some o => outs_eqb (canon o) (canon outs) | None => false end
       end
   | None => false
   end,
   ok_obs gs (c_pre c) (c_steps c)
   && forallb (fun s => negb (spec_panics (step_resp s))) (c_steps c)
   && match c_panic c with None => true | Some s => spec_panics (step_resp s) end
   && ok_reqs (map (fun _ => 0%N) gs) (c_steps c) (c_reqs c)).
