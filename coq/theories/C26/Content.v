(* C26 — proofs, part 6: convergence of CONTENTS, under the hypothesis that a revision determines the content of a
   key: there is a function [content] such that every (converted) KV the datastore ever hands out for key k at
   revision r carries the value [content k r]. *)
From Coq Require Import List NArith Arith Bool Lia.
From Verif.C26 Require Import Model Spec Proofs Steps Syncer Shape Main.
Import ListNotations.

Section C.
  Variable content : N -> N -> N.

  Definition ckv_ok (x : ckv) : Prop := match x with (k, r, Some v) => v = content k r | _ => True end.
  Definition input_ok (g : cfg) (r : resp) : Prop := Forall ckv_ok (conv_kvs g r).
  Definition inputs_ok (g : cfg) (ins : list (bool * resp)) : Prop := Forall (fun tr => input_ok g (snd tr)) ins.
  Definition upd_ok (u : upd) : Prop := match u with UNew k r v | UMod k r v => v = content k r | UDel _ => True end.
  Definition vok (V : vmap) : Prop := forall k r v, lookup k V = Some (r, v) -> v = content k r.

  Lemma vok_nil : vok []. Proof. intros k r v H. discriminate. Qed.
  Lemma vok_upsert V k r : vok V -> vok (upsert k (r, content k r) V).
  Proof.
    intros H q r' v'. rewrite lookup_upsert. destruct (N.eqb q k) eqn:E; [|apply H].
    apply N.eqb_eq in E. subst. intros Hq. inversion Hq; subst. reflexivity.
  Qed.
  Lemma vok_remove V k : vok V -> vok (remove k V).
  Proof. intros H q r' v'. rewrite lookup_remove. destruct (N.eqb q k); [discriminate|apply H]. Qed.

  Lemma cfold_vok us : forall V, vok V -> Forall upd_ok us -> vok (cfold V us).
  Proof.
    induction us as [|u us IH]; intros V HV Hu; cbn; [exact HV|]. inversion Hu; subst. apply IH; [|assumption].
    destruct u; cbn in *; subst; auto using vok_upsert, vok_remove.
  Qed.
  Lemma sapply_vok xs : forall V, vok V -> Forall ckv_ok xs -> vok (fold_left sapply xs V).
  Proof.
    induction xs as [|x xs IH]; intros V HV Hx; cbn; [exact HV|]. inversion Hx; subst. apply IH; [|assumption].
    destruct x as [[k r] [v|]]; cbn in *; subst; auto using vok_upsert, vok_remove.
  Qed.
  Lemma slist_vok cv items : forall V,
    vok V -> Forall ckv_ok (flat_map (fun i => fst (convert cv (ikey i) (irev i) (Some (ival i)))) items) ->
    vok (fold_left (fun V i => sapply_conv cv V (ikey i) (irev i) (Some (ival i))) items V).
  Proof.
    induction items as [|i items IH]; intros V HV Hx; cbn in *; [exact HV|]. apply Forall_app in Hx. destruct Hx as [H1 H2].
    apply IH; [|exact H2]. unfold sapply_conv. apply sapply_vok; assumption.
  Qed.

  Lemma spec_step_vok g sp t r : vok (sv sp) -> input_ok g r -> vok (sv (spec_step g sp t r)).
  Proof.
    intros HV Hi. unfold input_ok in Hi. destruct r as [items lrev|e| |e|e]; cbn in *; auto.
    - apply slist_vok; [apply vok_nil|exact Hi].
    - destruct e; cbn; auto. destruct (sstale sp || t); cbn; auto. destruct (sd g); auto using vok_nil.
    - destruct e; cbn; auto.
    - destruct e; cbn in *; auto; unfold sapply_conv; apply sapply_vok; auto.
  Qed.
  Lemma spec_run_vok g ins : forall sp, vok (sv sp) -> inputs_ok g ins -> vok (sv (spec_run g sp ins)).
  Proof.
    induction ins as [|[t r] ins IH]; intros sp HV Hi; cbn; [exact HV|]. inversion Hi; subst.
    apply IH; [|assumption]. apply spec_step_vok; assumption.
  Qed.

  Lemma shp_upd_ok g r lost pf x : input_ok g r -> shp (conv_kvs g r) (list_done r) lost pf x ->
    Forall upd_ok (match x with ResUpd us => us | _ => [] end).
  Proof.
    intros Hi H. destruct x; cbn in *; try constructor. eapply Forall_impl; [|exact H].
    unfold input_ok in Hi. rewrite Forall_forall in Hi.
    intros [k rv v|k rv v|k] Hu; cbn in *; auto; apply (Hi _ Hu).
  Qed.
  Lemma cache_run_upd_ok ord g ins : forall c c' rs,
    cache_run ord g c ins = Some (c', rs) -> inputs_ok g ins -> Forall upd_ok (upds_of rs).
  Proof.
    induction ins as [|[t r] ins IH]; intros c c' rs H Hi; cbn in H.
    - apply some_inj, pair_inj in H. destruct H as [_ <-]. constructor.
    - destruct (cache_step ord g c t r) as [[c1 o1]|] eqn:E1; [|discriminate].
      destruct (cache_run ord g c1 ins) as [[c2 o2]|] eqn:E2; [|discriminate].
      apply some_inj, pair_inj in H. destruct H as [_ <-]. inversion Hi; subst. cbn in *.
      rewrite upds_of_app. apply Forall_app. split; [|eapply IH; eauto].
      apply cache_step_shape in E1. clear - E1 H1. induction E1 as [|x l Hx Hl IHl]; cbn; [constructor|].
      apply Forall_app. split; [|exact IHl]. eapply shp_upd_ok; eauto.
  Qed.

  Lemma rvl_vok_eq V1 V2 : vok V1 -> vok V2 -> (forall k, rvl k V1 = rvl k V2) -> forall k, lookup k V1 = lookup k V2.
  Proof.
    intros H1 H2 He k. specialize (He k). unfold rvl in He.
    destruct (lookup k V1) as [[r1 v1]|] eqn:E1; destruct (lookup k V2) as [[r2 v2]|] eqn:E2; cbn in He; try congruence.
    inversion He; subst. rewrite (H1 _ _ _ E1), (H2 _ _ _ E2). reflexivity.
  Qed.

  (* one cache *)
  Theorem cache_converges_content ord g ins c rs :
    ord_ok ord -> inputs_ok g ins -> cache_run ord g (fst cache_init) ins = Some (c, rs) ->
    forall k, lookup k (cfold [] (upds_of rs)) = lookup k (sv (spec_run g sstate0 ins)).
  Proof.
    intros Ho Hi H. apply rvl_vok_eq.
    - apply cfold_vok; [apply vok_nil|]. eapply cache_run_upd_ok; eauto.
    - apply spec_run_vok; [apply vok_nil|exact Hi].
    - exact (cache_converges _ _ _ _ _ Ho H).
  Qed.

  (* the syncer's callback stream *)
  Theorem syncer_converges_content ord gs inss es cs ws pend o :
    ord_ok ord -> interleaving ord gs inss es -> proc (syncer0 gs) es = ((cs, ws, pend), o) ->
    forall i g ins, nth_error gs i = Some g -> nth_error inss i = Some ins -> inputs_ok g ins ->
    forall k, lookup k (cfold [] (oups i (delivered o pend))) = lookup k (sv (spec_run g sstate0 ins)).
  Proof.
    intros Ho (Hl & Ht & Hr) Hp i g ins Eg Ei Hok k. destruct (Hr _ _ _ Eg Ei) as [c Hc].
    unfold delivered. rewrite oups_app, oups_flush, (proc_updates i _ _ _ _ _ _ _ _ Hp). cbn.
    exact (cache_converges_content _ _ _ _ _ Ho Hok Hc k).
  Qed.
End C.

Lemma all_ins_nth gs steps i g : nth_error gs i = Some g -> nth_error (all_ins gs steps) i = Some (ins_of i steps).
Proof.
  intros Hg. assert (Hlt : i < length gs) by (apply nth_error_Some; congruence).
  unfold all_ins. rewrite nth_error_map, (nth_error_nth' _ 0) by (rewrite seq_length; exact Hlt).
  rewrite seq_nth by exact Hlt. reflexivity.
Qed.

(* What the oracle [ok_obs] checks semantically, for every scripted model run (hence after every prefix of it). *)
Theorem model_meets_spec_semantic content ord gs steps s' os :
  ord_ok ord -> gs <> [] -> syncer_run ord gs (fst (syncer_init gs)) steps = Some (s', os) ->
  oscan Wait (concat os) = Some (wstatus s') /\
  (wstatus s' = InSync -> forall i g, nth_error gs i = Some g -> slisted (spec_run g sstate0 (ins_of i steps)) = true) /\
  (forall i g, nth_error gs i = Some g -> inputs_ok content g (ins_of i steps) ->
     forall k, lookup k (cfold [] (oups i (concat os))) = lookup k (sv (spec_run g sstate0 (ins_of i steps)))) /\
  (forall i g, nth_error gs i = Some g ->
     forall k, rvl k (cfold [] (oups i (concat os))) = rvl k (sv (spec_run g sstate0 (ins_of i steps)))).
Proof.
  intros Ho Hne H. destruct (syncer_run_interleaving _ _ _ _ _ H) as (es & Hin & Hp).
  split; [|split; [|split]].
  - pose proof (syncer_no_update_while_waiting ord Ho gs Hne _ _ _ _ _ _ Hin Hp) as A. unfold delivered in A. cbn in A.
    rewrite app_nil_r in A. exact A.
  - intros Hs i g Hg. rewrite Hs in Hp.
    exact (syncer_insync_all_listed ord Ho gs Hne _ _ _ _ _ Hin Hp i g _ Hg (all_ins_nth _ _ _ _ Hg)).
  - intros i g Hg Hok k.
    pose proof (syncer_converges_content content ord gs _ _ _ _ _ _ Ho Hin Hp i g _ Hg (all_ins_nth _ _ _ _ Hg) Hok k) as A.
    unfold delivered in A. cbn in A. rewrite app_nil_r in A. exact A.
  - intros i g Hg k.
    pose proof (syncer_converges ord Ho gs _ _ _ _ _ _ Hin Hp i g _ Hg (all_ins_nth _ _ _ _ Hg) k) as A.
    unfold delivered in A. cbn in A. rewrite app_nil_r in A. exact A.
Qed.

(* the observation of a model run: the script with the model's own callbacks filled in *)
Fixpoint refill (steps : list stepio) (os : list (list out)) : list stepio :=
  match steps, os with
  | St i t r _ :: s', o :: os' => St i t r o :: refill s' os'
  | _, _ => []
  end.

(* Without the hypothesis that a revision determines the content, the oracle (which compares contents) rejects a run
   of the model itself: a modification event that re-uses the cached revision is swallowed by the code. *)
Lemma oracle_needs_content :
  exists gs steps s' os, syncer_run id_ord gs (fst (syncer_init gs)) steps = Some (s', os) /\
                         ok_obs gs [OStatus Wait] (refill steps os) = false.
Proof.
  exists [mkCfgC false None],
         [St 0 false (RListOk [mkItem 1 5 1] 5) []; St 0 false RWatchOk []; St 0 false (REvent (EvMod (mkItem 1 5 2))) []].
  eexists. eexists. split; [vm_compute; reflexivity|vm_compute; reflexivity].
Qed.
(* ... while on inputs that respect it the oracle accepts that model run (a concrete instance; the general statement
   is not proved, see Props.v) *)
Lemma oracle_accepts_example :
  let gs := [mkCfgC true None; mkCfgC false (Some conv4)] in
  let steps := [St 0 false (RListOk [mkItem 1 11 5; mkItem 2 12 6] 12) []; St 1 false (RListErr LNotFound) [];
                St 0 false RWatchOk []; St 1 true (RListOk [mkItem 3 7 1; mkItem 4 8 2] 9) [];
                St 0 false (REvent (EvDel 1 13)) []; St 0 true (REvent EvErrExpired) [];
                St 0 true (RListErr LOther) []; St 0 false (RListOk [mkItem 2 12 6] 14) []] in
  match syncer_run id_ord gs (fst (syncer_init gs)) steps with
  | Some (_, os) => ok_obs gs [OStatus Wait] (refill steps os) = true
  | None => False
  end.
Proof. vm_compute. reflexivity. Qed.
