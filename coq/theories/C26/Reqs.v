(* C26 — proofs, part 10: the requests of every scripted model run satisfy the revision clause [ok_reqs] of the oracle. *)
From Coq Require Import List NArith Arith Bool Lia.
From Verif.C26 Require Import Model Spec Proofs Steps Syncer Shape Main Revs.
Import ListNotations.

Definition rinv (c : cache) (l : N) : Prop := rev c = 0%N \/ rev c = l.

Lemma handle_wl_rev g c old k r v c' old' o : handle_wl g c old k r v = (c', old', o) -> rev c' = r.
Proof.
  unfold handle_wl. destruct (convert (cv g) k r v) as [kvs e]. destruct (handle_many (res c) old kvs) as [[a b] d].
  intros H. apply pair_inj in H. destruct H as [H _]. apply pair_inj in H. destruct H as [<- _]. destruct c; reflexivity.
Qed.

Section Q.
  Variable ord : rmap -> rmap.

  Ltac lt :=
    match goal with |- context [loop_top ?a] =>
      let EL := fresh "EL" in destruct (loop_top a) as [cL oL] eqn:EL; apply loop_top_req in EL; cbn in EL;
      destruct EL as (L1 & _ & _) end.
  Ltac fin H := intros H; apply some_inj, pair_inj in H; destruct H as [<- _].

  Lemma step_rinv g c l t r c' rs :
    rinv c l -> cache_step ord g c t r = Some (c', rs) -> rinv c' (slast_step l r).
  Proof.
    unfold rinv. intros Hr. unfold cache_step. cbv zeta.
    destruct c as [res0 rev0 errs0 pfr0 ph0 st0 crd0 lp0 wp0 conn0 stale0]. cbn in Hr. cbn [ph set_stale].
    destruct ph0; destruct r as [items lrev|e| |e|e]; try discriminate.
    - unfold step_list.
      set (c0 := set_crd (mark_connected _) true).
      destruct (match status c0 with Wait => send_status c0 Resync | _ => (c0, []) end) as [c2 o1].
      destruct (handle_items g (set_res c2 []) (res c2) items) as [[c3 old] o2].
      destruct (finish_resync ord c3 old) as [c4 o3]. destruct (zero_rev lrev).
      + destruct items; [|discriminate]. unfold seq2. lt. fin H. left. rewrite L1. destruct c4; reflexivity.
      + fin H. right. destruct c4; reflexivity.
    - unfold step_list. destruct e.
      + match goal with |- context [finish_resync ord ?a []] => destruct (finish_resync ord a []) as [c4 o3] eqn:E3 end.
        assert (Hc4 : rev c4 = rev0) by (unfold finish_resync in E3; cbn in E3; destruct st0; cbn in E3; unfold send_status in E3; cbn in E3;
                                   apply pair_inj in E3; destruct E3 as [<- _]; reflexivity).
        unfold seq2. lt. fin H. cbn. rewrite L1. destruct c4; cbn in *; subst; exact Hr.
      + lt. fin H. left. exact L1.
      + cbn [stale set_crd]. destruct (stale0 || t); [destruct (sd g)|].
        * match goal with |- context [send_deletions ord ?a] => destruct (send_deletions ord a) as [cD oD] eqn:ED end.
          assert (HcD : rev cD = 0%N).
          { unfold send_deletions in ED. cbn in ED. destruct res0; [|destruct st0; cbn in ED; unfold send_status in ED; cbn in ED];
              apply pair_inj in ED; destruct ED as [<- _]; reflexivity. }
          unfold seq2. lt. fin H. left. rewrite L1. exact HcD.
        * unfold seq2. lt. fin H. cbn. rewrite L1. exact Hr.
        * lt. fin H. cbn. rewrite L1. exact Hr.
    - fin H. exact Hr.
    - unfold step_watch. destruct e; cbn [stale set_stale]; try destruct (stale0 || t); try destruct (5 <=? _); lt; fin H; cbn; rewrite L1;
        try (left; reflexivity); exact Hr.
    - unfold step_event, reenter. destruct e.
      1-3: match goal with |- context [handle_wl ?gg ?cc [] ?k ?r ?v] =>
             let E := fresh "EH" in destruct (handle_wl gg cc [] k r v) as [[cH oldH] oH] eqn:E; apply handle_wl_rev in E end;
           fin H; right; destruct cH; cbn in *; exact EH.
      1: fin H; right; reflexivity.
      3: fin H; exact Hr.
      all: try destruct (5 <=? _); lt; fin H; cbn; rewrite L1; try (left; reflexivity); exact Hr.
  Qed.

  Lemma step_req_ok g c l t r c' rs :
    rinv c l -> cache_step ord g c t r = Some (c', rs) -> req_ok (slast_step l r) (req_of c') = true.
  Proof.
    intros Hr H. pose proof (step_rinv _ _ _ _ _ _ _ Hr H) as [H0|H1]; pose proof (step_watch_rev ord _ _ _ _ _ _ H) as Hw;
      unfold req_of, req_ok; destruct (ph c') eqn:Ep; auto.
    - rewrite H0. reflexivity.
    - specialize (Hw eq_refl). rewrite H0 in Hw. discriminate.
    - rewrite H1, N.eqb_refl. apply orb_true_r.
    - specialize (Hw eq_refl). rewrite <- H1, N.eqb_refl, Hw. reflexivity.
  Qed.

  Lemma run_reqs_ok gs steps : forall s s' mo ls,
    syncer_run_obs ord gs s steps = Some (s', mo) -> length ls = length (caches s) ->
    (forall i c, nth_error (caches s) i = Some c -> rinv c (nth i ls 0%N)) ->
    ok_reqs ls steps (map snd mo) = true.
  Proof.
    induction steps as [|[i t r outs] steps IH]; intros s s' mo ls H Hlen Hinv; cbn [syncer_run_obs] in H.
    - apply some_inj, pair_inj in H. destruct H as [_ <-]. reflexivity.
    - destruct (syncer_step ord gs s i t r) as [[s1 o]|] eqn:E1; [|discriminate].
      destruct (syncer_run_obs ord gs s1 steps) as [[s2 os]|] eqn:E2; [|discriminate].
      apply some_inj, pair_inj in H. destruct H as [_ <-]. cbn [map snd ok_reqs].
      unfold syncer_step in E1. destruct (nth_error gs i) as [g|]; [|discriminate].
      destruct (nth_error (caches s) i) as [c|] eqn:Ec; [|discriminate].
      destruct (cache_step ord g c t r) as [[c' rs]|] eqn:Es; [|discriminate].
      destruct (proc_all i (cstat s) (wstatus s) rs) as [[cs' ws'] o'].
      apply some_inj, pair_inj in E1. destruct E1 as [<- _]. cbn [caches] in *.
      assert (Hi : i < length (caches s)) by (apply nth_error_Some; congruence).
      rewrite nth_error_set_nth_eq by exact Hi.
      rewrite (step_req_ok _ _ _ _ _ _ _ (Hinv i c Ec) Es). cbn [andb].
      eapply IH; [exact E2|cbn [caches]; rewrite !set_nth_length; exact Hlen|]. cbn [caches]. intros j cj Hj.
      destruct (Nat.eq_dec j i) as [->|Hji].
      + rewrite nth_error_set_nth_eq in Hj by exact Hi. inversion Hj; subst.
        rewrite nth_set_nth_eq by (rewrite Hlen; exact Hi). eapply step_rinv; eauto.
      + rewrite nth_error_set_nth_neq in Hj by exact Hji. rewrite nth_set_nth_neq by exact Hji. apply Hinv. exact Hj.
  Qed.

  Theorem model_requests_meet_spec gs steps s' mo :
    syncer_run_obs ord gs (fst (syncer_init gs)) steps = Some (s', mo) ->
    ok_reqs (map (fun _ => 0%N) gs) steps (map snd mo) = true.
  Proof.
    intros H. eapply run_reqs_ok; [exact H|cbn; rewrite !map_length; reflexivity|].
    cbn. intros i c Hc. apply nth_error_In in Hc. apply in_map_iff in Hc. destruct Hc as [g [<- _]]. left. reflexivity.
  Qed.
End Q.
