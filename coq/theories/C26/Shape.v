(* C26 — proofs, part 4: the shape of what one step of a cache sends: an InSync status only when a List completed
   (successfully, or with the server's "no such resource type"), new/updated KVs only as converted from that
   step's input (deletions may be synthesised). *)
From Coq Require Import List NArith Arith Bool Lia.
From Verif.C26 Require Import Model Spec Proofs Steps.
Import ListNotations.

Definition list_done (r : resp) : bool :=
  match r with RListOk _ _ | RListErr LNotFound => true | _ => false end.
Definition conv_kvs (g : cfg) (r : resp) : list ckv :=
  match r with
  | RListOk items _ => flat_map (fun i => fst (convert (cv g) (ikey i) (irev i) (Some (ival i)))) items
  | REvent (EvAdd i) | REvent (EvMod i) => fst (convert (cv g) (ikey i) (irev i) (Some (ival i)))
  | REvent (EvDel k r) => fst (convert (cv g) k r None)
  | _ => []
  end.
Definition upd_from (S : list ckv) (u : upd) : Prop :=
  match u with UDel _ => True | UNew k r v | UMod k r v => In (k, r, Some v) S end.
(* lost: the step declared the connection lost; pf k: the conversion of an input with key k failed *)
Definition shp (S : list ckv) (ld lost : bool) (pf : N -> bool) (x : result) : Prop :=
  match x with
  | ResStatus InSync => ld = true
  | ResStatus _ => True
  | ResUpd us => Forall (upd_from S) us
  | ResBackendErr => lost = true
  | ResParseErr k => pf k = true
  end.
Definition step_lost (c : cache) (t : bool) (r : resp) : bool :=
  match r with RListErr LOther => stale c || t | _ => false end.

Lemma shp_mono S S' ld lost pf x : incl S S' -> shp S ld lost pf x -> shp S' ld lost pf x.
Proof.
  intros Hi. destruct x as [[| |]|us| |]; cbn; auto. intros H. eapply Forall_impl; [|exact H].
  intros [k r v|k r v|k]; cbn; auto.
Qed.

Lemma send_status_shape S ld lost pf c s : s <> InSync \/ ld = true -> Forall (shp S ld lost pf) (snd (send_status c s)).
Proof.
  intros H. unfold send_status. destruct (st_eqb s (status c)); cbn; constructor; auto.
  destruct s; cbn; auto. destruct H; congruence.
Qed.

Lemma loop_top_shape S ld lost pf c : Forall (shp S ld lost pf) (snd (loop_top c)).
Proof.
  unfold loop_top. destruct (pfr c || (rev c =? 0)%N); cbn; [|constructor].
  destruct (crd _ && negb _); cbn; [|constructor].
  match goal with |- context [send_status ?a ?b] => pose proof (send_status_shape S ld lost pf a b) as P; destruct (send_status a b) end.
  cbn in *. apply P. left. destruct (conn _); congruence.
Qed.

Lemma dels_from S (l : list (N * N)) : Forall (upd_from S) (map (fun kr : N * N => UDel (fst kr)) l).
Proof. induction l; cbn; constructor; cbn; auto. Qed.

Section Sh.
  Variable ord : rmap -> rmap.
  Variable lost : bool.
  Variable pf : N -> bool.

  Lemma finish_resync_shape S c old : Forall (shp S true lost pf) (snd (finish_resync ord c old)).
  Proof.
    unfold finish_resync.
    assert (P1 : forall c0 s, Forall (shp S true lost pf) (snd (send_status c0 s))) by (intros; apply send_status_shape; auto).
    destruct (status c); [pose proof (P1 c Resync) as Q; destruct (send_status c Resync) as [c1 o1]|..];
      match goal with |- context [send_status ?a InSync] => pose proof (P1 a InSync) as Q3; destruct (send_status a InSync) as [c3 o3] end;
      cbn in *; repeat (apply Forall_app; split); auto; destruct old; constructor; cbn; auto using dels_from.
  Qed.

  Lemma send_deletions_shape S ld c : Forall (shp S ld lost pf) (snd (send_deletions ord c)).
  Proof.
    unfold send_deletions. destruct (res c) eqn:Er; cbn; [constructor|].
    assert (Hd : forall l : list (N * N), Forall (shp S ld lost pf) (map (fun kr : N * N => ResUpd [UDel (fst kr)]) l)).
    { induction l; cbn; constructor; auto. cbn. repeat constructor. }
    assert (HR : Resync <> InSync \/ ld = true) by (left; congruence).
    destruct (status c); [pose proof (send_status_shape S ld lost pf c Resync HR) as Q; destruct (send_status c Resync)|..];
      cbn in *; repeat (apply Forall_app; split); auto.
  Qed.

  Lemma handle_one_shape S ld rs old x : In x S -> Forall (shp S ld lost pf) (snd (handle_one rs old x)).
  Proof.
    intros Hi. destruct x as [[k r] v]. unfold handle_one. destruct (mark_valid rs old k) as [rs1 old1].
    destruct v; destruct (lookup k rs1); try destruct (N.eqb _ _); cbn; repeat constructor; cbn; auto.
  Qed.
  Lemma handle_many_shape S ld xs : forall rs old, incl xs S -> Forall (shp S ld lost pf) (snd (handle_many rs old xs)).
  Proof.
    induction xs as [|x xs IH]; intros rs old Hi; cbn; [constructor|].
    pose proof (handle_one_shape S ld rs old x (Hi x (or_introl eq_refl))) as P1.
    destruct (handle_one rs old x) as [[rs1 old1] o1].
    specialize (IH rs1 old1 (fun y Hy => Hi y (or_intror Hy))). destruct (handle_many rs1 old1 xs) as [[rs2 old2] o2].
    cbn in *. apply Forall_app; auto.
  Qed.
  Lemma handle_wl_shape S ld g c old k r v :
    incl (fst (convert (cv g) k r v)) S -> (snd (convert (cv g) k r v) = true -> pf k = true) ->
    Forall (shp S ld lost pf) (snd (handle_wl g c old k r v)).
  Proof.
    intros Hi Hpf. unfold handle_wl. destruct (convert (cv g) k r v) as [kvs e]. cbn in Hi, Hpf.
    pose proof (handle_many_shape S ld kvs (res c) old Hi) as P. destruct (handle_many (res c) old kvs) as [[rs1 old1] o1].
    cbn in *. apply Forall_app; split; auto. destruct e; repeat constructor. cbn. auto.
  Qed.
  Lemma handle_items_shape S ld g items : forall c old,
    incl (flat_map (fun i => fst (convert (cv g) (ikey i) (irev i) (Some (ival i)))) items) S ->
    (forall i, In i items -> snd (convert (cv g) (ikey i) (irev i) (Some (ival i))) = true -> pf (ikey i) = true) ->
    Forall (shp S ld lost pf) (snd (handle_items g c old items)).
  Proof.
    induction items as [|i items IH]; intros c old Hi Hpf; cbn; [constructor|]. cbn in Hi.
    pose proof (handle_wl_shape S ld g c old (ikey i) (irev i) (Some (ival i)) (fun y Hy => Hi y (in_or_app _ _ _ (or_introl Hy)))
                  (Hpf i (or_introl eq_refl))) as P1.
    destruct (handle_wl g c old (ikey i) (irev i) (Some (ival i))) as [[c1 old1] o1].
    specialize (IH c1 old1 (fun y Hy => Hi y (in_or_app _ _ _ (or_intror Hy))) (fun j Hj => Hpf j (or_intror Hj))). destruct (handle_items g c1 old1 items) as [[c2 old2] o2].
    cbn in *. apply Forall_app; auto.
  Qed.

End Sh.

Lemma stale_c1 c x : stale (set_crd (set_stale c x) true) = x.
Proof. destruct c; reflexivity. Qed.
Lemma parse_fails_list g items lrev i : In i items -> snd (convert (cv g) (ikey i) (irev i) (Some (ival i))) = true -> parse_fails g (RListOk items lrev) (ikey i) = true.
Proof. intros Hi Hs. cbn. apply existsb_exists. exists i. rewrite N.eqb_refl, Hs. auto. Qed.

Section Sh2.
  Variable ord : rmap -> rmap.

  Ltac lt_shape S ld lost pf :=
    match goal with |- context [loop_top ?a] => pose proof (loop_top_shape S ld lost pf a) as PL; destruct (loop_top a) as [cL oL] end.

  Lemma cache_step_shape g c t r c' rs :
    cache_step ord g c t r = Some (c', rs) -> Forall (shp (conv_kvs g r) (list_done r) (step_lost c t r) (parse_fails g r)) rs.
  Proof.
    unfold cache_step. cbv zeta. set (c1 := set_stale c (stale c || t)). set (S := conv_kvs g r). set (ld := list_done r).
    set (lost := step_lost c t r). set (pf := parse_fails g r).
    destruct (ph c1); destruct r as [items lrev|e| |e|e]; try discriminate.
    - (* list ok *)
      unfold step_list. subst ld. cbn [list_done].
      set (c0 := set_crd (mark_connected c1) true).
      assert (P1 : Forall (shp S true lost pf) (snd (match status c0 with Wait => send_status c0 Resync | _ => (c0, []) end))).
      { destruct (status c0); cbn; try constructor. apply send_status_shape. left; congruence. }
      destruct (match status c0 with Wait => send_status c0 Resync | _ => (c0, []) end) as [c2 o1].
      pose proof (handle_items_shape lost pf S true g items (set_res c2 []) (res c2) (incl_refl _) (fun i Hi Hs => parse_fails_list g items lrev i Hi Hs)) as P2.
      destruct (handle_items g (set_res c2 []) (res c2) items) as [[c3 old] o2].
      pose proof (finish_resync_shape ord lost pf S c3 old) as P3. destruct (finish_resync ord c3 old) as [c4 o3]. cbn in P1, P2, P3.
      destruct (zero_rev lrev).
      + destruct items; [|discriminate]. unfold seq2. lt_shape S true lost pf. intros H. apply some_inj, pair_inj in H. destruct H as [_ <-].
        cbn in PL. repeat (apply Forall_app; split); auto.
      + intros H. apply some_inj, pair_inj in H. destruct H as [_ <-]. repeat (apply Forall_app; split); auto.
    - (* list errors *)
      unfold step_list. destruct e.
      + pose proof (finish_resync_shape ord lost pf S c1 []) as P3. destruct (finish_resync ord c1 []) as [c4 o3]. unfold seq2.
        lt_shape S ld lost pf. intros H. apply some_inj, pair_inj in H. destruct H as [_ <-]. cbn in *. apply Forall_app; auto.
      + lt_shape S ld lost pf. intros H. apply some_inj, pair_inj in H. destruct H as [_ <-]. exact PL.
      + assert (Est : stale (set_crd c1 true) = lost) by (subst c1 lost; apply stale_c1). rewrite Est. destruct lost eqn:El.
        * destruct (sd g).
          -- match goal with |- context [send_deletions ord ?a] => pose proof (send_deletions_shape ord lost pf S ld a) as PD; destruct (send_deletions ord a) as [cD oD] end.
             unfold seq2. lt_shape S ld lost pf. intros H. apply some_inj, pair_inj in H. destruct H as [_ <-]. cbn in *. rewrite Est in PD, PL.
             constructor; [reflexivity|]. apply Forall_app; auto.
          -- unfold seq2. lt_shape S ld lost pf. intros H. apply some_inj, pair_inj in H. destruct H as [_ <-]. cbn in *. rewrite Est in PL.
             constructor; [reflexivity|]. exact PL.
        * lt_shape S ld lost pf. intros H. apply some_inj, pair_inj in H. destruct H as [_ <-]. rewrite El in PL. exact PL.
    - intros H. apply some_inj, pair_inj in H. destruct H as [_ <-]. constructor.
    - unfold step_watch. destruct e; try destruct (stale c1); try destruct (5 <=? _);
        lt_shape S ld lost pf; intros H; apply some_inj, pair_inj in H; destruct H as [_ <-]; exact PL.
    - unfold step_event, reenter. destruct e.
      1-3: match goal with |- context [handle_wl ?gg ?cc [] ?k ?r ?v] =>
             pose proof (handle_wl_shape lost pf S ld gg cc [] k r v (incl_refl _)) as P; destruct (handle_wl gg cc [] k r v) as [[cH oldH] oH] end;
           intros H; apply some_inj, pair_inj in H; destruct H as [_ <-]; apply P; intros Hs; subst pf; cbn; rewrite N.eqb_refl, Hs; reflexivity.
      1,4: intros H; apply some_inj, pair_inj in H; destruct H as [_ <-]; constructor.
      all: try destruct (5 <=? _); lt_shape S ld lost pf; intros H; apply some_inj, pair_inj in H; destruct H as [_ <-]; exact PL.
  Qed.
End Sh2.
