(* C26 — executable model of libcalico-go/lib/backend/watchersyncer (watchercache.go + watchersyncer.go).

   A watcher cache is a single goroutine whose only contacts with the outside world are
     client.List, client.Watch, <-watch.ResultChan()      (inputs, one [resp] each)
     wc.results <- ...                                       (outputs, [result]s)
   so it is modelled as a step machine: [cache_step] consumes the answer to the call the cache is blocked in and
   runs the Go code up to the NEXT blocking call, returning everything sent on the results channel meanwhile.
   Wall-clock time enters the code only through
     * the retry sleeps (pure delays, no effect on what is sent) and
     * `time.Since(wc.lastSuccessfulConnTime) > wc.watchRetryTimeout`,
   which is the boolean [stale]; an input carries [tick] = "the retry timeout has elapsed since the previous
   input" (so stale := stale || tick, and every place where the code refreshes lastSuccessfulConnTime clears it).
   The syncer is the product of its caches plus the status aggregation and update batching of
   watcherSyncer.processResult.  Go map iteration order (resync deletions, deletions on connection failure) is
   the explicit parameter [ord].  No proofs in this file. *)
From Coq Require Import List NArith Arith Bool.
Import ListNotations.

Inductive st := Wait | Resync | InSync.          (* api.WaitForDatastore (the zero value), ResyncInProgress, InSync *)
Definition st_eqb (a b : st) : bool :=
  match a, b with Wait, Wait | Resync, Resync | InSync, InSync => true | _, _ => false end.

(* Revisions are strings in the code; the model needs only equality, "is it 0" and "is it empty".  A decimal
   revision is its value ("0" = 0); the EMPTY revision string "" is the number 2^64, which no decimal revision the
   driver produces (uint64) can equal. *)
Definition rev_empty : N := 18446744073709551616.
(* `l.Revision == "" || l.Revision == "0"` *)
Definition zero_rev (r : N) : bool := N.eqb r 0 || N.eqb r rev_empty.

Record item := mkItem { ikey : N; irev : N; ival : N }.

Inductive lerr := LNotFound | LExpired (* expired or "too large resource version" *) | LOther.
Inductive werr := WExpired (* expired, gone, too large *) | WConnRefused (* or too-many-requests *)
                | WNotSupported (* ErrorOperationNotSupported / ErrorResourceDoesNotExist *) | WOther.
Inductive evt := EvAdd (i : item) | EvMod (i : item) | EvDel (k r : N) | EvBookmark (r : N)
               | EvErrExpired | EvErrOther | EvUnknown | EvClosed.
Inductive resp := RListOk (items : list item) (lrev : N) | RListErr (e : lerr)
                | RWatchOk | RWatchErr (e : werr) | REvent (e : evt).

Inductive upd := UNew (k r v : N) | UMod (k r v : N) | UDel (k : N).
(* what a cache puts on the results channel *)
Inductive result := ResStatus (s : st) | ResUpd (us : list upd) | ResBackendErr | ResParseErr (k : N).

(* ---- the resources / oldResources maps: key -> revision ---- *)
Definition rmap := list (N * N).
Fixpoint lookup {A} (k : N) (m : list (N * A)) : option A :=
  match m with [] => None | (k', r) :: m' => if N.eqb k k' then Some r else lookup k m' end.
Definition remove {A} (k : N) (m : list (N * A)) : list (N * A) := filter (fun kr => negb (N.eqb k (fst kr))) m.
Definition upsert {A} (k : N) (r : A) (m : list (N * A)) : list (N * A) := (k, r) :: remove k m.

(* ---- conversion (SyncerUpdateProcessor.Process), a pure function here ---- *)
Definition ckv := (N * N * option N)%type.                 (* key, revision, value (None = delete) *)
Definition converter := N -> N -> option N -> list ckv * bool.   (* bool: a conversion error is reported *)
Definition convert (cv : option converter) (k r : N) (v : option N) : list ckv * bool :=
  match cv with None => ([(k, r, v)], false) | Some f => f k r v end.
(* the processor used by the driver *)
Definition conv4 : converter := fun k r v =>
  let a := (2 * k)%N in let b := (2 * k + 1)%N in
  match v with
  | None => ([(a, r, None); (b, r, None)], false)
  | Some x =>
      match (x mod 4)%N with
      | 0%N => ([(a, r, Some x); (b, r, None)], false)
      | 1%N => ([(a, r, Some x); (b, r, Some x)], false)
      | 2%N => ([(a, r, None); (b, r, None)], true)
      | _ => ([(a, r, None); (b, r, Some x)], false)
      end
  end.

Record cfg := mkCfgC { sd : bool (* SendDeletesOnConnFail *); cv : option converter }.

Inductive phase := PList | PWatch | PEvents.

Record cache := mkCache {
  res : rmap;          (* wc.resources *)
  rev : N;             (* wc.currentWatchRevision, "0" = 0 *)
  errs : nat;          (* wc.errorCountAtCurrentRev *)
  pfr : bool;          (* performFullResync (local of maybeResyncAndCreateWatcher) *)
  ph : phase;          (* which call the goroutine is blocked in *)
  status : st;         (* wc.status *)
  crd : bool; lpoll : bool; wpoll : bool; conn : bool;
  stale : bool         (* time.Since(lastSuccessfulConnTime) > watchRetryTimeout *)
}.

Definition set_res c x := mkCache x (rev c) (errs c) (pfr c) (ph c) (status c) (crd c) (lpoll c) (wpoll c) (conn c) (stale c).
Definition set_rev c x := mkCache (res c) x (errs c) (pfr c) (ph c) (status c) (crd c) (lpoll c) (wpoll c) (conn c) (stale c).
Definition set_errs c x := mkCache (res c) (rev c) x (pfr c) (ph c) (status c) (crd c) (lpoll c) (wpoll c) (conn c) (stale c).
Definition set_pfr c x := mkCache (res c) (rev c) (errs c) x (ph c) (status c) (crd c) (lpoll c) (wpoll c) (conn c) (stale c).
Definition set_ph c x := mkCache (res c) (rev c) (errs c) (pfr c) x (status c) (crd c) (lpoll c) (wpoll c) (conn c) (stale c).
Definition set_status c x := mkCache (res c) (rev c) (errs c) (pfr c) (ph c) x (crd c) (lpoll c) (wpoll c) (conn c) (stale c).
Definition set_crd c x := mkCache (res c) (rev c) (errs c) (pfr c) (ph c) (status c) x (lpoll c) (wpoll c) (conn c) (stale c).
Definition set_polls c l w := mkCache (res c) (rev c) (errs c) (pfr c) (ph c) (status c) (crd c) l w (conn c) (stale c).
Definition set_conn c x := mkCache (res c) (rev c) (errs c) (pfr c) (ph c) (status c) (crd c) (lpoll c) (wpoll c) x (stale c).
Definition set_stale c x := mkCache (res c) (rev c) (errs c) (pfr c) (ph c) (status c) (crd c) (lpoll c) (wpoll c) (conn c) x.

Definition mark_connected c := set_stale (set_conn c true) false.          (* markConnected *)
Definition reset_rev c := set_errs (set_rev c 0%N) 0.                     (* resetWatchRevisionForFullResync *)

(* sendResult for a status: swallowed when equal to wc.status *)
Definition send_status (c : cache) (s : st) : cache * list result :=
  if st_eqb s (status c) then (c, []) else (set_status c s, [ResStatus s]).

(* markAsValid + handleAddedOrModifiedUpdate / handleDeletedUpdate on one converted KV *)
Definition mark_valid (rs old : rmap) (k : N) : rmap * rmap :=
  match lookup k old with Some r0 => (upsert k r0 rs, remove k old) | None => (rs, old) end.
Definition handle_one (rs old : rmap) (x : ckv) : rmap * rmap * list result :=
  let '(k, r, v) := x in
  let '(rs, old) := mark_valid rs old k in
  match v with
  | None => match lookup k rs with
            | Some _ => (remove k rs, old, [ResUpd [UDel k]])
            | None => (rs, old, [])
            end
  | Some v => match lookup k rs with
              | Some r0 => if N.eqb r0 r then (rs, old, []) else (upsert k r rs, old, [ResUpd [UMod k r v]])
              | None => (upsert k r rs, old, [ResUpd [UNew k r v]])
              end
  end.
Fixpoint handle_many (rs old : rmap) (xs : list ckv) : rmap * rmap * list result :=
  match xs with
  | [] => (rs, old, [])
  | x :: xs' => let '(rs1, old1, o1) := handle_one rs old x in
                let '(rs2, old2, o2) := handle_many rs1 old1 xs' in (rs2, old2, o1 ++ o2)
  end.

(* handleWatchListEvent *)
Definition handle_wl (g : cfg) (c : cache) (old : rmap) (k r : N) (v : option N) : cache * rmap * list result :=
  let '(kvs, e) := convert (cv g) k r v in
  let '(rs, old', o) := handle_many (res c) old kvs in
  (set_res (set_errs (set_rev c r) 0) rs, old', o ++ (if e then [ResParseErr k] else [])).

Fixpoint handle_items (g : cfg) (c : cache) (old : rmap) (items : list item) : cache * rmap * list result :=
  match items with
  | [] => (c, old, [])
  | i :: items' => let '(c1, old1, o1) := handle_wl g c old (ikey i) (irev i) (Some (ival i)) in
                   let '(c2, old2, o2) := handle_items g c1 old1 items' in (c2, old2, o1 ++ o2)
  end.

Section WithOrder.
  Variable ord : rmap -> rmap.     (* Go map iteration order *)

  (* finishResync *)
  Definition finish_resync (c : cache) (old : rmap) : cache * list result :=
    let '(c1, o1) := match status c with Wait => send_status c Resync | _ => (c, []) end in
    let o2 := match old with [] => [] | _ => [ResUpd (map (fun kr => UDel (fst kr)) (ord old))] end in
    let '(c3, o3) := send_status c1 InSync in
    (c3, o1 ++ o2 ++ o3).

  (* sendDeletionsForAllResources *)
  Definition send_deletions (c : cache) : cache * list result :=
    match res c with
    | [] => (reset_rev c, [])
    | _ => let '(c1, o1) := match status c with Wait => send_status c Resync | _ => (c, []) end in
           (reset_rev (set_res c1 []), o1 ++ map (fun kr => ResUpd [UDel (fst kr)]) (ord (res c)))
    end.

  (* top of the for-loop of maybeResyncAndCreateWatcher, up to the List or Watch call *)
  Definition loop_top (c : cache) : cache * list result :=
    if pfr c || N.eqb (rev c) 0 then
      let prev := lpoll c || wpoll c in
      let c := set_polls (set_pfr c true) false false in
      let '(c, o) := if crd c && negb prev then send_status c (if conn c then Resync else Wait) else (c, []) in
      (set_ph c PList, o)
    else (set_ph c PWatch, []).

  (* a fresh call of maybeResyncAndCreateWatcher (after the event loop returned) *)
  Definition reenter (c : cache) : cache * list result := loop_top (set_pfr c false).

  Definition seq2 (x : cache * list result) (f : cache -> cache * list result) : cache * list result :=
    let '(c, o) := x in let '(c', o') := f c in (c', o ++ o').

  Definition step_list (g : cfg) (c : cache) (r : list item * N + lerr) : option (cache * list result) :=
    match r with
    | inr LNotFound =>
        let '(c1, o1) := finish_resync c [] in
        let c2 := mark_connected (set_crd (set_polls c1 false false) false) in
        Some (seq2 (c2, o1) loop_top)
    | inr LExpired =>
        Some (loop_top (mark_connected (reset_rev (set_crd c true))))
    | inr LOther =>
        let c := set_crd c true in
        if stale c then
          let c1 := set_polls (set_conn c false) false false in
          let '(c2, o2) := if sd g then send_deletions c1 else (c1, []) in
          Some (seq2 (c2, ResBackendErr :: o2) loop_top)
        else Some (loop_top c)
    | inl (items, lrev) =>
        let c := set_crd (mark_connected c) true in
        let '(c1, o1) := match status c with Wait => send_status c Resync | _ => (c, []) end in
        let '(c2, old, o2) := handle_items g (set_res c1 []) (res c1) items in
        let '(c3, o3) := finish_resync c2 old in
        if zero_rev lrev then
          match items with
          | [] => Some (seq2 (set_pfr (set_rev (set_polls c3 true false) 0%N) true, o1 ++ o2 ++ o3) loop_top)
          | _ => None            (* logger.Panic("BUG: List returned items with empty/zero revision") *)
          end
        else Some (set_ph (set_pfr (set_errs (set_rev c3 lrev) 0) false) PWatch, o1 ++ o2 ++ o3)
    end.

  Definition step_watch (c : cache) (r : option werr) : cache * list result :=
    match r with
    | None => (set_ph c PEvents, [])
    | Some WExpired => loop_top (set_polls (mark_connected (reset_rev c)) false false)
    | Some WConnRefused =>
        if stale c then loop_top (set_polls (set_conn (reset_rev c) false) false false) else loop_top c
    | Some WNotSupported => loop_top (set_pfr (set_polls c false true) true)
    | Some WOther =>
        let c := set_errs c (S (errs c)) in
        loop_top (if 5 <=? errs c then set_pfr c true else c)
    end.

  Definition step_event (g : cfg) (c : cache) (e : evt) : cache * list result :=
    match e with
    | EvAdd i | EvMod i =>
        let '(c1, _, o) := handle_wl g c [] (ikey i) (irev i) (Some (ival i)) in (set_stale c1 false, o)
    | EvDel k r =>
        let '(c1, _, o) := handle_wl g c [] k r None in (set_stale c1 false, o)
    | EvBookmark r => (set_stale (set_errs (set_rev c r) 0) false, [])
    | EvErrExpired => reenter (set_stale (reset_rev c) false)
    | EvErrOther =>
        let c := set_errs c (S (errs c)) in
        reenter (if 5 <=? errs c then reset_rev c else c)
    | EvUnknown => (c, [])
    | EvClosed => reenter c
    end.

  (* one input: None = the input does not answer the call the cache is blocked in (or the code panics) *)
  Definition cache_step (g : cfg) (c : cache) (tick : bool) (r : resp) : option (cache * list result) :=
    let c := set_stale c (stale c || tick) in
    match ph c, r with
    | PList, RListOk items lrev => step_list g c (inl (items, lrev))
    | PList, RListErr e => step_list g c (inr e)
    | PWatch, RWatchOk => Some (step_watch c None)
    | PWatch, RWatchErr e => Some (step_watch c (Some e))
    | PEvents, REvent e => Some (step_event g c e)
    | _, _ => None
    end.

  (* newWatcherCache + run up to the first List call.  lastSuccessfulConnTime is the zero time: stale. *)
  Definition cache0 : cache := mkCache [] 0%N 0 false PList Wait true false false false true.
  Definition cache_init : cache * list result := loop_top cache0.

  (* ---- the syncer ---- *)
  Inductive out := OStatus (s : st) | OUpd (c : nat) (u : upd) | OSyncFailed | OParseFailed (c : nat) (k : N) | OUnknown.

  Record syncer := mkSyncer { caches : list cache; cstat : list st; wstatus : st }.

  Definition agg (cs : list st) : st :=
    if forallb (st_eqb InSync) cs then InSync else if forallb (st_eqb Wait) cs then Wait else Resync.

  Fixpoint set_nth {A} (n : nat) (x : A) (l : list A) : list A :=
    match n, l with
    | _, [] => []
    | 0, _ :: t => x :: t
    | S n', h :: t => h :: set_nth n' x t
    end.

  (* watcherSyncer.run / processResult.  What arrives on the results channel is an arbitrary interleaving of the
     caches' results; [SFlush] marks the moments when the consolidation loop found the channel empty (or hit its
     batch limit) and called sendUpdates.  State = (cacheStatuses, ws.status, pending updates). *)
  Inductive sev := SRes (i : nat) (r : result) | SFlush.
  Definition sstate3 := (list st * st * list (nat * upd))%type.
  Definition flush (pend : list (nat * upd)) : list out := map (fun iu => OUpd (fst iu) (snd iu)) pend.
  Definition proc_one (s : sstate3) (e : sev) : sstate3 * list out :=
    let '(cs, ws, pend) := s in
    match e with
    | SFlush => ((cs, ws, []), flush pend)
    | SRes i (ResUpd us) => ((cs, ws, pend ++ map (pair i) us), [])
    | SRes i ResBackendErr => ((cs, ws, []), flush pend ++ [OSyncFailed])
    | SRes i (ResParseErr k) => ((cs, ws, []), flush pend ++ [OParseFailed i k])
    | SRes i (ResStatus v) =>
        let cs' := set_nth i v cs in
        let n := agg cs' in
        if st_eqb n ws then ((cs', ws, pend), []) else ((cs', n, []), flush pend ++ [OStatus n])
    end.
  Fixpoint proc (s : sstate3) (es : list sev) : sstate3 * list out :=
    match es with
    | [] => (s, [])
    | e :: es' => let '(s1, o1) := proc_one s e in let '(s2, o2) := proc s1 es' in (s2, o1 ++ o2)
    end.
  (* all results of one step of cache i, then the end-of-batch sendUpdates *)
  Definition proc_all (i : nat) (cs : list st) (ws : st) (rs : list result) : list st * st * list out :=
    let '((cs', ws', _), o) := proc (cs, ws, []) (map (SRes i) rs ++ [SFlush]) in (cs', ws', o).

  Definition syncer_step (gs : list cfg) (s : syncer) (i : nat) (tick : bool) (r : resp) : option (syncer * list out) :=
    match nth_error gs i, nth_error (caches s) i with
    | Some g, Some c =>
        match cache_step g c tick r with
        | Some (c', rs) =>
            let '(cs', ws', o) := proc_all i (cstat s) (wstatus s) rs in
            Some (mkSyncer (set_nth i c' (caches s)) cs' ws', o)
        | None => None
        end
    | _, _ => None
    end.

  (* New + Start: run() announces WaitForDatastore, every cache runs up to its first List call (and, the initial
     status being the zero value WaitForDatastore, sends nothing on the way) *)
  Definition syncer_init (gs : list cfg) : syncer * list out :=
    (mkSyncer (map (fun _ => fst cache_init) gs) (map (fun _ => Wait) gs) Wait, [OStatus Wait]).

  Inductive stepio := St (c : nat) (tick : bool) (r : resp) (outs : list out).

  (* run a script; [None] as soon as an input does not fit.  Returns the outputs of each step. *)
  Fixpoint syncer_run (gs : list cfg) (s : syncer) (steps : list stepio) : option (syncer * list (list out)) :=
    match steps with
    | [] => Some (s, [])
    | St i t r _ :: rest =>
        match syncer_step gs s i t r with
        | Some (s1, o) => match syncer_run gs s1 rest with Some (s2, os) => Some (s2, o :: os) | None => None end
        | None => None
        end
    end.

  (* ---- what the cache asks for next: the call it blocks in and the revision it passes
     (client.List(ctx, list, wc.currentWatchRevision) / client.Watch(..., Revision: wc.currentWatchRevision)) ---- *)
  Definition req_of (c : cache) : phase * N :=
    (ph c, match ph c with PEvents => 0%N | _ => rev c end).
  (* like syncer_run, also returning after each step the next request of the cache that was stepped *)
  Fixpoint syncer_run_obs (gs : list cfg) (s : syncer) (steps : list stepio)
    : option (syncer * list (list out * (phase * N))) :=
    match steps with
    | [] => Some (s, [])
    | St i t r _ :: rest =>
        match syncer_step gs s i t r with
        | Some (s1, o) =>
            match syncer_run_obs gs s1 rest with
            | Some (s2, os) => Some (s2, (o, match nth_error (caches s1) i with Some c => req_of c | None => (PList, 0%N) end) :: os)
            | None => None
            end
        | None => None
        end
    end.

  (* ---- the one deliberate panic: `BUG: List returned items with empty/zero revision` ----
     The guard, exactly as in the code: a List that succeeds WITH items and whose revision is "" or "0".  Everything
     up to finishResync has been sent by then (the items' updates, the resync deletions, InSync); [cache_step] is
     [None] on such an input.  [panic_results] repeats the first half of [step_list] for that observation. *)
  Definition list_panics (r : resp) : bool :=
    match r with RListOk (_ :: _) lrev => zero_rev lrev | _ => false end.
  Definition panic_results (g : cfg) (c : cache) (tick : bool) (items : list item) : list result :=
    let c := set_stale c (stale c || tick) in
    let c := set_crd (mark_connected c) true in
    let '(c1, o1) := match status c with Wait => send_status c Resync | _ => (c, []) end in
    let '(c2, old, o2) := handle_items g (set_res c1 []) (res c1) items in
    let '(c3, o3) := finish_resync c2 old in
    o1 ++ o2 ++ o3.
  (* callbacks seen before cache i dies, if that input makes it panic *)
  Definition syncer_panic (gs : list cfg) (s : syncer) (i : nat) (tick : bool) (r : resp) : option (list out) :=
    match nth_error gs i, nth_error (caches s) i, r with
    | Some g, Some c, RListOk items _ =>
        match ph c with
        | PList => if list_panics r
                   then let '(_, _, o) := proc_all i (cstat s) (wstatus s) (panic_results g c tick items) in Some o
                   else None
        | _ => None
        end
    | _, _, _ => None
    end.
End WithOrder.

(* ---- canonical form of an output list: maximal runs of deletions sorted by (cache, key) ---- *)
Definition del_leb (a b : nat * N) : bool :=
  if Nat.ltb (fst a) (fst b) then true else if Nat.ltb (fst b) (fst a) then false else N.leb (snd a) (snd b).
Fixpoint ins_del (x : nat * N) (l : list (nat * N)) : list (nat * N) :=
  match l with [] => [x] | y :: t => if del_leb x y then x :: l else y :: ins_del x t end.
Definition emit_dels (run : list (nat * N)) : list out := map (fun ck => OUpd (fst ck) (UDel (snd ck))) run.
Fixpoint canon_go (run : list (nat * N)) (l : list out) : list out :=
  match l with
  | [] => emit_dels run
  | OUpd c (UDel k) :: t => canon_go (ins_del (c, k) run) t
  | o :: t => emit_dels run ++ o :: canon_go [] t
  end.
Definition canon (l : list out) : list out := canon_go [] l.
