(* C26 — proofs, part 3: the syncer.  What watcherSyncer.run reads from the results channel is an ARBITRARY
   interleaving [es] of the caches' result streams, with [SFlush] wherever the consolidation loop happened to call
   sendUpdates.  [proj i es] is what cache i sent.  The lemmas below lift the per-cache theorems to the callback
   stream [proc] produces, for every such schedule. *)
From Coq Require Import List NArith Arith Bool Lia.
From Verif.C26 Require Import Model Spec Proofs Steps.
Import ListNotations.

Fixpoint proj (i : nat) (es : list sev) : list result :=
  match es with
  | [] => []
  | SRes j r :: t => if Nat.eqb j i then r :: proj i t else proj i t
  | SFlush :: t => proj i t
  end.
Definition tag_ok (n : nat) (e : sev) : Prop := match e with SRes j _ => j < n | SFlush => True end.
(* the updates of cache i among pending ones / among callbacks *)
Definition ups (i : nat) (l : list (nat * upd)) : list upd := map snd (filter (fun iu => Nat.eqb (fst iu) i) l).
Fixpoint oups (i : nat) (o : list out) : list upd :=
  match o with
  | [] => []
  | OUpd c u :: t => if Nat.eqb c i then u :: oups i t else oups i t
  | _ :: t => oups i t
  end.
(* scan of the callback stream: no OnUpdates while the last OnStatusUpdated said WaitForDatastore *)
Fixpoint oscan (ws : st) (o : list out) : option st :=
  match o with
  | [] => Some ws
  | OStatus s :: t => oscan s t
  | OUpd _ _ :: t => match ws with Wait => None | _ => oscan ws t end
  | _ :: t => oscan ws t
  end.

Lemma proj_app i a b : proj i (a ++ b) = proj i a ++ proj i b.
Proof. induction a as [|[j r|] a IH]; cbn; auto. destruct (Nat.eqb j i); cbn; rewrite IH; reflexivity. Qed.
Lemma oups_app i a b : oups i (a ++ b) = oups i a ++ oups i b.
Proof. induction a as [|x a IH]; cbn; auto. destruct x; auto. destruct (Nat.eqb c i); cbn; rewrite IH; reflexivity. Qed.
Lemma ups_app i a b : ups i (a ++ b) = ups i a ++ ups i b.
Proof. unfold ups. rewrite filter_app, map_app. reflexivity. Qed.
Lemma oups_flush i pend : oups i (flush pend) = ups i pend.
Proof. unfold flush, ups. induction pend as [|[c u] p IH]; cbn; auto. destruct (Nat.eqb c i); cbn; rewrite IH; reflexivity. Qed.
Lemma ups_tagged i j us : ups i (map (pair j) us) = if Nat.eqb j i then us else [].
Proof.
  unfold ups. induction us as [|u us IH]; cbn; [destruct (Nat.eqb j i); reflexivity|].
  destruct (Nat.eqb j i) eqn:E; cbn; rewrite IH; reflexivity.
Qed.
Lemma oscan_app a : forall ws b, oscan ws (a ++ b) = match oscan ws a with Some s => oscan s b | None => None end.
Proof. induction a as [|x a IH]; intros ws b; cbn; auto. destruct x; auto. destruct ws; auto. Qed.
Lemma oscan_flush ws pend : pend = [] \/ ws <> Wait -> oscan ws (flush pend) = Some ws.
Proof.
  intros [->|H]; [reflexivity|]. induction pend as [|[c u] p IH]; cbn; auto. destruct ws; auto. congruence.
Qed.

Lemma set_nth_length {A} i (x : A) l : length (set_nth i x l) = length l.
Proof. revert i; induction l as [|a l IH]; intros [|i]; cbn; auto. Qed.
Lemma nth_set_nth_eq {A} i (x d : A) l : i < length l -> nth i (set_nth i x l) d = x.
Proof. revert i; induction l as [|a l IH]; intros [|i] H; cbn in *; try lia; auto. apply IH. lia. Qed.
Lemma nth_set_nth_neq {A} i j (x d : A) l : i <> j -> nth i (set_nth j x l) d = nth i l d.
Proof. revert i j; induction l as [|a l IH]; intros [|i] [|j] H; cbn; auto; try congruence. Qed.

Lemma agg_wait_nth cs i : agg cs = Wait -> i < length cs -> nth i cs Wait = Wait.
Proof.
  unfold agg. destruct (forallb (st_eqb InSync) cs); [discriminate|].
  destruct (forallb (st_eqb Wait) cs) eqn:E; [|discriminate]. intros _ Hi.
  rewrite forallb_forall in E. symmetry. apply st_eqb_eq. apply E. apply nth_In. exact Hi.
Qed.
Lemma agg_insync_nth cs i : agg cs = InSync -> i < length cs -> nth i cs Wait = InSync.
Proof.
  intros H Hi. apply agg_insync in H. rewrite Forall_forall in H. apply H. apply nth_In. exact Hi.
Qed.

(* ---- the callbacks carry exactly each cache's updates, in order ---- *)
Lemma proc_updates i es : forall cs ws pend cs' ws' pend' o,
  proc (cs, ws, pend) es = ((cs', ws', pend'), o) ->
  oups i o ++ ups i pend' = ups i pend ++ upds_of (proj i es).
Proof.
  induction es as [|e es IH]; intros cs ws pend cs' ws' pend' o H; cbn [proc] in H.
  - inversion H; subst. cbn. rewrite app_nil_r. reflexivity.
  - destruct (proc_one (cs, ws, pend) e) as [[[cs1 ws1] p1] o1] eqn:E1.
    destruct (proc (cs1, ws1, p1) es) as [[[cs2 ws2] p2] o2] eqn:E2. inversion H; subst; clear H.
    specialize (IH _ _ _ _ _ _ _ E2). rewrite oups_app, <- app_assoc, IH. clear IH E2.
    destruct e as [j r|]; cbn in E1.
    + destruct r as [v|us| |k].
      * destruct (st_eqb (agg (set_nth j v cs)) ws); inversion E1; subst; cbn [proj];
          destruct (Nat.eqb j i); cbn; rewrite ?oups_app, ?oups_flush; cbn; rewrite ?app_nil_r; reflexivity.
      * inversion E1; subst. cbn [proj oups app]. rewrite ups_app, ups_tagged.
        destruct (Nat.eqb j i); cbn; rewrite <- ?app_assoc, ?app_nil_r; reflexivity.
      * inversion E1; subst. cbn [proj]. destruct (Nat.eqb j i); cbn; rewrite oups_app, oups_flush; cbn; rewrite ?app_nil_r; reflexivity.
      * inversion E1; subst. cbn [proj]. destruct (Nat.eqb j i); cbn; rewrite oups_app, oups_flush; cbn; rewrite ?app_nil_r; reflexivity.
    + inversion E1; subst. cbn. rewrite oups_flush. reflexivity.
Qed.

(* ---- the reported status is the aggregate ---- *)
Lemma proc_one_agg cs ws pend e cs' ws' pend' o :
  ws = agg cs -> proc_one (cs, ws, pend) e = ((cs', ws', pend'), o) -> ws' = agg cs' /\ length cs' = length cs.
Proof.
  intros Hw H. destruct e as [j r|]; cbn in H; [destruct r|]; try (inversion H; subst; auto; fail).
  destruct (st_eqb (agg (set_nth j s cs)) ws) eqn:E; inversion H; subst; rewrite set_nth_length; split; auto.
  apply st_eqb_eq in E. congruence.
Qed.

(* ---- status tracking and "no update while waiting" ---- *)
Lemma proc_nowait es : forall cs ws pend cs' ws' pend' o,
  ws = agg cs -> (pend = [] \/ ws <> Wait) -> Forall (tag_ok (length cs)) es ->
  (forall i, i < length cs -> nowait (nth i cs Wait) (proj i es) <> None) ->
  proc (cs, ws, pend) es = ((cs', ws', pend'), o) ->
  oscan ws (o ++ flush pend') = Some ws' /\ ws' = agg cs' /\ length cs' = length cs /\
  (forall i, i < length cs -> nowait (nth i cs Wait) (proj i es) = Some (nth i cs' Wait)).
Proof.
  induction es as [|e es IH]; intros cs ws pend cs' ws' pend' o Hw Hp Ht Hn H; cbn [proc] in H.
  - inversion H; subst. cbn. split; [apply oscan_flush; exact Hp|]. auto.
  - destruct (proc_one (cs, ws, pend) e) as [[[cs1 ws1] p1] o1] eqn:E1.
    destruct (proc (cs1, ws1, p1) es) as [[[cs2 ws2] p2] o2] eqn:E2. inversion H; subst; clear H.
    destruct (proc_one_agg _ _ _ _ _ _ _ _ eq_refl E1) as [Hw1 Hl1].
    inversion Ht as [|? ? Te Tes]; subst.
    destruct e as [j r|]; cbn in E1, Te.
    + destruct r as [v|us| |k].
      * (* a status from cache j *)
        assert (Hn1 : forall i, i < length cs1 -> nowait (nth i cs1 Wait) (proj i es) <> None
                      /\ nowait (nth i cs Wait) (proj i (SRes j (ResStatus v) :: es)) = nowait (nth i cs1 Wait) (proj i es)).
        { intros i Hi. rewrite Hl1 in Hi. specialize (Hn i Hi). cbn [proj] in *.
          assert (Ecs1 : cs1 = set_nth j v cs) by (destruct (st_eqb (agg (set_nth j v cs)) (agg cs)); inversion E1; reflexivity).
          destruct (Nat.eqb j i) eqn:Eji.
          - apply Nat.eqb_eq in Eji. subst j. cbn in Hn. rewrite Ecs1, nth_set_nth_eq by exact Hi. auto.
          - apply Nat.eqb_neq in Eji. rewrite Ecs1, nth_set_nth_neq by congruence. auto. }
        destruct (st_eqb (agg (set_nth j v cs)) (agg cs)) eqn:Es; inversion E1; subst; clear E1.
        -- apply st_eqb_eq in Es. rewrite <- Es in *. destruct (IH _ _ _ _ _ _ _ eq_refl Hp ltac:(rewrite Hl1; exact Tes) (fun i Hi => proj1 (Hn1 i Hi)) E2) as (A & B & C & D).
           cbn [app]. split; [exact A|]. split; [exact B|]. split; [congruence|].
           intros i Hi. rewrite (proj2 (Hn1 i ltac:(rewrite Hl1; exact Hi))). apply D. rewrite Hl1. exact Hi.
        -- destruct (IH _ _ _ _ _ _ _ eq_refl (or_introl eq_refl) ltac:(rewrite Hl1; exact Tes) (fun i Hi => proj1 (Hn1 i Hi)) E2) as (A & B & C & D).
           rewrite <- !app_assoc, oscan_app, (oscan_flush _ _ Hp). cbn [app oscan]. split; [exact A|]. split; [exact B|]. split; [congruence|].
           intros i Hi. rewrite (proj2 (Hn1 i ltac:(rewrite Hl1; exact Hi))). apply D. rewrite Hl1. exact Hi.
      * (* updates from cache j: it is not waiting, hence neither is the syncer *)
        inversion E1; subst; clear E1.
        assert (Hj : nth j cs1 Wait <> Wait).
        { specialize (Hn j Te). cbn [proj] in Hn. rewrite Nat.eqb_refl in Hn. cbn in Hn. destruct (nth j cs1 Wait); congruence. }
        assert (Hws : agg cs1 <> Wait) by (intros Ha; apply Hj; apply agg_wait_nth; assumption).
        assert (Hn1 : forall i, i < length cs1 -> nowait (nth i cs1 Wait) (proj i es) <> None
                      /\ nowait (nth i cs1 Wait) (proj i (SRes j (ResUpd us) :: es)) = nowait (nth i cs1 Wait) (proj i es)).
        { intros i Hi. specialize (Hn i Hi). cbn [proj] in *. destruct (Nat.eqb j i) eqn:Eji; [|auto].
          apply Nat.eqb_eq in Eji. subst j. cbn in *. destruct (nth i cs1 Wait); auto; congruence. }
        destruct (IH _ _ _ _ _ _ _ eq_refl (or_intror Hws) Tes (fun i Hi => proj1 (Hn1 i Hi)) E2) as (A & B & C & D).
        cbn [app]. split; [exact A|]. split; [exact B|]. split; [exact C|].
        intros i Hi. rewrite (proj2 (Hn1 i Hi)). apply D. exact Hi.
      * inversion E1; subst; clear E1.
        assert (Hn1 : forall i, i < length cs1 -> nowait (nth i cs1 Wait) (proj i es) <> None
                      /\ nowait (nth i cs1 Wait) (proj i (SRes j ResBackendErr :: es)) = nowait (nth i cs1 Wait) (proj i es)).
        { intros i Hi. specialize (Hn i Hi). cbn [proj] in *. destruct (Nat.eqb j i); auto. }
        destruct (IH _ _ _ _ _ _ _ eq_refl (or_introl eq_refl) Tes (fun i Hi => proj1 (Hn1 i Hi)) E2) as (A & B & C & D).
        rewrite <- !app_assoc, oscan_app, (oscan_flush _ _ Hp). cbn [app oscan]. split; [exact A|]. split; [exact B|]. split; [exact C|].
        intros i Hi. rewrite (proj2 (Hn1 i Hi)). apply D. exact Hi.
      * inversion E1; subst; clear E1.
        assert (Hn1 : forall i, i < length cs1 -> nowait (nth i cs1 Wait) (proj i es) <> None
                      /\ nowait (nth i cs1 Wait) (proj i (SRes j (ResParseErr k) :: es)) = nowait (nth i cs1 Wait) (proj i es)).
        { intros i Hi. specialize (Hn i Hi). cbn [proj] in *. destruct (Nat.eqb j i); auto. }
        destruct (IH _ _ _ _ _ _ _ eq_refl (or_introl eq_refl) Tes (fun i Hi => proj1 (Hn1 i Hi)) E2) as (A & B & C & D).
        rewrite <- !app_assoc, oscan_app, (oscan_flush _ _ Hp). cbn [app oscan]. split; [exact A|]. split; [exact B|]. split; [exact C|].
        intros i Hi. rewrite (proj2 (Hn1 i Hi)). apply D. exact Hi.
    + inversion E1; subst; clear E1.
      destruct (IH _ _ _ _ _ _ _ eq_refl (or_introl eq_refl) Tes Hn E2) as (A & B & C & D).
      rewrite <- !app_assoc, oscan_app, (oscan_flush _ _ Hp). auto.
Qed.
