(* C26 — proofs, part 8: the boolean oracle [ok_obs] of Spec.v accepts every scripted run of the model. *)
From Coq Require Import List NArith Arith Bool Lia Permutation.
From Verif.C26 Require Import Model Spec Proofs Steps Syncer Shape Main Content Tidy.
Import ListNotations.

Lemma cfold_tail V pu us : cfold (cfold V pu) ([] ++ us) = cfold V (pu ++ us).
Proof. cbn [app]. rewrite cfold_app. reflexivity. Qed.

Section Scan.
  Variable i : nat.
  Variables (al lost : bool) (pf : N -> bool).
  Variable S : list ckv.
  Variable ld : bool.
  Notation tg pu := (map (pair i) pu).

  Lemma scan_flush pu : forall V ws rest,
    fits V pu -> (pu = [] \/ ws <> Wait) ->
    scan i al lost pf V ws (flush (tg pu) ++ rest) = scan i al lost pf (cfold V pu) ws rest.
  Proof.
    induction pu as [|u pu IH]; intros V ws rest Hf Hw; cbn; [reflexivity|].
    destruct Hf as [Hu Hf]. destruct Hw as [Hw|Hw]; [discriminate|].
    rewrite Nat.eqb_refl, Hu. destruct ws; try congruence; cbn; apply IH; auto; right; congruence.
  Qed.

  Lemma scan_proc rs : forall cs ws pu V cs' ws' p' o,
    proc (cs, ws, tg pu) (map (SRes i) rs ++ [SFlush]) = ((cs', ws', p'), o) ->
    ws = agg cs -> i < length cs ->
    fits V (pu ++ upds_of rs) -> (pu = [] \/ ws <> Wait) ->
    nowait (nth i cs Wait) rs <> None ->
    Forall (shp S ld lost pf) rs ->
    (ld = true -> (forall j, j < length cs -> j <> i -> nth j cs Wait = InSync) -> al = true) ->
    scan i al lost pf V ws o = Some (cfold V (pu ++ upds_of rs), ws') /\ ws' = agg cs' /\ length cs' = length cs /\
    (forall j, j <> i -> nth j cs' Wait = nth j cs Wait) /\ nowait (nth i cs Wait) rs = Some (nth i cs' Wait) /\ p' = [].
  Proof.
    induction rs as [|r rs IH]; intros cs ws pu V cs' ws' p' o H Hw Hi Hf Hp Hn Hs Hal; subst ws.
    - cbn in H. apply pair_inj in H. destruct H as [H <-]. apply pair_inj in H. destruct H as [H <-]. apply pair_inj in H. destruct H as [<- <-]. rewrite app_nil_r in *. cbn [upds_of flat_map] in *. rewrite app_nil_r in *.
      replace (flush (tg pu)) with (flush (tg pu) ++ []) by apply app_nil_r. rewrite scan_flush by assumption. cbn. auto 10.
    - cbn [map app proc] in H.
      destruct (proc_one (cs, agg cs, tg pu) (SRes i r)) as [[[cs1 ws1] p1] o1] eqn:E1.
      destruct (proc (cs1, ws1, p1) (map (SRes i) rs ++ [SFlush])) as [[[cs2 ws2] p2] o2] eqn:E2.
      apply pair_inj in H. destruct H as [H <-]. apply pair_inj in H. destruct H as [H <-]. apply pair_inj in H. destruct H as [<- <-]. pose proof (Forall_inv Hs) as Hr; pose proof (Forall_inv_tail Hs) as Hrs.
      destruct r as [v|us| |k]; cbn in E1.
      + (* status *)
        cbn [upds_of flat_map app] in Hf. cbn [nowait] in Hn |- *.
        assert (Hal1 : ld = true -> (forall j, j < length (set_nth i v cs) -> j <> i -> nth j (set_nth i v cs) Wait = InSync) -> al = true).
        { intros Hl Hj. apply Hal; [exact Hl|]. intros j Hjl Hji. rewrite <- (nth_set_nth_neq j i v Wait cs Hji). apply Hj; [rewrite set_nth_length; exact Hjl|exact Hji]. }
        assert (Hi1 : i < length (set_nth i v cs)) by (rewrite set_nth_length; exact Hi).
        assert (Hn1 : nowait (nth i (set_nth i v cs) Wait) rs <> None) by (rewrite nth_set_nth_eq by exact Hi; exact Hn).
        destruct (st_eqb (agg (set_nth i v cs)) (agg cs)) eqn:Es; inversion E1; subst; clear E1.
        * apply st_eqb_eq in Es.
          destruct (IH _ _ _ V _ _ _ _ E2 (eq_sym Es) Hi1 Hf Hp Hn1 Hrs Hal1) as (A & B & C & D & E & F).
          cbn [app]. split; [exact A|]. split; [exact B|]. split; [rewrite C; apply set_nth_length|].
          split; [intros j Hj; rewrite (D j Hj); apply nth_set_nth_neq; exact Hj|].
          split; [rewrite nth_set_nth_eq in E by exact Hi; exact E|exact F].
        * apply fits_app in Hf. destruct Hf as [Hf1 Hf2].
          destruct (IH _ _ [] (cfold V pu) _ _ _ _ E2 eq_refl Hi1 Hf2 (or_introl eq_refl) Hn1 Hrs Hal1) as (A & B & C & D & E & F).
          rewrite <- app_assoc, scan_flush by assumption. cbn [app scan].
          assert (Hcheck : negb (st_eqb (agg (set_nth i v cs)) (agg cs)) && match agg (set_nth i v cs) with InSync => al | _ => true end = true).
          { rewrite Es. cbn. destruct (agg (set_nth i v cs)) eqn:Ea; auto. apply Hal.
            - cbn in Hr. pose proof (agg_insync_nth _ i Ea Hi1) as Hv. rewrite nth_set_nth_eq in Hv by exact Hi. subst v. exact Hr.
            - intros j Hj Hji. rewrite <- (nth_set_nth_neq j i v Wait cs Hji). apply agg_insync_nth; [exact Ea|rewrite set_nth_length; exact Hj]. }
          rewrite Hcheck, A, cfold_tail. split; [reflexivity|]. split; [exact B|]. split; [rewrite C; apply set_nth_length|].
          split; [intros j Hj; rewrite (D j Hj); apply nth_set_nth_neq; exact Hj|].
          split; [rewrite nth_set_nth_eq in E by exact Hi; exact E|exact F].
      + (* updates: cache i is not waiting, hence neither is the syncer *)
        inversion E1; subst; clear E1. cbn [upds_of flat_map] in Hf |- *. fold (upds_of rs) in *. cbn [nowait] in Hn |- *.
        assert (Hj : nth i cs1 Wait <> Wait) by (destruct (nth i cs1 Wait); congruence).
        assert (Hws : agg cs1 <> Wait) by (intros Ha; apply Hj; apply agg_wait_nth; assumption).
        assert (Hn1 : nowait (nth i cs1 Wait) rs <> None) by (destruct (nth i cs1 Wait); congruence).
        rewrite <- map_app in E2. rewrite app_assoc in Hf.
        destruct (IH _ _ _ V _ _ _ _ E2 eq_refl Hi Hf (or_intror Hws) Hn1 Hrs Hal) as (A & B & C & D & E & F).
        cbn [app]. rewrite app_assoc. split; [exact A|]. split; [exact B|]. split; [exact C|]. split; [exact D|].
        split; [destruct (nth i cs1 Wait); congruence|exact F].
      + inversion E1; subst; clear E1. cbn [upds_of flat_map app] in Hf |- *. fold (upds_of rs) in *. cbn [nowait] in Hn |- *.
        apply fits_app in Hf. destruct Hf as [Hf1 Hf2].
        destruct (IH _ _ [] (cfold V pu) _ _ _ _ E2 eq_refl Hi Hf2 (or_introl eq_refl) Hn Hrs Hal) as (A & B & C & D & E & F).
        rewrite <- app_assoc, scan_flush by assumption. cbn [app scan]. cbn in Hr. rewrite Hr in A |- *. cbn iota. rewrite A, cfold_tail. auto 10.
      + inversion E1; subst; clear E1. cbn [upds_of flat_map app] in Hf |- *. fold (upds_of rs) in *. cbn [nowait] in Hn |- *.
        apply fits_app in Hf. destruct Hf as [Hf1 Hf2].
        destruct (IH _ _ [] (cfold V pu) _ _ _ _ E2 eq_refl Hi Hf2 (or_introl eq_refl) Hn Hrs Hal) as (A & B & C & D & E & F).
        rewrite <- app_assoc, scan_flush by assumption. cbn [app scan]. cbn in Hr. rewrite Nat.eqb_refl, Hr, A, cfold_tail. auto 10.
  Qed.
End Scan.

Lemma opt_eqb_refl x : opt_eqb x x = true.
Proof. destruct x as [[r v]|]; cbn; auto. rewrite !N.eqb_refl. reflexivity. Qed.
Lemma veqb_true (A B : vmap) : (forall k, lookup k A = lookup k B) -> veqb A B = true.
Proof.
  intros H. unfold veqb, vsub. apply andb_true_intro. split; apply forallb_forall; intros kv _;
    [rewrite H|rewrite <- H]; apply opt_eqb_refl.
Qed.
Lemma in_lookup {A} k (x : A) m : In (k, x) m -> lookup k m <> None.
Proof. intros H. apply lookup_in. apply in_map_iff. exists (k, x). auto. Qed.
Lemma spec_step_listed g sp t r : list_done r = true -> slisted (spec_step g sp t r) = true.
Proof. destruct r as [| [| |] | | |]; cbn; try discriminate; auto. Qed.

Section Run.
  Variable content : N -> N -> N.
  Variable ord : rmap -> rmap.
  Hypothesis Hperm : ord_perm ord.
  Let Ho : ord_ok ord := ord_perm_ok ord Hperm.
  Variable gs : list cfg.

  Lemma step_upd_ok g c t r c' rs :
    cache_step ord g c t r = Some (c', rs) -> input_ok content g r -> Forall (upd_ok content) (upds_of rs).
  Proof.
    intros E1 H1. apply cache_step_shape in E1. induction E1 as [|x l Hx Hl IHl]; cbn; [constructor|].
    apply Forall_app. split; [|exact IHl]. eapply shp_upd_ok; eauto.
  Qed.

  Definition centry (s : syncer) (o : ostate) (i : nat) : Prop :=
    exists c V sp, nth_error (caches s) i = Some c /\ nth_error (o_views o) i = Some V /\ nth_error (o_spec o) i = Some sp /\
      cinv c /\ rel c sp V /\ vok content V /\ vok content (sv sp) /\ NoDup (map fst (res c)) /\ nth i (cstat s) Wait = status c.
  Definition sinv (s : syncer) (o : ostate) : Prop :=
    length (caches s) = length gs /\ length (cstat s) = length gs /\ length (o_views o) = length gs /\ length (o_spec o) = length gs /\
    wstatus s = agg (cstat s) /\ o_ws o = wstatus s /\ forall i, i < length gs -> centry s o i.

  Lemma step_ok s o i t r s1 outs :
    sinv s o -> syncer_step ord gs s i t r = Some (s1, outs) ->
    (forall g, nth_error gs i = Some g -> input_ok content g r) ->
    exists o1, ok_step gs o (St i t r outs) = Some o1 /\ sinv s1 o1.
  Proof.
    intros (L1 & L2 & L3 & L4 & Hw & Hows & Hent) H Hin. unfold syncer_step in H.
    destruct (nth_error gs i) as [g|] eqn:Eg; [|discriminate].
    assert (Hi : i < length gs) by (apply nth_error_Some; congruence).
    destruct (Hent i Hi) as (c & V & sp & Ec & Ev & Esp & Hci & Hrel & HvV & HvS & Hnd & Hst).
    rewrite Ec in H. destruct (cache_step ord g c t r) as [[c' rs]|] eqn:Es; [|discriminate].
    unfold proc_all in H.
    destruct (proc (cstat s, wstatus s, []) (map (SRes i) rs ++ [SFlush])) as [[[cs' ws'] p'] o0] eqn:Ep.
    apply some_inj, pair_inj in H. destruct H as [<- <-].
    specialize (Hin g eq_refl).
    destruct (cache_step_post ord Ho g c sp V t r c' rs Hci Hrel Es) as (Pci & Prel & Pnw).
    pose proof Hrel as (R1 & R2 & R3 & R4).
    destruct (cache_step_tidy ord Hperm g c V (sv sp) t r c' rs R1 R2 Hnd Es) as (Tfit & Tnd).
    pose proof (cache_step_shape ord g c t r c' rs Es) as Hshape.
    assert (Hlost : step_lost c t r = conn_lost sp t r) by (unfold step_lost, conn_lost; rewrite R3; reflexivity).
    rewrite Hlost in Hshape.
    set (sp' := spec_step g sp t r) in *. set (V' := cfold V (upds_of rs)) in *.
    set (specs' := set_nth i sp' (o_spec o)).
    (* the scan *)
    assert (Hal : list_done r = true -> (forall j, j < length (cstat s) -> j <> i -> nth j (cstat s) Wait = InSync) -> forallb slisted specs' = true).
    { intros Hld Hj. apply forallb_forall. intros x Hx. apply In_nth_error in Hx. destruct Hx as [j Ej].
      assert (Hjl : j < length gs).
      { assert (j < length specs') by (apply nth_error_Some; congruence). unfold specs' in H. rewrite set_nth_length, L4 in H. exact H. }
      destruct (Nat.eq_dec j i) as [->|Hji].
      - unfold specs' in Ej. rewrite nth_error_set_nth_eq in Ej by (rewrite L4; exact Hi). inversion Ej; subst. apply spec_step_listed. exact Hld.
      - unfold specs' in Ej. rewrite nth_error_set_nth_neq in Ej by exact Hji.
        destruct (Hent j Hjl) as (cj & Vj & spj & _ & _ & Espj & _ & (_ & _ & _ & Q4) & _ & _ & _ & Hstj).
        rewrite Espj in Ej. inversion Ej; subst. apply Q4. rewrite <- Hstj. apply Hj; [rewrite L2; exact Hjl|exact Hji]. }
    assert (Hnw : nowait (nth i (cstat s) Wait) rs <> None) by (rewrite Hst, Pnw; discriminate).
    destruct (scan_proc i (forallb slisted specs') (conn_lost sp t r) (parse_fails g r) (conv_kvs g r) (list_done r)
                rs (cstat s) (wstatus s) [] V cs' ws' p' o0 Ep Hw ltac:(rewrite L2; exact Hi) Tfit (or_introl eq_refl) Hnw Hshape Hal)
      as (Sc & Sw & Sl & Sj & Sn & Sp). cbn [app] in Sc.
    (* contents *)
    assert (HvV' : vok content V') by (apply cfold_vok; [exact HvV|eapply step_upd_ok; eauto]).
    assert (HvS' : vok content (sv sp')) by (apply spec_step_vok; assumption).
    pose proof Prel as (Q1 & Q2 & Q3 & Q4).
    assert (Heq : forall k, lookup k V' = lookup k (sv sp')).
    { apply rvl_vok_eq with (content := content); auto. intros k. rewrite Q1, Q2. reflexivity. }
    (* the step is accepted *)
    assert (Hup : oups i o0 = upds_of rs).
    { pose proof (proc_updates i _ _ _ _ _ _ _ _ Ep) as Hu. rewrite Sp in Hu. cbn in Hu. rewrite app_nil_r in Hu.
      rewrite Hu, proj_app, proj_tagged, Nat.eqb_refl. cbn. rewrite app_nil_r. reflexivity. }
    assert (Hvan : vanished_ok i V (sv sp') o0 = true).
    { apply forallb_forall. intros [k x] Hk. cbn [fst]. destruct (lookup k (sv sp')) eqn:El; [reflexivity|].
      apply existsb_exists. exists (OUpd i (UDel k)). split; [|rewrite Nat.eqb_refl, N.eqb_refl; reflexivity].
      apply oups_in. rewrite Hup. apply (cfold_lost _ V k).
      - intros Hq. apply rvl_none in Hq. exact (in_lookup _ _ _ Hk Hq).
      - apply rvl_none. fold V'. rewrite Heq. exact El. }
    exists (mkO (set_nth i V' (o_views o)) specs' ws'). split.
    - unfold ok_step. rewrite Eg, Ev, Esp. fold sp'. fold specs'. rewrite Hows, Sc. fold V'.
      rewrite (veqb_true _ _ Heq), Hvan. destruct (is_list_ok r); reflexivity.
    - unfold sinv; cbn. split; [rewrite set_nth_length; exact L1|]. split; [congruence|]. split; [rewrite set_nth_length; exact L3|].
      split; [unfold specs'; rewrite set_nth_length; exact L4|]. split; [exact Sw|]. split; [reflexivity|].
      intros j Hj. destruct (Nat.eq_dec j i) as [->|Hji].
      + exists c', V', sp'. cbn. unfold specs'. rewrite !nth_error_set_nth_eq by congruence.
        assert (Hfin : nth i cs' Wait = status c') by (try rewrite Hst in Sn; congruence).
        split; [reflexivity|]. split; [reflexivity|]. split; [reflexivity|]. split; [exact Pci|]. split; [exact Prel|].
        split; [exact HvV'|]. split; [exact HvS'|]. split; [exact Tnd|exact Hfin].
      + destruct (Hent j Hj) as (cj & Vj & spj & A1 & A2 & A3 & A4 & A5 & A6 & A7 & A8 & A9).
        exists cj, Vj, spj. cbn. unfold specs'. rewrite !nth_error_set_nth_neq by exact Hji.
        split; [exact A1|]. split; [exact A2|]. split; [exact A3|]. split; [exact A4|]. split; [exact A5|].
        split; [exact A6|]. split; [exact A7|]. split; [exact A8|]. rewrite (Sj j Hji). exact A9.
  Qed.
End Run.

Lemma ok_steps_firstn gs l : forall o n, ok_steps gs o l = true -> ok_steps gs o (firstn n l) = true.
Proof.
  induction l as [|x l IH]; intros o [|n] H; cbn in *; auto.
  destruct (ok_step gs o x); [apply IH; exact H|discriminate].
Qed.

Section Final.
  Variable content : N -> N -> N.
  Variable ord : rmap -> rmap.
  Hypothesis Hperm : ord_perm ord.
  Variable gs : list cfg.
  Hypothesis gs_nonempty : gs <> [].

  (* every KV an input converts to carries the content its revision determines *)
  Definition step_input_ok (st : stepio) : Prop :=
    match st with St i _ r _ => forall g, nth_error gs i = Some g -> input_ok content g r end.

  Lemma run_ok steps : forall s o s' os,
    sinv content gs s o -> syncer_run ord gs s steps = Some (s', os) -> Forall step_input_ok steps ->
    ok_steps gs o (refill steps os) = true.
  Proof.
    induction steps as [|[i t r outs] steps IH]; intros s o s' os Hs H Hin; cbn [syncer_run] in H.
    - apply some_inj, pair_inj in H. destruct H as [_ <-]. reflexivity.
    - destruct (syncer_step ord gs s i t r) as [[s1 o1]|] eqn:E1; [|discriminate].
      destruct (syncer_run ord gs s1 steps) as [[s2 o2]|] eqn:E2; [|discriminate].
      apply some_inj, pair_inj in H. destruct H as [_ <-]. cbn [refill ok_steps].
      pose proof (Forall_inv Hin) as Hi1. pose proof (Forall_inv_tail Hin) as Hi2. cbn in Hi1.
      destruct (step_ok content ord Hperm gs s o i t r s1 o1 Hs E1 Hi1) as (oo & Eo & Hs1).
      rewrite Eo. eapply IH; eauto.
  Qed.

  Lemma sinv_init : sinv content gs (fst (syncer_init gs)) (ostate0 gs).
  Proof.
    unfold sinv, syncer_init, ostate0. cbn. rewrite !map_length. repeat (split; [reflexivity|]).
    split; [apply agg_map_wait; exact gs_nonempty|]. split; [reflexivity|].
    intros i Hi. destruct (nth_error gs i) as [g|] eqn:Eg; [|apply nth_error_None in Eg; lia].
    destruct cache_init_ok as (I & R & _ & Es).
    exists (fst cache_init), [], sstate0. cbn.
    rewrite !(map_nth_error _ _ _ Eg). split; [reflexivity|]. split; [reflexivity|]. split; [reflexivity|].
    split; [exact I|]. split; [exact R|]. split; [apply vok_nil|]. split; [apply vok_nil|].
    split; [cbv; constructor|]. rewrite nth_map_wait. symmetry. exact Es.
  Qed.

  Theorem model_meets_spec steps s' os :
    syncer_run ord gs (fst (syncer_init gs)) steps = Some (s', os) -> Forall step_input_ok steps ->
    forall n, ok_obs gs (snd (syncer_init gs)) (firstn n (refill steps os)) = true.
  Proof.
    intros H Hin n. unfold ok_obs. cbn [syncer_init snd outs_eqb out_eqb st_eqb andb].
    apply ok_steps_firstn. eapply run_ok; eauto. apply sinv_init.
  Qed.
End Final.
