(* C26 — proofs. *)
From Coq Require Import List NArith Arith Bool Lia.
From Verif.C26 Require Import Model Spec.
Import ListNotations.

Lemma st_eqb_eq a b : st_eqb a b = true <-> a = b.
Proof. destruct a, b; simpl; split; congruence. Qed.

Lemma agg_insync cs : agg cs = InSync <-> Forall (fun s => s = InSync) cs.
Proof.
  unfold agg. destruct (forallb (st_eqb InSync) cs) eqn:E.
  - split; [intros _|reflexivity]. rewrite forallb_forall in E. apply Forall_forall.
    intros x Hx. symmetry. apply st_eqb_eq. auto.
  - split.
    + destruct (forallb (st_eqb Wait) cs); discriminate.
    + intros F. exfalso. assert (forallb (st_eqb InSync) cs = true); [|congruence].
      apply forallb_forall. intros x Hx. rewrite Forall_forall in F. apply st_eqb_eq. symmetry. auto.
Qed.
