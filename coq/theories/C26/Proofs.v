(* C26 — proofs, part 1: maps, the mark-and-sweep, convergence of one cache. *)
From Coq Require Import List NArith Arith Bool Lia.
From Verif.C26 Require Import Model Spec.
Import ListNotations.

Lemma st_eqb_eq a b : st_eqb a b = true <-> a = b.
Proof. destruct a, b; simpl; split; congruence. Qed.
Lemma st_eqb_refl a : st_eqb a a = true.
Proof. destruct a; reflexivity. Qed.

Lemma agg_insync cs : agg cs = InSync <-> Forall (fun s => s = InSync) cs.
Proof.
  unfold agg. destruct (forallb (st_eqb InSync) cs) eqn:E.
  - split; [intros _|reflexivity]. rewrite forallb_forall in E. apply Forall_forall.
    intros x Hx. symmetry. apply st_eqb_eq. auto.
  - split.
    + destruct (forallb (st_eqb Wait) cs); discriminate.
    + intros F. exfalso. assert (forallb (st_eqb InSync) cs = true); [|congruence].
      apply forallb_forall. intros x Hx. rewrite Forall_forall in F. apply st_eqb_eq. symmetry. auto.
Qed.

(* ---------- association lists ---------- *)
Section Maps.
  Context {A : Type}.
  Implicit Types m : list (N * A).

  Lemma lookup_remove k k' m : lookup k (remove k' m) = if N.eqb k k' then None else lookup k m.
  Proof.
    induction m as [|[a x] m IH]; simpl.
    - destruct (N.eqb k k'); reflexivity.
    - destruct (N.eqb k' a) eqn:E1; simpl.
      + apply N.eqb_eq in E1; subst a. rewrite IH. destruct (N.eqb k k') eqn:E2; reflexivity.
      + rewrite IH. destruct (N.eqb k a) eqn:E2; [|reflexivity].
        apply N.eqb_eq in E2; subst a. rewrite N.eqb_sym, E1. reflexivity.
  Qed.

  Lemma lookup_upsert k k' (x : A) m : lookup k (upsert k' x m) = if N.eqb k k' then Some x else lookup k m.
  Proof.
    unfold upsert. simpl. destruct (N.eqb k k') eqn:E; [reflexivity|]. rewrite lookup_remove, E. reflexivity.
  Qed.

  Lemma lookup_in k m : lookup k m <> None <-> In k (map fst m).
  Proof.
    induction m as [|[a x] m IH]; simpl.
    - split; [congruence|tauto].
    - destruct (N.eqb k a) eqn:E.
      + apply N.eqb_eq in E. subst. split; [auto|congruence].
      + rewrite IH. apply N.eqb_neq in E. split; [auto|]. intros [H|H]; [congruence|auto].
  Qed.

  Lemma lookup_nil_all m : (forall k, lookup k m = None) -> m = [].
  Proof.
    destruct m as [|[a x] m]; [reflexivity|]. intros H. specialize (H a). simpl in H. rewrite N.eqb_refl in H. discriminate.
  Qed.
End Maps.

Arguments upsert : simpl never.
Arguments remove : simpl never.

(* revision-level reading of a view *)
Definition rvl (k : N) (V : vmap) : option N := option_map fst (lookup k V).

Lemma rvl_upsert k k' r v V : rvl k (upsert k' (r, v) V) = if N.eqb k k' then Some r else rvl k V.
Proof. unfold rvl. rewrite lookup_upsert. destruct (N.eqb k k'); reflexivity. Qed.
Lemma rvl_remove k k' V : rvl k (remove k' V) = if N.eqb k k' then None else rvl k V.
Proof. unfold rvl. rewrite lookup_remove. destruct (N.eqb k k'); reflexivity. Qed.

(* the updates carried by a list of results, in order *)
Definition upds_of (rs : list result) : list upd :=
  flat_map (fun r => match r with ResUpd us => us | _ => [] end) rs.
Lemma upds_of_app a b : upds_of (a ++ b) = upds_of a ++ upds_of b.
Proof. apply flat_map_app. Qed.
Definition cfold (V : vmap) (us : list upd) : vmap := fold_left capply us V.
Lemma cfold_app V a b : cfold V (a ++ b) = cfold (cfold V a) b.
Proof. apply fold_left_app. Qed.

(* ---------- mark and sweep: one converted KV ---------- *)
Definition I1 (rs old : rmap) (V : vmap) := forall k, rvl k V = match lookup k rs with Some r => Some r | None => lookup k old end.
Definition I2 (rs old : rmap) := forall k, lookup k rs <> None -> lookup k old = None.
Definition I3 (rs : rmap) (S : vmap) := forall k, rvl k S = lookup k rs.

Ltac h1_crush H H1 H2 H3 k Er Eo :=
  inversion H; subst; clear H; cbn [upds_of flat_map app cfold fold_left capply sapply]; (split; [|split]); intros q;
  try specialize (H1 q); try specialize (H2 q); try specialize (H3 q);
  rewrite ?rvl_upsert, ?rvl_remove, ?lookup_upsert, ?lookup_remove, ?lookup_upsert, ?lookup_remove in *;
  destruct (N.eqb q k) eqn:Eq; try (apply N.eqb_eq in Eq; subst q);
  rewrite ?Er, ?Eo, ?N.eqb_refl in *; auto; try congruence.

Lemma handle_one_inv rs old V S x rs' old' o :
  handle_one rs old x = (rs', old', o) -> I1 rs old V -> I2 rs old -> I3 rs S ->
  I1 rs' old' (cfold V (upds_of o)) /\ I2 rs' old' /\ I3 rs' (sapply S x).
Proof.
  destruct x as [[k r] v]. unfold handle_one, mark_valid, I1, I2, I3. intros H H1 H2 H3.
  destruct (lookup k old) as [r0|] eqn:Eo.
  - (* the key was in oldResources: it moves to resources first *)
    assert (Er : lookup k rs = None).
    { destruct (lookup k rs) eqn:E; [|reflexivity]. rewrite H2 in Eo; congruence. }
    rewrite lookup_upsert, N.eqb_refl in H.
    destruct v as [v|].
    + destruct (N.eqb r0 r) eqn:Err; [apply N.eqb_eq in Err; subst r0|]; h1_crush H H1 H2 H3 k Er Eo.
    + h1_crush H H1 H2 H3 k Er Eo.
  - destruct v as [v|].
    + destruct (lookup k rs) as [r0|] eqn:Er.
      * destruct (N.eqb r0 r) eqn:Err; [apply N.eqb_eq in Err; subst r0|]; h1_crush H H1 H2 H3 k Er Eo.
      * h1_crush H H1 H2 H3 k Er Eo.
    + destruct (lookup k rs) as [r0|] eqn:Er; h1_crush H H1 H2 H3 k Er Eo.
Qed.

Lemma handle_many_inv xs : forall rs old V S rs' old' o,
  handle_many rs old xs = (rs', old', o) -> I1 rs old V -> I2 rs old -> I3 rs S ->
  I1 rs' old' (cfold V (upds_of o)) /\ I2 rs' old' /\ I3 rs' (fold_left sapply xs S).
Proof.
  induction xs as [|x xs IH]; intros rs old V S rs' old' o H H1 H2 H3; simpl in H.
  - inversion H; subst. simpl. auto.
  - destruct (handle_one rs old x) as [[rs1 old1] o1] eqn:E1.
    destruct (handle_many rs1 old1 xs) as [[rs2 old2] o2] eqn:E2. inversion H; subst; clear H.
    destruct (handle_one_inv _ _ _ _ _ _ _ _ E1 H1 H2 H3) as (A1 & A2 & A3).
    rewrite upds_of_app, cfold_app. simpl. eapply IH; eauto.
Qed.

(* what handle_wl / handle_items leave alone *)
Definition same_ctl (c c' : cache) : Prop :=
  status c' = status c /\ ph c' = ph c /\ pfr c' = pfr c /\ crd c' = crd c /\ lpoll c' = lpoll c /\ wpoll c' = wpoll c
  /\ conn c' = conn c /\ stale c' = stale c.
Lemma same_ctl_refl c : same_ctl c c. Proof. unfold same_ctl; tauto. Qed.
Lemma same_ctl_trans a b c : same_ctl a b -> same_ctl b c -> same_ctl a c.
Proof. unfold same_ctl; intuition congruence. Qed.

Definition nostatus (rs : list result) : Prop := forall s, ~ In (ResStatus s) rs.
Lemma nostatus_app a b : nostatus a -> nostatus b -> nostatus (a ++ b).
Proof. unfold nostatus; intros Ha Hb s Hi. apply in_app_or in Hi. destruct Hi; [eapply Ha|eapply Hb]; eauto. Qed.
Lemma nostatus_nil : nostatus []. Proof. intros s []. Qed.

Lemma handle_one_nostatus rs old x : nostatus (snd (handle_one rs old x)).
Proof.
  destruct x as [[k r] v]. unfold handle_one. destruct (mark_valid rs old k) as [rs1 old1].
  destruct v; destruct (lookup k rs1); try destruct (N.eqb _ _); simpl; intros s; simpl; intuition congruence.
Qed.
Lemma handle_many_nostatus xs : forall rs old, nostatus (snd (handle_many rs old xs)).
Proof.
  induction xs as [|x xs IH]; intros rs old; simpl; [apply nostatus_nil|].
  pose proof (handle_one_nostatus rs old x) as H1. destruct (handle_one rs old x) as [[rs1 old1] o1].
  specialize (IH rs1 old1). destruct (handle_many rs1 old1 xs) as [[rs2 old2] o2]. simpl in *. apply nostatus_app; auto.
Qed.

Lemma handle_wl_spec g c old k r v c' old' o V S :
  handle_wl g c old k r v = (c', old', o) -> I1 (res c) old V -> I2 (res c) old -> I3 (res c) S ->
  I1 (res c') old' (cfold V (upds_of o)) /\ I2 (res c') old' /\ I3 (res c') (sapply_conv (cv g) S k r v)
  /\ same_ctl c c' /\ nostatus o.
Proof.
  unfold handle_wl, sapply_conv. intros H H1 H2 H3. destruct (convert (cv g) k r v) as [kvs e].
  pose proof (handle_many_nostatus kvs (res c) old) as Hn.
  destruct (handle_many (res c) old kvs) as [[rs old1] o1] eqn:E. inversion H; subst; clear H. simpl in *.
  destruct (handle_many_inv _ _ _ _ _ _ _ _ E H1 H2 H3) as (A1 & A2 & A3).
  assert (Eu : upds_of (o1 ++ (if e then [ResParseErr k] else [])) = upds_of o1).
  { rewrite upds_of_app. destruct e; simpl; apply app_nil_r. }
  rewrite Eu. repeat split; auto.
  apply nostatus_app; auto. destruct e; intros s; simpl; intuition congruence.
Qed.

Lemma handle_items_spec g items : forall c old c' old' o V S,
  handle_items g c old items = (c', old', o) -> I1 (res c) old V -> I2 (res c) old -> I3 (res c) S ->
  I1 (res c') old' (cfold V (upds_of o)) /\ I2 (res c') old'
  /\ I3 (res c') (fold_left (fun V i => sapply_conv (cv g) V (ikey i) (irev i) (Some (ival i))) items S)
  /\ same_ctl c c' /\ nostatus o.
Proof.
  induction items as [|i items IH]; intros c old c' old' o V S H H1 H2 H3; simpl in H.
  - inversion H; subst. simpl. split; [|split; [|split; [|split]]]; auto using same_ctl_refl, nostatus_nil.
  - destruct (handle_wl g c old (ikey i) (irev i) (Some (ival i))) as [[c1 old1] o1] eqn:E1.
    destruct (handle_items g c1 old1 items) as [[c2 old2] o2] eqn:E2. inversion H; subst; clear H.
    destruct (handle_wl_spec _ _ _ _ _ _ _ _ _ _ _ E1 H1 H2 H3) as (A1 & A2 & A3 & A4 & A5).
    destruct (IH _ _ _ _ _ _ _ E2 A1 A2 A3) as (B1 & B2 & B3 & B4 & B5).
    rewrite upds_of_app, cfold_app. simpl. split; [|split; [|split; [|split]]]; auto.
    + eapply same_ctl_trans; eauto.
    + apply nostatus_app; auto.
Qed.

(* ---------- scanning a result stream for "update while WaitForDatastore" ---------- *)
Fixpoint nowait (s : st) (rs : list result) : option st :=
  match rs with
  | [] => Some s
  | ResStatus s' :: t => nowait s' t
  | ResUpd _ :: t => match s with Wait => None | _ => nowait s t end
  | _ :: t => nowait s t
  end.
Lemma nowait_app a : forall s b, nowait s (a ++ b) = match nowait s a with Some s' => nowait s' b | None => None end.
Proof.
  induction a as [|r a IH]; intros s b; simpl; [reflexivity|].
  destruct r; auto. destruct s; auto.
Qed.
Lemma nowait_nostatus rs : forall s, nostatus rs -> s <> Wait -> nowait s rs = Some s.
Proof.
  induction rs as [|r rs IH]; intros s Hn Hs; simpl; [reflexivity|].
  assert (nostatus rs) by (intros q Hq; apply (Hn q); right; exact Hq).
  destruct r; auto.
  - exfalso. apply (Hn s0). left. reflexivity.
  - destruct s; auto. congruence.
Qed.

Section Steps.
  Variable ord : rmap -> rmap.
  Hypothesis ord_in : forall m x, In x (ord m) <-> In x m.

  Lemma ord_nil : ord [] = [].
  Proof. destruct (ord []) as [|x l] eqn:E; [reflexivity|]. exfalso. apply (ord_in [] x). rewrite E. left. reflexivity. Qed.

  Lemma ord_keys m k : In k (map fst (ord m)) <-> lookup k m <> None.
  Proof.
    rewrite lookup_in. rewrite !in_map_iff. split; intros [x [Hx Hi]]; exists x; split; auto; apply ord_in; auto.
  Qed.

  Lemma cfold_dels l : forall V k,
    rvl k (cfold V (map (fun kr : N * N => UDel (fst kr)) l)) = if existsb (N.eqb k) (map fst l) then None else rvl k V.
  Proof.
    induction l as [|[a x] l IH]; intros V k; simpl; [reflexivity|].
    unfold cfold in *. rewrite IH. rewrite rvl_remove. destruct (N.eqb k a); simpl; [|reflexivity].
    destruct (existsb _ _); reflexivity.
  Qed.

  Lemma existsb_in k l : existsb (N.eqb k) l = true <-> In k l.
  Proof.
    rewrite existsb_exists. split.
    - intros [x [Hx He]]. apply N.eqb_eq in He. subst. exact Hx.
    - intros H. exists k. split; [exact H|apply N.eqb_refl].
  Qed.

  Lemma upds_of_single_dels l :
    upds_of (map (fun kr : N * N => ResUpd [UDel (fst kr)]) l) = map (fun kr : N * N => UDel (fst kr)) l.
  Proof. induction l as [|x l IH]; simpl; [reflexivity|]. f_equal. exact IH. Qed.
  Lemma nowait_single_dels l s : s <> Wait -> nowait s (map (fun kr : N * N => ResUpd [UDel (fst kr)]) l) = Some s.
  Proof. intros Hs. induction l as [|x l IH]; simpl; [reflexivity|]. destruct s; auto. congruence. Qed.
End Steps.

(* ---------- "tidy": updates of the right kind, maps without duplicate keys ---------- *)
From Coq Require Import Permutation.

Fixpoint fits (V : vmap) (us : list upd) : Prop :=
  match us with [] => True | u :: t => upd_fits V u = true /\ fits (capply V u) t end.
Lemma fits_app a : forall V b, fits V (a ++ b) <-> fits V a /\ fits (cfold V a) b.
Proof.
  induction a as [|u a IH]; intros V b; cbn; [tauto|]. rewrite IH. unfold cfold. cbn. tauto.
Qed.
Lemma rvl_none k V : rvl k V = None <-> lookup k (V : vmap) = None.
Proof. unfold rvl. destruct (lookup k V); cbn; split; congruence. Qed.

Section MapsNoDup.
  Context {A : Type}.
  Implicit Types m : list (N * A).
  Lemma remove_keys_in k k' m : In k (map fst (remove k' m)) <-> In k (map fst m) /\ k <> k'.
  Proof.
    rewrite <- !lookup_in, lookup_remove. destruct (N.eqb k k') eqn:E.
    - apply N.eqb_eq in E. split; [congruence|tauto].
    - apply N.eqb_neq in E. tauto.
  Qed.
  Lemma nodup_remove k m : NoDup (map fst m) -> NoDup (map fst (remove k m)).
  Proof.
    induction m as [|[a x] m IH]; cbn; [auto|]. intros H. inversion H; subst.
    unfold remove in *. cbn. destruct (N.eqb k a); cbn; auto. constructor; auto.
    intros Hi. apply H2. change (filter _ m) with (remove k m) in Hi. apply remove_keys_in in Hi. tauto.
  Qed.
  Lemma nodup_upsert k (x : A) m : NoDup (map fst m) -> NoDup (map fst (upsert k x m)).
  Proof.
    intros H. unfold upsert. cbn. constructor; [|apply nodup_remove; exact H].
    intros Hi. apply remove_keys_in in Hi. tauto.
  Qed.
End MapsNoDup.

Lemma handle_one_tidy rs old V x rs' old' o :
  handle_one rs old x = (rs', old', o) -> I1 rs old V -> I2 rs old ->
  NoDup (map fst rs) -> NoDup (map fst old) ->
  fits V (upds_of o) /\ NoDup (map fst rs') /\ NoDup (map fst old').
Proof.
  destruct x as [[k r] v]. unfold handle_one, mark_valid, I1, I2. intros H H1 H2 N1 N2.
  pose proof (H1 k) as Hk. pose proof (rvl_none k V) as Hn. unfold upd_fits.
  destruct (lookup k old) as [r0|] eqn:Eo.
  - assert (Er : lookup k rs = None).
    { destruct (lookup k rs) eqn:E; [|reflexivity]. rewrite H2 in Eo; congruence. }
    rewrite Er in Hk. rewrite lookup_upsert, N.eqb_refl in H.
    assert (Hv : lookup k V <> None) by (intros Hq; apply Hn in Hq; congruence).
    destruct v as [v|]; [destruct (N.eqb r0 r)|]; inversion H; subst; clear H; cbn;
      (split; [|split]); auto using nodup_upsert, nodup_remove;
      destruct (lookup k V); try congruence; auto.
  - destruct v as [v|].
    + destruct (lookup k rs) as [r0|] eqn:Er.
      * assert (Hv : lookup k V <> None) by (intros Hq; apply Hn in Hq; congruence).
        destruct (N.eqb r0 r); inversion H; subst; clear H; cbn; (split; [|split]); auto using nodup_upsert, nodup_remove;
          destruct (lookup k V); try congruence; auto.
      * assert (Hv : lookup k V = None) by (apply Hn; exact Hk).
        inversion H; subst; clear H; cbn; (split; [|split]); auto using nodup_upsert, nodup_remove. rewrite Hv. auto.
    + destruct (lookup k rs) as [r0|] eqn:Er; inversion H; subst; clear H; cbn; (split; [|split]); auto using nodup_upsert, nodup_remove.
      assert (Hv : lookup k V <> None) by (intros Hq; apply Hn in Hq; congruence).
      destruct (lookup k V); try congruence; auto.
Qed.

Lemma handle_many_tidy xs : forall rs old V S rs' old' o,
  handle_many rs old xs = (rs', old', o) -> I1 rs old V -> I2 rs old -> I3 rs S ->
  NoDup (map fst rs) -> NoDup (map fst old) ->
  fits V (upds_of o) /\ NoDup (map fst rs') /\ NoDup (map fst old').
Proof.
  induction xs as [|x xs IH]; intros rs old V S rs' old' o H H1 H2 H3 N1 N2; simpl in H.
  - inversion H; subst. cbn. auto.
  - destruct (handle_one rs old x) as [[rs1 old1] o1] eqn:E1.
    destruct (handle_many rs1 old1 xs) as [[rs2 old2] o2] eqn:E2. inversion H; subst; clear H.
    destruct (handle_one_inv _ _ _ _ _ _ _ _ E1 H1 H2 H3) as (A1 & A2 & A3).
    destruct (handle_one_tidy _ _ _ _ _ _ _ E1 H1 H2 N1 N2) as (T1 & T2 & T3).
    destruct (IH _ _ _ _ _ _ _ E2 A1 A2 A3 T2 T3) as (U1 & U2 & U3).
    rewrite upds_of_app, fits_app. auto.
Qed.

Lemma handle_wl_tidy g c old k r v c' old' o V S :
  handle_wl g c old k r v = (c', old', o) -> I1 (res c) old V -> I2 (res c) old -> I3 (res c) S ->
  NoDup (map fst (res c)) -> NoDup (map fst old) ->
  fits V (upds_of o) /\ NoDup (map fst (res c')) /\ NoDup (map fst old').
Proof.
  unfold handle_wl. intros H H1 H2 H3 N1 N2. destruct (convert (cv g) k r v) as [kvs e].
  destruct (handle_many (res c) old kvs) as [[rs old1] o1] eqn:E. inversion H; subst; clear H. cbn.
  destruct (handle_many_tidy _ _ _ _ _ _ _ _ E H1 H2 H3 N1 N2) as (T1 & T2 & T3).
  rewrite upds_of_app. destruct e; cbn; rewrite app_nil_r; auto.
Qed.

Lemma handle_items_tidy g items : forall c old c' old' o V S,
  handle_items g c old items = (c', old', o) -> I1 (res c) old V -> I2 (res c) old -> I3 (res c) S ->
  NoDup (map fst (res c)) -> NoDup (map fst old) ->
  fits V (upds_of o) /\ NoDup (map fst (res c')) /\ NoDup (map fst old').
Proof.
  induction items as [|i items IH]; intros c old c' old' o V S H H1 H2 H3 N1 N2; simpl in H.
  - inversion H; subst. cbn. auto.
  - destruct (handle_wl g c old (ikey i) (irev i) (Some (ival i))) as [[c1 old1] o1] eqn:E1.
    destruct (handle_items g c1 old1 items) as [[c2 old2] o2] eqn:E2. inversion H; subst; clear H.
    destruct (handle_wl_spec _ _ _ _ _ _ _ _ _ _ _ E1 H1 H2 H3) as (A1 & A2 & A3 & _ & _).
    destruct (handle_wl_tidy _ _ _ _ _ _ _ _ _ _ _ E1 H1 H2 H3 N1 N2) as (T1 & T2 & T3).
    destruct (IH _ _ _ _ _ _ _ E2 A1 A2 A3 T2 T3) as (U1 & U2 & U3).
    rewrite upds_of_app, fits_app. auto.
Qed.

Lemma fits_dels (l : list (N * N)) : forall V,
  NoDup (map fst l) -> (forall k, In k (map fst l) -> rvl k V <> None) ->
  fits V (map (fun kr : N * N => UDel (fst kr)) l).
Proof.
  induction l as [|[k r] l IH]; intros V Hn Hp; cbn; [exact I|]. inversion Hn; subst. split.
  - specialize (Hp k (or_introl eq_refl)). destruct (lookup k V) eqn:E; [reflexivity|]. exfalso. apply Hp. apply rvl_none. exact E.
  - apply IH; [assumption|]. intros k' Hk'. rewrite rvl_remove. destruct (N.eqb k' k) eqn:E.
    + apply N.eqb_eq in E. subst. contradiction.
    + apply Hp. right. exact Hk'.
Qed.
