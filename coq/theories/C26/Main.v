(* C26 — proofs, part 5: the property as theorems about the SYNCER's callback stream. *)
From Coq Require Import List NArith Arith Bool Lia.
From Verif.C26 Require Import Model Spec Proofs Steps Syncer Shape.
Import ListNotations.

(* [es] is what the syncer goroutine reads from its results channel: any interleaving (with flush points anywhere)
   of the result streams of the caches, cache i having been fed the inputs [nth i inss]. *)
Definition interleaving (ord : rmap -> rmap) (gs : list cfg) (inss : list (list (bool * resp))) (es : list sev) : Prop :=
  length inss = length gs /\ Forall (tag_ok (length gs)) es /\
  forall i g ins, nth_error gs i = Some g -> nth_error inss i = Some ins ->
    exists c, cache_run ord g (fst cache_init) ins = Some (c, proj i es).
Definition syncer0 (gs : list cfg) : sstate3 := (map (fun _ => Wait) gs, Wait, []).
(* everything the consumer has been (or, at the next flush, will be) given *)
Definition delivered (o : list out) (pend : list (nat * upd)) : list out := o ++ flush pend.

Lemma oups_in i u l : In u (oups i l) -> In (OUpd i u) l.
Proof.
  induction l as [|x l IH]; cbn; [tauto|]. destruct x; try (intros H; right; auto; fail).
  destruct (Nat.eqb c i) eqn:E; [apply Nat.eqb_eq in E; subst|]; cbn; intros H; [destruct H; [left; congruence|]|]; right; auto.
Qed.

Lemma nowait_in rs : forall s s', nowait s rs = Some s' -> s' = s \/ In (ResStatus s') rs.
Proof.
  induction rs as [|r rs IH]; intros s s' H; cbn in H; [left; congruence|].
  destruct r.
  - destruct (IH _ _ H) as [->|Hi]; [right; left; reflexivity|right; right; exact Hi].
  - destruct s; try discriminate; destruct (IH _ _ H); auto; right; right; auto.
  - destruct (IH _ _ H); auto; right; right; auto.
  - destruct (IH _ _ H); auto; right; right; auto.
Qed.

Lemma cache_run_app ord g a : forall c b c' rs,
  cache_run ord g c (a ++ b) = Some (c', rs) ->
  exists c1 r1 r2, cache_run ord g c a = Some (c1, r1) /\ cache_run ord g c1 b = Some (c', r2) /\ rs = r1 ++ r2.
Proof.
  induction a as [|[t r] a IH]; intros c b c' rs H; cbn in *.
  - exists c, [], rs. auto.
  - destruct (cache_step ord g c t r) as [[c1 o1]|]; [|discriminate].
    destruct (cache_run ord g c1 (a ++ b)) as [[c2 o2]|] eqn:E; [|discriminate].
    apply some_inj, pair_inj in H. destruct H as [<- <-].
    destruct (IH _ _ _ _ E) as (c3 & r1 & r2 & E1 & E2 & ->). rewrite E1.
    exists c3, (o1 ++ r1), r2. rewrite app_assoc. auto.
Qed.

Lemma cache_run_insync_list ord g ins : forall c c' rs,
  cache_run ord g c ins = Some (c', rs) -> In (ResStatus InSync) rs -> existsb list_done (map snd ins) = true.
Proof.
  induction ins as [|[t r] ins IH]; intros c c' rs H Hi; cbn in *.
  - apply some_inj, pair_inj in H. destruct H as [_ <-]. destruct Hi.
  - destruct (cache_step ord g c t r) as [[c1 o1]|] eqn:E1; [|discriminate].
    destruct (cache_run ord g c1 ins) as [[c2 o2]|] eqn:E2; [|discriminate].
    apply some_inj, pair_inj in H. destruct H as [_ <-]. apply in_app_or in Hi. destruct Hi as [Hi|Hi].
    + apply cache_step_shape in E1. rewrite Forall_forall in E1. specialize (E1 _ Hi). cbn in E1. rewrite E1. reflexivity.
    + rewrite (IH _ _ _ E2 Hi). apply orb_true_r.
Qed.

Lemma forallb_map_wait (l : list cfg) : forallb (st_eqb Wait) (map (fun _ : cfg => Wait) l) = true.
Proof. induction l as [|a l IH]; cbn; auto. Qed.
Lemma agg_map_wait (l : list cfg) : l <> [] -> Wait = agg (map (fun _ : cfg => Wait) l).
Proof. destruct l as [|a l]; [congruence|]. intros _. unfold agg. cbn. rewrite forallb_map_wait. reflexivity. Qed.
Lemma nth_map_wait (l : list cfg) i : nth i (map (fun _ : cfg => Wait) l) Wait = Wait.
Proof. revert i. induction l as [|a l IH]; intros [|i]; cbn; auto. Qed.

Section M.
  Variable ord : rmap -> rmap.
  Hypothesis Ho : ord_ok ord.
  Variable gs : list cfg.
  Hypothesis gs_nonempty : gs <> [].
  Variable inss : list (list (bool * resp)).

  Lemma agg0 : Wait = agg (map (fun _ : cfg => Wait) gs).
  Proof. apply agg_map_wait. exact gs_nonempty. Qed.
  Lemma nth0 i : nth i (map (fun _ : cfg => Wait) gs) Wait = Wait.
  Proof. apply nth_map_wait. Qed.

  Lemma inter_nowait es i : interleaving ord gs inss es -> i < length gs -> nowait Wait (proj i es) <> None.
  Proof.
    intros (Hl & _ & Hr) Hi.
    destruct (nth_error gs i) as [g|] eqn:Eg; [|apply nth_error_None in Eg; lia].
    destruct (nth_error inss i) as [ins|] eqn:Ei; [|apply nth_error_None in Ei; lia].
    destruct (Hr _ _ _ Eg Ei) as [c Hc]. rewrite (cache_no_update_while_waiting _ _ _ _ _ Ho Hc). discriminate.
  Qed.

  (* convergence on the callback stream *)
  Theorem syncer_converges es cs ws pend o :
    interleaving ord gs inss es -> proc (syncer0 gs) es = ((cs, ws, pend), o) ->
    forall i g ins, nth_error gs i = Some g -> nth_error inss i = Some ins ->
    forall k, rvl k (cfold [] (oups i (delivered o pend))) = rvl k (sv (spec_run g sstate0 ins)).
  Proof.
    intros (Hl & Ht & Hr) Hp i g ins Eg Ei k. destruct (Hr _ _ _ Eg Ei) as [c Hc].
    unfold delivered. rewrite oups_app, oups_flush, (proc_updates i _ _ _ _ _ _ _ _ Hp). cbn.
    exact (cache_converges _ _ _ _ _ Ho Hc k).
  Qed.

  (* keys that vanished during a resync are deleted on the callback stream *)
  Theorem syncer_vanished_deleted es cs ws pend o :
    interleaving ord gs inss es -> proc (syncer0 gs) es = ((cs, ws, pend), o) ->
    forall i g ins1 t items lrev ins2, nth_error gs i = Some g ->
    nth_error inss i = Some (ins1 ++ (t, RListOk items lrev) :: ins2) ->
    forall k, rvl k (sv (spec_run g sstate0 ins1)) <> None -> rvl k (slist (cv g) items) = None ->
    In (OUpd i (UDel k)) (delivered o pend).
  Proof.
    intros (Hl & Ht & Hr) Hp i g ins1 t items lrev ins2 Eg Ei k Hk Hn. destruct (Hr _ _ _ Eg Ei) as [c Hc].
    apply cache_run_app in Hc. destruct Hc as (c1 & r1 & r2 & E1 & E2 & Er). cbn in E2.
    destruct (cache_step ord g c1 t (RListOk items lrev)) as [[c2 o2]|] eqn:Es; [|discriminate].
    destruct (cache_run ord g c2 ins2) as [[c3 o3]|]; [|discriminate].
    apply some_inj, pair_inj in E2. destruct E2 as [_ <-].
    assert (Hd : In (UDel k) (upds_of o2)).
    { eapply cache_vanished_deleted; eauto. rewrite (cache_converges _ _ _ _ _ Ho E1 k). exact Hk. }
    apply oups_in. unfold delivered. rewrite oups_app, oups_flush, (proc_updates i _ _ _ _ _ _ _ _ Hp). cbn.
    rewrite Er, !upds_of_app. apply in_or_app. right. apply in_or_app. left. exact Hd.
  Qed.

  (* no OnUpdates while the last OnStatusUpdated was WaitForDatastore; the scan ends in the syncer's status *)
  Theorem syncer_no_update_while_waiting es cs ws pend o :
    interleaving ord gs inss es -> proc (syncer0 gs) es = ((cs, ws, pend), o) ->
    oscan Wait (delivered o pend) = Some ws.
  Proof.
    intros Hin Hp. pose proof Hin as (Hl & Ht & Hr).
    assert (Hlen : length (map (fun _ : cfg => Wait) gs) = length gs) by apply map_length.
    destruct (proc_nowait es _ _ _ _ _ _ _ agg0 (or_introl eq_refl) ltac:(rewrite Hlen; exact Ht)
                ltac:(intros i Hi; rewrite nth0; apply inter_nowait; [exact Hin|rewrite <- Hlen; exact Hi]) Hp) as (A & _).
    exact A.
  Qed.

  (* InSync on the callback stream: at ANY moment (after any prefix es1 of what the syncer will read) at which the
     status reported last is InSync, every cache has itself sent InSync before, which it only does in a step that
     completes a List *)
  Theorem syncer_insync_after_all_listed es1 es2 cs pend o :
    interleaving ord gs inss (es1 ++ es2) -> proc (syncer0 gs) es1 = ((cs, InSync, pend), o) ->
    forall i g ins, nth_error gs i = Some g -> nth_error inss i = Some ins ->
    In (ResStatus InSync) (proj i es1) /\ existsb list_done (map snd ins) = true.
  Proof.
    intros Hin Hp i g ins Eg Ei. pose proof Hin as (Hl & Ht & Hr).
    assert (Hlen : length (map (fun _ : cfg => Wait) gs) = length gs) by apply map_length.
    assert (Hi : i < length gs) by (apply nth_error_Some; congruence).
    assert (Ht1 : Forall (tag_ok (length gs)) es1) by (apply Forall_app in Ht; tauto).
    assert (Hn1 : forall j, j < length gs -> nowait Wait (proj j es1) <> None).
    { intros j Hj. pose proof (inter_nowait _ _ Hin Hj) as Hq. rewrite proj_app, nowait_app in Hq.
      destruct (nowait Wait (proj j es1)); congruence. }
    destruct (proc_nowait es1 _ _ _ _ _ _ _ agg0 (or_introl eq_refl) ltac:(rewrite Hlen; exact Ht1)
                ltac:(intros j Hj; rewrite nth0; apply Hn1; rewrite <- Hlen; exact Hj) Hp) as (_ & B & C & D).
    specialize (D i ltac:(rewrite Hlen; exact Hi)). rewrite nth0 in D.
    rewrite (agg_insync_nth cs i (eq_sym B) ltac:(rewrite C, Hlen; exact Hi)) in D.
    destruct (nowait_in _ _ _ D) as [Hq|Hq]; [discriminate|]. split; [exact Hq|].
    destruct (Hr _ _ _ Eg Ei) as [c Hc]. eapply cache_run_insync_list; [exact Hc|]. rewrite proj_app. apply in_or_app. left. exact Hq.
  Qed.

  (* ... and once everything sent has been processed: every resource type has completed a full List since its
     connection was last declared lost *)
  Theorem syncer_insync_all_listed es cs pend o :
    interleaving ord gs inss es -> proc (syncer0 gs) es = ((cs, InSync, pend), o) ->
    forall i g ins, nth_error gs i = Some g -> nth_error inss i = Some ins -> slisted (spec_run g sstate0 ins) = true.
  Proof.
    intros Hin Hp i g ins Eg Ei. pose proof Hin as (Hl & Ht & Hr).
    assert (Hlen : length (map (fun _ : cfg => Wait) gs) = length gs) by apply map_length.
    assert (Hi : i < length gs) by (apply nth_error_Some; congruence).
    destruct (proc_nowait es _ _ _ _ _ _ _ agg0 (or_introl eq_refl) ltac:(rewrite Hlen; exact Ht)
                ltac:(intros j Hj; rewrite nth0; apply inter_nowait; [exact Hin|rewrite <- Hlen; exact Hj]) Hp) as (_ & B & C & D).
    specialize (D i ltac:(rewrite Hlen; exact Hi)). rewrite nth0 in D.
    rewrite (agg_insync_nth cs i (eq_sym B) ltac:(rewrite C, Hlen; exact Hi)) in D.
    destruct (Hr _ _ _ Eg Ei) as [c Hc]. rewrite (cache_no_update_while_waiting _ _ _ _ _ Ho Hc) in D.
    eapply cache_insync_listed; eauto. congruence.
  Qed.
End M.

(* ---------- the scripted runs of Model.syncer_run (the ones compared with the real code) are such interleavings ---------- *)
Definition ins_of (i : nat) (steps : list stepio) : list (bool * resp) :=
  flat_map (fun s => match s with St j t r _ => if Nat.eqb j i then [(t, r)] else [] end) steps.

Lemma proc_app a : forall s b s1 o1 s2 o2,
  proc s a = (s1, o1) -> proc s1 b = (s2, o2) -> proc s (a ++ b) = (s2, o1 ++ o2).
Proof.
  induction a as [|e a IH]; intros s b s1 o1 s2 o2 H1 H2; cbn [proc app] in *.
  - inversion H1; subst. exact H2.
  - destruct (proc_one s e) as [sa oa]. destruct (proc sa a) as [sb ob] eqn:Eb. inversion H1; subst.
    rewrite (IH _ _ _ _ _ _ Eb H2). rewrite app_assoc. reflexivity.
Qed.
Lemma proj_tagged i j rs : proj i (map (SRes j) rs) = if Nat.eqb j i then rs else [].
Proof. induction rs as [|r rs IH]; cbn; [destruct (Nat.eqb j i); reflexivity|]. destruct (Nat.eqb j i); cbn; rewrite IH; reflexivity. Qed.
Lemma nth_error_set_nth_eq {A} i (x : A) l : i < length l -> nth_error (set_nth i x l) i = Some x.
Proof. revert i; induction l as [|a l IH]; intros [|i] H; cbn in *; try lia; auto. apply IH. lia. Qed.
Lemma nth_error_set_nth_neq {A} i j (x : A) l : i <> j -> nth_error (set_nth j x l) i = nth_error l i.
Proof. revert i j; induction l as [|a l IH]; intros [|i] [|j] H; cbn; auto; try congruence. Qed.

Lemma syncer_run_stream ord gs steps : forall s s' os,
  syncer_run ord gs s steps = Some (s', os) -> length (caches s) = length gs ->
  exists es, Forall (tag_ok (length gs)) es /\
    proc (cstat s, wstatus s, []) es = ((cstat s', wstatus s', []), concat os) /\
    forall i g c, nth_error gs i = Some g -> nth_error (caches s) i = Some c ->
      exists c', nth_error (caches s') i = Some c' /\ cache_run ord g c (ins_of i steps) = Some (c', proj i es).
Proof.
  induction steps as [|[j t r outs] steps IH]; intros s s' os H Hl; cbn [syncer_run] in H.
  - apply some_inj, pair_inj in H. destruct H as [<- <-]. exists []. cbn. split; [constructor|]. split; [reflexivity|].
    intros i g c _ Hc. exists c. auto.
  - destruct (syncer_step ord gs s j t r) as [[s1 o1]|] eqn:E1; [|discriminate].
    destruct (syncer_run ord gs s1 steps) as [[s2 o2]|] eqn:E2; [|discriminate].
    apply some_inj, pair_inj in H. destruct H as [<- <-].
    unfold syncer_step in E1. destruct (nth_error gs j) as [gj|] eqn:Eg; [|discriminate].
    destruct (nth_error (caches s) j) as [cj|] eqn:Ec; [|discriminate].
    destruct (cache_step ord gj cj t r) as [[cj' rs]|] eqn:Es; [|discriminate].
    unfold proc_all in E1.
    destruct (proc (cstat s, wstatus s, []) (map (SRes j) rs)) as [[[csa wsa] pa] oa] eqn:Ea.
    assert (Ep : proc (cstat s, wstatus s, []) (map (SRes j) rs ++ [SFlush]) = ((csa, wsa, []), oa ++ flush pa ++ [])).
    { eapply proc_app; [exact Ea|]. reflexivity. }
    rewrite Ep in E1. apply some_inj, pair_inj in E1. destruct E1 as [<- <-].
    assert (Hj : j < length gs) by (apply nth_error_Some; congruence).
    destruct (IH _ _ _ E2 ltac:(cbn; rewrite set_nth_length; exact Hl)) as (es2 & T2 & P2 & R2). cbn in P2, R2.
    exists ((map (SRes j) rs ++ [SFlush]) ++ es2). split; [|split].
    + apply Forall_app; split; [|exact T2]. apply Forall_app; split; [|repeat constructor].
      apply Forall_forall. intros e He. apply in_map_iff in He. destruct He as [x [<- _]]. exact Hj.
    + cbn [concat]. eapply proc_app; [exact Ep|exact P2].
    + intros i g c Hg Hc. cbn [ins_of flat_map]. rewrite proj_app, proj_app, proj_tagged. cbn [proj]. rewrite app_nil_r.
      destruct (Nat.eqb j i) eqn:Eji.
      * apply Nat.eqb_eq in Eji. subst i. assert (g = gj) by congruence. assert (c = cj) by congruence. subst g c.
        destruct (R2 j gj cj' Hg ltac:(apply nth_error_set_nth_eq; rewrite Hl; exact Hj)) as (c' & N' & Rn).
        exists c'. split; [exact N'|]. cbn [app cache_run]. rewrite Es. fold (ins_of j steps). rewrite Rn. reflexivity.
      * apply Nat.eqb_neq in Eji.
        destruct (R2 i g c Hg ltac:(rewrite nth_error_set_nth_neq by congruence; exact Hc)) as (c' & N' & Rn).
        exists c'. split; [exact N'|]. cbn [app]. exact Rn.
Qed.

Definition all_ins (gs : list cfg) (steps : list stepio) : list (list (bool * resp)) :=
  map (fun i => ins_of i steps) (seq 0 (length gs)).

Theorem syncer_run_interleaving ord gs steps s' os :
  syncer_run ord gs (fst (syncer_init gs)) steps = Some (s', os) ->
  exists es, interleaving ord gs (all_ins gs steps) es /\ proc (syncer0 gs) es = ((cstat s', wstatus s', []), concat os).
Proof.
  intros H. destruct (syncer_run_stream ord gs steps _ _ _ H ltac:(cbn; apply map_length)) as (es & T & P & R).
  exists es. split; [|exact P]. split; [unfold all_ins; rewrite map_length, seq_length; reflexivity|]. split; [exact T|].
  intros i g ins Hg Hi. assert (Hlt : i < length gs) by (apply nth_error_Some; congruence).
  unfold all_ins in Hi. rewrite nth_error_map in Hi. rewrite (nth_error_nth' _ 0) in Hi by (rewrite seq_length; exact Hlt).
  rewrite seq_nth in Hi by exact Hlt. cbn in Hi. injection Hi as <-.
  destruct (R i g (fst cache_init) Hg) as (c' & _ & Rn).
  { cbn. rewrite nth_error_map, Hg. reflexivity. }
  exists c'. exact Rn.
Qed.
