(* C19 — the handle/block ledger for the PROGRAMS of Model.v / ModelV.v.

   Every client carries a ghost "debt"  d : handle -> block -> N :  what its handle increments are ahead of its
   block writes, plus the decrements it still owes after a release or a failed block write.  safeD is safeQ of
   Common/Cas.v extended with that ghost:  for every answer of the datastore the proof picks the new debt d' and
   shows (dstep) that, if the access was a successful write, the change of the written handle / block counts is
   exactly the change of the debt.  Hence in every reachable state, for all interleavings, conflicts and crashes
        handle.Block[c]  =  #ordinals of c owned by the handle  +  sum of the clients' debts        (ledger)
   and a client that completes its operations has debt 0 provided it met fewer than cf_retries - 1 conflicts
   (otherwise a roll-back may be abandoned after cf_retries attempts, as in the Go code).

   The programs are those of the fixed code: cf_count_requested = cf_aip_leak = cf_stale_cache = false and
   fy = true (releaseByHandle returns when its block delete answers not-found); fx is arbitrary. *)
From Coq Require Import List NArith Bool Arith Lia.
From Verif.Common Require Import Cas.
From Verif.C19 Require Import Model ModelV BlockLemmas Spec Count.
Import ListNotations.

Definition ctr := N -> N -> N.
Definition dzero : ctr := fun _ _ => 0%N.
Definition dadd (d : ctr) (h c n : N) : ctr :=
  fun h' c' => if N.eqb h' h && N.eqb c' c then (d h' c' + n)%N else d h' c'.

Section Debt.
  Variable cf : config.
  Let bs := cf_bsize cf.

  (* ---------------------------------------------------------------- value invariant, allowed writes *)
  Definition VI2 (k : key) (v : value) : Prop :=
    match k, v with
    | KBlock c, VBlock b => I_b b /\ bk_cidr b = c /\ length (bk_allocs b) = bs
    | KHandle _, VHandle m => hgood m
    | KAff _ _, _ => True
    | _, _ => False
    end.
  Definition create_ok2 := VI2.
  Definition update_ok2 (k : key) (v0 v : value) : Prop :=
    match k with
    | KBlock _ => match v0, v with
                  | VBlock b0, VBlock b1 => btrans b0 b1 /\ length (bk_allocs b1) = length (bk_allocs b0)
                  | _, _ => False end
    | KHandle _ => match v with VHandle m => hgood m | _ => False end
    | KAff _ _ => True
    end.
  Definition delete_ok2 (k : key) (v : value) : Prop := True.

  Lemma vi_create2 k v : create_ok2 k v -> VI2 k v.
  Proof. auto. Qed.
  Lemma vi_update2 k v0 v : update_ok2 k v0 v -> VI2 k v0 -> VI2 k v.
  Proof.
    destruct k; simpl; auto.
    - destruct v0, v; simpl; try tauto. intros [[C T] L] (I0 & E & LB). destruct (T I0) as [I1 _].
      split; [exact I1|]. split; [rewrite C; exact E | rewrite L; exact LB].
  Qed.

  Definition hist := Cas.hist key value.
  Notation hext := (@Cas.hext key value).
  Notation hist_ok2 := (@Cas.hist_ok key value VI2).
  Notation justified2 := (@Cas.justified key value lopt create_ok2 update_ok2 delete_ok2).

  (* ---------------------------------------------------------------- what a write does to the debt *)
  Definition hdelta (h : N) (m0 m : list (N * N)) (d d' : ctr) : Prop :=
    (forall c, hcount m c + d h c = hcount m0 c + d' h c)%N /\ (forall h' c, h' <> h -> d' h' c = d h' c).
  Definition bdelta (c : N) (n0 n1 : N -> N) (d d' : ctr) : Prop :=
    (forall h, n1 h + d' h c = n0 h + d h c)%N /\ (forall h c', c' <> c -> d' h c' = d h c').

  Definition dstep (H : hist) (d : ctr) (rq : Cas.req key value lopt) (rs : Cas.resp key value) (d' : ctr) : Prop :=
    match rs with
    | ROk _ =>
      match rq with
      | RCreate (KHandle h) (VHandle m) => hdelta h [] m d d'
      | RUpdate (KHandle h) (VHandle m) rev => exists m0, H rev = Some (KHandle h, VHandle m0) /\ hdelta h m0 m d d'
      | RDelete (KHandle h) rev => exists m0, H rev = Some (KHandle h, VHandle m0) /\ hdelta h m0 [] d d'
      | RCreate (KBlock c) (VBlock b) => bdelta c (fun _ => 0%N) (count_in_block b) d d'
      | RUpdate (KBlock c) (VBlock b) rev =>
          exists b0, H rev = Some (KBlock c, VBlock b0) /\ bdelta c (count_in_block b0) (count_in_block b) d d'
      | RDelete (KBlock c) rev =>
          exists b0, H rev = Some (KBlock c, VBlock b0) /\ bdelta c (count_in_block b0) (fun _ => 0%N) d d'
      | _ => d' = d
      end
    | _ => d' = d
    end.

  (* what the environment guarantees about an answer: its shape, and (from the ledger) that a handle this
     client is owed decrements on exists and counts at least that much *)
  Definition shape_ok (rq : Cas.req key value lopt) (rs : Cas.resp key value) : Prop :=
    match rq, rs with
    | RGet _, ROk _ | RGet _, RNotFound | RList _, RListed _ | RCreate _ _, ROk _ | RCreate _ _, RExists
    | RUpdate _ _ _, ROk _ | RUpdate _ _ _, RNotFound | RUpdate _ _ _, RConflict
    | RDelete _ _, ROk _ | RDelete _ _, RNotFound | RDelete _ _, RConflict => True
    | _, _ => False
    end.
  Definition req_handle (rq : Cas.req key value lopt) : option N :=
    match rq with
    | RGet (KHandle h) | RUpdate (KHandle h) _ _ | RDelete (KHandle h) _ => Some h
    | _ => None
    end.
  Definition env_ok (d : ctr) (rq : Cas.req key value lopt) (rs : Cas.resp key value) : Prop :=
    shape_ok rq rs /\
    match req_handle rq with
    | Some h =>
        match rs with
        | RNotFound => forall c, d h c = 0%N
        | ROk e => match rq with
                   | RGet _ => forall m, e_val e = VHandle m -> forall c, (d h c <= hcount m c)%N
                   | _ => True end
        | _ => True
        end
    | None => True
    end.

  Definition is_conf (rs : Cas.resp key value) : bool := match rs with RConflict => true | _ => false end.

  Fixpoint safeD {R} (nb : nat) (d : ctr) (H : hist) (p : Cas.prog key value lopt R)
           (Q : nat -> ctr -> hist -> R -> Prop) : Prop :=
    match p with
    | Ret r => Q nb d H r
    | Act rq k =>
        justified2 H rq /\
        forall H' rs, hext H H' -> hist_ok2 H' -> Cas.resp_ok H' rq rs -> env_ok d rq rs ->
                      (is_conf rs = true -> (0 < nb)%nat) ->
          exists d', dstep H d rq rs d' /\ safeD (if is_conf rs then pred nb else nb) d' H' (k rs) Q
    end.

  Lemma dstep_mono H H' d rq rs d' : hext H H' -> dstep H d rq rs d' -> dstep H' d rq rs d'.
  Proof.
    intros E. unfold dstep. destruct rs; auto. destruct rq as [k|l|k v|k v rev|k rev]; auto.
    - destruct k; auto; destruct v; auto; intros (x & A & B); exists x; split; auto.
    - destruct k; auto; intros (x & A & B); exists x; split; auto.
  Qed.

  Definition QmonoD {R} (Q : nat -> ctr -> hist -> R -> Prop) :=
    forall nb d H H' r, hext H H' -> Q nb d H r -> Q nb d H' r.

  Lemma safeD_mono {R} (p : Cas.prog key value lopt R) : forall nb d H H' Q, QmonoD Q -> hext H H' ->
    safeD nb d H p Q -> safeD nb d H' p Q.
  Proof.
    induction p as [r|rq k IH]; simpl; intros nb d H H' Q MQ E S.
    - eapply MQ; eauto.
    - destruct S as [J C]. split; [eapply Cas.justified_mono; eauto|].
      intros H'' rs E' HO OK EN NB.
      destruct (C H'' rs (Cas.hext_trans E E') HO OK EN NB) as (d' & DS & S').
      exists d'. split; auto. eapply dstep_mono; eauto.
  Qed.

  Lemma safeD_bind {A B} (p : Cas.prog key value lopt A) : forall nb d H (f : A -> Cas.prog key value lopt B) P Q,
    safeD nb d H p P ->
    (forall nb' d' H' a, (nb' <= nb)%nat -> hext H H' -> P nb' d' H' a -> safeD nb' d' H' (f a) Q) ->
    safeD nb d H (Cas.bind p f) Q.
  Proof.
    induction p as [a|rq k IH]; intros nb d H f P Q S F.
    - simpl in *. apply F; auto. apply Cas.hext_refl.
    - simpl in S. destruct S as [J C].
      change (Cas.bind (Act rq k) f) with (Act rq (fun rs => Cas.bind (k rs) f)).
      simpl. split; auto. intros H' rs E HO OK EN NB.
      destruct (C H' rs E HO OK EN NB) as (d' & DS & S'). exists d'. split; auto.
      eapply IH; eauto. intros nb' d'' H'' a L E' PA. apply F; auto.
      + destruct (is_conf rs); lia.
      + eapply Cas.hext_trans; eauto.
  Qed.

  Lemma safeD_act {A} nb d H rq (k : Cas.resp key value -> Cas.prog key value lopt A) Q :
    justified2 H rq ->
    (forall H' rs, hext H H' -> hist_ok2 H' -> Cas.resp_ok H' rq rs -> env_ok d rq rs ->
                   (is_conf rs = true -> (0 < nb)%nat) ->
       exists d', dstep H d rq rs d' /\ safeD (if is_conf rs then pred nb else nb) d' H' (k rs) Q) ->
    safeD nb d H (Act rq k) Q.
  Proof. intros J C. simpl. split; auto. Qed.

  Lemma safeD_ret {A} nb d H (r : A) (Q : nat -> ctr -> hist -> A -> Prop) : Q nb d H r -> safeD nb d H (Ret r) Q.
  Proof. auto. Qed.
End Debt.

(* ================================================================== the programs *)
Section DebtProgs.
  Variable cf : config.
  Variable fx : bool.
  Hypothesis F1 : cf_count_requested cf = false.
  Hypothesis F2 : cf_aip_leak cf = false.
  Hypothesis F3 : cf_stale_cache cf = false.
  Hypothesis BS : cf_bsize cf <> O.
  Let R := cf_retries cf.

  Notation sD := (safeD cf).
  Notation hext := (@Cas.hext key value).
  Notation hist_ok2 := (@Cas.hist_ok key value (VI2 cf)).

  Definition known2 (H : hist) (c : N) (b : block) (rev : N) : Prop :=
    H rev = Some (KBlock c, VBlock b) /\ I_b b /\ bk_cidr b = c /\ length (bk_allocs b) = cf_bsize cf.
  Lemma known2_mono H H' c b rev : hext H H' -> known2 H c b rev -> known2 H' c b rev.
  Proof. intros E (A & B). split; auto. Qed.

  Definition knownh (H : hist) (h : N) (m : list (N * N)) (rev : N) : Prop :=
    H rev = Some (KHandle h, VHandle m) /\ hgood m.
  Lemma knownh_mono H H' h m rev : hext H H' -> knownh H h m rev -> knownh H' h m rev.
  Proof. intros E (A & B). split; auto. Qed.

  (* post-conditions: the debt is back to d (and something about the result) *)
  Definition Peq {A} (d : ctr) (X : hist -> A -> Prop) : nat -> ctr -> hist -> A -> Prop :=
    fun _ d' H' r => d' = d /\ X H' r.
  Definition Tr {A} : hist -> A -> Prop := fun _ _ => True.
  Definition Kb (c : N) : hist -> res (block * N) -> Prop :=
    fun H r => match r with inl (b, rev) => known2 H c b rev | inr _ => True end.

  Ltac dret := cbv iota; apply safeD_ret; unfold Peq, Tr, Kb; simpl; auto.

  (* ---------------------------------------------------------------- primitives *)
  Lemma d_get_block nb d H c : sD nb d H (get_block c) (Peq d (Kb c)).
  Proof.
    apply safeD_act; [exact I|]. intros H' rs E HO OK EN NB. exists d. split; [destruct rs; reflexivity|].
    destruct rs; try dret. destruct (e_val e) eqn:EV; try dret.
    split; auto. destruct OK as [EI EK]. unfold Cas.entry_in in EI. rewrite EK, EV in EI.
    split; auto. apply HO in EI. exact EI.
  Qed.

  Lemma d_update_block nb d d1 H c b0 b' rev :
    known2 H c b0 rev -> btrans b0 b' -> length (bk_allocs b') = length (bk_allocs b0) ->
    bdelta c (count_in_block b0) (count_in_block b') d d1 ->
    sD nb d H (update_block c b' rev)
       (fun _ d' H' r => match r with
                         | inl (b2, rev') => d' = d1 /\ known2 H' c b2 rev' /\ b2 = bump b'
                         | inr _ => d' = d end).
  Proof.
    intros (KH & I0 & C0 & L0) BT LEN BD. apply safeD_act.
    - right. exists (VBlock b0). split; [exact KH|]. simpl. split; [apply btrans_bump; exact BT | exact LEN].
    - intros H' rs E HO OK EN NB. destruct rs; try (exists d; split; [reflexivity | dret]).
      exists d1. split; [simpl; exists b0; split; [exact KH | exact BD]|].
      dret. split; auto. split; auto. destruct OK as [EI [EK EV]]. unfold Cas.entry_in in EI. rewrite EK, EV in EI.
      split; auto. apply HO in EI. exact EI.
  Qed.

  Lemma d_create_block nb d H c b :
    I_b b -> bk_cidr b = c -> length (bk_allocs b) = cf_bsize cf -> (forall h, count_in_block b h = 0%N) ->
    sD nb d H (create_block c b) (Peq d (Kb c)).
  Proof.
    intros IB CB LB Z. apply safeD_act; [simpl; auto|].
    intros H' rs E HO OK EN NB. exists d. split.
    - destruct rs; try reflexivity. simpl. split; [intros h; rewrite Z; lia | auto].
    - destruct rs; try dret. split; auto.
      destruct OK as [EI [EK EV]]. unfold Cas.entry_in in EI. rewrite EK, EV in EI. split; auto.
  Qed.

  Lemma d_delete_block nb d d1 H c b0 rev :
    known2 H c b0 rev -> bdelta c (count_in_block b0) (fun _ => 0%N) d d1 ->
    sD nb d H (delete_block c rev) (fun _ d' _ r => match r with inl _ => d' = d1 | inr _ => d' = d end).
  Proof.
    intros (KH & _) BD. apply safeD_act; [left; intros; exact I|].
    intros H' rs E HO OK EN NB. destruct rs; try (exists d; split; [reflexivity | dret]).
    exists d1. split; [simpl; exists b0; split; [exact KH | exact BD] | dret].
  Qed.

  Lemma d_get_aff nb d H host c : sD nb d H (get_aff host c) (Peq d Tr).
  Proof.
    apply safeD_act; [exact I|]. intros H' rs E HO OK EN NB. exists d. split; [destruct rs; reflexivity|].
    destruct rs; try dret. destruct (e_val e); dret.
  Qed.
  Lemma d_update_aff nb d H host c s rev : sD nb d H (update_aff host c s rev) (Peq d Tr).
  Proof.
    apply safeD_act; [left; intros; exact I|]. intros H' rs E HO OK EN NB. exists d.
    split; [destruct rs; reflexivity | destruct rs; dret].
  Qed.
  Lemma d_create_aff nb d H host c s : sD nb d H (create_aff host c s) (Peq d Tr).
  Proof.
    apply safeD_act; [exact I|]. intros H' rs E HO OK EN NB. exists d.
    split; [destruct rs; reflexivity | destruct rs; dret].
  Qed.
  Lemma d_delete_aff nb d H host c rev : sD nb d H (delete_aff host c rev) (Peq d Tr).
  Proof.
    apply safeD_act; [left; intros; exact I|]. intros H' rs E HO OK EN NB. exists d.
    split; [destruct rs; reflexivity | destruct rs; dret].
  Qed.

  Lemma d_get_handle nb d H h :
    sD nb d H (get_handle h)
       (Peq d (fun H' r => match r with
                           | inl (m, rev) => knownh H' h m rev /\ forall c, (d h c <= hcount m c)%N
                           | inr _ => forall c, d h c = 0%N end)).
  Proof.
    apply safeD_act; [exact I|]. intros H' rs E HO OK EN NB. exists d. split; [destruct rs; reflexivity|].
    destruct EN as [SH EN]. simpl in EN.
    destruct rs; simpl in SH; try contradiction.
    - destruct OK as [EI EK]. unfold Cas.entry_in in EI. rewrite EK in EI. pose proof (HO _ _ _ EI) as V.
      destruct (e_val e) eqn:EV; simpl in V; try contradiction.
      dret. split; auto. split; [split; auto|]. apply EN; auto.
    - dret.
  Qed.

  Lemma d_update_handle nb d d1 H h m0 m rev :
    knownh H h m0 rev -> hgood m -> hdelta h m0 m d d1 ->
    sD nb d H (update_handle h m rev)
       (fun nb' d' _ r => match r with
                        | inl _ => d' = d1
                        | inr e => d' = d /\ ((e = EConflict /\ (nb' < nb)%nat) \/ forall c, d h c = 0%N) end).
  Proof.
    intros (KH & _) SM HD. apply safeD_act; [left; intros; exact SM|].
    intros H' rs E HO OK EN NB. destruct EN as [SH EN]. simpl in EN.
    destruct rs; simpl in SH; try contradiction.
    - exists d1. split; [simpl; exists m0; split; auto | dret].
    - exists d. split; [reflexivity | dret].
    - exists d. split; [reflexivity | dret]. split; auto. left. split; auto. specialize (NB eq_refl). lia.
  Qed.

  Lemma d_create_handle nb d d1 H h m :
    hgood m -> hdelta h [] m d d1 ->
    sD nb d H (create_handle h m) (fun _ d' _ r => match r with inl _ => d' = d1 | inr _ => d' = d end).
  Proof.
    intros SM HD. apply safeD_act; [exact SM|].
    intros H' rs E HO OK EN NB. destruct rs; try (exists d; split; [reflexivity | dret]).
    exists d1. split; [exact HD | dret].
  Qed.

  Lemma d_delete_handle nb d d1 H h m0 rev :
    knownh H h m0 rev -> hdelta h m0 [] d d1 ->
    sD nb d H (delete_handle h rev)
       (fun nb' d' _ r => match r with
                        | inl _ => d' = d1
                        | inr e => d' = d /\ ((e = EConflict /\ (nb' < nb)%nat) \/ forall c, d h c = 0%N) end).
  Proof.
    intros (KH & _) HD. apply safeD_act; [left; intros; exact I|].
    intros H' rs E HO OK EN NB. destruct EN as [SH EN]. simpl in EN.
    destruct rs; simpl in SH; try contradiction.
    - exists d1. split; [simpl; exists m0; split; auto | dret].
    - exists d. split; [reflexivity | dret].
    - exists d. split; [reflexivity | dret]. split; auto. left. split; auto. specialize (NB eq_refl). lia.
  Qed.

  Local Opaque Cas.bind get_block update_block create_block delete_block get_aff update_aff create_aff delete_aff
        get_handle update_handle create_handle delete_handle.

  Ltac dsb L := eapply safeD_bind; [ eapply L | cbv beta; intros ?nb ?d ?H ?r ?LE ?E ?P ].
  Ltac dif := match goal with |- safeD _ _ _ _ (if ?c then _ else _) _ => destruct c end.
  Ltac dsbu KN BT LEN BD := eapply safeD_bind; [ eapply (d_update_block _ _ _ _ _ _ _ _ KN BT LEN BD) | cbv beta; intros ?nb ?d ?H ?r ?LE ?E ?P ].

  (* ---------------------------------------------------------------- handle increments / decrements *)
  Lemma dadd_hdelta d h c n m m' :
    (forall c', hcount m' c' = (hcount m c' + (if N.eqb c' c then n else 0))%N) -> hdelta h m m' d (dadd d h c n).
  Proof.
    intros HC. split.
    - intros c'. rewrite HC. unfold dadd. rewrite N.eqb_refl. simpl. destruct (N.eqb c' c); lia.
    - intros h' c' NE. unfold dadd. destruct (N.eqb h' h) eqn:E; auto. apply N.eqb_eq in E; congruence.
  Qed.

  Lemma hgood_hinc m c n : hgood m \/ m = [] -> (0 < n)%N -> hgood (hinc m c n).
  Proof.
    intros G PN.
    assert (SP : hsorted m /\ hpos m) by (destruct G as [(A & B & _)| ->]; [auto | split; [exact I | constructor]]).
    destruct SP as [SM PM]. destruct (hinc_spec m c n SM) as [S' _]. destruct (hinc_pos m c n PM PN) as [P' NE].
    split; auto.
  Qed.

  Lemma d_inc_handle fuel : forall nb d H h c n, (0 < n)%N ->
    sD nb d H (inc_handle fuel h c n)
       (fun _ d' _ r => match r with inl _ => d' = dadd d h c n | inr _ => d' = d end).
  Proof.
    induction fuel as [|f IH]; intros nb d H h c n PN; simpl; [reflexivity|].
    dsb d_get_handle. destruct P as [-> P]. destruct r as [[m rev]|e].
    - destruct P as [KH _]. destruct (hinc_spec m c n (proj1 (proj2 KH))) as [SM HC].
      dsb d_update_handle; [exact KH | apply hgood_hinc; [left; exact (proj2 KH) | exact PN] | apply dadd_hdelta; exact HC |].
      destruct r as [u|e]; [dret|]. destruct P as [-> _]. apply IH; exact PN.
    - destruct e; try dret.
      destruct (hinc_spec [] c n I) as [SM HC].
      dsb d_create_handle; [apply (hgood_hinc [] c n); [right; reflexivity | exact PN] | apply dadd_hdelta; exact HC |].
      destruct r as [u|e]; [dret|]. subst. apply IH; exact PN.
  Qed.

  Lemma d_dec_handle fuel : forall nb d d0 H h c n cached,
    (0 < n)%N -> (forall h' c', d h' c' = dadd d0 h c n h' c') ->
    match cached with
    | Some (m, rev) => knownh H h m rev /\ (S nb < fuel)%nat
    | None => (nb < fuel)%nat
    end ->
    sD nb d H (dec_handle false fuel h c n cached) (fun _ d' _ r => d' = d0 /\ r = inl tt).
  Proof.
    induction fuel as [|f IH]; intros nb d d0 H h c n cached POS DD BUD.
    { destruct cached as [[m rev]|]; [destruct BUD; lia | lia]. }
    assert (DHC : (n <= d h c)%N).
    { rewrite DD. unfold dadd. rewrite !N.eqb_refl. simpl. lia. }
    assert (HDEL : forall m m', (forall c', hcount m' c' = (hcount m c' - (if N.eqb c' c then n else 0))%N) ->
                                (n <= hcount m c)%N -> hdelta h m m' d d0).
    { intros m m' HC LE. split.
      - intros c'. rewrite HC, DD. unfold dadd. rewrite N.eqb_refl. simpl. destruct (N.eqb c' c) eqn:E; [|lia].
        apply N.eqb_eq in E; subst. lia.
      - intros h' c' NE. rewrite DD. unfold dadd. destruct (N.eqb h' h) eqn:E; auto. apply N.eqb_eq in E; congruence. }
    simpl.
    (* one attempt with a known copy (m, rev) of the handle, given the budget left after it *)
    assert (TRY : forall nb1 H1 m rev, (nb1 <= nb)%nat -> hext H H1 -> knownh H1 h m rev ->
              (nb1 < S f)%nat -> (hdec m c n = None -> cached <> None /\ (nb1 < f)%nat) ->
              sD nb1 d H1 (match hdec m c n with
                           | None => match cached with
                                     | Some _ => if false then Ret (inr EOther) else dec_handle false f h c n None
                                     | None => Ret (inr EOther) end
                           | Some [] =>
                               w <- delete_handle h rev ;;
                               match w with
                               | inl _ => Ret (inl tt)
                               | inr EConflict => dec_handle false f h c n None
                               | inr ENotFound => Ret (inl tt)
                               | inr e => Ret (inr e)
                               end
                           | Some m' =>
                               w <- update_handle h m' rev ;;
                               match w with
                               | inl _ => Ret (inl tt)
                               | inr EConflict => dec_handle false f h c n None
                               | inr e => Ret (inr e)
                               end
                           end) (fun _ d' _ r => d' = d0 /\ r = inl tt)).
    { intros nb1 H1 m rev LE1 E1 KH B1 NONE.
      destruct (hdec m c n) as [m'|] eqn:HD.
      - pose proof (hdec_Some_ge _ _ _ _ HD) as GE.
        destruct (hdec_spec m c n (proj1 (proj2 KH)) POS GE) as (m2 & HD2 & SM & HC). rewrite HD in HD2. inversion HD2; subst m2.
        assert (RETRY : forall nb2 H2, (nb2 < nb1)%nat -> sD nb2 d H2 (dec_handle false f h c n None) (fun _ d' _ r => d' = d0 /\ r = inl tt)).
        { intros nb2 H2 L2. apply IH; auto. lia. }
        destruct m' as [|x m''].
        + dsb d_delete_handle; [exact KH | apply HDEL; auto |].
          destruct r as [u|e]; [dret|]. destruct P as [-> [[-> LT]|Z]].
          * apply RETRY. exact LT.
          * exfalso. specialize (Z c). lia.
        + dsb d_update_handle; [exact KH | split; [exact SM | split; [exact (hdec_pos _ _ _ _ (proj1 (proj2 (proj2 KH))) HD) | discriminate]] | apply HDEL; auto |].
          destruct r as [u|e]; [dret|]. destruct P as [-> [[-> LT]|Z]].
          * apply RETRY. exact LT.
          * exfalso. specialize (Z c). lia.
      - destruct (NONE eq_refl) as [CN B2]. destruct cached; [|congruence].
        apply IH; auto. }
    destruct cached as [[m rev]|].
    - destruct BUD as [KH B].
      eapply safeD_bind with (P := fun nb' d' H' r => nb' = nb /\ d' = d /\ H' = H /\ r = inl (m, rev)).
      { apply safeD_ret. auto. }
      cbv beta. intros nb1 d1 H1 r LE E (-> & -> & -> & ->).
      apply TRY; auto; try lia. intros _. split; [congruence | lia].
    - dsb d_get_handle. destruct P as [-> P]. destruct r as [[m rev]|e].
      + destruct P as [KH LEQ]. apply TRY; auto; try lia.
        intros HN. exfalso. specialize (LEQ c).
        destruct (hdec_spec m c n (proj1 (proj2 KH)) POS) as (m2 & HD2 & _); [lia|]. congruence.
      + exfalso. specialize (P c). lia.
  Qed.


  Lemma dadd_back d h c n : forall h' c', dadd d h c n h' c' = dadd d h c n h' c'.
  Proof. reflexivity. Qed.

  (* ---------------------------------------------------------------- assignFromExistingBlock *)
  Lemma d_assign_from_block nb d H b rev c num h tag host ac :
    known2 H c b rev -> (nb + 2 <= R)%nat ->
    sD nb d H (assign_from_block cf (b, rev) c num h tag host ac) (Peq d Tr).
  Proof.
    intros KN BUD. unfold assign_from_block. rewrite F1, F3.
    destruct (blk_auto_assign b num h tag ac host) as [[b' ips]|] eqn:AA; [|dret].
    destruct ips as [|a0 ips']; [dret|].
    remember (a0 :: ips') as ips.
    set (n := N.of_nat (length ips)).
    assert (POS : (0 < n)%N) by (unfold n; subst ips; simpl; lia).
    destruct KN as (KH & IB & CB & LB).
    destruct (blk_auto_assign_trans _ _ _ _ _ _ _ _ AA) as [BT _].
    pose proof (blk_auto_assign_len _ _ _ _ _ _ _ _ AA) as LEN.
    dsb d_inc_handle; [exact POS|]. destruct r as [u|e]; [|subst; dret]. subst d0.
    assert (KN0 : known2 H0 c b rev) by (split; auto).
    assert (BD : bdelta c (count_in_block b) (count_in_block b') (dadd d h c n) d).
    { split.
      - intros h'. rewrite (blk_auto_assign_count _ _ _ _ _ _ _ _ h' AA IB). unfold dadd, n.
        rewrite N.eqb_refl, andb_true_r. destruct (N.eqb h' h); lia.
      - intros h' c' NE. unfold dadd. destruct (N.eqb c' c) eqn:E'; [apply N.eqb_eq in E'; congruence|].
        rewrite andb_false_r. reflexivity. }
    dsbu KN0 BT LEN BD.
    destruct r as [[b2 rev2]|e].
    - destruct P as [-> _]. dret.
    - subst d0. dsb (d_dec_handle R nb1 (dadd d h c n) d); [exact POS | reflexivity | simpl; unfold R in *; lia |].
      destruct P as [-> _]. dret.
  Qed.

  (* ---------------------------------------------------------------- affinity / claim path: no effect on the debt *)
  Lemma d_confirm_aff nb d H host c rev : sD nb d H (confirm_aff host c rev) (Peq d Tr).
  Proof.
    unfold confirm_aff. dsb d_update_aff. destruct P as [-> _]. destruct r; [dret|].
    dsb d_get_aff. destruct P as [-> _]. destruct r as [[[| |] rev2]|]; dret.
  Qed.

  Lemma d_get_pending_aff nb d H host c : sD nb d H (get_pending_aff host c) (Peq d Tr).
  Proof.
    unfold get_pending_aff. dsb d_create_aff. destruct P as [-> _]. destruct r as [rev|e]; [dret|].
    destruct e; try dret. dsb d_get_aff. destruct P as [-> _]. destruct r as [[st rev]|e]; [|dret].
    destruct st; try dret; (dsb d_update_aff; destruct P as [-> _]; destruct r; dret).
  Qed.

  Lemma count_new_block c host h : count_in_block (new_block cf c host) h = 0%N.
  Proof.
    apply count_empty. unfold blk_empty, new_block; simpl. apply forallb_forall. intros x X.
    apply repeat_spec in X. subst; auto.
  Qed.
  Lemma I_b_new_block2 c host : I_b (new_block cf c host).
  Proof.
    split; [|split]; simpl.
    - apply seq_NoDup.
    - intros o Hin. apply in_seq in Hin. rewrite repeat_length. split; [|lia]. apply nth_repeat.
    - intros o j. rewrite nth_repeat. discriminate.
  Qed.

  Lemma bdelta_same c n0 n1 d : (forall h, n1 h = n0 h) -> bdelta c n0 n1 d d.
  Proof. intros E. split; auto. intros h. rewrite E. reflexivity. Qed.

  Lemma d_claim_affine_block nb d H host c affrev : sD nb d H (claim_affine_block_v cf fx host c affrev) (Peq d (Kb c)).
  Proof.
    unfold claim_affine_block_v.
    dsb d_create_block; [apply I_b_new_block2 | reflexivity | simpl; apply repeat_length | apply count_new_block |].
    destruct P as [-> P]. destruct r as [[b rev]|e].
    - dsb d_confirm_aff. destruct P0 as [-> _]. destruct r; dret. split; auto. eapply known2_mono; eauto.
    - destruct e; try dret. dsb d_get_block. destruct P0 as [-> P0]. destruct r as [[b rev]|e]; [|dret].
      destruct (optN_eqb (bk_aff b) (Some host)).
      + destruct fx.
        * pose proof (btrans_refl b) as BT. pose proof (eq_refl (length (bk_allocs b))) as LEN.
          pose proof (bdelta_same c (count_in_block b) (count_in_block b) d (fun _ => eq_refl)) as BD.
          dsbu P0 BT LEN BD.
          destruct r as [[b2 rev2]|e]; [|subst; dret]. destruct P1 as (-> & KN & _).
          dsb d_confirm_aff. destruct P1 as [-> _]. destruct r; dret. split; auto. eapply known2_mono; eauto.
        * dsb d_confirm_aff. destruct P1 as [-> _]. destruct r; dret. split; auto. eapply known2_mono; eauto.
      + dsb d_delete_aff. destruct P1 as [-> _]. dret.
  Qed.

  Lemma d_get_block_from_aff nb d H host c aff : sD nb d H (get_block_from_aff_v cf fx host c aff) (Peq d (Kb c)).
  Proof.
    unfold get_block_from_aff_v. destruct aff as [st affrev].
    dsb d_get_block. destruct P as [-> P]. destruct r as [[b brev]|e].
    - dif.
      + dsb d_delete_aff. destruct P0 as [-> _]. destruct r; dret.
      + dif; [dret|].
        dsb d_update_aff. destruct P0 as [-> _]. destruct r as [rev1|e]; [|dret].
        assert (KN1 : known2 H1 c b brev) by (eapply known2_mono; eauto).
        pose proof (btrans_refl b) as BT. pose proof (eq_refl (length (bk_allocs b))) as LEN.
        pose proof (bdelta_same c (count_in_block b) (count_in_block b) d (fun _ => eq_refl)) as BD.
        dsbu KN1 BT LEN BD.
        destruct r as [[b2 rev2]|e]; [|subst; dret]. destruct P0 as (-> & KN & _).
        dsb d_update_aff. destruct P0 as [-> _]. destruct r; dret. split; auto. eapply known2_mono; eauto.
    - destruct e; try dret. dsb d_update_aff. destruct P0 as [-> _]. destruct r as [rev'|e]; [|dret].
      apply d_claim_affine_block.
  Qed.

  Lemma d_find_usable nb d H host : sD nb d H (find_usable cf host) (Peq d Tr).
  Proof.
    unfold find_usable. apply safeD_act; [exact I|]. intros H' rs E HO OK EN NB. exists d.
    split; [destruct rs; reflexivity|]. destruct rs; try dret. destruct (find _ _); dret.
  Qed.

  Definition Ko (c : N) : hist -> option (block * N) -> Prop :=
    fun H r => match r with Some (b, rev) => known2 H c b rev | None => True end.

  Lemma d_try_affine fuel : forall nb d H host c, sD nb d H (try_affine_v cf fx fuel host c) (Peq d (Ko c)).
  Proof.
    induction fuel as [|f IH]; intros nb d H host c; simpl; [split; auto; exact I|].
    dsb d_get_aff. destruct P as [-> _]. destruct r as [aff|e]; [|dret; split; auto; exact I].
    dsb d_get_block_from_aff. destruct P as [-> P]. destruct r as [[b brev]|e].
    - dif; dret; split; auto; exact I.
    - destruct e; try (dret; split; auto; exact I). apply IH.
  Qed.

  Definition Ks : hist -> option (block * N * N) * list N -> Prop :=
    fun H r => match fst r with Some (b, rev, c) => known2 H c b rev | None => True end.

  Lemma d_scan_affine rem : forall nb d H host, sD nb d H (scan_affine_v cf fx rem host) (Peq d Ks).
  Proof.
    induction rem as [|c rest IH]; intros nb d H host; simpl; [split; auto; exact I|].
    dsb d_try_affine. destruct P as [-> P]. destruct r as [[b rev]|]; [dret | apply IH].
  Qed.

  Definition Kc (c : N) : hist -> claim_res -> Prop :=
    fun H r => match r with CRBlock (b, rev) => known2 H c b rev | _ => True end.

  Lemma d_claim_inner fuel : forall nb d H host c, sD nb d H (claim_inner_v cf fx fuel host c) (Peq d (Kc c)).
  Proof.
    induction fuel as [|f IH]; intros nb d H host c; simpl; [split; auto; exact I|].
    dsb d_get_pending_aff. destruct P as [-> _]. destruct r as [aff|e].
    - dsb d_get_block_from_aff. destruct P as [-> P]. destruct r as [[b brev]|e].
      + dif; dret; split; auto; exact I.
      + destruct e; try (dret; split; auto; exact I). apply IH.
    - destruct e; try (dret; split; auto; exact I). apply IH.
  Qed.

  Definition Kcl : hist -> res (block * N * N) -> Prop :=
    fun H r => match r with inl (b, rev, c) => known2 H c b rev | inr _ => True end.

  Lemma d_claim_outer fuel : forall nb d H host, sD nb d H (claim_outer_v cf fx fuel host) (Peq d Kcl).
  Proof.
    induction fuel as [|f IH]; intros nb d H host; simpl; [split; auto; exact I|].
    dsb d_find_usable. destruct P as [-> _]. destruct r as [c|e]; [|dret; split; auto; exact I].
    dsb d_claim_inner. destruct P as [-> P]. destruct r as [[b rev]| |e]; [dret | apply IH | dret; split; auto; exact I].
  Qed.

  Definition Kf : hist -> res (block * N * N * bool) * list N -> Prop :=
    fun H r => match fst r with inl (b, rev, c, _) => known2 H c b rev | inr _ => True end.

  Lemma d_find_or_claim nb d H rem host allow : sD nb d H (find_or_claim_v cf fx rem host allow) (Peq d Kf).
  Proof.
    unfold find_or_claim_v. dsb d_scan_affine. destruct P as [-> P]. destruct r as [[[[b rev] c]|] rest].
    - dret.
    - dif; [dret; split; auto; exact I|]. dif; [|dret; split; auto; exact I].
      dsb d_claim_outer. destruct P0 as [-> P0]. destruct r as [[[b rev] c]|e]; dret.
  Qed.

  (* ---------------------------------------------------------------- autoAssign *)
  Lemma d_assign_retry fuel : forall nb d H b rev c rem h tag host,
    known2 H c b rev -> (nb + 2 <= R)%nat ->
    sD nb d H (assign_retry cf fuel (b, rev) c rem h tag host) (Peq d Tr).
  Proof.
    induction fuel as [|f IH]; intros nb d H b rev c rem h tag host KN BUD; simpl; [split; auto; exact I|].
    dsb d_assign_from_block; [exact KN | exact BUD |]. destruct P as [-> _]. destruct r as [ips|e]; [dret|].
    destruct e; try dret.
    dsb d_get_block. destruct P as [-> P]. destruct r as [[b' rev']|e]; [|dret].
    apply IH; [exact P | lia].
  Qed.

  Lemma d_na_try fuel : forall nb d H c rem h tag host, (nb + 2 <= R)%nat ->
    sD nb d H (na_try cf fuel c rem h tag host) (Peq d Tr).
  Proof.
    induction fuel as [|f IH]; intros nb d H c rem h tag host BUD; simpl; [split; auto; exact I|].
    dsb d_get_block. destruct P as [-> P]. destruct r as [[b rev]|e]; [|dret].
    dsb d_assign_from_block; [exact P | lia |]. destruct P0 as [-> _]. destruct r as [ips|e]; [dret|].
    destruct e; try dret. apply IH. lia.
  Qed.

  Lemma d_na_loop order : forall nb d H ips num h tag host, (nb + 2 <= R)%nat ->
    sD nb d H (na_loop cf order ips num h tag host) (Peq d Tr).
  Proof.
    induction order as [|c rest IH]; intros nb d H ips num h tag host BUD; simpl; [split; auto; exact I|].
    dif; [dret|]. dsb d_na_try; [exact BUD|]. destruct P as [-> _]. apply IH. lia.
  Qed.

  Lemma d_aa_loop fuel : forall nb d H ips rem_aff owned num h tag host, (nb + 2 <= R)%nat ->
    sD nb d H (aa_loop_v cf fx fuel ips rem_aff owned num h tag host) (Peq d Tr).
  Proof.
    induction fuel as [|f IH]; intros nb d H ips rem_aff owned num h tag host BUD; simpl.
    - dif; dret.
    - dif; [dret|].
      dsb d_find_or_claim. destruct P as [-> P]. destruct r as [[[[[b rev] c] newly]|e] rem'].
      + dsb d_assign_retry; [exact P | lia |]. destruct P0 as [-> _]. apply IH. lia.
      + destruct e; try dret. dif; [|dret]. dsb d_na_loop; [lia|]. destruct P0 as [-> _]. dret.
  Qed.

  Lemma d_auto_assign nb d H host h tag num : (nb + 2 <= R)%nat ->
    sD nb d H (auto_assign_v cf fx host h tag num) (Peq d Tr).
  Proof.
    intros BUD. unfold auto_assign_v. apply safeD_act; [exact I|]. intros H' rs E HO OK EN NB. exists d.
    split; [destruct rs; reflexivity|]. destruct rs; try dret. apply d_aa_loop. simpl. exact BUD.
  Qed.

  (* ---------------------------------------------------------------- AssignIP *)
  Lemma ordinal_in_block b a : bk_cidr b = block_of cf a -> length (bk_allocs b) = cf_bsize cf ->
    (ordinal_of b a < length (bk_allocs b))%nat.
  Proof.
    intros C L. unfold ordinal_of. rewrite C, L. unfold block_of.
    set (B := N.of_nat (cf_bsize cf)). assert (BP : (0 < B)%N) by (unfold B; lia).
    set (x := (a - cf_pool_base cf)%N).
    assert (X : (x - (x / B) * B < B)%N).
    { pose proof (N.div_mod x B) as DM. pose proof (N.mod_lt x B) as ML. rewrite N.mul_comm in DM. lia. }
    destruct (N.le_gt_cases (cf_pool_base cf) a) as [GE|LT].
    - assert (EQ : (a - (cf_pool_base cf + x / B * B) = x - x / B * B)%N) by (unfold x; lia).
      rewrite EQ. assert (BB : cf_bsize cf = N.to_nat B) by (unfold B; lia). rewrite BB. lia.
    - assert (X0 : x = 0%N) by (unfold x; lia). rewrite X0. rewrite N.div_0_l by lia. simpl.
      assert (a - (cf_pool_base cf + 0) = 0)%N by lia. rewrite H. simpl. lia.
  Qed.

  Lemma d_assign_ip_loop fuel : forall nb d H host h tag a, (nb + 2 <= R)%nat ->
    sD nb d H (assign_ip_loop_v cf fx fuel host h tag a) (Peq d Tr).
  Proof.
    induction fuel as [|f IH]; intros nb d H host h tag a BUD; simpl; [split; auto; exact I|].
    rewrite F2, F3.
    set (c := block_of cf a).
    assert (CONT : forall nb1 H1 b brev, (nb1 <= nb)%nat -> known2 H1 c b brev ->
      sD nb1 d H1
         (match blk_assign b a h tag (cf_strict cf) host with
          | inr e => Ret (ResErr (nz e))
          | inl b' =>
              i <- inc_handle (cf_retries cf) h c 1 ;;
              match i with
              | inr _ => Ret (ResErr EOther)
              | inl _ =>
                  w <- update_block c b' brev ;;
                  match w with
                  | inl _ => Ret (ResErr ENone)
                  | inr EConflict =>
                      u_ <- dec_handle false (cf_retries cf) h c 1 None ;; assign_ip_loop_v cf fx f host h tag a
                  | inr e => u_ <- dec_handle false (cf_retries cf) h c 1 None ;; Ret (ResErr (nz e))
                  end
              end
          end) (Peq d Tr)).
    { intros nb1 H1 b brev LE1 KN.
      destruct (blk_assign b a h tag (cf_strict cf) host) as [b'|e] eqn:BA; [|dret].
      destruct KN as (KH & IB & CB & LB).
      assert (BT : btrans b b') by (destruct (blk_assign_trans _ _ _ _ _ _ _ BA) as [[X _]|[X _]]; exact X).
      destruct (blk_assign_count _ _ _ _ _ _ _ h BA IB (ordinal_in_block b a CB LB)) as [LEN _].
      dsb d_inc_handle; [lia|]. destruct r as [u|e]; [|subst; dret]. subst d0.
      assert (KN0 : known2 H0 c b brev) by (split; auto).
      assert (BD : bdelta c (count_in_block b) (count_in_block b') (dadd d h c 1) d).
      { split.
        - intros h'. destruct (blk_assign_count _ _ _ _ _ _ _ h' BA IB (ordinal_in_block b a CB LB)) as [_ CNT].
          rewrite CNT. unfold dadd. rewrite N.eqb_refl, andb_true_r. destruct (N.eqb h' h); lia.
        - intros h' c' NE. unfold dadd. destruct (N.eqb c' c) eqn:E'; [apply N.eqb_eq in E'; congruence|].
          rewrite andb_false_r. reflexivity. }
      dsbu KN0 BT LEN BD. destruct r as [[b2 rev2]|e]; [destruct P as [-> _]; dret|]. subst d0.
      assert (DEC : forall X : prog result, (forall nb3 H3, (nb3 <= nb2)%nat -> sD nb3 d H3 X (Peq d Tr)) ->
                sD nb2 (dadd d h c 1) H2 (u_ <- dec_handle false (cf_retries cf) h c 1 None ;; X) (Peq d Tr)).
      { intros X SX. dsb (d_dec_handle (cf_retries cf) nb2 (dadd d h c 1) d); [lia | reflexivity | simpl; unfold R in *; lia |].
        destruct P as [-> _]. apply SX. exact LE2. }
      destruct e; try (apply DEC; intros; dret).
      apply DEC. intros nb3 H3 L3. apply IH. lia. }
    dsb d_get_block. destruct P as [-> P]. destruct r as [[b brev]|e].
    - apply CONT; auto.
    - destruct e; try dret.
      dsb d_get_pending_aff. destruct P0 as [-> _]. destruct r as [[st affrev]|e].
      + dsb d_claim_affine_block. destruct P0 as [-> P0]. destruct r as [[b brev]|e].
        * apply CONT; [lia | exact P0].
        * destruct e; try dret. apply IH. lia.
      + destruct e; try dret. apply IH. lia.
  Qed.

  (* ---------------------------------------------------------------- releases *)
  Definition cache_ok (H : hist) (cache : list entry) : Prop :=
    forall h m rev, find_cached cache h = Some (m, rev) -> knownh H h m rev.

  Lemma cache_ok_listed H es : hist_ok2 H -> Forall (Cas.entry_in H) es -> cache_ok H es.
  Proof.
    intros HO F h m rev. induction es as [|e t IH]; simpl; [discriminate|].
    inversion F; subst. destruct (e_key e) eqn:EK; auto. destruct (e_val e) eqn:EV; auto.
    destruct (N.eqb h0 h) eqn:EQ; auto. intros X; inversion X; subst.
    apply N.eqb_eq in EQ; subst. unfold Cas.entry_in in H2. rewrite EK, EV in H2.
    split; auto. apply HO in H2. exact H2.
  Qed.
  Lemma cache_ok_mono H H' cache : hext H H' -> cache_ok H cache -> cache_ok H' cache.
  Proof. intros E C h m rev X. eapply knownh_mono; eauto. Qed.
  Lemma cache_ok_nil H : cache_ok H [].
  Proof. intros h m rev X; discriminate. Qed.

  Definition dplus (d0 : ctr) (c : N) (l : list (N * nat)) : ctr :=
    fun h' c' => if N.eqb c' c then (d0 h' c' + hsum l h')%N else d0 h' c'.

  Definition deq (d d' : ctr) : Prop := forall h c, d' h c = d h c.
  Definition Pdq {A} (d : ctr) : nat -> ctr -> hist -> A -> Prop := fun _ d' _ _ => deq d d'.

  Lemma d_dec_all l : forall nb d d0 H c cache,
    Forall (fun p => (0 < snd p)%nat) l -> (forall h' c', d h' c' = dplus d0 c l h' c') ->
    cache_ok H cache -> (nb + 2 <= R)%nat ->
    sD nb d H (dec_all cf l c cache) (Pdq d0).
  Proof.
    induction l as [|[h n] t IH]; intros nb d d0 H c cache POS DD CK BUD; simpl.
    - intros h' c'. rewrite DD. unfold dplus. simpl. destruct (N.eqb c' c); lia.
    - inversion POS as [|? ? PN PT]; subst. simpl in PN. rewrite F3.
      dsb (d_dec_handle R nb d (dplus d0 c t) H h c (N.of_nat n) (find_cached cache h)).
      + lia.
      + intros h' c'. rewrite DD. unfold dplus, dadd. simpl.
        destruct (N.eqb c' c) eqn:E1; [|rewrite andb_false_r; reflexivity].
        rewrite andb_true_r, (N.eqb_sym h' h). destruct (N.eqb h h'); lia.
      + destruct (find_cached cache h) as [[m rev]|] eqn:FC; [split; [eapply CK; eauto | unfold R in *; lia] | unfold R in *; lia].
      + destruct P as [-> _]. apply IH; auto.
        * eapply cache_ok_mono; eauto.
        * lia.
  Qed.

  Definition wf_rel (c : N) (opts : list (N * option N)) : Prop := forall a, In a (map fst opts) -> (c <= a)%N.

  Lemma d_release_loop fuel : forall nb d H c opts hint cache,
    wf_rel c opts -> cache_ok H cache -> (nb + 2 <= R)%nat ->
    sD nb d H (release_loop cf fuel c opts hint cache) (Pdq d).
  Proof.
    induction fuel as [|f IH]; intros nb d H c opts hint cache WF CK BUD; simpl; [intros ? ?; reflexivity|].
    dsb d_get_block. destruct P as [-> P]. destruct r as [[b brev]|e]; [|destruct e; dret; intros ? ?; reflexivity].
    destruct (blk_release b opts) as [[[b' un] cnt]|e] eqn:BR; [|dret; intros ? ?; reflexivity].
    dif; [dret; intros ? ?; reflexivity|].
    destruct P as (KH & IB & CB & LB).
    assert (WF' : forall a, In a (map fst opts) -> (bk_cidr b <= a)%N) by (rewrite CB; exact WF).
    assert (CNT : forall h', (count_in_block b' h' + hsum cnt h' = count_in_block b h')%N).
    { intros h'. destruct (blk_release_count _ _ _ _ _ h' BR IB WF') as (_ & _ & X); exact X. }
    destruct (blk_release_count _ _ _ _ _ 0%N BR IB WF') as (LEN & POS & _).
    pose proof (blk_release_trans _ _ _ _ _ BR) as BT.
    assert (KN0 : known2 H0 c b brev) by (split; auto).
    eapply safeD_bind with (P := fun _ d' H' (r : res unit) => match r with inl _ => d' = dplus d c cnt | inr _ => d' = d end).
    { destruct (blk_empty b' && optN_eqb (bk_aff b') None) eqn:EMP.
      - apply andb_prop in EMP. destruct EMP as [EM _].
        eapply d_delete_block; [exact KN0|]. split.
        + intros h'. unfold dplus. rewrite N.eqb_refl. pose proof (CNT h') as X. rewrite (count_empty b' h' EM) in X. lia.
        + intros h' c' NE. unfold dplus. destruct (N.eqb c' c) eqn:E1; auto. apply N.eqb_eq in E1; congruence.
      - assert (BD : bdelta c (count_in_block b) (count_in_block b') d (dplus d c cnt)).
        { split.
          - intros h'. unfold dplus. rewrite N.eqb_refl. pose proof (CNT h'). lia.
          - intros h' c' NE. unfold dplus. destruct (N.eqb c' c) eqn:E1; auto. apply N.eqb_eq in E1; congruence. }
        dsbu KN0 BT LEN BD. destruct r as [[b2 rev2]|e]; [destruct P as [-> _]; dret | subst; dret]. }
    cbv beta. intros nb1 d1 H1 r LE1 E1 P1. destruct r as [u|e].
    - subst d1. dsb (d_dec_all (order_by hint cnt) nb1 (dplus d c cnt) d H1 c cache).
      + apply order_by_pos; exact POS.
      + intros h' c'. unfold dplus. rewrite hsum_order_by. reflexivity.
      + eapply cache_ok_mono; [|exact CK]. eapply Cas.hext_trans; eauto.
      + lia.
      + dret.
    - subst d1. destruct e; try (dret; intros ? ?; reflexivity).
      apply IH; [exact WF | eapply cache_ok_mono; [|exact CK]; eapply Cas.hext_trans; eauto | lia].
  Qed.

  Definition wf_op (o : op) : Prop :=
    match o with
    | OpRelease ((a, oh) :: t) _ => wf_rel (block_of cf a) ((a, oh) :: t)
    | _ => True
    end.

  Lemma d_release_ips nb d H opts hint : wf_op (OpRelease opts hint) -> (nb + 2 <= R)%nat ->
    sD nb d H (release_ips cf opts hint) (Pdq d).
  Proof.
    intros WF BUD. unfold release_ips. destruct opts as [|[a oh] t]; [dret; intros ? ?; reflexivity|].
    simpl in WF. dif.
    - apply safeD_act; [exact I|]. intros H' rs E HO OK EN NB. exists d. split; [destruct rs; reflexivity|].
      destruct rs; try (dret; intros ? ?; reflexivity).
      apply d_release_loop; [exact WF | apply cache_ok_listed; [exact HO | exact OK] | simpl; lia].
    - apply d_release_loop; [exact WF | apply cache_ok_nil | exact BUD].
  Qed.

  (* ---------------------------------------------------------------- ReleaseByHandle (fixed variant fy = true) *)
  Lemma d_rbh_one fuel : forall nb d H c h, (nb + 2 <= R)%nat ->
    sD nb d H (rbh_one_w cf true fuel c h) (Peq d Tr).
  Proof.
    induction fuel as [|f IH]; intros nb d H c h BUD; simpl; [split; auto; exact I|].
    dsb d_get_block. destruct P as [-> P]. destruct r as [[b brev]|e]; [|destruct e; dret].
    destruct (blk_release_by_handle b h) as [b' n] eqn:BR.
    destruct n as [|n]; [dret|].
    destruct P as (KH & IB & CB & LB).
    assert (CNT : forall h', (count_in_block b' h' + (if N.eqb h' h then N.of_nat (S n) else 0) = count_in_block b h')%N).
    { intros h'. destruct (blk_release_by_handle_count _ _ _ _ h' BR IB) as [_ X]; exact X. }
    destruct (blk_release_by_handle_count _ _ _ _ 0%N BR IB) as [LEN _].
    pose proof (blk_release_by_handle_trans _ _ _ _ BR) as BT.
    assert (KN0 : known2 H0 c b brev) by (split; auto).
    set (m := N.of_nat (S n)) in *.
    assert (AFTER : forall nb1 H1, (nb1 <= nb0)%nat ->
              sD nb1 (dadd d h c m) H1 (u_ <- dec_handle (cf_stale_cache cf) (cf_retries cf) h c m None ;; Ret (inl tt)) (Peq d (@Tr (res unit)))).
    { intros nb1 H1 L1. rewrite F3. dsb (d_dec_handle (cf_retries cf) nb1 (dadd d h c m) d); [unfold m; lia | reflexivity | simpl; unfold R in *; lia |].
      destruct P as [-> _]. dret. }
    destruct (blk_empty b' && optN_eqb (bk_aff b') None) eqn:EMP.
    - apply andb_prop in EMP. destruct EMP as [EM _].
      dsb (d_delete_block nb0 d (dadd d h c m) H0 c b brev KN0).
      { split.
        - intros h'. unfold dadd. rewrite N.eqb_refl, andb_true_r. pose proof (CNT h') as X.
          rewrite (count_empty b' h' EM) in X. destruct (N.eqb h' h); lia.
        - intros h' c' NE. unfold dadd. destruct (N.eqb c' c) eqn:E1; [apply N.eqb_eq in E1; congruence|].
          rewrite andb_false_r. reflexivity. }
      destruct r as [u|e]; [subst; apply AFTER; lia|]. subst.
      destruct e; try dret. apply IH. lia.
    - assert (BD : bdelta c (count_in_block b) (count_in_block b') d (dadd d h c m)).
      { split.
        - intros h'. unfold dadd. rewrite N.eqb_refl, andb_true_r. pose proof (CNT h'). destruct (N.eqb h' h); lia.
        - intros h' c' NE. unfold dadd. destruct (N.eqb c' c) eqn:E1; [apply N.eqb_eq in E1; congruence|].
          rewrite andb_false_r. reflexivity. }
      dsbu KN0 BT LEN BD. destruct r as [[b2 rev2]|e]; [destruct P as [-> _]; apply AFTER; lia|]. subst.
      destruct e; try dret. apply IH. lia.
  Qed.

  Lemma d_rbh_blocks cs : forall nb d H h, (nb + 2 <= R)%nat -> sD nb d H (rbh_blocks_w cf true cs h) (Peq d Tr).
  Proof.
    induction cs as [|c t IH]; intros nb d H h BUD; simpl; [split; auto; exact I|].
    dsb d_rbh_one; [exact BUD|]. destruct P as [-> _]. destruct r; [apply IH; lia | dret].
  Qed.

  Lemma d_release_by_handle nb d H h hint : (nb + 2 <= R)%nat ->
    sD nb d H (release_by_handle_w cf true h hint) (Peq d Tr).
  Proof.
    intros BUD. unfold release_by_handle_w. dsb d_get_handle. destruct P as [-> _].
    destruct r as [[m rev]|e]; [apply d_rbh_blocks; lia | dret].
  Qed.

  (* ---------------------------------------------------------------- affinity operations *)
  Lemma d_release_block_affinity nb d H host c must : sD nb d H (release_block_affinity host c must) (Peq d Tr).
  Proof.
    unfold release_block_affinity. dsb d_get_aff. destruct P as [-> _]. destruct r as [[st affrev]|e]; [|dret].
    dsb d_get_block. destruct P as [-> P]. destruct r as [[b brev]|e]; [|dret].
    dif; [dsb d_delete_aff; destruct P0 as [-> _]; dret|].
    dif; [dret|].
    dsb d_update_aff. destruct P0 as [-> _]. destruct r as [affrev'|e]; [|dret].
    assert (FIN : forall nb3 H3, sD nb3 d H3 (d2 <- delete_aff host c affrev' ;;
                                      match d2 with
                                      | inl _ => Ret (inl tt)
                                      | inr ENotFound => Ret (inl tt)
                                      | inr e => Ret (inr e)
                                      end) (Peq d (@Tr (res unit)))).
    { intros nb3 H3. dsb d_delete_aff. destruct P0 as [-> _]. destruct r as [u|e]; [dret|]. destruct e; dret. }
    assert (KN2 : known2 H2 c b brev) by (eapply known2_mono; eauto).
    destruct (blk_empty b) eqn:EM.
    - dsb (d_delete_block nb2 d d H2 c b brev KN2).
      { split; auto. intros h'. rewrite (count_empty b h' EM). lia. }
      destruct r as [u|e]; [subst; apply FIN|]. subst. destruct e; try dret. apply FIN.
    - pose proof (btrans_clear_aff b) as BT. pose proof (eq_refl (length (bk_allocs b))) as LEN.
      pose proof (bdelta_same c (count_in_block b) (count_in_block (clear_aff b)) d (fun _ => eq_refl)) as BD.
      dsbu KN2 BT LEN BD. destruct r as [[b2 rev2]|e]; [destruct P0 as [-> _]; apply FIN | subst; dret].
  Qed.

  Lemma d_release_aff_loop fuel : forall nb d H host c must, sD nb d H (release_aff_loop fuel host c must) (Peq d Tr).
  Proof.
    induction fuel as [|f IH]; intros nb d H host c must; simpl; [split; auto; exact I|].
    dsb d_release_block_affinity. destruct P as [-> _]. destruct r as [u|e]; [dret|]. destruct e; try dret. apply IH.
  Qed.

  Lemma d_claim_aff_loop fuel : forall nb d H host c, sD nb d H (claim_aff_loop_v cf fx fuel host c) (Peq d Tr).
  Proof.
    induction fuel as [|f IH]; intros nb d H host c; simpl; [split; auto; exact I|].
    dsb d_get_pending_aff. destruct P as [-> _]. destruct r as [[st affrev]|e].
    - dsb d_claim_affine_block. destruct P as [-> _]. destruct r as [[b brev]|e]; [dret|]. destruct e; try dret. apply IH.
    - destruct e; try dret. apply IH.
  Qed.

  (* ---------------------------------------------------------------- operations and clients *)
  Lemma safeD_weaken {A} (p : prog A) : forall nb d H (Q Q' : nat -> ctr -> hist -> A -> Prop),
    (forall nb' d' H' r, Q nb' d' H' r -> Q' nb' d' H' r) -> sD nb d H p Q -> sD nb d H p Q'.
  Proof.
    induction p as [r|rq k IH]; simpl; intros nb d H Q Q' W S; auto.
    destruct S as [J C]. split; auto. intros H' rs E HO OK EN NB.
    destruct (C H' rs E HO OK EN NB) as (d' & DS & S'). exists d'. split; auto. eapply IH; eauto.
  Qed.

  Lemma Peq_Pdq {A} (d : ctr) nb' d' H' (r : A) : Peq d Tr nb' d' H' r -> Pdq d nb' d' H' r.
  Proof. intros [-> _] ? ?; reflexivity. Qed.

  (* every operation of the fixed code gives the debt back *)
  (* ---------------------------------------------------------------- MaxAllocToHandlePerIPVersion (ModelV.v, OpsM) *)
  Lemma d_inc_handle_m fuel : forall nb d H h c n ma, (0 < n)%N ->
    sD nb d H (inc_handle_m fuel h c n ma)
       (fun _ d' _ r => match r with IOk => d' = dadd d h c n | _ => d' = d end).
  Proof.
    induction fuel as [|f IH]; intros nb d H h c n ma PN; simpl; [reflexivity|].
    dsb d_get_handle. destruct P as [-> P]. destruct r as [[m rev]|e].
    - dif; [dret|]. destruct P as [KH _]. destruct (hinc_spec m c n (proj1 (proj2 KH))) as [SM HC].
      dsb d_update_handle; [exact KH | apply hgood_hinc; [left; exact (proj2 KH) | exact PN] | apply dadd_hdelta; exact HC |].
      destruct r as [u|e]; [dret|]. destruct P as [-> _]. apply IH; exact PN.
    - destruct e; try dret. dif; [dret|].
      destruct (hinc_spec [] c n I) as [SM HC].
      dsb d_create_handle; [apply (hgood_hinc [] c n); [right; reflexivity | exact PN] | apply dadd_hdelta; exact HC |].
      destruct r as [u|e]; [dret|]. subst. apply IH; exact PN.
  Qed.

  Lemma d_ibh_blocks cs : forall nb d H h acc, sD nb d H (ibh_blocks cs h acc) (Peq d Tr).
  Proof.
    induction cs as [|c t IH]; intros nb d H h acc; simpl; [split; auto; exact I|].
    dsb d_get_block. destruct P as [-> _]. destruct r as [[b rev]|e]; apply IH.
  Qed.

  Lemma d_handle_max nb d H h num hint : sD nb d H (handle_max h num hint) (Peq d Tr).
  Proof.
    unfold handle_max, ips_by_handle.
    eapply safeD_bind with (P := Peq d (@Tr (res (list N)))).
    - dsb d_get_handle. destruct P as [-> _]. destruct r as [[m rev]|e]; [|dret].
      dsb d_ibh_blocks. destruct P as [-> _]. dret.
    - cbv beta. intros nb1 d1 H1 r LE E [-> _]. destruct r as [ips|e]; [|dret]. dif; dret.
  Qed.

  Lemma d_assign_from_block_m nb d H b rev c num h tag host ac ma :
    known2 H c b rev -> (nb + 2 <= R)%nat ->
    sD nb d H (assign_from_block_m cf (b, rev) c num h tag host ac ma) (Peq d Tr).
  Proof.
    intros KN BUD. unfold assign_from_block_m.
    destruct (blk_auto_assign b num h tag ac host) as [[b' ips]|] eqn:AA; [|dret].
    destruct ips as [|a0 ips']; [dret|].
    remember (a0 :: ips') as ips.
    set (n := N.of_nat (length ips)).
    assert (POS : (0 < n)%N) by (unfold n; subst ips; simpl; lia).
    destruct KN as (KH & IB & CB & LB).
    destruct (blk_auto_assign_trans _ _ _ _ _ _ _ _ AA) as [BT _].
    pose proof (blk_auto_assign_len _ _ _ _ _ _ _ _ AA) as LEN.
    dsb d_inc_handle_m; [exact POS|]. destruct r as [|e|]; [|subst; dret|subst; dret]. subst d0.
    assert (KN0 : known2 H0 c b rev) by (split; auto).
    assert (BD : bdelta c (count_in_block b) (count_in_block b') (dadd d h c n) d).
    { split.
      - intros h'. rewrite (blk_auto_assign_count _ _ _ _ _ _ _ _ h' AA IB). unfold dadd, n.
        rewrite N.eqb_refl, andb_true_r. destruct (N.eqb h' h); lia.
      - intros h' c' NE. unfold dadd. destruct (N.eqb c' c) eqn:E'; [apply N.eqb_eq in E'; congruence|].
        rewrite andb_false_r. reflexivity. }
    dsbu KN0 BT LEN BD.
    destruct r as [[b2 rev2]|e].
    - destruct P as [-> _]. dret.
    - subst d0. dsb (d_dec_handle R nb1 (dadd d h c n) d); [exact POS | reflexivity | simpl; unfold R in *; lia |].
      destruct P as [-> _]. dret.
  Qed.

  Lemma d_assign_retry_m fuel : forall nb d H b rev c rem num h tag host ma hint,
    known2 H c b rev -> (nb + 2 <= R)%nat ->
    sD nb d H (assign_retry_m cf fuel (b, rev) c rem num h tag host ma hint) (Peq d Tr).
  Proof.
    induction fuel as [|f IH]; intros nb d H b rev c rem num h tag host ma hint KN BUD; simpl; [split; auto; exact I|].
    dsb d_assign_from_block_m; [exact KN | exact BUD |]. destruct P as [-> _]. destruct r as [ips|e|].
    - dret.
    - destruct e; try dret.
      dsb d_get_block. destruct P as [-> P]. destruct r as [[b' rev']|e]; [|dret]. apply IH; [exact P | lia].
    - dsb d_handle_max. destruct P as [-> _]. destruct r as [ips|]; [dret|].
      dsb d_get_block. destruct P as [-> P]. destruct r as [[b' rev']|e]; [|dret]. apply IH; [exact P | lia].
  Qed.

  Lemma d_na_try_m fuel : forall nb d H c rem num h tag host ma hint, (nb + 2 <= R)%nat ->
    sD nb d H (na_try_m cf fuel c rem num h tag host ma hint) (Peq d Tr).
  Proof.
    induction fuel as [|f IH]; intros nb d H c rem num h tag host ma hint BUD; simpl; [split; auto; exact I|].
    dsb d_get_block. destruct P as [-> P]. destruct r as [[b rev]|e]; [|dret].
    dsb d_assign_from_block_m; [exact P | lia |]. destruct P0 as [-> _]. destruct r as [ips|e|].
    - dret.
    - destruct e; try dret. apply IH. lia.
    - dsb d_handle_max. destruct P0 as [-> _]. destruct r as [ips|]; [dret | apply IH; lia].
  Qed.

  Lemma d_na_loop_m order : forall nb d H ips num h tag host ma hint, (nb + 2 <= R)%nat ->
    sD nb d H (na_loop_m cf order ips num h tag host ma hint) (Peq d Tr).
  Proof.
    induction order as [|c rest IH]; intros nb d H ips num h tag host ma hint BUD; simpl; [split; auto; exact I|].
    dif; [dret|]. dsb d_na_try_m; [exact BUD|]. destruct P as [-> _]. dif; [dret | apply IH; lia].
  Qed.

  Lemma d_aa_loop_m fuel : forall nb d H ips rem_aff owned num h tag host ma hint, (nb + 2 <= R)%nat ->
    sD nb d H (aa_loop_m cf fx fuel ips rem_aff owned num h tag host ma hint) (Peq d Tr).
  Proof.
    induction fuel as [|f IH]; intros nb d H ips rem_aff owned num h tag host ma hint BUD; simpl.
    - dif; dret.
    - dif; [dret|].
      dsb d_find_or_claim. destruct P as [-> P]. destruct r as [[[[[b rev] c] newly]|e] rem'].
      + dsb d_assign_retry_m; [exact P | lia |]. destruct P0 as [-> _]. apply IH. lia.
      + destruct e; try dret. dif; [|dret]. dsb d_na_loop_m; [lia|]. destruct P0 as [-> _]. dret.
  Qed.

  Lemma d_auto_assign_m nb d H host h tag num ma hint : (nb + 2 <= R)%nat ->
    sD nb d H (auto_assign_m cf fx host h tag num ma hint) (Peq d Tr).
  Proof.
    intros BUD. unfold auto_assign_m. apply safeD_act; [exact I|]. intros H' rs E HO OK EN NB. exists d.
    split; [destruct rs; reflexivity|]. destruct rs; try dret. apply d_aa_loop_m. simpl. exact BUD.
  Qed.

  Lemma d_assign_ip_loop_m fuel : forall nb d H host h tag a ma hint, (nb + 2 <= R)%nat ->
    sD nb d H (assign_ip_loop_m cf fx fuel host h tag a ma hint) (Peq d Tr).
  Proof.
    induction fuel as [|f IH]; intros nb d H host h tag a ma hint BUD; simpl; [split; auto; exact I|].
    set (c := block_of cf a).
    assert (CONT : forall nb1 H1 b brev, (nb1 <= nb)%nat -> known2 H1 c b brev ->
      sD nb1 d H1
         (match blk_assign b a h tag (cf_strict cf) host with
          | inr EExists =>
              match owner_of b (ordinal_of b a) with
              | Some x => if optN_eqb (at_handle x) (Some h) then Ret (ResErr ENone) else Ret (ResErr EExists)
              | None => Ret (ResErr EExists)
              end
          | inr e => Ret (ResErr (nz e))
          | inl b' =>
              i <- inc_handle_m (cf_retries cf) h c 1 ma ;;
              match i with
              | IMax =>
                  hm <- handle_max h 1 hint ;;
                  match hm with
                  | None => assign_ip_loop_m cf fx f host h tag a ma hint
                  | Some ips => if existsb (N.eqb a) ips then Ret (ResErr ENone) else Ret (ResErr EOther)
                  end
              | IErr _ => Ret (ResErr EOther)
              | IOk =>
                  w <- update_block c b' brev ;;
                  match w with
                  | inl _ => Ret (ResErr ENone)
                  | inr EConflict =>
                      u_ <- dec_handle false (cf_retries cf) h c 1 None ;; assign_ip_loop_m cf fx f host h tag a ma hint
                  | inr e => u_ <- dec_handle false (cf_retries cf) h c 1 None ;; Ret (ResErr (nz e))
                  end
              end
          end) (Peq d Tr)).
    { intros nb1 H1 b brev LE1 KN.
      destruct (blk_assign b a h tag (cf_strict cf) host) as [b'|e] eqn:BA.
      2:{ destruct e; try dret. destruct (owner_of b (ordinal_of b a)); [dif|]; dret. }
      destruct KN as (KH & IB & CB & LB).
      assert (BT : btrans b b') by (destruct (blk_assign_trans _ _ _ _ _ _ _ BA) as [[X _]|[X _]]; exact X).
      destruct (blk_assign_count _ _ _ _ _ _ _ h BA IB (ordinal_in_block b a CB LB)) as [LEN _].
      dsb d_inc_handle_m; [lia|]. destruct r as [|e|].
      - subst d0.
        assert (KN0 : known2 H0 c b brev) by (split; auto).
        assert (BD : bdelta c (count_in_block b) (count_in_block b') (dadd d h c 1) d).
        { split.
          - intros h'. destruct (blk_assign_count _ _ _ _ _ _ _ h' BA IB (ordinal_in_block b a CB LB)) as [_ CNT].
            rewrite CNT. unfold dadd. rewrite N.eqb_refl, andb_true_r. destruct (N.eqb h' h); lia.
          - intros h' c' NE. unfold dadd. destruct (N.eqb c' c) eqn:E'; [apply N.eqb_eq in E'; congruence|].
            rewrite andb_false_r. reflexivity. }
        dsbu KN0 BT LEN BD. destruct r as [[b2 rev2]|e]; [destruct P as [-> _]; dret|]. subst d0.
        assert (DEC : forall X : prog result, (forall nb3 H3, (nb3 <= nb2)%nat -> sD nb3 d H3 X (Peq d Tr)) ->
                  sD nb2 (dadd d h c 1) H2 (u_ <- dec_handle false (cf_retries cf) h c 1 None ;; X) (Peq d Tr)).
        { intros X SX. dsb (d_dec_handle (cf_retries cf) nb2 (dadd d h c 1) d); [lia | reflexivity | simpl; unfold R in *; lia |].
          destruct P as [-> _]. apply SX. exact LE2. }
        destruct e; try (apply DEC; intros; dret).
        apply DEC. intros nb3 H3 L3. apply IH. lia.
      - subst. dret.
      - subst d0. dsb d_handle_max. destruct P as [-> _]. destruct r as [ips|]; [dif; dret | apply IH; lia]. }
    dsb d_get_block. destruct P as [-> P]. destruct r as [[b brev]|e].
    - apply CONT; auto.
    - destruct e; try dret.
      dsb d_get_pending_aff. destruct P0 as [-> _]. destruct r as [[st affrev]|e].
      + dsb d_claim_affine_block. destruct P0 as [-> P0]. destruct r as [[b brev]|e].
        * apply CONT; [lia | exact P0].
        * destruct e; try dret. apply IH. lia.
      + destruct e; try dret. apply IH. lia.
  Qed.

  Theorem d_compile nb d H host o : wf_op o -> (nb + 2 <= R)%nat ->
    sD nb d H (compile_w cf fx true host o) (Pdq d).
  Proof.
    intros WF BUD. destruct o; unfold compile_w; cbv beta iota.
    - eapply (safeD_weaken _ _ _ _ (Peq d Tr)); [intros ? ? ? ? X; apply Peq_Pdq; exact X | apply d_auto_assign; exact BUD].
    - eapply (safeD_weaken _ _ _ _ (Peq d Tr)); [intros ? ? ? ? X; apply Peq_Pdq; exact X | apply d_assign_ip_loop; exact BUD].
    - apply d_release_ips; auto.
    - eapply (safeD_weaken _ _ _ _ (Peq d Tr)); [intros ? ? ? ? X; apply Peq_Pdq; exact X | apply d_release_by_handle; exact BUD].
    - eapply (safeD_weaken _ _ _ _ (Peq d Tr)); [intros ? ? ? ? X; apply Peq_Pdq; exact X | apply d_claim_aff_loop].
    - eapply (safeD_weaken _ _ _ _ (Peq d Tr)); [intros ? ? ? ? X; apply Peq_Pdq; exact X | apply d_release_aff_loop].
    - eapply (safeD_weaken _ _ _ _ (Peq d Tr)); [intros ? ? ? ? X; apply Peq_Pdq; exact X | apply d_auto_assign_m; exact BUD].
    - eapply (safeD_weaken _ _ _ _ (Peq d Tr)); [intros ? ? ? ? X; apply Peq_Pdq; exact X | apply d_assign_ip_loop_m; exact BUD].
  Qed.

  (* ================================================================== the same programs without any bound on the
     number of conflicts: a roll-back may then be abandoned (as in the Go code after cf_retries attempts), so the
     debt need not return to its initial value, but every write is still matched by the debt (dstep): this is
     all the ledger needs, hence handles never under-count in ANY reachable state. *)
  Definition PT {A} : nat -> ctr -> hist -> A -> Prop := fun _ _ _ _ => True.
  Definition dsub (d : ctr) (h c n : N) : ctr :=
    fun h' c' => if N.eqb h' h && N.eqb c' c then (d h' c' - n)%N else d h' c'.
  Definition Pdec (d : ctr) (h c n : N) {A} : nat -> ctr -> hist -> A -> Prop :=
    fun _ d' _ _ => forall h' c', (d h' c' <= d' h' c' + (if N.eqb h' h && N.eqb c' c then n else 0))%N.

  Lemma u_dec_handle fuel : forall nb d H h c n cached,
    (0 < n)%N -> (n <= d h c)%N ->
    match cached with Some (m, rev) => knownh H h m rev | None => True end ->
    sD nb d H (dec_handle false fuel h c n cached) (Pdec d h c n).
  Proof.
    induction fuel as [|f IH]; intros nb d H h c n cached POS DHC CK; simpl.
    { intros h' c'. lia. }
    assert (HDEL : forall m m', (forall c', hcount m' c' = (hcount m c' - (if N.eqb c' c then n else 0))%N) ->
                                (n <= hcount m c)%N -> hdelta h m m' d (dsub d h c n)).
    { intros m m' HC LE. split.
      - intros c'. rewrite HC. unfold dsub. rewrite N.eqb_refl. simpl. destruct (N.eqb c' c) eqn:E; [|lia].
        apply N.eqb_eq in E; subst. lia.
      - intros h' c' NE. unfold dsub. destruct (N.eqb h' h) eqn:E; auto. apply N.eqb_eq in E; congruence. }
    assert (DONE : forall nb1 H1 (x : res unit), sD nb1 (dsub d h c n) H1 (Ret x) (Pdec d h c n)).
    { intros nb1 H1 x. apply safeD_ret. intros h' c'. unfold dsub. destruct (N.eqb h' h && N.eqb c' c); lia. }
    assert (SAME : forall nb1 H1 (x : res unit), sD nb1 d H1 (Ret x) (Pdec d h c n)).
    { intros nb1 H1 x. apply safeD_ret. intros h' c'. lia. }
    assert (TRY : forall nb1 H1 m rev, knownh H1 h m rev ->
              sD nb1 d H1 (match hdec m c n with
                           | None => match cached with
                                     | Some _ => if false then Ret (inr EOther) else dec_handle false f h c n None
                                     | None => Ret (inr EOther) end
                           | Some [] =>
                               w <- delete_handle h rev ;;
                               match w with
                               | inl _ => Ret (inl tt)
                               | inr EConflict => dec_handle false f h c n None
                               | inr ENotFound => Ret (inl tt)
                               | inr e => Ret (inr e)
                               end
                           | Some m' =>
                               w <- update_handle h m' rev ;;
                               match w with
                               | inl _ => Ret (inl tt)
                               | inr EConflict => dec_handle false f h c n None
                               | inr e => Ret (inr e)
                               end
                           end) (Pdec d h c n)).
    { intros nb1 H1 m rev KH.
      destruct (hdec m c n) as [m'|] eqn:HD.
      - pose proof (hdec_Some_ge _ _ _ _ HD) as GE.
        destruct (hdec_spec m c n (proj1 (proj2 KH)) POS GE) as (m2 & HD2 & SM & HC). rewrite HD in HD2. inversion HD2; subst m2.
        destruct m' as [|x m''].
        + dsb d_delete_handle; [exact KH | apply HDEL; auto |].
          destruct r as [u|e]; [subst; apply DONE|]. destruct P as [-> _].
          destruct e; try apply SAME. apply IH; auto.
        + dsb d_update_handle; [exact KH | split; [exact SM | split; [exact (hdec_pos _ _ _ _ (proj1 (proj2 (proj2 KH))) HD) | discriminate]] | apply HDEL; auto |].
          destruct r as [u|e]; [subst; apply DONE|]. destruct P as [-> _].
          destruct e; try apply SAME. apply IH; auto.
      - destruct cached; [apply IH; auto | apply SAME]. }
    destruct cached as [[m rev]|].
    - eapply safeD_bind with (P := fun nb' d' H' r => d' = d /\ H' = H /\ r = inl (m, rev)).
      { apply safeD_ret. auto. }
      cbv beta. intros nb1 d1 H1 r LE E (-> & -> & ->). apply TRY; auto.
    - dsb d_get_handle. destruct P as [-> P]. destruct r as [[m rev]|e]; [|apply SAME].
      destruct P as [KH _]. apply TRY; auto.
  Qed.

  Lemma u_assign_from_block nb d H b rev c num h tag host ac :
    known2 H c b rev -> sD nb d H (assign_from_block cf (b, rev) c num h tag host ac) PT.
  Proof.
    intros KN. unfold assign_from_block. rewrite F1, F3.
    destruct (blk_auto_assign b num h tag ac host) as [[b' ips]|] eqn:AA; [|apply safeD_ret; exact I].
    destruct ips as [|a0 ips']; [apply safeD_ret; exact I|].
    remember (a0 :: ips') as ips.
    set (n := N.of_nat (length ips)).
    assert (POS : (0 < n)%N) by (unfold n; subst ips; simpl; lia).
    destruct KN as (KH & IB & CB & LB).
    destruct (blk_auto_assign_trans _ _ _ _ _ _ _ _ AA) as [BT _].
    pose proof (blk_auto_assign_len _ _ _ _ _ _ _ _ AA) as LEN.
    dsb d_inc_handle; [exact POS|]. destruct r as [u|e]; [|apply safeD_ret; exact I]. subst d0.
    assert (KN0 : known2 H0 c b rev) by (split; auto).
    assert (BD : bdelta c (count_in_block b) (count_in_block b') (dadd d h c n) d).
    { split.
      - intros h'. rewrite (blk_auto_assign_count _ _ _ _ _ _ _ _ h' AA IB). unfold dadd, n.
        rewrite N.eqb_refl, andb_true_r. destruct (N.eqb h' h); lia.
      - intros h' c' NE. unfold dadd. destruct (N.eqb c' c) eqn:E'; [apply N.eqb_eq in E'; congruence|].
        rewrite andb_false_r. reflexivity. }
    dsbu KN0 BT LEN BD.
    destruct r as [[b2 rev2]|e]; [apply safeD_ret; exact I|]. subst d0.
    dsb (u_dec_handle (cf_retries cf) nb1 (dadd d h c n)); [exact POS | unfold dadd; rewrite !N.eqb_refl; simpl; lia | exact I |].
    apply safeD_ret; exact I.
  Qed.

  Ltac uret := cbv iota; apply safeD_ret; exact I.

  Lemma u_assign_retry fuel : forall nb d H b rev c rem h tag host,
    known2 H c b rev -> sD nb d H (assign_retry cf fuel (b, rev) c rem h tag host) PT.
  Proof.
    induction fuel as [|f IH]; intros nb d H b rev c rem h tag host KN; simpl; [exact I|].
    dsb u_assign_from_block; [exact KN|]. destruct r as [ips|e]; [uret|].
    destruct e; try uret.
    dsb d_get_block. destruct P0 as [-> P0]. destruct r as [[b' rev']|e]; [|uret].
    apply IH. exact P0.
  Qed.

  Lemma u_na_try fuel : forall nb d H c rem h tag host, sD nb d H (na_try cf fuel c rem h tag host) PT.
  Proof.
    induction fuel as [|f IH]; intros nb d H c rem h tag host; simpl; [exact I|].
    dsb d_get_block. destruct P as [-> P]. destruct r as [[b rev]|e]; [|uret].
    dsb u_assign_from_block; [exact P|]. destruct r as [ips|e]; [uret|].
    destruct e; try uret. apply IH.
  Qed.

  Lemma u_na_loop order : forall nb d H ips num h tag host, sD nb d H (na_loop cf order ips num h tag host) PT.
  Proof.
    induction order as [|c rest IH]; intros nb d H ips num h tag host; simpl; [exact I|].
    dif; [uret|]. dsb u_na_try. apply IH.
  Qed.

  Lemma u_aa_loop fuel : forall nb d H ips rem_aff owned num h tag host,
    sD nb d H (aa_loop_v cf fx fuel ips rem_aff owned num h tag host) PT.
  Proof.
    induction fuel as [|f IH]; intros nb d H ips rem_aff owned num h tag host; simpl.
    - dif; uret.
    - dif; [uret|].
      dsb d_find_or_claim. destruct P as [-> P]. destruct r as [[[[[b rev] c] newly]|e] rem'].
      + dsb u_assign_retry; [exact P|]. apply IH.
      + destruct e; try uret. dif; [|uret]. dsb u_na_loop. uret.
  Qed.

  Lemma u_auto_assign nb d H host h tag num : sD nb d H (auto_assign_v cf fx host h tag num) PT.
  Proof.
    unfold auto_assign_v. apply safeD_act; [exact I|]. intros H' rs E HO OK EN NB. exists d.
    split; [destruct rs; reflexivity|]. destruct rs; try uret. apply u_aa_loop.
  Qed.

  Lemma u_assign_ip_loop fuel : forall nb d H host h tag a, sD nb d H (assign_ip_loop_v cf fx fuel host h tag a) PT.
  Proof.
    induction fuel as [|f IH]; intros nb d H host h tag a; simpl; [exact I|].
    rewrite F2, F3.
    set (c := block_of cf a).
    assert (CONT : forall nb1 d1 H1 b brev, known2 H1 c b brev ->
      sD nb1 d1 H1
         (match blk_assign b a h tag (cf_strict cf) host with
          | inr e => Ret (ResErr (nz e))
          | inl b' =>
              i <- inc_handle (cf_retries cf) h c 1 ;;
              match i with
              | inr _ => Ret (ResErr EOther)
              | inl _ =>
                  w <- update_block c b' brev ;;
                  match w with
                  | inl _ => Ret (ResErr ENone)
                  | inr EConflict =>
                      u_ <- dec_handle false (cf_retries cf) h c 1 None ;; assign_ip_loop_v cf fx f host h tag a
                  | inr e => u_ <- dec_handle false (cf_retries cf) h c 1 None ;; Ret (ResErr (nz e))
                  end
              end
          end) PT).
    { intros nb1 d1 H1 b brev KN.
      destruct (blk_assign b a h tag (cf_strict cf) host) as [b'|e] eqn:BA; [|uret].
      destruct KN as (KH & IB & CB & LB).
      assert (BT : btrans b b') by (destruct (blk_assign_trans _ _ _ _ _ _ _ BA) as [[X _]|[X _]]; exact X).
      destruct (blk_assign_count _ _ _ _ _ _ _ h BA IB (ordinal_in_block b a CB LB)) as [LEN _].
      dsb d_inc_handle; [lia|]. destruct r as [u|e]; [|uret]. subst d0.
      assert (KN0 : known2 H0 c b brev) by (split; auto).
      assert (BD : bdelta c (count_in_block b) (count_in_block b') (dadd d1 h c 1) d1).
      { split.
        - intros h'. destruct (blk_assign_count _ _ _ _ _ _ _ h' BA IB (ordinal_in_block b a CB LB)) as [_ CNT].
          rewrite CNT. unfold dadd. rewrite N.eqb_refl, andb_true_r. destruct (N.eqb h' h); lia.
        - intros h' c' NE. unfold dadd. destruct (N.eqb c' c) eqn:E'; [apply N.eqb_eq in E'; congruence|].
          rewrite andb_false_r. reflexivity. }
      dsbu KN0 BT LEN BD. destruct r as [[b2 rev2]|e]; [uret|]. subst d0.
      assert (DEC : forall X : prog result, (forall nb3 d3 H3, sD nb3 d3 H3 X PT) ->
                sD nb2 (dadd d1 h c 1) H2 (u_ <- dec_handle false (cf_retries cf) h c 1 None ;; X) PT).
      { intros X SX. dsb (u_dec_handle (cf_retries cf) nb2 (dadd d1 h c 1)); [lia | unfold dadd; rewrite !N.eqb_refl; simpl; lia | exact I |].
        apply SX. }
      destruct e; try (apply DEC; intros; uret).
      apply DEC. intros. apply IH. }
    dsb d_get_block. destruct P as [-> P]. destruct r as [[b brev]|e].
    - apply CONT; auto.
    - destruct e; try uret.
      dsb d_get_pending_aff. destruct P0 as [-> _]. destruct r as [[st affrev]|e].
      + dsb d_claim_affine_block. destruct P0 as [-> P0]. destruct r as [[b brev]|e].
        * apply CONT; exact P0.
        * destruct e; try uret. apply IH.
      + destruct e; try uret. apply IH.
  Qed.

  Lemma u_dec_all l : forall nb d H c cache,
    Forall (fun p => (0 < snd p)%nat) l -> (forall h', (hsum l h' <= d h' c)%N) -> cache_ok H cache ->
    sD nb d H (dec_all cf l c cache) PT.
  Proof.
    induction l as [|[h n] t IH]; intros nb d H c cache POS DD CK; simpl; [exact I|].
    inversion POS as [|? ? PN PT']; subst. simpl in PN. rewrite F3.
    dsb (u_dec_handle (cf_retries cf) nb d H h c (N.of_nat n) (find_cached cache h)).
    - lia.
    - specialize (DD h). simpl in DD. rewrite N.eqb_refl in DD. lia.
    - destruct (find_cached cache h) as [[m rev]|] eqn:FC; [eapply CK; eauto | exact I].
    - apply IH; auto.
      + intros h'. specialize (DD h'). specialize (P h' c). simpl in DD. rewrite N.eqb_refl, andb_true_r in P.
        rewrite (N.eqb_sym h h') in DD. destruct (N.eqb h' h); lia.
      + eapply cache_ok_mono; eauto.
  Qed.

  Lemma u_release_loop fuel : forall nb d H c opts hint cache,
    wf_rel c opts -> cache_ok H cache -> sD nb d H (release_loop cf fuel c opts hint cache) PT.
  Proof.
    induction fuel as [|f IH]; intros nb d H c opts hint cache WF CK; simpl; [exact I|].
    dsb d_get_block. destruct P as [-> P]. destruct r as [[b brev]|e]; [|destruct e; uret].
    destruct (blk_release b opts) as [[[b' un] cnt]|e] eqn:BR; [|uret].
    dif; [uret|].
    destruct P as (KH & IB & CB & LB).
    assert (WF' : forall a, In a (map fst opts) -> (bk_cidr b <= a)%N) by (rewrite CB; exact WF).
    assert (CNT : forall h', (count_in_block b' h' + hsum cnt h' = count_in_block b h')%N).
    { intros h'. destruct (blk_release_count _ _ _ _ _ h' BR IB WF') as (_ & _ & X); exact X. }
    destruct (blk_release_count _ _ _ _ _ 0%N BR IB WF') as (LEN & POS & _).
    pose proof (blk_release_trans _ _ _ _ _ BR) as BT.
    assert (KN0 : known2 H0 c b brev) by (split; auto).
    eapply safeD_bind with (P := fun _ d' H' (r : res unit) => match r with inl _ => d' = dplus d c cnt | inr _ => d' = d end).
    { destruct (blk_empty b' && optN_eqb (bk_aff b') None) eqn:EMP.
      - apply andb_prop in EMP. destruct EMP as [EM _].
        eapply d_delete_block; [exact KN0|]. split.
        + intros h'. unfold dplus. rewrite N.eqb_refl. pose proof (CNT h') as X. rewrite (count_empty b' h' EM) in X. lia.
        + intros h' c' NE. unfold dplus. destruct (N.eqb c' c) eqn:E1; auto. apply N.eqb_eq in E1; congruence.
      - assert (BD : bdelta c (count_in_block b) (count_in_block b') d (dplus d c cnt)).
        { split.
          - intros h'. unfold dplus. rewrite N.eqb_refl. pose proof (CNT h'). lia.
          - intros h' c' NE. unfold dplus. destruct (N.eqb c' c) eqn:E1; auto. apply N.eqb_eq in E1; congruence. }
        dsbu KN0 BT LEN BD. destruct r as [[b2 rev2]|e]; [destruct P as [-> _]; apply safeD_ret; reflexivity | subst; apply safeD_ret; reflexivity]. }
    cbv beta. intros nb1 d1 H1 r LE1 E1 P1. destruct r as [u|e].
    - subst d1. dsb (u_dec_all (order_by hint cnt) nb1 (dplus d c cnt) H1 c cache).
      + apply order_by_pos; exact POS.
      + intros h'. unfold dplus. rewrite N.eqb_refl, hsum_order_by. lia.
      + eapply cache_ok_mono; [|exact CK]. eapply Cas.hext_trans; eauto.
      + uret.
    - subst d1. destruct e; try uret.
      apply IH; [exact WF | eapply cache_ok_mono; [|exact CK]; eapply Cas.hext_trans; eauto].
  Qed.

  Lemma u_release_ips nb d H opts hint : wf_op (OpRelease opts hint) -> sD nb d H (release_ips cf opts hint) PT.
  Proof.
    intros WF. unfold release_ips. destruct opts as [|[a oh] t]; [uret|].
    simpl in WF. dif.
    - apply safeD_act; [exact I|]. intros H' rs E HO OK EN NB. exists d. split; [destruct rs; reflexivity|].
      destruct rs; try uret.
      apply u_release_loop; [exact WF | apply cache_ok_listed; [exact HO | exact OK]].
    - apply u_release_loop; [exact WF | apply cache_ok_nil].
  Qed.

  Lemma u_rbh_one fuel : forall nb d H c h, sD nb d H (rbh_one_w cf true fuel c h) PT.
  Proof.
    induction fuel as [|f IH]; intros nb d H c h; simpl; [exact I|].
    dsb d_get_block. destruct P as [-> P]. destruct r as [[b brev]|e]; [|destruct e; uret].
    destruct (blk_release_by_handle b h) as [b' n] eqn:BR.
    destruct n as [|n]; [uret|].
    destruct P as (KH & IB & CB & LB).
    assert (CNT : forall h', (count_in_block b' h' + (if N.eqb h' h then N.of_nat (S n) else 0) = count_in_block b h')%N).
    { intros h'. destruct (blk_release_by_handle_count _ _ _ _ h' BR IB) as [_ X]; exact X. }
    destruct (blk_release_by_handle_count _ _ _ _ 0%N BR IB) as [LEN _].
    pose proof (blk_release_by_handle_trans _ _ _ _ BR) as BT.
    assert (KN0 : known2 H0 c b brev) by (split; auto).
    set (m := N.of_nat (S n)) in *.
    assert (AFTER : forall nb1 H1,
              sD nb1 (dadd d h c m) H1 (u_ <- dec_handle (cf_stale_cache cf) (cf_retries cf) h c m None ;; Ret (inl tt)) (@PT (res unit))).
    { intros nb1 H1. rewrite F3. dsb (u_dec_handle (cf_retries cf) nb1 (dadd d h c m)); [unfold m; lia | unfold dadd; rewrite !N.eqb_refl; simpl; lia | exact I |].
      uret. }
    destruct (blk_empty b' && optN_eqb (bk_aff b') None) eqn:EMP.
    - apply andb_prop in EMP. destruct EMP as [EM _].
      dsb (d_delete_block nb0 d (dadd d h c m) H0 c b brev KN0).
      { split.
        - intros h'. unfold dadd. rewrite N.eqb_refl, andb_true_r. pose proof (CNT h') as X.
          rewrite (count_empty b' h' EM) in X. destruct (N.eqb h' h); lia.
        - intros h' c' NE. unfold dadd. destruct (N.eqb c' c) eqn:E1; [apply N.eqb_eq in E1; congruence|].
          rewrite andb_false_r. reflexivity. }
      destruct r as [u|e]; [subst; apply AFTER|]. subst.
      destruct e; try uret. apply IH.
    - assert (BD : bdelta c (count_in_block b) (count_in_block b') d (dadd d h c m)).
      { split.
        - intros h'. unfold dadd. rewrite N.eqb_refl, andb_true_r. pose proof (CNT h'). destruct (N.eqb h' h); lia.
        - intros h' c' NE. unfold dadd. destruct (N.eqb c' c) eqn:E1; [apply N.eqb_eq in E1; congruence|].
          rewrite andb_false_r. reflexivity. }
      dsbu KN0 BT LEN BD. destruct r as [[b2 rev2]|e]; [destruct P as [-> _]; apply AFTER|]. subst.
      destruct e; try uret. apply IH.
  Qed.

  Lemma u_rbh_blocks cs : forall nb d H h, sD nb d H (rbh_blocks_w cf true cs h) PT.
  Proof.
    induction cs as [|c t IH]; intros nb d H h; simpl; [exact I|].
    dsb u_rbh_one. destruct r; [apply IH | uret].
  Qed.

  Lemma u_release_by_handle nb d H h hint : sD nb d H (release_by_handle_w cf true h hint) PT.
  Proof.
    unfold release_by_handle_w. dsb d_get_handle. destruct r as [[m rev]|e]; [apply u_rbh_blocks | uret].
  Qed.

  Lemma to_PT {A} nb d H (p : prog A) Q : sD nb d H p Q -> sD nb d H p PT.
  Proof. apply safeD_weaken. intros; exact I. Qed.

  (* MaxAlloc programs, no bound on conflicts *)
  Lemma u_assign_from_block_m nb d H b rev c num h tag host ac ma :
    known2 H c b rev -> sD nb d H (assign_from_block_m cf (b, rev) c num h tag host ac ma) PT.
  Proof.
    intros KN. unfold assign_from_block_m.
    destruct (blk_auto_assign b num h tag ac host) as [[b' ips]|] eqn:AA; [|uret].
    destruct ips as [|a0 ips']; [uret|].
    remember (a0 :: ips') as ips.
    set (n := N.of_nat (length ips)).
    assert (POS : (0 < n)%N) by (unfold n; subst ips; simpl; lia).
    destruct KN as (KH & IB & CB & LB).
    destruct (blk_auto_assign_trans _ _ _ _ _ _ _ _ AA) as [BT _].
    pose proof (blk_auto_assign_len _ _ _ _ _ _ _ _ AA) as LEN.
    dsb d_inc_handle_m; [exact POS|]. destruct r as [|e|]; [|uret|uret]. subst d0.
    assert (KN0 : known2 H0 c b rev) by (split; auto).
    assert (BD : bdelta c (count_in_block b) (count_in_block b') (dadd d h c n) d).
    { split.
      - intros h'. rewrite (blk_auto_assign_count _ _ _ _ _ _ _ _ h' AA IB). unfold dadd, n.
        rewrite N.eqb_refl, andb_true_r. destruct (N.eqb h' h); lia.
      - intros h' c' NE. unfold dadd. destruct (N.eqb c' c) eqn:E'; [apply N.eqb_eq in E'; congruence|].
        rewrite andb_false_r. reflexivity. }
    dsbu KN0 BT LEN BD.
    destruct r as [[b2 rev2]|e]; [uret|]. subst d0.
    dsb (u_dec_handle (cf_retries cf) nb1 (dadd d h c n)); [exact POS | unfold dadd; rewrite !N.eqb_refl; simpl; lia | exact I |].
    uret.
  Qed.

  Lemma u_assign_retry_m fuel : forall nb d H b rev c rem num h tag host ma hint,
    known2 H c b rev -> sD nb d H (assign_retry_m cf fuel (b, rev) c rem num h tag host ma hint) PT.
  Proof.
    induction fuel as [|f IH]; intros nb d H b rev c rem num h tag host ma hint KN; simpl; [exact I|].
    dsb u_assign_from_block_m; [exact KN|]. destruct r as [ips|e|].
    - uret.
    - destruct e; try uret.
      dsb d_get_block. destruct P0 as [-> P0]. destruct r as [[b' rev']|e]; [|uret]. apply IH. exact P0.
    - dsb d_handle_max. destruct P0 as [-> _]. destruct r as [ips|]; [uret|].
      dsb d_get_block. destruct P0 as [-> P0]. destruct r as [[b' rev']|e]; [|uret]. apply IH. exact P0.
  Qed.

  Lemma u_na_try_m fuel : forall nb d H c rem num h tag host ma hint,
    sD nb d H (na_try_m cf fuel c rem num h tag host ma hint) PT.
  Proof.
    induction fuel as [|f IH]; intros nb d H c rem num h tag host ma hint; simpl; [exact I|].
    dsb d_get_block. destruct P as [-> P]. destruct r as [[b rev]|e]; [|uret].
    dsb u_assign_from_block_m; [exact P|]. destruct r as [ips|e|].
    - uret.
    - destruct e; try uret. apply IH.
    - dsb d_handle_max. destruct P1 as [-> _]. destruct r as [ips|]; [uret | apply IH].
  Qed.

  Lemma u_na_loop_m order : forall nb d H ips num h tag host ma hint,
    sD nb d H (na_loop_m cf order ips num h tag host ma hint) PT.
  Proof.
    induction order as [|c rest IH]; intros nb d H ips num h tag host ma hint; simpl; [exact I|].
    dif; [uret|]. dsb u_na_try_m. dif; [uret | apply IH].
  Qed.

  Lemma u_aa_loop_m fuel : forall nb d H ips rem_aff owned num h tag host ma hint,
    sD nb d H (aa_loop_m cf fx fuel ips rem_aff owned num h tag host ma hint) PT.
  Proof.
    induction fuel as [|f IH]; intros nb d H ips rem_aff owned num h tag host ma hint; simpl.
    - dif; uret.
    - dif; [uret|].
      dsb d_find_or_claim. destruct P as [-> P]. destruct r as [[[[[b rev] c] newly]|e] rem'].
      + dsb u_assign_retry_m; [exact P|]. apply IH.
      + destruct e; try uret. dif; [|uret]. dsb u_na_loop_m. uret.
  Qed.

  Lemma u_auto_assign_m nb d H host h tag num ma hint : sD nb d H (auto_assign_m cf fx host h tag num ma hint) PT.
  Proof.
    unfold auto_assign_m. apply safeD_act; [exact I|]. intros H' rs E HO OK EN NB. exists d.
    split; [destruct rs; reflexivity|]. destruct rs; try uret. apply u_aa_loop_m.
  Qed.

  Lemma u_assign_ip_loop_m fuel : forall nb d H host h tag a ma hint,
    sD nb d H (assign_ip_loop_m cf fx fuel host h tag a ma hint) PT.
  Proof.
    induction fuel as [|f IH]; intros nb d H host h tag a ma hint; simpl; [exact I|].
    set (c := block_of cf a).
    assert (CONT : forall nb1 d1 H1 b brev, known2 H1 c b brev ->
      sD nb1 d1 H1
         (match blk_assign b a h tag (cf_strict cf) host with
          | inr EExists =>
              match owner_of b (ordinal_of b a) with
              | Some x => if optN_eqb (at_handle x) (Some h) then Ret (ResErr ENone) else Ret (ResErr EExists)
              | None => Ret (ResErr EExists)
              end
          | inr e => Ret (ResErr (nz e))
          | inl b' =>
              i <- inc_handle_m (cf_retries cf) h c 1 ma ;;
              match i with
              | IMax =>
                  hm <- handle_max h 1 hint ;;
                  match hm with
                  | None => assign_ip_loop_m cf fx f host h tag a ma hint
                  | Some ips => if existsb (N.eqb a) ips then Ret (ResErr ENone) else Ret (ResErr EOther)
                  end
              | IErr _ => Ret (ResErr EOther)
              | IOk =>
                  w <- update_block c b' brev ;;
                  match w with
                  | inl _ => Ret (ResErr ENone)
                  | inr EConflict =>
                      u_ <- dec_handle false (cf_retries cf) h c 1 None ;; assign_ip_loop_m cf fx f host h tag a ma hint
                  | inr e => u_ <- dec_handle false (cf_retries cf) h c 1 None ;; Ret (ResErr (nz e))
                  end
              end
          end) PT).
    { intros nb1 d1 H1 b brev KN.
      destruct (blk_assign b a h tag (cf_strict cf) host) as [b'|e] eqn:BA.
      2:{ destruct e; try uret. destruct (owner_of b (ordinal_of b a)); [dif|]; uret. }
      destruct KN as (KH & IB & CB & LB).
      assert (BT : btrans b b') by (destruct (blk_assign_trans _ _ _ _ _ _ _ BA) as [[X _]|[X _]]; exact X).
      destruct (blk_assign_count _ _ _ _ _ _ _ h BA IB (ordinal_in_block b a CB LB)) as [LEN _].
      dsb d_inc_handle_m; [lia|]. destruct r as [|e|].
      - subst d0.
        assert (KN0 : known2 H0 c b brev) by (split; auto).
        assert (BD : bdelta c (count_in_block b) (count_in_block b') (dadd d1 h c 1) d1).
        { split.
          - intros h'. destruct (blk_assign_count _ _ _ _ _ _ _ h' BA IB (ordinal_in_block b a CB LB)) as [_ CNT].
            rewrite CNT. unfold dadd. rewrite N.eqb_refl, andb_true_r. destruct (N.eqb h' h); lia.
          - intros h' c' NE. unfold dadd. destruct (N.eqb c' c) eqn:E'; [apply N.eqb_eq in E'; congruence|].
            rewrite andb_false_r. reflexivity. }
        dsbu KN0 BT LEN BD. destruct r as [[b2 rev2]|e]; [uret|]. subst d0.
        assert (DEC : forall X : prog result, (forall nb3 d3 H3, sD nb3 d3 H3 X PT) ->
                  sD nb2 (dadd d1 h c 1) H2 (u_ <- dec_handle false (cf_retries cf) h c 1 None ;; X) PT).
        { intros X SX. dsb (u_dec_handle (cf_retries cf) nb2 (dadd d1 h c 1)); [lia | unfold dadd; rewrite !N.eqb_refl; simpl; lia | exact I |].
          apply SX. }
        destruct e; try (apply DEC; intros; uret).
        apply DEC. intros. apply IH.
      - uret.
      - dsb d_handle_max. destruct r as [ips|]; [dif; uret | apply IH]. }
    dsb d_get_block. destruct P as [-> P]. destruct r as [[b brev]|e].
    - apply CONT; auto.
    - destruct e; try uret.
      dsb d_get_pending_aff. destruct P0 as [-> _]. destruct r as [[st affrev]|e].
      + dsb d_claim_affine_block. destruct P0 as [-> P0]. destruct r as [[b brev]|e].
        * apply CONT; exact P0.
        * destruct e; try uret. apply IH.
      + destruct e; try uret. apply IH.
  Qed.

  Theorem u_compile nb d H host o : wf_op o -> sD nb d H (compile_w cf fx true host o) PT.
  Proof.
    intros WF. destruct o; unfold compile_w; cbv beta iota.
    - apply u_auto_assign.
    - apply u_assign_ip_loop.
    - apply u_release_ips; auto.
    - apply u_release_by_handle.
    - eapply to_PT. apply d_claim_aff_loop.
    - eapply to_PT. apply d_release_aff_loop.
    - apply u_auto_assign_m.
    - apply u_assign_ip_loop_m.
  Qed.
End DebtProgs.
